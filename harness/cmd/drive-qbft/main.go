// drive-qbft: correspondence driver for C02/C03/C04 (core/qbft/qbft.go).
//
// Every cluster member is a real qbft.Run driven in strict lock-step (see node.go). The harness
// is the network and the adversary: it delays, drops, duplicates and reorders messages, fires
// round timers at arbitrary points, starts nodes late, withholds inputs, scripts the Compare
// callback, and lets up to f Byzantine members send arbitrary messages whose attachments are
// recombined from authentic honest cores and their own forgeries (exactly what
// core/consensus/qbft.handle admits: every core is signed by its source).
//
// ops (written with the observed outputs appended after " ;; "):
//
//	cfg <n> <fifo> <leaderOffset>
//	start <p> | input <p> <v> | timeout <p> | recv <p> <ok|fail|timeout> <core>[|<core>...]
package main

import (
	"fmt"
	"sort"
	"strconv"
	"strings"

	"github.com/obolnetwork/charon/core/qbft"

	"verifharness/hx"
)

type cluster struct {
	n, fifo int
	off     int64
	nodes   map[int64]*node
}

func (c *cluster) stopAll() {
	for _, n := range c.nodes {
		n.stop()
	}
}

// execOp executes one op (without observation part) and returns the structured outputs.
func execOp(cl **cluster, op string) ([]out, bool) {
	f := strings.Fields(op)
	switch f[0] {
	case "cfg":
		if *cl != nil {
			(*cl).stopAll()
		}
		n, _ := strconv.Atoi(f[1])
		fifo, _ := strconv.Atoi(f[2])
		off, _ := strconv.ParseInt(f[3], 10, 64)
		*cl = &cluster{n: n, fifo: fifo, off: off, nodes: map[int64]*node{}}
		return nil, true
	case "qf":
		// T-quorum: the real Definition.Quorum()/Faulty() for a cluster size
		n, _ := strconv.Atoi(f[1])
		d := qbft.Definition[int64, int64, int64]{Nodes: n}
		return []out{{Kind: "Q", A: []int64{int64(d.Quorum()), int64(d.Faulty())}}}, false
	case "start":
		p, _ := strconv.ParseInt(f[1], 10, 64)
		if old, ok := (*cl).nodes[p]; ok {
			old.stop()
		}
		nd := startNode(p, (*cl).n, (*cl).fifo, (*cl).off)
		(*cl).nodes[p] = nd
		return nd.opStart(), false
	case "input":
		p, _ := strconv.ParseInt(f[1], 10, 64)
		v, _ := strconv.ParseInt(f[2], 10, 64)
		return (*cl).nodes[p].opInput(v), false
	case "timeout":
		p, _ := strconv.ParseInt(f[1], 10, 64)
		return (*cl).nodes[p].opTimeout(), false
	case "recv":
		p, _ := strconv.ParseInt(f[1], 10, 64)
		w, err := parseWire(f[3])
		hx.Must(err)
		return (*cl).nodes[p].opRecv(w, f[2]), false
	}
	panic("bad op " + op)
}

func main() {
	a := hx.ParseArgs()
	run := hx.NewRun(a.Dir)
	defer run.Close()
	var cl *cluster
	do := func(op string) []out {
		os, isCfg := execOp(&cl, op)
		if isCfg {
			run.Op(op, "ok")
			return nil
		}
		run.Op(op+" ;; "+showOuts(os), "ok")
		return os
	}
	if a.Mode == "exec" {
		mon := newMonitor(run)
		for _, line := range hx.ReadOps(a.Ops) {
			op := strings.SplitN(line, " ;; ", 2)[0]
			mon.beforeOp(op)
			os, isCfg := execOp(&cl, op)
			if isCfg {
				mon.cfg(cl)
				run.Op(op, "ok")
				continue
			}
			mon.afterOp(op, os)
			run.Op(op+" ;; "+showOuts(os), "ok")
		}
		if cl != nil {
			cl.stopAll()
		}
		return
	}
	_ = do
	rng := hx.NewRng(a.Seed)
	g := &gen{rng: rng, run: run, tier: a.Tier}
	// T-quorum: Quorum()/Faulty() of the real Definition against the model's integer formulas
	for n := 1; n <= 130; n++ {
		os, _ := execOp(&cl, fmt.Sprintf("qf %d", n))
		run.Op(fmt.Sprintf("qf %d ;; %s", n, showOuts(os)), "ok")
	}
	for k := 0; k < 4; k++ { // every run starts with the scripted attacks
		g.attackEpisode(&cl, k)
	}
	for n := 4; n <= 7; n++ { // ... and with the partial-prepare / J2 episodes (exactly quorum-many running members)
		g.preparedEpisode(&cl, n, n%2 == 0, 0)
		g.preparedEpisode(&cl, n, n%2 == 1, 0)
		g.preparedEpisode(&cl, n, true, 1)
	}
	for run.NOps < a.N && !run.Enough() {
		if rng.Chance(1, 25) {
			g.attackEpisode(&cl, rng.Intn(4))
		} else if rng.Chance(1, 16) {
			g.preparedEpisode(&cl, 4+rng.Intn(4), rng.Chance(1, 2), rng.Intn(2))
		} else if rng.Chance(1, 4) {
			g.syncEpisode(&cl)
		} else {
			g.advEpisode(&cl)
		}
	}
	if cl != nil {
		cl.stopAll()
	}
}

// ---------------------------------------------------------------------------------------------
// Monitors: evaluate C02/C03/C04 directly on the implementation's trace.

type monitor struct {
	run      *hx.Run
	n, q, f  int
	decided  map[int64][2]int64 // node -> (value, round)
	sent     map[core]bool      // cores broadcast by (real) nodes
	sentWire map[string]int64   // exact honest broadcasts (wire string) -> sender
	cmpFail  map[int64]bool     // nodes that had a scripted compare failure
	started  map[int64]bool
	inputs   map[int64]bool // values given as inputs to real nodes
	foreign  map[int64]bool // values that appeared only in cores of non-started (Byzantine) sources
}

func newMonitor(run *hx.Run) *monitor { return &monitor{run: run} }

func (m *monitor) cfg(cl *cluster) {
	m.n = cl.n
	m.q = (2*cl.n + 2) / 3
	m.f = (cl.n - 1) / 3
	m.decided = map[int64][2]int64{}
	m.sent = map[core]bool{}
	m.sentWire = map[string]int64{}
	m.cmpFail = map[int64]bool{}
	m.started = map[int64]bool{}
	m.inputs = map[int64]bool{}
	m.foreign = map[int64]bool{}
}

func (m *monitor) beforeOp(op string) {}

func (m *monitor) afterOp(op string, os []out) {
	f := strings.Fields(op)
	p, _ := strconv.ParseInt(f[1], 10, 64)
	switch f[0] {
	case "qf":
		return
	case "start":
		m.started[p] = true
	case "input":
		v, _ := strconv.ParseInt(f[2], 10, 64)
		m.inputs[v] = true
	}
	var delivered *wire
	if f[0] == "recv" {
		w, _ := parseWire(f[3])
		delivered = &w
		if f[2] == "fail" {
			for _, o := range os {
				if o.Kind == "R" && o.A[0] == 1 {
					m.cmpFail[p] = true
				}
			}
		}
		for _, c := range append([]core{w.C}, w.Just...) {
			if !m.started[c.Src] {
				m.foreign[c.Value] = true
				m.foreign[c.Pv] = true
			}
		}
	}
	for _, o := range os {
		switch o.Kind {
		case "B":
			c := core{o.A[0], p, o.A[1], o.A[2], o.A[3], o.A[4]}
			m.sent[c] = true
			w := wire{C: c, Just: o.Cores}
			m.sentWire[canonWire(w)] = p
		case "U":
			if delivered != nil {
				if sender, ok := m.sentWire[canonWire(*delivered)]; ok && m.started[sender] {
					if m.cmpFail[sender] {
						m.run.Violate("qbft:honest_preprepare_unjust_after_compare_failure",
							fmt.Sprintf("node %d rejected as unjust the unmodified message %s of honest node %d (which had a compare failure)", p, delivered.String(), sender))
					} else {
						m.run.Violate("qbft:honest_msg_unjust",
							fmt.Sprintf("node %d rejected as unjust the unmodified message %s of honest node %d", p, delivered.String(), sender))
					}
				}
			}
		case "D":
			v, r := o.A[0], o.A[1]
			if _, ok := m.decided[p]; ok {
				m.run.Violate("qbft:decide_twice", fmt.Sprintf("node %d decided again (%d,%d)", p, v, r))
			}
			m.decided[p] = [2]int64{v, r}
			if v == 0 {
				m.run.Violate("qbft:decide_zero", fmt.Sprintf("node %d decided the zero value", p))
			}
			srcs := map[int64]bool{}
			for _, c := range o.Cores {
				if c.Typ == 3 && c.Round == r && c.Value == v {
					srcs[c.Src] = true
				}
			}
			if len(srcs) < m.q {
				m.run.Violate("qbft:decide_unbacked", fmt.Sprintf("node %d decided (%d,%d) with commits from only %d distinct members (quorum %d)", p, v, r, len(srcs), m.q))
			}
			if !m.inputs[v] && !m.foreign[v] {
				m.run.Violate("qbft:decide_not_proposed", fmt.Sprintf("node %d decided %d which no member proposed", p, v))
			}
			for q, d := range m.decided {
				if d[0] != v {
					m.run.Violate("qbft:disagreement", fmt.Sprintf("node %d decided %d but node %d decided %d", p, v, q, d[0]))
				}
			}
		case "BUG":
			m.run.Violate("qbft:sanity_panic", fmt.Sprintf("node %d hit a bug: sanity check", p))
		}
	}
}

func canonWire(w wire) string { return w.C.String() + "#" + showCores(w.Just) }

func sortedKeys(m map[int64]*node) []int64 {
	var ks []int64
	for k := range m {
		ks = append(ks, k)
	}
	sort.Slice(ks, func(i, j int) bool { return ks[i] < ks[j] })
	return ks
}
