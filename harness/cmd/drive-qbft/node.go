package main

import (
	"context"
	"errors"
	"fmt"
	"sort"
	"strings"
	"sync"
	"time"

	"github.com/obolnetwork/charon/core/qbft"
)

// core is a message without attachments: typ,src,round,value,pr,pv.
type core struct {
	Typ, Src, Round, Value, Pr, Pv int64
}

func (c core) String() string {
	return fmt.Sprintf("%d,%d,%d,%d,%d,%d", c.Typ, c.Src, c.Round, c.Value, c.Pr, c.Pv)
}

func coreLess(a, b core) bool {
	x := [6]int64{a.Typ, a.Src, a.Round, a.Value, a.Pr, a.Pv}
	y := [6]int64{b.Typ, b.Src, b.Round, b.Value, b.Pr, b.Pv}
	for i := range x {
		if x[i] != y[i] {
			return x[i] < y[i]
		}
	}
	return false
}

func showCores(cs []core) string {
	s := append([]core(nil), cs...)
	sort.Slice(s, func(i, j int) bool { return coreLess(s[i], s[j]) })
	parts := make([]string, len(s))
	for i, c := range s {
		parts[i] = c.String()
	}
	return strings.Join(parts, "|")
}

// wire is a message as it travels: a core plus attached justification cores (no nesting,
// exactly like the production transport).
type wire struct {
	C    core
	Just []core
}

func (w wire) String() string {
	parts := []string{w.C.String()}
	for _, j := range w.Just {
		parts = append(parts, j.String())
	}
	return strings.Join(parts, "|")
}

func parseCore(s string) (core, error) {
	var c core
	_, err := fmt.Sscanf(s, "%d,%d,%d,%d,%d,%d", &c.Typ, &c.Src, &c.Round, &c.Value, &c.Pr, &c.Pv)
	return c, err
}

func parseWire(s string) (wire, error) {
	parts := strings.Split(s, "|")
	var w wire
	for i, p := range parts {
		c, err := parseCore(p)
		if err != nil {
			return w, err
		}
		if i == 0 {
			w.C = c
		} else {
			w.Just = append(w.Just, c)
		}
	}
	return w, nil
}

// qmsg implements qbft.Msg[int64, int64, int64].
type qmsg struct {
	c    core
	just []qbft.Msg[int64, int64, int64]
	ack  *sync.Once
	ackC chan struct{}
}

func (m *qmsg) touch() {
	if m.ack != nil {
		m.ack.Do(func() { close(m.ackC) })
	}
}
func (m *qmsg) Type() qbft.MsgType                             { m.touch(); return qbft.MsgType(m.c.Typ) }
func (m *qmsg) Instance() int64                                { return 0 }
func (m *qmsg) Source() int64                                  { m.touch(); return m.c.Src }
func (m *qmsg) Round() int64                                   { return m.c.Round }
func (m *qmsg) Value() int64                                   { return m.c.Value }
func (m *qmsg) ValueSource() (int64, error)                    { return m.c.Value, nil }
func (m *qmsg) PreparedRound() int64                           { return m.c.Pr }
func (m *qmsg) PreparedValue() int64                           { return m.c.Pv }
func (m *qmsg) Justification() []qbft.Msg[int64, int64, int64] { return m.just }

func toQ(w wire) *qmsg {
	m := &qmsg{c: w.C}
	for _, j := range w.Just {
		m.just = append(m.just, &qmsg{c: j})
	}
	return m
}

func fromQ(ms []qbft.Msg[int64, int64, int64]) []core {
	var out []core
	for _, m := range ms {
		out = append(out, core{int64(m.Type()), m.Source(), m.Round(), m.Value(), m.PreparedRound(), m.PreparedValue()})
	}
	return out
}

// out is one observable output of Run.
type out struct {
	Kind  string // B D U R C T S BUG EXIT
	A     []int64
	Cores []core
	M     core
}

func (o out) String() string {
	switch o.Kind {
	case "B":
		return fmt.Sprintf("B %d,%d,%d,%d,%d[%s]", o.A[0], o.A[1], o.A[2], o.A[3], o.A[4], showCores(o.Cores))
	case "D":
		return fmt.Sprintf("D %d,%d[%s]", o.A[0], o.A[1], showCores(o.Cores))
	case "U":
		return "U " + o.M.String()
	case "R":
		return fmt.Sprintf("R %d,%d", o.A[0], o.A[1])
	case "C":
		return fmt.Sprintf("C %d,%d,%d", o.A[0], o.A[1], o.A[2])
	case "T":
		return fmt.Sprintf("T %d", o.A[0])
	case "Q":
		return fmt.Sprintf("Q %d,%d", o.A[0], o.A[1])
	}
	return o.Kind
}

func showOuts(os []out) string {
	if len(os) == 0 {
		return "-"
	}
	parts := make([]string, len(os))
	for i, o := range os {
		parts[i] = o.String()
	}
	return strings.Join(parts, " ; ")
}

// node drives one real qbft.Run in strict lock-step.
type node struct {
	p        int64
	mu       sync.Mutex
	outs     []out
	recvCh   chan qbft.Msg[int64, int64, int64]
	inputCh  chan int64
	timerCh  chan time.Time
	cmpMode  string        // ok | fail | timeout, for the op being executed
	cmpBlock chan struct{} // signalled when Compare blocks (timeout mode)
	done     chan struct{}
	runErr   error
	cancel   context.CancelFunc
	dead     bool
	decided  bool
	inputSet bool
}

func (n *node) rec(o out) {
	n.mu.Lock()
	n.outs = append(n.outs, o)
	n.mu.Unlock()
}

func (n *node) take() []out {
	n.mu.Lock()
	defer n.mu.Unlock()
	o := n.outs
	n.outs = nil
	return o
}

func startNode(p int64, nodes, fifo int, leaderOff int64) *node {
	ctx, cancel := context.WithCancel(context.Background())
	n := &node{p: p, recvCh: make(chan qbft.Msg[int64, int64, int64]), inputCh: make(chan int64),
		cmpBlock: make(chan struct{}), done: make(chan struct{}), cancel: cancel, cmpMode: "ok"}
	d := qbft.Definition[int64, int64, int64]{
		IsLeader: func(_ int64, round, process int64) bool {
			return (leaderOff+round)%int64(nodes) == process
		},
		NewTimer: func(round int64) (<-chan time.Time, func()) {
			ch := make(chan time.Time)
			n.mu.Lock()
			n.timerCh = ch
			n.outs = append(n.outs, out{Kind: "T", A: []int64{round}})
			n.mu.Unlock()
			return ch, func() { n.rec(out{Kind: "S"}) }
		},
		Compare: func(ctx context.Context, _ qbft.Msg[int64, int64, int64], _ <-chan int64, _ int64, returnErr chan error, _ chan int64) {
			n.mu.Lock()
			mode := n.cmpMode
			n.mu.Unlock()
			switch mode {
			case "fail":
				returnErr <- errors.New("scripted compare failure")
			case "timeout":
				n.cmpBlock <- struct{}{}
				<-ctx.Done()
			default:
				returnErr <- nil
			}
		},
		Decide: func(_ context.Context, _ int64, value int64, round int64, qcommit []qbft.Msg[int64, int64, int64]) {
			n.rec(out{Kind: "D", A: []int64{value, round}, Cores: fromQ(qcommit)})
		},
		LogUponRule: func(_ context.Context, _ int64, _, round int64, _ qbft.Msg[int64, int64, int64], rule qbft.UponRule) {
			n.rec(out{Kind: "R", A: []int64{int64(rule), round}})
		},
		LogRoundChange: func(_ context.Context, _ int64, _, round, newRound int64, rule qbft.UponRule, _ []qbft.Msg[int64, int64, int64]) {
			n.rec(out{Kind: "C", A: []int64{round, newRound, int64(rule)}})
		},
		LogUnjust: func(_ context.Context, _ int64, _ int64, m qbft.Msg[int64, int64, int64]) {
			if m.Source() < 0 {
				return // the harness's sync ping
			}
			n.rec(out{Kind: "U", M: core{int64(m.Type()), m.Source(), m.Round(), m.Value(), m.PreparedRound(), m.PreparedValue()}})
		},
		Nodes:     nodes,
		FIFOLimit: fifo,
	}
	t := qbft.Transport[int64, int64, int64]{
		Broadcast: func(_ context.Context, typ qbft.MsgType, _ int64, source, round, value, pr, pv int64, just []qbft.Msg[int64, int64, int64]) error {
			if source != p {
				n.rec(out{Kind: "BUG"})
			}
			n.rec(out{Kind: "B", A: []int64{int64(typ), round, value, pr, pv}, Cores: fromQ(just)})
			return nil
		},
		Receive: n.recvCh,
	}
	go func() {
		n.runErr = qbft.Run(ctx, d, t, 0, p, n.inputCh, nil)
		close(n.done)
	}()
	return n
}

// sync waits until Run is back in its select (all callbacks of the previous event done) by
// delivering an unjustified DECIDED ping that changes no state. Returns false if Run exited.
func (n *node) sync() bool {
	ping := &qmsg{c: core{Typ: 5, Src: -1, Round: 1}, ack: &sync.Once{}, ackC: make(chan struct{})}
	for {
		select {
		case n.recvCh <- ping:
			select {
			case <-ping.ackC:
				return true
			case <-n.done:
				return false
			}
		case <-n.cmpBlock:
			// Run is blocked inside compare() waiting for the comparator or the round timer: fire the timer.
			n.mu.Lock()
			ch := n.timerCh
			n.mu.Unlock()
			select {
			case ch <- time.Time{}:
			case <-n.done:
				return false
			}
		case <-n.done:
			return false
		case <-time.After(30 * time.Second):
			panic("qbft.Run did not return to its event loop")
		}
	}
}

// finish renders the outputs of the op just executed; marks exit.
func (n *node) finish(alive bool) []out {
	os := n.take()
	if !alive && !n.dead {
		n.dead = true
		if n.runErr != nil && strings.Contains(n.runErr.Error(), "sanity check") {
			os = append(os, out{Kind: "BUG"})
		} else {
			os = append(os, out{Kind: "EXIT"})
		}
	}
	for _, o := range os {
		if o.Kind == "D" {
			n.decided = true
		}
	}
	return os
}

func (n *node) opStart() []out { return n.finish(n.sync()) }

func (n *node) opRecv(w wire, cmp string) []out {
	if n.dead {
		return nil
	}
	n.mu.Lock()
	n.cmpMode = cmp
	n.mu.Unlock()
	select {
	case n.recvCh <- toQ(w):
	case <-n.done:
		return n.finish(false)
	}
	return n.finish(n.sync())
}

func (n *node) opTimeout() []out {
	if n.dead || n.decided {
		return nil // timerChan is nil after a decision
	}
	n.mu.Lock()
	ch := n.timerCh
	n.mu.Unlock()
	select {
	case ch <- time.Time{}:
	case <-n.done:
		return n.finish(false)
	}
	return n.finish(n.sync())
}

func (n *node) opInput(v int64) []out {
	if n.dead || n.inputSet {
		return nil // inputValueCh is nil after the first value
	}
	n.inputSet = true
	select {
	case n.inputCh <- v:
	case <-n.done:
		return n.finish(false)
	}
	return n.finish(n.sync())
}

func (n *node) stop() {
	n.cancel()
	select {
	case <-n.done:
	case <-time.After(5 * time.Second):
	}
}
