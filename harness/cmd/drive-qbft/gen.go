package main

import (
	"fmt"
	"sort"
	"strings"

	"verifharness/hx"
)

// gen generates adversarial (advEpisode) and timely (syncEpisode) cluster executions.
type gen struct {
	rng  *hx.Rng
	run  *hx.Run
	tier string
	mon  *monitor
	cl   **cluster

	n, q, f  int
	off      int64
	byz      map[int64]bool
	honest   []int64
	inbox    map[int64][]wire
	hWires   []wire        // every honest broadcast
	hCores   map[core]bool // authentic honest cores
	values   []int64       // candidate values
	maxRound int64
}

func (g *gen) do(op string) []out {
	os, isCfg := execOp(g.cl, op)
	if isCfg {
		g.mon.cfg(*g.cl)
		g.run.Op(op, "ok")
		return nil
	}
	g.mon.afterOp(op, os)
	g.run.Op(op+" ;; "+showOuts(os), "ok")
	f := strings.Fields(op)
	g.run.Count("op:" + f[0])
	// feed honest broadcasts into every honest inbox (self included)
	var p int64
	fmt.Sscanf(f[1], "%d", &p)
	for _, o := range os {
		switch o.Kind {
		case "B":
			c := core{o.A[0], p, o.A[1], o.A[2], o.A[3], o.A[4]}
			// the attachment order chosen by the sender depends on Go's map iteration; any order is a
			// legal wire message, the canonical (sorted) one keeps generation reproducible
			js := append([]core(nil), o.Cores...)
			sort.Slice(js, func(i, j int) bool { return coreLess(js[i], js[j]) })
			w := wire{C: c, Just: js}
			g.hWires = append(g.hWires, w)
			g.hCores[c] = true
			for _, j := range o.Cores {
				_ = j
			}
			for _, h := range g.honest {
				g.inbox[h] = append(g.inbox[h], w)
			}
			if c.Round > g.maxRound {
				g.maxRound = c.Round
			}
			g.run.Count(fmt.Sprintf("bcast:type%d", c.Typ))
		case "R":
			g.run.Count(fmt.Sprintf("rule:%d", o.A[0]))
			g.run.Case(fmt.Sprintf("rule:%d:n%d:r%d", o.A[0], g.n, min64(o.A[1], 6)))
		case "U":
			g.run.Count("unjust")
		case "D":
			g.run.Count("decide")
			g.run.Case(fmt.Sprintf("decide:n%d:r%d:byz%d", g.n, min64(o.A[1], 8), len(g.byz)))
		}
	}
	return os
}

func min64(a, b int64) int64 {
	if a < b {
		return a
	}
	return b
}

func (g *gen) setup(cl **cluster, nByz int) {
	g.cl = cl
	if g.mon == nil {
		g.mon = newMonitor(g.run)
	}
	maxN := 7
	if g.tier != "quick" && g.rng.Chance(1, 5) {
		maxN = 10
	}
	g.n = 3 + g.rng.Intn(maxN-2)
	if g.rng.Chance(1, 2) {
		g.n = 4 + g.rng.Intn(4) // 4..7 as in the property's quantifier
	}
	g.q = (2*g.n + 2) / 3
	g.f = (g.n - 1) / 3
	g.off = int64(g.rng.Intn(g.n))
	fifo := 100
	if g.rng.Chance(1, 5) {
		fifo = 2 + g.rng.Intn(5)
	}
	g.byz = map[int64]bool{}
	if nByz < 0 {
		nByz = g.rng.Intn(g.f + 1)
		if g.rng.Chance(1, 2) {
			nByz = g.f
		}
	}
	for _, i := range g.rng.Perm(g.n)[:nByz] {
		g.byz[int64(i)] = true
	}
	g.honest = nil
	for i := 0; i < g.n; i++ {
		if !g.byz[int64(i)] {
			g.honest = append(g.honest, int64(i))
		}
	}
	g.inbox = map[int64][]wire{}
	g.hWires = nil
	g.hCores = map[core]bool{}
	g.values = []int64{1, 2, 3}
	g.maxRound = 1
	g.do(fmt.Sprintf("cfg %d %d %d", g.n, fifo, g.off))
}

func (g *gen) leader(round int64) int64 { return (g.off + round) % int64(g.n) }

// advEpisode: arbitrary schedules and a Byzantine coalition.
func (g *gen) advEpisode(cl **cluster) {
	g.setup(cl, -1)
	started := map[int64]bool{}
	hasInput := map[int64]bool{}
	// one value for everybody, or conflicting candidate values
	sameInputs := g.rng.Chance(1, 3)
	inputOf := func(p int64) int64 {
		if sameInputs {
			return 1
		}
		return g.values[g.rng.Intn(len(g.values))]
	}
	// start a random subset at once; the rest start late or never
	for _, h := range g.honest {
		if g.rng.Chance(3, 4) {
			g.do(fmt.Sprintf("start %d", h))
			started[h] = true
			if g.rng.Chance(3, 4) {
				g.do(fmt.Sprintf("input %d %d", h, inputOf(h)))
				hasInput[h] = true
			}
		}
	}
	cmpEpisode := g.rng.Chance(1, 3) // episodes that script comparison failures/timeouts
	steps := 60 + g.rng.Intn(240)
	// episode temperament: mostly-progressing, timer-happy, or attack-heavy
	wDeliver, wTimer, wByz := 70, 3, 12
	switch g.rng.Intn(4) {
	case 0:
		wDeliver, wTimer, wByz = 50, 14, 20
	case 1:
		wDeliver, wTimer, wByz = 60, 2, 26
	}
	idle := 0
	for k := 0; k < steps; k++ {
		var running []int64
		for _, h := range g.honest {
			if started[h] && !(*cl).nodes[h].dead {
				running = append(running, h)
			}
		}
		c := g.rng.Intn(100)
		switch {
		case c < wDeliver && len(running) > 0: // deliver
			p := running[g.rng.Intn(len(running))]
			ib := g.inbox[p]
			if len(ib) == 0 {
				idle++
				if idle > 6 {
					// nothing in flight: let a timer fire
					g.do(fmt.Sprintf("timeout %d", p))
					idle = 0
				}
				continue
			}
			idle = 0
			i := 0
			if g.rng.Chance(1, 3) {
				i = g.rng.Intn(len(ib))
			}
			w := ib[i]
			if !g.rng.Chance(1, 12) { // else: duplicate delivery later
				g.inbox[p] = append(append([]wire{}, ib[:i]...), ib[i+1:]...)
			}
			cmp := "ok"
			if cmpEpisode && w.C.Typ == 1 {
				switch r := g.rng.Intn(10); {
				case r < 2:
					cmp = "fail"
				case r < 3:
					cmp = "timeout"
				}
			}
			g.do(fmt.Sprintf("recv %d %s %s", p, cmp, w.String()))
		case c < wDeliver+3 && len(running) > 0: // drop
			p := running[g.rng.Intn(len(running))]
			if ib := g.inbox[p]; len(ib) > 0 {
				i := g.rng.Intn(len(ib))
				g.inbox[p] = append(append([]wire{}, ib[:i]...), ib[i+1:]...)
				g.run.Count("drop")
			}
		case c < wDeliver+8: // late start / late input
			h := g.honest[g.rng.Intn(len(g.honest))]
			if !started[h] {
				g.do(fmt.Sprintf("start %d", h))
				started[h] = true
			} else if !hasInput[h] {
				v := inputOf(h)
				if g.rng.Chance(1, 60) {
					v = 0 // zero input: Run must exit with an error
				}
				g.do(fmt.Sprintf("input %d %d", h, v))
				hasInput[h] = true
			}
		case c < wDeliver+8+wTimer && len(running) > 0: // timer
			p := running[g.rng.Intn(len(running))]
			g.do(fmt.Sprintf("timeout %d", p))
		case c < wDeliver+8+wTimer+wByz && len(g.byz) > 0 && len(running) > 0: // Byzantine action
			p := running[g.rng.Intn(len(running))]
			if w, ok := g.byzMsg(); ok {
				cmp := "ok"
				if cmpEpisode && g.rng.Chance(1, 6) {
					cmp = "fail"
				}
				g.run.Count("byz:" + fmt.Sprint(w.C.Typ))
				g.do(fmt.Sprintf("recv %d %s %s", p, cmp, w.String()))
				if g.rng.Chance(1, 2) { // equivocation: a different message to another node
					if w2, ok := g.byzMsg(); ok {
						p2 := running[g.rng.Intn(len(running))]
						g.do(fmt.Sprintf("recv %d ok %s", p2, w2.String()))
					}
				}
			}
		case len(running) > 0: // replay of an honest message, possibly with other attachments
			if len(g.hWires) > 0 {
				p := running[g.rng.Intn(len(running))]
				w := g.hWires[g.rng.Intn(len(g.hWires))]
				if g.rng.Chance(1, 2) {
					w = wire{C: w.C, Just: g.someCores(g.rng.Intn(2 * g.n))}
				}
				g.run.Count("replay")
				g.do(fmt.Sprintf("recv %d ok %s", p, w.String()))
			}
		}
	}
}

// authentic honest cores matching a predicate
func (g *gen) honestCores(pred func(core) bool) []core {
	var out []core
	for c := range g.hCores {
		if pred(c) {
			out = append(out, c)
		}
	}
	// deterministic order (map iteration is random)
	for i := 1; i < len(out); i++ {
		for j := i; j > 0 && coreLess(out[j], out[j-1]); j-- {
			out[j], out[j-1] = out[j-1], out[j]
		}
	}
	return out
}

func (g *gen) byzList() []int64 {
	var b []int64
	for i := 0; i < g.n; i++ {
		if g.byz[int64(i)] {
			b = append(b, int64(i))
		}
	}
	return b
}

// someCores: a random bag of admissible cores (authentic honest ones and Byzantine forgeries).
func (g *gen) someCores(k int) []core {
	all := g.honestCores(func(core) bool { return true })
	var out []core
	for i := 0; i < k; i++ {
		if len(all) > 0 && g.rng.Chance(2, 3) {
			out = append(out, all[g.rng.Intn(len(all))])
		} else if b := g.byzList(); len(b) > 0 {
			out = append(out, g.forge(b[g.rng.Intn(len(b))]))
		}
	}
	return out
}

func (g *gen) someRound() int64 {
	r := g.maxRound + int64(g.rng.Intn(3)) - 1
	if g.rng.Chance(1, 4) {
		r = 1 + int64(g.rng.Intn(int(g.maxRound)+2))
	}
	if r < 1 {
		r = 1
	}
	return r
}

func (g *gen) someValue() int64 { return g.values[g.rng.Intn(len(g.values))] }

// byzValue: a Byzantine member may also vote for / propose / claim the empty value 0 (the wire layer
// admits a zero value hash in every message type); honest members never do.
func (g *gen) byzValue() int64 {
	if g.rng.Chance(1, 5) {
		return 0
	}
	return g.someValue()
}

// forge: an arbitrary core signed by Byzantine member b (no junk in fields the type does not use,
// so that Go's map-order dependent choices between equal-looking cores stay unobservable).
func (g *gen) forge(b int64) core {
	t := int64(1 + g.rng.Intn(4))
	c := core{Typ: t, Src: b, Round: g.someRound(), Value: g.byzValue()}
	if t == 4 {
		c.Value = 0
		if g.rng.Chance(1, 2) {
			c.Pr = 1 + int64(g.rng.Intn(int(c.Round)))
			c.Pv = g.someValue()
		}
	}
	return c
}

// byzMsg crafts a message of a Byzantine member that has a fair chance to be justified.
func (g *gen) byzMsg() (wire, bool) {
	bs := g.byzList()
	if len(bs) == 0 {
		return wire{}, false
	}
	b := bs[g.rng.Intn(len(bs))]
	switch g.rng.Intn(7) {
	case 0: // plain vote (PREPARE / COMMIT) for any value, several values over time
		t := int64(2 + g.rng.Intn(2))
		return wire{C: core{Typ: t, Src: b, Round: g.someRound(), Value: g.byzValue()}}, true
	case 1: // ROUND-CHANGE with a forged or real prepared claim
		r := g.someRound() + 1
		c := core{Typ: 4, Src: b, Round: r}
		var just []core
		if g.rng.Chance(2, 3) {
			pr := 1 + int64(g.rng.Intn(int(r)))
			pv := g.someValue()
			c.Pr, c.Pv = pr, pv
			just = g.prepareSet(pr, pv)
		}
		return wire{C: c, Just: just}, true
	case 2, 3: // PRE-PREPARE as leader of some round (equivocating on the value)
		r := g.someRound()
		for k := 0; k < g.n && g.leader(r) != b; k++ {
			r++
		}
		if g.leader(r) != b {
			return wire{}, false
		}
		v := g.byzValue()
		var just []core
		if r > 1 {
			just = g.qrcFor(r, v)
		}
		return wire{C: core{Typ: 1, Src: b, Round: r, Value: v}, Just: just}, true
	case 4: // DECIDED assembled from authentic and forged COMMITs
		r := g.someRound()
		v := g.someValue()
		cs := g.honestCores(func(c core) bool { return c.Typ == 3 && c.Round == r && c.Value == v })
		if len(cs) == 0 && g.rng.Chance(2, 3) { // prefer a (round,value) that has authentic commits
			any := g.honestCores(func(c core) bool { return c.Typ == 3 })
			if len(any) > 0 {
				x := any[g.rng.Intn(len(any))]
				r, v = x.Round, x.Value
				if g.rng.Chance(1, 3) {
					v = g.someValue() // try to decide another value with the same round
				}
				cs = g.honestCores(func(c core) bool { return c.Typ == 3 && c.Round == r && c.Value == v })
			}
		}
		if g.rng.Chance(1, 6) {
			// DECIDED for the empty value on top of the authentic COMMITs of that round, whatever their value
			v = 0
			cs = g.honestCores(func(c core) bool { return c.Typ == 3 && c.Round == r })
		}
		for _, bb := range bs {
			cs = append(cs, core{Typ: 3, Src: bb, Round: r, Value: v})
		}
		if g.rng.Chance(1, 4) {
			cs = append(cs, g.someCores(2)...)
		}
		return wire{C: core{Typ: 5, Src: b, Round: r, Value: v}, Just: cs}, true
	case 5: // garbage in every field but still well-formed for the wire layer
		return wire{C: g.forge(b), Just: g.someCores(g.rng.Intn(4))}, true
	default: // forged core with a recombined bag of attachments
		c := g.forge(b)
		return wire{C: c, Just: g.someCores(g.rng.Intn(2 * g.n))}, true
	}
}

// prepareSet: PREPARE cores for (pr,pv): all authentic ones plus forgeries of every Byzantine member.
func (g *gen) prepareSet(pr, pv int64) []core {
	cs := g.honestCores(func(c core) bool { return c.Typ == 2 && c.Round == pr && c.Value == pv })
	for _, b := range g.byzList() {
		cs = append(cs, core{Typ: 2, Src: b, Round: pr, Value: pv})
	}
	if g.rng.Chance(1, 5) && len(cs) > 0 {
		cs = cs[:g.rng.Intn(len(cs))+1]
	}
	return cs
}

// qrcFor tries to justify a PRE-PREPARE (r,v): authentic ROUND-CHANGEs for r plus forged ones,
// and a PREPARE set for the claimed highest prepared value.
func (g *gen) qrcFor(r, v int64) []core {
	rcs := g.honestCores(func(c core) bool { return c.Typ == 4 && c.Round == r })
	if g.rng.Chance(1, 3) && len(rcs) > 1 { // withhold some honest ROUND-CHANGEs (e.g. those with a high pr)
		var kept []core
		for _, c := range rcs {
			if c.Pr == 0 || g.rng.Chance(1, 2) {
				kept = append(kept, c)
			}
		}
		rcs = kept
	}
	claimPrepared := g.rng.Chance(1, 2)
	var pr int64
	if claimPrepared {
		// prefer a prepared round for which authentic PREPAREs for v exist
		ps := g.honestCores(func(c core) bool { return c.Typ == 2 && c.Value == v && c.Round < r })
		if len(ps) > 0 {
			pr = ps[g.rng.Intn(len(ps))].Round
		} else {
			pr = 1 + int64(g.rng.Intn(int(r)))
		}
	}
	for _, b := range g.byzList() {
		c := core{Typ: 4, Src: b, Round: r}
		if claimPrepared {
			c.Pr, c.Pv = pr, v
		}
		switch g.rng.Intn(8) {
		case 0: // a ROUND-CHANGE claiming a HIGHER prepared round than the attached PREPARE set (J2 must refuse)
			rcs = append(rcs, core{Typ: 4, Src: b, Round: r, Pr: pr + 1 + int64(g.rng.Intn(2)), Pv: g.someValue()})
		case 1: // equivocating ROUND-CHANGEs of the same member, the higher claim first
			rcs = append(rcs, core{Typ: 4, Src: b, Round: r, Pr: pr + 1, Pv: g.someValue()}, c)
		case 2: // ... or second
			rcs = append(rcs, c, core{Typ: 4, Src: b, Round: r, Pr: pr + 1, Pv: g.someValue()})
		default:
			rcs = append(rcs, c)
		}
	}
	if g.rng.Chance(1, 3) { // attachments in another order (the receiver takes the first per source)
		for i := len(rcs) - 1; i > 0; i-- {
			j := g.rng.Intn(i + 1)
			rcs[i], rcs[j] = rcs[j], rcs[i]
		}
	}
	if claimPrepared {
		rcs = append(rcs, g.prepareSet(pr, v)...)
	}
	return rcs
}

// syncEpisode: no Byzantine members, at most f members crash (possibly halfway through a
// broadcast), start late or stay silent; messages among running members are delivered before any
// timer fires; timers fire only when nothing is in flight. C04: every running member decides
// within one leader rotation after the last fault.
func (g *gen) syncEpisode(cl **cluster) {
	g.setup(cl, 0)
	nFaulty := g.rng.Intn(g.f + 1)
	faulty := map[int64]bool{}
	for _, i := range g.rng.Perm(g.n)[:nFaulty] {
		faulty[int64(i)] = true
	}
	// fault plan: silent from the start, or crash after emitting k broadcasts with the last one
	// reaching only a subset of recipients
	crashAfter := map[int64]int{}
	for _, p := range g.honest {
		if !faulty[p] {
			continue
		}
		if g.rng.Chance(1, 3) {
			crashAfter[p] = 0 // never starts
		} else {
			crashAfter[p] = 1 + g.rng.Intn(6)
		}
	}
	sent := map[int64]int{}
	crashed := map[int64]bool{}
	started := map[int64]bool{}
	lastFaultRound := int64(1)
	for _, h := range g.honest {
		if crashAfter[h] == 0 && faulty[h] {
			crashed[h] = true
			continue
		}
		g.do(fmt.Sprintf("start %d", h))
		started[h] = true
		g.do(fmt.Sprintf("input %d %d", h, g.someValue()))
	}
	// the generic `do` already fanned every broadcast out to every inbox; enforce crashes here
	deliverAll := func() {
		for progress := true; progress; {
			progress = false
			for _, p := range g.honest {
				for len(g.inbox[p]) > 0 {
					w := g.inbox[p][0]
					g.inbox[p] = g.inbox[p][1:]
					if crashed[p] || !started[p] {
						continue
					}
					src := w.C.Src
					if faulty[src] {
						// count broadcasts of a faulty member once (keyed by first recipient order)
						if crashed[src] && !g.rng.Chance(1, 2) {
							continue // part of the last, partial broadcast that did not reach p
						}
					}
					g.do(fmt.Sprintf("recv %d ok %s", p, w.String()))
					progress = true
					// crash bookkeeping: after a faulty member has emitted its quota it stops
					for _, fp := range g.honest {
						if faulty[fp] && !crashed[fp] && started[fp] {
							cnt := 0
							for _, hw := range g.hWires {
								if hw.C.Src == fp {
									cnt++
								}
							}
							sent[fp] = cnt
							if cnt >= crashAfter[fp] {
								crashed[fp] = true
								r := (*cl).nodes[fp]
								_ = r
								if g.maxRound > lastFaultRound {
									lastFaultRound = g.maxRound
								}
								g.run.Count("crash")
							}
						}
					}
				}
			}
		}
	}
	allDecided := func() bool {
		for _, p := range g.honest {
			if crashed[p] || !started[p] {
				continue
			}
			if !(*cl).nodes[p].decided {
				return false
			}
		}
		return true
	}
	deliverAll()
	rounds := 0
	for !allDecided() && rounds < 3*g.n+6 {
		// nothing in flight and not decided: every running member's timer fires
		for _, p := range g.honest {
			if crashed[p] || !started[p] || (*cl).nodes[p].decided {
				continue
			}
			g.do(fmt.Sprintf("timeout %d", p))
		}
		rounds++
		deliverAll()
	}
	g.run.Case(fmt.Sprintf("sync:n%d:faulty%d:rounds%d", g.n, nFaulty, rounds))
	if !allDecided() {
		g.run.Violate("qbft:no_decision_under_timely_delivery", fmt.Sprintf("n=%d faulty=%d: running members did not decide after %d timeouts each", g.n, nFaulty, rounds))
	} else {
		// decided round must be within one rotation after the last fault
		for _, p := range g.honest {
			if crashed[p] || !started[p] {
				continue
			}
			d := g.mon.decided[p]
			if d[1] > lastFaultRound+int64(g.n) {
				g.run.Violate("qbft:decision_later_than_one_rotation", fmt.Sprintf("n=%d node %d decided in round %d, last fault in round %d", g.n, p, d[1], lastFaultRound))
			}
		}
	}
}

// ---------------------------------------------------------------------------------------------
// Scripted multi-round attacks. On a correct implementation every forged step is refused (the
// episode then just exercises the guards); on an implementation with a weakened guard the script
// drives honest members into a concrete property violation that the monitors report.

func (g *gen) startAll(inputs map[int64]int64) {
	for _, h := range g.honest {
		g.do(fmt.Sprintf("start %d", h))
		if v, ok := inputs[h]; ok {
			g.do(fmt.Sprintf("input %d %d", h, v))
		}
	}
}

// findWire returns the first honest broadcast matching type/source/round (ok=false if none yet).
func (g *gen) findWire(typ, src, round int64) (wire, bool) {
	for _, w := range g.hWires {
		if w.C.Typ == typ && w.C.Src == src && w.C.Round == round {
			return w, true
		}
	}
	return wire{}, false
}

func (g *gen) deliverTo(p int64, typ, src, round int64) {
	if w, ok := g.findWire(typ, src, round); ok {
		g.do(fmt.Sprintf("recv %d ok %s", p, w.String()))
	}
}

func (g *gen) send(p int64, w wire) { g.do(fmt.Sprintf("recv %d ok %s", p, w.String())) }

// setupAttack: n = 4, member 3 Byzantine, leader(round) = (off+round)%4.
func (g *gen) setupAttack(cl **cluster, off int64) {
	g.cl = cl
	if g.mon == nil {
		g.mon = newMonitor(g.run)
	}
	g.n, g.q, g.f, g.off = 4, 3, 1, off
	g.byz = map[int64]bool{3: true}
	g.honest = []int64{0, 1, 2}
	g.inbox = map[int64][]wire{}
	g.hWires = nil
	g.hCores = map[core]bool{}
	g.maxRound = 1
	g.do(fmt.Sprintf("cfg 4 100 %d", off))
}

func (g *gen) attackEpisode(cl **cluster, kind int) {
	const A, X, B = 11, 22, 3
	g.run.Count(fmt.Sprintf("attack:%d", kind))
	switch kind {
	case 0: // stale certificate: hide a higher prepared round behind an old PREPARE quorum (J2)
		g.setupAttack(cl, 0) // leaders: r1=1, r2=2, r3=3(B)
		g.startAll(map[int64]int64{0: A, 1: A, 2: X})
		for _, p := range g.honest { // round 1: everybody prepares A
			g.deliverTo(p, 1, 1, 1)
		}
		for _, s := range []int64{0, 1, 2} { // only member 0 sees the PREPARE quorum
			g.deliverTo(0, 2, s, 1)
		}
		for _, p := range g.honest {
			g.do(fmt.Sprintf("timeout %d", p))
		}
		// round 2: leader 2 sees only null ROUND-CHANGEs (1, 2 and the Byzantine one)
		g.deliverTo(2, 4, 1, 2)
		g.deliverTo(2, 4, 2, 2)
		g.send(2, wire{C: core{Typ: 4, Src: B, Round: 2}})
		for _, p := range []int64{1, 2} {
			g.deliverTo(p, 1, 2, 2)
		}
		for _, p := range []int64{1, 2} {
			g.deliverTo(p, 2, 1, 2)
			g.deliverTo(p, 2, 2, 2)
			g.send(p, wire{C: core{Typ: 2, Src: B, Round: 2, Value: X}})
		}
		g.deliverTo(2, 3, 1, 2)
		g.deliverTo(2, 3, 2, 2)
		g.send(2, wire{C: core{Typ: 3, Src: B, Round: 2, Value: X}}) // member 2 decides X
		g.do("timeout 0")
		g.do("timeout 1")
		// round 3: Byzantine leader replays the round-1 PREPARE quorum for A, member 0's ROUND-CHANGE first
		var just []core
		for _, s := range []int64{0, 1} {
			if w, ok := g.findWire(4, s, 3); ok {
				just = append(just, w.C)
			}
		}
		just = append(just, core{Typ: 4, Src: B, Round: 3, Pr: 1, Pv: A})
		for _, s := range []int64{0, 1, 2} {
			if w, ok := g.findWire(2, s, 1); ok {
				just = append(just, w.C)
			}
		}
		pp := wire{C: core{Typ: 1, Src: B, Round: 3, Value: A}, Just: just}
		for _, p := range []int64{0, 1} {
			g.send(p, pp)
		}
		for _, p := range []int64{0, 1} {
			g.deliverTo(p, 2, 0, 3)
			g.deliverTo(p, 2, 1, 3)
			g.send(p, wire{C: core{Typ: 2, Src: B, Round: 3, Value: A}})
		}
		for _, p := range []int64{0, 1} {
			g.deliverTo(p, 3, 0, 3)
			g.deliverTo(p, 3, 1, 3)
			g.send(p, wire{C: core{Typ: 3, Src: B, Round: 3, Value: A}})
		}
	case 1: // forged prepared-claim with a mixed PREPARE set
		g.setupAttack(cl, 1) // leaders: r1=2, r2=3(B)
		g.startAll(map[int64]int64{0: A, 1: A, 2: A})
		for _, p := range g.honest {
			g.deliverTo(p, 1, 2, 1)
		}
		for _, p := range g.honest {
			for _, s := range []int64{0, 1, 2} {
				g.deliverTo(p, 2, s, 1)
			}
		}
		for _, s := range []int64{0, 1, 2} { // only member 0 sees the COMMIT quorum and decides A
			g.deliverTo(0, 3, s, 1)
		}
		g.do("timeout 1")
		g.do("timeout 2")
		var just []core
		just = append(just, core{Typ: 4, Src: B, Round: 2, Pr: 1, Pv: X})
		for _, s := range []int64{1, 2} {
			if w, ok := g.findWire(4, s, 2); ok {
				just = append(just, w.C)
			}
		}
		just = append(just, core{Typ: 2, Src: B, Round: 1, Value: X}) // forged PREPARE listed first
		for _, s := range []int64{0, 1} {
			if w, ok := g.findWire(2, s, 1); ok {
				just = append(just, w.C)
			}
		}
		pp := wire{C: core{Typ: 1, Src: B, Round: 2, Value: X}, Just: just}
		for _, p := range []int64{1, 2} {
			g.send(p, pp)
		}
		for _, p := range []int64{1, 2} {
			g.deliverTo(p, 2, 1, 2)
			g.deliverTo(p, 2, 2, 2)
			g.send(p, wire{C: core{Typ: 2, Src: B, Round: 2, Value: X}})
		}
		for _, p := range []int64{1, 2} {
			g.deliverTo(p, 3, 1, 2)
			g.deliverTo(p, 3, 2, 2)
			g.send(p, wire{C: core{Typ: 3, Src: B, Round: 2, Value: X}})
		}
	case 2: // empty value proposed in a later round on a null ROUND-CHANGE quorum
		g.setupAttack(cl, 1)                    // leaders: r1=2, r2=3(B)
		g.startAll(map[int64]int64{0: A, 1: A}) // the round-1 leader never obtains a proposal
		for _, p := range g.honest {
			g.do(fmt.Sprintf("timeout %d", p))
		}
		var just []core
		for _, s := range []int64{0, 1, 2} {
			if w, ok := g.findWire(4, s, 2); ok {
				just = append(just, w.C)
			}
		}
		pp := wire{C: core{Typ: 1, Src: B, Round: 2, Value: 0}, Just: just}
		for _, p := range g.honest {
			g.send(p, pp)
		}
		for _, p := range g.honest {
			for _, s := range []int64{0, 1, 2} {
				g.deliverTo(p, 2, s, 2)
			}
		}
		for _, p := range g.honest {
			for _, s := range []int64{0, 1, 2} {
				g.deliverTo(p, 3, s, 2)
			}
		}
	case 3: // DECIDED backed by copies of one member's COMMIT, or by fewer than a quorum
		g.setupAttack(cl, 0)
		g.startAll(map[int64]int64{0: A, 1: A, 2: A})
		c := core{Typ: 3, Src: B, Round: 1, Value: 666}
		g.send(0, wire{C: core{Typ: 5, Src: B, Round: 1, Value: 666}, Just: []core{c, c, c}})
		g.send(1, wire{C: core{Typ: 5, Src: B, Round: 1, Value: 666}, Just: []core{c, c}})
		// honest members then run a normal round and decide A
		for _, p := range g.honest {
			g.deliverTo(p, 1, 1, 1)
		}
		for _, p := range g.honest {
			for _, s := range []int64{0, 1, 2} {
				g.deliverTo(p, 2, s, 1)
			}
		}
		for _, p := range g.honest {
			for _, s := range []int64{0, 1, 2} {
				g.deliverTo(p, 3, s, 1)
			}
		}
	}
}

// ---------------------------------------------------------------------------------------------
// preparedEpisode (C04, justification rule J2 under timely delivery; Props/C04Prepared.lean):
// no Byzantine members, n-|R| members never start, |R| = quorum+extra members run. Rounds before
// rho are lost, in round rho the leader's PRE-PREPARE reaches everybody, a non-empty subset P of the
// running members receives a quorum of PREPAREs (they prepare and send COMMIT), the others fewer,
// nobody receives a quorum of COMMITs; everything else of that round is lost and all round timers
// fire. From then on delivery is timely: every message among running members arrives before any
// timer fires, timers fire only when nothing is in flight. The ROUND-CHANGE set of the next round is
// a mix of prepared and null ones; the first round whose leader runs (`good`) must decide - with
// exactly quorum-many running members the prepared value (the leader must re-propose it, also when
// it has no input of its own), otherwise that value or the leader's input.
func (g *gen) preparedEpisode(cl **cluster, n int, leaderHasInput bool, extra int) {
	g.cl = cl
	if g.mon == nil {
		g.mon = newMonitor(g.run)
	}
	g.n, g.q, g.f = n, (2*n+2)/3, (n-1)/3
	g.off = int64(g.rng.Intn(n))
	g.byz = map[int64]bool{}
	g.honest = nil
	for i := 0; i < n; i++ {
		g.honest = append(g.honest, int64(i))
	}
	g.inbox = map[int64][]wire{}
	g.hWires = nil
	g.hCores = map[core]bool{}
	g.values = []int64{1, 2, 3}
	g.maxRound = 1
	g.do(fmt.Sprintf("cfg %d 100 %d", n, g.off))
	g.run.Count("prepared-episode")
	nRun := g.q + extra
	if nRun > n {
		nRun = n
	}
	if nRun > g.q {
		leaderHasInput = true // a null quorum may reach the leader first: it then needs a proposal
	}
	running := map[int64]bool{}
	for _, i := range g.rng.Perm(n)[:nRun] {
		running[int64(i)] = true
	}
	var R []int64
	for i := 0; i < n; i++ {
		if running[int64(i)] {
			R = append(R, int64(i))
		}
	}
	rho := int64(1 + g.rng.Intn(2))
	for !running[g.leader(rho)] {
		rho++
	}
	good := rho + 1
	for !running[g.leader(good)] {
		good++
	}
	for _, p := range R {
		g.do(fmt.Sprintf("start %d", p))
		if p == g.leader(good) && !leaderHasInput {
			continue
		}
		g.do(fmt.Sprintf("input %d %d", p, 10+p))
	}
	v := 10 + g.leader(rho)
	shuffled := func(xs []int64) []int64 {
		out := make([]int64, len(xs))
		for i, j := range g.rng.Perm(len(xs)) {
			out[i] = xs[j]
		}
		return out
	}
	// rounds 1..rho-1 are lost; the ROUND-CHANGEs for rho reach everybody
	for i := int64(1); i < rho; i++ {
		for _, p := range R {
			g.do(fmt.Sprintf("timeout %d", p))
		}
	}
	if rho > 1 {
		for _, p := range R {
			for _, s := range shuffled(R) {
				g.deliverTo(p, 4, s, rho)
			}
		}
	}
	// round rho: PRE-PREPARE to everybody, a PREPARE quorum only to the members of P
	for _, p := range R {
		g.deliverTo(p, 1, g.leader(rho), rho)
	}
	nP := 1 + g.rng.Intn(len(R))
	inP := map[int64]bool{}
	var P []int64
	for _, p := range shuffled(R)[:nP] {
		inP[p] = true
	}
	for _, p := range R {
		if inP[p] {
			P = append(P, p)
		}
	}
	for _, p := range R {
		from := shuffled(R)
		if !inP[p] {
			from = from[:g.rng.Intn(g.q)] // fewer than a quorum
		}
		for _, s := range from {
			g.deliverTo(p, 2, s, rho)
		}
	}
	for _, p := range R {
		maxC := len(P)
		if maxC > g.q-1 {
			maxC = g.q - 1
		}
		for _, s := range shuffled(P)[:g.rng.Intn(maxC+1)] {
			g.deliverTo(p, 3, s, rho)
		}
	}
	undecided := func() bool {
		for _, p := range R {
			if !(*cl).nodes[p].decided {
				return true
			}
		}
		return false
	}
	prepared := 0
	for _, p := range P {
		if _, ok := g.findWire(3, p, rho); ok {
			prepared++
		}
	}
	g.run.Case(fmt.Sprintf("prepared:n%d:run%d:P%d:rho%d:gap%d:leaderinput%v", n, len(R), len(P), min64(rho, 4), min64(good-rho, 4), leaderHasInput))
	if prepared != len(P) {
		g.run.Violate("qbft:no_decision_under_timely_delivery", fmt.Sprintf("prepared episode n=%d: %d of the %d members that received a PREPARE quorum in round %d sent a COMMIT", n, prepared, len(P), rho))
	}
	// everything else of round rho is lost; all timers fire; from now on delivery is timely
	for _, h := range g.honest {
		g.inbox[h] = nil
	}
	drain := func() {
		for progress := true; progress; {
			progress = false
			for _, p := range R {
				for len(g.inbox[p]) > 0 {
					w := g.inbox[p][0]
					g.inbox[p] = g.inbox[p][1:]
					g.do(fmt.Sprintf("recv %d ok %s", p, w.String()))
					progress = true
				}
			}
		}
	}
	rounds := 0
	for undecided() && rounds < n+2 {
		for _, p := range R {
			if !(*cl).nodes[p].decided {
				g.do(fmt.Sprintf("timeout %d", p))
			}
		}
		rounds++
		drain()
	}
	if undecided() {
		g.run.Violate("qbft:no_decision_under_timely_delivery", fmt.Sprintf("prepared episode n=%d running=%d prepared=%d in round %d (value %d): running members did not decide after %d further timeouts each (leader of round %d runs, has input: %v)", n, len(R), len(P), rho, v, rounds, good, leaderHasInput))
		return
	}
	for _, p := range R {
		d := g.mon.decided[p]
		if d[1] > good {
			g.run.Violate("qbft:decision_later_than_one_rotation", fmt.Sprintf("prepared episode n=%d: node %d decided in round %d, the leader of round %d was running", n, p, d[1], good))
		}
		if d[0] != v && (len(R) == g.q || d[0] != 10+g.leader(good)) {
			g.run.Violate("qbft:honest_prepared_value_not_reproposed", fmt.Sprintf("prepared episode n=%d running=%d: node %d decided %d in round %d although %d members had prepared %d in round %d", n, len(R), p, d[0], d[1], len(P), v, rho))
		}
	}
}
