package main

import (
	"bytes"
	"encoding/hex"
	"fmt"
	"testing"

	"github.com/obolnetwork/charon/tbls"
)

func main() {
	t := new(testing.T)
	var one tbls.PrivateKey
	one[31] = 1
	pk, err := tbls.SecretToPublicKey(one)
	fmt.Println(hex.EncodeToString(pk[:]), err)
	var zero tbls.PrivateKey
	_, err = tbls.SecretToPublicKey(zero)
	fmt.Println("zero:", err)
	rnd := make([]byte, 0)
	ff := bytes.Repeat([]byte{0xff}, 32)
	rnd = append(rnd, ff...)
	rnd = append(rnd, make([]byte, 32)...) // zero
	c1 := make([]byte, 32); c1[31] = 2
	rnd = append(rnd, c1...)
	rd := bytes.NewReader(rnd)
	sh, err := tbls.ThresholdSplitInsecure(t, one, 3, 2, rd)
	fmt.Println(err, rd.Len())
	for i := 0; i <= 3; i++ {
		v, ok := sh[i]
		fmt.Println(i, ok, hex.EncodeToString(v[:]))
	}
	// r-1 and r
	rm1, _ := hex.DecodeString("73eda753299d7d483339d80809a1d80553bda402fffe5bfeffffffff00000000")
	r0, _ := hex.DecodeString("73eda753299d7d483339d80809a1d80553bda402fffe5bfeffffffff00000001")
	_, e1 := tbls.SecretToPublicKey(*(*tbls.PrivateKey)(rm1))
	_, e2 := tbls.SecretToPublicKey(*(*tbls.PrivateKey)(r0))
	fmt.Println("r-1:", e1, "r:", e2)
	rec, err := tbls.RecoverSecret(map[int]tbls.PrivateKey{1: sh[1], 3: sh[3]}, 3, 2)
	fmt.Println(hex.EncodeToString(rec[:]), err)
	rec, err = tbls.RecoverSecret(map[int]tbls.PrivateKey{0: sh[1], 3: sh[3]}, 3, 2)
	fmt.Println("id0:", hex.EncodeToString(rec[:]), err)
	rec, err = tbls.RecoverSecret(map[int]tbls.PrivateKey{1: sh[1]}, 3, 2)
	fmt.Println("single:", hex.EncodeToString(rec[:]), err)
}
