// drive-tbls: correspondence driver for C08 (tbls/herumi.go, tbls/tbls.go, tbls/tblsconv).
//
// Runs the real tbls package (herumi implementation, the package default) and records per
// operation its canonical result. The Lean model (lean/Driver/Tbls.lean over Model/Fr.lean)
// recomputes every scalar result bit-for-bit (shares from the recorded byte stream, Lagrange
// recovery) and predicts the outcome of every group-level check from the scalar combination.
//
// ops (scalars: 32 byte big-endian hex; messages: hex or "-" for the empty message):
//
//	new det <n> <t> <secret> <rnd>         ThresholdSplitInsecure with the byte stream <rnd>
//	                                       -> ok 1:<share> 2:<share> ... | err threshold|secret|random
//	new rnd <n> <t> <secret> <id:share,..> ThresholdSplit (CSPRNG); the shares are part of the op so
//	                                       that the model can check them (exec mode re-splits and
//	                                       rewrites the line)  -> ok
//	rec <ids>                              RecoverSecret over the shares <ids>
//	                                       -> <recovered> sk=<recovered==secret> pk=<SecretToPublicKey(recovered)==group key>
//	                                          rpk=<RecoverPubkey(pubshares)==group key>
//	sig <ids> <msg>                        partial signatures of <ids>, ThresholdAggregate
//	                                       -> agg=<aggregate==Sign(secret,msg)> ver=<Verify(group key) accepts>
//	subshare <ids> <j> <scalar> <msg>      as sig, but j's partial is Sign(<scalar>, msg)
//	subindex <ids> <j> <k> <msg>           as sig, but j's partial is share k's signature
//	submsg <ids> <j> <msg> <msg2>          as sig, but j signs <msg2>
//	vfy <ids> <j> <k> <msg> <w1> <w2> <w3> <w4>
//	                                       statelessness of Verify: A = aggregate of <ids> over msg, B = share j's
//	                                       partial over msg; the SAME signature bytes are verified against the other
//	                                       messages w1..w4 and under other keys, before and after the successful
//	                                       verifications, and the right ones repeatedly
//	                                       -> pre=<12 bits> right=<4 bits> post=<12 bits> again=<2 bits>
//	                                          12 bits: A under group key vs w1..w4, B under pubshare j vs w1..w4,
//	                                          A under pubshare j, A under pubshare k, B under group key, B under pubshare k
//
// `new` starts a fresh episode (reset op).
package main

import (
	"bytes"
	"encoding/hex"
	"fmt"
	"io"
	"math/big"
	"sort"
	"strconv"
	"strings"
	"testing"

	"github.com/obolnetwork/charon/tbls"
	"github.com/obolnetwork/charon/tbls/tblsconv"

	"verifharness/hx"
)

var rOrder, _ = new(big.Int).SetString("73eda753299d7d483339d80809a1d80553bda402fffe5bfeffffffff00000001", 16)

type episode struct {
	n, t      int
	secret    tbls.PrivateKey
	groupPK   tbls.PublicKey
	hasPK     bool
	shares    map[int]tbls.PrivateKey
	pubshares map[int]tbls.PublicKey
	sigCache  map[string]tbls.Signature // (key bytes, msg) -> Sign result (deterministic)
}

// sign is tbls.Sign memoised per episode (BLS signing is deterministic).
func (e *episode) sign(k tbls.PrivateKey, msg []byte) (tbls.Signature, error) {
	key := string(k[:]) + "|" + string(msg)
	if s, ok := e.sigCache[key]; ok {
		return s, nil
	}
	s, err := tbls.Sign(k, msg)
	if err == nil {
		if e.sigCache == nil {
			e.sigCache = map[string]tbls.Signature{}
		}
		e.sigCache[key] = s
	}
	return s, err
}

// planReader serves a fixed byte plan and records what was consumed; an exhausted plan is an error.
type planReader struct {
	plan []byte
	used int
}

func (p *planReader) Read(b []byte) (int, error) {
	if len(p.plan)-p.used < len(b) {
		return 0, io.ErrUnexpectedEOF
	}
	copy(b, p.plan[p.used:p.used+len(b)])
	p.used += len(b)
	return len(b), nil
}

func hexOf(b []byte) string {
	if len(b) == 0 {
		return "-"
	}
	return hex.EncodeToString(b)
}

func unhex(s string) []byte {
	if s == "-" {
		return nil
	}
	b, err := hex.DecodeString(s)
	hx.Must(err)
	return b
}

func privFromHex(s string) tbls.PrivateKey {
	k, err := tblsconv.PrivkeyFromBytes(unhex(s))
	hx.Must(err)
	return k
}

func b01(b bool) string {
	if b {
		return "1"
	}
	return "0"
}

// splitInsecure calls the real ThresholdSplitInsecure; a failing `require` inside it ends the
// goroutine (FailNow / nil deref on the zero testing.T), reported as aborted.
func splitInsecure(secret tbls.PrivateKey, n, t int, rd io.Reader) (sh map[int]tbls.PrivateKey, err error, aborted bool) {
	done := make(chan struct{})
	go func() {
		defer close(done)
		completed := false
		defer func() {
			_ = recover()
			if !completed {
				aborted = true
			}
		}()
		sh, err = tbls.ThresholdSplitInsecure(new(testing.T), secret, uint(n), uint(t), rd)
		completed = true
	}()
	<-done
	return sh, err, aborted
}

func errClass(err error) string {
	s := err.Error()
	switch {
	case strings.Contains(s, "threshold has to be greater"):
		return "err threshold"
	case strings.Contains(s, "unmarshal bytes into Herumi secret key"):
		return "err secret"
	case strings.Contains(s, "insecure key generation failed"):
		return "err random"
	}
	return "err other"
}

func sortedIDs(m map[int]tbls.PrivateKey) []int {
	ids := make([]int, 0, len(m))
	for i := range m {
		ids = append(ids, i)
	}
	sort.Ints(ids)
	return ids
}

// install makes a completed split the current episode and runs the id monitor.
func (e *episode) install(run *hx.Run, n, t int, secret tbls.PrivateKey, sh map[int]tbls.PrivateKey) {
	*e = episode{n: n, t: t, secret: secret, shares: sh, pubshares: map[int]tbls.PublicKey{}}
	if pk, err := tbls.SecretToPublicKey(secret); err == nil {
		e.groupPK, e.hasPK = pk, true
	}
	ids := sortedIDs(sh)
	okIDs := len(ids) == n
	for i, id := range ids {
		if id != i+1 {
			okIDs = false
		}
	}
	if !okIDs {
		run.Violate("tbls:share_ids_not_1_to_n", fmt.Sprintf("split n=%d t=%d returned share ids %v", n, t, ids))
	}
	for id, s := range sh {
		if pk, err := tbls.SecretToPublicKey(s); err == nil {
			e.pubshares[id] = pk
		}
	}
}

func parseIDs(s string) []int {
	var out []int
	for _, f := range strings.Split(s, ",") {
		v, err := strconv.Atoi(f)
		hx.Must(err)
		out = append(out, v)
	}
	return out
}

func idsStr(ids []int) string {
	p := make([]string, len(ids))
	for i, v := range ids {
		p[i] = strconv.Itoa(v)
	}
	return strings.Join(p, ",")
}

func (e *episode) distinct(ids []int) bool {
	seen := map[int]bool{}
	for _, i := range ids {
		if seen[i] {
			return false
		}
		seen[i] = true
	}
	return true
}

func (e *episode) doRec(run *hx.Run, ids []int) string {
	sub := map[int]tbls.PrivateKey{}
	pub := map[int]tbls.PublicKey{}
	for _, i := range ids {
		sub[i] = e.shares[i]
		pub[i] = e.pubshares[i]
	}
	qualified := len(sub) >= e.t && e.t >= 2 && e.t <= e.n
	rec, err := tbls.RecoverSecret(sub, uint(e.n), uint(e.t))
	if err != nil {
		if qualified {
			run.Violate("tbls:recover_error", fmt.Sprintf("n=%d t=%d ids=%v: %v", e.n, e.t, ids, err))
		}
		return "err"
	}
	sk := rec == e.secret
	pkOK := false
	if pk, err := tbls.SecretToPublicKey(rec); err == nil && e.hasPK {
		pkOK = pk == e.groupPK
	}
	rpkOK := false
	if rpk, err := tbls.RecoverPubkey(pub); err == nil && e.hasPK {
		rpkOK = rpk == e.groupPK
	}
	if qualified {
		if !sk {
			run.Violate("tbls:recover_mismatch", fmt.Sprintf("n=%d t=%d ids=%v recovered %x, secret %x", e.n, e.t, ids, rec, e.secret))
		}
		if e.hasPK && !pkOK {
			run.Violate("tbls:recovered_secret_wrong_pubkey", fmt.Sprintf("n=%d t=%d ids=%v", e.n, e.t, ids))
		}
		if e.hasPK && !rpkOK {
			run.Violate("tbls:recover_pubkey_mismatch", fmt.Sprintf("n=%d t=%d ids=%v RecoverPubkey(pubshares) is not the group key", e.n, e.t, ids))
		}
		run.Case(fmt.Sprintf("rec:%d:%d:%s", e.n, e.t, idsStr(ids)))
	} else {
		run.Count("rec:below_threshold")
	}
	return fmt.Sprintf("%x sk=%s pk=%s rpk=%s", rec[:], b01(sk), b01(pkOK), b01(rpkOK))
}

// aggregate combines the given partials and compares with the undivided key's signature.
func (e *episode) aggregate(parts map[int]tbls.Signature, msg []byte) (agg, ver bool, errs string) {
	full, err := e.sign(e.secret, msg)
	if err != nil {
		return false, false, "err"
	}
	sig, err := tbls.ThresholdAggregate(parts)
	if err != nil {
		return false, false, "err"
	}
	agg = sig == full
	ver = e.hasPK && tbls.Verify(e.groupPK, msg, sig) == nil
	return agg, ver, ""
}

func (e *episode) partials(run *hx.Run, ids []int, msg []byte, check bool) map[int]tbls.Signature {
	parts := map[int]tbls.Signature{}
	for _, i := range ids {
		s, err := e.sign(e.shares[i], msg)
		hx.Must(err)
		parts[i] = s
		if check {
			if pk, ok := e.pubshares[i]; ok && tbls.Verify(pk, msg, s) != nil {
				run.Violate("tbls:partial_rejected_under_pubshare", fmt.Sprintf("share %d", i))
			}
		}
	}
	return parts
}

func (e *episode) qualified(ids []int) bool {
	return len(ids) >= e.t && e.t >= 2 && e.t <= e.n && e.distinct(ids)
}

func (e *episode) doSig(run *hx.Run, ids []int, msg []byte) string {
	parts := e.partials(run, ids, msg, true)
	if e.qualified(ids) {
		// ThresholdAggregate is a function of its argument: a refused aggregation (one partial is not a
		// curve point) right before must leave nothing behind that the next one could pick up
		bad := map[int]tbls.Signature{}
		for k, v := range parts {
			bad[k] = v
		}
		var junk tbls.Signature
		for i := range junk {
			junk[i] = 0xFF
		}
		bad[e.n+1] = junk
		for rep := 0; rep < 3; rep++ {
			if _, err := tbls.ThresholdAggregate(bad); err == nil {
				run.Violate("tbls:malformed_partial_accepted", fmt.Sprintf("n=%d t=%d ids=%v plus a partial that is not a curve point: ThresholdAggregate returned no error", e.n, e.t, ids))
			}
		}
		run.Count("sig:after_refused_aggregation")
	}
	agg, ver, es := e.aggregate(parts, msg)
	if es != "" {
		if e.qualified(ids) {
			run.Violate("tbls:aggregate_error", fmt.Sprintf("n=%d t=%d ids=%v", e.n, e.t, ids))
		}
		return es
	}
	if ver { // the accepted signature must not be accepted for another message afterwards
		if sig, err := tbls.ThresholdAggregate(parts); err == nil {
			other := append(append([]byte{}, msg...), 0x5a)
			if tbls.Verify(e.groupPK, other, sig) == nil {
				run.Violate("tbls:verify_accepts_other_message", fmt.Sprintf("n=%d t=%d ids=%v: aggregate accepted for its message %x is then accepted for %x", e.n, e.t, ids, msg, other))
			}
		}
	}
	if e.qualified(ids) {
		if !agg {
			run.Violate("tbls:aggregate_not_group_signature", fmt.Sprintf("n=%d t=%d ids=%v: ThresholdAggregate differs from Sign(secret)", e.n, e.t, ids))
		}
		if !ver {
			run.Violate("tbls:aggregate_rejected_by_group_key", fmt.Sprintf("n=%d t=%d ids=%v", e.n, e.t, ids))
		}
		run.Case(fmt.Sprintf("sig:%d:%d:%s", e.n, e.t, idsStr(ids)))
	} else {
		run.Count("sig:below_threshold")
	}
	return fmt.Sprintf("agg=%s ver=%s", b01(agg), b01(ver))
}

// doVfy exercises Verify as a function of (key, message, signature) only: whatever was verified
// before, the same signature bytes must be rejected for every other message and every other key.
func (e *episode) doVfy(run *hx.Run, ids []int, j, k int, msg []byte, wrong [][]byte) string {
	parts := e.partials(run, ids, msg, false)
	A, err := tbls.ThresholdAggregate(parts)
	if err != nil {
		return "err"
	}
	B, err := e.sign(e.shares[j], msg)
	if err != nil {
		return "err"
	}
	G, Pj, Pk := e.groupPK, e.pubshares[j], e.pubshares[k]
	v := func(key tbls.PublicKey, m []byte, sig tbls.Signature) bool { return tbls.Verify(key, m, sig) == nil }
	desc := fmt.Sprintf("n=%d t=%d ids=%v j=%d k=%d", e.n, e.t, ids, j, k)
	negatives := func(phase string) string {
		var b strings.Builder
		for _, c := range []struct {
			name string
			key  tbls.PublicKey
			sig  tbls.Signature
		}{{"aggregate under group key", G, A}, {"partial under its pubshare", Pj, B}} {
			for i, w := range wrong {
				ok := v(c.key, w, c.sig)
				if ok && !bytes.Equal(w, msg) {
					run.Violate("tbls:verify_accepts_other_message", fmt.Sprintf("%s (%s): %s signed over %x accepted for message %d %x", desc, phase, c.name, msg, i+1, w))
				}
				b.WriteString(b01(ok))
			}
		}
		for _, c := range []struct {
			name string
			key  tbls.PublicKey
			sig  tbls.Signature
			own  tbls.PublicKey
		}{{"aggregate under pubshare j", Pj, A, G}, {"aggregate under pubshare k", Pk, A, G},
			{"partial j under group key", G, B, Pj}, {"partial j under pubshare k", Pk, B, Pj}} {
			ok := v(c.key, msg, c.sig)
			if ok && c.key != c.own {
				run.Violate("tbls:verify_accepts_other_key", fmt.Sprintf("%s (%s): %s accepted", desc, phase, c.name))
			}
			b.WriteString(b01(ok))
		}
		return b.String()
	}
	pre := negatives("before the successful verification")
	r1, r2 := v(G, msg, A), v(Pj, msg, B)
	r3, r4 := v(G, msg, A), v(Pj, msg, B)
	post := negatives("after the successful verification")
	r5, r6 := v(G, msg, A), v(Pj, msg, B)
	if r1 != r3 || r1 != r5 || r2 != r4 || r2 != r6 || pre != post {
		run.Violate("tbls:verify_not_idempotent", fmt.Sprintf("%s: repeated verifications of the same (key, message, signature) differ: right=%v/%v/%v %v/%v/%v pre=%s post=%s", desc, r1, r3, r5, r2, r4, r6, pre, post))
	}
	if e.qualified(ids) {
		if !r1 {
			run.Violate("tbls:aggregate_rejected_by_group_key", desc)
		}
		if !r2 {
			run.Violate("tbls:partial_rejected_under_pubshare", fmt.Sprintf("share %d", j))
		}
		run.Case(fmt.Sprintf("vfy:%d:%d:%d:%d", e.n, e.t, len(ids), j))
	}
	return fmt.Sprintf("pre=%s right=%s%s%s%s post=%s again=%s%s", pre, b01(r1), b01(r2), b01(r3), b01(r4), post, b01(r5), b01(r6))
}

// doSub: `alter` replaces j's partial; `effective` says whether the substitution really changes
// the contribution (side conditions of the theorems hold), in which case acceptance is a violation.
func (e *episode) doSub(run *hx.Run, kind string, ids []int, j int, msg []byte, repl tbls.Signature, effective bool) string {
	parts := e.partials(run, ids, msg, false)
	parts[j] = repl
	agg, ver, es := e.aggregate(parts, msg)
	if es != "" {
		return es
	}
	if e.qualified(ids) && effective {
		if agg || ver {
			run.Violate("tbls:substitution_accepted_"+kind,
				fmt.Sprintf("n=%d t=%d ids=%v j=%d: altered combination agg=%v verify=%v", e.n, e.t, ids, j, agg, ver))
		}
		run.Case(fmt.Sprintf("sub%s:%d:%d:%d:%d", kind, e.n, e.t, len(ids), j))
	} else {
		run.Count("sub" + kind + ":control")
	}
	return fmt.Sprintf("agg=%s ver=%s", b01(agg), b01(ver))
}

func main() {
	a := hx.ParseArgs()
	run := hx.NewRun(a.Dir)
	defer run.Close()
	ep := &episode{}
	live := false

	exec := func(op string) {
		f := strings.Fields(op)
		switch {
		case f[0] == "new" && f[1] == "det":
			n, _ := strconv.Atoi(f[2])
			t, _ := strconv.Atoi(f[3])
			secret := privFromHex(f[4])
			rd := &planReader{plan: unhex(f[5])}
			run.Count("new:det")
			sh, err, aborted := splitInsecure(secret, n, t, rd)
			switch {
			case aborted:
				live = false
				run.Op(op, "err random")
			case err != nil:
				live = false
				run.Count("new:" + errClass(err))
				if t >= 2 && new(big.Int).SetBytes(secret[:]).Cmp(rOrder) < 0 && errClass(err) != "err random" {
					run.Violate("tbls:split_error", fmt.Sprintf("ThresholdSplitInsecure n=%d t=%d failed: %v", n, t, err))
				}
				run.Op(op, errClass(err))
			default:
				ep.install(run, n, t, secret, sh)
				live = true
				parts := []string{}
				for _, id := range sortedIDs(sh) {
					s := sh[id]
					parts = append(parts, fmt.Sprintf("%d:%x", id, s[:]))
				}
				run.Case(fmt.Sprintf("new:%d:%d", n, t))
				run.Op(op, "ok "+strings.Join(parts, " "))
			}
		case f[0] == "new" && f[1] == "rnd":
			n, _ := strconv.Atoi(f[2])
			t, _ := strconv.Atoi(f[3])
			secret := privFromHex(f[4])
			run.Count("new:rnd")
			sh, err := tbls.ThresholdSplit(secret, uint(n), uint(t))
			if err != nil {
				live = false
				if t >= 2 && new(big.Int).SetBytes(secret[:]).Cmp(rOrder) < 0 {
					run.Violate("tbls:split_error", fmt.Sprintf("ThresholdSplit n=%d t=%d failed: %v", n, t, err))
				}
				run.Op(fmt.Sprintf("new rnd %d %d %s -", n, t, f[4]), errClass(err))
				return
			}
			ep.install(run, n, t, secret, sh)
			live = true
			parts := []string{}
			for _, id := range sortedIDs(sh) {
				s := sh[id]
				parts = append(parts, fmt.Sprintf("%d:%x", id, s[:]))
			}
			run.Case(fmt.Sprintf("newrnd:%d:%d", n, t))
			// the op line carries the shares the real code produced in THIS run
			run.Op(fmt.Sprintf("new rnd %d %d %s %s", n, t, f[4], strings.Join(parts, ",")), "ok")
		case !live:
			panic("op without live episode: " + op)
		case f[0] == "rec":
			run.Count("rec")
			run.Op(op, ep.doRec(run, parseIDs(f[1])))
		case f[0] == "sig":
			run.Count("sig")
			run.Op(op, ep.doSig(run, parseIDs(f[1]), unhex(f[2])))
		case f[0] == "subshare":
			ids := parseIDs(f[1])
			j, _ := strconv.Atoi(f[2])
			sc := privFromHex(f[3])
			msg := unhex(f[4])
			repl, err := tbls.Sign(sc, msg)
			hx.Must(err)
			run.Count("subshare")
			run.Op(op, ep.doSub(run, "share", ids, j, msg, repl, sc != ep.shares[j]))
		case f[0] == "subindex":
			ids := parseIDs(f[1])
			j, _ := strconv.Atoi(f[2])
			k, _ := strconv.Atoi(f[3])
			msg := unhex(f[4])
			repl, err := tbls.Sign(ep.shares[k], msg)
			hx.Must(err)
			run.Count("subindex")
			run.Op(op, ep.doSub(run, "index", ids, j, msg, repl, ep.shares[k] != ep.shares[j]))
		case f[0] == "submsg":
			ids := parseIDs(f[1])
			j, _ := strconv.Atoi(f[2])
			msg, msg2 := unhex(f[3]), unhex(f[4])
			repl, err := tbls.Sign(ep.shares[j], msg2)
			hx.Must(err)
			run.Count("submsg")
			run.Op(op, ep.doSub(run, "message", ids, j, msg, repl, !bytes.Equal(msg, msg2) && ep.shares[j] != tbls.PrivateKey{}))
		case f[0] == "vfy":
			ids := parseIDs(f[1])
			j, _ := strconv.Atoi(f[2])
			k, _ := strconv.Atoi(f[3])
			run.Count("vfy")
			run.Op(op, ep.doVfy(run, ids, j, k, unhex(f[4]), [][]byte{unhex(f[5]), unhex(f[6]), unhex(f[7]), unhex(f[8])}))
		default:
			panic("bad op " + op)
		}
	}

	if a.Mode == "exec" {
		for _, op := range hx.ReadOps(a.Ops) {
			exec(op)
		}
		return
	}

	rng := hx.NewRng(a.Seed)
	rndBytes := func(n int) []byte {
		b := make([]byte, n)
		for i := range b {
			b[i] = byte(rng.U64())
		}
		return b
	}
	scalar := func() []byte { // uniform-ish scalar < r, with edge values
		switch rng.Intn(24) {
		case 0:
			return new(big.Int).Sub(rOrder, big.NewInt(int64(1+rng.Intn(3)))).FillBytes(make([]byte, 32))
		case 1:
			return big.NewInt(int64(1 + rng.Intn(5))).FillBytes(make([]byte, 32))
		}
		v := new(big.Int).SetBytes(rndBytes(32))
		v.Mod(v, rOrder)
		if v.Sign() == 0 {
			v.SetInt64(7)
		}
		return v.FillBytes(make([]byte, 32))
	}
	message := func() []byte {
		switch rng.Intn(10) {
		case 0:
			return nil
		case 1:
			return rndBytes(1)
		case 2:
			return rndBytes(32)
		}
		return rndBytes(1 + rng.Intn(64))
	}
	subsetIDs := func(mask, n int) []int {
		var ids []int
		for i := 0; i < n; i++ {
			if mask&(1<<i) != 0 {
				ids = append(ids, i+1)
			}
		}
		return ids
	}
	popcount := func(m int) int {
		c := 0
		for ; m != 0; m &= m - 1 {
			c++
		}
		return c
	}

	type shape struct{ n, t int }
	var shapes []shape
	for n := 2; n <= 10; n++ {
		for t := 2; t <= n; t++ {
			shapes = append(shapes, shape{n, t})
		}
	}
	prevMsg := []byte("previously verified")
	for run.NOps < a.N && !run.Enough() {
		for _, si := range rng.Perm(len(shapes)) {
			n, t := shapes[si].n, shapes[si].t
			secret := scalar()
			// -- split
			if rng.Chance(2, 3) {
				// byte stream for t-1 coefficients; some reads are >= r (rejected and retried), some zero
				var plan []byte
				for c := 1; c < t; c++ {
					for rng.Chance(1, 5) {
						bad := rndBytes(32)
						bad[0] |= 0x80 // >= 2^255 > r
						if rng.Chance(1, 3) {
							bad = rOrder.FillBytes(make([]byte, 32)) // exactly r
						}
						plan = append(plan, bad...)
						run.Count("new:rejected_read")
					}
					if rng.Chance(1, 25) {
						plan = append(plan, make([]byte, 32)...) // zero coefficient (accepted by herumi)
						run.Count("new:zero_coeff")
					} else {
						plan = append(plan, scalar()...)
					}
				}
				exec(fmt.Sprintf("new det %d %d %x %s", n, t, secret, hexOf(plan)))
			} else {
				exec(fmt.Sprintf("new rnd %d %d %x -", n, t, secret))
			}
			if !live {
				continue
			}
			// -- every qualified subset (n <= 7), sampled above; plus below-threshold probes
			var quals []int
			full := 1<<n - 1
			if n <= 7 {
				for m := 1; m <= full; m++ {
					if popcount(m) >= t {
						quals = append(quals, m)
					}
				}
			} else {
				// number of qualified subsets, capped
				total := 0
				for m := 1; m <= full; m++ {
					if popcount(m) >= t {
						total++
					}
				}
				if total > 40 {
					total = 40
				}
				seen := map[int]bool{full: true}
				quals = append(quals, full)
				for len(quals) < total {
					m := 0
					want := t + rng.Intn(n-t+1)
					if rng.Chance(1, 2) {
						want = t
					}
					for _, i := range rng.Perm(n)[:want] {
						m |= 1 << i
					}
					if !seen[m] {
						seen[m] = true
						quals = append(quals, m)
					}
				}
			}
			msg := message()
			for _, m := range quals {
				ids := subsetIDs(m, n)
				if rng.Chance(1, 4) { // map order is irrelevant, list order must be too
					p := rng.Perm(len(ids))
					sh := make([]int, len(ids))
					for i, x := range p {
						sh[i] = ids[x]
					}
					ids = sh
				}
				exec("rec " + idsStr(ids))
				exec(fmt.Sprintf("sig %s %s", idsStr(ids), hexOf(msg)))
			}
			for k := 0; k < 3; k++ { // below threshold: t-1 shares (never the property's concern; model predicts failure)
				ids := subsetIDs(0, n)
				for _, i := range rng.Perm(n)[:t-1] {
					ids = append(ids, i+1)
				}
				sort.Ints(ids)
				exec("rec " + idsStr(ids))
				exec(fmt.Sprintf("sig %s %s", idsStr(ids), hexOf(msg)))
			}
			// -- Verify is a function of (key, message, signature): same bytes, other messages / keys, both orders
			for q := 0; q < 4; q++ {
				m := quals[rng.Intn(len(quals))]
				if q == 0 {
					m = full
				}
				ids := subsetIDs(m, n)
				j := ids[rng.Intn(len(ids))]
				k := 1 + rng.Intn(n)
				for k == j {
					k = 1 + rng.Intn(n)
				}
				vm := msg // the message verified in the sweep above (already accepted under the group key)
				if q >= 2 {
					vm = message() // a fresh one: wrong messages are tried first
				}
				flip := append([]byte{}, vm...)
				if len(flip) == 0 {
					flip = []byte{1}
				} else {
					flip[rng.Intn(len(flip))] ^= 1 << rng.Intn(8)
				}
				w1 := message()
				w2 := prevMsg // a message accepted earlier (other key / other episode)
				var w3 []byte // the empty message
				if len(vm) == 0 {
					w3 = []byte{0}
				}
				if rng.Chance(1, 12) {
					w1 = vm // control: the right message
				}
				exec(fmt.Sprintf("vfy %s %d %d %s %s %s %s %s", idsStr(ids), j, k, hexOf(vm), hexOf(w1), hexOf(w2), hexOf(w3), hexOf(flip)))
				prevMsg = vm
			}
			// -- single substitutions on a few qualified subsets: every position j
			for k := 0; k < 4; k++ {
				m := quals[rng.Intn(len(quals))]
				if k == 0 {
					m = full
				}
				ids := subsetIDs(m, n)
				msg := message()
				for _, j := range ids {
					// wrong share
					var sc []byte
					switch rng.Intn(12) {
					case 0: // control: the right share
						s := ep.shares[j]
						sc = s[:]
					case 1: // off by one
						s := ep.shares[j]
						v := new(big.Int).SetBytes(s[:])
						v.Add(v, big.NewInt(1)).Mod(v, rOrder)
						sc = v.FillBytes(make([]byte, 32))
					case 2: // the undivided secret itself
						sc = secret
					default:
						sc = scalar()
					}
					exec(fmt.Sprintf("subshare %s %d %x %s", idsStr(ids), j, sc, hexOf(msg)))
					// wrong index: some other node's signature under j (k inside or outside the set)
					other := 1 + rng.Intn(n)
					for other == j {
						other = 1 + rng.Intn(n)
					}
					exec(fmt.Sprintf("subindex %s %d %d %s", idsStr(ids), j, other, hexOf(msg)))
					// wrong message
					msg2 := append([]byte{}, msg...)
					switch r := rng.Intn(12); {
					case r == 0: // control
					case r < 4 && len(msg2) > 0:
						msg2[rng.Intn(len(msg2))] ^= 1 << rng.Intn(8)
					case r < 6:
						msg2 = append(msg2, 0)
					case r < 7 && len(msg2) > 0:
						msg2 = msg2[:len(msg2)-1]
					default:
						msg2 = message()
					}
					exec(fmt.Sprintf("submsg %s %d %s %s", idsStr(ids), j, hexOf(msg), hexOf(msg2)))
				}
			}
			if run.NOps >= a.N && a.Tier == "quick" {
				break
			}
		}
	}
}
