// drive-corebcast: correspondence driver for the last hop of C01 (core/bcast/bcast.go).
//
// Runs the REAL bcast.New(...) Broadcaster over a beacon mock whose submit endpoints, validator
// registry, attester duties and signing domain are scripted per op and whose submit endpoints CAPTURE
// what is handed to the beacon node. Every op builds a core.SignedDataSet of real signed objects
// (repo testutil generators, real t-of-n tbls keys: the group signature is the threshold aggregate of
// t partial signatures) of some duty type x data version, calls Broadcast and compares error class and
// the canonical list of captured submissions with the model (lean/Driver/CoreBcast.lean). The model
// gets an abstract view computed INDEPENDENTLY of the broadcaster: per entry the Go type, content
// identity (object with signature and validator index blanked), signature identity, version, blinded
// flag, validator index, attestation slot / target epoch / data root; the scripted beacon node; and
// `facts` = the outcome of direct tbls.Verify calls (our own compute_domain over our own fork table)
// for every (duty public key, epoch, attestation) the recovery loop could consult.
//
// ops (recipe before " | ", abstract view after it, observed answer after " # "; exec mode reads only
// the recipe):
//
//	cfg ks=<id> n=<n> t=<t> m=<validators> | -
//	bc duty=<n> seed=<u64> ents=<ent;ent;…|-> vals=<…> duties=<…> dom=<0|1> sub=<…> | … # …
//	     ent    := <validator>/<kind>/<version>[b]/<epoch>/<slotoff>/<idx>/<sig>/<keying>
//	     version:= 0..6 (phase0..fulu) | 8 (electra version, nil inner object) | 9 (unknown version 99)
//	     idx    := nil | own | o<k>        (attestations: VersionedAttestation.ValidatorIndex)
//	     sig    := ok | v<pos> (group key of validator pos) | x (a key outside the cluster) | share
//	             | fork<epoch> (own key, domain of another epoch) | zero | inf | rand | dup<j> (copy of entry j)
//	     keying := own | bad
//	     vals   := x | - | <idx>.<pos>.<a|p|n|m>.<activation epoch>,…   (a active, p pending, n nil entry,
//	               m entry with nil Validator)
//	     duties := x | - | <pos>.<slot>.<idx>,…      (pos -1: the extra validator, -9: a garbage public key)
//	     sub    := - | o|p|k|e,…   answers of the node to the submit calls in order (o ok,
//	               p "…PriorAttestationKnown…", k "…AlreadyKnown…", e another error)
//
// answer := <class> <calls|->   (see Driver/CoreBcast.lean)
//
// Go's iteration order over the set is not under the driver's control. Where it can be observed — the
// order in which the objects arrive at the beacon node is the order of the one `range` over the map — the
// abstract view names it (last field) and the model has to produce the observed answer for THAT order;
// where it cannot (nothing was handed over), the model has to produce it for some order.
//
//go:debug randseednop=0
package main

import (
	"context"
	"crypto/sha256"
	"encoding/binary"
	"encoding/json"
	"errors"
	"fmt"
	"math/rand"
	"sort"
	"strconv"
	"strings"
	"testing"
	"time"

	"github.com/OffchainLabs/go-bitfield"
	eth2api "github.com/attestantio/go-eth2-client/api"
	eth2v1 "github.com/attestantio/go-eth2-client/api/v1"
	eth2bellatrix "github.com/attestantio/go-eth2-client/api/v1/bellatrix"
	eth2capella "github.com/attestantio/go-eth2-client/api/v1/capella"
	eth2deneb "github.com/attestantio/go-eth2-client/api/v1/deneb"
	eth2electra "github.com/attestantio/go-eth2-client/api/v1/electra"
	eth2fulu "github.com/attestantio/go-eth2-client/api/v1/fulu"
	eth2spec "github.com/attestantio/go-eth2-client/spec"
	"github.com/attestantio/go-eth2-client/spec/altair"
	"github.com/attestantio/go-eth2-client/spec/bellatrix"
	"github.com/attestantio/go-eth2-client/spec/capella"
	"github.com/attestantio/go-eth2-client/spec/deneb"
	"github.com/attestantio/go-eth2-client/spec/electra"
	eth2p0 "github.com/attestantio/go-eth2-client/spec/phase0"

	"github.com/obolnetwork/charon/app/eth2wrap"
	"github.com/obolnetwork/charon/app/log"
	"github.com/obolnetwork/charon/core"
	"github.com/obolnetwork/charon/core/bcast"
	"github.com/obolnetwork/charon/eth2util/signing"
	"github.com/obolnetwork/charon/tbls"
	"github.com/obolnetwork/charon/testutil"
	"github.com/obolnetwork/charon/testutil/beaconmock"

	"verifharness/hx"
)

// The sections "chain configuration" … "signing" are the same code as in cmd/drive-sigagg (each
// driver is a self-contained main package).

// =============================================================================================
// =============================================================================================
// chain configuration: our own fork table and domain computation (independent of eth2util/signing)

const spe = 16 // SLOTS_PER_EPOCH of the beacon mock

var (
	forkEpochs = []uint64{0, 4, 8, 12, 16, 20, 24}
	genesisVR  = [32]byte{0x21, 0x2f, 0x13, 0xfc, 0x4d, 0xf0, 0x78, 0xb6, 0x01, 0x02, 0x03}
	genesisT   = time.Date(2022, 3, 1, 0, 0, 0, 0, time.UTC)
)

func forkVersion(i int) [4]byte { return [4]byte{byte(0x10 * (i + 1)), 0x00, 0x09, 0x10} }

func forkIndexAt(epoch uint64) int {
	idx := 0
	for i, e := range forkEpochs {
		if e <= epoch {
			idx = i
		}
	}
	return idx
}

func forkScheduleJSON() string {
	var parts []string
	for i, e := range forkEpochs {
		prev := forkVersion(i)
		if i > 0 {
			prev = forkVersion(i - 1)
		}
		parts = append(parts, fmt.Sprintf(`{"previous_version":"%#x","current_version":"%#x","epoch":"%d"}`, prev, forkVersion(i), e))
	}
	return `{"data":[` + strings.Join(parts, ",") + `]}`
}

// domain indices = order of CharonV.Admit.Domain
const (
	domProposer = iota
	domAttester
	domExit
	domBuilder
	domRandao
	domSelection
	domAggAndProof
	domSyncComm
	domContribAndProof
	domSyncSelection
	numDomains
)

// domain type constants of the consensus spec (phase0/altair beacon-chain.md, builder-specs)
var domainTypes = [numDomains][4]byte{
	domProposer:        {0x00, 0, 0, 0},
	domAttester:        {0x01, 0, 0, 0},
	domRandao:          {0x02, 0, 0, 0},
	domExit:            {0x04, 0, 0, 0},
	domSelection:       {0x05, 0, 0, 0},
	domAggAndProof:     {0x06, 0, 0, 0},
	domSyncComm:        {0x07, 0, 0, 0},
	domSyncSelection:   {0x08, 0, 0, 0},
	domContribAndProof: {0x09, 0, 0, 0},
	domBuilder:         {0x00, 0, 0, 0x01},
}

var domainNames = [numDomains]signing.DomainName{
	domProposer: signing.DomainBeaconProposer, domAttester: signing.DomainBeaconAttester,
	domRandao: signing.DomainRandao, domExit: signing.DomainExit, domSelection: signing.DomainSelectionProof,
	domAggAndProof: signing.DomainAggregateAndProof, domSyncComm: signing.DomainSyncCommittee,
	domSyncSelection: signing.DomainSyncCommitteeSelectionProof, domContribAndProof: signing.DomainContributionAndProof,
	domBuilder: signing.DomainApplicationBuilder,
}

// computeDomain is compute_domain of the consensus spec.
func computeDomain(domType [4]byte, version [4]byte, gvr [32]byte) [32]byte {
	fd := &eth2p0.ForkData{CurrentVersion: version, GenesisValidatorsRoot: gvr}
	root, err := fd.HashTreeRoot()
	hx.Must(err)
	var d [32]byte
	copy(d[:4], domType[:])
	copy(d[4:], root[:28])
	return d
}

// signingRootWith is compute_signing_root with an explicitly chosen fork epoch and genesis root
// (used both for honest signing and for domain/fork/gvr substitutions).
func signingRootWith(dom int, forkEpoch uint64, gvr [32]byte, root [32]byte) [32]byte {
	var d [32]byte
	if dom == domBuilder {
		d = computeDomain(domainTypes[dom], forkVersion(0), [32]byte{})
	} else {
		d = computeDomain(domainTypes[dom], forkVersion(forkIndexAt(forkEpoch)), gvr)
	}
	sd := &eth2p0.SigningData{ObjectRoot: root, Domain: d}
	r, err := sd.HashTreeRoot()
	hx.Must(err)
	return r
}

func signingRoot(dom int, epoch uint64, root [32]byte) [32]byte {
	return signingRootWith(dom, epoch, genesisVR, root)
}

func u64Root(x uint64) [32]byte {
	var r [32]byte
	binary.LittleEndian.PutUint64(r[:8], x)
	return r
}

// =============================================================================================
// beacon mock (one per process)

var bmockBase beaconmock.Mock

func initMock(ctx context.Context) {
	m, err := beaconmock.New(ctx,
		beaconmock.WithEndpoint("/eth/v1/config/fork_schedule", forkScheduleJSON()),
		beaconmock.WithGenesisValidatorsRoot(genesisVR),
		beaconmock.WithGenesisTime(genesisT),
		beaconmock.WithSlotsPerEpoch(spe),
	)
	hx.Must(err)
	bmockBase = m
	// sanity: our domain computation agrees with eth2util/signing over the mock on an honest input
	for d := 0; d < numDomains; d++ {
		for _, e := range []uint64{0, 3, 4, 13, 24, 1000} {
			root := [32]byte{byte(d), byte(e)}
			want, err := signing.GetDataRoot(ctx, m, domainNames[d], eth2p0.Epoch(e), root)
			hx.Must(err)
			if got := signingRoot(d, e, root); got != want {
				panic(fmt.Sprintf("harness domain computation disagrees with signing.GetDataRoot: dom %d epoch %d", d, e))
			}
		}
	}
}

// =============================================================================================
// clusters: real t-of-n keys, deterministic per key-set id

type rngReader struct{ r *hx.Rng }

func (r rngReader) Read(p []byte) (int, error) {
	for i := range p {
		p[i] = byte(r.r.U64())
	}
	return len(p), nil
}

type cluster struct {
	ks, n, t, m int
	secrets     []tbls.PrivateKey
	pubkeys     []tbls.PublicKey
	corePks     []core.PubKey
	shares      []map[int]tbls.PrivateKey
	pubshares   map[core.PubKey]map[int]tbls.PublicKey
	// one extra validator that is active on the beacon node but not part of the lock
	xSecret tbls.PrivateKey
	xPub    tbls.PublicKey
	active  eth2wrap.ActiveValidators
	mock    beaconmock.Mock
	allKeys []tbls.PublicKey // every pubshare, every group key, the extra key
}

const valIdxBase = 100 // beacon validator index of cluster validator i is valIdxBase+i
const xValIdx = 900

var clusters = map[string]*cluster{}

func getCluster(ks, n, t, m int) *cluster {
	key := fmt.Sprintf("%d/%d/%d/%d", ks, n, t, m)
	if c, ok := clusters[key]; ok {
		return c
	}
	r := hx.NewRng(uint64(ks)*7919 + uint64(n)*131 + uint64(t)*17 + uint64(m))
	c := &cluster{ks: ks, n: n, t: t, m: m, pubshares: map[core.PubKey]map[int]tbls.PublicKey{}, active: eth2wrap.ActiveValidators{}}
	newSecret := func() tbls.PrivateKey {
		s, err := tbls.GenerateInsecureKey(new(testing.T), rngReader{r})
		hx.Must(err)
		return s
	}
	for i := 0; i < m; i++ {
		sec := newSecret()
		pub, err := tbls.SecretToPublicKey(sec)
		hx.Must(err)
		sh, err := tbls.ThresholdSplitInsecure(new(testing.T), sec, uint(n), uint(t), rngReader{r})
		hx.Must(err)
		cpk, err := core.PubKeyFromBytes(pub[:])
		hx.Must(err)
		ps := map[int]tbls.PublicKey{}
		for idx := 1; idx <= n; idx++ {
			s := sh[idx]
			p, err := tbls.SecretToPublicKey(s)
			hx.Must(err)
			ps[idx] = p
			c.allKeys = append(c.allKeys, p)
		}
		c.secrets = append(c.secrets, sec)
		c.pubkeys = append(c.pubkeys, pub)
		c.corePks = append(c.corePks, cpk)
		c.shares = append(c.shares, sh)
		c.pubshares[cpk] = ps
		c.allKeys = append(c.allKeys, pub)
		c.active[eth2p0.ValidatorIndex(valIdxBase+i)] = eth2p0.BLSPubKey(pub)
	}
	c.xSecret = newSecret()
	xp, err := tbls.SecretToPublicKey(c.xSecret)
	hx.Must(err)
	c.xPub = xp
	c.allKeys = append(c.allKeys, xp)
	c.active[eth2p0.ValidatorIndex(xValIdx)] = eth2p0.BLSPubKey(xp)
	c.mock = bmockBase
	act := c.active
	c.mock.CachedValidatorsFunc = func(context.Context) (eth2wrap.ActiveValidators, eth2wrap.CompleteValidators, error) {
		return act, nil, nil
	}
	clusters[key] = c
	return c
}

// validator index (beacon) -> position in cluster (-1: the extra validator, -2: nobody)
func (c *cluster) posOfValIdx(v uint64) int {
	if v >= valIdxBase && v < uint64(valIdxBase+c.m) {
		return int(v - valIdxBase)
	}
	if v == xValIdx {
		return -1
	}
	return -2
}

// =============================================================================================
// samples: one signed object of some type, built from testutil generators

const (
	kAtt = iota
	kRandao
	kProp
	kBProp
	kExit
	kBcSel
	kAgg
	kSyncMsg
	kContrib
	kSyncSel
	kReg
	kOldAgg
	kRaw
	numKinds
)

var kindNames = [numKinds]string{"att", "randao", "prop", "bprop", "exit", "bcsel", "agg", "syncmsg", "contrib", "syncsel", "reg", "oldagg", "raw"}

// SigType indices = order of Driver.Admit.sigTypes
const (
	tyProposal = iota
	tyAttestation
	tyExit
	tyRegistration
	tyRandao
	tyBcSelection
	tyAggProof
	tyVAggProof
	tySyncMessage
	tyContribution
	tySyncSelection
	tyRawSig
)

type randaoS struct {
	Slot      eth2p0.Slot  // VC door: ProposalOpts.Slot (the signed epoch is Slot / SLOTS_PER_EPOCH)
	Epoch     eth2p0.Epoch // peer door: SignedEpoch.Epoch
	Signature eth2p0.BLSSignature
	vc        bool
}

func (r *randaoS) epoch() eth2p0.Epoch {
	if r.vc {
		return eth2p0.Epoch(uint64(r.Slot) / spe)
	}
	return r.Epoch
}

type sample struct {
	kind int
	obj  any // pointer to the submitted object
}

var versions = []eth2spec.DataVersion{eth2spec.DataVersionPhase0, eth2spec.DataVersionAltair, eth2spec.DataVersionBellatrix,
	eth2spec.DataVersionCapella, eth2spec.DataVersionDeneb, eth2spec.DataVersionElectra, eth2spec.DataVersionFulu}

func numVersions(kind int) int {
	switch kind {
	case kAtt, kProp, kAgg:
		return 7
	case kBProp:
		return 5
	}
	return 1
}

type buildArgs struct {
	valIdx  uint64 // beacon validator index written into the object
	ver     int
	blinded bool
	epoch   uint64 // the object's own epoch
	slotOff uint64 // slot offset inside the epoch (where the object has a slot)
	subcomm uint64
	commIdx uint64
	vci     uint64 // validator committee index (pre-electra attestations)
	commLen uint64
	vcDoor  bool
}

func attData(a buildArgs) *eth2p0.AttestationData {
	d := testutil.RandomAttestationDataPhase0()
	d.Slot = eth2p0.Slot(a.epoch*spe + a.slotOff)
	d.Index = eth2p0.CommitteeIndex(a.commIdx)
	d.Target.Epoch = eth2p0.Epoch(a.epoch)
	if a.epoch > 0 {
		d.Source.Epoch = eth2p0.Epoch(a.epoch - 1)
	} else {
		d.Source.Epoch = 0
	}
	return d
}

func oneBit(n, at uint64) bitfield.Bitlist {
	b := bitfield.NewBitlist(n)
	b.SetBitAt(at, true)
	return b
}

func buildSample(kind int, a buildArgs) *sample {
	slot := eth2p0.Slot(a.epoch*spe + a.slotOff)
	vidx := eth2p0.ValidatorIndex(a.valIdx)
	switch kind {
	case kAtt:
		v := &eth2spec.VersionedAttestation{Version: versions[a.ver]}
		if a.ver <= 4 {
			att := &eth2p0.Attestation{AggregationBits: oneBit(a.commLen, a.vci), Data: attData(a)}
			switch a.ver {
			case 0:
				v.Phase0 = att
			case 1:
				v.Altair = att
			case 2:
				v.Bellatrix = att
			case 3:
				v.Capella = att
			case 4:
				v.Deneb = att
			}
		} else {
			d := attData(a)
			d.Index = 0
			cb := bitfield.NewBitvector64()
			cb.SetBitAt(a.commIdx, true)
			att := &electra.Attestation{AggregationBits: oneBit(a.commLen, a.vci), Data: d, CommitteeBits: cb}
			vi := vidx
			v.ValidatorIndex = &vi
			if a.ver == 5 {
				v.Electra = att
			} else {
				v.Fulu = att
			}
		}
		return &sample{kind, v}
	case kRandao:
		return &sample{kind, &randaoS{Slot: slot, Epoch: eth2p0.Epoch(a.epoch), vc: a.vcDoor}}
	case kProp, kBProp:
		p := &eth2api.VersionedSignedProposal{Version: versions[a.ver], Blinded: a.blinded}
		switch {
		case a.ver == 0:
			b := testutil.RandomPhase0BeaconBlock()
			b.Slot, b.ProposerIndex = slot, vidx
			p.Phase0 = &eth2p0.SignedBeaconBlock{Message: b}
		case a.ver == 1:
			b := testutil.RandomAltairBeaconBlock()
			b.Slot, b.ProposerIndex = slot, vidx
			p.Altair = &altair.SignedBeaconBlock{Message: b}
		case a.ver == 2 && !a.blinded:
			b := testutil.RandomBellatrixBeaconBlock()
			b.Slot, b.ProposerIndex = slot, vidx
			p.Bellatrix = &bellatrix.SignedBeaconBlock{Message: b}
		case a.ver == 2:
			b := testutil.RandomBellatrixBlindedBeaconBlock()
			b.Slot, b.ProposerIndex = slot, vidx
			p.BellatrixBlinded = &eth2bellatrix.SignedBlindedBeaconBlock{Message: b}
		case a.ver == 3 && !a.blinded:
			b := testutil.RandomCapellaBeaconBlock()
			b.Slot, b.ProposerIndex = slot, vidx
			p.Capella = &capella.SignedBeaconBlock{Message: b}
		case a.ver == 3:
			b := testutil.RandomCapellaBlindedBeaconBlock()
			b.Slot, b.ProposerIndex = slot, vidx
			p.CapellaBlinded = &eth2capella.SignedBlindedBeaconBlock{Message: b}
		case a.ver == 4 && !a.blinded:
			b := testutil.RandomDenebBeaconBlock()
			b.Slot, b.ProposerIndex = slot, vidx
			p.Deneb = &eth2deneb.SignedBlockContents{SignedBlock: &deneb.SignedBeaconBlock{Message: b}, KZGProofs: []deneb.KZGProof{}, Blobs: []deneb.Blob{}}
		case a.ver == 4:
			b := testutil.RandomDenebBlindedBeaconBlock()
			b.Slot, b.ProposerIndex = slot, vidx
			p.DenebBlinded = &eth2deneb.SignedBlindedBeaconBlock{Message: b}
		case a.ver == 5 && !a.blinded:
			b := testutil.RandomElectraBeaconBlock()
			b.Slot, b.ProposerIndex = slot, vidx
			p.Electra = &eth2electra.SignedBlockContents{SignedBlock: &electra.SignedBeaconBlock{Message: b}, KZGProofs: []deneb.KZGProof{}, Blobs: []deneb.Blob{}}
		case a.ver == 5:
			b := testutil.RandomElectraBlindedBeaconBlock()
			b.Slot, b.ProposerIndex = slot, vidx
			p.ElectraBlinded = &eth2electra.SignedBlindedBeaconBlock{Message: b}
		case a.ver == 6 && !a.blinded:
			b := testutil.RandomElectraBeaconBlock()
			b.Slot, b.ProposerIndex = slot, vidx
			p.Fulu = &eth2fulu.SignedBlockContents{SignedBlock: &electra.SignedBeaconBlock{Message: b}, KZGProofs: []deneb.KZGProof{}, Blobs: []deneb.Blob{}}
		default:
			b := testutil.RandomElectraBlindedBeaconBlock()
			b.Slot, b.ProposerIndex = slot, vidx
			p.FuluBlinded = &eth2electra.SignedBlindedBeaconBlock{Message: b}
		}
		if kind == kBProp {
			return &sample{kind, &eth2api.VersionedSignedBlindedProposal{Version: p.Version, Bellatrix: p.BellatrixBlinded,
				Capella: p.CapellaBlinded, Deneb: p.DenebBlinded, Electra: p.ElectraBlinded, Fulu: p.FuluBlinded}}
		}
		return &sample{kind, p}
	case kExit:
		return &sample{kind, &eth2p0.SignedVoluntaryExit{Message: &eth2p0.VoluntaryExit{Epoch: eth2p0.Epoch(a.epoch), ValidatorIndex: vidx}}}
	case kBcSel:
		return &sample{kind, &eth2v1.BeaconCommitteeSelection{ValidatorIndex: vidx, Slot: slot}}
	case kAgg, kOldAgg:
		agg := testutil.RandomAggregateAttestation()
		agg.Data.Slot = slot
		if kind == kOldAgg {
			return &sample{kind, &eth2p0.SignedAggregateAndProof{Message: &eth2p0.AggregateAndProof{AggregatorIndex: vidx, Aggregate: agg}}}
		}
		v := &eth2spec.VersionedSignedAggregateAndProof{Version: versions[a.ver]}
		if a.ver <= 4 {
			s := &eth2p0.SignedAggregateAndProof{Message: &eth2p0.AggregateAndProof{AggregatorIndex: vidx, Aggregate: agg}}
			switch a.ver {
			case 0:
				v.Phase0 = s
			case 1:
				v.Altair = s
			case 2:
				v.Bellatrix = s
			case 3:
				v.Capella = s
			case 4:
				v.Deneb = s
			}
		} else {
			ea := testutil.RandomElectraAttestation()
			ea.Data.Slot = slot
			s := &electra.SignedAggregateAndProof{Message: &electra.AggregateAndProof{AggregatorIndex: vidx, Aggregate: ea}}
			if a.ver == 5 {
				v.Electra = s
			} else {
				v.Fulu = s
			}
		}
		return &sample{kind, v}
	case kSyncMsg:
		return &sample{kind, &altair.SyncCommitteeMessage{Slot: slot, BeaconBlockRoot: testutil.RandomRoot(), ValidatorIndex: vidx}}
	case kContrib:
		c := testutil.RandomSignedSyncContributionAndProof()
		c.Message.AggregatorIndex = vidx
		c.Message.Contribution.Slot = slot
		c.Message.Contribution.SubcommitteeIndex = a.subcomm
		c.Message.SelectionProof = eth2p0.BLSSignature{}
		c.Signature = eth2p0.BLSSignature{}
		return &sample{kind, c}
	case kSyncSel:
		return &sample{kind, &eth2v1.SyncCommitteeSelection{ValidatorIndex: vidx, Slot: slot, SubcommitteeIndex: a.subcomm}}
	case kReg:
		r := testutil.RandomVersionedSignedValidatorRegistration(new(testing.T))
		r.V1.Signature = eth2p0.BLSSignature{}
		// the generator uses crypto/rand and time.Now: overwrite with values from the seeded source
		_, _ = rand.Read(r.V1.Message.FeeRecipient[:])
		r.V1.Message.Timestamp = time.Unix(1700000000+int64(rand.Intn(1000000)), 0)
		return &sample{kind, r}
	case kRaw:
		s := core.Signature(make([]byte, 96))
		return &sample{kind, &s}
	}
	panic("bad kind")
}

// view is what the harness itself reads off an object: type, domain, own epoch, own message root,
// signature, slot / subcommittee / validator index the object names. Written by hand per type; it
// does not call core's Eth2SignedData methods.
type view struct {
	ty      int
	dom     int // -1: not an eth2 signed object
	epoch   *uint64
	root    *[32]byte
	sig     [96]byte
	slot    uint64
	subcomm uint64
	valIdx  *uint64
}

func p0AttOf(v *eth2spec.VersionedAttestation) (*eth2p0.AttestationData, *eth2p0.BLSSignature, bool) {
	var a *eth2p0.Attestation
	switch v.Version {
	case eth2spec.DataVersionPhase0:
		a = v.Phase0
	case eth2spec.DataVersionAltair:
		a = v.Altair
	case eth2spec.DataVersionBellatrix:
		a = v.Bellatrix
	case eth2spec.DataVersionCapella:
		a = v.Capella
	case eth2spec.DataVersionDeneb:
		a = v.Deneb
	case eth2spec.DataVersionElectra:
		if v.Electra == nil {
			return nil, nil, false
		}
		return v.Electra.Data, &v.Electra.Signature, true
	case eth2spec.DataVersionFulu:
		if v.Fulu == nil {
			return nil, nil, false
		}
		return v.Fulu.Data, &v.Fulu.Signature, true
	default:
		return nil, nil, false
	}
	if a == nil {
		return nil, nil, false
	}
	return a.Data, &a.Signature, true
}

type htr interface{ HashTreeRoot() ([32]byte, error) }

// propParts returns the block message, its slot, proposer index and a pointer to the signature.
func propParts(p *eth2api.VersionedSignedProposal) (htr, uint64, uint64, *eth2p0.BLSSignature, bool) {
	switch p.Version {
	case eth2spec.DataVersionPhase0:
		if p.Phase0 != nil {
			return p.Phase0.Message, uint64(p.Phase0.Message.Slot), uint64(p.Phase0.Message.ProposerIndex), &p.Phase0.Signature, true
		}
	case eth2spec.DataVersionAltair:
		if p.Altair != nil {
			return p.Altair.Message, uint64(p.Altair.Message.Slot), uint64(p.Altair.Message.ProposerIndex), &p.Altair.Signature, true
		}
	case eth2spec.DataVersionBellatrix:
		if p.Blinded && p.BellatrixBlinded != nil {
			return p.BellatrixBlinded.Message, uint64(p.BellatrixBlinded.Message.Slot), uint64(p.BellatrixBlinded.Message.ProposerIndex), &p.BellatrixBlinded.Signature, true
		}
		if !p.Blinded && p.Bellatrix != nil {
			return p.Bellatrix.Message, uint64(p.Bellatrix.Message.Slot), uint64(p.Bellatrix.Message.ProposerIndex), &p.Bellatrix.Signature, true
		}
	case eth2spec.DataVersionCapella:
		if p.Blinded && p.CapellaBlinded != nil {
			return p.CapellaBlinded.Message, uint64(p.CapellaBlinded.Message.Slot), uint64(p.CapellaBlinded.Message.ProposerIndex), &p.CapellaBlinded.Signature, true
		}
		if !p.Blinded && p.Capella != nil {
			return p.Capella.Message, uint64(p.Capella.Message.Slot), uint64(p.Capella.Message.ProposerIndex), &p.Capella.Signature, true
		}
	case eth2spec.DataVersionDeneb:
		if p.Blinded && p.DenebBlinded != nil {
			return p.DenebBlinded.Message, uint64(p.DenebBlinded.Message.Slot), uint64(p.DenebBlinded.Message.ProposerIndex), &p.DenebBlinded.Signature, true
		}
		if !p.Blinded && p.Deneb != nil {
			return p.Deneb.SignedBlock.Message, uint64(p.Deneb.SignedBlock.Message.Slot), uint64(p.Deneb.SignedBlock.Message.ProposerIndex), &p.Deneb.SignedBlock.Signature, true
		}
	case eth2spec.DataVersionElectra:
		if p.Blinded && p.ElectraBlinded != nil {
			return p.ElectraBlinded.Message, uint64(p.ElectraBlinded.Message.Slot), uint64(p.ElectraBlinded.Message.ProposerIndex), &p.ElectraBlinded.Signature, true
		}
		if !p.Blinded && p.Electra != nil {
			return p.Electra.SignedBlock.Message, uint64(p.Electra.SignedBlock.Message.Slot), uint64(p.Electra.SignedBlock.Message.ProposerIndex), &p.Electra.SignedBlock.Signature, true
		}
	case eth2spec.DataVersionFulu:
		if p.Blinded && p.FuluBlinded != nil {
			return p.FuluBlinded.Message, uint64(p.FuluBlinded.Message.Slot), uint64(p.FuluBlinded.Message.ProposerIndex), &p.FuluBlinded.Signature, true
		}
		if !p.Blinded && p.Fulu != nil {
			return p.Fulu.SignedBlock.Message, uint64(p.Fulu.SignedBlock.Message.Slot), uint64(p.Fulu.SignedBlock.Message.ProposerIndex), &p.Fulu.SignedBlock.Signature, true
		}
	}
	return nil, 0, 0, nil, false
}

func asProposal(s *sample) *eth2api.VersionedSignedProposal {
	if s.kind == kProp {
		return s.obj.(*eth2api.VersionedSignedProposal)
	}
	bp := s.obj.(*eth2api.VersionedSignedBlindedProposal)
	return &eth2api.VersionedSignedProposal{Version: bp.Version, Blinded: true, BellatrixBlinded: bp.Bellatrix,
		CapellaBlinded: bp.Capella, DenebBlinded: bp.Deneb, ElectraBlinded: bp.Electra, FuluBlinded: bp.Fulu}
}

// aggParts: message, slot, aggregator index, inner selection proof, signature pointer.
func aggParts(v *eth2spec.VersionedSignedAggregateAndProof) (htr, uint64, uint64, eth2p0.BLSSignature, *eth2p0.BLSSignature, bool) {
	var a *eth2p0.SignedAggregateAndProof
	switch v.Version {
	case eth2spec.DataVersionPhase0:
		a = v.Phase0
	case eth2spec.DataVersionAltair:
		a = v.Altair
	case eth2spec.DataVersionBellatrix:
		a = v.Bellatrix
	case eth2spec.DataVersionCapella:
		a = v.Capella
	case eth2spec.DataVersionDeneb:
		a = v.Deneb
	case eth2spec.DataVersionElectra, eth2spec.DataVersionFulu:
		e := v.Electra
		if v.Version == eth2spec.DataVersionFulu {
			e = v.Fulu
		}
		if e == nil {
			return nil, 0, 0, eth2p0.BLSSignature{}, nil, false
		}
		return e.Message, uint64(e.Message.Aggregate.Data.Slot), uint64(e.Message.AggregatorIndex), e.Message.SelectionProof, &e.Signature, true
	default:
		return nil, 0, 0, eth2p0.BLSSignature{}, nil, false
	}
	if a == nil {
		return nil, 0, 0, eth2p0.BLSSignature{}, nil, false
	}
	return a.Message, uint64(a.Message.Aggregate.Data.Slot), uint64(a.Message.AggregatorIndex), a.Message.SelectionProof, &a.Signature, true
}

func mustRoot(h htr) *[32]byte {
	r, err := h.HashTreeRoot()
	if err != nil {
		return nil
	}
	return &r
}

func up(x uint64) *uint64 { return &x }

// sigPtr returns a pointer to the object's signature bytes (nil if the shape is broken).
func (s *sample) sigPtr() *eth2p0.BLSSignature {
	switch s.kind {
	case kAtt:
		_, sp, _ := p0AttOf(s.obj.(*eth2spec.VersionedAttestation))
		return sp
	case kRandao:
		return &s.obj.(*randaoS).Signature
	case kProp, kBProp:
		_, _, _, sp, _ := propParts(asProposal(s))
		return sp
	case kExit:
		return &s.obj.(*eth2p0.SignedVoluntaryExit).Signature
	case kBcSel:
		return &s.obj.(*eth2v1.BeaconCommitteeSelection).SelectionProof
	case kAgg:
		_, _, _, _, sp, _ := aggParts(s.obj.(*eth2spec.VersionedSignedAggregateAndProof))
		return sp
	case kOldAgg:
		return &s.obj.(*eth2p0.SignedAggregateAndProof).Signature
	case kSyncMsg:
		return &s.obj.(*altair.SyncCommitteeMessage).Signature
	case kContrib:
		return &s.obj.(*altair.SignedContributionAndProof).Signature
	case kSyncSel:
		return &s.obj.(*eth2v1.SyncCommitteeSelection).SelectionProof
	case kReg:
		return &s.obj.(*eth2api.VersionedSignedValidatorRegistration).V1.Signature
	}
	return nil
}

func (s *sample) view() view {
	v := view{dom: -1}
	if sp := s.sigPtr(); sp != nil {
		v.sig = *sp
	}
	switch s.kind {
	case kAtt:
		v.ty, v.dom = tyAttestation, domAttester
		va := s.obj.(*eth2spec.VersionedAttestation)
		v.valIdx = nil
		if va.ValidatorIndex != nil {
			v.valIdx = up(uint64(*va.ValidatorIndex))
		}
		if d, _, ok := p0AttOf(va); ok && d != nil && d.Target != nil && d.Source != nil {
			v.epoch, v.root, v.slot = up(uint64(d.Target.Epoch)), mustRoot(d), uint64(d.Slot)
		}
	case kRandao:
		r := s.obj.(*randaoS)
		v.ty, v.dom = tyRandao, domRandao
		v.epoch, v.slot = up(uint64(r.epoch())), uint64(r.Slot)
		rt := u64Root(uint64(r.epoch()))
		v.root = &rt
	case kProp, kBProp:
		v.ty, v.dom = tyProposal, domProposer
		if m, slot, pi, _, ok := propParts(asProposal(s)); ok {
			v.root, v.slot, v.valIdx = mustRoot(m), slot, up(pi)
			// the object's epoch comes from the Slot accessor of the go-eth2-client type, which (in the
			// fork the repo pins) knows no pre-merge block versions: such proposals have no epoch
			if _, err := asProposal(s).Slot(); err == nil {
				v.epoch = up(slot / spe)
			}
		}
	case kExit:
		e := s.obj.(*eth2p0.SignedVoluntaryExit)
		v.ty, v.dom = tyExit, domExit
		v.epoch, v.root, v.slot, v.valIdx = up(uint64(e.Message.Epoch)), mustRoot(e.Message), uint64(e.Message.Epoch)*spe, up(uint64(e.Message.ValidatorIndex))
	case kBcSel:
		b := s.obj.(*eth2v1.BeaconCommitteeSelection)
		v.ty, v.dom = tyBcSelection, domSelection
		rt := u64Root(uint64(b.Slot))
		v.epoch, v.root, v.slot, v.valIdx = up(uint64(b.Slot)/spe), &rt, uint64(b.Slot), up(uint64(b.ValidatorIndex))
	case kAgg:
		v.ty, v.dom = tyVAggProof, domAggAndProof
		if m, slot, ai, _, _, ok := aggParts(s.obj.(*eth2spec.VersionedSignedAggregateAndProof)); ok {
			v.epoch, v.root, v.slot, v.valIdx = up(slot/spe), mustRoot(m), slot, up(ai)
		}
	case kOldAgg:
		a := s.obj.(*eth2p0.SignedAggregateAndProof)
		v.ty, v.dom = tyAggProof, domAggAndProof
		slot := uint64(a.Message.Aggregate.Data.Slot)
		v.epoch, v.root, v.slot, v.valIdx = up(slot/spe), mustRoot(a.Message), slot, up(uint64(a.Message.AggregatorIndex))
	case kSyncMsg:
		m := s.obj.(*altair.SyncCommitteeMessage)
		v.ty, v.dom = tySyncMessage, domSyncComm
		rt := [32]byte(m.BeaconBlockRoot)
		v.epoch, v.root, v.slot, v.valIdx = up(uint64(m.Slot)/spe), &rt, uint64(m.Slot), up(uint64(m.ValidatorIndex))
	case kContrib:
		c := s.obj.(*altair.SignedContributionAndProof)
		v.ty, v.dom = tyContribution, domContribAndProof
		slot := uint64(c.Message.Contribution.Slot)
		v.epoch, v.root, v.slot, v.subcomm, v.valIdx = up(slot/spe), mustRoot(c.Message), slot, c.Message.Contribution.SubcommitteeIndex, up(uint64(c.Message.AggregatorIndex))
	case kSyncSel:
		x := s.obj.(*eth2v1.SyncCommitteeSelection)
		v.ty, v.dom = tySyncSelection, domSyncSelection
		d := &altair.SyncAggregatorSelectionData{Slot: x.Slot, SubcommitteeIndex: x.SubcommitteeIndex}
		v.epoch, v.root, v.slot, v.subcomm, v.valIdx = up(uint64(x.Slot)/spe), mustRoot(d), uint64(x.Slot), x.SubcommitteeIndex, up(uint64(x.ValidatorIndex))
	case kReg:
		r := s.obj.(*eth2api.VersionedSignedValidatorRegistration)
		v.ty, v.dom = tyRegistration, domBuilder
		v.epoch, v.root = up(0), mustRoot(r.V1.Message)
	case kRaw:
		v.ty = tyRawSig
		copy(v.sig[:], *s.obj.(*core.Signature))
	}
	return v
}

func (s *sample) setSig(sig [96]byte) {
	if s.kind == kRaw {
		b := core.Signature(append([]byte(nil), sig[:]...))
		*s.obj.(*core.Signature) = b
		return
	}
	if sp := s.sigPtr(); sp != nil {
		*sp = sig
	}
}

// toCore wraps (a deep copy of) the object with the repo's own constructors.
func (s *sample) toCore(shareIdx int) (core.ParSignedData, error) {
	switch s.kind {
	case kAtt:
		return core.NewPartialVersionedAttestation(s.obj.(*eth2spec.VersionedAttestation), shareIdx)
	case kRandao:
		r := s.obj.(*randaoS)
		return core.NewPartialSignedRandao(r.epoch(), r.Signature, shareIdx), nil
	case kProp:
		return core.NewPartialVersionedSignedProposal(s.obj.(*eth2api.VersionedSignedProposal), shareIdx)
	case kBProp:
		return core.NewPartialVersionedSignedBlindedProposal(s.obj.(*eth2api.VersionedSignedBlindedProposal), shareIdx)
	case kExit:
		return core.NewPartialSignedVoluntaryExit(s.obj.(*eth2p0.SignedVoluntaryExit), shareIdx), nil
	case kBcSel:
		return core.NewPartialSignedBeaconCommitteeSelection(s.obj.(*eth2v1.BeaconCommitteeSelection), shareIdx), nil
	case kAgg:
		return core.NewPartialVersionedSignedAggregateAndProof(s.obj.(*eth2spec.VersionedSignedAggregateAndProof), shareIdx), nil
	case kOldAgg:
		return core.NewPartialSignedAggregateAndProof(s.obj.(*eth2p0.SignedAggregateAndProof), shareIdx), nil
	case kSyncMsg:
		return core.NewPartialSignedSyncMessage(s.obj.(*altair.SyncCommitteeMessage), shareIdx), nil
	case kContrib:
		return core.NewPartialSignedSyncContributionAndProof(s.obj.(*altair.SignedContributionAndProof), shareIdx), nil
	case kSyncSel:
		return core.NewPartialSignedSyncCommitteeSelection(s.obj.(*eth2v1.SyncCommitteeSelection), shareIdx), nil
	case kReg:
		return core.NewPartialVersionedSignedValidatorRegistration(s.obj.(*eth2api.VersionedSignedValidatorRegistration), shareIdx)
	case kRaw:
		return core.NewPartialSignature(*s.obj.(*core.Signature), shareIdx), nil
	}
	panic("bad kind")
}

// signing

type signPlan struct {
	secret    tbls.PrivateKey
	dom       int   // -1: the object's own
	forkEpoch int64 // -1: the object's own epoch
	otherGVR  bool
}

func signView(v view, p signPlan) ([96]byte, bool) {
	if v.dom < 0 || v.epoch == nil || v.root == nil {
		return [96]byte{}, false
	}
	dom, fe, gvr := v.dom, *v.epoch, genesisVR
	if p.dom >= 0 {
		dom = p.dom
	}
	if p.forkEpoch >= 0 {
		fe = uint64(p.forkEpoch)
	}
	if p.otherGVR {
		gvr[5] ^= 0x40
	}
	sr := signingRootWith(dom, fe, gvr, *v.root)
	sig, err := tbls.Sign(p.secret, sr[:])
	hx.Must(err)
	return [96]byte(sig), true
}

// secretFor picks the signing key of an item: validator position `val` (-1 the extra validator,
// -2 nobody: the extra key again), share index `share` (0: the group secret).
func (c *cluster) secretFor(val, share int) tbls.PrivateKey {
	if val < 0 || val >= c.m {
		return c.xSecret
	}
	if share == 0 {
		return c.secrets[val]
	}
	if s, ok := c.shares[val][share]; ok {
		return s
	}
	return c.xSecret
}

// payloadView re-derives a sample from a delivered payload so that the monitors can judge it with
// the harness's own view.
func sampleOfCore(sd core.SignedData) *sample {
	switch d := sd.(type) {
	case core.VersionedAttestation:
		return &sample{kAtt, &d.VersionedAttestation}
	case core.VersionedSignedProposal:
		return &sample{kProp, &d.VersionedSignedProposal}
	case core.SignedVoluntaryExit:
		return &sample{kExit, &d.SignedVoluntaryExit}
	case core.VersionedSignedValidatorRegistration:
		return &sample{kReg, &d.VersionedSignedValidatorRegistration}
	case core.SignedRandao:
		return &sample{kRandao, &randaoS{Epoch: d.SignedEpoch.Epoch, Signature: d.SignedEpoch.Signature}}
	case core.BeaconCommitteeSelection:
		return &sample{kBcSel, &d.BeaconCommitteeSelection}
	case core.SignedAggregateAndProof:
		return &sample{kOldAgg, &d.SignedAggregateAndProof}
	case core.VersionedSignedAggregateAndProof:
		return &sample{kAgg, &d.VersionedSignedAggregateAndProof}
	case core.SignedSyncMessage:
		return &sample{kSyncMsg, &d.SyncCommitteeMessage}
	case core.SignedSyncContributionAndProof:
		return &sample{kContrib, &d.SignedContributionAndProof}
	case core.SyncCommitteeSelection:
		return &sample{kSyncSel, &d.SyncCommitteeSelection}
	case core.Signature:
		return &sample{kRaw, &d}
	}
	return nil
}

func optU(p *uint64) string {
	if p == nil {
		return "x"
	}
	return strconv.FormatUint(*p, 10)
}

func b01(b bool) string {
	if b {
		return "1"
	}
	return "0"
}

func dashIfEmpty(s string) string {
	if s == "" {
		return "-"
	}
	return s
}

func kv(tok, key string) string {
	if !strings.HasPrefix(tok, key+"=") {
		panic("expected " + key + "= in " + tok)
	}
	return strings.TrimPrefix(tok, key+"=")
}

func (c *cluster) valIdxOf(pos int) uint64 {
	switch {
	case pos >= 0 && pos < c.m:
		return uint64(valIdxBase + pos)
	case pos == -1:
		return xValIdx
	}
	return 777
}

func (c *cluster) corePkOf(pos int) (core.PubKey, bool) {
	switch {
	case pos >= 0 && pos < c.m:
		return c.corePks[pos], true
	case pos == -1:
		pk, err := core.PubKeyFromBytes(c.xPub[:])
		hx.Must(err)
		return pk, true
	}
	return "", false
}

// =============================================================================================
// group signatures: the threshold aggregate of t partial signatures (what sigagg hands to Broadcast)

func (c *cluster) groupSign(val int, msg []byte) [96]byte {
	if val < 0 || val >= c.m {
		sig, err := tbls.Sign(c.xSecret, msg)
		hx.Must(err)
		return [96]byte(sig)
	}
	parts := map[int]tbls.Signature{}
	for idx := 1; idx <= c.t; idx++ {
		s, err := tbls.Sign(c.shares[val][idx], msg)
		hx.Must(err)
		parts[idx] = s
	}
	agg, err := tbls.ThresholdAggregate(parts)
	hx.Must(err)
	return [96]byte(agg)
}

// =============================================================================================
// ops

type entSpec struct {
	val     int
	kind    int
	ver     int
	blinded bool
	epoch   uint64
	slotOff uint64
	idx     string
	sig     string
	keying  string
}

func (e entSpec) String() string {
	b := ""
	if e.blinded {
		b = "b"
	}
	return fmt.Sprintf("%d/%s/%d%s/%d/%d/%s/%s/%s", e.val, kindNames[e.kind], e.ver, b, e.epoch, e.slotOff, e.idx, e.sig, e.keying)
}

func parseEntSpec(s string) entSpec {
	p := strings.Split(s, "/")
	if len(p) != 8 {
		panic("bad entry spec " + s)
	}
	var e entSpec
	e.val, _ = strconv.Atoi(p[0])
	e.kind = -1
	for i, n := range kindNames {
		if n == p[1] {
			e.kind = i
		}
	}
	if e.kind < 0 {
		panic("bad kind " + p[1])
	}
	if strings.HasSuffix(p[2], "b") {
		e.blinded = true
		p[2] = strings.TrimSuffix(p[2], "b")
	}
	e.ver, _ = strconv.Atoi(p[2])
	e.epoch, _ = strconv.ParseUint(p[3], 10, 64)
	e.slotOff, _ = strconv.ParseUint(p[4], 10, 64)
	e.idx, e.sig, e.keying = p[5], p[6], p[7]
	return e
}

type bnVal struct {
	idx      uint64
	pos      int
	state    string // a active, p pending, n nil entry, m nil Validator
	actEpoch uint64
}

type bnDuty struct {
	pos  int // cluster position; -1 the extra validator; -9 a garbage public key
	slot uint64
	idx  uint64
}

type bnScript struct {
	valsErr   bool
	vals      []bnVal
	dutiesErr bool
	duties    []bnDuty
	domOK     bool
	sub       []string
}

func (b bnScript) valsStr() string {
	if b.valsErr {
		return "x"
	}
	var ps []string
	for _, v := range b.vals {
		ps = append(ps, fmt.Sprintf("%d.%d.%s.%d", v.idx, v.pos, v.state, v.actEpoch))
	}
	return dashIfEmpty(strings.Join(ps, ","))
}

func (b bnScript) dutiesStr() string {
	if b.dutiesErr {
		return "x"
	}
	var ps []string
	for _, d := range b.duties {
		ps = append(ps, fmt.Sprintf("%d.%d.%d", d.pos, d.slot, d.idx))
	}
	return dashIfEmpty(strings.Join(ps, ","))
}

type bcOp struct {
	duty int
	seed uint64
	ents []entSpec
	bn   bnScript
}

func (o bcOp) recipe() string {
	var es []string
	for _, e := range o.ents {
		es = append(es, e.String())
	}
	return fmt.Sprintf("bc duty=%d seed=%d ents=%s vals=%s duties=%s dom=%s sub=%s", o.duty, o.seed, dashIfEmpty(strings.Join(es, ";")),
		o.bn.valsStr(), o.bn.dutiesStr(), b01(o.bn.domOK), dashIfEmpty(strings.Join(o.bn.sub, ",")))
}

func parseBcOp(f []string) bcOp {
	if len(f) != 8 {
		panic("bad bc op")
	}
	var o bcOp
	o.duty, _ = strconv.Atoi(kv(f[1], "duty"))
	o.seed, _ = strconv.ParseUint(kv(f[2], "seed"), 10, 64)
	if x := kv(f[3], "ents"); x != "-" {
		for _, s := range strings.Split(x, ";") {
			o.ents = append(o.ents, parseEntSpec(s))
		}
	}
	switch x := kv(f[4], "vals"); x {
	case "x":
		o.bn.valsErr = true
	case "-":
	default:
		for _, s := range strings.Split(x, ",") {
			p := strings.Split(s, ".")
			if len(p) != 4 {
				panic("bad val " + s)
			}
			var v bnVal
			v.idx, _ = strconv.ParseUint(p[0], 10, 64)
			v.pos, _ = strconv.Atoi(p[1])
			v.state = p[2]
			v.actEpoch, _ = strconv.ParseUint(p[3], 10, 64)
			o.bn.vals = append(o.bn.vals, v)
		}
	}
	switch x := kv(f[5], "duties"); x {
	case "x":
		o.bn.dutiesErr = true
	case "-":
	default:
		for _, s := range strings.Split(x, ",") {
			p := strings.Split(s, ".")
			if len(p) != 3 {
				panic("bad duty " + s)
			}
			var d bnDuty
			d.pos, _ = strconv.Atoi(p[0])
			d.slot, _ = strconv.ParseUint(p[1], 10, 64)
			d.idx, _ = strconv.ParseUint(p[2], 10, 64)
			o.bn.duties = append(o.bn.duties, d)
		}
	}
	o.bn.domOK = kv(f[6], "dom") == "1"
	if x := kv(f[7], "sub"); x != "-" {
		o.bn.sub = strings.Split(x, ",")
	}
	return o
}

type cfgOp struct{ ks, n, t, m int }

func (c cfgOp) recipe() string { return fmt.Sprintf("cfg ks=%d n=%d t=%d m=%d", c.ks, c.n, c.t, c.m) }

func parseCfgOp(f []string) cfgOp {
	if len(f) != 5 {
		panic("bad cfg op")
	}
	var c cfgOp
	c.ks, _ = strconv.Atoi(kv(f[1], "ks"))
	c.n, _ = strconv.Atoi(kv(f[2], "n"))
	c.t, _ = strconv.Atoi(kv(f[3], "t"))
	c.m, _ = strconv.Atoi(kv(f[4], "m"))
	return c
}

// =============================================================================================
// the scripted, capturing beacon node

var garbagePub = func() (p eth2p0.BLSPubKey) {
	for i := range p {
		p[i] = 0xff
	}
	return p
}()

func (c *cluster) pubOfPos(pos int) eth2p0.BLSPubKey {
	switch {
	case pos >= 0 && pos < c.m:
		return eth2p0.BLSPubKey(c.pubkeys[pos])
	case pos == -1:
		return eth2p0.BLSPubKey(c.xPub)
	}
	return garbagePub
}

// key id of the model for a duty's public key
func keyIDOfPos(c *cluster, pos int) int {
	switch {
	case pos >= 0 && pos < c.m:
		return pos + 1
	case pos == -1:
		return 90
	}
	return 99
}

type capItem struct {
	cid, sig int
	idx      *uint64
	s        *sample
	content  [32]byte
	sigBytes []byte
}

type capCall struct {
	ep     string
	items  []capItem
	failed bool
	answer string
}

// opCtx: everything of the op in flight that the mock functions read and write.
type opCtx struct {
	cl     *cluster
	script bnScript
	calls  []capCall
	conts  map[[32]byte]int
	sigs   map[string]int
	roots  map[[32]byte]int
}

var cur *opCtx

func (x *opCtx) contentID(h [32]byte) int {
	if id, ok := x.conts[h]; ok {
		return id
	}
	x.conts[h] = len(x.conts) + 1
	return len(x.conts)
}

func (x *opCtx) sigID(s []byte) int {
	if len(s) == 96 && [96]byte(s) == ([96]byte{}) {
		return 0
	}
	if id, ok := x.sigs[string(s)]; ok {
		return id
	}
	x.sigs[string(s)] = len(x.sigs) + 1
	return len(x.sigs)
}

func (x *opCtx) rootID(r [32]byte) int {
	if id, ok := x.roots[r]; ok {
		return id
	}
	x.roots[r] = len(x.roots) + 1
	return len(x.roots)
}

// contentOf: identity of an eth2 object with its signature and (attestations) the validator-index
// carrier field blanked. Works on the eth2 types themselves (what is in the set and what is captured).
func contentOf(s *sample) (h [32]byte) {
	var b []byte
	func() {
		defer func() {
			if p := recover(); p != nil {
				b = []byte(fmt.Sprintf("unmarshalable:%d:%v", s.kind, p))
			}
		}()
		if sp := s.sigPtr(); sp != nil {
			saved := *sp
			*sp = eth2p0.BLSSignature{}
			defer func() { *sp = saved }()
		}
		var v any
		tag := kindNames[s.kind]
		switch s.kind {
		case kAtt:
			va := s.obj.(*eth2spec.VersionedAttestation)
			tag = fmt.Sprintf("att|%d", va.Version)
			v = []any{va.Phase0, va.Altair, va.Bellatrix, va.Capella, va.Deneb, va.Electra, va.Fulu}
		case kProp, kBProp:
			p := asProposal(s)
			tag = fmt.Sprintf("prop|%d|%v", p.Version, p.Blinded)
			v = []any{p.Phase0, p.Altair, p.Bellatrix, p.BellatrixBlinded, p.Capella, p.CapellaBlinded, p.Deneb, p.DenebBlinded,
				p.Electra, p.ElectraBlinded, p.Fulu, p.FuluBlinded}
		case kAgg:
			a := s.obj.(*eth2spec.VersionedSignedAggregateAndProof)
			tag = fmt.Sprintf("agg|%d", a.Version)
			v = []any{a.Phase0, a.Altair, a.Bellatrix, a.Capella, a.Deneb, a.Electra, a.Fulu}
		case kRandao:
			r := s.obj.(*randaoS)
			v = uint64(r.epoch())
		case kRaw:
			v = "raw"
		default:
			v = s.obj
		}
		j, err := json.Marshal(v)
		if err != nil {
			j = []byte("marshal-error:" + err.Error())
		}
		b = append([]byte(tag+"|"), j...)
	}()
	return sha256.Sum256(b)
}

func sigBytesOf(s *sample) []byte {
	if s.kind == kRaw {
		return append([]byte(nil), *s.obj.(*core.Signature)...)
	}
	if sp := s.sigPtr(); sp != nil {
		return append([]byte(nil), sp[:]...)
	}
	return nil
}

func attIdxOf(s *sample) *uint64 {
	if s.kind != kAtt {
		return nil
	}
	va := s.obj.(*eth2spec.VersionedAttestation)
	if va.ValidatorIndex == nil {
		return nil
	}
	return up(uint64(*va.ValidatorIndex))
}

func (x *opCtx) capture(ep string, objs []*sample) error {
	i := len(x.calls)
	r := "o"
	if i < len(x.script.sub) {
		r = x.script.sub[i]
	}
	c := capCall{ep: ep, failed: r != "o", answer: r}
	for _, s := range objs {
		h := contentOf(s)
		sb := sigBytesOf(s)
		c.items = append(c.items, capItem{cid: x.contentID(h), sig: x.sigID(sb), idx: attIdxOf(s), s: s, content: h, sigBytes: sb})
	}
	x.calls = append(x.calls, c)
	switch r {
	case "p":
		return errors.New("harness-bn-fail: POST failed with status 400: PriorAttestationKnown(validator 12)")
	case "k":
		return errors.New("harness-bn-fail: POST failed with status 400: AttestationAlreadyKnown")
	case "e":
		return errors.New("harness-bn-fail: POST failed with status 500: internal error")
	}
	return nil
}

// client: the beacon mock with the signing domain scripted too.
type client struct {
	beaconmock.Mock
}

func (c client) Domain(ctx context.Context, domainType eth2p0.DomainType, epoch eth2p0.Epoch) (eth2p0.Domain, error) {
	if cur != nil && !cur.script.domOK {
		return eth2p0.Domain{}, errors.New("harness-domain-fail")
	}
	return c.Mock.Domain(ctx, domainType, epoch)
}

var theBcast bcast.Broadcaster

func initBroadcaster(ctx context.Context) {
	m := bmockBase
	m.CachedValidatorsFunc = func(context.Context) (eth2wrap.ActiveValidators, eth2wrap.CompleteValidators, error) {
		if cur.script.valsErr {
			return nil, nil, errors.New("harness-vals-fail")
		}
		act := eth2wrap.ActiveValidators{}
		all := eth2wrap.CompleteValidators{}
		for _, v := range cur.script.vals {
			idx := eth2p0.ValidatorIndex(v.idx)
			pub := cur.cl.pubOfPos(v.pos)
			switch v.state {
			case "n":
				all[idx] = nil
			case "m":
				all[idx] = &eth2v1.Validator{Index: idx, Status: eth2v1.ValidatorStateActiveOngoing}
			case "p":
				all[idx] = &eth2v1.Validator{Index: idx, Status: eth2v1.ValidatorStatePendingQueued,
					Validator: &eth2p0.Validator{PublicKey: pub, ActivationEpoch: eth2p0.Epoch(v.actEpoch)}}
			default:
				all[idx] = &eth2v1.Validator{Index: idx, Status: eth2v1.ValidatorStateActiveOngoing,
					Validator: &eth2p0.Validator{PublicKey: pub, ActivationEpoch: eth2p0.Epoch(v.actEpoch)}}
				act[idx] = pub
			}
		}
		return act, all, nil
	}
	m.AttesterDutiesFunc = func(_ context.Context, _ eth2p0.Epoch, idxs []eth2p0.ValidatorIndex) ([]*eth2v1.AttesterDuty, error) {
		if cur.script.dutiesErr {
			return nil, errors.New("harness-duties-fail")
		}
		want := map[eth2p0.ValidatorIndex]bool{}
		for _, i := range idxs {
			want[i] = true
		}
		var out []*eth2v1.AttesterDuty
		for _, d := range cur.script.duties {
			if !want[eth2p0.ValidatorIndex(d.idx)] {
				continue // a beacon node answers for the requested indices only
			}
			out = append(out, &eth2v1.AttesterDuty{PubKey: cur.cl.pubOfPos(d.pos), Slot: eth2p0.Slot(d.slot), ValidatorIndex: eth2p0.ValidatorIndex(d.idx)})
		}
		return out, nil
	}
	m.SubmitAttestationsFunc = func(_ context.Context, opts *eth2api.SubmitAttestationsOpts) error {
		var ss []*sample
		for _, a := range opts.Attestations {
			ss = append(ss, &sample{kAtt, a})
		}
		return cur.capture("att", ss)
	}
	m.SubmitProposalFunc = func(_ context.Context, opts *eth2api.SubmitProposalOpts) error {
		return cur.capture("prop", []*sample{{kProp, opts.Proposal}})
	}
	m.SubmitBlindedProposalFunc = func(_ context.Context, opts *eth2api.SubmitBlindedProposalOpts) error {
		return cur.capture("bprop", []*sample{{kBProp, opts.Proposal}})
	}
	m.SubmitVoluntaryExitFunc = func(_ context.Context, e *eth2p0.SignedVoluntaryExit) error {
		return cur.capture("exit", []*sample{{kExit, e}})
	}
	m.SubmitAggregateAttestationsFunc = func(_ context.Context, opts *eth2api.SubmitAggregateAttestationsOpts) error {
		var ss []*sample
		for _, a := range opts.SignedAggregateAndProofs {
			ss = append(ss, &sample{kAgg, a})
		}
		return cur.capture("agg", ss)
	}
	m.SubmitSyncCommitteeMessagesFunc = func(_ context.Context, msgs []*altair.SyncCommitteeMessage) error {
		var ss []*sample
		for _, a := range msgs {
			ss = append(ss, &sample{kSyncMsg, a})
		}
		return cur.capture("syncmsg", ss)
	}
	m.SubmitSyncCommitteeContributionsFunc = func(_ context.Context, cs []*altair.SignedContributionAndProof) error {
		var ss []*sample
		for _, a := range cs {
			ss = append(ss, &sample{kContrib, a})
		}
		return cur.capture("contrib", ss)
	}
	m.SubmitValidatorRegistrationsFunc = func(_ context.Context, rs []*eth2api.VersionedSignedValidatorRegistration) error {
		var ss []*sample
		for _, a := range rs {
			ss = append(ss, &sample{kReg, a})
		}
		return cur.capture("reg", ss)
	}
	b, err := bcast.New(ctx, client{m})
	hx.Must(err)
	theBcast = b
}

func classify(err error) string {
	if err == nil {
		return "ok"
	}
	s := err.Error()
	has := func(x string) bool { return strings.Contains(s, x) }
	switch {
	case has("harness: panic"):
		return "panic"
	case has("harness-bn-fail"):
		return "bn"
	case has("invalid attestation"):
		return "invatt"
	case has("no attestations"):
		return "noatt"
	case has("attestation 0 data"):
		return "att0data"
	case has("validator data is nil"):
		return "valnil"
	case has("resolve active validators"):
		return "validators"
	case has("fetch attester duties"):
		return "duties"
	case has("harness-domain-fail"):
		return "domain"
	case has("sig verification"):
		return "sigverif"
	case has("attestation data"), has("aggregate signature of attestation"), has("compute hash tree root of attestation"):
		return "attdata"
	case has("expected one item in set"):
		return "expectone"
	case has("invalid proposal"):
		return "invprop"
	case has("deprecated duty DutyBuilderProposer"):
		return "deprecated"
	case has("invalid exit"):
		return "invexit"
	case has("invalid aggregate and proof"):
		return "invagg"
	case has("invalid sync committee message"):
		return "invsync"
	case has("invalid sync committee contribution"):
		return "invcontrib"
	case has("unsupported duty type"):
		return "unsupported"
	}
	return "other:" + strings.ReplaceAll(s, " ", "_")
}

// =============================================================================================
// building the set

type entry struct {
	spec    entSpec
	s       *sample // the harness's own copy of the object (never handed to Broadcast)
	sd      core.SignedData
	pk      core.PubKey
	v       int
	keyPos  int // cluster position of the set key (-2: not a cluster key)
	ty      int
	content [32]byte
	cid     int
	sigB    []byte
	sigid   int
	ver     uint64
	blinded bool
	idx     *uint64
	dataOk  bool
	slot    uint64
	epoch   uint64
	root    [32]byte
	rootid  int
	honest  bool // built as a group signature of the set key's validator over the object's own signing root
	used    bool
}

func coreTypeIdx(sd core.SignedData) int {
	switch sd.(type) {
	case core.VersionedSignedProposal:
		return tyProposal
	case core.VersionedAttestation:
		return tyAttestation
	case core.SignedVoluntaryExit:
		return tyExit
	case core.VersionedSignedValidatorRegistration:
		return tyRegistration
	case core.SignedRandao:
		return tyRandao
	case core.BeaconCommitteeSelection:
		return tyBcSelection
	case core.SignedAggregateAndProof:
		return tyAggProof
	case core.VersionedSignedAggregateAndProof:
		return tyVAggProof
	case core.SignedSyncMessage:
		return tySyncMessage
	case core.SignedSyncContributionAndProof:
		return tyContribution
	case core.SyncCommitteeSelection:
		return tySyncSelection
	}
	return tyRawSig
}

// buildObject builds entry i's object and signs it; deterministic in (op seed, i, spec).
func (o bcOp) buildObject(cl *cluster, i int, depth int) (*sample, bool) {
	es := o.ents[i]
	if strings.HasPrefix(es.sig, "dup") && depth < 4 {
		if j, err := strconv.Atoi(es.sig[3:]); err == nil && j >= 0 && j < len(o.ents) && j != i {
			return o.buildObject(cl, j, depth+1)
		}
	}
	kind := es.kind
	ba := buildArgs{valIdx: cl.valIdxOf(es.val), ver: es.ver, blinded: es.blinded, epoch: es.epoch, slotOff: es.slotOff % spe,
		subcomm: uint64(i % 4), commIdx: uint64(1 + (es.val+8)%8), vci: uint64((es.val + 8) % 8), commLen: 8}
	malformed := 0
	if kind == kAtt && es.ver >= 8 {
		malformed, ba.ver = es.ver, 5
	} else {
		ba.ver = es.ver % numVersions(kind)
	}
	if kind == kBProp {
		kind, ba.blinded, ba.ver = kProp, true, 2+es.ver%5
	}
	if kind == kProp && ba.ver < 2 {
		ba.blinded = false
	}
	rand.Seed(int64(o.seed>>1) + int64(i)*1000003)
	s := buildSample(kind, ba)
	if kind == kAtt {
		va := s.obj.(*eth2spec.VersionedAttestation)
		switch {
		case es.idx == "nil":
			va.ValidatorIndex = nil
		case es.idx == "own":
			if ba.ver >= 5 {
				vi := eth2p0.ValidatorIndex(ba.valIdx)
				va.ValidatorIndex = &vi
			}
		case strings.HasPrefix(es.idx, "o"):
			k, _ := strconv.ParseUint(es.idx[1:], 10, 64)
			vi := eth2p0.ValidatorIndex(k)
			va.ValidatorIndex = &vi
		}
	}
	v := s.view()
	if v.epoch == nil && kind == kProp {
		v.epoch = up(es.epoch) // pre-merge block: the accessor knows no epoch, the signer does
	}
	if kind == kRaw {
		v = view{dom: domAttester, epoch: up(es.epoch), root: &[32]byte{byte(i), 7}}
	}
	honest := false
	if v.dom >= 0 && v.epoch != nil && v.root != nil {
		sr := signingRoot(v.dom, *v.epoch, *v.root)
		var sig [96]byte
		switch {
		case es.sig == "ok":
			sig = cl.groupSign(es.val, sr[:])
			honest = es.val >= 0 && es.val < cl.m && malformed == 0 && kind != kRaw
		case strings.HasPrefix(es.sig, "v"):
			p, _ := strconv.Atoi(es.sig[1:])
			sig = cl.groupSign(p, sr[:])
		case es.sig == "x":
			sig = cl.groupSign(-1, sr[:])
		case es.sig == "share":
			x, err := tbls.Sign(cl.secretFor(es.val, 1), sr[:])
			hx.Must(err)
			sig = [96]byte(x)
		case strings.HasPrefix(es.sig, "fork"):
			fe, _ := strconv.ParseUint(es.sig[4:], 10, 64)
			sr2 := signingRootWith(v.dom, fe, genesisVR, *v.root)
			sig = cl.groupSign(es.val, sr2[:])
		case es.sig == "inf":
			sig = [96]byte{0xc0}
		case es.sig == "rand":
			r := hx.NewRng(o.seed ^ uint64(i)*0x9E37)
			for k := range sig {
				sig[k] = byte(r.U64())
			}
		}
		s.setSig(sig)
	}
	switch malformed {
	case 8:
		s.obj.(*eth2spec.VersionedAttestation).Electra = nil
	case 9:
		s.obj.(*eth2spec.VersionedAttestation).Version = eth2spec.DataVersion(99)
	}
	return s, honest
}

func wrapCore(s *sample) core.SignedData {
	if s.kind == kAtt {
		va := s.obj.(*eth2spec.VersionedAttestation)
		if _, _, ok := p0AttOf(va); !ok {
			return core.VersionedAttestation{VersionedAttestation: *va} // malformed: not through the constructor
		}
	}
	par, err := s.toCore(0)
	hx.Must(err)
	return par.SignedData
}

func (x *opCtx) valID(cl *cluster, pk core.PubKey, i int) (int, int) {
	for p, c := range cl.corePks {
		if c == pk {
			return p + 1, p
		}
	}
	if xp, err := core.PubKeyFromBytes(cl.xPub[:]); err == nil && xp == pk {
		return 90, -2
	}
	return 100 + i, -2
}

// describe fills the harness's own reading of an object.
func (x *opCtx) describe(e *entry) {
	s := e.s
	e.content = contentOf(s)
	e.cid = x.contentID(e.content)
	e.sigB = sigBytesOf(s)
	e.sigid = x.sigID(e.sigB)
	e.idx = attIdxOf(s)
	e.dataOk = true
	switch s.kind {
	case kAtt:
		va := s.obj.(*eth2spec.VersionedAttestation)
		e.ver = uint64(va.Version)
		d, _, ok := p0AttOf(va)
		e.dataOk = ok && d != nil
		if e.dataOk {
			e.slot, e.epoch = uint64(d.Slot), uint64(d.Target.Epoch)
			r, err := d.HashTreeRoot()
			hx.Must(err)
			e.root, e.rootid = r, x.rootID(r)
		}
	case kProp, kBProp:
		p := asProposal(s)
		e.ver, e.blinded = uint64(p.Version), p.Blinded
	case kAgg:
		e.ver = uint64(s.obj.(*eth2spec.VersionedSignedAggregateAndProof).Version)
	}
}

func (e *entry) abs() string {
	return fmt.Sprintf("%d:%d:%d:%d:%d:%s:%s:%s:%d:%d:%d", e.v, e.ty, e.cid, e.sigid, e.ver, b01(e.blinded), optU(e.idx), b01(e.dataOk), e.slot, e.epoch, e.rootid)
}

// =============================================================================================
// one Broadcast call

type episode struct {
	cl *cluster
}

func newEpisode(run *hx.Run, c cfgOp) *episode {
	cl := getCluster(c.ks, c.n, c.t, c.m)
	run.Op(c.recipe()+" | -", "ok")
	return &episode{cl: cl}
}

func itemKey(idx *uint64) uint64 {
	if idx == nil {
		return 0
	}
	return *idx + 1
}

func eqIdx(a, b *uint64) bool {
	if a == nil || b == nil {
		return a == nil && b == nil
	}
	return *a == *b
}

var epOfKind = map[int]string{kAtt: "att", kExit: "exit", kAgg: "agg", kSyncMsg: "syncmsg", kContrib: "contrib"}

func (e *episode) execBc(run *hx.Run, o bcOp) {
	ctx := context.Background()
	cl := e.cl
	x := &opCtx{cl: cl, script: o.bn, conts: map[[32]byte]int{}, sigs: map[string]int{}, roots: map[[32]byte]int{}}
	cur = x
	run.Begin(o.recipe())

	// ---- the set --------------------------------------------------------------------------------
	set := core.SignedDataSet{}
	var ents []*entry
	for i, es := range o.ents {
		s, honest := o.buildObject(cl, i, 0)
		pk, _ := cl.corePkOf(es.val)
		if es.keying == "bad" || pk == "" {
			pk = core.PubKey(fmt.Sprintf("0x12%02d", i))
		}
		if _, dup := set[pk]; dup {
			continue // a map has one value per key
		}
		if strings.HasPrefix(es.sig, "dup") {
			honest = false
		}
		en := &entry{spec: es, s: s, pk: pk, honest: honest}
		en.v, en.keyPos = x.valID(cl, pk, i)
		if en.keyPos != es.val {
			en.honest = false
		}
		// what is handed to Broadcast is a deep copy (the harness keeps `s` to itself); objects that did not
		// come through a constructor may not survive Clone and are handed over as they are
		en.sd = wrapCore(s)
		if cp, cerr := en.sd.Clone(); cerr == nil {
			en.sd = cp
		} else {
			run.Count("unclonable-entry")
		}
		en.ty = coreTypeIdx(en.sd)
		x.describe(en)
		set[pk] = en.sd
		ents = append(ents, en)
	}

	// ---- facts: tbls.Verify under every listed duty key, for the domain of every epoch in the set ----
	needFacts := false
	epochs := map[uint64]bool{}
	slots := map[uint64]bool{}
	for _, en := range ents {
		if en.ty == tyAttestation && en.dataOk {
			epochs[en.epoch], slots[en.slot] = true, true
			if en.ver >= uint64(eth2spec.DataVersionElectra) && en.idx == nil {
				needFacts = true
			}
		}
		if en.ty == tyAttestation && !en.dataOk {
			needFacts = true
		}
	}
	type fkey struct {
		key, epoch uint64
		root, sig  int
	}
	factRes := map[fkey]int{}
	if needFacts && !o.bn.dutiesErr {
		for _, d := range o.bn.duties {
			if !slots[d.slot] {
				continue
			}
			pub := tbls.PublicKey(cl.pubOfPos(d.pos))
			kid := uint64(keyIDOfPos(cl, d.pos))
			for ep := range epochs {
				for _, en := range ents {
					if en.ty != tyAttestation || !en.dataOk {
						continue
					}
					fk := fkey{kid, ep, en.rootid, en.sigid}
					if _, done := factRes[fk]; done {
						continue
					}
					sr := signingRoot(domAttester, ep, en.root)
					var sig tbls.Signature
					copy(sig[:], en.sigB)
					err := tbls.Verify(pub, sr[:], sig)
					switch {
					case err == nil:
						factRes[fk] = 1
					case errors.Is(err, tbls.ErrSigNotVerified):
						factRes[fk] = 0
					default:
						factRes[fk] = 2
					}
				}
			}
		}
	}
	var facts []string
	for fk, r := range factRes {
		if r != 0 {
			facts = append(facts, fmt.Sprintf("%d.%d.%d.%d.%d", fk.key, fk.epoch, fk.root, fk.sig, r))
		}
	}
	sort.Strings(facts)

	// ---- the real call --------------------------------------------------------------------------
	var err error
	func() {
		defer func() {
			if p := recover(); p != nil {
				err = fmt.Errorf("harness: panic: %v", p)
				run.Count("panic")
			}
		}()
		err = theBcast.Broadcast(ctx, core.Duty{Slot: 1, Type: core.DutyType(o.duty)}, set)
	}()
	class := classify(err)
	calls := x.calls

	// ---- monitors (on the implementation's own trace; no model involved) -----------------------
	dutyName := core.DutyType(o.duty).String()
	nItems := 0
	var ordV []string // the set keys in the order in which their objects were handed over = Go's iteration order
	ordKnown := true
	// which entry of the set does a captured object come from: same content and signature; among several such
	// entries (the same object filed under two keys) first the ones that also agree on the validator index
	matched := map[*capItem]*entry{}
	for _, exact := range []bool{true, false} {
		for ci := range calls {
			for ii := range calls[ci].items {
				it := &calls[ci].items[ii]
				if matched[it] != nil {
					continue
				}
				for _, en := range ents {
					if !en.used && en.content == it.content && string(en.sigB) == string(it.sigBytes) && (!exact || eqIdx(en.idx, it.idx)) {
						matched[it], en.used = en, true
						break
					}
				}
			}
		}
	}
	for ci := range calls {
		c := calls[ci]
		for ii := range c.items {
			it := c.items[ii]
			nItems++
			m := matched[&calls[ci].items[ii]]
			if m == nil {
				sameC, sameS, both := false, false, false
				for _, en := range ents {
					c1, s1 := en.content == it.content, string(en.sigB) == string(it.sigBytes)
					sameC, sameS, both = sameC || c1, sameS || s1, both || (c1 && s1)
				}
				switch {
				case both:
					run.Violate("corebcast:submitted_duplicate_object", fmt.Sprintf("%s: an entry of the set was handed to the beacon node more often than it occurs in the set (%s)", dutyName, c.ep))
				case sameC || sameS:
					run.Violate("corebcast:submitted_altered_content", fmt.Sprintf("%s: submitted object pairs content and signature differently from every entry of the set (content known: %v, signature known: %v)", dutyName, sameC, sameS))
				default:
					run.Violate("corebcast:submitted_unknown_object", fmt.Sprintf("%s: submitted object has neither the content nor the signature of any entry of the set", dutyName))
				}
				ordKnown = false
				continue
			}
			ordV = append(ordV, strconv.Itoa(m.v))
			// endpoint of the entry's type
			wantEp := epOfKind[m.s.kind]
			if m.s.kind == kProp {
				wantEp = "prop"
				if m.blinded {
					wantEp = "bprop"
				}
			}
			if wantEp != c.ep {
				run.Violate("corebcast:wrong_endpoint", fmt.Sprintf("%s: a %s went to endpoint %s", dutyName, kindNames[m.s.kind], c.ep))
			}
			// group validity of what was handed over, judged on the captured object itself
			if m.honest {
				v := it.s.view()
				if v.epoch == nil && (it.s.kind == kProp || it.s.kind == kBProp) {
					v.epoch = up(m.spec.epoch)
				}
				ok := false
				if v.dom >= 0 && v.epoch != nil && v.root != nil && v.sig != ([96]byte{}) {
					sr := signingRoot(v.dom, *v.epoch, *v.root)
					ok = tbls.Verify(cl.pubkeys[m.keyPos], sr[:], tbls.Signature(v.sig)) == nil
				}
				if !ok {
					run.Violate("corebcast:submitted_signature_not_group_valid", fmt.Sprintf("%s: the submitted %s of validator %d does not verify under its group key", dutyName, kindNames[it.s.kind], m.v))
				}
			}
			// validator index of attestations
			if m.s.kind == kAtt && !eqIdx(m.idx, it.idx) {
				good := false
				if it.idx != nil && m.dataOk {
					for _, d := range o.bn.duties {
						if d.idx != *it.idx {
							continue
						}
						for ep := range epochs {
							if factRes[fkey{uint64(keyIDOfPos(cl, d.pos)), ep, m.rootid, m.sigid}] == 1 {
								good = true
							}
						}
					}
				}
				if !good {
					run.Violate("corebcast:wrong_validator_index", fmt.Sprintf("attestation of validator %d submitted with validator index %s (came with %s): no listed duty with that index has a public key under which its signature verifies", m.v, optU(it.idx), optU(m.idx)))
				} else if m.idx != nil {
					run.Count("present-index-overwritten")
					run.Case("att/present-index-overwritten")
				} else {
					run.Count("index-recovered")
				}
			}
		}
	}
	isBN := class == "bn"
	if class != "ok" && !isBN && len(calls) > 0 {
		if core.DutyType(o.duty) == core.DutyExit {
			run.Count("exit-partial-submission") // by design: "try submitting all exits and return last error"
		} else {
			run.Violate("corebcast:submitted_despite_error", fmt.Sprintf("%s: Broadcast returned %q (not the node's answer) after %d submit call(s)", dutyName, class, len(calls)))
		}
	}
	switch core.DutyType(o.duty) {
	case core.DutyBuilderRegistration, core.DutyRandao, core.DutyPrepareAggregator, core.DutyPrepareSyncContribution, core.DutyBuilderProposer:
		if len(calls) > 0 {
			run.Violate("corebcast:noop_duty_submitted", fmt.Sprintf("%s made %d submit call(s)", dutyName, len(calls)))
		}
	case core.DutyAttester, core.DutyAggregator, core.DutySyncMessage, core.DutySyncContribution, core.DutyProposer, core.DutyExit:
		if class == "ok" {
			for _, en := range ents {
				if !en.used {
					run.Violate("corebcast:entry_not_submitted", fmt.Sprintf("%s: Broadcast returned nil but the entry of validator %d was not handed to the beacon node", dutyName, en.v))
				}
			}
		}
	}
	if core.DutyType(o.duty) != core.DutyExit {
		for _, c := range calls {
			if class == "ok" && (c.answer == "k" || c.answer == "e") {
				run.Violate("corebcast:bn_error_swallowed", fmt.Sprintf("%s: the node answered the submit call with an error (%s) but Broadcast returned nil", dutyName, c.answer))
			}
		}
	} else if class == "ok" {
		for _, c := range calls[:max(0, len(calls)-1)] {
			if c.failed {
				run.Count("exit-earlier-failure-not-reported")
			}
		}
	}
	// Broadcast must not write into the caller's set
	for _, en := range ents {
		now := sampleOfCore(set[en.pk])
		if now == nil || contentOf(now) != en.content || string(sigBytesOf(now)) != string(en.sigB) || !eqIdx(attIdxOf(now), en.idx) {
			run.Violate("corebcast:input_set_mutated", fmt.Sprintf("%s: the entry of validator %d in the caller's set changed during Broadcast", dutyName, en.v))
		}
	}

	// ---- record ----------------------------------------------------------------------------------
	var cs []string
	for _, c := range calls {
		items := append([]capItem(nil), c.items...)
		sort.SliceStable(items, func(i, j int) bool {
			a, b := items[i], items[j]
			if a.cid != b.cid {
				return a.cid < b.cid
			}
			if a.sig != b.sig {
				return a.sig < b.sig
			}
			return itemKey(a.idx) < itemKey(b.idx)
		})
		var is []string
		for _, it := range items {
			is = append(is, fmt.Sprintf("%d/%d/%s", it.cid, it.sig, optU(it.idx)))
		}
		f := ""
		if c.failed {
			f = "!"
		}
		cs = append(cs, fmt.Sprintf("%s%s{%s}", c.ep, f, strings.Join(is, ",")))
	}
	obs := class + " " + dashIfEmpty(strings.Join(cs, ";"))

	var absEnts []string
	sort.Slice(ents, func(i, j int) bool { return ents[i].v < ents[j].v })
	for _, en := range ents {
		absEnts = append(absEnts, en.abs())
	}
	var absVals, absDuties, absSub []string
	for _, v := range o.bn.vals {
		absVals = append(absVals, fmt.Sprintf("%d.%s.%s.%d", v.idx, b01(v.state == "n" || v.state == "m"), b01(v.state == "a"), v.actEpoch))
	}
	for _, d := range o.bn.duties {
		absDuties = append(absDuties, fmt.Sprintf("%d.%d.%d", keyIDOfPos(cl, d.pos), d.slot, d.idx))
	}
	for _, s := range o.bn.sub {
		if s == "k" {
			s = "e"
		}
		absSub = append(absSub, s)
	}
	vs, ds := dashIfEmpty(strings.Join(absVals, ",")), dashIfEmpty(strings.Join(absDuties, ","))
	if o.bn.valsErr {
		vs = "x"
	}
	if o.bn.dutiesErr {
		ds = "x"
	}
	if !ordKnown {
		ordV = nil
	}
	abs := fmt.Sprintf("%d %s %s %s %s %s %s %s", o.duty, dashIfEmpty(strings.Join(absEnts, ";")), vs, ds, b01(o.bn.domOK),
		dashIfEmpty(strings.Join(absSub, ",")), dashIfEmpty(strings.Join(facts, ",")), dashIfEmpty(strings.Join(ordV, ",")))

	run.Count("duty:" + dutyName)
	run.Count("class:" + class)
	run.Count(fmt.Sprintf("entries:%d", len(ents)))
	run.Count(fmt.Sprintf("submitted-objects:%d", min(nItems, 5)))
	for _, en := range ents {
		run.Case(fmt.Sprintf("%s/%s/v%d%v/idx-%v/sig-%s/%s", dutyName, kindNames[en.spec.kind], en.spec.ver, en.spec.blinded, en.idx != nil, strings.TrimRight(en.spec.sig, "0123456789"), class))
	}
	run.Case(fmt.Sprintf("%s/n%d/%s/calls%d", dutyName, len(ents), class, len(calls)))
	cur = nil
	run.Op(o.recipe()+" | "+abs+" # "+obs, obs)
}

// =============================================================================================
// generator

type gen struct {
	run  *hx.Run
	r    *hx.Rng
	ep   *episode
	cfg  cfgOp
	left int
}

func (g *gen) newEpisode() {
	shapes := [][2]int{{4, 3}, {3, 2}, {5, 4}, {4, 3}}
	sh := shapes[g.r.Intn(len(shapes))]
	g.cfg = cfgOp{ks: g.r.Intn(2), n: sh[0], t: sh[1], m: 4}
	g.ep = newEpisode(g.run, g.cfg)
	g.left--
}

func (g *gen) seed() uint64 { return g.r.U64() >> 1 }

func (g *gen) bc(o bcOp) {
	if g.left <= 0 || g.run.Enough() {
		return
	}
	if o.seed == 0 {
		o.seed = g.seed()
	}
	g.ep.execBc(g.run, o)
	g.left--
}

// epochFor picks an epoch in which data version `ver` is in force.
func (g *gen) epochFor(ver int) uint64 {
	if ver < 0 || ver > 6 {
		ver = 5
	}
	return forkEpochs[ver] + uint64(g.r.Intn(4))
}

func (g *gen) att(val, ver int, epoch, slotOff uint64, idx, sig string) entSpec {
	return entSpec{val: val, kind: kAtt, ver: ver, epoch: epoch, slotOff: slotOff, idx: idx, sig: sig, keying: "own"}
}

func (g *gen) plain(val, kind, ver int, blinded bool, epoch uint64) entSpec {
	return entSpec{val: val, kind: kind, ver: ver, blinded: blinded, epoch: epoch, slotOff: uint64(g.r.Intn(spe)), idx: "nil", sig: "ok", keying: "own"}
}

func (g *gen) trueVals() []bnVal {
	var vs []bnVal
	for p := 0; p < g.cfg.m; p++ {
		vs = append(vs, bnVal{idx: uint64(valIdxBase + p), pos: p, state: "a"})
	}
	vs = append(vs, bnVal{idx: xValIdx, pos: -1, state: "a"})
	return vs
}

// honestBN: registry of all cluster validators, one duty per attestation entry (same slot, true
// index) in random order, domain available, the node accepts.
func (g *gen) honestBN(ents []entSpec) bnScript {
	b := bnScript{vals: g.trueVals(), domOK: true}
	for _, e := range ents {
		if e.kind == kAtt && e.val >= -1 {
			b.duties = append(b.duties, bnDuty{pos: e.val, slot: e.epoch*spe + e.slotOff%spe, idx: g.ep.cl.valIdxOf(e.val)})
		}
	}
	out := make([]bnDuty, len(b.duties))
	for i, p := range g.r.Perm(len(b.duties)) {
		out[i] = b.duties[p]
	}
	b.duties = out
	return b
}

func (g *gen) vals(k int) []int {
	p := g.r.Perm(g.cfg.m)
	if k > len(p) {
		k = len(p)
	}
	return p[:k]
}

const dAtt = int(core.DutyAttester)

func (g *gen) attScenarios(ver int) {
	ep := g.epochFor(ver)
	so := uint64(g.r.Intn(spe))
	slot := ep*spe + so
	mk := func(k int, idx func(i int) string) []entSpec {
		var es []entSpec
		for i, v := range g.vals(k) {
			es = append(es, g.att(v, ver, ep, so, idx(i), "ok"))
		}
		return es
	}
	all := func(s string) func(int) string { return func(int) string { return s } }
	mixed := func(i int) string {
		if i%2 == 0 {
			return "nil"
		}
		return "own"
	}
	// 1. every attestation carries its index / none does / mixed; the node lists everything
	for k := 1; k <= 4; k++ {
		for _, f := range []func(int) string{all("own"), all("nil"), mixed} {
			es := mk(k, f)
			g.bc(bcOp{duty: dAtt, ents: es, bn: g.honestBN(es)})
		}
	}
	if ver < 5 {
		return
	}
	// 2. the node's duties omit the validator / list it for other slots / list other validators only
	for _, variant := range []string{"omit", "otherslot", "others-only", "none", "extra-first"} {
		es := mk(2+g.r.Intn(2), all("nil"))
		b := g.honestBN(es)
		switch variant {
		case "omit":
			b.duties = b.duties[1:]
		case "otherslot":
			b.duties[0].slot += 1 + uint64(g.r.Intn(3))
			b.duties = append(b.duties, bnDuty{pos: b.duties[0].pos, slot: slot - 1, idx: b.duties[0].idx})
		case "others-only":
			b.duties = []bnDuty{{pos: -1, slot: slot, idx: xValIdx}}
		case "none":
			b.duties = nil
		case "extra-first":
			b.duties = append([]bnDuty{{pos: -1, slot: slot, idx: xValIdx}}, b.duties...)
		}
		g.bc(bcOp{duty: dAtt, ents: es, bn: b})
	}
	// 3. the registry: validator pending (activation epoch elsewhere / exactly this epoch), missing, nil entries
	for _, variant := range []string{"pending", "pending-now", "missing", "nil", "nilval", "valserr", "dutieserr", "domerr", "empty-registry"} {
		es := mk(2, mixed)
		if g.r.Chance(1, 2) {
			es = mk(2, all("nil"))
		}
		b := g.honestBN(es)
		p := es[0].val
		for i := range b.vals {
			if b.vals[i].pos != p {
				continue
			}
			switch variant {
			case "pending":
				b.vals[i].state, b.vals[i].actEpoch = "p", ep+1+uint64(g.r.Intn(3))
			case "pending-now":
				b.vals[i].state, b.vals[i].actEpoch = "p", ep
			case "nil":
				b.vals[i].state = "n"
			case "nilval":
				b.vals[i].state = "m"
			}
		}
		switch variant {
		case "missing":
			var vs []bnVal
			for _, v := range b.vals {
				if v.pos != p {
					vs = append(vs, v)
				}
			}
			b.vals = vs
		case "valserr":
			b.valsErr = true
		case "dutieserr":
			b.dutiesErr = true
		case "domerr":
			b.domOK = false
		case "empty-registry":
			b.vals = nil
		}
		g.bc(bcOp{duty: dAtt, ents: es, bn: b})
		// the same node, but no index is missing: the node is not even asked
		es2 := mk(2, all("own"))
		b2 := b
		g.bc(bcOp{duty: dAtt, ents: es2, bn: b2})
	}
	// 4. a signature that matches no duty (or somebody else's)
	for _, sg := range []string{"x", "share", "zero", "inf", "rand", fmt.Sprintf("fork%d", (ep+4)%28), "v"} {
		es := mk(2+g.r.Intn(2), all("nil"))
		bad := g.r.Intn(len(es))
		if sg == "v" {
			sg = fmt.Sprintf("v%d", (es[bad].val+1)%g.cfg.m)
		}
		es[bad].sig = sg
		b := g.honestBN(es)
		if g.r.Chance(1, 2) { // list all validators of the cluster
			b.duties = nil
			for _, p := range g.r.Perm(g.cfg.m) {
				b.duties = append(b.duties, bnDuty{pos: p, slot: slot, idx: uint64(valIdxBase + p)})
			}
		}
		g.bc(bcOp{duty: dAtt, ents: es, bn: b})
	}
	// 5. an index that is present while another one is missing: consistent with the node / not
	for _, present := range []string{"own", "o555", "o100"} {
		es := mk(2+g.r.Intn(2), all("nil"))
		es[len(es)-1].idx = present
		g.bc(bcOp{duty: dAtt, ents: es, bn: g.honestBN(es)})
	}
	// 6. the same attestation filed under two keys; the node lists a key twice / with another validator's index
	{
		es := mk(2, all("nil"))
		es[1].sig = "dup0"
		g.bc(bcOp{duty: dAtt, ents: es, bn: g.honestBN(es[:1])})
		es = mk(3, all("nil"))
		es[2].sig = "dup1"
		g.bc(bcOp{duty: dAtt, ents: es, bn: g.honestBN(es[:2])})
	}
	for _, variant := range []string{"twice", "swapped", "garbage-first", "garbage-last", "garbage-otherslot"} {
		es := mk(2, all("nil"))
		b := g.honestBN(es)
		switch variant {
		case "twice":
			b.duties = append(b.duties, bnDuty{pos: b.duties[0].pos, slot: slot, idx: xValIdx})
		case "swapped":
			b.duties[0].idx, b.duties[1].idx = b.duties[1].idx, b.duties[0].idx
		case "garbage-first":
			b.duties = append([]bnDuty{{pos: -9, slot: slot, idx: uint64(valIdxBase)}}, b.duties...)
		case "garbage-last":
			b.duties = append(b.duties, bnDuty{pos: -9, slot: slot, idx: uint64(valIdxBase)})
		case "garbage-otherslot":
			b.duties = append([]bnDuty{{pos: -9, slot: slot + 1, idx: uint64(valIdxBase)}}, b.duties...)
		}
		g.bc(bcOp{duty: dAtt, ents: es, bn: b})
	}
	// 7. objects that did not come through the constructor: nil inner object, unknown version
	for _, mv := range []int{8, 9} {
		for _, withGood := range []bool{false, true} {
			es := []entSpec{g.att(g.r.Intn(g.cfg.m), mv, ep, so, "nil", "ok")}
			if withGood {
				es = mk(2, all("nil"))
				es[1].ver = mv
			}
			g.bc(bcOp{duty: dAtt, ents: es, bn: g.honestBN(es)})
		}
	}
	// 8. one set, several epochs / slots / versions
	{
		es := mk(3, all("nil"))
		es[1].epoch = (ep + 4) % 28
		es[2].slotOff = (so + 1) % spe
		g.bc(bcOp{duty: dAtt, ents: es, bn: g.honestBN(es)})
		es = mk(3, mixed)
		es[0].ver = g.r.Intn(5)
		g.bc(bcOp{duty: dAtt, ents: es, bn: g.honestBN(es)})
		es = mk(2, all("nil"))
		es[1].ver = 11 - ver // electra <-> fulu
		g.bc(bcOp{duty: dAtt, ents: es, bn: g.honestBN(es)})
	}
	// 9. what the node answers to the submit call
	for _, ans := range []string{"o", "p", "k", "e"} {
		for _, idx := range []string{"own", "nil"} {
			es := mk(1+g.r.Intn(3), all(idx))
			b := g.honestBN(es)
			b.sub = []string{ans}
			g.bc(bcOp{duty: dAtt, ents: es, bn: b})
		}
	}
	// 10. wrong data type in the set, the empty set, a key that is no public key
	for _, wk := range []int{kRandao, kProp, kAgg, kExit, kReg, kRaw, kSyncMsg} {
		vs := g.vals(3)
		k := 1 + g.r.Intn(2)
		var es []entSpec
		for i, v := range vs[:k] {
			es = append(es, g.att(v, ver, ep, so, mixed(i), "ok"))
		}
		es = append(es, g.plain(vs[k], wk, 5, false, ep))
		g.bc(bcOp{duty: dAtt, ents: es, bn: g.honestBN(es)})
	}
	g.bc(bcOp{duty: dAtt, bn: g.honestBN(nil)})
	{
		es := mk(2, all("nil"))
		es[0].keying = "bad"
		g.bc(bcOp{duty: dAtt, ents: es, bn: g.honestBN(es)})
	}
}

var answers = []string{"o", "p", "k", "e"}

func (g *gen) otherDuties() {
	bn := func(sub ...string) bnScript { return bnScript{vals: g.trueVals(), domOK: true, sub: sub} }
	// proposals: every version, full and blinded
	for _, cb := range []struct {
		ver     int
		blinded bool
	}{{0, false}, {1, false}, {2, false}, {2, true}, {3, false}, {3, true}, {4, false}, {4, true}, {5, false}, {5, true}, {6, false}, {6, true}} {
		e := g.plain(g.r.Intn(g.cfg.m), kProp, cb.ver, cb.blinded, g.epochFor(cb.ver))
		g.bc(bcOp{duty: int(core.DutyProposer), ents: []entSpec{e}, bn: bn()})
		g.bc(bcOp{duty: int(core.DutyProposer), ents: []entSpec{e}, bn: bn(answers[1+g.r.Intn(3)])})
	}
	{
		v := g.vals(3)
		ep := g.epochFor(5)
		a, b := g.plain(v[0], kProp, 5, false, ep), g.plain(v[1], kProp, 5, true, ep)
		g.bc(bcOp{duty: int(core.DutyProposer), ents: []entSpec{a, b}, bn: bn()})
		g.bc(bcOp{duty: int(core.DutyProposer), bn: bn()})
		for _, wk := range []int{kAtt, kExit, kAgg, kRandao, kRaw} {
			g.bc(bcOp{duty: int(core.DutyProposer), ents: []entSpec{g.plain(v[2], wk, 5, false, ep)}, bn: bn()})
		}
		a.sig = "x"
		g.bc(bcOp{duty: int(core.DutyProposer), ents: []entSpec{a}, bn: bn()})
	}
	// voluntary exits: one call per entry, the last answer decides
	for k := 0; k <= 4; k++ {
		for rep := 0; rep < 3; rep++ {
			var es []entSpec
			for _, v := range g.vals(k) {
				es = append(es, g.plain(v, kExit, 0, false, uint64(g.r.Intn(27))))
			}
			var sub []string
			for i := 0; i < k; i++ {
				sub = append(sub, []string{"o", "o", "e", "p"}[g.r.Intn(4)])
			}
			if rep == 0 {
				sub = nil
			}
			g.bc(bcOp{duty: int(core.DutyExit), ents: es, bn: bn(sub...)})
			if k >= 2 && rep > 0 {
				es[g.r.Intn(k)].kind = []int{kAtt, kRandao, kSyncMsg}[g.r.Intn(3)]
				g.bc(bcOp{duty: int(core.DutyExit), ents: es, bn: bn(sub...)})
			}
		}
	}
	// aggregate and proofs, sync messages, contributions: one batch call
	for _, d := range []struct {
		duty, kind, nver int
		wrong            []int
	}{{int(core.DutyAggregator), kAgg, 7, []int{kOldAgg, kAtt, kRaw}}, {int(core.DutySyncMessage), kSyncMsg, 1, []int{kContrib, kSyncSel}},
		{int(core.DutySyncContribution), kContrib, 1, []int{kSyncMsg, kRandao}}} {
		for ver := 0; ver < d.nver; ver++ {
			for k := 1; k <= 3; k++ {
				var es []entSpec
				ep := g.epochFor(ver)
				for _, v := range g.vals(k) {
					es = append(es, g.plain(v, d.kind, ver, false, ep))
				}
				g.bc(bcOp{duty: d.duty, ents: es, bn: bn()})
				if k == 2 {
					g.bc(bcOp{duty: d.duty, ents: es, bn: bn(answers[1+g.r.Intn(3)])})
					es[g.r.Intn(2)].kind = d.wrong[g.r.Intn(len(d.wrong))]
					g.bc(bcOp{duty: d.duty, ents: es, bn: bn()})
				}
			}
		}
		g.bc(bcOp{duty: d.duty, bn: bn()})
		g.bc(bcOp{duty: d.duty, bn: bn("e")})
	}
	// duty types that submit nothing, the deprecated and the unsupported ones — with any set
	for _, d := range []struct{ duty, kind int }{{int(core.DutyBuilderRegistration), kReg}, {int(core.DutyRandao), kRandao},
		{int(core.DutyPrepareAggregator), kBcSel}, {int(core.DutyPrepareSyncContribution), kSyncSel}, {int(core.DutyBuilderProposer), kProp},
		{int(core.DutyUnknown), kAtt}, {int(core.DutySignature), kRaw}, {int(core.DutyInfoSync), kRaw}, {14, kAtt}, {77, kExit}} {
		for k := 0; k <= 2; k++ {
			var es []entSpec
			for _, v := range g.vals(k) {
				es = append(es, g.plain(v, d.kind, 5, false, g.epochFor(5)))
			}
			g.bc(bcOp{duty: d.duty, ents: es, bn: bn(answers[g.r.Intn(4)])})
		}
		g.bc(bcOp{duty: d.duty, ents: []entSpec{g.att(0, 5, g.epochFor(5), 3, "nil", "ok")}, bn: bn()})
	}
}

var submitDuties = []int{int(core.DutyAttester), int(core.DutyAttester), int(core.DutyAttester), int(core.DutyProposer), int(core.DutyExit),
	int(core.DutyAggregator), int(core.DutySyncMessage), int(core.DutySyncContribution)}

var dutyKind = map[int]int{int(core.DutyAttester): kAtt, int(core.DutyProposer): kProp, int(core.DutyExit): kExit, int(core.DutyAggregator): kAgg,
	int(core.DutySyncMessage): kSyncMsg, int(core.DutySyncContribution): kContrib}

func (g *gen) random() {
	duty := submitDuties[g.r.Intn(len(submitDuties))]
	if g.r.Chance(1, 25) {
		duty = g.r.Intn(16)
	}
	kind, ok := dutyKind[duty]
	if !ok {
		kind = g.r.Intn(numKinds)
	}
	k := 1 + g.r.Intn(4)
	if duty == int(core.DutyProposer) && g.r.Chance(4, 5) {
		k = 1
	}
	if g.r.Chance(1, 40) {
		k = 0
	}
	ver := 5 + g.r.Intn(2)
	if g.r.Chance(1, 4) {
		ver = g.r.Intn(7)
	}
	ep := g.epochFor(ver)
	so := uint64(g.r.Intn(spe))
	var es []entSpec
	for i, v := range g.vals(k) {
		e := entSpec{val: v, kind: kind, ver: ver, blinded: g.r.Chance(1, 2), epoch: ep, slotOff: so, idx: []string{"nil", "nil", "own", "own", "o555", fmt.Sprintf("o%d", valIdxBase+g.r.Intn(4))}[g.r.Intn(6)],
			sig: "ok", keying: "own"}
		if g.r.Chance(1, 6) {
			e.sig = []string{"x", "share", "zero", "inf", "rand", fmt.Sprintf("fork%d", g.r.Intn(27)), fmt.Sprintf("v%d", g.r.Intn(g.cfg.m)), fmt.Sprintf("dup%d", g.r.Intn(i+1))}[g.r.Intn(8)]
		}
		if g.r.Chance(1, 12) {
			e.ver = g.r.Intn(7)
		}
		if g.r.Chance(1, 14) {
			e.epoch = uint64(g.r.Intn(27))
		}
		if g.r.Chance(1, 14) {
			e.slotOff = uint64(g.r.Intn(spe))
		}
		if kind == kAtt && g.r.Chance(1, 30) {
			e.ver = 8 + g.r.Intn(2)
		}
		if g.r.Chance(1, 20) {
			e.kind = g.r.Intn(numKinds)
			if e.kind == kBProp {
				e.kind = kProp
			}
		}
		if g.r.Chance(1, 30) {
			e.keying = "bad"
		}
		es = append(es, e)
	}
	b := g.honestBN(es)
	// perturb the node
	for i := range b.duties {
		switch g.r.Intn(14) {
		case 0:
			b.duties[i].slot += uint64(1 + g.r.Intn(2))
		case 1:
			b.duties[i].idx = uint64(valIdxBase + g.r.Intn(g.cfg.m))
		case 2:
			b.duties[i].pos = g.r.Intn(g.cfg.m)
		case 3:
			b.duties[i].pos = -9
		}
	}
	if g.r.Chance(1, 5) {
		b.duties = append(b.duties, bnDuty{pos: g.r.Intn(g.cfg.m+1) - 1, slot: ep*spe + so, idx: []uint64{xValIdx, uint64(valIdxBase + g.r.Intn(g.cfg.m))}[g.r.Intn(2)]})
	}
	if len(b.duties) > 1 && g.r.Chance(1, 6) {
		b.duties = b.duties[:len(b.duties)-1]
	}
	for i := range b.vals {
		switch g.r.Intn(30) {
		case 0:
			b.vals[i].state, b.vals[i].actEpoch = "p", ep+uint64(g.r.Intn(2))
		case 1:
			b.vals[i].state = []string{"n", "m"}[g.r.Intn(2)]
		}
	}
	switch g.r.Intn(40) {
	case 0:
		b.valsErr = true
	case 1:
		b.dutiesErr = true
	case 2:
		b.domOK = false
	}
	for i := 0; i < k+1; i++ {
		if g.r.Chance(1, 6) {
			for len(b.sub) < i {
				b.sub = append(b.sub, "o")
			}
			b.sub = append(b.sub, answers[1+g.r.Intn(3)])
		}
	}
	g.bc(bcOp{duty: duty, ents: es, bn: b})
}

func generate(run *hx.Run, a hx.Args) {
	g := &gen{run: run, r: hx.NewRng(a.Seed), left: a.N}
	g.newEpisode()
	// the systematic part in an order that depends on the seed, so that small budgets see all of it over several seeds
	blocks := []func(){
		func() { g.attScenarios(5) }, func() { g.attScenarios(6) }, func() { g.otherDuties() },
		func() { g.attScenarios(g.r.Intn(5)) },
	}
	for _, i := range g.r.Perm(len(blocks)) {
		if g.left <= 0 {
			break
		}
		blocks[i]()
		if i%2 == 1 {
			g.newEpisode()
		}
	}
	for g.left > 0 && !run.Enough() {
		if g.r.Chance(1, 60) {
			g.newEpisode()
			continue
		}
		g.random()
	}
}

func execute(run *hx.Run, ops []string) {
	var ep *episode
	for _, line := range ops {
		recipe := strings.SplitN(line, " | ", 2)[0]
		f := strings.Fields(recipe)
		if len(f) == 0 {
			continue
		}
		switch f[0] {
		case "cfg":
			ep = newEpisode(run, parseCfgOp(f))
		case "bc":
			if ep == nil {
				panic("bc before cfg")
			}
			ep.execBc(run, parseBcOp(f))
		default:
			panic("unknown op " + f[0])
		}
	}
}

var (
	_ = binary.LittleEndian
	_ = time.Now
	_ = testing.Short
	_ = signing.DomainExit
	_ = eth2wrap.ActiveValidators{}
	_ = testutil.RandomRoot
	_ = bitfield.NewBitlist
	_ = eth2api.VersionedProposal{}
	_ = eth2v1.Validator{}
	_ = eth2bellatrix.SignedBlindedBeaconBlock{}
	_ = eth2capella.SignedBlindedBeaconBlock{}
	_ = eth2deneb.SignedBlockContents{}
	_ = eth2electra.SignedBlockContents{}
	_ = eth2fulu.SignedBlockContents{}
	_ = altair.SyncCommitteeMessage{}
	_ = bellatrix.SignedBeaconBlock{}
	_ = capella.SignedBeaconBlock{}
	_ = deneb.SignedBeaconBlock{}
	_ = electra.SignedBeaconBlock{}
	_ = beaconmock.Mock{}
)

func main() {
	a := hx.ParseArgs()
	hx.Must(log.InitLogger(log.Config{Level: "fatal", Format: "console", Color: "disable"}))
	ctx, cancel := context.WithCancel(context.Background())
	defer cancel()
	initMock(ctx)
	initBroadcaster(ctx)
	run := hx.NewRun(a.Dir)
	defer run.Close()
	if a.Mode == "exec" {
		execute(run, hx.ReadOps(a.Ops))
		return
	}
	generate(run, a)
}
