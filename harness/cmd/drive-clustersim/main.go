// drive-clustersim: correspondence driver for C01 (the signing pipeline of a whole cluster for one
// duty and one validator).
//
// For every `cfg n mask` the driver builds n in-process member stacks out of the REAL components,
// wired like core.Wire wires this part of the workflow:
//
//	dutydb.MemDB  --AwaitAttestation/PubKeyByAttestation-->  validatorapi.Component (secure ctor)
//	validatorapi.Component  --Subscribe-->  parsigdb.MemDB.StoreInternal
//	parsigdb.MemDB  --SubscribeInternal-->  outbox (stands for ParSigEx.Broadcast: same proto encoding)
//	parsigex handler (hook VerifNew/VerifHandle: proto decode, real core.NewDutyGater, real
//	                  parsigex.NewEth2Verifier over the public shares)  --Subscribe-->  parsigdb.StoreExternal
//	parsigdb.MemDB  --SubscribeThreshold-->  sigagg.Aggregator.Aggregate (real sigagg.NewVerifier)
//	sigagg.Aggregator  --Subscribe-->  aggsigdb.MemDBV2.Store ; recorder (stands for Broadcaster.Broadcast)
//
// with one real validator key, a real tbls.ThresholdSplit (threshold cluster.Threshold(n), share
// k+1 belongs to member k), a testutil/beaconmock for spec/fork/genesis data, and a scripted
// core.Deadliner that answers Scheduled and never expires anything.
//
// ops (see lean/Driver/ClusterSim.lean):
//
//	cfg <n> <byzMask>      fresh cluster; member i is Byzantine iff bit i of byzMask is set
//	decide <i> <v>         member i's consensus decided value v: dutyDB.Store of the attestation data
//	                       whose content is a fixed function of the id v
//	sign <i>               member i's validator client: vapi.AttestationData, sign with key share i+1,
//	                       vapi.SubmitAttestations (-> parSigDB.StoreInternal)
//	deliver <j> <k> <r>    the partial (share k+1, content id r) arrives at member j's parsigex handler
//
// output: <ok|dup|clash|refused|noop> [ids of the signing roots member i/j handed to Broadcast in this op]
//
// Interning. Values and signing roots are small ids: content(x) is the attestation data built
// from id x, and the id of a signing root is the id x whose content has that signing root (so
// id(signing root of value v) = v, the model's `root` is the identity). Ids >= 1000 are contents
// that only Byzantine members ever sign. An emitted root that belongs to no id used in the episode
// is printed as `?` (and is a monitor violation).
//
// Result classes (canonicalisation is explicit about what the real components return):
//
//	decide : Store error "clashing ..." -> clash ; nil and the key was empty before -> ok ; nil and
//	         the key was already filled -> dup (the real store returns nil for an identical repeat)
//	sign   : noop without any call if the member is Byzantine, its duty store holds nothing for the
//	         key (read through the hook snapshot, AwaitAttestation would block) or its validator
//	         client already signed; else SubmitAttestations nil and the partial store grew -> ok
//	deliver: the partial (k, r) EXISTS iff member k is Byzantine (then it is made on demand with k's
//	         REAL key share) or k's validator client signed content r. An existing partial goes
//	         through the real handler: verification error -> refused (monitor violation, must not
//	         happen); StoreExternal nil and store grew -> ok ; nil and unchanged -> dup ;
//	         "mismatching partial signed data" -> clash. A non-existing partial cannot be produced by
//	         anybody; the driver still sends the best possible FORGERY (share index k+1, content r,
//	         signed with another key: a Byzantine member's share or an outsider key) through the same
//	         handler: verification error -> refused (anything else is `forged_partial_admitted`).
//	A member's own partial handed back to itself (deliver i i r; only a relaying peer could do that,
//	ParSigEx.Broadcast skips self) is a duplicate for the real store too: the wire encoding keeps
//	every field the validator client set.
//
// Monitors (independent of the model):
//
//	clustersim:two_roots                    two Broadcast hand-offs in the episode with different signing roots
//	clustersim:invalid_group_signature      a handed-off object whose signature fails tbls.Verify under the group key
//	clustersim:emitted_without_threshold    hand-off although fewer than threshold shares ever signed that root
//	                                        (pool history) or fewer than threshold are in the member's store
//	clustersim:honest_partial_refused / valid_partial_refused / forged_partial_admitted
//	clustersim:member_broadcast_twice       one member hands off twice for the duty and validator
//	clustersim:unknown_root                 handed-off root is the root of no content id of the episode
//	clustersim:aggsigdb_differs             AggSigDB.Await does not return what was handed to Broadcast
//	clustersim:dutydb_served_other_data     the duty store served something else than the first stored value
//	clustersim:honest_signed_other_than_stored
package main

import (
	"context"
	"crypto/sha256"
	"encoding/binary"
	"fmt"
	"sort"
	"strconv"
	"strings"
	"time"

	"github.com/OffchainLabs/go-bitfield"
	eth2api "github.com/attestantio/go-eth2-client/api"
	eth2v1 "github.com/attestantio/go-eth2-client/api/v1"
	eth2spec "github.com/attestantio/go-eth2-client/spec"
	"github.com/attestantio/go-eth2-client/spec/electra"
	eth2p0 "github.com/attestantio/go-eth2-client/spec/phase0"
	"github.com/libp2p/go-libp2p/core/peer"

	"github.com/obolnetwork/charon/app/log"
	"github.com/obolnetwork/charon/cluster"
	"github.com/obolnetwork/charon/core"
	"github.com/obolnetwork/charon/core/aggsigdb"
	pbv1 "github.com/obolnetwork/charon/core/corepb/v1"
	"github.com/obolnetwork/charon/core/dutydb"
	"github.com/obolnetwork/charon/core/parsigdb"
	"github.com/obolnetwork/charon/core/parsigex"
	"github.com/obolnetwork/charon/core/sigagg"
	"github.com/obolnetwork/charon/core/validatorapi"
	"github.com/obolnetwork/charon/eth2util/signing"
	"github.com/obolnetwork/charon/tbls"
	"github.com/obolnetwork/charon/testutil/beaconmock"

	"verifharness/hx"
)

// ---------------------------------------------------------------------------------------------
// the one duty and validator

const (
	slotsPerEpoch = 32
	dutyEpoch     = 60000 // Fulu on the mock's fork schedule, far in the past of the mock's clock
	dutySlot      = dutyEpoch*slotsPerEpoch + 7
	commIdx       = 3 // non-zero: the duty store then also keeps its committee-index-0 alias
	commLen       = 16
	valCommIdx    = 5
	valIdx        = 1234
)

var (
	genesisT = time.Date(2022, 3, 1, 0, 0, 0, 0, time.UTC)
	duty     = core.NewAttesterDuty(dutySlot)
)

func tagRoot(tag string, id int) (r eth2p0.Root) {
	var b [8]byte
	binary.LittleEndian.PutUint64(b[:], uint64(id))
	h := sha256.Sum256(append([]byte("verif-c01/"+tag+"/"), b[:]...))
	return h
}

// content is the attestation data standing for value / root id x. Ids 2 and 3 differ in the head
// only (same source and target): the duty store's committee-index-0 alias would accept that pair,
// its keyed entry does not.
func content(id int) *eth2p0.AttestationData {
	st := id
	if id == 3 {
		st = 2
	}
	return &eth2p0.AttestationData{
		Slot:            dutySlot,
		Index:           0,
		BeaconBlockRoot: tagRoot("head", id),
		Source:          &eth2p0.Checkpoint{Epoch: dutyEpoch - 1, Root: tagRoot("source", st)},
		Target:          &eth2p0.Checkpoint{Epoch: dutyEpoch, Root: tagRoot("target", st)},
	}
}

// ---------------------------------------------------------------------------------------------
// beacon mock and the harness's own signing-root computation

var (
	bmock      beaconmock.Mock
	attDomain  eth2p0.Domain // computed by hand from the mock's fork schedule and genesis
	domainType = [4]byte{0x01, 0x00, 0x00, 0x00}
)

func initMock(ctx context.Context) {
	m, err := beaconmock.New(ctx, beaconmock.WithGenesisTime(genesisT), beaconmock.WithSlotsPerEpoch(slotsPerEpoch))
	hx.Must(err)
	bmock = m
	// compute_domain(DOMAIN_BEACON_ATTESTER, fork version at the duty's epoch, genesis validators root)
	fs, err := m.ForkSchedule(ctx, &eth2api.ForkScheduleOpts{})
	hx.Must(err)
	var version eth2p0.Version
	found := false
	for _, f := range fs.Data {
		if uint64(f.Epoch) <= dutyEpoch {
			version = f.CurrentVersion
			found = true
		}
	}
	if !found {
		panic("no fork for the duty epoch")
	}
	g, err := m.Genesis(ctx, &eth2api.GenesisOpts{})
	hx.Must(err)
	fdr, err := (&eth2p0.ForkData{CurrentVersion: version, GenesisValidatorsRoot: g.Data.GenesisValidatorsRoot}).HashTreeRoot()
	hx.Must(err)
	copy(attDomain[:4], domainType[:])
	copy(attDomain[4:], fdr[:28])
	// sanity: agrees with what the production code (eth2util/signing) derives from the mock
	probe := tagRoot("probe", 0)
	want, err := signing.GetDataRoot(ctx, m, signing.DomainBeaconAttester, dutyEpoch, probe)
	hx.Must(err)
	if ownSigningRoot(probe) != want {
		panic("harness signing-root computation disagrees with signing.GetDataRoot")
	}
}

// ownSigningRoot is compute_signing_root over the hand-computed attester domain.
func ownSigningRoot(objRoot [32]byte) [32]byte {
	r, err := (&eth2p0.SigningData{ObjectRoot: objRoot, Domain: attDomain}).HashTreeRoot()
	hx.Must(err)
	return r
}

func contentSigningRoot(id int) [32]byte {
	o, err := content(id).HashTreeRoot()
	hx.Must(err)
	return ownSigningRoot(o)
}

// ---------------------------------------------------------------------------------------------
// keys (one key set per cluster size, made with the real tbls.ThresholdSplit)

type keySet struct {
	n, t      int
	secret    tbls.PrivateKey
	group     tbls.PublicKey
	corePK    core.PubKey
	shares    map[int]tbls.PrivateKey // 1-based
	pubShares map[int]tbls.PublicKey
	outsider  tbls.PrivateKey
}

var keySets = map[int]*keySet{}

func getKeys(n int) *keySet {
	if ks, ok := keySets[n]; ok {
		return ks
	}
	t := cluster.Threshold(n)
	sec, err := tbls.GenerateSecretKey()
	hx.Must(err)
	pub, err := tbls.SecretToPublicKey(sec)
	hx.Must(err)
	shares, err := tbls.ThresholdSplit(sec, uint(n), uint(t))
	hx.Must(err)
	ks := &keySet{n: n, t: t, secret: sec, group: pub, shares: shares, pubShares: map[int]tbls.PublicKey{}}
	for idx, s := range shares {
		if idx < 1 || idx > n {
			panic("share index out of range")
		}
		p, err := tbls.SecretToPublicKey(s)
		hx.Must(err)
		ks.pubShares[idx] = p
	}
	if len(ks.pubShares) != n {
		panic("wrong number of shares")
	}
	ks.corePK, err = core.PubKeyFromBytes(pub[:])
	hx.Must(err)
	ks.outsider, err = tbls.GenerateSecretKey()
	hx.Must(err)
	keySets[n] = ks
	return ks
}

// ---------------------------------------------------------------------------------------------
// scripted deadliner: everything is scheduled, nothing ever expires

type neverDeadliner struct{ ch chan core.Duty }

func (d neverDeadliner) Add(core.Duty) core.DeadlineStatus { return core.DeadlineScheduled }
func (d neverDeadliner) C() <-chan core.Duty               { return d.ch }

// ---------------------------------------------------------------------------------------------
// one member

type emission struct {
	member  int
	rootID  int // -1: unknown
	sroot   [32]byte
	sigOK   bool
	sig     core.Signature
	nShares int // distinct shares with that message root in the member's store at hand-off time
}

type member struct {
	idx      int
	byz      bool
	dutyDB   *dutydb.MemDB
	vapi     *validatorapi.Component
	parSigDB *parsigdb.MemDB
	parSigEx *parsigex.ParSigEx
	sigAgg   *sigagg.Aggregator
	aggSigDB *aggsigdb.MemDBV2

	// validator client state (the VC signs once per duty)
	vcSigned   bool
	signedID   int // content id the VC signed
	decidedID  int // content id of the first successful duty-store write, 0: none
	nBroadcast int

	// per-op observations
	outbox    []*pbv1.ParSigExMsg
	extCalled bool
	extErr    error
}

type poolKey struct{ k, r int }

type episode struct {
	n, t   int
	mask   int
	ks     *keySet
	mem    []*member
	cancel context.CancelFunc

	pool    map[poolKey]*pbv1.ParSigExMsg // existing partials (share k+1, content r), wire form
	forged  map[poolKey]*pbv1.ParSigExMsg
	rootIDs map[[32]byte]int // signing root -> content id, for every id used in the episode

	cur       []emission // emissions of the op being executed
	firstRoot *[32]byte
	firstBy   int
}

func (ep *episode) regID(id int) {
	ep.rootIDs[contentSigningRoot(id)] = id
}

func attesterDuty(ks *keySet) eth2v1.AttesterDuty {
	return eth2v1.AttesterDuty{
		PubKey:                  eth2p0.BLSPubKey(ks.group),
		Slot:                    dutySlot,
		ValidatorIndex:          valIdx,
		CommitteeIndex:          commIdx,
		CommitteeLength:         commLen,
		CommitteesAtSlot:        8,
		ValidatorCommitteeIndex: valCommIdx,
	}
}

func newEpisode(run *hx.Run, n, mask int) *episode {
	ctx, cancel := context.WithCancel(context.Background())
	ks := getKeys(n)
	ep := &episode{n: n, t: ks.t, mask: mask, ks: ks, cancel: cancel,
		pool: map[poolKey]*pbv1.ParSigExMsg{}, forged: map[poolKey]*pbv1.ParSigExMsg{}, rootIDs: map[[32]byte]int{}}
	pubSharesByKey := map[core.PubKey]map[int]tbls.PublicKey{ks.corePK: ks.pubShares}
	gater, err := core.NewDutyGater(ctx, bmock)
	hx.Must(err)
	for i := 0; i < n; i++ {
		m := &member{idx: i, byz: (mask>>uint(i))&1 == 1}
		dl := func() core.Deadliner { return neverDeadliner{ch: make(chan core.Duty)} }
		m.dutyDB = dutydb.NewMemDB(dl())
		m.vapi, err = validatorapi.NewComponent(bmock, pubSharesByKey, i+1, func(core.PubKey) string { return "0x0000000000000000000000000000000000000000" }, false, 30000000)
		hx.Must(err)
		m.parSigDB = parsigdb.NewMemDB(ks.t, dl(), parsigdb.NewMemDBMetadata(12, genesisT))
		verifyFunc, err := parsigex.NewEth2Verifier(bmock, pubSharesByKey)
		hx.Must(err)
		m.parSigEx = parsigex.VerifNew(verifyFunc, gater)
		m.sigAgg, err = sigagg.New(ks.t, sigagg.NewVerifier(bmock))
		hx.Must(err)
		m.aggSigDB = aggsigdb.NewMemDBV2(dl())

		// core.Wire, the part between consensus output and broadcast
		m.vapi.RegisterAwaitAttestation(m.dutyDB.AwaitAttestation)
		m.vapi.RegisterPubKeyByAttestation(m.dutyDB.PubKeyByAttestation)
		m.vapi.Subscribe(m.parSigDB.StoreInternal)
		m.parSigDB.SubscribeInternal(func(_ context.Context, d core.Duty, set core.ParSignedDataSet) error {
			// ParSigEx.Broadcast: encode the set once, send the message to every other peer
			pb, err := core.ParSignedDataSetToProto(set)
			if err != nil {
				return err
			}
			m.outbox = append(m.outbox, &pbv1.ParSigExMsg{Duty: core.DutyToProto(d), DataSet: pb})
			return nil
		})
		m.parSigEx.Subscribe(func(ctx context.Context, d core.Duty, set core.ParSignedDataSet) error {
			m.extCalled = true
			m.extErr = m.parSigDB.StoreExternal(ctx, d, set)
			return m.extErr
		})
		m.parSigDB.SubscribeThreshold(m.sigAgg.Aggregate)
		m.sigAgg.Subscribe(m.aggSigDB.Store)
		m.sigAgg.Subscribe(func(_ context.Context, d core.Duty, set core.SignedDataSet) error {
			ep.onBroadcast(run, m, d, set)
			return nil
		})
		go m.parSigDB.Trim(ctx)
		ep.mem = append(ep.mem, m)
	}
	return ep
}

// onBroadcast stands for Broadcaster.Broadcast: the fully signed object leaves the member here.
func (ep *episode) onBroadcast(run *hx.Run, m *member, d core.Duty, set core.SignedDataSet) {
	if d != duty || len(set) != 1 {
		run.Violate("clustersim:broadcast_shape", fmt.Sprintf("member %d: broadcast for duty %v with %d validators", m.idx, d, len(set)))
	}
	for pk, sd := range set {
		e := emission{member: m.idx, rootID: -1}
		att, ok := sd.(core.VersionedAttestation)
		if pk != ep.ks.corePK || !ok {
			run.Violate("clustersim:broadcast_shape", fmt.Sprintf("member %d: broadcast for validator %v, payload %T", m.idx, pk, sd))
			ep.cur = append(ep.cur, e)
			continue
		}
		data, err := att.VersionedAttestation.Data()
		hx.Must(err)
		objRoot, err := data.HashTreeRoot()
		hx.Must(err)
		e.sroot = ownSigningRoot(objRoot)
		if id, ok := ep.rootIDs[e.sroot]; ok {
			e.rootID = id
		}
		raw, err := att.VersionedAttestation.Signature()
		hx.Must(err)
		e.sig = core.SigFromETH2(raw)
		msgBytes := append([]byte(nil), e.sroot[:]...) // cgo: must not point into a struct holding Go pointers
		e.sigOK = tbls.Verify(ep.ks.group, msgBytes, tbls.Signature(raw)) == nil
		shares := map[int]bool{}
		for _, ps := range m.parSigDB.VerifSnapshot().Entries[parsigdb.VerifKey{Duty: duty, PubKey: ep.ks.corePK}] {
			r, err := ps.MessageRoot()
			hx.Must(err)
			if r == objRoot {
				shares[ps.ShareIdx] = true
			}
		}
		e.nShares = len(shares)
		ep.cur = append(ep.cur, e)
	}
}

// checkEmissions evaluates the monitors on the emissions of the current op and renders them.
func (ep *episode) checkEmissions(run *hx.Run, target int) string {
	var ids []string
	for _, e := range ep.cur {
		m := ep.mem[e.member]
		if e.member != target {
			run.Violate("clustersim:broadcast_by_bystander", fmt.Sprintf("member %d broadcast during an op on member %d", e.member, target))
		}
		if !e.sigOK {
			run.Violate("clustersim:invalid_group_signature", fmt.Sprintf("member %d handed an object to Broadcast whose signature does not verify under the group public key (root id %d)", e.member, e.rootID))
		}
		if e.rootID < 0 {
			run.Violate("clustersim:unknown_root", fmt.Sprintf("member %d broadcast signing root %x which is the root of no content of this episode", e.member, e.sroot[:6]))
		}
		if ep.firstRoot == nil {
			r := e.sroot
			ep.firstRoot, ep.firstBy = &r, e.member
		} else if *ep.firstRoot != e.sroot {
			run.Violate("clustersim:two_roots", fmt.Sprintf("member %d broadcast signing root %x (id %d), member %d earlier broadcast %x", e.member, e.sroot[:6], e.rootID, ep.firstBy, (*ep.firstRoot)[:6]))
		}
		signers := 0
		for k := 0; k < ep.n; k++ {
			if _, ok := ep.pool[poolKey{k, e.rootID}]; ok && e.rootID >= 0 {
				signers++
			}
		}
		if signers < ep.t || e.nShares < ep.t {
			run.Violate("clustersim:emitted_without_threshold", fmt.Sprintf("member %d broadcast root id %d: %d shares ever signed it, %d of them in its store, threshold %d", e.member, e.rootID, signers, e.nShares, ep.t))
		}
		m.nBroadcast++
		if m.nBroadcast > 1 {
			run.Violate("clustersim:member_broadcast_twice", fmt.Sprintf("member %d handed %d objects to Broadcast for the duty and validator", e.member, m.nBroadcast))
		}
		// AggSigDB holds what was broadcast
		actx, cancel := context.WithTimeout(context.Background(), 2*time.Second)
		got, err := m.aggSigDB.Await(actx, duty, ep.ks.corePK, 0)
		cancel()
		if err != nil {
			run.Violate("clustersim:aggsigdb_differs", fmt.Sprintf("member %d: AggSigDB.Await after the hand-off: %v", e.member, err))
		} else if string(got.Signature()) != string(e.sig) {
			if m.nBroadcast == 1 {
				run.Violate("clustersim:aggsigdb_differs", fmt.Sprintf("member %d: AggSigDB holds another signature than the broadcast object", e.member))
			}
		}
		run.Count("emission")
		if e.rootID >= 0 {
			ids = append(ids, strconv.Itoa(e.rootID))
		} else {
			ids = append(ids, "?")
		}
	}
	sort.Strings(ids)
	return "[" + strings.Join(ids, ",") + "]"
}

// ---------------------------------------------------------------------------------------------
// ops

func (ep *episode) storeLen(m *member) int {
	return len(m.parSigDB.VerifSnapshot().Entries[parsigdb.VerifKey{Duty: duty, PubKey: ep.ks.corePK}])
}

func (ep *episode) stored(m *member) *eth2p0.AttestationData {
	return m.dutyDB.VerifSnapshot().Att[dutydb.VerifAttKey{Slot: dutySlot, CommIdx: commIdx}]
}

func (ep *episode) doDecide(run *hx.Run, i, v int) string {
	m := ep.mem[i]
	ep.regID(v)
	ctx := context.Background()
	pre := ep.stored(m)
	set := core.UnsignedDataSet{ep.ks.corePK: core.AttestationData{Data: *content(v), Duty: attesterDuty(ep.ks)}}
	err := m.dutyDB.Store(ctx, duty, set)
	post := ep.stored(m)
	var class string
	switch {
	case err != nil && strings.Contains(err.Error(), "clashing"):
		class = "clash"
	case err != nil:
		class = "err:" + err.Error()
	case pre == nil:
		class = "ok"
		m.decidedID = v
	default:
		class = "dup"
	}
	// the served value never changes once set, and is the first stored one
	if m.decidedID != 0 && (post == nil || post.String() != content(m.decidedID).String()) {
		run.Violate("clustersim:dutydb_served_other_data", fmt.Sprintf("member %d: duty store does not hold content %d any more after decide %d", i, m.decidedID, v))
	}
	return class
}

// vcAttestation is what a validator client builds for the duty from the data the node served
// (testutil/validatormock attest).
func vcAttestation(data *eth2p0.AttestationData, sig tbls.Signature, aggBit uint64) *eth2spec.VersionedAttestation {
	aggBits := bitfield.NewBitlist(commLen)
	aggBits.SetBitAt(aggBit, true)
	commBits := bitfield.NewBitvector64()
	commBits.SetBitAt(commIdx, true)
	vi := eth2p0.ValidatorIndex(valIdx)
	return &eth2spec.VersionedAttestation{
		Version:        eth2spec.DataVersionFulu,
		ValidatorIndex: &vi,
		Fulu: &electra.Attestation{
			AggregationBits: aggBits,
			Data:            data,
			Signature:       eth2p0.BLSSignature(sig),
			CommitteeBits:   commBits,
		},
	}
}

func (ep *episode) doSign(run *hx.Run, i int) string {
	if i >= ep.n {
		return "noop"
	}
	m := ep.mem[i]
	if m.byz || m.vcSigned || ep.stored(m) == nil {
		return "noop"
	}
	ctx := context.Background()
	resp, err := m.vapi.AttestationData(ctx, &eth2api.AttestationDataOpts{Slot: dutySlot, CommitteeIndex: commIdx})
	hx.Must(err)
	served := *resp.Data // the VC gets a copy over HTTP
	src, tgt := *served.Source, *served.Target
	served.Source, served.Target = &src, &tgt
	if served.String() != content(m.decidedID).String() {
		run.Violate("clustersim:dutydb_served_other_data", fmt.Sprintf("member %d: AttestationData served something else than content %d", i, m.decidedID))
	}
	objRoot, err := served.HashTreeRoot()
	hx.Must(err)
	sigData, err := signing.GetDataRoot(ctx, bmock, signing.DomainBeaconAttester, served.Target.Epoch, objRoot)
	hx.Must(err)
	sig, err := tbls.Sign(ep.ks.shares[i+1], sigData[:])
	hx.Must(err)
	att := vcAttestation(&served, sig, valCommIdx)
	m.vcSigned = true
	m.signedID = -1
	if id, ok := ep.rootIDs[ownSigningRoot(objRoot)]; ok {
		m.signedID = id
	}
	if m.signedID != m.decidedID {
		run.Violate("clustersim:honest_signed_other_than_stored", fmt.Sprintf("member %d signed content %d, its duty store was written with %d", i, m.signedID, m.decidedID))
	}
	pre := ep.storeLen(m)
	m.outbox = nil
	err = m.vapi.SubmitAttestations(ctx, &eth2api.SubmitAttestationsOpts{Attestations: []*eth2spec.VersionedAttestation{att}})
	post := ep.storeLen(m)
	// the partial now exists: its wire form is what ParSigEx.Broadcast would have sent
	if len(m.outbox) == 1 {
		ep.pool[poolKey{i, m.signedID}] = m.outbox[0]
	} else {
		if err == nil {
			run.Violate("clustersim:no_exchange", fmt.Sprintf("member %d: StoreInternal returned nil but handed %d sets to ParSigEx.Broadcast", i, len(m.outbox)))
		}
		par, perr := core.NewPartialVersionedAttestation(att, i+1)
		hx.Must(perr)
		ep.pool[poolKey{i, m.signedID}] = ep.wire(par)
	}
	switch {
	case err != nil && strings.Contains(err.Error(), "mismatching partial signed data"):
		return "clash"
	case err != nil:
		return "err:" + err.Error()
	case post == pre+1:
		return "ok"
	case post == pre:
		return "dup"
	}
	return fmt.Sprintf("err:store grew by %d", post-pre)
}

func (ep *episode) wire(par core.ParSignedData) *pbv1.ParSigExMsg {
	pb, err := core.ParSignedDataSetToProto(core.ParSignedDataSet{ep.ks.corePK: par})
	hx.Must(err)
	return &pbv1.ParSigExMsg{Duty: core.DutyToProto(duty), DataSet: pb}
}

// madePartial builds a peer's partial for content r under share index k+1, signed with `key`.
// Peers forward the attestation as the sending node holds it; a Byzantine sender chooses freely,
// here: the same shape an honest node sends.
func (ep *episode) madePartial(k, r int, key tbls.PrivateKey) *pbv1.ParSigExMsg {
	sroot := contentSigningRoot(r)
	sig, err := tbls.Sign(key, sroot[:])
	hx.Must(err)
	par, err := core.NewPartialVersionedAttestation(vcAttestation(content(r), sig, valCommIdx), k+1)
	hx.Must(err)
	return ep.wire(par)
}

func (ep *episode) doDeliver(run *hx.Run, j, k, r int) string {
	m := ep.mem[j]
	ep.regID(r)
	ctx := context.Background()
	pk := poolKey{k, r}
	msg, exists := ep.pool[pk]
	if !exists && k < ep.n && ep.mem[k].byz {
		// arbitrary partial made with the Byzantine member's own key share
		msg = ep.madePartial(k, r, ep.ks.shares[k+1])
		ep.pool[pk] = msg
		exists = true
		run.Count("byz_partial_made")
	}
	if !exists {
		// nobody can produce this partial. Send the best forgery through the real admission check.
		f, ok := ep.forged[pk]
		if !ok {
			key := ep.ks.outsider
			for b := 0; b < ep.n; b++ {
				if ep.mem[b].byz && b != k {
					key = ep.ks.shares[b+1]
					break
				}
			}
			f = ep.madePartial(k, r, key)
			ep.forged[pk] = f
		}
		pre := ep.storeLen(m)
		m.extCalled, m.extErr = false, nil
		_, _, herr := m.parSigEx.VerifHandle(ctx, peer.ID("peer"), f)
		post := ep.storeLen(m)
		run.Count("forgery_sent")
		if herr == nil || m.extCalled || post != pre {
			run.Violate("clustersim:forged_partial_admitted", fmt.Sprintf("member %d admitted a partial for share %d over content %d that is not signed with that share's key", j, k+1, r))
			return "admitted-forgery"
		}
		return "refused"
	}
	pre := ep.storeLen(m)
	m.extCalled, m.extErr = false, nil
	_, _, herr := m.parSigEx.VerifHandle(ctx, peer.ID("peer"), msg)
	post := ep.storeLen(m)
	if herr != nil || !m.extCalled {
		if ep.mem[k].byz {
			run.Violate("clustersim:valid_partial_refused", fmt.Sprintf("member %d refused a well-formed partial of Byzantine share %d over content %d: %v", j, k+1, r, herr))
		} else {
			run.Violate("clustersim:honest_partial_refused", fmt.Sprintf("member %d refused the partial of honest share %d over content %d: %v", j, k+1, r, herr))
		}
		return "refused"
	}
	switch err := m.extErr; {
	case err != nil && strings.Contains(err.Error(), "mismatching partial signed data"):
		if post != pre {
			return "err:store changed on mismatch"
		}
		return "clash"
	case err != nil:
		return "err:" + err.Error()
	case post == pre+1:
		return "ok"
	case post == pre:
		return "dup"
	}
	return fmt.Sprintf("err:store grew by %d", post-pre)
}

// ---------------------------------------------------------------------------------------------
// driver

type driver struct {
	run *hx.Run
	ep  *episode
}

func atoi(s string) int {
	v, err := strconv.Atoi(s)
	if err != nil || v < 0 {
		panic("bad number " + s)
	}
	return v
}

func (d *driver) execLine(line string) {
	f := strings.Fields(line)
	run := d.run
	if len(f) == 0 {
		return
	}
	if f[0] == "cfg" {
		if len(f) != 3 {
			panic("bad op " + line)
		}
		if d.ep != nil {
			d.ep.cancel()
		}
		n, mask := atoi(f[1]), atoi(f[2])
		if n < 2 || n > 16 {
			panic("cfg: n out of the driver's range")
		}
		d.ep = newEpisode(run, n, mask)
		run.Count("cfg")
		run.Op(line, "ok")
		return
	}
	ep := d.ep
	ep.cur = nil
	var class string
	target := -1
	switch {
	case f[0] == "decide" && len(f) == 3:
		i, v := atoi(f[1]), atoi(f[2])
		if i >= ep.n {
			panic("decide: no such member")
		}
		target = i
		class = ep.doDecide(run, i, v)
	case f[0] == "sign" && len(f) == 2:
		target = atoi(f[1])
		class = ep.doSign(run, target)
	case f[0] == "deliver" && len(f) == 4:
		j, k, r := atoi(f[1]), atoi(f[2]), atoi(f[3])
		if j >= ep.n {
			panic("deliver: no such recipient")
		}
		target = j
		class = ep.doDeliver(run, j, k, r)
	default:
		panic("bad op " + line)
	}
	em := ep.checkEmissions(run, target)
	c := class
	if strings.HasPrefix(c, "err:") {
		c = "err"
	}
	run.Count(f[0] + ":" + c)
	if em != "[]" {
		run.Count(f[0] + ":emits")
	}
	run.Op(line, class+" "+em)
}

// ---------------------------------------------------------------------------------------------
// generator

type action struct {
	at   int
	line string
}

type gen struct {
	d    *driver
	rng  *hx.Rng
	maxN int
}

func (g *gen) episode() {
	rng := g.rng
	run := g.d.run
	n := 3 + rng.Intn(g.maxN-2)
	f := (n - 1) / 3
	nb := f
	if !rng.Chance(7, 10) {
		nb = rng.Intn(f + 1)
	}
	mask := 0
	perm := rng.Perm(n)
	byz := map[int]bool{}
	for _, b := range perm[:nb] {
		mask |= 1 << uint(b)
		byz[b] = true
	}
	g.d.execLine(fmt.Sprintf("cfg %d %d", n, mask))

	// consensus outcome: agreement in most episodes, disagreement in some (C01 must hold anyway)
	agree := rng.Chance(3, 4)
	main := 1 + rng.Intn(3)
	val := make([]int, n)
	for i := range val {
		val[i] = main
		if !agree {
			switch rng.Intn(3) {
			case 0:
				val[i] = 1 + rng.Intn(3)
			case 1:
				val[i] = 1 + (main % 3)
			}
		}
	}
	other := func(v int) int { return 1 + (v+rng.Intn(2))%3 }

	const T = 1000
	var acts []action
	add := func(at int, format string, a ...any) { acts = append(acts, action{at, fmt.Sprintf(format, a...)}) }

	signAt := make([]int, n) // -1: never signs
	for i := 0; i < n; i++ {
		signAt[i] = -1
		if rng.Chance(1, 7) { // crashed before deciding
			run.Count("gen:never_decides")
			if rng.Chance(1, 3) {
				add(rng.Intn(2*T), "sign %d", i) // VC asks anyway: nothing served
			}
			continue
		}
		dAt := rng.Intn(T)
		if rng.Chance(1, 6) {
			dAt = T + rng.Intn(T) // late
		}
		add(dAt, "decide %d %d", i, val[i])
		if rng.Chance(1, 8) {
			add(dAt+1+rng.Intn(T), "decide %d %d", i, val[i]) // repeated identical decision
		}
		if rng.Chance(1, 8) {
			add(dAt+1+rng.Intn(T), "decide %d %d", i, other(val[i])) // conflicting later decision
		}
		if rng.Chance(1, 25) {
			add(rng.Intn(dAt+1), "decide %d %d", i, other(val[i])) // conflicting earlier decision wins instead
		}
		if rng.Chance(1, 10) {
			add(rng.Intn(dAt+1), "sign %d", i) // VC asks too early
		}
		if byz[i] {
			if rng.Chance(1, 3) {
				add(dAt+rng.Intn(T), "sign %d", i)
			}
			continue
		}
		if rng.Chance(1, 9) { // VC down
			run.Count("gen:never_signs")
			continue
		}
		signAt[i] = dAt + 1 + rng.Intn(T/2)
		add(signAt[i], "sign %d", i)
		if rng.Chance(1, 8) {
			add(signAt[i]+1+rng.Intn(T), "sign %d", i)
		}
	}
	// exchange of honest partials: to everybody else, some lost, some duplicated, some to the signer
	// itself, some before the signature exists, some again much later (after emission)
	for k := 0; k < n; k++ {
		if signAt[k] < 0 {
			continue
		}
		for j := 0; j < n; j++ {
			if j == k && !rng.Chance(1, 6) {
				continue
			}
			if rng.Chance(1, 8) { // lost
				continue
			}
			at := signAt[k] + 1 + rng.Intn(T)
			if rng.Chance(1, 12) {
				at = rng.Intn(signAt[k] + 1) // too early: does not exist yet (most of the time)
			}
			add(at, "deliver %d %d %d", j, k, val[k])
			for rng.Chance(1, 6) {
				add(at+1+rng.Intn(3*T), "deliver %d %d %d", j, k, val[k])
			}
			if rng.Chance(1, 30) {
				// a value the honest member did not sign: cannot exist
				add(rng.Intn(3*T), "deliver %d %d %d", j, k, []int{other(val[k]), 1000 + k}[rng.Intn(2)])
			}
		}
	}
	for k := 0; k < n; k++ { // members that never signed: forgeries only
		if signAt[k] < 0 && !byz[k] && rng.Chance(1, 3) {
			add(rng.Intn(3*T), "deliver %d %d %d", rng.Intn(n), k, main)
		}
	}
	// Byzantine members
	for b := 0; b < n; b++ {
		if !byz[b] {
			continue
		}
		style := rng.Intn(4)
		r1 := main
		r2 := []int{other(main), 1000 + b, 1000}[rng.Intn(3)]
		for j := 0; j < n; j++ {
			if rng.Chance(1, 10) {
				continue
			}
			at := rng.Intn(3 * T)
			switch style {
			case 0: // behaves
				add(at, "deliver %d %d %d", j, b, r1)
			case 1: // splits the cluster
				if j%2 == 0 {
					add(at, "deliver %d %d %d", j, b, r1)
				} else {
					add(at, "deliver %d %d %d", j, b, r2)
				}
			case 2: // several roots to everybody
				add(at, "deliver %d %d %d", j, b, r2)
				add(rng.Intn(3*T), "deliver %d %d %d", j, b, r1)
				if rng.Chance(1, 2) {
					add(rng.Intn(3*T), "deliver %d %d %d", j, b, 1+rng.Intn(3))
				}
			default: // backs whatever the recipient decided
				add(at, "deliver %d %d %d", j, b, val[j])
			}
			if rng.Chance(1, 6) {
				add(rng.Intn(4*T), "deliver %d %d %d", j, b, []int{r1, r2}[rng.Intn(2)])
			}
		}
	}
	sort.SliceStable(acts, func(a, b int) bool { return acts[a].at < acts[b].at })
	before := run.Counts["emission"]
	clashBefore := run.Counts["deliver:clash"]
	refBefore := run.Counts["deliver:refused"]
	for _, a := range acts {
		g.d.execLine(a.line)
	}
	em := run.Counts["emission"] - before
	kind := "split"
	if agree {
		kind = "agree"
	}
	run.Count(fmt.Sprintf("ep:n=%d", n))
	run.Count(fmt.Sprintf("ep:byz=%d", nb))
	run.Count("ep:" + kind)
	switch {
	case em == 0:
		run.Count("ep:no_emission")
	case em == n:
		run.Count("ep:all_emit")
	default:
		run.Count("ep:some_emit")
	}
	b := func(x int) int {
		if x > 3 {
			return 3
		}
		return x
	}
	run.Case(fmt.Sprintf("n%d/b%d/%s/em%d/cl%d/rf%d", n, nb, kind, em, b(run.Counts["deliver:clash"]-clashBefore), b(run.Counts["deliver:refused"]-refBefore)))
}

func main() {
	a := hx.ParseArgs()
	hx.Must(log.InitLogger(log.Config{Level: "fatal", Format: "console", Color: "disable"}))
	initMock(context.Background())
	run := hx.NewRun(a.Dir)
	defer run.Close()
	d := &driver{run: run}
	if a.Mode == "exec" {
		for _, op := range hx.ReadOps(a.Ops) {
			if d.ep == nil && !strings.HasPrefix(op, "cfg ") {
				d.execLine("cfg 4 0")
			}
			d.execLine(op)
		}
	} else {
		g := &gen{d: d, rng: hx.NewRng(a.Seed), maxN: 7}
		if a.Tier == "thorough" {
			g.maxN = 10
		}
		for run.NOps < a.N && !run.Enough() {
			g.episode()
		}
	}
	if d.ep != nil {
		d.ep.cancel()
	}
}
