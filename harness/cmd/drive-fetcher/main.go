// drive-fetcher: correspondence driver for core/fetcher/fetcher.go (properties C18 / C01, stream `fetcher`).
//
// The REAL fetcher.New(...) over a scripted eth2wrap.Client, scripted aggsigdb / dutydb functions and recording
// subscribers (some of them hostile: they scribble over everything they are handed, hx.Scribble).
//
// Ops (one line each; everything an op needs is on its line):
//
//	cfg n=<subs> h=<hostile bits|-> e=<electraSlot> o0=<0|1> b=<0|1> g=<pk:gid+…|-> v2=<n|0|1|p>
//	      new episode: a fresh Fetcher with n subscribers, fetchOnlyCommIdx0, builderEnabled, graffiti per pubkey,
//	      RegisterSyncContributionV2 (n: not registered, 0/1: constant, p: odd slots)
//	fetch <dutyType> <slot> D=<defs> E=<env> O=<overrides> SE=<subscriber errors> ord=<pks>
//	fonly <dutyType> <slot> <addr> <head> D=<defs> E=<env> O=<overrides> ord=<pks>
//	      defs: pk:a.<ci>.<len>.<vi> | pk:p.<vi> | pk:s.<vi>.<i>+<i>…   (comma separated, - = empty)
//	      env (answers by query, `;` separated, - = empty; anything else answers error 999):
//	        S=<e<E>|n|aggsPerComm.syncSize.subnets.aggsPerSub (x = missing)>      Spec
//	        A<addr>.<ci>=<e<E>|n|id.root>                                          AttestationData
//	        G<root>.<ci>=<e<E>|n|id.droot.bad>                                     AggregateAttestation
//	        P=<e<E>|n|id.blinded.q>                                                Proposal
//	        C<sub>.<root>=<e<E>|n|id.bad>                                          SyncCommitteeContribution
//	        X<a|r|s|m>.<pk>.<sub>=<e<E>|n|<l|y|m|r|o>.sig.x>                       aggsigdb function
//	        W<ci>=<e<E>|n|w>                                                       dutydb function
//	      overrides: <position>:e<E> | <position>:n — the call at that position of the op fails / answers nil
//	      ord: the order in which the real code visited the definition set, as far as the calls show it (written by
//	      the driver: whatever the file says is replaced by what was observed)
//	reorg | bnscr | subscr <i> | dbscr | defscr
//	      HandleChainReorg; the beacon node / subscriber i (if hostile) / the stores / the scheduler scribble over
//	      every object they handed out or were handed so far
//
// Answer: <ok|err:<class>|panic> L=<calls in order> D=<S<i>{pk=value,…};…> cache=<slots>
package main

import (
	"context"
	"fmt"
	"reflect"
	"regexp"
	"runtime"
	"sort"
	"strconv"
	"strings"
	"sync"
	"unsafe"

	eth2v1 "github.com/attestantio/go-eth2-client/api/v1"
	eth2p0 "github.com/attestantio/go-eth2-client/spec/phase0"

	"github.com/obolnetwork/charon/app/log"
	"github.com/obolnetwork/charon/core"
	"github.com/obolnetwork/charon/core/fetcher"
	"github.com/obolnetwork/charon/eth2util/eth2exp"

	"verifharness/hx"
)

type opError string

func u64(s string) uint64 {
	n, err := strconv.ParseUint(s, 10, 64)
	if err != nil {
		panic(opError("bad number " + s))
	}
	return n
}

// ---------------------------------------------------------------- op parsing / rendering

type defn struct {
	pk   uint64
	kind string // a p s
	f    []uint64
	idxs []uint64
}

func parseDefs(s string) []defn {
	var out []defn
	if s == "-" || s == "" {
		return out
	}
	for _, part := range strings.Split(s, ",") {
		kv := strings.SplitN(part, ":", 2)
		if len(kv) != 2 {
			panic(opError("bad def " + part))
		}
		d := defn{pk: u64(kv[0])}
		fs := strings.Split(kv[1], ".")
		d.kind = fs[0]
		switch d.kind {
		case "a":
			if len(fs) != 4 {
				panic(opError("bad def " + part))
			}
			d.f = []uint64{u64(fs[1]), u64(fs[2]), u64(fs[3])}
		case "p":
			if len(fs) != 2 {
				panic(opError("bad def " + part))
			}
			d.f = []uint64{u64(fs[1])}
		case "s":
			if len(fs) != 3 {
				panic(opError("bad def " + part))
			}
			d.f = []uint64{u64(fs[1])}
			if fs[2] != "" {
				for _, x := range strings.Split(fs[2], "+") {
					d.idxs = append(d.idxs, u64(x))
				}
			}
		default:
			panic(opError("bad def " + part))
		}
		out = append(out, d)
	}
	return out
}

func parseAns(v string) *ans {
	switch {
	case v == "n":
		return &ans{kind: "n"}
	case strings.HasPrefix(v, "e"):
		return &ans{kind: "e", e: u64(v[1:])}
	}
	a := &ans{kind: "d"}
	for _, x := range strings.Split(v, ".") {
		a.f = append(a.f, u64(x))
	}
	return a
}

func parseScript(env, over, se string) *script {
	sc := &script{att: map[[2]uint64]*ans{}, agg: map[[2]uint64]*ans{}, con: map[[2]uint64]*ans{}, sig: map[string]*ans{},
		await: map[uint64]*ans{}, over: map[int]*ans{}, subErr: map[int]uint64{}, raw: map[string]string{}}
	two := func(s string) [2]uint64 {
		p := strings.Split(s, ".")
		if len(p) != 2 {
			panic(opError("bad env key " + s))
		}
		return [2]uint64{u64(p[0]), u64(p[1])}
	}
	need := func(a *ans, n int, key string) *ans {
		if a.kind == "d" && len(a.f) != n {
			panic(opError("bad env value for " + key))
		}
		return a
	}
	if env != "-" && env != "" {
		for _, kv := range strings.Split(env, ";") {
			p := strings.SplitN(kv, "=", 2)
			if len(p) != 2 || p[0] == "" {
				panic(opError("bad env entry " + kv))
			}
			k, v := p[0], p[1]
			if _, dup := sc.raw[k]; !dup {
				sc.order = append(sc.order, k)
			}
			sc.raw[k] = v
			switch k[0] {
			case 'S':
				if v == "n" || strings.HasPrefix(v, "e") {
					sc.spec = parseAns(v)
				} else {
					f := strings.Split(v, ".")
					if len(f) != 4 {
						panic(opError("bad spec " + v))
					}
					for _, x := range f {
						if x != "x" {
							u64(x)
						}
					}
					sc.spec = &ans{kind: "d", spec: f}
				}
			case 'A':
				sc.att[two(k[1:])] = need(parseAns(v), 2, k)
			case 'G':
				sc.agg[two(k[1:])] = need(parseAns(v), 3, k)
			case 'P':
				sc.prop = need(parseAns(v), 3, k)
			case 'C':
				sc.con[two(k[1:])] = need(parseAns(v), 2, k)
			case 'W':
				sc.await[u64(k[1:])] = need(parseAns(v), 1, k)
			case 'X':
				var a *ans
				if v == "n" || strings.HasPrefix(v, "e") {
					a = parseAns(v)
				} else {
					f := strings.Split(v, ".")
					if len(f) != 3 || !strings.Contains("lymro", f[0]) || len(f[0]) != 1 {
						panic(opError("bad aggsigdb answer " + v))
					}
					a = &ans{kind: "d", sk: f[0], f: []uint64{u64(f[1]), u64(f[2])}}
					if f[0] == "l" || f[0] == "y" {
						// the number the selection is judged by is a function of the proof: always the real one
						a.f[1] = hash8(a.f[0])
						sc.raw[k] = fmt.Sprintf("%s.%d.%d", f[0], a.f[0], a.f[1])
					}
				}
				kk := strings.Split(k[1:], ".")
				if len(kk) != 3 || !strings.Contains("arsm", kk[0]) || len(kk[0]) != 1 {
					panic(opError("bad aggsigdb key " + k))
				}
				u64(kk[1])
				u64(kk[2])
				sc.sig[k[1:]] = a
			default:
				panic(opError("bad env key " + k))
			}
		}
	}
	if over != "-" && over != "" {
		for _, kv := range strings.Split(over, ",") {
			p := strings.SplitN(kv, ":", 2)
			if len(p) != 2 {
				panic(opError("bad override " + kv))
			}
			a := parseAns(p[1])
			if a.kind == "d" {
				panic(opError("bad override " + kv))
			}
			sc.over[int(u64(p[0]))] = a
		}
	}
	if se != "-" && se != "" {
		for _, kv := range strings.Split(se, ",") {
			p := strings.SplitN(kv, ":", 2)
			if len(p) != 2 {
				panic(opError("bad subscriber error " + kv))
			}
			sc.subErr[int(u64(p[0]))] = u64(p[1])
		}
	}
	return sc
}

func (sc *script) envText() string {
	if len(sc.order) == 0 {
		return "-"
	}
	p := make([]string, len(sc.order))
	for i, k := range sc.order {
		p[i] = k + "=" + sc.raw[k]
	}
	return strings.Join(p, ";")
}

func field(f []string, pfx string) string {
	for _, x := range f {
		if strings.HasPrefix(x, pfx) {
			return x[len(pfx):]
		}
	}
	panic(opError("missing field " + pfx))
}

// ---------------------------------------------------------------- episode

type delivery struct {
	sub    int
	canon  string
	set    core.UnsignedDataSet
	snap   core.UnsignedDataSet // private copy taken before the subscriber could scribble
	locs   []loc
	honest bool
	op     int
}

type episode struct {
	n        int
	hostile  []bool
	electra  uint64
	only0    bool
	builder  bool
	graffiti map[uint64]uint64
	v2       string

	t    *tables
	w    *world
	f    *fetcher.Fetcher
	run  *hx.Run
	opNo int

	cur      []delivery // deliveries of the running op
	kept     []delivery // earlier deliveries (bounded)
	subErr   map[int]uint64
	defSets  []core.DutyDefinitionSet // every definition set handed to the fetcher
	inFonly  bool
	fonlySub bool

	// the driver's own bookkeeping of the early-fetch cache (independent of the model)
	early map[uint64]earlyInfo
}

type earlyInfo struct {
	pks     map[uint64]bool
	scribed bool
}

func (e *episode) viol(sig, descr string) { e.run.Violate(sig, descr) }

func newEpisode(run *hx.Run, f []string) *episode {
	e := &episode{run: run, graffiti: map[uint64]uint64{}, early: map[uint64]earlyInfo{}, subErr: map[int]uint64{}}
	e.n = int(u64(field(f, "n=")))
	if e.n > 8 {
		panic(opError("too many subscribers"))
	}
	e.hostile = make([]bool, e.n)
	if h := field(f, "h="); h != "-" {
		for i, c := range h {
			if i < e.n && c == '1' {
				e.hostile[i] = true
			}
		}
	}
	e.electra = u64(field(f, "e="))
	e.only0 = field(f, "o0=") == "1"
	e.builder = field(f, "b=") == "1"
	e.v2 = field(f, "v2=")
	e.t = newTables()
	e.w = &world{t: e.t, viol: e.viol}
	e.t.graf[defaultGraffitiBytes()] = 0
	var gpks []core.PubKey
	var gstr []string
	if g := field(f, "g="); g != "-" {
		for _, kv := range strings.Split(g, "+") {
			p := strings.SplitN(kv, ":", 2)
			if len(p) != 2 {
				panic(opError("bad graffiti " + kv))
			}
			pk, gid := u64(p[0]), u64(p[1])
			if _, dup := e.graffiti[pk]; dup || gid == 0 {
				panic(opError("bad graffiti " + kv))
			}
			e.graffiti[pk] = gid
			gpks = append(gpks, e.t.pkOf(pk))
			gstr = append(gstr, customGraffiti(gid))
			e.t.graf[customGraffitiBytes(gid)] = gid
		}
	}
	cl := client{w: e.w}
	var gb *fetcher.GraffitiBuilder
	var err error
	if len(gpks) == 0 {
		gb, err = fetcher.NewGraffitiBuilder(nil, nil, false, cl)
	} else {
		if len(gstr) == 1 {
			gstr = append(gstr, gstr[0]) // a single graffiti would be applied to all listed pubkeys: same thing, keep the general path
			gpks = append(gpks, e.t.pkOf(900000))
		}
		gb, err = fetcher.NewGraffitiBuilder(gpks, gstr, false, cl)
	}
	hx.Must(err)
	e.f, err = fetcher.New(cl, e.w.feeRecipient, e.builder, gb, eth2p0.Slot(e.electra), e.only0)
	hx.Must(err)
	e.f.RegisterAggSigDB(e.w.aggSigDB)
	e.f.RegisterAwaitAttData(e.w.awaitAttData)
	switch e.v2 {
	case "n":
	case "0":
		e.f.RegisterSyncContributionV2(func(uint64) bool { return false })
	case "1":
		e.f.RegisterSyncContributionV2(func(uint64) bool { return true })
	case "p":
		e.f.RegisterSyncContributionV2(func(s uint64) bool { return s%2 == 1 })
	default:
		panic(opError("bad v2 " + e.v2))
	}
	for i := 0; i < e.n; i++ {
		i := i
		e.f.Subscribe(func(_ context.Context, _ core.Duty, set core.UnsignedDataSet) error {
			return e.subscriber(i, set)
		})
	}
	return e
}

func (e *episode) subscriber(i int, set core.UnsignedDataSet) error {
	if e.inFonly {
		e.fonlySub = true
	}
	d := delivery{sub: i, canon: e.canonSet(set), set: set, locs: locations([]any{set}), honest: !e.hostile[i], op: e.opNo}
	d.snap = deepCopy(newCopier(), set).(core.UnsignedDataSet)
	e.cur = append(e.cur, d)
	if e.hostile[i] {
		hx.Scribble(set)
	}
	if id, ok := e.subErr[i]; ok {
		return fmt.Errorf("sub-error-%d", id)
	}
	return nil
}

// ---------------------------------------------------------------- canonical values

func (e *episode) canonVal(v core.UnsignedData) string {
	switch x := v.(type) {
	case core.AttestationData:
		return fmt.Sprintf("%s/%s/%d.%d.%d", e.t.attName(&x.Data), e.t.rootName(x.Data.BeaconBlockRoot),
			uint64(x.Duty.CommitteeIndex), x.Duty.CommitteeLength, uint64(x.Duty.ValidatorIndex))
	case core.VersionedAggregatedAttestation:
		return e.t.aggName(&x.VersionedAttestation)
	case core.VersionedProposal:
		return e.t.propName(&x.VersionedProposal)
	case core.SyncContribution:
		return e.t.conName(&x.SyncCommitteeContribution)
	case core.SyncContributions:
		p := make([]string, len(x))
		for i := range x {
			p[i] = e.t.conName(&x[i].SyncCommitteeContribution)
		}
		return "[" + strings.Join(p, "+") + "]"
	}
	return fmt.Sprintf("?%T", v)
}

func (e *episode) canonSet(set core.UnsignedDataSet) string {
	type kv struct {
		pk uint64
		s  string
	}
	var es []kv
	for pk, v := range set {
		n, ok := e.t.pk[pk]
		if !ok {
			n = 999999
		}
		es = append(es, kv{n, e.canonVal(v)})
	}
	sort.Slice(es, func(i, j int) bool { return es[i].pk < es[j].pk })
	p := make([]string, len(es))
	for i, x := range es {
		p[i] = fmt.Sprintf("%d=%s", x.pk, x.s)
	}
	return "{" + strings.Join(p, ",") + "}"
}

var (
	reScripted = regexp.MustCompile(`scripted-error-(\d+)`)
	reSub      = regexp.MustCompile(`sub-error-(\d+)`)
)

func errClass(err error) string {
	if err == nil {
		return "ok"
	}
	m := err.Error()
	if x := reScripted.FindStringSubmatch(m); x != nil {
		return "err:bn" + x[1]
	}
	if x := reSub.FindStringSubmatch(m); x != nil {
		return "err:sub" + x[1]
	}
	table := []struct{ sub, class string }{
		{"unsupported duty", "unsupported"},
		{"deprecated duty DutyBuilderProposer", "deprecated"},
		{"invalid attester definition", "invalidAttDef"},
		{"invalid sync committee duty definition", "invalidSyncDef"},
		{"attestation data is nil", "attNil"},
		{"invalid beacon committee selection", "invalidSel"},
		{"aggregate attestation not found by root", "aggNotFound"},
		{"invalid sync committee selection", "invalidSyncSel"},
		{"invalid sync committee message", "invalidSyncMsg"},
		{"sync committee contribution not found by root", "contribNotFound"},
		{"new proposal", "badProposal"},
		{"invalid TARGET_AGGREGATORS_PER_COMMITTEE", "spec0"},
		{"invalid SYNC_COMMITTEE_SIZE", "spec1"},
		{"invalid SYNC_COMMITTEE_SUBNET_COUNT", "spec2"},
		{"invalid sync subcommittee size", "spec3"},
		{"invalid TARGET_AGGREGATORS_PER_SYNC_SUBCOMMITTEE", "spec4"},
		{"clone ", "cloneFail"},
		{"marshal data", "cloneFail"},
	}
	for _, t := range table {
		if strings.Contains(m, t.sub) {
			return "err:" + t.class
		}
	}
	return "err:other:" + strings.Map(func(r rune) rune {
		if r == ' ' || r == '\n' || r == '|' {
			return '_'
		}
		return r
	}, m)
}

// cacheSlots reads the keys of the fetcher's early-fetch cache (unexported sync.Map) — read only.
func (e *episode) cacheSlots() string {
	fv := reflect.ValueOf(e.f).Elem().FieldByName("attDataCache")
	if !fv.IsValid() {
		return "?"
	}
	m := (*sync.Map)(unsafe.Pointer(fv.UnsafeAddr()))
	var slots []uint64
	m.Range(func(k, _ any) bool {
		if s, ok := k.(uint64); ok {
			slots = append(slots, s)
		}
		return true
	})
	if len(slots) == 0 {
		return "-"
	}
	sort.Slice(slots, func(i, j int) bool { return slots[i] < slots[j] })
	p := make([]string, len(slots))
	for i, s := range slots {
		p[i] = u(s)
	}
	return strings.Join(p, ",")
}

// ---------------------------------------------------------------- building the inputs

func (e *episode) buildDefSet(defs []defn, slot uint64) core.DutyDefinitionSet {
	set := core.DutyDefinitionSet{}
	for _, d := range defs {
		pk := e.t.pkOf(d.pk)
		switch d.kind {
		case "a":
			set[pk] = core.NewAttesterDefinition(&eth2v1.AttesterDuty{PubKey: pkBytes(d.pk), Slot: eth2p0.Slot(slot),
				ValidatorIndex: eth2p0.ValidatorIndex(d.f[2]), CommitteeIndex: eth2p0.CommitteeIndex(d.f[0]), CommitteeLength: d.f[1],
				CommitteesAtSlot: 64, ValidatorCommitteeIndex: d.pk % 7})
		case "p":
			set[pk] = core.NewProposerDefinition(&eth2v1.ProposerDuty{PubKey: pkBytes(d.pk), Slot: eth2p0.Slot(slot), ValidatorIndex: eth2p0.ValidatorIndex(d.f[0])})
		case "s":
			idx := make([]eth2p0.CommitteeIndex, len(d.idxs))
			for i, x := range d.idxs {
				idx[i] = eth2p0.CommitteeIndex(x)
			}
			set[pk] = core.NewSyncCommitteeDefinition(&eth2v1.SyncCommitteeDuty{PubKey: pkBytes(d.pk), ValidatorIndex: eth2p0.ValidatorIndex(d.f[0]), ValidatorSyncCommitteeIndices: idx})
		}
	}
	return set
}

func defsText(defs []defn) string {
	if len(defs) == 0 {
		return "-"
	}
	p := make([]string, len(defs))
	for i, d := range defs {
		switch d.kind {
		case "a":
			p[i] = fmt.Sprintf("%d:a.%d.%d.%d", d.pk, d.f[0], d.f[1], d.f[2])
		case "p":
			p[i] = fmt.Sprintf("%d:p.%d", d.pk, d.f[0])
		default:
			xs := make([]string, len(d.idxs))
			for j, x := range d.idxs {
				xs[j] = u(x)
			}
			p[i] = fmt.Sprintf("%d:s.%d.%s", d.pk, d.f[0], strings.Join(xs, "+"))
		}
	}
	return strings.Join(p, ",")
}

func (e *episode) effCi(slot, ci uint64) uint64 {
	if slot >= e.electra && e.only0 {
		return 0
	}
	return ci
}

// observedOrder derives the order in which the code visited the definition set from the calls it made.
func (e *episode) observedOrder(ty core.DutyType, fonly bool, slot uint64, defs []defn) string {
	if len(defs) == 0 {
		return "-"
	}
	seen := map[uint64]bool{}
	var order []uint64
	add := func(pk uint64) {
		if !seen[pk] {
			seen[pk] = true
			order = append(order, pk)
		}
	}
	sorted := append([]defn(nil), defs...)
	sort.Slice(sorted, func(i, j int) bool { return sorted[i].pk < sorted[j].pk })
	for _, l := range e.w.log {
		switch l.kind {
		case "at":
			if ty == core.DutyAttester {
				f := strings.Split(l.text[2:], ".")
				ci := u64(f[2])
				for _, d := range sorted {
					if d.kind == "a" && e.effCi(slot, d.f[0]) == ci {
						add(d.pk)
					}
				}
			}
		case "x":
			f := strings.Split(l.text[1:], ".")
			if f[2] != "?" {
				add(u64(f[2]))
			}
		}
	}
	valid := func(d defn) bool {
		switch ty {
		case core.DutyAttester, core.DutyAggregator:
			return d.kind == "a"
		case core.DutySyncContribution:
			return d.kind == "s"
		}
		return true
	}
	for _, d := range sorted {
		if !valid(d) {
			add(d.pk)
		}
	}
	for _, d := range sorted {
		add(d.pk)
	}
	p := make([]string, len(order))
	for i, x := range order {
		p[i] = u(x)
	}
	return strings.Join(p, ",")
}

// ---------------------------------------------------------------- executing Fetch / FetchOnly

func dutyTypeOf(s string) core.DutyType { return core.DutyType(int(u64(s))) }

func (e *episode) doFetch(f []string, fonly bool) (string, string) {
	ty := dutyTypeOf(f[1])
	slot := u64(f[2])
	var addr, head uint64
	if fonly {
		addr, head = u64(f[3]), u64(f[4])
	}
	defs := parseDefs(field(f, "D="))
	seenPk := map[uint64]bool{}
	for _, d := range defs {
		if seenPk[d.pk] {
			panic(opError("a definition set is a map: pubkey twice"))
		}
		seenPk[d.pk] = true
	}
	se := "-"
	if !fonly {
		se = field(f, "SE=")
	}
	sc := parseScript(field(f, "E="), field(f, "O="), se)
	e.subErr = sc.subErr
	defSet := e.buildDefSet(defs, slot)
	defBefore := hashDefSet(defSet)
	e.defSets = append(e.defSets, defSet)
	e.w.begin(slot, sc)
	e.cur = nil
	e.inFonly, e.fonlySub = fonly, false

	duty := core.Duty{Slot: slot, Type: ty}
	var err error
	panicked := ""
	func() {
		defer func() {
			if r := recover(); r != nil {
				if oe, mine := r.(opError); mine {
					panic(oe)
				}
				buf := make([]byte, 2048)
				buf = buf[:runtime.Stack(buf, false)]
				panicked = fmt.Sprintf("%v | %s", r, strings.ReplaceAll(string(buf), "\n", " "))
			}
		}()
		if fonly {
			err = e.f.FetchOnly(context.Background(), duty, defSet, "http://bn-"+u(addr), e.t.rootOf(head))
		} else {
			err = e.f.Fetch(context.Background(), duty, defSet)
		}
	}()
	e.inFonly = false
	res := errClass(err)
	if panicked != "" {
		res = "panic"
		e.run.Count("observed:panic:" + panicClass(panicked))
	}
	e.run.Count("res:" + f[0] + ":" + f[1] + ":" + strings.SplitN(strings.TrimPrefix(res, "err:"), ":", 2)[0])
	cls := strings.TrimPrefix(res, "err:")
	if strings.HasPrefix(cls, "bn") || strings.HasPrefix(cls, "sub") {
		cls = cls[:2]
	}
	nl := len(e.w.log)
	if nl > 6 {
		nl = 6
	}
	e.run.Case(fmt.Sprintf("%s:%s:%s:subs=%d:deliv=%d:calls=%d:defs=%d:early=%v", f[0], f[1], cls, e.n, len(e.cur), nl, len(defs), len(e.early) > 0))

	e.monitors(ty, fonly, slot, addr, head, defs, defSet, defBefore, sc, res)

	ds := "-"
	if len(e.cur) > 0 {
		p := make([]string, len(e.cur))
		for i, d := range e.cur {
			p[i] = fmt.Sprintf("S%d%s", d.sub, d.canon)
		}
		ds = strings.Join(p, ";")
	}
	ord := e.observedOrder(ty, fonly, slot, defs)
	var op string
	if fonly {
		op = fmt.Sprintf("fonly %s %d %d %d D=%s E=%s O=%s ord=%s", f[1], slot, addr, head, defsText(defs), sc.envText(), field(f, "O="), ord)
	} else {
		op = fmt.Sprintf("fetch %s %d D=%s E=%s O=%s SE=%s ord=%s", f[1], slot, defsText(defs), sc.envText(), field(f, "O="), se, ord)
	}
	out := fmt.Sprintf("%s L=%s D=%s cache=%s", res, e.w.logText(), ds, e.cacheSlots())
	e.kept = append(e.kept, e.cur...)
	if len(e.kept) > 40 {
		e.kept = e.kept[len(e.kept)-40:]
	}
	return op, out
}

func panicClass(p string) string {
	switch {
	case strings.Contains(p, "nil pointer"):
		return "nil_dereference"
	case strings.Contains(p, "divide by zero"):
		return "divide_by_zero"
	}
	return "other"
}

func hashDefSet(s core.DutyDefinitionSet) string {
	type kv struct{ k, v string }
	var es []kv
	for pk, d := range s {
		es = append(es, kv{string(pk), hashJSON(d)})
	}
	sort.Slice(es, func(i, j int) bool { return es[i].k < es[j].k })
	return fmt.Sprint(es)
}

// ---------------------------------------------------------------- monitors (independent of the model)

func (e *episode) monitors(ty core.DutyType, fonly bool, slot, addr, head uint64, defs []defn, defSet core.DutyDefinitionSet,
	defBefore string, sc *script, res string) {
	w := e.w
	n := len(e.cur)
	isSubErr := strings.HasPrefix(res, "err:sub")
	// ---- (1) what is handed over
	if fonly && e.fonlySub {
		e.viol("fetcher:fetchonly_called_subscriber", "FetchOnly called a subscriber")
	}
	if !fonly {
		for i, d := range e.cur {
			if d.sub != i {
				e.viol("fetcher:subscriber_called_twice_or_out_of_order", fmt.Sprintf("call %d of the fan-out went to subscriber %d", i, d.sub))
				break
			}
		}
		switch {
		case res == "ok":
			if n != e.n && !(n == 0 && (ty == core.DutyAggregator || ty == core.DutySyncContribution)) {
				e.viol("fetcher:subscriber_skipped", fmt.Sprintf("Fetch returned nil after calling %d of %d subscribers", n, e.n))
			}
			for _, d := range e.cur {
				if _, failing := e.subErr[d.sub]; failing {
					e.viol("fetcher:subscriber_error_swallowed", fmt.Sprintf("subscriber %d returned an error but Fetch returned nil", d.sub))
					break
				}
			}
			if n > 0 && len(e.cur[0].snap) == 0 && (ty == core.DutyAggregator || ty == core.DutySyncContribution) {
				e.viol("fetcher:empty_set_delivered", fmt.Sprintf("duty type %d: subscribers were called with an empty set", ty))
			}
			if n == 0 && e.n > 0 && w.dataGiven > 0 {
				e.viol("fetcher:fetched_data_not_delivered", "Fetch returned nil without calling a subscriber although the beacon node had answered with data")
			}
		case isSubErr:
			if n == 0 {
				e.viol("fetcher:subscriber_error_without_call", "Fetch returned a subscriber's error but no subscriber was called")
			} else if _, failing := e.subErr[e.cur[n-1].sub]; !failing {
				e.viol("fetcher:called_after_subscriber_error", "a subscriber was called after an earlier subscriber had returned an error")
			}
		case res == "err:cloneFail" || res == "panic":
			if res == "err:cloneFail" && n != 0 {
				e.viol("fetcher:subscriber_called_on_error", "Clone failed but a subscriber had been called")
			}
		default:
			if n != 0 {
				e.viol("fetcher:subscriber_called_on_error", fmt.Sprintf("Fetch returned %s but %d subscribers were called", res, n))
			}
		}
	}
	// every delivery of one Fetch carries the same content
	for i := 1; i < n; i++ {
		if e.cur[i].canon != e.cur[0].canon {
			e.viol("fetcher:subscribers_got_different_sets", fmt.Sprintf("subscriber %d got %s, subscriber %d got %s", e.cur[0].sub, e.cur[0].canon, e.cur[i].sub, e.cur[i].canon))
			break
		}
	}
	defPk := map[uint64]defn{}
	for _, d := range defs {
		defPk[d.pk] = d
	}
	fromCache := false
	// the driver's own view of the early-fetch cache
	if !fonly && ty == core.DutyAttester {
		info, cached := e.early[slot]
		askedNobody := len(w.log) == 0
		if cached {
			if !askedNobody {
				e.viol("fetcher:early_fetch_not_used", fmt.Sprintf("Fetch(attester, slot %d) asked the beacon node although a verified early fetch was pending", slot))
			}
			defPk = map[uint64]defn{}
			for pk := range info.pks {
				defPk[pk] = defn{pk: pk, kind: "a"}
			}
			delete(e.early, slot)
			fromCache = true
		} else if askedNobody && len(defs) > 0 && n > 0 {
			e.viol("fetcher:served_from_cache_unexpectedly", fmt.Sprintf("Fetch(attester, slot %d) asked nobody although no verified early fetch for that slot is pending", slot))
			fromCache = true
		}
	}
	if n > 0 {
		set := e.cur[0].snap
		got := map[uint64]core.UnsignedData{}
		for pk, v := range set {
			id, ok := e.t.pk[pk]
			if !ok || func() bool { _, in := defPk[id]; return !in }() {
				e.viol("fetcher:key_outside_definition_set", fmt.Sprintf("a subscriber was handed data for pubkey %s which is not in the definition set", e.t.pkName(pk)))
				continue
			}
			got[id] = v
		}
		switch ty {
		case core.DutyAttester, core.DutyProposer:
			for pk := range defPk {
				if _, ok := got[pk]; !ok {
					e.viol("fetcher:validator_missing", fmt.Sprintf("validator %d of the definition set is missing from the set handed to subscribers (duty type %d)", pk, ty))
				}
			}
		}
		if !fromCache {
			e.checkContent(ty, slot, defs, got, sc)
		}
	}
	// ---- (2) de-duplication of beacon node queries
	for k, c := range w.attAsked {
		if c > 1 {
			e.viol("fetcher:duplicate_bn_query", fmt.Sprintf("AttestationData asked %d times for committee %d in one call", c, k[1]))
		}
	}
	for k, c := range w.aggAsked {
		if c > 1 {
			e.viol("fetcher:duplicate_bn_query", fmt.Sprintf("AggregateAttestation asked %d times for %s in one call", c, k))
		}
	}
	for k, c := range w.conAsked {
		if c > 1 {
			e.viol("fetcher:duplicate_bn_query", fmt.Sprintf("SyncCommitteeContribution asked %d times for %s in one call", c, k))
		}
	}
	if ty == core.DutyAttester {
		want := map[uint64]bool{}
		for _, d := range defs {
			if d.kind == "a" {
				want[e.effCi(slot, d.f[0])] = true
			}
		}
		wantAddr := uint64(0)
		if fonly {
			wantAddr = addr
		}
		for k := range w.attAsked {
			if !want[k[1]] {
				e.viol("fetcher:wrong_committee_index_queried", fmt.Sprintf("AttestationData asked for committee %d; the definitions need %v (electra slot %d, fetchOnlyCommIdx0 %v, slot %d)", k[1], keysOf(want), e.electra, e.only0, slot))
			}
			if k[0] != wantAddr {
				e.viol("fetcher:wrong_client_scope", fmt.Sprintf("AttestationData went to client scope %d, expected %d", k[0], wantAddr))
			}
		}
	}
	// proposal options
	for i, l := range w.log {
		if l.kind != "pr" {
			continue
		}
		f := strings.Split(l.text[2:], ".")
		wantB := "0"
		if e.builder {
			wantB = "1"
		}
		if f[3] != wantB {
			e.viol("fetcher:builder_boost_factor_wrong", fmt.Sprintf("Proposal asked with builder boost factor class %s, builderEnabled = %v", f[3], e.builder))
		}
		if i == 0 || w.log[i-1].kind != "x" {
			e.viol("fetcher:randao_not_from_aggsigdb", "Proposal asked without a preceding aggsigdb query")
			continue
		}
		pf := strings.Split(w.log[i-1].text[1:], ".")
		if pf[2] != "?" {
			pk := u64(pf[2])
			if f[2] != u(e.graffiti[pk]) {
				e.viol("fetcher:graffiti_wrong", fmt.Sprintf("Proposal for validator %d asked with graffiti %s, configured %d", pk, f[2], e.graffiti[pk]))
			}
			if a := sc.sig["r."+pf[2]+".0"]; a != nil && a.kind == "d" && sc.over[i-1] == nil && f[1] != u(a.f[0]) {
				e.viol("fetcher:randao_not_from_aggsigdb", fmt.Sprintf("Proposal for validator %d asked with randao reveal %s, the aggsigdb answered signature %d", pk, f[1], a.f[0]))
			}
		}
	}
	// ---- (3) isolation
	if sig, d := e.aliasCheck(defSet); sig != "" {
		e.viol(sig, d)
	}
	if h := hashDefSet(defSet); h != defBefore {
		e.viol("fetcher:input_definition_set_mutated", "the definition set handed to the fetcher was changed by the call")
	}
	// early-fetch bookkeeping (what a correct FetchOnly caches: all or nothing, verified against head)
	if fonly {
		for s := range e.early {
			if s < slot && ty == core.DutyAttester {
				delete(e.early, s)
			}
		}
		if res == "ok" && ty == core.DutyAttester {
			all := true
			for _, d := range defs {
				a := sc.att[[2]uint64{addr, e.effCi(slot, d.f[0])}]
				if a == nil || a.kind != "d" || a.f[1] != head {
					all = false
				}
			}
			if all {
				pks := map[uint64]bool{}
				for _, d := range defs {
					pks[d.pk] = true
				}
				e.early[slot] = earlyInfo{pks: pks}
			}
			// otherwise nothing is stored — and an entry an earlier FetchOnly stored for the same slot stays
		}
	}
	// what the cache holds must be what the bookkeeping says
	var want []string
	var slots []uint64
	for s := range e.early {
		slots = append(slots, s)
	}
	sort.Slice(slots, func(i, j int) bool { return slots[i] < slots[j] })
	for _, s := range slots {
		want = append(want, u(s))
	}
	ws := "-"
	if len(want) > 0 {
		ws = strings.Join(want, ",")
	}
	if got := e.cacheSlots(); got != ws && got != "?" {
		e.viol("fetcher:early_cache_content_wrong", fmt.Sprintf("the early-fetch cache holds slots %s, expected %s (only complete sets that vote for the head event's root, older slots evicted, consumed by Fetch)", got, ws))
	}
	// content handed out from the cache
	if fromCache && n > 0 {
		for _, v := range e.cur[0].snap {
			c := e.canonVal(v)
			switch {
			case strings.Contains(c, "~"):
				e.viol("fetcher:early_cache_shares_bn_response", "attestation data served from the early-fetch cache carries what the beacon node wrote into its response object after FetchOnly had returned: "+c)
				e.run.Count("observed:early_cache_shares_bn_response")
			case strings.Contains(c, "?"):
				e.viol("fetcher:delivered_content_unknown", "attestation data served from the early-fetch cache is nothing the beacon node answered: "+c)
			}
		}
	}
}

func keysOf(m map[uint64]bool) []uint64 {
	var k []uint64
	for x := range m {
		k = append(k, x)
	}
	sort.Slice(k, func(i, j int) bool { return k[i] < k[j] })
	return k
}

// checkContent: the set handed out (no call failed, or Fetch would not have got this far) against the scripted answers.
func (e *episode) checkContent(ty core.DutyType, slot uint64, defs []defn, got map[uint64]core.UnsignedData, sc *script) {
	specOK := sc.spec != nil && sc.spec.kind == "d"
	specProvider := client{w: &world{t: e.t, sc: &script{spec: sc.spec}, viol: func(string, string) {}}}
	switch ty {
	case core.DutyAttester:
		byCi := map[uint64]string{}
		for _, d := range defs {
			v, ok := got[d.pk]
			if !ok || d.kind != "a" {
				continue
			}
			x, isAtt := v.(core.AttestationData)
			if !isAtt {
				e.viol("fetcher:wrong_value_type", fmt.Sprintf("attester duty: validator %d got a %T", d.pk, v))
				continue
			}
			ci := e.effCi(slot, d.f[0])
			name := e.t.attName(&x.Data)
			if a := sc.att[[2]uint64{0, ci}]; a != nil && a.kind == "d" && name != "a"+u(a.f[0]) {
				e.viol("fetcher:delivered_data_not_bn_answer", fmt.Sprintf("validator %d (committee %d, asked as %d) was handed %s, the beacon node answered a%d", d.pk, d.f[0], ci, name, a.f[0]))
			}
			if prev, ok := byCi[ci]; ok && prev != name {
				e.viol("fetcher:same_committee_different_data", fmt.Sprintf("two validators of committee %d were handed different attestation data (%s, %s)", ci, prev, name))
			}
			byCi[ci] = name
			if uint64(x.Duty.CommitteeIndex) != d.f[0] || x.Duty.CommitteeLength != d.f[1] || uint64(x.Duty.ValidatorIndex) != d.f[2] || x.Duty.PubKey != pkBytes(d.pk) || uint64(x.Duty.Slot) != slot {
				e.viol("fetcher:duty_not_from_definition", fmt.Sprintf("validator %d: the attester duty handed out is not the one of its definition", d.pk))
			}
		}
	case core.DutyAggregator:
		if !specOK {
			return
		}
		byCi := map[uint64]string{}
		for _, d := range defs {
			if d.kind != "a" {
				continue
			}
			a := sc.sig[fmt.Sprintf("a.%d.0", d.pk)]
			if a == nil || a.kind != "d" || a.sk != "l" {
				continue
			}
			sel, err := eth2exp.IsAttAggregator(context.Background(), specProvider, d.f[1], sigBytes(a.f[0]))
			if err != nil {
				continue
			}
			v, ok := got[d.pk]
			switch {
			case sel && !ok:
				e.viol("fetcher:aggregator_missing", fmt.Sprintf("validator %d is an aggregator by its selection proof but is missing from the set handed out", d.pk))
			case !sel && ok:
				e.viol("fetcher:non_aggregator_delivered", fmt.Sprintf("validator %d is not an aggregator by its selection proof but was handed an aggregate", d.pk))
			}
			if !ok {
				continue
			}
			x, isAgg := v.(core.VersionedAggregatedAttestation)
			if !isAgg {
				e.viol("fetcher:wrong_value_type", fmt.Sprintf("aggregator duty: validator %d got a %T", d.pk, v))
				continue
			}
			name := e.t.aggName(&x.VersionedAttestation)
			if prev, ok := byCi[d.f[0]]; ok && prev != name {
				e.viol("fetcher:same_committee_different_data", fmt.Sprintf("two aggregators of committee %d were handed different aggregates (%s, %s)", d.f[0], prev, name))
			}
			byCi[d.f[0]] = name
			if aw := sc.await[d.f[0]]; aw != nil && aw.kind == "d" {
				if ga := sc.agg[[2]uint64{aw.f[0], d.f[0]}]; ga != nil && ga.kind == "d" {
					if name != "g"+u(ga.f[0]) {
						e.viol("fetcher:delivered_data_not_bn_answer", fmt.Sprintf("aggregator %d (committee %d) was handed %s, the beacon node answered g%d for the decided root", d.pk, d.f[0], name, ga.f[0]))
					}
					if ga.f[1] == aw.f[0] && ga.f[2] == 0 {
						// an honest node: the aggregate is over the data whose root was asked for
						if r, ok := aggDataRoot(&x.VersionedAttestation); !ok || e.t.droot[r] != aw.f[0] {
							e.viol("fetcher:aggregate_not_for_decided_data", fmt.Sprintf("aggregator %d: the aggregate handed out is not over the attestation data the duty store returned", d.pk))
						}
					}
				}
			}
		}
	case core.DutyProposer:
		for _, d := range defs {
			v, ok := got[d.pk]
			if !ok {
				continue
			}
			x, isProp := v.(core.VersionedProposal)
			if !isProp {
				e.viol("fetcher:wrong_value_type", fmt.Sprintf("proposer duty: validator %d got a %T", d.pk, v))
				continue
			}
			if sc.prop != nil && sc.prop.kind == "d" {
				if name := e.t.propName(&x.VersionedProposal); name != "p"+u(sc.prop.f[0]) {
					e.viol("fetcher:delivered_data_not_bn_answer", fmt.Sprintf("proposer %d was handed %s, the beacon node answered p%d", d.pk, name, sc.prop.f[0]))
				}
			}
		}
	case core.DutySyncContribution:
		if !specOK || sc.spec.spec[1] == "x" || sc.spec.spec[2] == "x" || u64(sc.spec.spec[2]) == 0 {
			return
		}
		size := u64(sc.spec.spec[1]) / u64(sc.spec.spec[2])
		if size == 0 {
			return
		}
		v2 := e.v2 == "1" || (e.v2 == "p" && slot%2 == 1)
		for _, d := range defs {
			if d.kind != "s" {
				continue
			}
			subSet := map[uint64]bool{}
			for _, i := range d.idxs {
				subSet[i/size] = true
			}
			var want []string
			known := true
			for _, sub := range keysOf(subSet) {
				a := sc.sig[fmt.Sprintf("s.%d.%d", d.pk, sub)]
				if a == nil || a.kind != "d" || a.sk != "y" {
					known = false
					break
				}
				sel, err := eth2exp.IsSyncCommAggregator(context.Background(), specProvider, sigBytes(a.f[0]))
				if err != nil {
					known = false
					break
				}
				if !sel {
					continue
				}
				m := sc.sig[fmt.Sprintf("m.%d.0", d.pk)]
				if m == nil || m.kind != "d" || m.sk != "m" {
					known = false
					break
				}
				c := sc.con[[2]uint64{sub, m.f[1]}]
				if c == nil || c.kind != "d" {
					known = false
					break
				}
				want = append(want, "c"+u(c.f[0]))
				if !v2 {
					break
				}
			}
			if !known {
				continue
			}
			v, ok := got[d.pk]
			if len(want) == 0 {
				if ok {
					e.viol("fetcher:non_aggregator_delivered", fmt.Sprintf("validator %d aggregates no sync subcommittee but was handed %s", d.pk, e.canonVal(v)))
				}
				continue
			}
			if !ok {
				e.viol("fetcher:aggregator_missing", fmt.Sprintf("validator %d aggregates sync subcommittees (%v) but is missing from the set handed out", d.pk, want))
				continue
			}
			exp := want[0]
			if v2 {
				exp = "[" + strings.Join(want, "+") + "]"
			}
			if c := e.canonVal(v); c != exp {
				e.viol("fetcher:sync_wrong_contributions", fmt.Sprintf("validator %d was handed %s, expected %s (plural encoding %v)", d.pk, c, exp, v2))
			}
		}
	}
}

// aliasCheck: no two holders share memory — the sets handed to subscribers among each other (this op and earlier
// ones), with the beacon node's response objects, with what the aggsigdb / dutydb functions returned, with the
// definition set; and no two entries of one set.
func (e *episode) aliasCheck(defSet core.DutyDefinitionSet) (string, string) {
	if len(e.cur) == 0 {
		return "", ""
	}
	var bnLocs, dbLocs []loc
	for _, b := range e.w.bnObjs {
		bnLocs = append(bnLocs, locations([]any{b.obj})...)
	}
	dbLocs = locations(e.w.dbObjs)
	var defLocs []loc
	for _, s := range e.defSets {
		defLocs = append(defLocs, locations([]any{s})...)
	}
	for i, d := range e.cur {
		for j := 0; j < i; j++ {
			if a, _ := overlap(d.locs, e.cur[j].locs); a >= 0 {
				return "fetcher:subscribers_share_memory", fmt.Sprintf("subscribers %d and %d were handed values that share memory at %s", e.cur[j].sub, d.sub, d.locs[a].path)
			}
		}
		for _, k := range e.kept {
			if a, _ := overlap(d.locs, k.locs); a >= 0 {
				return "fetcher:subscribers_share_memory", fmt.Sprintf("subscriber %d was handed a value that shares memory with what subscriber %d was handed in an earlier call, at %s", d.sub, k.sub, d.locs[a].path)
			}
		}
		if a, _ := overlap(d.locs, bnLocs); a >= 0 {
			return "fetcher:subscriber_shares_bn_response", fmt.Sprintf("subscriber %d was handed a value that shares memory with a response object of the beacon node at %s", d.sub, d.locs[a].path)
		}
		if a, _ := overlap(d.locs, dbLocs); a >= 0 {
			return "fetcher:subscriber_shares_store_value", fmt.Sprintf("subscriber %d was handed a value that shares memory with a value returned by the aggsigdb / dutydb function at %s", d.sub, d.locs[a].path)
		}
		if a, _ := overlap(d.locs, defLocs); a >= 0 {
			return "fetcher:subscriber_shares_definition_set", fmt.Sprintf("subscriber %d was handed a value that shares memory with a definition set at %s", d.sub, d.locs[a].path)
		}
		var prev []loc
		for _, v := range d.set {
			l := locations([]any{v})
			if a, _ := overlap(l, prev); a >= 0 {
				return "fetcher:entries_share_memory", fmt.Sprintf("two entries of the set handed to subscriber %d share memory at %s", d.sub, l[a].path)
			}
			prev = append(prev, l...)
		}
	}
	return "", ""
}

// stability: what an honest subscriber keeps never changes, whatever anybody else does later.
func (e *episode) checkKept() {
	for _, k := range e.kept {
		if !k.honest {
			continue
		}
		if c := e.canonSet(k.set); c != k.canon {
			e.viol("fetcher:honest_subscriber_value_changed", fmt.Sprintf("the set subscriber %d was handed in op %d read %s then and reads %s now", k.sub, k.op, k.canon, c))
			return
		}
	}
}

// ---------------------------------------------------------------- the other ops

func (e *episode) bnScribble() {
	for _, b := range e.w.bnObjs {
		if b.scr {
			continue
		}
		b.scr = true
		hx.Scribble(b.obj)
		if b.kind == "att" {
			// what a holder of a struct copy made before the scribble reads now: its own scalars, the shared checkpoints
			o, t := b.obj.(*eth2p0.AttestationData), b.tpl.(*eth2p0.AttestationData)
			mixed := *t
			mixed.Source, mixed.Target = o.Source, o.Target
			e.t.datum["att:"+hashJSON(&mixed)] = b.name + "~"
		}
	}
	for s, info := range e.early {
		info.scribed = true
		e.early[s] = info
	}
}

func main() {
	a := hx.ParseArgs()
	hx.Must(log.InitLogger(log.Config{Level: "error", Format: "console", Color: "disable"}))
	run := hx.NewRun(a.Dir)
	defer run.Close()
	var ep *episode
	dead := false
	exec := func(op string) {
		f := strings.Fields(op)
		if len(f) == 0 {
			return
		}
		run.Begin(op)
		if f[0] == "cfg" {
			ep = newEpisode(run, f)
			run.Count("cfg:n=" + field(f, "n="))
			run.Op(op, "ok")
			return
		}
		if ep == nil {
			panic(opError("op before cfg: " + op))
		}
		e := ep
		e.opNo++
		out := ""
		switch f[0] {
		case "fetch":
			op, out = e.doFetch(f, false)
		case "fonly":
			op, out = e.doFetch(f, true)
		case "reorg":
			e.f.HandleChainReorg(context.Background(), 0)
			e.early = map[uint64]earlyInfo{}
			if s := e.cacheSlots(); s != "-" && s != "?" {
				e.viol("fetcher:stale_cache_after_reorg", "the early-fetch cache still holds slots "+s+" after HandleChainReorg")
			}
			out = "ok L=- D=- cache=" + e.cacheSlots()
		case "bnscr":
			e.bnScribble()
			out = "ok L=- D=- cache=" + e.cacheSlots()
		case "subscr":
			i := int(u64(f[1]))
			if i < e.n && e.hostile[i] {
				for _, k := range e.kept {
					if k.sub == i {
						hx.Scribble(k.set)
					}
				}
			}
			out = "ok L=- D=- cache=" + e.cacheSlots()
		case "dbscr":
			for _, v := range e.w.dbObjs {
				hx.Scribble(v)
			}
			e.w.dbObjs = nil
			out = "ok L=- D=- cache=" + e.cacheSlots()
		case "defscr":
			for _, s := range e.defSets {
				hx.Scribble(s)
			}
			e.defSets = nil
			out = "ok L=- D=- cache=" + e.cacheSlots()
		default:
			panic(opError("bad op " + op))
		}
		e.checkKept()
		run.Count("op:" + f[0])
		run.Op(op, out)
	}
	if a.Mode == "exec" {
		for _, op := range hx.ReadOps(a.Ops) {
			if dead {
				break
			}
			exec(op)
		}
		return
	}
	rng := hx.NewRng(a.Seed)
	g := &gen{rng: rng, run: run}
	for run.NOps < a.N && !run.Enough() && !dead {
		g.episode(exec)
	}
}
