package main

// The scripted environment of drive-fetcher: beacon node (an eth2wrap.Client of which only the methods the
// fetcher uses exist), the functions registered with RegisterAggSigDB / RegisterAwaitAttData, the fee recipient
// function; the value templates behind the small ids of the op lines and the tables that map real values back
// to those ids.

import (
	"context"
	"crypto/sha256"
	"encoding/binary"
	"encoding/hex"
	"encoding/json"
	"fmt"
	"math"
	"strconv"
	"strings"

	"github.com/OffchainLabs/go-bitfield"
	eth2api "github.com/attestantio/go-eth2-client/api"
	eth2v1 "github.com/attestantio/go-eth2-client/api/v1"
	eth2spec "github.com/attestantio/go-eth2-client/spec"
	"github.com/attestantio/go-eth2-client/spec/altair"
	eth2p0 "github.com/attestantio/go-eth2-client/spec/phase0"

	"github.com/obolnetwork/charon/app/eth2wrap"
	"github.com/obolnetwork/charon/app/version"
	"github.com/obolnetwork/charon/core"
	"github.com/obolnetwork/charon/testutil"
)

// ---------------------------------------------------------------- ids <-> values

func expand(tag string, n uint64, size int) []byte {
	out := make([]byte, 0, size+32)
	for i := 0; len(out) < size; i++ {
		h := sha256.Sum256([]byte(fmt.Sprintf("%s/%d/%d", tag, n, i)))
		out = append(out, h[:]...)
	}
	return out[:size]
}

func pkBytes(n uint64) (pk eth2p0.BLSPubKey) {
	copy(pk[:], expand("pk", n, 48))
	return pk
}

func corePk(n uint64) core.PubKey {
	pk := pkBytes(n)
	return core.PubKey("0x" + hex.EncodeToString(pk[:]))
}

func rootOf(n uint64) (r eth2p0.Root) {
	copy(r[:], expand("root", n, 32))
	return r
}

func sigBytes(n uint64) (s eth2p0.BLSSignature) {
	copy(s[:], expand("sig", n, 96))
	return s
}

// hash8 is the number eth2exp.hashModulo reduces: the first 8 bytes (little endian) of the SHA-256 of the signature.
func hash8(n uint64) uint64 {
	s := sigBytes(n)
	h := sha256.Sum256(s[:])
	return binary.LittleEndian.Uint64(h[:8])
}

// tables: real value -> id (filled when the driver creates a value for an id)
type tables struct {
	pk    map[core.PubKey]uint64
	root  map[eth2p0.Root]uint64
	sig   map[eth2p0.BLSSignature]uint64
	droot map[eth2p0.Root]uint64 // hash tree root of attestation data of await id w
	graf  map[[32]byte]uint64
	datum map[string]string // content hash -> canonical name (a5, a5~, g7, p3, c9)
}

func newTables() *tables {
	return &tables{pk: map[core.PubKey]uint64{}, root: map[eth2p0.Root]uint64{}, sig: map[eth2p0.BLSSignature]uint64{},
		droot: map[eth2p0.Root]uint64{}, graf: map[[32]byte]uint64{}, datum: map[string]string{}}
}

func (t *tables) pkOf(n uint64) core.PubKey {
	p := corePk(n)
	t.pk[p] = n
	return p
}

func (t *tables) rootOf(n uint64) eth2p0.Root {
	r := rootOf(n)
	t.root[r] = n
	return r
}

func (t *tables) sigOf(n uint64) eth2p0.BLSSignature {
	s := sigBytes(n)
	t.sig[s] = n
	return s
}

func (t *tables) pkName(p core.PubKey) string {
	if n, ok := t.pk[p]; ok {
		return u(n)
	}
	return "?"
}

func (t *tables) rootName(r eth2p0.Root) string {
	if n, ok := t.root[r]; ok {
		return u(n)
	}
	return "?"
}

func u(n uint64) string { return strconv.FormatUint(n, 10) }

func hashJSON(v any) string {
	b, err := json.Marshal(v)
	if err != nil {
		return "marshal-error:" + err.Error()
	}
	h := sha256.Sum256(b)
	return hex.EncodeToString(h[:8])
}

// ---- attestation data

// attTemplate: the attestation data behind id `id` voting for beacon block root `root`.
func (t *tables) attTemplate(id, root uint64) *eth2p0.AttestationData {
	d := &eth2p0.AttestationData{
		Slot:            eth2p0.Slot(1000 + id),
		Index:           eth2p0.CommitteeIndex(id % 64),
		BeaconBlockRoot: t.rootOf(root),
		Source:          &eth2p0.Checkpoint{Epoch: eth2p0.Epoch(id), Root: rootOf(100000 + id)},
		Target:          &eth2p0.Checkpoint{Epoch: eth2p0.Epoch(id + 1), Root: rootOf(200000 + id)},
	}
	t.datum["att:"+hashJSON(d)] = "a" + u(id)
	return d
}

func (t *tables) attName(d *eth2p0.AttestationData) string {
	if n, ok := t.datum["att:"+hashJSON(d)]; ok {
		return n
	}
	return "a?"
}

// awaitTemplate: the attestation data the duty store returns for await id w; its hash tree root is "root w".
func (t *tables) awaitTemplate(w uint64) *eth2p0.AttestationData {
	d := &eth2p0.AttestationData{
		Slot:            eth2p0.Slot(5000 + w),
		Index:           eth2p0.CommitteeIndex(w % 64),
		BeaconBlockRoot: rootOf(300000 + w),
		Source:          &eth2p0.Checkpoint{Epoch: eth2p0.Epoch(w), Root: rootOf(400000 + w)},
		Target:          &eth2p0.Checkpoint{Epoch: eth2p0.Epoch(w + 1), Root: rootOf(500000 + w)},
	}
	r, err := d.HashTreeRoot()
	if err != nil {
		panic(err)
	}
	t.droot[r] = w
	return d
}

// ---- aggregate attestation

func (t *tables) aggTemplate(id, droot uint64, bad bool) *eth2spec.VersionedAttestation {
	data := t.awaitTemplate(droot)
	var v *eth2spec.VersionedAttestation
	switch id % 3 {
	case 0:
		v = testutil.RandomDenebVersionedAttestation()
		v.Deneb.Data = data
		v.Deneb.AggregationBits = bitfield.NewBitlist(16)
		v.Deneb.AggregationBits.SetBitAt(id%16, true)
		v.Deneb.Signature = sigBytes(700000 + id)
	case 1:
		v = testutil.RandomElectraVersionedAttestation()
		v.Electra.Data = data
		v.Electra.AggregationBits = bitfield.NewBitlist(16)
		v.Electra.AggregationBits.SetBitAt(id%16, true)
		v.Electra.Signature = sigBytes(700000 + id)
		v.Electra.CommitteeBits = bitfield.NewBitvector64()
		v.Electra.CommitteeBits.SetBitAt(id%64, true)
	default:
		v = testutil.RandomFuluVersionedAttestation()
		v.Fulu.Data = data
		v.Fulu.AggregationBits = bitfield.NewBitlist(16)
		v.Fulu.AggregationBits.SetBitAt(id%16, true)
		v.Fulu.Signature = sigBytes(700000 + id)
		v.Fulu.CommitteeBits = bitfield.NewBitvector64()
		v.Fulu.CommitteeBits.SetBitAt(id%64, true)
	}
	v.ValidatorIndex = nil // as the beacon API: an aggregate has no validator index (and Clone() does not carry one)
	if bad {
		v.Version = eth2spec.DataVersion(99) // cannot be SSZ-marshalled: "invalid version"
	}
	t.datum["agg:"+aggHash(v)] = "g" + u(id)
	return v
}

func aggInner(v *eth2spec.VersionedAttestation) any {
	switch {
	case v.Deneb != nil:
		return v.Deneb
	case v.Electra != nil:
		return v.Electra
	case v.Fulu != nil:
		return v.Fulu
	case v.Phase0 != nil:
		return v.Phase0
	case v.Altair != nil:
		return v.Altair
	case v.Bellatrix != nil:
		return v.Bellatrix
	case v.Capella != nil:
		return v.Capella
	}
	return nil
}

func aggHash(v *eth2spec.VersionedAttestation) string {
	vi := "nil"
	if v.ValidatorIndex != nil {
		vi = u(uint64(*v.ValidatorIndex))
	}
	return fmt.Sprintf("%d/%s/%s", v.Version, vi, hashJSON(aggInner(v)))
}

func (t *tables) aggName(v *eth2spec.VersionedAttestation) string {
	if n, ok := t.datum["agg:"+aggHash(v)]; ok {
		return n
	}
	return "g?"
}

func aggDataRoot(v *eth2spec.VersionedAttestation) (eth2p0.Root, bool) {
	var d *eth2p0.AttestationData
	switch {
	case v.Deneb != nil:
		d = v.Deneb.Data
	case v.Electra != nil:
		d = v.Electra.Data
	case v.Fulu != nil:
		d = v.Fulu.Data
	}
	if d == nil {
		return eth2p0.Root{}, false
	}
	r, err := d.HashTreeRoot()
	return r, err == nil
}

// ---- proposals

func (t *tables) propTemplate(id uint64, blinded bool, q uint64) *eth2api.VersionedProposal {
	var p *eth2api.VersionedProposal
	switch {
	case q == 1:
		// rejected by core.NewVersionedProposal, nothing dereferenced before
		if blinded || id%2 == 0 {
			p = &eth2api.VersionedProposal{Version: eth2spec.DataVersion(99), Blinded: blinded}
		} else {
			p = &eth2api.VersionedProposal{Version: eth2spec.DataVersionAltair} // "no altair block"; no fee recipient before bellatrix
		}
	case q == 2:
		// a version >= bellatrix whose block is missing
		vs := []eth2spec.DataVersion{eth2spec.DataVersionBellatrix, eth2spec.DataVersionCapella, eth2spec.DataVersionDeneb, eth2spec.DataVersionElectra, eth2spec.DataVersionFulu}
		p = &eth2api.VersionedProposal{Version: vs[id%5], Blinded: blinded}
	case blinded:
		if id%2 == 0 {
			cp := testutil.RandomBellatrixVersionedBlindedProposal()
			p = &cp.VersionedProposal
		} else {
			cp := testutil.RandomCapellaVersionedBlindedProposal()
			p = &cp.VersionedProposal
		}
	default:
		switch id % 4 {
		case 0:
			p = testutil.RandomCapellaVersionedProposal()
		case 1:
			p = testutil.RandomDenebVersionedProposal()
		case 2:
			p = testutil.RandomElectraVersionedProposal()
		default:
			p = testutil.RandomFuluVersionedProposal()
		}
	}
	if q == 0 {
		t.datum["prop:"+propHash(p)] = "p" + u(id)
	}
	return p
}

func propHash(p *eth2api.VersionedProposal) string {
	var inner any
	switch {
	case p.BellatrixBlinded != nil:
		inner = p.BellatrixBlinded
	case p.CapellaBlinded != nil:
		inner = p.CapellaBlinded
	case p.DenebBlinded != nil:
		inner = p.DenebBlinded
	case p.ElectraBlinded != nil:
		inner = p.ElectraBlinded
	case p.FuluBlinded != nil:
		inner = p.FuluBlinded
	case p.Bellatrix != nil:
		inner = p.Bellatrix
	case p.Capella != nil:
		inner = p.Capella
	case p.Deneb != nil:
		inner = p.Deneb
	case p.Electra != nil:
		inner = p.Electra
	case p.Fulu != nil:
		inner = p.Fulu
	}
	return fmt.Sprintf("%d/%v/%s", p.Version, p.Blinded, hashJSON(inner))
}

func (t *tables) propName(p *eth2api.VersionedProposal) string {
	if n, ok := t.datum["prop:"+propHash(p)]; ok {
		return n
	}
	return "p?"
}

// ---- sync committee contributions

func (t *tables) conTemplate(id uint64, bad bool) *altair.SyncCommitteeContribution {
	c := &altair.SyncCommitteeContribution{
		Slot:              eth2p0.Slot(9000 + id),
		BeaconBlockRoot:   rootOf(600000 + id),
		SubcommitteeIndex: id % 4,
		AggregationBits:   bitfield.NewBitvector128(),
		Signature:         sigBytes(800000 + id),
	}
	c.AggregationBits.SetBitAt(id%128, true)
	if bad {
		c.AggregationBits = bitfield.Bitvector128{1, 2, 3} // wrong length: cannot be SSZ-marshalled
	}
	t.datum["con:"+hashJSON(c)] = "c" + u(id)
	return c
}

func (t *tables) conName(c *altair.SyncCommitteeContribution) string {
	if n, ok := t.datum["con:"+hashJSON(c)]; ok {
		return n
	}
	return "c?"
}

// ---------------------------------------------------------------- the script of one op

type ans struct {
	kind string   // "e" error, "n" nil, "d" data
	e    uint64   // error id
	f    []uint64 // data fields
	sk   string   // signed data kind (aggsigdb answers): l y m r o
	spec []string // spec answer fields (number or x)
}

type script struct {
	spec   *ans
	att    map[[2]uint64]*ans // (addr, ci)
	agg    map[[2]uint64]*ans // (root, ci)
	prop   *ans
	con    map[[2]uint64]*ans // (sub, root)
	sig    map[string]*ans    // "<k>.<pk>.<sub>"
	await  map[uint64]*ans    // ci
	over   map[int]*ans       // position -> override (kind e / n)
	subErr map[int]uint64     // subscriber -> error id
	order  []string           // env keys in file order (for re-rendering)
	raw    map[string]string  // env key -> value text
}

const unscripted = 999

func scriptedErr(e uint64) error { return fmt.Errorf("scripted-error-%d", e) }

// ---------------------------------------------------------------- the scripted client

type logEntry struct {
	text string
	kind string // sp at ag pr co x aw fe
}

type bnObj struct {
	kind string // att agg prop con
	obj  any
	tpl  any    // pristine deep copy (what the node answered)
	name string // canonical name of the content
	scr  bool   // already scribbled
}

type world struct {
	t       *tables
	slotNow uint64 // the slot of the running op (answers are scripted for this slot only)
	sc      *script
	pos     int
	log     []logEntry
	bnObjs  []*bnObj // response objects of the beacon node (whole episode)
	dbObjs  []any    // values the aggsigdb / dutydb functions returned (whole episode)
	opObjs  []any    // ... in the running op
	opBn    []*bnObj
	viol    func(sig, descr string)
	// bookkeeping for monitors
	lastAwait map[uint64]eth2p0.Root // ci -> root of the data the dutydb function returned in this op
	attAsked  map[[2]uint64]int
	aggAsked  map[string]int
	conAsked  map[string]int
	dataGiven int // number of aggregate attestation / contribution answers with data in this op
}

func (w *world) begin(slot uint64, sc *script) {
	w.slotNow, w.sc, w.pos, w.log = slot, sc, 0, nil
	w.opObjs, w.opBn = nil, nil
	w.lastAwait = map[uint64]eth2p0.Root{}
	w.attAsked, w.aggAsked, w.conAsked = map[[2]uint64]int{}, map[string]int{}, map[string]int{}
	w.dataGiven = 0
}

// event logs a call and returns the override for its position (nil if none).
func (w *world) event(kind, text string) *ans {
	var o *ans
	if w.sc != nil {
		o = w.sc.over[w.pos]
	}
	w.pos++
	w.log = append(w.log, logEntry{text: text, kind: kind})
	return o
}

func (w *world) logText() string {
	if len(w.log) == 0 {
		return "-"
	}
	s := make([]string, len(w.log))
	for i, l := range w.log {
		s[i] = l.text
	}
	return strings.Join(s, ",")
}

func pick(o, a *ans) *ans {
	if o != nil {
		return o
	}
	if a == nil {
		return &ans{kind: "e", e: unscripted}
	}
	return a
}

type client struct {
	eth2wrap.Client // nil: the fetcher must not need anything else
	w               *world
	addr            uint64
}

func (c client) ClientForAddress(addr string) eth2wrap.Client {
	n, err := strconv.ParseUint(strings.TrimPrefix(addr, "http://bn-"), 10, 64)
	if err != nil {
		n = 9999
	}
	return client{w: c.w, addr: n}
}

func (c client) Address() string { return "http://bn-" + u(c.addr) }

func (c client) NodeVersion(context.Context, *eth2api.NodeVersionOpts) (*eth2api.Response[string], error) {
	return &eth2api.Response[string]{Data: "Lighthouse/v9.9.9"}, nil
}

func (c client) Spec(context.Context, *eth2api.SpecOpts) (*eth2api.Response[map[string]any], error) {
	w := c.w
	var sa *ans
	if w.sc != nil {
		sa = w.sc.spec
	}
	a := pick(w.event("sp", "sp"), sa)
	switch a.kind {
	case "e":
		return nil, scriptedErr(a.e)
	case "n":
		return &eth2api.Response[map[string]any]{Data: nil}, nil
	}
	m := map[string]any{}
	keys := []string{"TARGET_AGGREGATORS_PER_COMMITTEE", "SYNC_COMMITTEE_SIZE", "SYNC_COMMITTEE_SUBNET_COUNT", "TARGET_AGGREGATORS_PER_SYNC_SUBCOMMITTEE"}
	for i, k := range keys {
		switch a.spec[i] {
		case "x":
			if i%2 == 1 {
				m[k] = "not-a-number" // wrong type: as good as missing
			}
		default:
			m[k] = u64(a.spec[i])
		}
	}
	return &eth2api.Response[map[string]any]{Data: m}, nil
}

func (c client) AttestationData(_ context.Context, opts *eth2api.AttestationDataOpts) (*eth2api.Response[*eth2p0.AttestationData], error) {
	w := c.w
	ci := uint64(opts.CommitteeIndex)
	var sa *ans
	if w.sc != nil && uint64(opts.Slot) == w.slotNow {
		sa = w.sc.att[[2]uint64{c.addr, ci}]
	}
	w.attAsked[[2]uint64{c.addr, ci}]++
	a := pick(w.event("at", fmt.Sprintf("at%d.%d.%d", c.addr, uint64(opts.Slot), ci)), sa)
	switch a.kind {
	case "e":
		return nil, scriptedErr(a.e)
	case "n":
		return &eth2api.Response[*eth2p0.AttestationData]{Data: nil}, nil
	}
	tpl := w.t.attTemplate(a.f[0], a.f[1])
	obj := deepCopy(newCopier(), tpl).(*eth2p0.AttestationData)
	b := &bnObj{kind: "att", obj: obj, tpl: tpl, name: "a" + u(a.f[0])}
	w.bnObjs, w.opBn = append(w.bnObjs, b), append(w.opBn, b)
	return &eth2api.Response[*eth2p0.AttestationData]{Data: obj}, nil
}

func (c client) AggregateAttestation(_ context.Context, opts *eth2api.AggregateAttestationOpts) (*eth2api.Response[*eth2spec.VersionedAttestation], error) {
	w := c.w
	ci := uint64(opts.CommitteeIndex)
	rootName := "?"
	var sa *ans
	if n, ok := w.t.droot[opts.AttestationDataRoot]; ok {
		rootName = u(n)
		if w.sc != nil && uint64(opts.Slot) == w.slotNow {
			sa = w.sc.agg[[2]uint64{n, ci}]
		}
	}
	if want, ok := w.lastAwait[ci]; !ok || want != opts.AttestationDataRoot {
		w.viol("fetcher:aggregate_query_not_decided_root", fmt.Sprintf("AggregateAttestation(slot %d, committee %d) asked for data root %s, not the root of what the dutydb function returned for that committee", opts.Slot, ci, rootName))
	}
	w.aggAsked[fmt.Sprintf("%d.%s.%d", opts.Slot, rootName, ci)]++
	a := pick(w.event("ag", fmt.Sprintf("ag%d.%s.%d", uint64(opts.Slot), rootName, ci)), sa)
	switch a.kind {
	case "e":
		return nil, scriptedErr(a.e)
	case "n":
		return &eth2api.Response[*eth2spec.VersionedAttestation]{Data: nil}, nil
	}
	tpl := w.t.aggTemplate(a.f[0], a.f[1], a.f[2] != 0)
	obj := deepCopy(newCopier(), tpl).(*eth2spec.VersionedAttestation)
	b := &bnObj{kind: "agg", obj: obj, tpl: tpl, name: "g" + u(a.f[0])}
	w.bnObjs, w.opBn = append(w.bnObjs, b), append(w.opBn, b)
	w.dataGiven++
	return &eth2api.Response[*eth2spec.VersionedAttestation]{Data: obj}, nil
}

func (c client) Proposal(_ context.Context, opts *eth2api.ProposalOpts) (*eth2api.Response[*eth2api.VersionedProposal], error) {
	w := c.w
	randao := "?"
	if n, ok := w.t.sig[opts.RandaoReveal]; ok {
		randao = u(n)
	}
	graf := "?"
	if n, ok := w.t.graf[opts.Graffiti]; ok {
		graf = u(n)
	}
	bbf := "nil"
	if opts.BuilderBoostFactor != nil {
		switch *opts.BuilderBoostFactor {
		case 0:
			bbf = "0"
		case math.MaxUint64:
			bbf = "1"
		default:
			bbf = "?"
		}
	}
	var sa *ans
	if w.sc != nil && uint64(opts.Slot) == w.slotNow {
		sa = w.sc.prop
	}
	a := pick(w.event("pr", fmt.Sprintf("pr%d.%s.%s.%s", uint64(opts.Slot), randao, graf, bbf)), sa)
	switch a.kind {
	case "e":
		return nil, scriptedErr(a.e)
	case "n":
		return &eth2api.Response[*eth2api.VersionedProposal]{Data: nil}, nil
	}
	tpl := w.t.propTemplate(a.f[0], a.f[1] != 0, a.f[2])
	obj := deepCopy(newCopier(), tpl).(*eth2api.VersionedProposal)
	b := &bnObj{kind: "prop", obj: obj, tpl: tpl, name: "p" + u(a.f[0])}
	w.bnObjs, w.opBn = append(w.bnObjs, b), append(w.opBn, b)
	return &eth2api.Response[*eth2api.VersionedProposal]{Data: obj}, nil
}

func (c client) SyncCommitteeContribution(_ context.Context, opts *eth2api.SyncCommitteeContributionOpts) (*eth2api.Response[*altair.SyncCommitteeContribution], error) {
	w := c.w
	rootName := w.t.rootName(opts.BeaconBlockRoot)
	var sa *ans
	if n, ok := w.t.root[opts.BeaconBlockRoot]; ok && w.sc != nil && uint64(opts.Slot) == w.slotNow {
		sa = w.sc.con[[2]uint64{opts.SubcommitteeIndex, n}]
	}
	w.conAsked[fmt.Sprintf("%d.%d.%s", opts.Slot, opts.SubcommitteeIndex, rootName)]++
	a := pick(w.event("co", fmt.Sprintf("co%d.%d.%s", uint64(opts.Slot), opts.SubcommitteeIndex, rootName)), sa)
	switch a.kind {
	case "e":
		return nil, scriptedErr(a.e)
	case "n":
		return &eth2api.Response[*altair.SyncCommitteeContribution]{Data: nil}, nil
	}
	tpl := w.t.conTemplate(a.f[0], a.f[1] != 0)
	obj := deepCopy(newCopier(), tpl).(*altair.SyncCommitteeContribution)
	b := &bnObj{kind: "con", obj: obj, tpl: tpl, name: "c" + u(a.f[0])}
	w.bnObjs, w.opBn = append(w.bnObjs, b), append(w.opBn, b)
	w.dataGiven++
	return &eth2api.Response[*altair.SyncCommitteeContribution]{Data: obj}, nil
}

// aggSigDB is the function registered with RegisterAggSigDB.
func (w *world) aggSigDB(_ context.Context, duty core.Duty, pk core.PubKey, sub core.SubcommitteeIndex) (core.SignedData, error) {
	k := "?"
	switch duty.Type {
	case core.DutyPrepareAggregator:
		k = "a"
	case core.DutyRandao:
		k = "r"
	case core.DutyPrepareSyncContribution:
		k = "s"
	case core.DutySyncMessage:
		k = "m"
	}
	pkn := w.t.pkName(pk)
	var sa *ans
	if w.sc != nil && duty.Slot == w.slotNow {
		sa = w.sc.sig[fmt.Sprintf("%s.%s.%d", k, pkn, uint64(sub))]
	}
	a := pick(w.event("x", fmt.Sprintf("x%s.%d.%s.%d", k, duty.Slot, pkn, uint64(sub))), sa)
	switch a.kind {
	case "e":
		return nil, scriptedErr(a.e)
	case "n":
		return nil, nil
	}
	sig := w.t.sigOf(a.f[0])
	var v core.SignedData
	switch a.sk {
	case "l":
		v = core.NewBeaconCommitteeSelection(&eth2v1.BeaconCommitteeSelection{ValidatorIndex: 7, Slot: eth2p0.Slot(duty.Slot), SelectionProof: sig})
	case "y":
		v = core.NewSyncCommitteeSelection(&eth2v1.SyncCommitteeSelection{ValidatorIndex: 7, Slot: eth2p0.Slot(duty.Slot), SubcommitteeIndex: uint64(sub), SelectionProof: sig})
	case "m":
		v = core.NewSignedSyncMessage(&altair.SyncCommitteeMessage{Slot: eth2p0.Slot(duty.Slot), BeaconBlockRoot: w.t.rootOf(a.f[1]), ValidatorIndex: 7, Signature: sig})
	case "r":
		v = core.NewSignedRandao(eth2p0.Epoch(duty.Slot/32), sig)
	default:
		v = core.Signature(append([]byte(nil), sig[:]...))
	}
	w.dbObjs, w.opObjs = append(w.dbObjs, v), append(w.opObjs, v)
	return v, nil
}

// awaitAttData is the function registered with RegisterAwaitAttData.
func (w *world) awaitAttData(_ context.Context, slot, ci uint64) (*eth2p0.AttestationData, error) {
	var sa *ans
	if w.sc != nil && slot == w.slotNow {
		sa = w.sc.await[ci]
	}
	a := pick(w.event("aw", fmt.Sprintf("aw%d.%d", slot, ci)), sa)
	switch a.kind {
	case "e":
		return nil, scriptedErr(a.e)
	case "n":
		return nil, nil
	}
	d := w.t.awaitTemplate(a.f[0])
	r, _ := d.HashTreeRoot()
	w.lastAwait[ci] = r
	w.dbObjs, w.opObjs = append(w.dbObjs, d), append(w.opObjs, d)
	return d, nil
}

func (w *world) feeRecipient(pk core.PubKey) string {
	w.event("fe", "fe"+w.t.pkName(pk))
	return "0x000000000000000000000000000000000000dead"
}

// ---------------------------------------------------------------- graffiti

// expected graffiti bytes, computed independently of fetcher/graffiti.go
func defaultGraffitiBytes() (g [32]byte) {
	sha, _ := version.GitCommit()
	copy(g[:], fmt.Sprintf("charon/%v-%s", version.Version, sha))
	return g
}

func customGraffiti(gid uint64) string { return fmt.Sprintf("g%d", gid) }

func customGraffitiBytes(gid uint64) (g [32]byte) {
	copy(g[:], customGraffiti(gid)+"OB"+"LH") // obolToken + token of product "Lighthouse"
	return g
}
