package main

// Generator of drive-fetcher: episodes of mostly well-formed duties (definition sets with shared committees,
// answers for every query the code should make), with errors / nil answers / unscripted queries at every call
// position, wrong definition types, wrong signed-data types, malformed values, hostile subscribers and holders.

import (
	"fmt"
	"sort"
	"strings"

	"verifharness/hx"
)

type gen struct {
	rng    *hx.Rng
	run    *hx.Run
	nextID uint64
	sigCtr uint64
	// episode configuration (what the generator needs to know to script sensible answers)
	n       int
	hostile []bool
	electra uint64
	only0   bool
}

func (g *gen) id() uint64 { g.nextID++; return g.nextID }

func (g *gen) pickSig(modulo uint64, want bool) uint64 {
	if modulo == 0 {
		modulo = 1
	}
	for i := 0; i < 4000; i++ {
		g.sigCtr++
		if (hash8(g.sigCtr)%modulo == 0) == want {
			return g.sigCtr
		}
	}
	g.sigCtr++
	return g.sigCtr
}

func (g *gen) pks(k int) []uint64 {
	p := g.rng.Perm(8)
	out := make([]uint64, 0, k)
	for i := 0; i < k && i < 8; i++ {
		out = append(out, uint64(p[i]+1))
	}
	return out
}

// failing answer: error / nil / nothing scripted
func (g *gen) badAns() string {
	switch g.rng.Intn(5) {
	case 0, 1:
		return fmt.Sprintf("e%d", 1+g.rng.Intn(30))
	case 2, 3:
		return "n"
	}
	return ""
}

type envB struct{ parts []string }

func (b *envB) add(k, v string) {
	if v != "" {
		b.parts = append(b.parts, k+"="+v)
	}
}

func (b *envB) text() string {
	if len(b.parts) == 0 {
		return "-"
	}
	return strings.Join(b.parts, ";")
}

func (g *gen) overrides(estCalls int) string {
	if !g.rng.Chance(1, 5) {
		return "-"
	}
	pos := g.rng.Intn(estCalls + 2)
	if g.rng.Chance(2, 3) {
		return fmt.Sprintf("%d:e%d", pos, 40+g.rng.Intn(20))
	}
	return fmt.Sprintf("%d:n", pos)
}

func (g *gen) subErrs() string {
	if g.n == 0 || !g.rng.Chance(1, 8) {
		return "-"
	}
	return fmt.Sprintf("%d:%d", g.rng.Intn(g.n), 1+g.rng.Intn(9))
}

func (g *gen) effCi(slot, ci uint64) uint64 {
	if slot >= g.electra && g.only0 {
		return 0
	}
	return ci
}

// attester definitions with colliding committee indices
func (g *gen) attDefs() ([]string, []defn) {
	k := g.rng.Intn(6)
	var txt []string
	var ds []defn
	for _, pk := range g.pks(k) {
		if g.rng.Chance(1, 30) {
			if g.rng.Chance(1, 2) {
				txt = append(txt, fmt.Sprintf("%d:p.%d", pk, pk+100))
				ds = append(ds, defn{pk: pk, kind: "p", f: []uint64{pk + 100}})
			} else {
				txt = append(txt, fmt.Sprintf("%d:s.%d.3+9", pk, pk+100))
				ds = append(ds, defn{pk: pk, kind: "s", f: []uint64{pk + 100}, idxs: []uint64{3, 9}})
			}
			continue
		}
		ci := uint64(g.rng.Intn(4))
		if g.rng.Chance(1, 6) {
			ci = uint64(g.rng.Intn(64))
		}
		ln := uint64(g.rng.Intn(65))
		txt = append(txt, fmt.Sprintf("%d:a.%d.%d.%d", pk, ci, ln, pk+100))
		ds = append(ds, defn{pk: pk, kind: "a", f: []uint64{ci, ln, pk + 100}})
	}
	return txt, ds
}

func joinOrDash(p []string) string {
	if len(p) == 0 {
		return "-"
	}
	return strings.Join(p, ",")
}

// attData answers for the committees the definitions need, on client scope `addr`; the other scope answers other data
func (g *gen) attEnv(b *envB, ds []defn, slot, addr, head uint64, headProb int) int {
	seen := map[uint64]bool{}
	calls := 0
	for _, d := range ds {
		if d.kind != "a" {
			continue
		}
		ci := g.effCi(slot, d.f[0])
		if seen[ci] {
			continue
		}
		seen[ci] = true
		calls++
		root := head
		if !g.rng.Chance(headProb, 100) {
			root = uint64(1 + g.rng.Intn(3))
		}
		if g.rng.Chance(9, 10) {
			b.add(fmt.Sprintf("A%d.%d", addr, ci), fmt.Sprintf("%d.%d", g.id(), root))
		} else {
			b.add(fmt.Sprintf("A%d.%d", addr, ci), g.badAns())
		}
		other := uint64(0)
		if addr == 0 {
			other = 1
		}
		if g.rng.Chance(1, 2) {
			b.add(fmt.Sprintf("A%d.%d", other, ci), fmt.Sprintf("%d.%d", g.id(), root))
		}
	}
	if g.only0 && g.rng.Chance(1, 3) {
		// answers for the committee indices the code must NOT ask when it fetches index 0 only (and vice versa)
		b.add(fmt.Sprintf("A%d.%d", addr, 1+g.rng.Intn(3)), fmt.Sprintf("%d.%d", g.id(), head))
	}
	return calls
}

func (g *gen) fetchAttester(slot uint64) string {
	txt, ds := g.attDefs()
	b := &envB{}
	calls := g.attEnv(b, ds, slot, 0, uint64(1+g.rng.Intn(3)), 60)
	return fmt.Sprintf("fetch 2 %d D=%s E=%s O=%s SE=%s ord=-", slot, joinOrDash(txt), b.text(), g.overrides(calls), g.subErrs())
}

func (g *gen) fonlyAttester(slot, head uint64, headProb int) (string, []defn) {
	txt, ds := g.attDefs()
	b := &envB{}
	addr := uint64(1 + g.rng.Intn(2))
	calls := g.attEnv(b, ds, slot, addr, head, headProb)
	ov := "-"
	if g.rng.Chance(1, 3) {
		ov = g.overrides(calls)
	}
	return fmt.Sprintf("fonly 2 %d %d %d D=%s E=%s O=%s ord=-", slot, addr, head, joinOrDash(txt), b.text(), ov), ds
}

func (g *gen) specText(kind string) (string, uint64, uint64, uint64, uint64) {
	// returns text and the four numbers (0 where missing)
	pickN := func(vals []uint64) uint64 { return vals[g.rng.Intn(len(vals))] }
	apc := pickN([]uint64{1, 2, 16, 16})
	ss := pickN([]uint64{512, 512, 512, 8, 4, 2})
	sn := pickN([]uint64{4, 4, 4, 4, 1, 2})
	aps := pickN([]uint64{16, 16, 1, 2, 128})
	f := []string{u(apc), u(ss), u(sn), u(aps)}
	mess := func(i int, v *uint64) {
		switch g.rng.Intn(3) {
		case 0:
			f[i], *v = "x", 0
		default:
			f[i], *v = "0", 0
		}
	}
	if g.rng.Chance(1, 12) {
		switch kind {
		case "agg":
			mess(0, &apc)
		default:
			switch g.rng.Intn(3) {
			case 0:
				mess(1, &ss)
			case 1:
				mess(2, &sn)
			default:
				mess(3, &aps)
			}
		}
	}
	if g.rng.Chance(1, 25) {
		return fmt.Sprintf("e%d", 60+g.rng.Intn(9)), 0, 0, 0, 0
	}
	if g.rng.Chance(1, 40) {
		return "", 0, 0, 0, 0
	}
	return strings.Join(f, "."), apc, ss, sn, aps
}

func (g *gen) fetchAggregator(slot uint64) string {
	txt, ds := g.attDefs()
	b := &envB{}
	st, apc, _, _, _ := g.specText("agg")
	b.add("S", st)
	calls := 0
	cis := map[uint64]bool{}
	for _, d := range ds {
		if d.kind != "a" {
			continue
		}
		calls += 2
		key := fmt.Sprintf("Xa.%d.0", d.pk)
		switch r := g.rng.Intn(100); {
		case r < 86:
			modulo := uint64(1)
			if apc > 0 && d.f[1]/apc > 1 {
				modulo = d.f[1] / apc
			}
			s := g.pickSig(modulo, g.rng.Chance(3, 5))
			b.add(key, fmt.Sprintf("l.%d.%d", s, hash8(s)))
		case r < 91:
			b.add(key, fmt.Sprintf("%s.%d.0", []string{"y", "r", "o", "m"}[g.rng.Intn(4)], g.pickSig(1, true)))
		default:
			b.add(key, g.badAns())
		}
		cis[d.f[0]] = true
	}
	var cil []uint64
	for ci := range cis {
		cil = append(cil, ci)
	}
	sort.Slice(cil, func(i, j int) bool { return cil[i] < cil[j] })
	for _, ci := range cil {
		calls += 2
		w := g.id()
		if g.rng.Chance(9, 10) {
			b.add(fmt.Sprintf("W%d", ci), u(w))
		} else {
			b.add(fmt.Sprintf("W%d", ci), g.badAns())
		}
		droot := w
		if g.rng.Chance(1, 12) {
			droot = g.id()
		}
		bad := 0
		if g.rng.Chance(1, 20) {
			bad = 1
		}
		if g.rng.Chance(9, 10) {
			b.add(fmt.Sprintf("G%d.%d", w, ci), fmt.Sprintf("%d.%d.%d", g.id(), droot, bad))
		} else {
			b.add(fmt.Sprintf("G%d.%d", w, ci), g.badAns())
		}
	}
	return fmt.Sprintf("fetch 9 %d D=%s E=%s O=%s SE=%s ord=-", slot, joinOrDash(txt), b.text(), g.overrides(calls), g.subErrs())
}

func (g *gen) fetchProposer(slot uint64) string {
	var txt []string
	k := 1
	switch r := g.rng.Intn(20); {
	case r < 1:
		k = 0
	case r < 4:
		k = 2
	}
	b := &envB{}
	for _, pk := range g.pks(k) {
		if g.rng.Chance(1, 15) {
			txt = append(txt, fmt.Sprintf("%d:a.1.8.%d", pk, pk+100)) // the definition is never looked at
		} else {
			txt = append(txt, fmt.Sprintf("%d:p.%d", pk, pk+100))
		}
		key := fmt.Sprintf("Xr.%d.0", pk)
		switch r := g.rng.Intn(100); {
		case r < 84:
			b.add(key, fmt.Sprintf("r.%d.0", g.pickSig(1, true)))
		case r < 90:
			b.add(key, fmt.Sprintf("%s.%d.0", []string{"o", "l", "m"}[g.rng.Intn(3)], g.pickSig(1, true)))
		default:
			b.add(key, g.badAns())
		}
	}
	switch r := g.rng.Intn(100); {
	case r < 80:
		b.add("P", fmt.Sprintf("%d.%d.0", g.id(), g.rng.Intn(2)))
	case r < 86:
		b.add("P", fmt.Sprintf("%d.%d.1", g.id(), g.rng.Intn(2)))
	case r < 91:
		b.add("P", fmt.Sprintf("%d.%d.2", g.id(), g.rng.Intn(2)))
	default:
		b.add("P", g.badAns())
	}
	return fmt.Sprintf("fetch 1 %d D=%s E=%s O=%s SE=%s ord=-", slot, joinOrDash(txt), b.text(), g.overrides(3*k), g.subErrs())
}

func (g *gen) fetchSync(slot uint64) string {
	b := &envB{}
	st, _, ss, sn, aps := g.specText("sync")
	b.add("S", st)
	size := uint64(0)
	if sn > 0 {
		size = ss / sn
	}
	modulo := uint64(1)
	if size > 0 && aps > 0 && size/aps > 1 {
		modulo = size / aps
	}
	if ss == 0 {
		ss = 512
	}
	var txt []string
	calls := 1
	type sr struct{ sub, root uint64 }
	need := map[sr]bool{}
	for _, pk := range g.pks(g.rng.Intn(5)) {
		if g.rng.Chance(1, 30) {
			txt = append(txt, fmt.Sprintf("%d:a.1.8.%d", pk, pk+100))
			continue
		}
		var idx []string
		subs := map[uint64]bool{}
		for i, k := 0, g.rng.Intn(4); i < k; i++ {
			x := uint64(g.rng.Intn(int(ss)))
			if g.rng.Chance(1, 10) {
				x = ss + uint64(g.rng.Intn(40)) // beyond the committee: a subcommittee index past the subnet count
			}
			idx = append(idx, u(x))
			if size > 0 {
				subs[x/size] = true
			}
		}
		txt = append(txt, fmt.Sprintf("%d:s.%d.%s", pk, pk+100, strings.Join(idx, "+")))
		root := uint64(1 + g.rng.Intn(2))
		switch r := g.rng.Intn(100); {
		case r < 88:
			b.add(fmt.Sprintf("Xm.%d.0", pk), fmt.Sprintf("m.%d.%d", g.pickSig(1, true), root))
		case r < 92:
			b.add(fmt.Sprintf("Xm.%d.0", pk), fmt.Sprintf("%s.%d.0", []string{"o", "r", "y"}[g.rng.Intn(3)], g.pickSig(1, true)))
		default:
			b.add(fmt.Sprintf("Xm.%d.0", pk), g.badAns())
		}
		var sl []uint64
		for s := range subs {
			sl = append(sl, s)
		}
		sort.Slice(sl, func(i, j int) bool { return sl[i] < sl[j] })
		for _, sub := range sl {
			calls += 4
			key := fmt.Sprintf("Xs.%d.%d", pk, sub)
			switch r := g.rng.Intn(100); {
			case r < 88:
				s := g.pickSig(modulo, g.rng.Chance(3, 5))
				b.add(key, fmt.Sprintf("y.%d.%d", s, hash8(s)))
			case r < 92:
				b.add(key, fmt.Sprintf("%s.%d.0", []string{"l", "r", "o", "m"}[g.rng.Intn(4)], g.pickSig(1, true)))
			default:
				b.add(key, g.badAns())
			}
			need[sr{sub, root}] = true
		}
	}
	var nl []sr
	for k := range need {
		nl = append(nl, k)
	}
	sort.Slice(nl, func(i, j int) bool {
		return nl[i].sub < nl[j].sub || (nl[i].sub == nl[j].sub && nl[i].root < nl[j].root)
	})
	for _, k := range nl {
		bad := 0
		if g.rng.Chance(1, 25) {
			bad = 1
		}
		if g.rng.Chance(9, 10) {
			b.add(fmt.Sprintf("C%d.%d", k.sub, k.root), fmt.Sprintf("%d.%d", g.id(), bad))
		} else {
			b.add(fmt.Sprintf("C%d.%d", k.sub, k.root), g.badAns())
		}
	}
	return fmt.Sprintf("fetch 12 %d D=%s E=%s O=%s SE=%s ord=-", slot, joinOrDash(txt), b.text(), g.overrides(calls), g.subErrs())
}

func (g *gen) fetchOther(slot uint64) string {
	types := []int{0, 3, 4, 5, 5, 6, 7, 8, 10, 11, 13, 14, 77}
	ty := types[g.rng.Intn(len(types))]
	txt, ds := g.attDefs()
	b := &envB{}
	g.attEnv(b, ds, slot, 0, 1, 50)
	return fmt.Sprintf("fetch %d %d D=%s E=%s O=- SE=%s ord=-", ty, slot, joinOrDash(txt), b.text(), g.subErrs())
}

func (g *gen) episode(exec func(string)) {
	r := g.rng
	g.n = []int{0, 1, 2, 2, 3, 3, 4}[r.Intn(7)]
	h := "-"
	g.hostile = make([]bool, g.n)
	if g.n > 0 {
		bits := make([]byte, g.n)
		for i := range bits {
			bits[i] = '0'
			if r.Chance(2, 5) {
				bits[i] = '1'
				g.hostile[i] = true
			}
		}
		h = string(bits)
	}
	g.electra = []uint64{0, 40, 45, 1000000}[r.Intn(4)]
	g.only0 = r.Chance(1, 2)
	gr := "-"
	if r.Chance(1, 2) {
		var p []string
		for _, pk := range g.pks(1 + r.Intn(3)) {
			p = append(p, fmt.Sprintf("%d:%d", pk, 1+r.Intn(3)))
		}
		gr = strings.Join(p, "+")
	}
	b2i := func(b bool) int {
		if b {
			return 1
		}
		return 0
	}
	exec(fmt.Sprintf("cfg n=%d h=%s e=%d o0=%d b=%d g=%s v2=%s", g.n, h, g.electra, b2i(g.only0), r.Intn(2), gr, []string{"n", "0", "1", "1", "p"}[r.Intn(5)]))
	slot := uint64(30 + r.Intn(20))
	for i, k := 0, 2+r.Intn(7); i < k; i++ {
		switch x := r.Intn(100); {
		case x < 22:
			// early fetch, something in between, the scheduled fetch
			head := uint64(1 + r.Intn(3))
			op, _ := g.fonlyAttester(slot, head, 92)
			exec(op)
			switch y := r.Intn(100); {
			case y < 18:
				exec("bnscr")
			case y < 28:
				exec("reorg")
			case y < 40:
				exec("defscr")
			case y < 55:
				s2 := slot + uint64(r.Intn(3))
				if r.Chance(1, 3) && slot > 2 {
					s2 = slot - 1
				}
				op2, _ := g.fonlyAttester(s2, head, 92)
				exec(op2)
			case y < 60:
				exec(g.fetchAttester(slot + 1))
			}
			if r.Chance(9, 10) {
				exec(g.fetchAttester(slot))
			}
			slot += uint64(r.Intn(3))
		case x < 42:
			exec(g.fetchAttester(slot))
		case x < 60:
			exec(g.fetchAggregator(slot))
		case x < 72:
			exec(g.fetchProposer(slot))
		case x < 88:
			exec(g.fetchSync(slot))
		case x < 93:
			exec(g.fetchOther(slot))
		case x < 95:
			txt, _ := g.attDefs()
			exec(fmt.Sprintf("fonly %d %d 1 1 D=%s E=- O=- ord=-", []int{1, 9, 12, 5, 0}[r.Intn(5)], slot, joinOrDash(txt)))
		case x < 97:
			exec(fmt.Sprintf("subscr %d", r.Intn(4)))
		case x < 98:
			exec("dbscr")
		case x < 99:
			exec("bnscr")
		default:
			exec("reorg")
		}
		if r.Chance(1, 3) {
			slot += uint64(r.Intn(2))
		}
	}
}
