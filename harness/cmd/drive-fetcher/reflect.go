package main

// Reflection part of drive-fetcher (taken from drive-alias/reflect.go): reachable mutable locations of a Go value, deep copy.
//
// A *location* is a piece of memory that can be written through a value without re-assigning the
// value itself: the target of a non-nil pointer, the backing array of a non-empty slice (its full
// capacity), a non-nil map. Strings, the boxed value of an interface, zero-size objects and
// time.Time are not locations (immutable / carry no state). The walk goes recursively through
// struct fields (exported or not), array elements, interfaces, pointer targets, slice elements and
// map keys/values; map keys are visited in sorted order so that the order of discovery is
// deterministic.

import (
	"fmt"
	"reflect"
	"sort"
	"time"
	"unsafe"
)

type loc struct {
	lo, hi uintptr
	kind   byte   // 'P' pointer target, 'S' slice backing array, 'M' map
	path   string // field path at first discovery
	typ    reflect.Type
	h      reflect.Value // handle: P: settable pointee; S: the slice; M: the map
	parent int           // index of enclosing location, -1 for top level
	canMut bool
}

var timeType = reflect.TypeOf(time.Time{})

type walker struct {
	locs []loc
	seen map[[2]uintptr]bool
}

// locations returns the reachable mutable locations of the roots, in discovery order.
func locations(roots []any) []loc {
	w := &walker{seen: map[[2]uintptr]bool{}}
	for i, r := range roots {
		if r == nil {
			continue
		}
		p := ""
		if len(roots) > 1 {
			p = fmt.Sprintf("#%d", i)
		}
		w.walk(reflect.ValueOf(r), p, -1)
	}
	return w.locs
}

func (w *walker) add(l loc) (int, bool) {
	k := [2]uintptr{l.lo, uintptr(l.kind)<<56 ^ l.hi}
	if w.seen[k] {
		return 0, false
	}
	w.seen[k] = true
	w.locs = append(w.locs, l)
	return len(w.locs) - 1, true
}

// settable returns a settable view of an addressable value (also for unexported fields).
func settable(v reflect.Value) (reflect.Value, bool) {
	if !v.IsValid() {
		return v, false
	}
	if v.CanSet() {
		return v, true
	}
	if v.CanAddr() {
		return reflect.NewAt(v.Type(), unsafe.Pointer(v.UnsafeAddr())).Elem(), true
	}
	return v, false
}

func (w *walker) walk(v reflect.Value, path string, parent int) {
	if !v.IsValid() {
		return
	}
	t := v.Type()
	if t == timeType {
		return
	}
	switch v.Kind() {
	case reflect.Pointer:
		if v.IsNil() || t.Elem().Size() == 0 {
			return
		}
		addr := v.Pointer()
		pv := reflect.NewAt(t.Elem(), unsafe.Pointer(addr)).Elem()
		idx, fresh := w.add(loc{lo: addr, hi: addr + t.Elem().Size(), kind: 'P', path: path + "*", typ: t, h: pv, parent: parent, canMut: true})
		if !fresh {
			return
		}
		w.walk(pv, path+"*", idx)
	case reflect.Slice:
		if v.IsNil() || v.Len() == 0 || t.Elem().Size() == 0 {
			return
		}
		addr := v.Pointer()
		idx, fresh := w.add(loc{lo: addr, hi: addr + uintptr(v.Cap())*t.Elem().Size(), kind: 'S', path: path + "[]", typ: t, h: v, parent: parent, canMut: true})
		if !fresh {
			return
		}
		if !hasRefs(t.Elem()) {
			return
		}
		for i := 0; i < v.Len(); i++ {
			w.walk(v.Index(i), fmt.Sprintf("%s[%d]", path, i), idx)
		}
	case reflect.Map:
		if v.IsNil() {
			return
		}
		addr := v.Pointer()
		mv, ok := settable(v)
		if !ok {
			mv = v
			// a map value obtained through an exported path can be written with SetMapIndex
			ok = v.CanInterface()
		}
		idx, fresh := w.add(loc{lo: addr, hi: addr + 1, kind: 'M', path: path + "{}", typ: t, h: mv, parent: parent, canMut: ok})
		if !fresh {
			return
		}
		keys := v.MapKeys()
		sort.Slice(keys, func(i, j int) bool { return keyString(keys[i]) < keyString(keys[j]) })
		for ki, k := range keys {
			if hasRefs(t.Key()) {
				w.walk(k, fmt.Sprintf("%s{key%d}", path, ki), idx)
			}
			if hasRefs(t.Elem()) {
				w.walk(v.MapIndex(k), fmt.Sprintf("%s{%d}", path, ki), idx)
			}
		}
	case reflect.Interface:
		if v.IsNil() {
			return
		}
		w.walk(v.Elem(), path, parent)
	case reflect.Struct:
		for i := 0; i < v.NumField(); i++ {
			if hasRefs(t.Field(i).Type) {
				w.walk(v.Field(i), path+"."+t.Field(i).Name, parent)
			}
		}
	case reflect.Array:
		if !hasRefs(t.Elem()) {
			return
		}
		for i := 0; i < v.Len(); i++ {
			w.walk(v.Index(i), fmt.Sprintf("%s[%d]", path, i), parent)
		}
	}
}

var refsMemo = map[reflect.Type]bool{}

// hasRefs reports whether a value of type t can reach a location.
func hasRefs(t reflect.Type) bool {
	if r, ok := refsMemo[t]; ok {
		return r
	}
	if t == timeType {
		return false
	}
	r := false
	switch t.Kind() {
	case reflect.Pointer, reflect.Slice, reflect.Map, reflect.Interface:
		r = true
	case reflect.Struct:
		refsMemo[t] = false // recursion guard (recursive types go through a pointer: already true)
		for i := 0; i < t.NumField(); i++ {
			if hasRefs(t.Field(i).Type) {
				r = true
				break
			}
		}
	case reflect.Array:
		r = t.Len() > 0 && hasRefs(t.Elem())
	}
	refsMemo[t] = r
	return r
}

func keyString(k reflect.Value) string {
	switch k.Kind() {
	case reflect.String:
		return "s" + k.String()
	case reflect.Int, reflect.Int8, reflect.Int16, reflect.Int32, reflect.Int64:
		return fmt.Sprintf("i%020d", k.Int())
	case reflect.Uint, reflect.Uint8, reflect.Uint16, reflect.Uint32, reflect.Uint64:
		return fmt.Sprintf("u%020d", k.Uint())
	}
	return fmt.Sprintf("x%v", k)
}

// overlap returns the first pair of overlapping locations of two sets (indices), or -1,-1.
func overlap(a, b []loc) (int, int) {
	type iv struct {
		lo, hi uintptr
		i      int
		kind   byte
	}
	mk := func(ls []loc) []iv {
		out := make([]iv, len(ls))
		for i, l := range ls {
			out[i] = iv{l.lo, l.hi, i, l.kind}
		}
		sort.Slice(out, func(x, y int) bool { return out[x].lo < out[y].lo })
		return out
	}
	A, B := mk(a), mk(b)
	bestA, bestB := -1, -1
	j := 0
	for _, x := range A {
		for j < len(B) && B[j].hi <= x.lo {
			// B[j] ends before x starts; but a later A may start earlier than this B's end only if
			// A is sorted by lo, so it is safe to advance only while B[j].hi <= x.lo
			j++
		}
		for k := j; k < len(B) && B[k].lo < x.hi; k++ {
			if B[k].hi > x.lo && (x.kind == 'M') == (B[k].kind == 'M') {
				if bestA < 0 || x.i < bestA {
					bestA, bestB = x.i, B[k].i
				}
			}
		}
	}
	return bestA, bestB
}

// ---------------------------------------------------------------- deep copy

type copier struct {
	ptrs map[[2]uintptr]reflect.Value
}

// deepCopy returns an independent copy of x (same dynamic type), preserving internal aliasing.
func deepCopy(c *copier, x any) any {
	if x == nil {
		return nil
	}
	src := reflect.ValueOf(x)
	tmp := reflect.New(src.Type()).Elem()
	tmp.Set(src)
	dst := reflect.New(src.Type()).Elem()
	c.copy(dst, tmp)
	return dst.Interface()
}

func newCopier() *copier { return &copier{ptrs: map[[2]uintptr]reflect.Value{}} }

// copy copies src into dst; both are addressable and of the same type.
func (c *copier) copy(dst, src reflect.Value) {
	dst, _ = settable(dst)
	src, _ = settable(src)
	t := src.Type()
	if t == timeType || !hasRefs(t) {
		dst.Set(src)
		return
	}
	switch src.Kind() {
	case reflect.Pointer:
		if src.IsNil() {
			return
		}
		k := [2]uintptr{src.Pointer(), uintptr(unsafe.Pointer(reflect.ValueOf(t).Pointer()))}
		if n, ok := c.ptrs[k]; ok {
			dst.Set(n)
			return
		}
		n := reflect.New(t.Elem())
		c.ptrs[k] = n
		c.copy(n.Elem(), src.Elem())
		dst.Set(n)
	case reflect.Slice:
		if src.IsNil() {
			return
		}
		n := reflect.MakeSlice(t, src.Len(), src.Len())
		for i := 0; i < src.Len(); i++ {
			c.copy(n.Index(i), src.Index(i))
		}
		dst.Set(n)
	case reflect.Map:
		if src.IsNil() {
			return
		}
		n := reflect.MakeMapWithSize(t, src.Len())
		for _, k := range src.MapKeys() {
			ks := reflect.New(t.Key()).Elem()
			ks.Set(k)
			kd := reflect.New(t.Key()).Elem()
			c.copy(kd, ks)
			vs := reflect.New(t.Elem()).Elem()
			vs.Set(src.MapIndex(k))
			vd := reflect.New(t.Elem()).Elem()
			c.copy(vd, vs)
			n.SetMapIndex(kd, vd)
		}
		dst.Set(n)
	case reflect.Interface:
		if src.IsNil() {
			return
		}
		e := src.Elem()
		es := reflect.New(e.Type()).Elem()
		es.Set(e)
		ed := reflect.New(e.Type()).Elem()
		c.copy(ed, es)
		dst.Set(ed)
	case reflect.Struct:
		for i := 0; i < src.NumField(); i++ {
			c.copy(dst.Field(i), src.Field(i))
		}
	case reflect.Array:
		for i := 0; i < src.Len(); i++ {
			c.copy(dst.Index(i), src.Index(i))
		}
	default:
		dst.Set(src)
	}
}
