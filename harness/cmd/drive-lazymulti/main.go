// drive-lazymulti: correspondence driver for the lazy beacon-node client (app/eth2wrap/lazy.go) and the
// non-generated methods of the multi client (app/eth2wrap/multi.go) over real lazy clients whose provider
// is scripted; the client a provider returns wraps the real http adapter (app/eth2wrap/httpwrap.go), which
// answers the validator / duties cache endpoints itself. Stream `lazymulti`, model Model/LazyMulti.lean.
package main

import (
	"context"
	"errors"
	"fmt"
	"sort"
	"strconv"
	"strings"
	"sync"
	"time"

	eth2api "github.com/attestantio/go-eth2-client/api"
	eth2p0 "github.com/attestantio/go-eth2-client/spec/phase0"

	"github.com/obolnetwork/charon/app/eth2wrap"
	"github.com/obolnetwork/charon/app/log"

	"verifharness/hx"
)

const watchdog = 8 * time.Second // a missing return becomes a violation, never an output

var nStuck int // watchdog expiries: the generator stops after a few (each costs `watchdog`)
const settle = 15 * time.Millisecond

var theRun *hx.Run

type callerKey struct{}
type mcallKey struct{}

type provDecision struct {
	ok       bool
	act, syn bool
}

type callRet struct {
	res string // got:<k>:<ans> | err | ctx | other:<msg>
}

type caller struct {
	id        int
	kind      string
	hon       bool
	node      *nodeT
	cancel    context.CancelFunc
	release   chan provDecision
	done      chan callRet
	by        int // id of the inner client that answered
	byMu      sync.Mutex
	cancelled bool
}

type nodeT struct {
	fb   bool
	idx  int
	ep   *episode
	lz   eth2wrap.Client
	mu   sync.Mutex
	prov int
	made []*inner
	// the driver's own bookkeeping
	live       map[int]*caller
	holder     int // caller parked in the provider, -1 none
	lzVal      int // last validator cache set through the lazy client / multi (-1 none)
	lzDut      int
	hadCancel  bool
	hadFailure bool
}

func (n *nodeT) name() string {
	if n.fb {
		return "f" + strconv.Itoa(n.idx)
	}

	return "p" + strconv.Itoa(n.idx)
}

func (n *nodeT) address() string { return "http://" + n.name() }

func (n *nodeT) inner() *inner {
	n.mu.Lock()
	defer n.mu.Unlock()
	if len(n.made) == 0 {
		return nil
	}

	return n.made[len(n.made)-1]
}

// inner is the client a provider returns: the REAL http adapter (no go-eth2-client service behind it) for the
// cache family, scripted for what needs a beacon node.
type inner struct {
	eth2wrap.Client // *httpAdapter via VerifNewHTTPAdapter
	n               *nodeT
	id              int
	active, synced  bool
	mu              sync.Mutex
	forks           []int
}

func (i *inner) SetForkVersion(v [4]byte) {
	i.mu.Lock()
	i.forks = append(i.forks, int(v[0])<<8|int(v[1]))
	i.mu.Unlock()
	i.Client.SetForkVersion(v)
}

func (i *inner) lastFork() int {
	i.mu.Lock()
	defer i.mu.Unlock()
	if len(i.forks) == 0 {
		return -1
	}

	return i.forks[len(i.forks)-1]
}

func (i *inner) Name() string               { return "inner" }
func (i *inner) Address() string            { return i.n.address() }
func (i *inner) IsActive() bool             { return i.active }
func (i *inner) IsSynced() bool             { return i.synced }
func (i *inner) Headers() map[string]string { return map[string]string{"node": i.n.name()} }
func (i *inner) ClientForAddress(a string) eth2wrap.Client {
	if i.Client.ClientForAddress(a) != i.Client {
		theRun.Violate("lazymulti:adapter_client_for_address_not_self", "httpAdapter.ClientForAddress returned another client")
	}

	return i
}

func (i *inner) noteBy(ctx context.Context) {
	if c, ok := ctx.Value(callerKey{}).(*caller); ok {
		c.byMu.Lock()
		c.by = i.id
		c.byMu.Unlock()
	}
}

func (i *inner) NodeVersion(ctx context.Context, _ *eth2api.NodeVersionOpts) (*eth2api.Response[string], error) {
	i.noteBy(ctx)
	if mc, ok := ctx.Value(mcallKey{}).(*mcall); ok {
		mc.park(i.n)
		if !mc.script(i.n).answer {
			return nil, mc.mkErr(i.n)
		}
	}

	return &eth2api.Response[string]{Data: i.n.name()}, nil
}

func (i *inner) ActiveValidators(ctx context.Context) (eth2wrap.ActiveValidators, error) {
	i.noteBy(ctx)
	if mc, ok := ctx.Value(mcallKey{}).(*mcall); ok {
		mc.park(i.n)
	}

	return i.Client.ActiveValidators(ctx)
}

func (i *inner) ProposerDutiesCache(ctx context.Context, e eth2p0.Epoch, v []eth2p0.ValidatorIndex) (eth2wrap.ProposerDutyWithMeta, error) {
	i.noteBy(ctx)
	if mc, ok := ctx.Value(mcallKey{}).(*mcall); ok {
		mc.park(i.n)
	}

	return i.Client.ProposerDutiesCache(ctx, e, v)
}

func valFn(v int) func(context.Context) (eth2wrap.ActiveValidators, eth2wrap.CompleteValidators, error) {
	return func(context.Context) (eth2wrap.ActiveValidators, eth2wrap.CompleteValidators, error) {
		return eth2wrap.ActiveValidators{eth2p0.ValidatorIndex(v): eth2p0.BLSPubKey{}}, nil, nil
	}
}

func setDut(cl eth2wrap.Client, v int) {
	cl.SetDutiesCache(
		func(context.Context, eth2p0.Epoch, []eth2p0.ValidatorIndex) (eth2wrap.ProposerDutyWithMeta, error) {
			return eth2wrap.ProposerDutyWithMeta{Metadata: map[string]any{"v": v}}, nil
		},
		func(context.Context, eth2p0.Epoch, []eth2p0.ValidatorIndex) (eth2wrap.AttesterDutyWithMeta, error) {
			return eth2wrap.AttesterDutyWithMeta{Metadata: map[string]any{"v": v}}, nil
		},
		func(context.Context, eth2p0.Epoch, []eth2p0.ValidatorIndex) (eth2wrap.SyncDutyWithMeta, error) {
			return eth2wrap.SyncDutyWithMeta{Metadata: map[string]any{"v": v}}, nil
		},
	)
}

// ansAV / ansPD: canonical answer of a cache endpoint.
func ansAV(av eth2wrap.ActiveValidators, err error) string {
	if err != nil {
		if strings.Contains(err.Error(), "no active validator cache") {
			return "nocache"
		}

		return "other:" + err.Error()
	}
	for k := range av {
		return "v" + strconv.Itoa(int(k))
	}

	return "empty"
}

func ansPD(pd eth2wrap.ProposerDutyWithMeta, err error) string {
	if err != nil {
		if strings.Contains(err.Error(), "no active proposer duties cache") {
			return "nocache"
		}

		return "other:" + err.Error()
	}
	if v, ok := pd.Metadata["v"].(int); ok {
		return "v" + strconv.Itoa(v)
	}

	return "empty"
}

func fv(v int) [4]byte { return [4]byte{byte(v >> 8), byte(v), 0, 1} }

// ---------------------------------------------------------------------------------------------
// the scripted provider

func (n *nodeT) newInner(act, syn bool) *inner {
	n.mu.Lock()
	defer n.mu.Unlock()
	in := &inner{Client: eth2wrap.VerifNewHTTPAdapter(n.address()), n: n, id: len(n.made), active: act, synced: syn}
	n.made = append(n.made, in)

	return in
}

func (n *nodeT) provider(ctx context.Context) (eth2wrap.Client, error) {
	n.mu.Lock()
	n.prov++
	n.mu.Unlock()
	if c, ok := ctx.Value(callerKey{}).(*caller); ok {
		n.ep.arrive <- c
		var d provDecision
		if c.hon {
			select {
			case d = <-c.release:
			case <-ctx.Done():
				return nil, ctx.Err()
			}
		} else {
			d = <-c.release
		}
		if d.ok {
			return n.newInner(d.act, d.syn), nil
		}

		return nil, errors.New("creation failed: connection refused by script")
	}
	if mc, ok := ctx.Value(mcallKey{}).(*mcall); ok {
		if mc.script(n).create {
			return n.newInner(true, true), nil
		}
		mc.park(n)

		return nil, mc.mkErr(n)
	}
	panic("provider called without a scripted caller")
}

// ---------------------------------------------------------------------------------------------

type episode struct {
	prim, fbs []*nodeT
	m         eth2wrap.Client
	arrive    chan *caller
	mVal      int
	mDut      int
}

func (ep *episode) nodes() []*nodeT { return append(append([]*nodeT{}, ep.prim...), ep.fbs...) }

func (ep *episode) node(tok string) *nodeT {
	if len(tok) < 2 {
		return nil
	}
	i, err := strconv.Atoi(tok[1:])
	if err != nil || i < 0 {
		return nil
	}
	switch {
	case tok[0] == 'p' && i < len(ep.prim):
		return ep.prim[i]
	case tok[0] == 'f' && i < len(ep.fbs):
		return ep.fbs[i]
	}

	return nil
}

func newEpisode(p, f int) *episode {
	ep := &episode{arrive: make(chan *caller, 64)}
	mk := func(fb bool, i int) *nodeT {
		n := &nodeT{fb: fb, idx: i, ep: ep, live: map[int]*caller{}, holder: -1, lzVal: -1, lzDut: -1}
		n.lz = eth2wrap.VerifNewLazy(n.provider)

		return n
	}
	var pc, fc []eth2wrap.Client
	for i := 0; i < p; i++ {
		n := mk(false, i)
		ep.prim = append(ep.prim, n)
		pc = append(pc, n.lz)
	}
	for i := 0; i < f; i++ {
		n := mk(true, i)
		ep.fbs = append(ep.fbs, n)
		fc = append(fc, n.lz)
	}
	m, err := eth2wrap.Instrument(pc, fc)
	hx.Must(err)
	ep.m = m

	return ep
}

// close releases everything that is parked so that no goroutine outlives the episode.
func (ep *episode) close() {
	if ep == nil {
		return
	}
	for _, n := range ep.nodes() {
		for _, c := range n.live {
			c.cancel()
		}
	}
	for _, n := range ep.nodes() {
		if n.holder >= 0 {
			if h := n.live[n.holder]; h != nil && !h.hon {
				h.release <- provDecision{}
			}
		}
	}
	deadline := time.Now().Add(watchdog)
	for _, n := range ep.nodes() {
		for len(n.live) > 0 && time.Now().Before(deadline) {
			progressed := false
			for id, c := range n.live {
				select {
				case <-c.done:
					delete(n.live, id)
					progressed = true
				default:
				}
			}
			if progressed {
				continue
			}
			select {
			case d := <-ep.arrive:
				if !d.hon {
					go func() { d.release <- provDecision{} }()
				}
			case <-time.After(time.Millisecond):
			}
		}
	}
}

func tokAddr(a string) string {
	if a == "" {
		return "-"
	}
	if strings.HasPrefix(a, "http://") {
		return strings.TrimPrefix(a, "http://")
	}

	return "x"
}

func addrTok(t string) string {
	switch t {
	case "-":
		return ""
	case "x":
		return "http://nobody"
	}

	return "http://" + t
}

func b01(b bool) string {
	if b {
		return "1"
	}

	return "0"
}

func optInt(v int) string {
	if v < 0 {
		return "-"
	}

	return strconv.Itoa(v)
}

// startCall starts caller c on node n.
func (n *nodeT) startCall(id int, kind string) *caller {
	ctx, cancel := context.WithCancel(context.Background())
	c := &caller{id: id, kind: kind, hon: id%4 != 0, node: n, cancel: cancel, release: make(chan provDecision), done: make(chan callRet, 2), by: -1}
	ctx = context.WithValue(ctx, callerKey{}, c)
	n.live[id] = c
	go func() {
		var ans string
		var err error
		switch kind {
		case "nv":
			var r *eth2api.Response[string]
			r, err = n.lz.NodeVersion(ctx, &eth2api.NodeVersionOpts{})
			if err == nil {
				ans = "node"
				if r.Data != n.name() {
					ans = "other-node:" + r.Data
				}
			}
		case "av":
			var av eth2wrap.ActiveValidators
			av, err = n.lz.ActiveValidators(ctx)
			ans = ansAV(av, err)
			if ans == "nocache" {
				err = nil
			}
		default:
			var pd eth2wrap.ProposerDutyWithMeta
			pd, err = n.lz.ProposerDutiesCache(ctx, 0, nil)
			ans = ansPD(pd, err)
			if ans == "nocache" {
				err = nil
			}
		}
		switch {
		case err == nil:
			c.byMu.Lock()
			by := c.by
			c.byMu.Unlock()
			c.done <- callRet{fmt.Sprintf("got:%d:%s", by, ans)}
		case errors.Is(err, context.Canceled):
			c.done <- callRet{"ctx"}
		case strings.Contains(err.Error(), "creation failed"):
			c.done <- callRet{"err"}
		default:
			c.done <- callRet{"other:" + err.Error()}
		}
	}()

	return c
}

func (n *nodeT) finish(c *caller) {
	delete(n.live, c.id)
	if n.holder == c.id {
		n.holder = -1
	}
}

// monitorRet: property monitors on one return, independent of the model.
func (n *nodeT) monitorRet(c *caller, res string, why string) {
	switch {
	case strings.HasPrefix(res, "got:"):
		if !strings.HasPrefix(res, "got:0:") {
			theRun.Violate("lazymulti:two_clients_created", fmt.Sprintf("caller %d on %s was answered by client %s (%s)", c.id, n.name(), res, why))
		}
	case res == "err":
		if why != "own-provider-error" {
			theRun.Violate("lazymulti:error_not_confined_to_node", fmt.Sprintf("caller %d on %s returned a creation error that was not its own provider's (%s)", c.id, n.name(), why))
		}
	case res == "ctx":
		if !c.cancelled {
			theRun.Violate("lazymulti:uncancelled_caller_got_ctx_error", fmt.Sprintf("caller %d on %s returned a context error without being cancelled (%s)", c.id, n.name(), why))
		}
	default:
		theRun.Violate("lazymulti:unexpected_result", fmt.Sprintf("caller %d on %s: %s (%s)", c.id, n.name(), res, why))
	}
	n.mu.Lock()
	made := len(n.made)
	n.mu.Unlock()
	if made > 1 {
		theRun.Violate("lazymulti:two_clients_created", fmt.Sprintf("the provider of %s returned %d clients", n.name(), made))
	}
}

// onCreated: monitors at the moment a client was created.
func (n *nodeT) onCreated() {
	in := n.inner()
	if in == nil {
		return
	}
	if cl, ok := eth2wrap.VerifLazyClient(n.lz); !ok || cl != eth2wrap.Client(in) {
		theRun.Violate("lazymulti:created_client_not_installed", "the lazy client of "+n.name()+" does not hold the client its provider returned")
	}
	av := ansAV(in.Client.ActiveValidators(context.Background()))
	pd := ansPD(in.Client.ProposerDutiesCache(context.Background(), 0, nil))
	if n.lzVal >= 0 && av != "v"+strconv.Itoa(n.lzVal) {
		theRun.Violate("lazymulti:validator_cache_lost_on_late_client", fmt.Sprintf("%s: validator cache %d was set before the client existed, the client created later has %s", n.name(), n.lzVal, av))
	}
	if n.lzDut >= 0 && pd != "v"+strconv.Itoa(n.lzDut) {
		theRun.Violate("lazymulti:duties_cache_lost_on_late_client", fmt.Sprintf("%s: duties cache %d was set before the client existed, the client created later has %s (setClient must hand over the duties caches as well)", n.name(), n.lzDut, pd))
	}
}

// handOver: the lock was released without a client; if callers are spinning, one of them must call the provider.
func (n *nodeT) handOver(what string) string {
	if len(n.live) == 0 {
		return "-"
	}
	select {
	case d := <-n.ep.arrive:
		if d.node != n || n.live[d.id] == nil {
			theRun.Violate("lazymulti:unexpected_provider_call", "provider called by a caller that is not waiting on "+n.name())
		}
		n.holder = d.id

		return strconv.Itoa(d.id)
	case <-expired():
		theRun.Violate("lazymulti:creation_not_retried", fmt.Sprintf("%s: %s, %d callers are waiting, nobody called the provider again", n.name(), what, len(n.live)))

		return "stuck"
	}
}

func expired() <-chan time.Time {
	ch := make(chan time.Time, 1)
	go func() { ch <- <-time.After(watchdog) }()

	return ch
}

func waitDone(c *caller) (string, bool) {
	select {
	case r := <-c.done:
		return r.res, true
	case <-expired():
		return "", false
	}
}

func stripObs(op string) string {
	if i := strings.Index(op, " ~"); i >= 0 {
		return op[:i]
	}

	return op
}

// execOp executes one op on the real code; returns the op line (with what was observed) and the canonical output.
func execOp(epp **episode, op string) (string, string) {
	base := stripObs(op)
	ws := strings.Fields(base)
	if len(ws) == 0 {
		return op, "bad-op"
	}
	if ws[0] == "new" {
		if len(ws) != 3 {
			return op, "bad-op"
		}
		p, e1 := strconv.Atoi(ws[1])
		f, e2 := strconv.Atoi(ws[2])
		if e1 != nil || e2 != nil || p < 1 || p > 8 || f < 0 || f > 8 {
			return op, "bad-op"
		}
		(*epp).close()
		*epp = newEpisode(p, f)
		(*epp).mVal, (*epp).mDut = -1, -1

		return op, "ok"
	}
	ep := *epp
	if ep == nil {
		return op, "bad-op"
	}
	atoi := func(s string) (int, bool) {
		v, err := strconv.Atoi(s)

		return v, err == nil && v >= 0
	}
	switch ws[0] {
	case "call":
		if len(ws) != 4 {
			return op, "bad-op"
		}
		n := ep.node(ws[1])
		id, ok := atoi(ws[2])
		if n == nil || !ok || (ws[3] != "nv" && ws[3] != "av" && ws[3] != "pd") {
			return op, "bad-op"
		}
		if n.live[id] != nil {
			return op, "dup"
		}
		hadClient := n.inner() != nil
		holderBefore := n.holder
		c := n.startCall(id, ws[3])
		wait := watchdog
		if !hadClient && holderBefore >= 0 {
			wait = settle // expected to spin: nothing to wait for
		}
		select {
		case r := <-c.done:
			n.finish(c)
			n.monitorRet(c, r.res, "call")

			return op, "ret " + strconv.Itoa(id) + ":" + r.res
		case d := <-ep.arrive:
			if d != c {
				theRun.Violate("lazymulti:unexpected_provider_call", "another caller reached the provider of "+n.name())
			}
			if holderBefore >= 0 {
				theRun.Violate("lazymulti:two_callers_in_provider", fmt.Sprintf("%s: caller %d entered the provider while caller %d is inside", n.name(), d.id, holderBefore))
			}
			n.holder = d.id

			return op, "parked"
		case <-time.After(wait):
			if hadClient {
				theRun.Violate("lazymulti:call_blocked_with_client", fmt.Sprintf("%s has a client, caller %d did not return", n.name(), id))
			} else if holderBefore < 0 {
				sig := "lazymulti:lock_leaked"
				if n.hadCancel {
					sig = "lazymulti:cancel_poisoned_client"
				} else if n.hadFailure {
					sig = "lazymulti:creation_not_retried"
				}
				theRun.Violate(sig, fmt.Sprintf("%s: no client, nobody inside the provider, caller %d neither returned nor called the provider", n.name(), id))
			}

			return op, "spin"
		}
	case "ok":
		if len(ws) != 5 {
			return op, "bad-op"
		}
		n := ep.node(ws[1])
		id, ok := atoi(ws[2])
		if n == nil || !ok {
			return op, "bad-op"
		}
		if n.holder != id || n.live[id] == nil {
			return op, "noop"
		}
		c := n.live[id]
		c.release <- provDecision{ok: true, act: ws[3] == "1", syn: ws[4] == "1"}
		var rets []string
		ids := []int{id}
		var others []int
		for k := range n.live {
			if k != id {
				others = append(others, k)
			}
		}
		sort.Ints(others)
		for _, k := range append(ids, others...) {
			cc := n.live[k]
			var res string
			var ok bool
			select {
			case r := <-cc.done:
				res, ok = r.res, true
			case d := <-ep.arrive:
				theRun.Violate("lazymulti:two_clients_created", fmt.Sprintf("%s: caller %d called the provider although a client had been created", n.name(), d.id))
				go func() { d.release <- provDecision{ok: true} }()
				res, ok = waitDone(cc)
			case <-expired():
			}
			if !ok {
				theRun.Violate("lazymulti:waiter_not_released_after_creation", fmt.Sprintf("%s: client created, caller %d did not return", n.name(), k))
				res = "stuck"
			} else {
				if k == id {
					n.onCreated()
				}
				n.monitorRet(cc, res, "after-creation")
			}
			n.finish(cc)
			rets = append(rets, fmt.Sprintf("%d:%s", k, res))
		}
		sort.Slice(rets, func(i, j int) bool {
			a, _ := strconv.Atoi(strings.SplitN(rets[i], ":", 2)[0])
			b, _ := strconv.Atoi(strings.SplitN(rets[j], ":", 2)[0])

			return a < b
		})

		return op, "ret " + strings.Join(rets, " ")
	case "err":
		if len(ws) != 3 {
			return op, "bad-op"
		}
		n := ep.node(ws[1])
		id, ok := atoi(ws[2])
		if n == nil || !ok {
			return op, "bad-op"
		}
		if n.holder != id || n.live[id] == nil {
			return base + " ~ -", "noop"
		}
		c := n.live[id]
		c.release <- provDecision{}
		res, ok := waitDone(c)
		if !ok {
			theRun.Violate("lazymulti:creator_stuck_after_error", "creator did not return the provider's error")
			res = "stuck"
		} else {
			n.monitorRet(c, res, "own-provider-error")
		}
		n.finish(c)
		n.hadFailure = true
		d := n.handOver("creation failed")

		return base + " ~ " + d, fmt.Sprintf("ret %d:%s acq %s", id, res, d)
	case "cancel":
		if len(ws) != 3 {
			return op, "bad-op"
		}
		n := ep.node(ws[1])
		id, ok := atoi(ws[2])
		if n == nil || !ok {
			return op, "bad-op"
		}
		c := n.live[id]
		if c == nil {
			return base + " ~ -", "noop"
		}
		c.cancelled = true
		n.hadCancel = true
		c.cancel()
		if n.holder == id && !c.hon {
			select {
			case r := <-c.done:
				c.done <- r
				theRun.Violate("lazymulti:unexpected_result", "a provider that ignores its context returned on cancellation")
			case <-time.After(settle):
			}

			return base + " ~ -", "none"
		}
		res, ok := waitDone(c)
		if !ok {
			theRun.Violate("lazymulti:cancelled_caller_blocked", fmt.Sprintf("%s: caller %d was cancelled and did not return (holder %d)", n.name(), id, n.holder))

			return base + " ~ -", "stuck"
		}
		n.monitorRet(c, res, "cancelled")
		wasHolder := n.holder == id
		n.finish(c)
		if !wasHolder {
			return base + " ~ -", fmt.Sprintf("ret %d:%s", id, res)
		}
		d := n.handOver("the creating caller was cancelled")

		return base + " ~ " + d, fmt.Sprintf("ret %d:%s acq %s", id, res, d)
	case "fork", "val", "dut":
		if len(ws) != 3 {
			return op, "bad-op"
		}
		n := ep.node(ws[1])
		v, ok := atoi(ws[2])
		if n == nil || !ok {
			return op, "bad-op"
		}
		in := n.inner()
		switch ws[0] {
		case "fork":
			n.lz.SetForkVersion(fv(v))
			if in != nil && in.lastFork() != v {
				theRun.Violate("lazymulti:fork_version_lost", fmt.Sprintf("%s has a client, SetForkVersion(%d) did not reach it", n.name(), v))
			} else if in == nil {
				theRun.Count("observed:fork_version_dropped_without_client")
			}
		case "val":
			n.lz.SetValidatorCache(valFn(v))
			n.lzVal = v
		default:
			setDut(n.lz, v)
			n.lzDut = v
		}
		checkCaches(n)

		return op, "ok"
	case "get":
		if len(ws) != 2 {
			return op, "bad-op"
		}
		n := ep.node(ws[1])
		if n == nil {
			return op, "bad-op"
		}

		return op, getNode(n)
	case "mfork", "mval", "mdut":
		if len(ws) != 2 {
			return op, "bad-op"
		}
		v, ok := atoi(ws[1])
		if !ok {
			return op, "bad-op"
		}
		switch ws[0] {
		case "mfork":
			ep.m.SetForkVersion(fv(v))
			for _, n := range ep.prim {
				if in := n.inner(); in != nil && in.lastFork() != v {
					theRun.Violate("lazymulti:fork_version_lost", fmt.Sprintf("multi.SetForkVersion(%d) did not reach the existing client of %s", v, n.name()))
				}
			}
		case "mval":
			ep.m.SetValidatorCache(valFn(v))
			for _, n := range ep.prim {
				n.lzVal = v
			}
			if len(ep.fbs) > 0 {
				theRun.Count("observed:cache_setter_skips_fallbacks")
			}
		default:
			setDut(ep.m, v)
			for _, n := range ep.prim {
				n.lzDut = v
			}
		}
		for _, n := range ep.prim {
			checkCaches(n)
		}

		return op, "ok"
	case "mget":
		if len(ws) != 1 {
			return op, "bad-op"
		}
		if ep.m.Name() != "eth2wrap.multi" {
			theRun.Violate("lazymulti:multi_name", "multi.Name() = "+ep.m.Name())
		}
		act, syn := ep.m.IsActive(), ep.m.IsSynced()
		wa, ws2 := false, false
		for _, n := range ep.prim {
			if in := n.inner(); in != nil {
				wa = wa || in.active
				ws2 = ws2 || in.synced
			}
		}
		if act != wa || syn != ws2 {
			theRun.Violate("lazymulti:multi_active_synced_not_any", fmt.Sprintf("IsActive %v (any primary client active: %v), IsSynced %v (any: %v)", act, wa, syn, ws2))
		}
		hdr := "nil"
		if h := ep.m.Headers(); h != nil {
			hdr = h["node"]
		}
		a := tokAddr(ep.m.Address())

		return "mget ~ " + a, fmt.Sprintf("act=%s syn=%s hdr=%s addr=%s", b01(act), b01(syn), hdr, a)
	case "mcfa":
		if len(ws) != 2 {
			return op, "bad-op"
		}
		r := ep.m.ClientForAddress(addrTok(ws[1]))
		cls, fbs, ok := eth2wrap.VerifMultiParts(r)
		if !ok {
			return op, "not-a-multi"
		}
		if !eth2wrap.VerifSameSelector(r, ep.m) {
			theRun.Violate("lazymulti:scoped_multi_new_selector", "ClientForAddress returned a multi with another selector")
		}
		var names []string
		for _, c := range cls {
			nm := "?"
			for _, n := range ep.nodes() {
				if n.lz == c {
					nm = n.name()
				}
			}
			names = append(names, nm)
		}

		return op, fmt.Sprintf("clients=%s fallbacks=%d", strings.Join(names, ","), len(fbs))
	case "mcall":
		return op, ep.mcall(ws)
	}

	return op, "bad-op"
}

// checkCaches: a cache set through the lazy client must be what an existing client answers from.
func checkCaches(n *nodeT) {
	in := n.inner()
	if in == nil {
		return
	}
	if n.lzVal >= 0 {
		if av := ansAV(in.Client.ActiveValidators(context.Background())); av != "v"+strconv.Itoa(n.lzVal) {
			theRun.Violate("lazymulti:validator_cache_not_forwarded", fmt.Sprintf("%s: existing client answers %s, cache %d was set", n.name(), av, n.lzVal))
		}
	}
}

func getNode(n *nodeT) string {
	in := n.inner()
	act, syn := n.lz.IsActive(), n.lz.IsSynced()
	name := 0
	if s := n.lz.Name(); s == "inner" {
		name = 1
	} else if s != "" {
		name = 9
	}
	hdr := "nil"
	if h := n.lz.Headers(); h != nil {
		hdr = h["node"]
	}
	cfa := "other"
	switch r := n.lz.ClientForAddress("http://whatever"); {
	case r == n.lz:
		cfa = "self"
	case in != nil && r == eth2wrap.Client(in):
		cfa = "inner"
	}
	n.mu.Lock()
	created, prov := len(n.made), n.prov
	n.mu.Unlock()
	inn := "none"
	if in != nil {
		av := strings.TrimPrefix(ansAV(in.Client.ActiveValidators(context.Background())), "v")
		pd := strings.TrimPrefix(ansPD(in.Client.ProposerDutiesCache(context.Background(), 0, nil)), "v")
		if av == "nocache" {
			av = "-"
		}
		if pd == "nocache" {
			pd = "-"
		}
		inn = fmt.Sprintf("%d,%s,%s,%s", in.id, optInt(in.lastFork()), av, pd)
	}

	return fmt.Sprintf("act=%s syn=%s addr=%s name=%d hdr=%s cfa=%s created=%d prov=%d in=%s",
		b01(act), b01(syn), tokAddr(n.lz.Address()), name, hdr, cfa, created, prov, inn)
}

// ---------------------------------------------------------------------------------------------
// a call through the real multi over the real lazy clients, completions released in a scripted order

type script struct{ create, answer bool }

type mcall struct {
	ep      *episode
	cls     string
	scripts map[*nodeT]script
	arrive  chan *nodeT
	gates   map[*nodeT]chan struct{}
}

func (mc *mcall) script(n *nodeT) script { return mc.scripts[n] }

func (mc *mcall) park(n *nodeT) {
	mc.arrive <- n
	<-mc.gates[n]
}

func (mc *mcall) mkErr(n *nodeT) error {
	if mc.cls == "to" {
		return fmt.Errorf("node %s: http request timeout", n.name())
	}

	return fmt.Errorf("node %s: boom", n.name())
}

type spyCtx struct {
	context.Context
	sig chan struct{}
}

func (s *spyCtx) Err() error {
	select {
	case s.sig <- struct{}{}:
	default:
	}

	return s.Context.Err()
}

func parseScripts(s string, n int) ([]script, bool) {
	if s == "-" {
		s = ""
	}
	if len(s) != n {
		return nil, false
	}
	var out []script
	for _, ch := range s {
		switch ch {
		case 'o':
			out = append(out, script{true, true})
		case 'c':
			out = append(out, script{false, true})
		case 'a':
			out = append(out, script{true, false})
		default:
			return nil, false
		}
	}

	return out, true
}

func parseOrder(s string, n int) ([]int, bool) {
	if s == "-" {
		return nil, n == 0
	}
	seen := map[int]bool{}
	var out []int
	for _, t := range strings.Split(s, ",") {
		v, err := strconv.Atoi(t)
		if err != nil || v < 0 || v >= n || seen[v] {
			return nil, false
		}
		seen[v] = true
		out = append(out, v)
	}

	return out, len(out) == n
}

func clBits(ns []*nodeT) string {
	var b strings.Builder
	for _, n := range ns {
		if n.inner() != nil {
			b.WriteByte('1')
		} else {
			b.WriteByte('0')
		}
	}

	return b.String()
}

func (ep *episode) mcall(ws []string) string {
	if len(ws) != 7 || (ws[1] != "nv" && ws[1] != "av" && ws[1] != "pd") || (ws[2] != "to" && ws[2] != "er") {
		return "bad-op"
	}
	ps, ok1 := parseScripts(ws[3], len(ep.prim))
	fs, ok2 := parseScripts(ws[4], len(ep.fbs))
	po, ok3 := parseOrder(ws[5], len(ep.prim))
	fo, ok4 := parseOrder(ws[6], len(ep.fbs))
	if !ok1 || !ok2 || !ok3 || !ok4 {
		return "bad-op"
	}
	for _, n := range ep.nodes() {
		if len(n.live) > 0 {
			return "busy"
		}
	}
	kind := ws[1]
	mc := &mcall{ep: ep, cls: ws[2], scripts: map[*nodeT]script{}, arrive: make(chan *nodeT, 32), gates: map[*nodeT]chan struct{}{}}
	for i, n := range ep.prim {
		mc.scripts[n] = ps[i]
		mc.gates[n] = make(chan struct{})
	}
	for i, n := range ep.fbs {
		mc.scripts[n] = fs[i]
		mc.gates[n] = make(chan struct{})
	}
	// what the scripts and the state before the call promise (for the monitors): which primaries answer successfully
	hadClient := map[*nodeT]bool{}
	good := func(n *nodeT) bool {
		s := mc.scripts[n]
		in := n.inner()
		if in == nil && !s.create {
			return false
		}
		switch kind {
		case "nv":
			return s.answer
		case "av":
			if in != nil {
				return ansAV(in.Client.ActiveValidators(context.Background())) != "nocache"
			}

			return n.lzVal >= 0
		default:
			if in != nil {
				return ansPD(in.Client.ProposerDutiesCache(context.Background(), 0, nil)) != "nocache"
			}

			return n.lzDut >= 0 // setClient hands the duties caches to a client created later (repair 83baa9b)
		}
	}
	anyGoodPrim := false
	for _, n := range ep.nodes() {
		hadClient[n] = n.inner() != nil
		if !hadClient[n] && !mc.scripts[n].create {
			n.hadFailure = true
		}
	}
	for _, n := range ep.prim {
		anyGoodPrim = anyGoodPrim || good(n)
	}
	type result struct {
		out string
		err error
	}
	base, cancel := context.WithCancel(context.Background())
	defer cancel()
	spy := &spyCtx{Context: context.WithValue(base, mcallKey{}, mc), sig: make(chan struct{}, 256)}
	done := make(chan result, 1)
	go func() {
		switch kind {
		case "nv":
			r, err := ep.m.NodeVersion(spy, &eth2api.NodeVersionOpts{})
			if err != nil {
				done <- result{err: err}
			} else {
				done <- result{out: r.Data}
			}
		case "av":
			av, err := ep.m.ActiveValidators(spy)
			done <- result{out: ansAV(av, nil), err: err}
		default:
			pd, err := ep.m.ProposerDutiesCache(spy, 0, nil)
			done <- result{out: ansPD(pd, nil), err: err}
		}
	}()
	released := map[*nodeT]bool{}
	var res result
	returned := false
	stuck := ""
	// wait until every node of a group is parked at its gate
	waitGroup := func(ns []*nodeT, first *nodeT) bool {
		need := len(ns)
		if first != nil {
			need--
		}
		for need > 0 {
			select {
			case <-mc.arrive:
				need--
			case <-expired():
				return false
			}
		}

		return true
	}
	releaseIn := func(ns []*nodeT, order []int) {
		for _, i := range order {
			n := ns[i]
			for drained := false; !drained; {
				select {
				case <-spy.sig:
				default:
					drained = true
				}
			}
			released[n] = true
			close(mc.gates[n])
			select {
			case <-spy.sig:
			case res = <-done:
				returned = true

				return
			case <-expired():
				stuck = "result_not_received"

				return
			}
		}
	}
	if !waitGroup(ep.prim, nil) {
		stuck = "primaries_not_queried_in_parallel"
	}
	if stuck == "" {
		releaseIn(ep.prim, po)
	}
	usedFb := false
	if stuck == "" && !returned {
		// every primary completed: the call returns or the fallbacks are queried
		for !returned && !usedFb && stuck == "" {
			select {
			case res = <-done:
				returned = true
			case n := <-mc.arrive:
				usedFb = true
				if !n.fb {
					theRun.Violate("lazymulti:node_queried_twice", "a primary was queried again")
				}
				if !waitGroup(ep.fbs, n) {
					stuck = "fallbacks_not_queried_in_parallel"
				}
			case <-spy.sig:
			case <-expired():
				stuck = "no_return_after_all_primaries"
			}
		}
		if usedFb && stuck == "" {
			releaseIn(ep.fbs, fo)
		}
	}
	if stuck == "" && !returned {
		select {
		case res = <-done:
			returned = true
		case <-expired():
			stuck = "no_return_after_all_nodes"
		}
	}
	// let every parked worker go
	for n, g := range mc.gates {
		if !released[n] {
			close(g)
		}
	}
	if stuck != "" {
		theRun.Violate("lazymulti:multi_call_stuck", "multi call did not proceed: "+stuck)

		return "stuck:" + stuck
	}
	for _, n := range ep.nodes() {
		if !hadClient[n] && n.inner() != nil {
			n.onCreatedByMulti()
		}
		n.mu.Lock()
		made := len(n.made)
		n.mu.Unlock()
		if made > 1 {
			theRun.Violate("lazymulti:two_clients_created", fmt.Sprintf("the provider of %s returned %d clients", n.name(), made))
		}
	}
	var out string
	if res.err != nil {
		to, sy, bg := eth2wrap.VerifIsFallbackError(res.err)
		out = "err er"
		if to || sy || bg {
			out = "err un"
		}
		if anyGoodPrim {
			theRun.Violate("lazymulti:error_not_confined_to_node", fmt.Sprintf("a primary can be created and answers, the call failed: %v", res.err))
		}
	} else {
		out = "ok " + res.out
	}

	return fmt.Sprintf("%s cl=%s|%s", out, clBits(ep.prim), clBits(ep.fbs))
}

func (n *nodeT) onCreatedByMulti() { n.onCreated() }

// ---------------------------------------------------------------------------------------------

type gen struct {
	r      *hx.Rng
	nextID int
	nextV  int
}

func (g *gen) kind() string { return []string{"nv", "nv", "av", "pd"}[g.r.Intn(4)] }

func (g *gen) pickNode(ep *episode) *nodeT {
	ns := ep.nodes()
	if g.r.Chance(3, 5) {
		return ep.prim[g.r.Intn(len(ep.prim))]
	}

	return ns[g.r.Intn(len(ns))]
}

func (g *gen) scripts(n int) string {
	if n == 0 {
		return "-"
	}
	var b strings.Builder
	for i := 0; i < n; i++ {
		b.WriteByte("oooccca"[g.r.Intn(7)])
	}

	return b.String()
}

func (g *gen) order(n int) string {
	if n == 0 {
		return "-"
	}
	var ts []string
	for _, v := range g.r.Perm(n) {
		ts = append(ts, strconv.Itoa(v))
	}

	return strings.Join(ts, ",")
}

func (g *gen) next(ep *episode) string {
	n := g.pickNode(ep)
	x := g.r.Intn(100)
	if x >= 15 && x < 52 && len(n.live) == 0 && !g.r.Chance(1, 6) {
		// ok / err / cancel and every second call aim at a node somebody is inside of
		for _, m := range ep.nodes() {
			if len(m.live) > 0 {
				n = m
			}
		}
	}
	busy := false
	for _, m := range ep.nodes() {
		if len(m.live) > 0 {
			busy = true
		}
	}
	liveID := func() int {
		if len(n.live) == 0 || g.r.Chance(1, 12) {
			return g.r.Intn(g.nextID + 2)
		}
		var ids []int
		for id := range n.live {
			ids = append(ids, id)
		}
		sort.Ints(ids)

		return ids[g.r.Intn(len(ids))]
	}
	holderID := func() int {
		if n.holder >= 0 && !g.r.Chance(1, 10) {
			return n.holder
		}

		return liveID()
	}
	g.nextV++
	switch {
	case x < 22:
		g.nextID++

		return fmt.Sprintf("call %s %d %s", n.name(), g.nextID, g.kind())
	case x < 32:
		return fmt.Sprintf("ok %s %d %d %d", n.name(), holderID(), g.r.Intn(2), g.r.Intn(2))
	case x < 42:
		return fmt.Sprintf("err %s %d", n.name(), holderID())
	case x < 52:
		return fmt.Sprintf("cancel %s %d", n.name(), liveID())
	case x < 56:
		return fmt.Sprintf("fork %s %d", n.name(), g.nextV)
	case x < 60:
		return fmt.Sprintf("val %s %d", n.name(), g.nextV)
	case x < 64:
		return fmt.Sprintf("dut %s %d", n.name(), g.nextV)
	case x < 72:
		return "get " + n.name()
	case x < 75:
		return fmt.Sprintf("mfork %d", g.nextV)
	case x < 78:
		return fmt.Sprintf("mval %d", g.nextV)
	case x < 81:
		return fmt.Sprintf("mdut %d", g.nextV)
	case x < 86:
		return "mget"
	case x < 89:
		var withClient []string
		for _, m := range ep.nodes() {
			if m.inner() != nil && (m.fb || g.r.Chance(1, 2)) {
				withClient = append(withClient, m.name())
			}
		}
		a := []string{n.name(), n.name(), "-", "x"}[g.r.Intn(4)]
		if len(withClient) > 0 && g.r.Chance(2, 3) {
			a = withClient[g.r.Intn(len(withClient))]
		}

		return "mcfa " + a
	default:
		if busy && !g.r.Chance(1, 8) {
			// make the multi callable: resolve a parked creation
			for _, m := range ep.nodes() {
				if m.holder >= 0 {
					if g.r.Chance(1, 2) {
						return fmt.Sprintf("ok %s %d %d %d", m.name(), m.holder, g.r.Intn(2), g.r.Intn(2))
					}

					return fmt.Sprintf("err %s %d", m.name(), m.holder)
				}
			}
		}

		return fmt.Sprintf("mcall %s %s %s %s %s %s", g.kind(), []string{"to", "er"}[g.r.Intn(2)],
			g.scripts(len(ep.prim)), g.scripts(len(ep.fbs)), g.order(len(ep.prim)), g.order(len(ep.fbs)))
	}
}

func main() {
	a := hx.ParseArgs()
	hx.Must(log.InitLogger(log.Config{Level: "fatal", Format: "console", Color: "disable"}))
	run := hx.NewRun(a.Dir)
	theRun = run
	defer run.Close()
	var ep *episode
	do := func(op string) {
		run.Begin(op)
		t0 := time.Now()
		line, out := execOp(&ep, op)
		if time.Since(t0) >= watchdog { // only stops the generator early on an implementation that hangs
			nStuck++
		}
		run.Count("op:" + strings.Fields(line)[0])
		run.Count("out:" + strings.Fields(out)[0])
		if strings.HasPrefix(out, "ret") || strings.HasPrefix(out, "ok ") || strings.HasPrefix(out, "err ") {
			run.Case(strings.Fields(line)[0] + "=>" + out)
		}
		run.Op(line, out)
	}
	if a.Mode == "exec" {
		for _, op := range hx.ReadOps(a.Ops) {
			do(op)
		}
		ep.close()

		return
	}
	r := hx.NewRng(a.Seed)
	g := &gen{r: r}
	for run.NOps < a.N && !run.Enough() && nStuck < 3 {
		do(fmt.Sprintf("new %d %d", 1+r.Intn(3), r.Intn(3)))
		g.nextID = 0
		steps := 10 + r.Intn(40)
		for i := 0; i < steps && run.NOps < a.N && nStuck < 3; i++ {
			do(g.next(ep))
		}
	}
	ep.close()
}
