// trans-multi: translator T-multi (C19).
//
// Reads app/eth2wrap/eth2wrap_gen.go and app/eth2wrap/multi.go of the repository under
// verification (env VERIF_REPO, default /repo) with go/ast and emits a Lean table
//
//	multiMethods : List (String × Bool)
//
// with one row per method of the multi beacon client `multi`: its name and whether its body routes
// the request through `provide(ctx, m.clients, m.fallbacks, …)` or `submit(ctx, m.clients,
// m.fallbacks, …)`, i.e. through the code modelled by CharonV.Provide with the configured primary
// and fallback nodes. The theorem CharonV.Provide.every_endpoint_routed consumes the table.
//
// The three leading arguments are compared after def-use normalisation inside the method: an
// identifier that names a local variable defined exactly once, by `x := e` / `x, y := e1, e2` /
// `var x = e` in the statement list of the method body itself, never assigned again (neither the
// variable nor an element / field of it), never address-taken, never redeclared in an inner scope
// or as a closure parameter, and not named like the receiver / a parameter / a result, stands for
// its defining expression `e`. The context argument must then be the method's own parameter of
// type context.Context (whatever its name).
//
// Fails closed (exit 1, nothing written) on Go it does not understand: a call of provide/submit
// whose context / clients / fallbacks arguments are not, after that normalisation, (<the context
// parameter>, <recv>.clients, <recv>.fallbacks), more than one such call in a method, a routed
// method whose receiver is unnamed, a method declared twice, or a file that does not parse.
//
// usage: trans-multi <out.lean>
package main

import (
	"fmt"
	"go/ast"
	"go/parser"
	"go/token"
	"os"
	"path/filepath"
	"sort"
	"strings"
)

type row struct {
	name   string
	routed bool
	via    string
	file   string
}

func fail(format string, a ...any) {
	fmt.Fprintf(os.Stderr, "trans-multi: "+format+"\n", a...)
	os.Exit(1)
}

func recvIsMulti(fd *ast.FuncDecl) (string, bool) {
	if fd.Recv == nil || len(fd.Recv.List) != 1 {
		return "", false
	}
	f := fd.Recv.List[0]
	t := f.Type
	if st, ok := t.(*ast.StarExpr); ok {
		t = st.X
	}
	id, ok := t.(*ast.Ident)
	if !ok || id.Name != "multi" {
		return "", false
	}
	if len(f.Names) == 1 {
		return f.Names[0].Name, true
	}

	return "", true
}

func isSel(e ast.Expr, recv, field string) bool {
	s, ok := e.(*ast.SelectorExpr)
	if !ok || s.Sel.Name != field {
		return false
	}
	id, ok := s.X.(*ast.Ident)

	return ok && recv != "" && id.Name == recv
}

func calleeName(e ast.Expr) string {
	switch f := e.(type) {
	case *ast.Ident:
		return f.Name
	case *ast.IndexExpr: // provide[T](…)
		return calleeName(f.X)
	case *ast.IndexListExpr:
		return calleeName(f.X)
	}

	return ""
}

// rootIdent strips index / selector / star / paren / slice wrappers: the variable an lvalue or an
// address-of operand lives in.
func rootIdent(e ast.Expr) *ast.Ident {
	for {
		switch x := e.(type) {
		case *ast.Ident:
			return x
		case *ast.ParenExpr:
			e = x.X
		case *ast.IndexExpr:
			e = x.X
		case *ast.IndexListExpr:
			e = x.X
		case *ast.SelectorExpr:
			e = x.X
		case *ast.StarExpr:
			e = x.X
		case *ast.SliceExpr:
			e = x.X
		default:
			return nil
		}
	}
}

type localDef struct {
	expr ast.Expr
	pos  token.Pos
}

// singleDefLocals returns the locals of fd that may be replaced by their defining expression (see
// the package comment). Purely syntactic and conservative: every write / declaration / address-of
// occurrence of a NAME anywhere in the body counts, whatever scope it is in.
func singleDefLocals(fd *ast.FuncDecl) map[string]localDef {
	reserved := map[string]bool{}
	addFields := func(fl *ast.FieldList) {
		if fl == nil {
			return
		}
		for _, f := range fl.List {
			for _, n := range f.Names {
				reserved[n.Name] = true
			}
		}
	}
	addFields(fd.Recv)
	addFields(fd.Type.Params)
	addFields(fd.Type.Results)

	cand := map[string]localDef{}
	dupCand := map[string]bool{}
	add := func(id *ast.Ident, e ast.Expr) {
		if id.Name == "_" {
			return
		}
		if _, ok := cand[id.Name]; ok {
			dupCand[id.Name] = true
		}
		cand[id.Name] = localDef{e, id.End()}
	}
	for _, st := range fd.Body.List {
		switch s := st.(type) {
		case *ast.AssignStmt:
			if s.Tok != token.DEFINE || len(s.Lhs) != len(s.Rhs) {
				continue
			}
			for i, l := range s.Lhs {
				if id, ok := l.(*ast.Ident); ok {
					add(id, s.Rhs[i])
				}
			}
		case *ast.DeclStmt:
			gd, ok := s.Decl.(*ast.GenDecl)
			if !ok || gd.Tok != token.VAR {
				continue
			}
			for _, sp := range gd.Specs {
				vs, ok := sp.(*ast.ValueSpec)
				if !ok || len(vs.Names) != len(vs.Values) {
					continue
				}
				for i, n := range vs.Names {
					add(n, vs.Values[i])
				}
			}
		}
	}

	writes := map[string]int{}
	bad := map[string]bool{}
	write := func(e ast.Expr) {
		if id := rootIdent(e); id != nil {
			writes[id.Name]++
		} else if e != nil {
			// an lvalue this translator cannot attribute to a variable: nothing is resolvable
			bad["*"] = true
		}
	}
	ast.Inspect(fd.Body, func(n ast.Node) bool {
		switch x := n.(type) {
		case *ast.AssignStmt:
			for _, l := range x.Lhs {
				write(l)
			}
		case *ast.IncDecStmt:
			write(x.X)
		case *ast.RangeStmt:
			if x.Key != nil {
				write(x.Key)
			}
			if x.Value != nil {
				write(x.Value)
			}
		case *ast.UnaryExpr:
			if x.Op == token.AND {
				if id := rootIdent(x.X); id != nil {
					bad[id.Name] = true
				}
			}
		case *ast.ValueSpec:
			for _, nm := range x.Names {
				writes[nm.Name]++
			}
		case *ast.FuncLit:
			for _, fl := range []*ast.FieldList{x.Type.Params, x.Type.Results} {
				if fl == nil {
					continue
				}
				for _, f := range fl.List {
					for _, nm := range f.Names {
						bad[nm.Name] = true
					}
				}
			}
		}
		return true
	})
	out := map[string]localDef{}
	if bad["*"] {
		return out
	}
	for name, d := range cand {
		if reserved[name] || dupCand[name] || bad[name] || writes[name] != 1 {
			continue
		}
		out[name] = d
	}
	return out
}

// resolve replaces an identifier that names a single-definition local (defined before `e`) by its
// defining expression, repeatedly.
func resolve(e ast.Expr, locals map[string]localDef) ast.Expr {
	for i := 0; i < 8; i++ {
		if p, ok := e.(*ast.ParenExpr); ok {
			e = p.X
			continue
		}
		id, ok := e.(*ast.Ident)
		if !ok {
			return e
		}
		d, ok := locals[id.Name]
		if !ok || d.pos > id.Pos() {
			return e
		}
		e = d.expr
	}
	return e
}

// ctxParam is the name of the method's parameter of type context.Context ("" if none or several).
func ctxParam(fd *ast.FuncDecl) string {
	name := ""
	for _, p := range fd.Type.Params.List {
		sel, ok := p.Type.(*ast.SelectorExpr)
		if !ok || sel.Sel.Name != "Context" {
			continue
		}
		if x, ok := sel.X.(*ast.Ident); !ok || x.Name != "context" {
			continue
		}
		for _, nm := range p.Names {
			if name != "" || nm.Name == "_" {
				return ""
			}
			name = nm.Name
		}
	}
	return name
}

func main() {
	if len(os.Args) != 2 {
		fail("usage: trans-multi <out.lean>")
	}
	repo := os.Getenv("VERIF_REPO")
	if repo == "" {
		repo = "/repo"
	}
	fset := token.NewFileSet()
	rows := map[string]row{}
	for _, fn := range []string{"eth2wrap_gen.go", "multi.go"} {
		path := filepath.Join(repo, "app", "eth2wrap", fn)
		file, err := parser.ParseFile(fset, path, nil, parser.SkipObjectResolution)
		if err != nil {
			fail("parse %s: %v", path, err)
		}
		for _, d := range file.Decls {
			fd, ok := d.(*ast.FuncDecl)
			if !ok {
				continue
			}
			recv, ok := recvIsMulti(fd)
			if !ok {
				continue
			}
			if _, dup := rows[fd.Name.Name]; dup {
				fail("method %s declared twice", fd.Name.Name)
			}
			r := row{name: fd.Name.Name, file: fn}
			n := 0
			if fd.Body == nil {
				fail("method %s has no body", fd.Name.Name)
			}
			locals := singleDefLocals(fd)
			ctxName := ctxParam(fd)
			ast.Inspect(fd.Body, func(nd ast.Node) bool {
				call, ok := nd.(*ast.CallExpr)
				if !ok {
					return true
				}
				name := calleeName(call.Fun)
				if name != "provide" && name != "submit" {
					return true
				}
				pos := fset.Position(call.Pos())
				if len(call.Args) < 4 {
					fail("%s: %s called with %d arguments", pos, name, len(call.Args))
				}
				// the ctx handed to provide must be the method's own context parameter
				if ctxName == "" {
					fail("method %s routes a request but has no (single, named) context.Context parameter", fd.Name.Name)
				}
				if id, ok := resolve(call.Args[0], locals).(*ast.Ident); !ok || id.Name != ctxName {
					fail("%s: first argument of %s is not the method's context parameter %s", pos, name, ctxName)
				}
				if !isSel(resolve(call.Args[1], locals), recv, "clients") {
					fail("%s: %s is not called with %s.clients as primary nodes", pos, name, recv)
				}
				if !isSel(resolve(call.Args[2], locals), recv, "fallbacks") {
					fail("%s: %s is not called with %s.fallbacks as fallback nodes", pos, name, recv)
				}
				n++
				r.via = name

				return true
			})
			if n > 1 {
				fail("method %s calls provide/submit %d times", fd.Name.Name, n)
			}
			r.routed = n == 1
			rows[r.name] = r
		}
	}
	if len(rows) == 0 {
		fail("no methods of multi found")
	}
	names := make([]string, 0, len(rows))
	for n := range rows {
		names = append(names, n)
	}
	sort.Strings(names)
	var b strings.Builder
	b.WriteString("/- GENERATED by harness/cmd/trans-multi from app/eth2wrap/eth2wrap_gen.go and multi.go — do not edit, not committed. -/\n")
	b.WriteString("namespace CharonV.Generated.Multi\n\n")
	b.WriteString("/-- (method of `multi`, routed through `provide`/`submit` with `(m.clients, m.fallbacks)`) -/\n")
	b.WriteString("def multiMethods : List (String × Bool) := [\n")
	for i, n := range names {
		r := rows[n]
		sep := ","
		if i == len(names)-1 {
			sep = ""
		}
		via := r.via
		if via == "" {
			via = "-"
		}
		fmt.Fprintf(&b, "  (%q, %v)%s -- %s, %s\n", r.name, r.routed, sep, via, r.file)
	}
	b.WriteString("]\n\nend CharonV.Generated.Multi\n")
	out := os.Args[1]
	if old, err := os.ReadFile(out); err == nil && string(old) == b.String() {
		fmt.Printf("trans-multi: %d methods of multi (table unchanged)\n", len(names))
		return
	}
	tmp := out + ".tmp"
	if err := os.WriteFile(tmp, []byte(b.String()), 0o644); err != nil {
		fail("write: %v", err)
	}
	if err := os.Rename(tmp, out); err != nil {
		fail("rename: %v", err)
	}
	fmt.Printf("trans-multi: %d methods of multi, %d routed\n", len(names), func() int {
		c := 0
		for _, r := range rows {
			if r.routed {
				c++
			}
		}

		return c
	}())
}
