// drive-deadline: correspondence driver for C16 (core/deadline.go).
//
// Runs the real deadliner (hook core.NewDeadlinerVerif, fake clock) in strict lock-step and
// records, per operation, its canonical observable result. Time unit: nanoseconds since genesis (slot duration is given in ms).
//
// ops:
//
//	cfg <slotMs> <slotsPerEpoch>   new episode: fresh deadliner, clock at genesis
//	add <slot> <type>              -> <status> [reported...]
//	adv <ms>                       -> - [reported...]
//
// reported list: "id@clock" in channel order, equal-deadline runs sorted by id; id = slot*16+type.
// When more than 10 duties expire inside one op the line is "<status> overflow <n-received>".
package main

import (
	"sync"
	"context"
	"fmt"
	"sort"
	"strconv"
	"strings"
	"time"

	"github.com/jonboulle/clockwork"

	"github.com/obolnetwork/charon/core"
	"github.com/obolnetwork/charon/testutil/beaconmock"

	"verifharness/hx"
)

const bufCap = 10

type episode struct {
	cancel    context.CancelFunc
	clock     *clockwork.FakeClock
	hook      *hookClock
	genesis   time.Time
	dl        core.Deadliner
	dlFunc    core.DeadlineFunc
	pending   map[int]int64 // scheduled, not yet reported: id -> deadline ms
	reported  map[int]bool
	everSched map[int]bool
	last      []core.Duty // duties received in the most recent op
	noTimer   int         // number of times no timer was armed at quiescence
	addBlocked bool       // Add did not return (reported once, the episode is abandoned)
	addBlockedReported bool
}

func dutyID(d core.Duty) int { return int(d.Slot)*16 + int(d.Type) }

// realDeadlineFunc returns the repo's NewDutyDeadlineFunc for a chain configuration. The returned
// function is a pure closure over the fetched configuration, so it is built once per configuration
// (the beacon mock is an HTTP server; starting one per episode made the driver fail with "client is
// not active" on a heavily loaded machine). Creation is retried.
var dlFuncCache = map[[2]int64]core.DeadlineFunc{}

func realDeadlineFunc(genesis time.Time, slotMs int64, spe int) core.DeadlineFunc {
	key := [2]int64{slotMs, int64(spe)}
	if f, ok := dlFuncCache[key]; ok {
		return f
	}
	var lastErr error
	for try := 0; try < 20; try++ {
		ctx, cancel := context.WithCancel(context.Background())
		bmock, err := beaconmock.New(ctx,
			beaconmock.WithGenesisTime(genesis),
			beaconmock.WithSlotDuration(time.Duration(slotMs)*time.Millisecond),
			beaconmock.WithSlotsPerEpoch(spe))
		if err == nil {
			var f core.DeadlineFunc
			f, err = core.NewDutyDeadlineFunc(ctx, bmock)
			if err == nil {
				cancel()
				dlFuncCache[key] = f
				return f
			}
		}
		cancel()
		lastErr = err
		time.Sleep(time.Duration(50*(try+1)) * time.Millisecond)
	}
	panic(fmt.Sprintf("beacon mock for the deadline function could not be created: %v", lastErr))
}

// hookClock is the clock handed to the deadliner: the fake clock, except that once armed the next
// call of Now() - from whichever goroutine reads the clock first - returns the current instant and
// then moves the clock on by the armed amount. It places a clock advance between a clock read of the
// implementation and whatever it does next (an Add that straddles a deadline).
type hookClock struct {
	*clockwork.FakeClock
	mu    sync.Mutex
	armed time.Duration
}

func (h *hookClock) Now() time.Time {
	t := h.FakeClock.Now()
	h.mu.Lock()
	d := h.armed
	h.armed = 0
	h.mu.Unlock()
	if d > 0 {
		h.FakeClock.Advance(d)
	}
	return t
}

func (h *hookClock) arm(d time.Duration) { h.mu.Lock(); h.armed = d; h.mu.Unlock() }

// disarm reports the amount that is still armed (no clock read happened) and clears it.
func (h *hookClock) disarm() time.Duration {
	h.mu.Lock()
	defer h.mu.Unlock()
	d := h.armed
	h.armed = 0
	return d
}

func newEpisode(slotMs int64, spe int) *episode {
	ctx, cancel := context.WithCancel(context.Background())
	genesis := time.Date(2024, 1, 1, 0, 0, 0, 0, time.UTC)
	f := realDeadlineFunc(genesis, slotMs, spe)
	clock := clockwork.NewFakeClockAt(genesis)
	e := &episode{cancel: cancel, clock: clock, genesis: genesis, dlFunc: f,
		pending: map[int]int64{}, reported: map[int]bool{}, everSched: map[int]bool{}}
	e.hook = &hookClock{FakeClock: clock}
	e.dl = core.NewDeadlinerVerif(ctx, f, e.hook)
	e.sync()
	return e
}

// waitStatus waits for Add's answer: three time-outs of 5 s in a row (one alone may be the machine's
// fault: frozen for a snapshot, starved) mean that Add does not return.
func waitStatus(ch chan core.DeadlineStatus) (core.DeadlineStatus, bool) {
	for try := 0; try < 3; try++ {
		select {
		case st := <-ch:
			return st, true
		case <-time.After(5 * time.Second):
		}
	}
	return 0, false
}

func (e *episode) nowMs() int64 { return e.clock.Now().Sub(e.genesis).Nanoseconds() }

// deadlineMs returns the real deadline function's answer (-1 = never expires).
func (e *episode) deadlineMs(d core.Duty) int64 {
	t, ok := e.dlFunc(d)
	if !ok {
		return -1
	}
	return t.Sub(e.genesis).Nanoseconds()
}

// sync waits until the deadliner goroutine is quiescent: a ping (Add of an exempt duty is
// answered only by the goroutine's main select) guarantees the previous input was fully
// processed; BlockUntil(1) then waits until every chained timer event has been handled and a
// timer for a future instant is armed (a timer with non-positive duration fires at once and is
// never a waiter).
func (e *episode) sync() {
	if e.addBlocked {
		return
	}
	// Add must always be answered: every component calls it on its hot path (dutydb even under its
	// own lock). A deadliner that blocks while its output buffer is full stalls them all.
	ans := make(chan core.DeadlineStatus, 1)
	go func() { ans <- e.dl.Add(core.NewVoluntaryExit(0)) }()
	st, ok := waitStatus(ans)
	if !ok {
		e.addBlocked = true
		return
	}
	if st != core.DeadlineExempt {
		panic("ping not exempt")
	}
	// A correct deadliner always keeps one timer armed (at least the year-9999 sentinel). If none
	// appears the implementation lost its timer: carry on, the monitors report what follows from it.
	if e.noTimer > 0 {
		time.Sleep(2 * time.Millisecond) // already broken in this episode: do not wait again
		return
	}
	// three attempts: one elapsed time-out may be the machine's fault (frozen for a snapshot, starved)
	var err error
	for try := 0; try < 3; try++ {
		ctx, cancel := context.WithTimeout(context.Background(), 300*time.Millisecond)
		err = e.clock.BlockUntilContext(ctx, 1)
		cancel()
		if err == nil {
			break
		}
	}
	if err != nil {
		e.noTimer++
	}
}

// drain returns everything buffered on C(), in channel order.
func (e *episode) drain() []core.Duty {
	var out []core.Duty
	for {
		select {
		case d := <-e.dl.C():
			out = append(out, d)
		default:
			return out
		}
	}
}

// observe syncs, drains, runs the monitors and renders the canonical reported list.
func (e *episode) observe(run *hx.Run, due int) string {
	before := e.noTimer
	e.sync()
	if e.addBlocked {
		if !e.addBlockedReported {
			e.addBlockedReported = true
			run.Violate("deadliner:add_blocked", fmt.Sprintf("Add did not return within 5s (%d expired duties unread on C(), buffer capacity %d): callers of Add are stalled", due, bufCap))
		}
		return "blocked"
	}
	if e.noTimer > before && before == 0 {
		run.Violate("deadliner:no_timer_armed", "the deadliner has no timer armed after handling an operation (pending duties can no longer be reported)")
	}
	got := e.drain()
	e.last = got
	now := e.nowMs()
	// monitors (on the implementation's own trace, independent of the model)
	for i, d := range got {
		id := dutyID(d)
		dlm := e.deadlineMs(d)
		if dlm < 0 {
			run.Violate("deadliner:exempt_reported", fmt.Sprintf("exempt duty %v reported", d))
			continue
		}
		if e.reported[id] {
			run.Violate("deadliner:reported_twice", fmt.Sprintf("duty %v (deadline %d) reported again at clock %d", d, dlm, now))
		}
		if now < dlm {
			run.Violate("deadliner:early", fmt.Sprintf("duty %v reported at %d before deadline %d", d, now, dlm))
		}
		if _, ok := e.pending[id]; !ok && !e.reported[id] {
			run.Violate("deadliner:unscheduled_reported", fmt.Sprintf("duty %v reported but never scheduled", d))
		}
		e.reported[id] = true
		delete(e.pending, id)
		// order: nothing still pending, and nothing later in this batch, may have a strictly earlier deadline
		for pid, pdl := range e.pending {
			if pdl < dlm && pdl <= now {
				// only a violation if that pending duty is not reported later in the same batch before... it is later => out of order
				_ = pid
				laterInBatch := false
				for _, d2 := range got[i+1:] {
					if dutyID(d2) == pid {
						laterInBatch = true
					}
				}
				if laterInBatch || due <= bufCap {
					run.Violate("deadliner:order", fmt.Sprintf("duty %v (deadline %d) reported before pending id %d (deadline %d)", d, dlm, pid, pdl))
				}
			}
		}
	}
	if due > bufCap {
		// buffer overflow: which duties are dropped depends on Go's map order; compare the count only
		for id, dlm := range e.pending {
			if dlm <= now {
				delete(e.pending, id) // dropped by the default: branch, never reported
			}
		}
		run.Count("overflow")
		return fmt.Sprintf("overflow %d", len(got))
	}
	for id, dlm := range e.pending {
		if dlm <= now {
			run.Violate("deadliner:missed", fmt.Sprintf("id %d scheduled with deadline %d not reported at quiescence, clock %d", id, dlm, now))
			delete(e.pending, id)
		}
	}
	// canonical: sort runs of equal deadline by id
	type rep struct {
		id  int
		dlm int64
	}
	reps := make([]rep, len(got))
	for i, d := range got {
		reps[i] = rep{dutyID(d), e.deadlineMs(d)}
	}
	for i := 0; i < len(reps); {
		j := i
		for j < len(reps) && reps[j].dlm == reps[i].dlm {
			j++
		}
		sort.Slice(reps[i:j], func(a, b int) bool { return reps[i+a].id < reps[i+b].id })
		i = j
	}
	parts := make([]string, len(reps))
	for i, r := range reps {
		parts[i] = fmt.Sprintf("%d@%d", r.id, now)
	}
	return "[" + strings.Join(parts, ",") + "]"
}

func (e *episode) dueWithin(ms int64) int {
	n := 0
	lim := e.nowMs() + ms
	for _, dlm := range e.pending {
		if dlm <= lim {
			n++
		}
	}
	return n
}

func statusStr(s core.DeadlineStatus) string {
	switch s {
	case core.DeadlineExpired:
		return "expired"
	case core.DeadlineScheduled:
		return "scheduled"
	case core.DeadlineExempt:
		return "exempt"
	}
	return "?"
}

func (e *episode) doAdd(run *hx.Run, slot uint64, ty int) string {
	st := e.addCore(run, slot, ty)
	if st == "blocked" {
		return st
	}
	return st + " " + e.observe(run, e.dueWithin(0))
}

// doSAdd is an Add during which the clock moves on by k: the first clock read after the call
// started sees the old instant, everything after it the new one.
func (e *episode) doSAdd(run *hx.Run, slot uint64, ty int, k int64) string {
	e.hook.arm(time.Duration(k))
	st := e.addCore(run, slot, ty)
	if rest := e.hook.disarm(); rest > 0 {
		e.clock.Advance(rest) // nobody read the clock (exempt duty): the advance follows the call
		run.Count("sadd:clock_not_read")
	}
	if st == "blocked" {
		return st
	}
	run.Count("sadd")
	return st + " " + e.observe(run, e.dueWithin(0))
}

func (e *episode) addCore(run *hx.Run, slot uint64, ty int) string {
	d := core.Duty{Slot: slot, Type: core.DutyType(ty)}
	id := dutyID(d)
	dlm := e.deadlineMs(d)
	now := e.nowMs()
	if e.addBlocked {
		return "blocked"
	}
	ansc := make(chan core.DeadlineStatus, 1)
	go func() { ansc <- e.dl.Add(d) }()
	st, ok := waitStatus(ansc)
	if !ok {
		e.addBlocked = true
		if !e.addBlockedReported {
			e.addBlockedReported = true
			run.Violate("deadliner:add_blocked", fmt.Sprintf("Add(%v) did not return within 5s: callers of Add are stalled", d))
		}
		return "blocked"
	}
	run.Count("add:" + statusStr(st))
	switch {
	case dlm < 0:
		if st != core.DeadlineExempt {
			run.Violate("deadliner:exempt_status", fmt.Sprintf("exempt duty %v answered %s", d, statusStr(st)))
		}
	case dlm < now:
		if st != core.DeadlineExpired {
			run.Violate("deadliner:late_add_accepted", fmt.Sprintf("duty %v deadline %d added at %d answered %s", d, dlm, now, statusStr(st)))
		}
	case dlm > now:
		if st != core.DeadlineScheduled {
			run.Violate("deadliner:early_add_refused", fmt.Sprintf("duty %v deadline %d added at %d answered %s", d, dlm, now, statusStr(st)))
		}
	}
	if st == core.DeadlineScheduled {
		if e.reported[id] {
			run.Count("add:rescheduled_after_report")
		} else if _, ok := e.pending[id]; ok {
			run.Count("add:readd_pending")
		}
		e.pending[id] = dlm
		e.everSched[id] = true
		run.Case(fmt.Sprintf("sched:%d:%d", ty, dlm-now))
	}
	if dlm == now {
		run.Count("add:at_deadline_instant")
	}
	return statusStr(st)
}

func (e *episode) doAdv(run *hx.Run, ms int64) string {
	due := e.dueWithin(ms)
	e.clock.Advance(time.Duration(ms))
	run.Count("adv")
	if due > 0 {
		run.Case(fmt.Sprintf("adv:%d:%d", due, ms%7))
	}
	return "- " + e.observe(run, due)
}

func main() {
	a := hx.ParseArgs()
	run := hx.NewRun(a.Dir)
	defer run.Close()
	var ep *episode
	exec := func(op string) {
		f := strings.Fields(op)
		switch f[0] {
		case "cfg":
			if ep != nil {
				ep.cancel()
			}
			slotMs, _ := strconv.ParseInt(f[1], 10, 64)
			spe, _ := strconv.Atoi(f[2])
			ep = newEpisode(slotMs, spe)
			run.Op(op, "ok")
		case "add":
			slot, _ := strconv.ParseUint(f[1], 10, 64)
			ty, _ := strconv.Atoi(f[2])
			run.Op(op, ep.doAdd(run, slot, ty))
		case "sadd":
			slot, _ := strconv.ParseUint(f[1], 10, 64)
			ty, _ := strconv.Atoi(f[2])
			k, _ := strconv.ParseInt(f[3], 10, 64)
			run.Op(op, ep.doSAdd(run, slot, ty, k))
		case "adv":
			ms, _ := strconv.ParseInt(f[1], 10, 64)
			run.Op(op, ep.doAdv(run, ms))
		case "qadv":
			// quiet advance: nothing is due within ms, so the clock just moves — no call into the deadliner,
			// no event on its goroutine (which sits in its select with whatever it read before)
			ms, _ := strconv.ParseInt(f[1], 10, 64)
			if ep.dueWithin(ms) > 0 || ep.addBlocked {
				run.Op(op, ep.doAdv(run, ms))
			} else {
				ep.clock.Advance(time.Duration(ms))
				run.Count("qadv")
				run.Op(op, "- []")
			}
		default:
			panic("bad op " + op)
		}
	}
	if a.Mode == "exec" {
		for _, op := range hx.ReadOps(a.Ops) {
			exec(op)
		}
		return
	}
	rng := hx.NewRng(a.Seed)
	for run.NOps < a.N && !run.Enough() {
		slotMs := []int64{12000, 12000, 6000, 2000, 1000}[rng.Intn(5)]
		slotNs := slotMs * 1000000
		spe := []int{32, 32, 16, 8, 4}[rng.Intn(5)]
		exec(fmt.Sprintf("cfg %d %d", slotMs, spe))
		// start somewhere inside slot `base`
		base := uint64(2*spe + 2 + rng.Intn(3*spe))
		exec(fmt.Sprintf("adv %d", int64(base)*slotNs+int64(rng.Intn(int(slotMs)))*1000000))
		var added []core.Duty
		nops := 30 + rng.Intn(60)
		burstAt := -1
		if rng.Chance(1, 4) {
			burstAt = rng.Intn(nops)
		}
		for k := 0; k < nops; k++ {
			if ep.addBlocked {
				break // the deadliner of this episode is stuck: start a new one
			}
			if k == burstAt {
				// overflow probe: more than bufCap duties expire while the consumer is not reading (many of
				// them sharing a deadline); the duties above the buffer capacity are dropped, and everything
				// registered afterwards must still be reported
				cur := uint64(ep.nowMs() / slotNs)
				want := bufCap + 1 + rng.Intn(12)
				for j := 0; j < 4*want && len(ep.pending) < want; j++ {
					slot := cur + 1 + uint64(rng.Intn(3))
					ty := []int{1, 2, 3, 4, 7, 9, 10, 11, 12, 13}[rng.Intn(10)]
					added = append(added, core.Duty{Slot: slot, Type: core.DutyType(ty)})
					exec(fmt.Sprintf("add %d %d", slot, ty))
				}
				var maxDl int64
				for _, dlm := range ep.pending {
					if dlm > maxDl {
						maxDl = dlm
					}
				}
				if maxDl > ep.nowMs() {
					exec(fmt.Sprintf("adv %d", maxDl-ep.nowMs()+int64(rng.Intn(3))))
				}
				continue
			}
			switch c := rng.Intn(100); {
			case c < 50: // add a duty around the current slot (mostly valid types)
				cur := uint64(ep.nowMs() / slotNs)
				var slot uint64
				switch rng.Intn(10) {
				case 0:
					slot = cur - uint64(2*spe) - uint64(rng.Intn(3)) // prepare-* types still pending
				case 1:
					slot = cur - uint64(spe) + uint64(rng.Intn(3)) - 1
				case 2, 3:
					slot = cur - uint64(rng.Intn(3))
				default:
					slot = cur + uint64(rng.Intn(4))
				}
				ty := 1 + rng.Intn(13)
				if rng.Chance(1, 30) {
					ty = rng.Intn(16) // includes unknown / sentinel types
				}
				added = append(added, core.Duty{Slot: slot, Type: core.DutyType(ty)})
				exec(fmt.Sprintf("add %d %d", slot, ty))
			case c < 56: // a quiet period, then a registration whose deadline passed during it: must be refused
				cur := uint64(ep.nowMs() / slotNs)
				ms := slotNs + int64(rng.Intn(int(2*slotMs)))*1000000
				if ep.dueWithin(ms) > 0 {
					break
				}
				for try := 0; try < 12; try++ {
					d := core.Duty{Slot: cur - uint64(rng.Intn(2)), Type: core.DutyType([]int{1, 9, 10, 11, 12, 13}[rng.Intn(6)])}
					if try > 6 {
						d = core.Duty{Slot: cur + uint64(rng.Intn(3)) - uint64(spe), Type: core.DutyType([]int{2, 7}[rng.Intn(2)])}
					}
					dlm := ep.deadlineMs(d)
					if dlm > ep.nowMs() && dlm <= ep.nowMs()+ms {
						exec(fmt.Sprintf("qadv %d", ms))
						added = append(added, d)
						exec(fmt.Sprintf("add %d %d", d.Slot, int(d.Type)))
						break
					}
				}
			case c < 68 && c >= 62 && len(ep.pending) > 0: // an Add during which the clock crosses a deadline
				// (mostly the re-registration of a pending duty straddling its own deadline: reported once)
				var ids []int
				for id := range ep.pending {
					ids = append(ids, id)
				}
				sort.Ints(ids)
				id := ids[rng.Intn(len(ids))]
				dlm := ep.pending[id]
				k := dlm - ep.nowMs() + int64(rng.Intn(3))
				tgt := core.Duty{Slot: uint64(id / 16), Type: core.DutyType(id % 16)}
				if rng.Chance(1, 4) && len(added) > 0 { // another duty is (re-)registered while this one expires
					tgt = added[rng.Intn(len(added))]
				}
				if k <= 0 || ep.dueWithin(k) > bufCap {
					break
				}
				added = append(added, tgt)
				exec(fmt.Sprintf("sadd %d %d %d", tgt.Slot, int(tgt.Type), k))
			case c < 62 && len(added) > 0: // repeat an earlier registration (pending, reported or refused)
				d := added[rng.Intn(len(added))]
				exec(fmt.Sprintf("add %d %d", d.Slot, int(d.Type)))
			default: // advance the clock
				var ms int64
				// earliest pending deadline
				var minDl int64 = -1
				for _, dlm := range ep.pending {
					if minDl < 0 || dlm < minDl {
						minDl = dlm
					}
				}
				now := ep.nowMs()
				switch r := rng.Intn(10); {
				case r < 4 && minDl > now: // land exactly on the next deadline
					ms = minDl - now
				case r < 5 && minDl > now+1: // one ms before
					ms = minDl - now - 1
				case r < 6 && minDl > now: // one ms after
					ms = minDl - now + 1
				case r < 8:
					ms = int64(rng.Intn(int(slotMs))) * 1000000
				default:
					ms = int64(rng.Intn(int(slotMs)*(1+spe))) * 1000000
				}
				// split so that at most bufCap duties expire per op (except a rare overflow probe)
				if !rng.Chance(1, 40) {
					for ms > 0 && ep.dueWithin(ms) > bufCap {
						// advance to the earliest pending deadline only
						var md int64 = -1
						for _, dlm := range ep.pending {
							if dlm > now && (md < 0 || dlm < md) {
								md = dlm
							}
						}
						if md < 0 || md-now > ms || ep.dueWithin(md-now) > bufCap {
							break
						}
						exec(fmt.Sprintf("adv %d", md-now))
						ms -= md - now
						now = ep.nowMs()
					}
				}
				exec(fmt.Sprintf("adv %d", ms))
				// a re-add at the very instant of a report (D-3 scenario)
				if last := ep.last; len(last) > 0 && rng.Chance(1, 2) {
					d := last[rng.Intn(len(last))]
					exec(fmt.Sprintf("add %d %d", d.Slot, int(d.Type)))
				} else if rng.Chance(1, 4) && len(added) > 0 {
					d := added[rng.Intn(len(added))]
					exec(fmt.Sprintf("add %d %d", d.Slot, int(d.Type)))
				}
			}
		}
	}
	if ep != nil {
		ep.cancel()
	}
}
