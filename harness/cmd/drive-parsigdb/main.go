// drive-parsigdb: correspondence driver for C07 (core/parsigdb/memory.go).
//
// Runs the real parsigdb.MemDB (real core.ParSignedData values built with the repo's own
// constructors and testutil generators, a scripted core.Deadliner, one threshold subscriber and
// one internal subscriber) and records, per operation, the canonical observable outcome:
// returned error class, what the threshold subscriber was handed, whether the internal subscriber
// ran, and a snapshot of the three internal maps (hook parsigdb.VerifSnapshot).
//
// ops (one line each; everything after " # " is the outcome the implementation showed when the op
// was recorded — the model uses it to pick Go's map-iteration order, see Driver/ParSigDB.lean; in
// exec mode it is the outcome the driver tries to reproduce by re-running the call from a restored
// snapshot, so that replays do not depend on Go's random map order):
//
//	new <threshold>                                            fresh MemDB
//	<call>                                                     one complete call
//	par <call> ; <call>                                        two calls racing on two goroutines
//	trim <slot>:<type>                                         the deadliner emits the duty, Trim deletes it
//
//	<call>  := ext|int <slot>:<type> <S|X|E> <cbErr 0|1> <entries|->
//	           (S scheduled, X expired, E exempt: the scripted deadliner's answer to Add)
//	<entry> := <pk>.<share>.<root>.<sig>.<sub|x>   joined by ","   (x: payload of a type for which
//	           core.SyncSubcommitteeIndex fails)
//
// outcome := <ret> [; <ret>] | E{...} K{...} X{...}
// ret     := <ok|mismatch|subcomm|cb|other> cb=<-|[pk:share.root.sig+...;...]> is=<0|1>
package main

import (
	"sync/atomic"
	"context"
	"errors"
	"fmt"
	"sort"
	"strconv"
	"strings"
	"sync"
	"time"

	eth2api "github.com/attestantio/go-eth2-client/api"
	eth2v1 "github.com/attestantio/go-eth2-client/api/v1"
	eth2spec "github.com/attestantio/go-eth2-client/spec"
	"github.com/attestantio/go-eth2-client/spec/bellatrix"
	eth2p0 "github.com/attestantio/go-eth2-client/spec/phase0"

	"github.com/obolnetwork/charon/app/log"
	"github.com/obolnetwork/charon/core"
	"github.com/obolnetwork/charon/core/parsigdb"
	"github.com/obolnetwork/charon/eth2util"
	"github.com/obolnetwork/charon/testutil"

	"verifharness/hx"
)

// ---------------------------------------------------------------------------------------------
// op syntax

type entry struct{ pk, share, root, sig, sub int } // sub == -1: wrong payload type

type call struct {
	internal bool
	slot     uint64
	typ      int
	status   byte // S X E
	cbErr    bool
	entries  []entry
}

func (c call) duty() core.Duty { return core.Duty{Slot: c.slot, Type: core.DutyType(c.typ)} }

func (e entry) String() string {
	sub := "x"
	if e.sub >= 0 {
		sub = strconv.Itoa(e.sub)
	}
	return fmt.Sprintf("%d.%d.%d.%d.%s", e.pk, e.share, e.root, e.sig, sub)
}

func (c call) String() string {
	kind := "ext"
	if c.internal {
		kind = "int"
	}
	es := "-"
	if len(c.entries) > 0 {
		parts := make([]string, len(c.entries))
		for i, e := range c.entries {
			parts[i] = e.String()
		}
		es = strings.Join(parts, ",")
	}
	cb := 0
	if c.cbErr {
		cb = 1
	}
	return fmt.Sprintf("%s %d:%d %c %d %s", kind, c.slot, c.typ, c.status, cb, es)
}

func atoi(s string) int {
	v, err := strconv.Atoi(s)
	if err != nil {
		panic("bad number " + s)
	}
	return v
}

func parseDuty(s string) (uint64, int) {
	p := strings.Split(s, ":")
	if len(p) != 2 {
		panic("bad duty " + s)
	}
	return uint64(atoi(p[0])), atoi(p[1])
}

func parseCall(f []string) call {
	if len(f) != 5 {
		panic("bad call " + strings.Join(f, " "))
	}
	var c call
	switch f[0] {
	case "ext":
	case "int":
		c.internal = true
	default:
		panic("bad call kind " + f[0])
	}
	c.slot, c.typ = parseDuty(f[1])
	c.status = f[2][0]
	c.cbErr = f[3] == "1"
	if f[4] != "-" {
		for _, es := range strings.Split(f[4], ",") {
			p := strings.Split(es, ".")
			if len(p) != 5 {
				panic("bad entry " + es)
			}
			e := entry{pk: atoi(p[0]), share: atoi(p[1]), root: atoi(p[2]), sig: atoi(p[3]), sub: -1}
			if p[4] != "x" {
				e.sub = atoi(p[4])
			}
			c.entries = append(c.entries, e)
		}
	}
	return c
}

// ---------------------------------------------------------------------------------------------
// scripted deadliner

type scriptDeadliner struct {
	mu      sync.Mutex
	status  map[core.Duty]core.DeadlineStatus
	ch      chan core.Duty
	barrier *sync.WaitGroup // when set: Add blocks until every racing call has arrived
	// status 'T': Add answers Scheduled, but the duty expires and is trimmed before Add returns (the
	// deadline fires between the deadliner's answer and the store)
	trimIn   map[core.Duty]bool
	trimDone chan struct{}     // closed when the trim inside Add has been fully processed
	trimMid  func()            // called after the trim completed inside Add (mid snapshot)
}

func (d *scriptDeadliner) Add(duty core.Duty) core.DeadlineStatus {
	d.mu.Lock()
	st, ok := d.status[duty]
	b := d.barrier
	trim := d.trimIn[duty]
	delete(d.trimIn, duty)
	var done chan struct{}
	if trim {
		done = make(chan struct{})
		d.trimDone = done
	}
	mid := d.trimMid
	d.mu.Unlock()
	if !ok {
		panic(fmt.Sprintf("deadliner: unscripted duty %v", duty))
	}
	if trim {
		go func() {
			d.ch <- duty
			d.ch <- core.Duty{} // received only after the previous duty was fully processed
			close(done)
		}()
		select {
		case <-done:
			if mid != nil {
				mid()
			}
		case <-time.After(200 * time.Millisecond): // the store holds its lock while asking: the trim runs afterwards
		}
	}
	if b != nil {
		b.Done()
		// wait for the other racing call; an implementation that does not ask the deadliner in one of
		// the calls must not hang the driver: give up after a moment (the calls then simply run on)
		ok := make(chan struct{})
		go func() { b.Wait(); close(ok) }()
		select {
		case <-ok:
		case <-time.After(200 * time.Millisecond):
		}
	}
	return st
}

func (d *scriptDeadliner) C() <-chan core.Duty { return d.ch }

func statusOf(b byte) core.DeadlineStatus {
	switch b {
	case 'S', 'T':
		return core.DeadlineScheduled
	case 'X':
		return core.DeadlineExpired
	case 'E':
		return core.DeadlineExempt
	}
	panic("bad status")
}

// ---------------------------------------------------------------------------------------------
// episode: one MemDB instance plus monitor state

type mkey struct {
	duty core.Duty
	pk   int
	sub  int
}

type trigRec struct {
	shares string // sorted shares + root of the payload
}

type ctxKey struct{}

type callObs struct {
	err  string
	cbs  []map[core.PubKey][]core.ParSignedData
	isub bool
}

var errCB = errors.New("verif: threshold subscriber failure")

type episode struct {
	t      int
	db     *parsigdb.MemDB
	dl     *scriptDeadliner
	cancel context.CancelFunc

	pks   []core.PubKey
	pkID  map[core.PubKey]int
	tmpl  map[string]core.SignedData
	roots map[[32]byte]string

	mid   *parsigdb.VerifSnapshot // snapshot taken inside Add after a status-T trim completed
	obsMu sync.Mutex
	cur   []*callObs
	curCB []bool

	// monitor state
	trig      map[mkey][]trigRec
	lostSeen  map[mkey]bool
	evicted   map[mkey]bool
	trimAfter map[mkey]bool
	accepted  map[mkey]map[string]bool
	status    map[core.Duty]byte
}

const nPKs = 4

func newEpisode(t int) *episode {
	ctx, cancel := context.WithCancel(context.Background())
	ep := &episode{t: t, cancel: cancel,
		dl:   &scriptDeadliner{status: map[core.Duty]core.DeadlineStatus{}, ch: make(chan core.Duty)},
		pkID: map[core.PubKey]int{}, tmpl: map[string]core.SignedData{}, roots: map[[32]byte]string{},
		trig: map[mkey][]trigRec{}, lostSeen: map[mkey]bool{}, evicted: map[mkey]bool{}, trimAfter: map[mkey]bool{},
		accepted: map[mkey]map[string]bool{}, status: map[core.Duty]byte{}}
	for i := 0; i < nPKs; i++ {
		b := make([]byte, 48)
		for j := range b {
			b[j] = byte(0x10*(i+1) + j%7)
		}
		pk, err := core.PubKeyFromBytes(b)
		hx.Must(err)
		ep.pks = append(ep.pks, pk)
		ep.pkID[pk] = i
	}
	ep.db = parsigdb.NewMemDB(t, ep.dl, parsigdb.NewMemDBMetadata(eth2util.Mainnet.SlotDuration, time.Unix(eth2util.Mainnet.GenesisTimestamp, 0)))
	ep.db.SubscribeThreshold(func(ctx context.Context, duty core.Duty, out map[core.PubKey][]core.ParSignedData) error {
		i := ctx.Value(ctxKey{}).(int)
		ep.obsMu.Lock()
		defer ep.obsMu.Unlock()
		ep.cur[i].cbs = append(ep.cur[i].cbs, out)
		if ep.curCB[i] {
			return errCB
		}
		return nil
	})
	ep.db.SubscribeInternal(func(ctx context.Context, duty core.Duty, set core.ParSignedDataSet) error {
		i := ctx.Value(ctxKey{}).(int)
		ep.obsMu.Lock()
		defer ep.obsMu.Unlock()
		ep.cur[i].isub = true
		return nil
	})
	go ep.db.Trim(ctx)
	return ep
}

func sigBytes(share, root, sig int) core.Signature {
	b := make([]byte, 96)
	for i := range b {
		b[i] = 0x5a
	}
	b[0], b[1], b[2] = byte(share), byte(root), byte(sig)
	return core.Signature(b)
}

func isSyncType(typ int) bool {
	return typ == int(core.DutyPrepareSyncContribution) || typ == int(core.DutySyncContribution)
}

// template returns the unsigned payload for (duty, validator, subcommittee, root variant): a
// structurally valid object from the repo's generators, cached so that equal variants are equal.
func (ep *episode) template(slot uint64, typ, pk, sub, root int) core.SignedData {
	k := fmt.Sprintf("%d/%d/%d/%d/%d", slot, typ, pk, sub, root)
	if d, ok := ep.tmpl[k]; ok {
		return d
	}
	var d core.SignedData
	if sub < 0 { // a payload that is not a sync-committee aggregator payload
		d = core.NewSignedRandao(eth2p0.Epoch(slot*64+uint64(root)), testutil.RandomEth2Signature())
	} else {
		switch core.DutyType(typ) {
		case core.DutyAttester:
			att := testutil.RandomDenebVersionedAttestation()
			att.Deneb.Data.Slot = eth2p0.Slot(slot)
			w, err := core.NewVersionedAttestation(att)
			hx.Must(err)
			d = w
		case core.DutyRandao:
			d = core.NewSignedRandao(eth2p0.Epoch(slot*64+uint64(root)), testutil.RandomEth2Signature())
		case core.DutyExit:
			d = core.NewSignedVoluntaryExit(&eth2p0.SignedVoluntaryExit{
				Message:   &eth2p0.VoluntaryExit{Epoch: eth2p0.Epoch(slot*64 + uint64(root)), ValidatorIndex: eth2p0.ValidatorIndex(1000 + pk)},
				Signature: testutil.RandomEth2Signature(),
			})
		case core.DutyBuilderRegistration:
			var fee bellatrix.ExecutionAddress
			fee[0] = byte(root + 1)
			var bpk eth2p0.BLSPubKey
			bpk[0] = byte(pk + 1)
			reg, err := core.NewVersionedSignedValidatorRegistration(&eth2api.VersionedSignedValidatorRegistration{
				Version: eth2spec.BuilderVersionV1,
				V1: &eth2v1.SignedValidatorRegistration{
					Message:   &eth2v1.ValidatorRegistration{FeeRecipient: fee, GasLimit: 30000000 + uint64(root), Timestamp: time.Unix(eth2util.Mainnet.GenesisTimestamp, 0), Pubkey: bpk},
					Signature: testutil.RandomEth2Signature(),
				},
			})
			hx.Must(err)
			d = reg
		case core.DutySyncMessage:
			m := testutil.RandomSyncCommitteeMessage()
			m.Slot = eth2p0.Slot(slot)
			d = core.NewSignedSyncMessage(m)
		case core.DutyPrepareSyncContribution:
			s := testutil.RandomSyncCommitteeSelection()
			s.Slot = eth2p0.Slot(slot + 100000*uint64(root))
			s.SubcommitteeIndex = uint64(sub)
			d = core.NewSyncCommitteeSelection(s)
		case core.DutySyncContribution:
			c := testutil.RandomSignedSyncContributionAndProof()
			c.Message.Contribution.Slot = eth2p0.Slot(slot)
			c.Message.Contribution.SubcommitteeIndex = uint64(sub)
			d = core.NewSignedSyncContributionAndProof(c)
		case core.DutyPrepareAggregator:
			s := testutil.RandomBeaconCommitteeSelection()
			s.Slot = eth2p0.Slot(slot + 100000*uint64(root))
			d = core.NewBeaconCommitteeSelection(s)
		case core.DutySignature:
			d = sigBytes(0, root, 0)
		default:
			panic(fmt.Sprintf("driver has no payload for duty type %d", typ))
		}
	}
	if core.DutyType(typ) != core.DutySignature || sub < 0 {
		r, err := d.MessageRoot()
		hx.Must(err)
		id := fmt.Sprintf("%d/%d/%d/%d", slot, typ, pk, sub)
		if prev, ok := ep.roots[r]; ok && prev != k {
			if strings.HasPrefix(prev, id+"/") { // same key, two variants with one root: generator bug
				panic("root collision between variants " + prev + " and " + k)
			}
		}
		ep.roots[r] = k
	}
	ep.tmpl[k] = d
	return d
}

func (ep *episode) parSig(c call, e entry) core.ParSignedData {
	t := ep.template(c.slot, c.typ, e.pk, e.sub, e.root)
	d, err := t.SetSignature(sigBytes(e.share, e.root, e.sig))
	hx.Must(err)
	return core.ParSignedData{SignedData: d, ShareIdx: e.share}
}

func decode(p core.ParSignedData) string {
	s := p.Signature()
	return fmt.Sprintf("%d.%d.%d", p.ShareIdx, int(s[1]), int(s[2]))
}

func errClass(err error) string {
	switch {
	case err == nil:
		return "ok"
	case errors.Is(err, errCB):
		return "cb"
	case strings.Contains(err.Error(), "mismatching partial signed data"):
		return "mismatch"
	case strings.Contains(err.Error(), "not a sync-committee aggregator duty"):
		return "subcomm"
	}
	return "other"
}

// gate: the first MessageRoot() call on a gated value parks its goroutine until released (later calls,
// from whichever goroutine, pass). It places a whole second call between two steps of the first.
type gate struct {
	first   atomic.Bool
	reached chan struct{}
	release chan struct{}
}

type gatedSD struct {
	core.SignedData
	g *gate
}

func (w gatedSD) MessageRoot() ([32]byte, error) {
	if w.g.first.CompareAndSwap(false, true) {
		close(w.g.reached)
		<-w.g.release
	}
	return w.SignedData.MessageRoot()
}

func (w gatedSD) Clone() (core.SignedData, error) {
	c, err := w.SignedData.Clone()
	if err != nil {
		return nil, err
	}
	return gatedSD{SignedData: c, g: w.g}, nil
}

// attempt executes the calls (one: directly; two: racing on two goroutines released together from
// the deadliner's Add; gated: the first call is parked at its first MessageRoot() - in the code as it is
// the threshold evaluation after its first insert -, the second call runs to completion, then the first
// is released) on the real MemDB.
func (ep *episode) attempt(calls []call, gated bool) []*callObs {
	ep.obsMu.Lock()
	ep.cur = make([]*callObs, len(calls))
	ep.curCB = make([]bool, len(calls))
	for i, c := range calls {
		ep.cur[i] = &callObs{}
		ep.curCB[i] = c.cbErr
	}
	ep.obsMu.Unlock()
	ep.dl.mu.Lock()
	ep.dl.trimDone = nil
	ep.mid = nil
	for _, c := range calls {
		ep.dl.status[c.duty()] = statusOf(c.status)
		if c.status == 'T' {
			if ep.dl.trimIn == nil {
				ep.dl.trimIn = map[core.Duty]bool{}
			}
			ep.dl.trimIn[c.duty()] = true
			ep.dl.trimMid = func() { m := ep.db.VerifSnapshot(); ep.mid = &m }
		}
	}
	if len(calls) > 1 && !gated {
		ep.dl.barrier = &sync.WaitGroup{}
		ep.dl.barrier.Add(len(calls))
	} else {
		ep.dl.barrier = nil
	}
	ep.dl.mu.Unlock()
	var wg sync.WaitGroup
	var gt *gate
	if gated {
		gt = &gate{reached: make(chan struct{}), release: make(chan struct{})}
	}
	for i, c := range calls {
		set := core.ParSignedDataSet{}
		for _, e := range c.entries {
			ps := ep.parSig(c, e)
			if gated && i == 0 {
				ps.SignedData = gatedSD{SignedData: ps.SignedData, g: gt}
			}
			set[ep.pks[e.pk]] = ps
		}
		ctx := context.WithValue(context.Background(), ctxKey{}, i)
		wg.Add(1)
		done := make(chan struct{})
		if gated && i == 1 {
			// the second call starts once the first is parked (or has returned without reading a root)
			// and the first is released when the second has returned (2 s: the first may be parked
			// inside the store's lock - a duplicate share's equality check - and hold the second up)
			go func(done chan struct{}) {
				select {
				case <-done:
				case <-time.After(2 * time.Second):
				}
				close(gt.release)
			}(done)
		}
		go func(i int, c call) {
			defer wg.Done()
			defer close(done)
			var err error
			if c.internal {
				err = ep.db.StoreInternal(ctx, c.duty(), set)
			} else {
				err = ep.db.StoreExternal(ctx, c.duty(), set)
			}
			ep.obsMu.Lock()
			ep.cur[i].err = errClass(err)
			ep.obsMu.Unlock()
		}(i, c)
		if gated && i == 0 {
			select {
			case <-gt.reached:
			case <-done:
			}
		}
	}
	wg.Wait()
	ep.dl.mu.Lock()
	done := ep.dl.trimDone
	for du := range ep.dl.trimIn {
		delete(ep.dl.trimIn, du) // the implementation never asked the deadliner
	}
	ep.dl.mu.Unlock()
	if done != nil {
		<-done
	}
	return ep.cur
}

// ---------------------------------------------------------------------------------------------
// canonical rendering

func (ep *episode) keyStr(k parsigdb.VerifKey) string {
	return fmt.Sprintf("%d:%d/%d/%d", k.Duty.Slot, int(k.Duty.Type), ep.pkID[k.PubKey], int(k.SubcommIdx))
}

func keyLess(a, b []int) bool {
	for i := range a {
		if a[i] != b[i] {
			return a[i] < b[i]
		}
	}
	return false
}

func (ep *episode) keyVec(k parsigdb.VerifKey) []int {
	return []int{int(k.Duty.Slot), int(k.Duty.Type), ep.pkID[k.PubKey], int(k.SubcommIdx)}
}

func (ep *episode) snapStr(s parsigdb.VerifSnapshot) string {
	var ks []parsigdb.VerifKey
	for k, v := range s.Entries {
		if len(v) > 0 {
			ks = append(ks, k)
		}
	}
	sort.Slice(ks, func(i, j int) bool { return keyLess(ep.keyVec(ks[i]), ep.keyVec(ks[j])) })
	var eparts []string
	for _, k := range ks {
		var ps []string
		for _, p := range s.Entries[k] {
			ps = append(ps, decode(p))
		}
		eparts = append(eparts, ep.keyStr(k)+"="+strings.Join(ps, "+"))
	}
	var ds []core.Duty
	for d, v := range s.KeysByDuty {
		if len(v) > 0 {
			ds = append(ds, d)
		}
	}
	sort.Slice(ds, func(i, j int) bool {
		return keyLess([]int{int(ds[i].Slot), int(ds[i].Type)}, []int{int(ds[j].Slot), int(ds[j].Type)})
	})
	var kparts []string
	for _, d := range ds {
		v := append([]parsigdb.VerifKey(nil), s.KeysByDuty[d]...)
		sort.SliceStable(v, func(i, j int) bool { return keyLess(ep.keyVec(v[i]), ep.keyVec(v[j])) })
		var ps []string
		for _, k := range v {
			ps = append(ps, fmt.Sprintf("%d/%d", ep.pkID[k.PubKey], int(k.SubcommIdx)))
		}
		kparts = append(kparts, fmt.Sprintf("%d:%d=%s", d.Slot, int(d.Type), strings.Join(ps, "+")))
	}
	var xs []parsigdb.VerifExemptKey
	for x, v := range s.Exempt {
		if len(v) > 0 {
			xs = append(xs, x)
		}
	}
	sort.Slice(xs, func(i, j int) bool {
		return keyLess([]int{xs[i].ShareIdx, ep.pkID[xs[i].PubKey], int(xs[i].DutyType)}, []int{xs[j].ShareIdx, ep.pkID[xs[j].PubKey], int(xs[j].DutyType)})
	})
	var xparts []string
	for _, x := range xs {
		var ps []string
		for _, k := range s.Exempt[x] {
			ps = append(ps, ep.keyStr(k))
		}
		xparts = append(xparts, fmt.Sprintf("%d/%d/%d=%s", x.ShareIdx, ep.pkID[x.PubKey], int(x.DutyType), strings.Join(ps, "+")))
	}
	return "E{" + strings.Join(eparts, ";") + "} K{" + strings.Join(kparts, ";") + "} X{" + strings.Join(xparts, ";") + "}"
}

func (ep *episode) retStr(o *callObs) string {
	cb := "-"
	if len(o.cbs) > 0 {
		var all []string
		for _, m := range o.cbs {
			var pks []int
			for pk := range m {
				pks = append(pks, ep.pkID[pk])
			}
			sort.Ints(pks)
			var parts []string
			for _, id := range pks {
				var ps []string
				for _, p := range m[ep.pks[id]] {
					ps = append(ps, decode(p))
				}
				parts = append(parts, fmt.Sprintf("%d:%s", id, strings.Join(ps, "+")))
			}
			all = append(all, "["+strings.Join(parts, ";")+"]")
		}
		cb = strings.Join(all, "")
	}
	is := 0
	if o.isub {
		is = 1
	}
	return fmt.Sprintf("%s cb=%s is=%d", o.err, cb, is)
}

func (ep *episode) outcome(obs []*callObs, post parsigdb.VerifSnapshot) string {
	var rs []string
	for _, o := range obs {
		rs = append(rs, ep.retStr(o))
	}
	return strings.Join(rs, " ; ") + " | " + ep.snapStr(post)
}

// ---------------------------------------------------------------------------------------------
// monitors: the property itself, evaluated on the implementation's trace only

func (ep *episode) mk(k parsigdb.VerifKey) mkey {
	return mkey{k.Duty, ep.pkID[k.PubKey], int(k.SubcommIdx)}
}

func ident(p core.ParSignedData) string {
	b, err := p.MarshalJSON()
	hx.Must(err)
	return fmt.Sprintf("%d|%s", p.ShareIdx, b)
}

func (ep *episode) monitors(run *hx.Run, calls []call, obs []*callObs, pre, post parsigdb.VerifSnapshot, trimmed *core.Duty) {
	// accepted partials and disturbed / evicted entries, from the snapshot difference
	for k, before := range pre.Entries {
		after := post.Entries[k]
		have := map[string]bool{}
		for _, p := range after {
			have[ident(p)] = true
		}
		for _, p := range before {
			if have[ident(p)] {
				continue
			}
			if trimmed != nil && *trimmed == k.Duty {
				continue
			}
			if ep.status[k.Duty] == 'E' {
				ep.evicted[ep.mk(k)] = true
				run.Count("mon:evicted")
			} else {
				run.Violate("parsigdb:stored_disturbed", fmt.Sprintf("stored partial of share %d vanished from %s without trim", p.ShareIdx, ep.keyStr(k)))
			}
		}
	}
	for k, after := range post.Entries {
		have := map[string]bool{}
		for _, p := range pre.Entries[k] {
			have[ident(p)] = true
		}
		for _, p := range after {
			if !have[ident(p)] {
				m := ep.mk(k)
				if ep.accepted[m] == nil {
					ep.accepted[m] = map[string]bool{}
				}
				ep.accepted[m][ident(p)] = true
			}
		}
	}
	if trimmed != nil {
		for m := range ep.trig {
			if m.duty == *trimmed {
				ep.trimAfter[m] = true
			}
		}
	}
	// a share that signs different data for the same key must be rejected (single calls only: with two
	// racing calls the stored partial may have been evicted by the other call in the meantime)
	if len(calls) == 1 && calls[0].status != 'X' {
		c := calls[0]
		for _, e := range c.entries {
			if e.sub < 0 {
				continue
			}
			k := parsigdb.VerifKey{Duty: c.duty(), PubKey: ep.pks[e.pk], SubcommIdx: core.SubcommitteeIndex(e.sub)}
			mine := ident(ep.parSig(c, e))
			for _, p := range pre.Entries[k] {
				if p.ShareIdx == e.share && ident(p) != mine && obs[0].err == "ok" {
					run.Violate("parsigdb:equivocation_accepted", fmt.Sprintf("share %d sent different data for %s and the call returned no error", e.share, ep.keyStr(k)))
				}
			}
		}
	}
	// a set the node's own store refused (an entry contradicts what this share stored before) must not
	// be handed to the internal subscribers (the peer exchange): the node's share would back two
	// signing roots on the wire
	for i, o := range obs {
		if o.isub && (o.err == "mismatch" || o.err == "subcomm" || o.err == "other") {
			run.Violate("parsigdb:rejected_set_exchanged", fmt.Sprintf("StoreInternal for duty %v returned %q but the internal subscribers (peer exchange) were called with the set", calls[i].duty(), o.err))
		}
	}
	// threshold callbacks: payload soundness and at-most-once
	anyEntryErr := false
	for i, o := range obs {
		if o.err == "mismatch" || o.err == "subcomm" || o.err == "other" {
			anyEntryErr = true
		}
		c := calls[i]
		for _, m := range o.cbs {
			run.Count("mon:callback")
			for pk, payload := range m {
				id := ep.pkID[pk]
				if len(payload) == 0 {
					run.Violate("parsigdb:payload_size", fmt.Sprintf("empty payload for pk %d duty %v", id, c.duty()))
					continue
				}
				sub, err := core.SyncSubcommitteeIndex(c.duty().Type, payload[0].SignedData)
				if err != nil {
					run.Violate("parsigdb:payload_bad_type", fmt.Sprintf("payload of pk %d duty %v: %v", id, c.duty(), err))
					continue
				}
				mk := mkey{c.duty(), id, int(sub)}
				if len(payload) != ep.t {
					run.Violate("parsigdb:payload_size", fmt.Sprintf("%d partials handed over for %v, threshold %d", len(payload), mk, ep.t))
				}
				shares := map[int]bool{}
				var shareList []int
				var root0 [32]byte
				for j, p := range payload {
					if shares[p.ShareIdx] {
						run.Violate("parsigdb:payload_repeated_share", fmt.Sprintf("share %d twice in payload for %v", p.ShareIdx, mk))
					}
					shares[p.ShareIdx] = true
					shareList = append(shareList, p.ShareIdx)
					if c.duty().Type != core.DutySignature {
						r, err := p.MessageRoot()
						hx.Must(err)
						if j == 0 {
							root0 = r
						} else if r != root0 {
							run.Violate("parsigdb:payload_mixed_roots", fmt.Sprintf("payload for %v mixes signing roots", mk))
						}
					}
					if !ep.accepted[mk][ident(p)] {
						run.Violate("parsigdb:payload_not_accepted", fmt.Sprintf("payload for %v holds a partial of share %d that was never stored", mk, p.ShareIdx))
					}
				}
				sort.Ints(shareList)
				rec := trigRec{fmt.Sprintf("%v/%x", shareList, root0[:4])}
				if prev := ep.trig[mk]; len(prev) > 0 {
					// which partial did this call store for the validator, and with which root?
					// (for two racing calls: by either of them — which one ran first is not observable)
					otherRoot := false
					for _, c2 := range calls {
						if c2.duty() != c.duty() || c.duty().Type == core.DutySignature {
							continue
						}
						for _, e := range c2.entries {
							if e.pk == id && e.sub == int(sub) {
								r, err := ep.parSig(c2, e).MessageRoot()
								hx.Must(err)
								otherRoot = otherRoot || r != root0
							}
						}
					}
					same := false
					for _, p := range prev {
						same = same || p == rec
					}
					switch {
					case ep.evicted[mk]:
						run.Violate("parsigdb:double_trigger_exempt_eviction", fmt.Sprintf("%v aggregated again after an exempt-cap eviction shrank its group (shares %v)", mk, shareList))
					case ep.trimAfter[mk]:
						run.Violate("parsigdb:double_trigger_after_trim", fmt.Sprintf("%v aggregated again after its duty was trimmed", mk))
					case same && otherRoot:
						run.Violate("parsigdb:double_trigger_late_minority_root", fmt.Sprintf("%v aggregated again with the same partials %v when a partial with another signing root was stored", mk, shareList))
					default:
						run.Violate("parsigdb:double_trigger", fmt.Sprintf("%v aggregated again (shares %v, before %v)", mk, shareList, prev))
					}
				}
				ep.trig[mk] = append(ep.trig[mk], rec)
				run.Count("mon:trigger")
			}
		}
	}
	// no lost trigger: at quiescence every key holding a threshold of matching partials was aggregated
	for k, sigs := range post.Entries {
		mk := ep.mk(k)
		if len(ep.trig[mk]) > 0 || ep.lostSeen[mk] {
			continue
		}
		best := 0
		if k.Duty.Type == core.DutySignature {
			best = len(sigs)
		} else {
			cnt := map[[32]byte]int{}
			for _, p := range sigs {
				r, err := p.MessageRoot()
				hx.Must(err)
				cnt[r]++
				if cnt[r] > best {
					best = cnt[r]
				}
			}
		}
		if best >= ep.t {
			ep.lostSeen[mk] = true
			if anyEntryErr {
				run.Violate("parsigdb:lost_trigger_batch_error", fmt.Sprintf("%v holds %d matching partials (threshold %d) but was not aggregated: the call that stored the last one returned an error for another validator of the same batch", mk, best, ep.t))
			} else {
				run.Violate("parsigdb:lost_trigger", fmt.Sprintf("%v holds %d matching partials (threshold %d) but was not aggregated", mk, best, ep.t))
			}
		}
	}
}

// ---------------------------------------------------------------------------------------------
// executing ops

type driver struct {
	run  *hx.Run
	ep   *episode
	exec bool // exec mode: try to reproduce the recorded outcome
}

func (d *driver) doNew(t int) {
	if d.ep != nil {
		d.ep.cancel()
	}
	d.ep = newEpisode(t)
	d.run.Op(fmt.Sprintf("new %d", t), "ok")
}

func (d *driver) doCalls(calls []call, target string, gated bool) {
	ep := d.ep
	pre := ep.db.VerifSnapshot()
	var obs []*callObs
	var post parsigdb.VerifSnapshot
	var out string
	tries := 1
	if d.exec && target != "" {
		tries = 60
	}
	for a := 0; a < tries; a++ {
		if a > 0 {
			ep.db.VerifRestore(pre)
			d.run.Count("exec:retry")
		}
		obs = ep.attempt(calls, gated)
		post = ep.db.VerifSnapshot()
		out = ep.outcome(obs, post)
		if out == target {
			break
		}
	}
	for _, c := range calls {
		if prev, ok := ep.status[c.duty()]; !ok || prev != 'E' || c.status == 'E' {
			ep.status[c.duty()] = c.status
		}
	}
	if len(calls) == 1 && calls[0].status == 'T' {
		// trim inside Add: monitors see it as `trim; call` when the mid snapshot exists
		du := calls[0].duty()
		d.run.Count("call:trim_inside_add")
		if ep.mid != nil {
			ep.monitors(d.run, nil, nil, pre, *ep.mid, &du)
			ep.status[du] = 'S'
			ep.monitors(d.run, calls, obs, *ep.mid, post, nil)
		} else {
			d.run.Count("call:trim_inside_add_deferred")
		}
		ep.status[du] = 'X'
	} else {
		ep.monitors(d.run, calls, obs, pre, post, nil)
	}
	// distribution
	kind := "call"
	if len(calls) == 2 {
		kind = "par"
	}
	for i, c := range calls {
		d.run.Count(fmt.Sprintf("%s:%c:%s", map[bool]string{false: "ext", true: "int"}[c.internal], c.status, obs[i].err))
		d.run.Count(fmt.Sprintf("batch:%d", len(c.entries)))
		d.run.Count(fmt.Sprintf("type:%d", c.typ))
		if len(obs[i].cbs) > 0 {
			d.run.Count("callback")
		}
		if obs[i].err != "ok" && len(c.entries) > 1 {
			d.run.Count("multi_batch_with_rejected_entry")
		}
		d.run.Case(fmt.Sprintf("%s:t%d:%d:%c:n%d:%s:cb%d", kind, ep.t, c.typ, c.status, len(c.entries), obs[i].err, len(obs[i].cbs)))
	}
	var parts []string
	for _, c := range calls {
		parts = append(parts, c.String())
	}
	op := strings.Join(parts, " ; ")
	if len(calls) == 2 {
		if gated {
			op = "gpar " + op
			d.run.Count("gpar")
		} else {
			op = "par " + op
		}
	}
	d.run.Op(op+" # "+out, out)
}

func (d *driver) doTrim(slot uint64, typ int) {
	ep := d.ep
	duty := core.Duty{Slot: slot, Type: core.DutyType(typ)}
	pre := ep.db.VerifSnapshot()
	ep.dl.ch <- duty
	ep.dl.ch <- core.Duty{} // received only after the previous duty was fully processed
	post := ep.db.VerifSnapshot()
	ep.monitors(d.run, nil, nil, pre, post, &duty)
	if ep.status[duty] != 'E' {
		for k, v := range post.Entries {
			if k.Duty == duty && len(v) > 0 {
				d.run.Violate("parsigdb:trim_left_entries", fmt.Sprintf("%s still stored after its duty was trimmed", ep.keyStr(k)))
			}
		}
	}
	if ep.status[duty] != 'E' {
		ep.status[duty] = 'X'
	}
	d.run.Count("trim")
	d.run.Op(fmt.Sprintf("trim %d:%d", slot, typ), "- | "+ep.snapStr(post))
}

func (d *driver) execLine(line string) {
	target := ""
	if i := strings.Index(line, " # "); i >= 0 {
		target = line[i+3:]
		line = line[:i]
	}
	f := strings.Fields(line)
	switch f[0] {
	case "new":
		d.doNew(atoi(f[1]))
	case "ext", "int":
		d.doCalls([]call{parseCall(f)}, target, false)
	case "par", "gpar":
		rest := strings.Split(strings.TrimPrefix(strings.TrimPrefix(line, "g"), "par "), " ; ")
		if len(rest) != 2 {
			panic("bad par op")
		}
		d.doCalls([]call{parseCall(strings.Fields(rest[0])), parseCall(strings.Fields(rest[1]))}, target, f[0] == "gpar")
	case "trim":
		slot, typ := parseDuty(f[1])
		d.doTrim(slot, typ)
	default:
		panic("bad op " + line)
	}
}

// ---------------------------------------------------------------------------------------------
// generator

type dutyInfo struct {
	slot   uint64
	typ    int
	status byte
}

type sentKey struct {
	slot         uint64
	typ, pk, sub int
	share        int
}

type gen struct {
	d    *driver
	rng  *hx.Rng
	t, n int
	nv   int
	own  int
	duts []dutyInfo
	sent map[sentKey][2]int // what a share last sent for a key: root, sig
	subs map[[2]int]int     // preferred subcommittee per (duty index, pk)
}

var regularTypes = []int{2, 2, 7, 10, 12, 11, 8, 3}

func (g *gen) mkCall(di int, share int, forceAll bool) call {
	rng := g.rng
	du := g.duts[di]
	c := call{internal: share == g.own, slot: du.slot, typ: du.typ, status: du.status, cbErr: rng.Chance(1, 40)}
	for pk := 0; pk < g.nv; pk++ {
		if !forceAll && !rng.Chance(7, 10) {
			continue
		}
		e := entry{pk: pk, share: share}
		if isSyncType(du.typ) {
			e.sub = g.subs[[2]int{di, pk}]
			if rng.Chance(1, 8) {
				e.sub = rng.Intn(3)
			}
			if rng.Chance(1, 25) {
				e.sub = -1
			}
		}
		switch r := rng.Intn(100); {
		case r < 80:
			e.root = 0
		case r < 95:
			e.root = 1
		default:
			e.root = 2
		}
		if rng.Chance(1, 20) {
			e.sig = 1
		}
		sk := sentKey{du.slot, du.typ, pk, e.sub, share}
		if prev, ok := g.sent[sk]; ok && rng.Chance(6, 10) {
			e.root, e.sig = prev[0], prev[1] // honest re-send: a duplicate
		}
		if e.sub >= 0 {
			if _, ok := g.sent[sk]; !ok {
				g.sent[sk] = [2]int{e.root, e.sig}
			}
		}
		c.entries = append(c.entries, e)
	}
	if len(c.entries) == 0 && !rng.Chance(1, 30) {
		return g.mkCall(di, share, true)
	}
	// Go map insertion order (only matters for which iteration orders the runtime can produce)
	p := rng.Perm(len(c.entries))
	es := make([]entry, len(c.entries))
	for i, j := range p {
		es[i] = c.entries[j]
	}
	c.entries = es
	return c
}

func (g *gen) pickShare(di int) int {
	if g.rng.Chance(3, 4) {
		// a share that has not sent anything for this duty yet, if any
		p := g.rng.Perm(g.n)
		for _, s := range p {
			fresh := true
			for k := range g.sent {
				if k.slot == g.duts[di].slot && k.typ == g.duts[di].typ && k.share == s+1 {
					fresh = false
					break
				}
			}
			if fresh {
				return s + 1
			}
		}
	}
	return 1 + g.rng.Intn(g.n)
}

func (g *gen) emit(calls ...call) {
	var parts []string
	for _, c := range calls {
		parts = append(parts, c.String())
	}
	line := strings.Join(parts, " ; ")
	if len(calls) == 2 {
		line = "par " + line
	}
	g.d.execLine(line)
}

// emitG: two calls of which the first is parked in the middle while the second runs to completion.
func (g *gen) emitG(a, b call) {
	g.d.execLine("gpar " + a.String() + " ; " + b.String())
}

func (g *gen) episode() {
	rng := g.rng
	g.t = 2 + rng.Intn(4)
	g.n = g.t + rng.Intn(g.t)
	g.nv = 1 + rng.Intn(3)
	g.own = 1 + rng.Intn(g.n)
	g.sent = map[sentKey][2]int{}
	g.subs = map[[2]int]int{}
	g.duts = nil
	g.d.execLine(fmt.Sprintf("new %d", g.t))
	base := uint64(100 + rng.Intn(900))
	scenario := rng.Intn(100)
	switch {
	case scenario < 55: // regular duties, random arrival orders
		nd := 1 + rng.Intn(3)
		for i := 0; i < nd; i++ {
			st := byte('S')
			if rng.Chance(1, 25) {
				st = 'X'
			}
			du := dutyInfo{base + uint64(rng.Intn(3)), regularTypes[rng.Intn(len(regularTypes))], st}
			dupl := false
			for _, x := range g.duts {
				dupl = dupl || (x.slot == du.slot && x.typ == du.typ)
			}
			if !dupl {
				g.duts = append(g.duts, du)
			}
		}
		if rng.Chance(1, 4) {
			g.duts = append(g.duts, dutyInfo{base, []int{4, 6}[rng.Intn(2)], 'E'})
		}
		g.randomOps(12 + rng.Intn(25))
	case scenario < 70: // D-1 shape: one share's batch completes validator 0 and equivocates on validator 1
		g.nv = 2 + rng.Intn(2)
		typ := []int{2, 7, 10, 12}[rng.Intn(4)]
		g.duts = append(g.duts, dutyInfo{base, typ, 'S'})
		shares := rng.Perm(g.n)
		for i := 0; i < g.t-1; i++ {
			c := call{internal: shares[i]+1 == g.own, slot: base, typ: typ, status: 'S'}
			for pk := 0; pk < g.nv; pk++ {
				c.entries = append(c.entries, entry{pk: pk, share: shares[i] + 1})
				g.sent[sentKey{base, typ, pk, 0, shares[i] + 1}] = [2]int{0, 0}
			}
			g.emit(c)
		}
		// the equivocating share first stores something for validator 1 ...
		last := shares[g.t-1] + 1
		g.emit(call{internal: last == g.own, slot: base, typ: typ, status: 'S', entries: []entry{{pk: 1, share: last, root: 1}}})
		g.sent[sentKey{base, typ, 1, 0, last}] = [2]int{1, 0}
		// ... then sends a batch that completes validator 0 (and 2) and conflicts on validator 1
		c := call{internal: last == g.own, slot: base, typ: typ, status: 'S'}
		for _, pk := range rng.Perm(g.nv) {
			c.entries = append(c.entries, entry{pk: pk, share: last})
		}
		g.emit(c)
		g.randomOps(4 + rng.Intn(8))
	case scenario < 85: // exempt duties, including the cap-eviction replay (D-2 shape)
		typ := []int{4, 6}[rng.Intn(2)]
		g.duts = append(g.duts, dutyInfo{base, typ, 'E'})
		g.nv = 1 + rng.Intn(2)
		shares := rng.Perm(g.n)
		if rng.Chance(1, 3) {
			// the cap eviction runs while the threshold-reaching call is parked between its store and its threshold
			// check: share `rep` (oldest exempt entry: duty 0) stores its 11th distinct exempt duty in call b, which
			// filters duty 0's entry list in place; call a must still hand over the list it stored into
			for i := 0; i < g.t-1; i++ {
				g.emit(g.plain(0, shares[i]+1))
			}
			rep := shares[rng.Intn(g.t-1)] + 1
			for j := 1; j <= 9; j++ {
				g.duts = append(g.duts, dutyInfo{base + uint64(j), typ, 'E'})
				g.emit(g.plain(len(g.duts)-1, rep))
			}
			g.duts = append(g.duts, dutyInfo{base + 10, typ, 'E'})
			g.emitG(g.plain(0, shares[g.t-1]+1), g.plain(len(g.duts)-1, rep))
			g.d.run.Count("gpar:exempt_eviction_while_parked")
			g.randomOps(3 + rng.Intn(6))
			return
		}
		for i := 0; i < g.t; i++ {
			g.emit(g.plain(0, shares[i]+1))
		}
		if rng.Chance(2, 3) {
			rep := shares[rng.Intn(g.t)] + 1
			for j := 1; j <= 10; j++ {
				g.duts = append(g.duts, dutyInfo{base + uint64(j), typ, 'E'})
				g.emit(g.plain(len(g.duts)-1, rep))
			}
			g.emit(g.plain(0, rep))
		}
		g.randomOps(3 + rng.Intn(8))
	case scenario >= 93: // the threshold-th and a further share of every validator arrive in two overlapping batches
		// (the first is parked after its first insert while the second runs through): exactly one trigger each
		if g.n == g.t {
			g.n = g.t + 1
		}
		g.nv = 2 + rng.Intn(2)
		typ := []int{2, 7, 10}[rng.Intn(3)]
		g.duts = append(g.duts, dutyInfo{base, typ, 'S'})
		shares := rng.Perm(g.n)
		for i := 0; i < g.t-1; i++ {
			g.emit(g.plain(0, shares[i]+1))
		}
		a, b := g.plain(0, shares[g.t-1]+1), g.plain(0, shares[g.t]+1)
		if rng.Chance(1, 3) { // the parked batch in another validator order
			for i, j := 0, len(a.entries)-1; i < j; i, j = i+1, j-1 {
				a.entries[i], a.entries[j] = a.entries[j], a.entries[i]
			}
		}
		g.emitG(a, b)
		g.randomOps(3 + rng.Intn(6))
	default: // late minority root after the threshold was reached
		typ := []int{2, 10, 12}[rng.Intn(3)]
		g.duts = append(g.duts, dutyInfo{base, typ, 'S'})
		shares := rng.Perm(g.n)
		for i := 0; i < g.t; i++ {
			g.emit(g.plain(0, shares[i]+1))
		}
		if g.n > g.t {
			c := g.plain(0, shares[g.t]+1)
			for i := range c.entries {
				c.entries[i].root = 1
			}
			g.emit(c)
		}
		g.randomOps(3 + rng.Intn(8))
	}
}

// plain: an honest batch of one share covering every validator.
func (g *gen) plain(di int, share int) call {
	du := g.duts[di]
	c := call{internal: share == g.own, slot: du.slot, typ: du.typ, status: du.status}
	for pk := 0; pk < g.nv; pk++ {
		c.entries = append(c.entries, entry{pk: pk, share: share})
		g.sent[sentKey{du.slot, du.typ, pk, 0, share}] = [2]int{0, 0}
	}
	return c
}

func (g *gen) randomOps(k int) {
	rng := g.rng
	for i := 0; i < k; i++ {
		di := rng.Intn(len(g.duts))
		switch r := rng.Intn(100); {
		case r < 5 && g.duts[di].status == 'S':
			g.d.execLine(fmt.Sprintf("trim %d:%d", g.duts[di].slot, g.duts[di].typ))
			g.duts[di].status = 'X' // deadliner contract: a trimmed duty is expired from now on
		case r < 9 && g.duts[di].status == 'S':
			// the deadline fires between the deadliner's answer (Scheduled) and the store: the partial is
			// stored for a duty that is trimmed already; every later partial of the duty is refused (expired)
			c := g.mkCall(di, g.pickShare(di), false)
			c.status = 'T'
			g.emit(c)
			g.duts[di].status = 'X'
		case r < 20:
			s1 := g.pickShare(di)
			s2 := g.pickShare(di)
			dj := di
			if rng.Chance(1, 4) {
				dj = rng.Intn(len(g.duts))
			}
			a, b := g.mkCall(di, s1, false), g.mkCall(dj, s2, false)
			if len(a.entries) > 3 {
				a.entries = a.entries[:3]
			}
			if len(b.entries) > 2 {
				b.entries = b.entries[:2]
			}
			g.emit(a, b)
		default:
			g.emit(g.mkCall(di, g.pickShare(di), false))
		}
	}
}

func main() {
	a := hx.ParseArgs()
	hx.Must(log.InitLogger(log.Config{Level: "error", Format: "console", Color: "disable"}))
	run := hx.NewRun(a.Dir)
	defer run.Close()
	d := &driver{run: run, exec: a.Mode == "exec"}
	if a.Mode == "exec" {
		for _, op := range hx.ReadOps(a.Ops) {
			if d.ep == nil && !strings.HasPrefix(op, "new ") {
				d.doNew(3)
			}
			d.execLine(op)
		}
	} else {
		// hx.Rng streams of nearby seeds are shifts of one another; spread the seeds first
		z := (a.Seed + 0x632BE59BD9B4E019) * 0xFF51AFD7ED558CCD
		z ^= z >> 33
		g := &gen{d: d, rng: hx.NewRng(z)}
		for run.NOps < a.N && !run.Enough() {
			g.episode()
		}
	}
	if d.ep != nil {
		d.ep.cancel()
	}
}
