// drive-aggsigdb: correspondence driver for C17 (core/aggsigdb: MemDB = V1 actor, MemDBV2 = mutex).
//
// Runs the real stores (NewMemDB + Run loop, NewMemDBV2 + Run) with a scripted core.Deadliner,
// k concurrent readers (one goroutine per Await) over overlapping keys, stores in all orders
// relative to the reads, context cancellations, conflicting re-stores, multi-key stores that
// fail midway, expiries and shutdown, in strict lock-step: after every op the driver waits until
// the implementation is provably quiescent (every goroutine it started — the Run goroutine and
// every reader still inside Await — is parked in a blocking wait in one stop-the-world
// goroutine snapshot; no sleeps decide anything) and only then classifies readers as blocked.
//
// ops:
//
//	new v1|v2                                     fresh store (episode reset)
//	await <rid> <slot>/<type> <pk> <sub>          start reader <rid> (own goroutine, own context)
//	store <slot>/<type> <dlst> <pk>:<dsub>:<v>... Store a set; <dlst> = what deadliner.Add answers;
//	                                              <dsub> = x (plain data) | n (sync-aggregator data
//	                                              with subcommittee index n); entry order = the
//	                                              map-iteration order the implementation used
//	                                              (reconstructed from what it stored, see canonOrder)
//	cancel <rid>                                  cancel the reader's context
//	expire <slot>/<type>                          the deadliner emits the duty on C()
//	stop                                          cancel Run's context
//
// output: "<res> done=[rid:val|class,...] blocked=[rid,...] data=[slot/type.pk.sub=val,...] bq=<n|->"
// with <res> = "-" or "<ok|mismatch|notsync|stopped|err>:<number of deadliner.Add calls>",
// values interned as "<dsub>.<v>" by their JSON, bq = len(blockedQueries) (V1 hook).
package main

import (
	"bytes"
	"context"
	"encoding/binary"
	"errors"
	"fmt"
	"runtime"
	"sort"
	"strconv"
	"strings"
	"sync"
	"sync/atomic"
	"time"

	"github.com/OffchainLabs/go-bitfield"
	eth2v1 "github.com/attestantio/go-eth2-client/api/v1"
	"github.com/attestantio/go-eth2-client/spec/altair"
	eth2p0 "github.com/attestantio/go-eth2-client/spec/phase0"

	"github.com/obolnetwork/charon/core"
	"github.com/obolnetwork/charon/core/aggsigdb"

	"verifharness/hx"
)

// ---------------------------------------------------------------------------------------------
// goroutine introspection

func curGoid() int64 {
	var buf [64]byte
	n := runtime.Stack(buf[:], false)
	f := strings.Fields(string(buf[:n]))
	id, err := strconv.ParseInt(f[1], 10, 64)
	hx.Must(err)
	return id
}

var stackBuf = make([]byte, 1<<18)

// goStates returns goroutine id -> wait state ("running", "runnable", "select", ...) of all
// goroutines in one stop-the-world snapshot.
func goStates() map[int64]string {
	for {
		n := runtime.Stack(stackBuf, true)
		if n < len(stackBuf) {
			return parseStates(stackBuf[:n])
		}
		stackBuf = make([]byte, 2*len(stackBuf))
	}
}

var goHdr = []byte("goroutine ")

func parseStates(b []byte) map[int64]string {
	res := map[int64]string{}
	for len(b) > 0 {
		nl := bytes.IndexByte(b, '\n')
		line := b
		if nl >= 0 {
			line = b[:nl]
			b = b[nl+1:]
		} else {
			b = nil
		}
		if !bytes.HasPrefix(line, goHdr) {
			continue
		}
		rest := line[len(goHdr):]
		sp := bytes.IndexByte(rest, ' ')
		lb := bytes.IndexByte(rest, '[')
		rb := bytes.LastIndexByte(rest, ']')
		if sp < 0 || lb < 0 || rb < lb {
			continue
		}
		id, err := strconv.ParseInt(string(rest[:sp]), 10, 64)
		if err != nil {
			continue
		}
		st := string(rest[lb+1 : rb])
		if c := strings.IndexByte(st, ','); c >= 0 {
			st = st[:c]
		}
		res[id] = st
	}
	return res
}

// parked: the goroutine is blocked in a wait that only another goroutine's action can end.
func parked(st string) bool {
	switch {
	case strings.HasPrefix(st, "select"), strings.HasPrefix(st, "chan receive"), strings.HasPrefix(st, "chan send"),
		strings.HasPrefix(st, "sync."):
		// not "semacquire": that is a goroutine waiting for a runtime semaphore (e.g. it wants
		// to start a GC cycle while this driver holds the world stopped) — it will run again.
		return true
	}
	return false
}

// ---------------------------------------------------------------------------------------------
// scripted deadliner

type scriptedDeadliner struct {
	ch     chan core.Duty
	adds   atomic.Int64
	status atomic.Int64
}

func (d *scriptedDeadliner) Add(core.Duty) core.DeadlineStatus {
	d.adds.Add(1)
	return core.DeadlineStatus(d.status.Load())
}

func (d *scriptedDeadliner) C() <-chan core.Duty { return d.ch }

// ---------------------------------------------------------------------------------------------
// values, keys

type key struct {
	slot, ty, pk, sub int
}

func (k key) String() string { return fmt.Sprintf("%d/%d.%d.%d", k.slot, k.ty, k.pk, k.sub) }
func (k key) duty() core.Duty {
	return core.Duty{Slot: uint64(k.slot), Type: core.DutyType(k.ty)}
}

func keyLess(a, b key) bool {
	if a.slot != b.slot {
		return a.slot < b.slot
	}
	if a.ty != b.ty {
		return a.ty < b.ty
	}
	if a.pk != b.pk {
		return a.pk < b.pk
	}
	return a.sub < b.sub
}

var pkIndex = map[core.PubKey]int{}

func pubKey(i int) core.PubKey {
	var b [48]byte
	binary.BigEndian.PutUint64(b[0:], 0xA5A5A5A5A5A5A5A5)
	binary.BigEndian.PutUint64(b[40:], uint64(i))
	pk := core.PubKey(fmt.Sprintf("%#x", b))
	pkIndex[pk] = i
	return pk
}

func sig(v int, salt byte) eth2p0.BLSSignature {
	var s eth2p0.BLSSignature
	for i := range s {
		s[i] = salt
	}
	binary.BigEndian.PutUint64(s[8:], uint64(v))
	return s
}

var tokOfJSON = map[string]string{}

func jsonOf(d core.SignedData) string {
	b, err := d.MarshalJSON()
	hx.Must(err)
	return string(b)
}

// mkValue builds the real SignedData for value token "<dsub>.<v>" (dsub < 0: plain data).
func mkValue(dsub, v int) (core.SignedData, string) {
	var d core.SignedData
	var tok string
	if dsub < 0 {
		tok = fmt.Sprintf("x.%d", v)
		switch v % 3 {
		case 0:
			s := sig(v, 1)
			d = core.Signature(s[:])
		case 1:
			d = core.NewSignedRandao(eth2p0.Epoch(v), sig(v, 2))
		default:
			d = core.NewSignedVoluntaryExit(&eth2p0.SignedVoluntaryExit{
				Message:   &eth2p0.VoluntaryExit{Epoch: eth2p0.Epoch(v), ValidatorIndex: eth2p0.ValidatorIndex(v)},
				Signature: sig(v, 3),
			})
		}
	} else {
		tok = fmt.Sprintf("%d.%d", dsub, v)
		if v%2 == 0 {
			d = core.NewSyncCommitteeSelection(&eth2v1.SyncCommitteeSelection{
				ValidatorIndex: eth2p0.ValidatorIndex(v), Slot: 7, SubcommitteeIndex: uint64(dsub), SelectionProof: sig(v, 4),
			})
		} else {
			d = core.NewSignedSyncContributionAndProof(&altair.SignedContributionAndProof{
				Message: &altair.ContributionAndProof{
					AggregatorIndex: eth2p0.ValidatorIndex(v),
					Contribution: &altair.SyncCommitteeContribution{
						Slot: 7, SubcommitteeIndex: uint64(dsub), AggregationBits: bitfield.NewBitvector128(), Signature: sig(v, 5),
					},
					SelectionProof: sig(v, 6),
				},
				Signature: sig(v, 7),
			})
		}
	}
	tokOfJSON[jsonOf(d)] = tok
	return d, tok
}

func tokOf(d core.SignedData) string {
	if t, ok := tokOfJSON[jsonOf(d)]; ok {
		return t
	}
	return "?"
}

// ---------------------------------------------------------------------------------------------
// episode

type inst interface {
	Store(context.Context, core.Duty, core.SignedDataSet) error
	Await(context.Context, core.Duty, core.PubKey, core.SubcommitteeIndex) (core.SignedData, error)
	Run(context.Context)
}

type reader struct {
	rid     int
	k       key
	cancel  context.CancelFunc
	goid    int64
	done    bool
	flagged bool // a lost wake-up was already reported for this reader
}

type result struct {
	rid int
	val core.SignedData
	err error
}

type episode struct {
	impl      string
	db        inst
	v1        *aggsigdb.MemDB
	v2        *aggsigdb.MemDBV2
	dl        *scriptedDeadliner
	runCancel context.CancelFunc
	runGoid   int64
	runDone   chan struct{}
	stopped   bool
	readers   map[int]*reader
	used      map[int]bool
	results   chan result
	snap      map[key]string // last snapshot: key -> value token
	snapJSON  map[key]string
}

func newEpisode(impl string) *episode {
	e := &episode{impl: impl, dl: &scriptedDeadliner{ch: make(chan core.Duty)}, readers: map[int]*reader{},
		used: map[int]bool{}, results: make(chan result, 4096), runDone: make(chan struct{}),
		snap: map[key]string{}, snapJSON: map[key]string{}}
	e.dl.status.Store(int64(core.DeadlineScheduled))
	if impl == "v1" {
		e.v1 = aggsigdb.NewMemDB(e.dl)
		e.db = e.v1
	} else {
		e.v2 = aggsigdb.NewMemDBV2(e.dl)
		e.db = e.v2
	}
	ctx, cancel := context.WithCancel(context.Background())
	e.runCancel = cancel
	reg := make(chan int64)
	go func() {
		reg <- curGoid()
		e.db.Run(ctx)
		close(e.runDone)
	}()
	e.runGoid = <-reg
	e.quiesce()
	return e
}

// quiesce waits until the Run goroutine and every reader still inside Await are parked in one
// goroutine snapshot, then collects the readers that returned.
func (e *episode) quiesce() []result {
	deadline := time.Now().Add(60 * time.Second)
	var hist []map[int64]string
	var st map[int64]string
	for spin := 0; ; spin++ {
		st = goStates()
		if len(hist) < 64 {
			hist = append(hist, st)
		}
		ok := true
		if !e.stopped {
			if s, present := st[e.runGoid]; !present || !parked(s) {
				ok = false
			}
		}
		for _, r := range e.readers {
			if r.done {
				continue
			}
			if s, present := st[r.goid]; present && !parked(s) {
				ok = false
			}
		}
		if ok {
			break
		}
		if time.Now().After(deadline) {
			panic(fmt.Sprintf("aggsigdb %s did not become quiescent: %v", e.impl, st))
		}
		if spin < 200 {
			runtime.Gosched()
		} else {
			time.Sleep(20 * time.Microsecond)
		}
	}
	var out []result
	for {
		select {
		case r := <-e.results:
			e.readers[r.rid].done = true
			out = append(out, r)
			continue
		default:
		}
		break
	}
	// every reader that left the snapshot must have delivered its result
	for _, r := range e.readers {
		if !r.done {
			if _, present := st[r.goid]; !present {
				panic(fmt.Sprintf("reader %d goid %d gone without result; states %v hist %v got %v\n%s", r.rid, r.goid, st, hist, out, stackBuf[:runtime.Stack(stackBuf, true)]))
			}
		}
	}
	sort.Slice(out, func(i, j int) bool { return out[i].rid < out[j].rid })
	return out
}

func (e *episode) shutdown() {
	if !e.stopped {
		e.runCancel()
		<-e.runDone
		e.stopped = true
	}
	for _, r := range e.readers {
		r.cancel()
	}
	e.quiesce()
}

func (e *episode) blocked() []int {
	var b []int
	for _, r := range e.readers {
		if !r.done {
			b = append(b, r.rid)
		}
	}
	sort.Ints(b)
	return b
}

func errClass(err error) string {
	switch {
	case err == nil:
		return "ok"
	case errors.Is(err, context.Canceled):
		return "canceled"
	case errors.Is(err, aggsigdb.ErrStopped):
		return "stopped"
	case strings.Contains(err.Error(), "mismatching data"):
		return "mismatch"
	case strings.Contains(err.Error(), "not a sync-committee aggregator duty"):
		return "notsync"
	}
	return "err"
}

// snapshot reads the implementation's stored entries through the verif hook (the store is quiescent).
func (e *episode) snapshot(run *hx.Run) (map[key]string, map[key]string, string) {
	var ents []aggsigdb.EntryVerif
	var idx int
	bq := "-"
	if e.v1 != nil {
		var b int
		ents, idx, b = e.v1.SnapshotVerif()
		bq = strconv.Itoa(b)
	} else {
		ents, idx = e.v2.SnapshotVerif()
	}
	toks := map[key]string{}
	js := map[key]string{}
	allIdx := true
	for _, en := range ents {
		pk, ok := pkIndex[en.PubKey]
		if !ok {
			pk = -1
		}
		k := key{int(en.Duty.Slot), int(en.Duty.Type), pk, int(en.SubcommIdx)}
		toks[k] = tokOf(en.Data)
		js[k] = jsonOf(en.Data)
		allIdx = allIdx && en.Indexed
	}
	if !allIdx || idx != len(ents) {
		run.Violate("aggsigdb:index_inconsistent", fmt.Sprintf("%s: %d entries, %d index entries, all indexed=%v", e.impl, len(ents), idx, allIdx))
	}
	return toks, js, bq
}

func dataStr(m map[key]string) string {
	ks := make([]key, 0, len(m))
	for k := range m {
		ks = append(ks, k)
	}
	sort.Slice(ks, func(i, j int) bool { return keyLess(ks[i], ks[j]) })
	parts := make([]string, len(ks))
	for i, k := range ks {
		parts[i] = k.String() + "=" + m[k]
	}
	return "[" + strings.Join(parts, ",") + "]"
}

type entry struct {
	pk, dsub, v int // dsub < 0: plain data
}

func (en entry) String() string {
	if en.dsub < 0 {
		return fmt.Sprintf("%d:x:%d", en.pk, en.v)
	}
	return fmt.Sprintf("%d:%d:%d", en.pk, en.dsub, en.v)
}

type opInfo struct {
	kind     string // await store cancel expire stop
	storeErr error
	duty     key // store/expire: slot, ty
	entries  []entry
}

// observe: quiesce, snapshot, run the monitors, render the canonical output line.
func (e *episode) observe(run *hx.Run, res string, info opInfo, waitersBefore int) string {
	done := e.quiesce()
	pre, preJSON := e.snap, e.snapJSON
	post, postJSON, bq := e.snapshot(run)
	e.snap, e.snapJSON = post, postJSON

	// --- monitors (on the implementation's own trace) ---
	// M1: a read returns exactly the value stored under its key.
	parts := make([]string, 0, len(done))
	for _, r := range done {
		rd := e.readers[r.rid]
		if r.err == nil {
			tok := tokOf(r.val)
			parts = append(parts, fmt.Sprintf("%d:%s", r.rid, tok))
			if js, ok := postJSON[rd.k]; !ok || js != jsonOf(r.val) {
				run.Violate("aggsigdb:read_wrong_value", fmt.Sprintf("%s: reader %d for key %v returned %s but the store holds %q", e.impl, r.rid, rd.k, tok, post[rd.k]))
			}
			if info.kind != "await" && info.kind != "store" {
				run.Violate("aggsigdb:read_without_store", fmt.Sprintf("%s: reader %d returned a value during op %s", e.impl, r.rid, info.kind))
			}
			hx.Scribble(r.val) // hostile caller: what a reader got is its private copy
		} else {
			parts = append(parts, fmt.Sprintf("%d:%s", r.rid, errClass(r.err)))
		}
	}
	// M2: what is stored under a key changes only by expiry of its duty.
	for k, js := range preJSON {
		pj, ok := postJSON[k]
		switch {
		case info.kind == "expire" && k.slot == info.duty.slot && k.ty == info.duty.ty && !e.stopped:
			if ok {
				run.Violate("aggsigdb:expiry_kept_key", fmt.Sprintf("%s: key %v survived expiry of its duty", e.impl, k))
			}
		case !ok:
			run.Violate("aggsigdb:stored_value_deleted", fmt.Sprintf("%s: key %v vanished during op %s", e.impl, k, info.kind))
		case pj != js:
			sg := "aggsigdb:stored_value_changed"
			if info.kind == "store" {
				sg = "aggsigdb:conflict_changed_value"
			}
			run.Violate(sg, fmt.Sprintf("%s: value under key %v changed from %s to %s during op %s", e.impl, k, pre[k], post[k], info.kind))
		}
	}
	if info.kind == "store" {
		inSet := map[key]string{}
		conflict := false
		for _, en := range info.entries {
			d, _ := mkValue(en.dsub, en.v)
			sub, err := core.SyncSubcommitteeIndex(core.DutyType(info.duty.ty), d)
			if err != nil {
				continue
			}
			k := key{info.duty.slot, info.duty.ty, en.pk, int(sub)}
			inSet[k] = jsonOf(d)
			if js, ok := preJSON[k]; ok && js != jsonOf(d) {
				conflict = true
			}
			if info.storeErr == nil {
				if js, ok := postJSON[k]; !ok || (js != jsonOf(d)) {
					if _, was := preJSON[k]; !was {
						run.Violate("aggsigdb:store_lost", fmt.Sprintf("%s: Store returned nil but key %v does not hold the stored value", e.impl, k))
					}
				}
			}
		}
		if conflict && info.storeErr == nil {
			run.Violate("aggsigdb:conflict_accepted", fmt.Sprintf("%s: Store of different data under an existing key returned nil", e.impl))
		}
		if !conflict && errClass(info.storeErr) == "mismatch" {
			run.Violate("aggsigdb:spurious_mismatch", fmt.Sprintf("%s: Store without conflicting entry returned mismatch", e.impl))
		}
		for k, js := range postJSON {
			if _, was := preJSON[k]; !was && inSet[k] != js {
				run.Violate("aggsigdb:store_foreign_key", fmt.Sprintf("%s: key %v appeared with a value not in the stored set", e.impl, k))
			}
		}
	} else {
		for k := range postJSON {
			if _, was := preJSON[k]; !was {
				run.Violate("aggsigdb:key_appeared", fmt.Sprintf("%s: key %v appeared during op %s", e.impl, k, info.kind))
			}
		}
	}
	// M3: no lost wake-up — at quiescence no live reader waits for a key that is stored.
	for _, rid := range e.blocked() {
		rd := e.readers[rid]
		if _, stored := postJSON[rd.k]; !stored || rd.flagged {
			continue
		}
		rd.flagged = true
		_, was := preJSON[rd.k]
		var sg string
		switch {
		case info.kind == "store" && info.storeErr == nil && e.impl == "v2" && waitersBefore >= 2:
			sg = "aggsigdb:v2_lost_wakeup_multi_waiter"
		case info.kind == "store" && info.storeErr != nil && !was && e.impl == "v2":
			sg = "aggsigdb:v2_failed_store_no_wakeup"
		case info.kind == "store":
			sg = "aggsigdb:" + e.impl + "_lost_wakeup"
		default:
			sg = "aggsigdb:" + e.impl + "_blocked_on_stored_key"
		}
		run.Violate(sg, fmt.Sprintf("%s: reader %d still blocked on key %v after op %s (result %s) although the store holds %s; %d readers were waiting before the op",
			e.impl, rid, rd.k, info.kind, errClass(info.storeErr), post[rd.k], waitersBefore))
		run.Count("lost_wakeup:" + sg)
	}

	bl := e.blocked()
	bs := make([]string, len(bl))
	for i, r := range bl {
		bs[i] = strconv.Itoa(r)
	}
	return fmt.Sprintf("%s done=[%s] blocked=[%s] data=%s bq=%s", res, strings.Join(parts, ","), strings.Join(bs, ","), dataStr(post), bq)
}

func (e *episode) doAwait(run *hx.Run, rid int, k key) string {
	before := len(e.blocked())
	ctx, cancel := context.WithCancel(context.Background())
	rd := &reader{rid: rid, k: k, cancel: cancel}
	e.readers[rid] = rd
	e.used[rid] = true
	reg := make(chan int64)
	pk := pubKey(k.pk)
	go func() {
		reg <- curGoid()
		v, err := e.db.Await(ctx, k.duty(), pk, core.SubcommitteeIndex(k.sub))
		e.results <- result{rid, v, err}
	}()
	rd.goid = <-reg
	run.Count(e.impl + ":await")
	return e.observe(run, "-", opInfo{kind: "await"}, before)
}

// raceCtx is a context whose first Done() call runs `fire`: the Store of the awaited key happens at
// the very point where Await, having looked the key up, is about to wait (a Store that takes the
// lock exactly between the reader's lookup and its wait).
type raceCtx struct {
	context.Context
	once  *sync.Once
	calls *atomic.Int64
	at    int64 // fire on the at-th Done() call (the reader may ask for Done() while holding its lock first)
	fire  func()
}

func (c raceCtx) Done() <-chan struct{} {
	if c.calls.Add(1) >= c.at {
		c.once.Do(c.fire)
	}
	return c.Context.Done()
}

// doAwaitStore: Await(k) racing with Store(entry for k). Whatever the interleaving, once both calls
// are quiescent the reader must have returned the stored value: the outcome equals `await; store`.
func (e *episode) doAwaitStore(run *hx.Run, rid int, k key, dlst int, at int, ents []entry) string {
	before := len(e.blocked())
	base, cancel := context.WithCancel(context.Background())
	rd := &reader{rid: rid, k: k, cancel: cancel}
	e.readers[rid] = rd
	e.used[rid] = true
	set := core.SignedDataSet{}
	for _, en := range ents {
		val, _ := mkValue(en.dsub, en.v)
		set[pubKey(en.pk)] = val
	}
	e.dl.status.Store(int64(dlst))
	a0 := e.dl.adds.Load()
	var storeErr error
	stored := make(chan struct{})
	fired := make(chan struct{})
	once := new(sync.Once)
	fire := func() {
		close(fired)
		go func() {
			storeErr = e.db.Store(context.Background(), k.duty(), set)
			close(stored)
		}()
		// let the Store run to completion while the reader sits between lookup and wait (if the
		// reader holds a lock here the Store cannot finish: carry on after a moment)
		select {
		case <-stored:
		case <-time.After(20 * time.Millisecond):
		}
	}
	ctx := raceCtx{Context: base, once: once, calls: new(atomic.Int64), at: int64(at), fire: fire}
	reg := make(chan int64)
	pk := pubKey(k.pk)
	go func() {
		reg <- curGoid()
		v, err := e.db.Await(ctx, k.duty(), pk, core.SubcommitteeIndex(k.sub))
		e.results <- result{rid, v, err}
	}()
	rd.goid = <-reg
	// wait until the store fired inside Await, or the reader is parked / gone without having asked
	// for ctx.Done() often enough (then: plain sequence await; store)
	idle := 0
	for spin := 0; ; spin++ {
		select {
		case <-fired:
		default:
			st := goStates()
			if s, present := st[rd.goid]; !present || parked(s) {
				idle++
			} else {
				idle = 0
			}
			if idle >= 3 {
				once.Do(fire)
				break
			}
			if spin < 50 {
				runtime.Gosched()
			} else {
				time.Sleep(20 * time.Microsecond)
			}
			continue
		}
		break
	}
	if ctx.calls.Load() >= int64(at) {
		run.Count(e.impl + ":awaitst:store_inside_await")
	} else {
		run.Count(e.impl + ":awaitst:store_after_await")
	}
	select {
	case <-stored:
	case <-time.After(60 * time.Second):
		panic("racing store did not return")
	}
	out := e.observe(run, "", opInfo{kind: "store", storeErr: storeErr, duty: k, entries: ents}, before)
	adds := int(e.dl.adds.Load() - a0)
	run.Count(e.impl + ":awaitst:" + errClass(storeErr))
	return fmt.Sprintf("%s:%d%s", errClass(storeErr), adds, out)
}

// canonOrder reorders the entries into an iteration order consistent with what the implementation
// did (Go's map order is not observable directly): entries it stored first, then as many
// already-present-and-equal entries as needed to explain the number of deadliner.Add calls, then
// the entry that made it fail, then the rest. The model replays the set in this order.
func (e *episode) canonOrder(d key, ents []entry, pre, post map[key]string, err error, adds int) []entry {
	sorted := append([]entry(nil), ents...)
	sort.Slice(sorted, func(i, j int) bool { return sorted[i].pk < sorted[j].pk })
	if err == nil {
		return sorted
	}
	var X, A, B, S, C []entry // notsync, present equal, present different, newly stored, absent and not stored
	for _, en := range sorted {
		val, _ := mkValue(en.dsub, en.v)
		sub, serr := core.SyncSubcommitteeIndex(core.DutyType(d.ty), val)
		if serr != nil {
			X = append(X, en)
			continue
		}
		k := key{d.slot, d.ty, en.pk, int(sub)}
		js := jsonOf(val)
		if old, ok := pre[k]; ok {
			if old == js {
				A = append(A, en)
			} else {
				B = append(B, en)
			}
		} else if now, ok := post[k]; ok && now == js {
			S = append(S, en)
		} else {
			C = append(C, en)
		}
	}
	var first, fail []entry
	switch errClass(err) {
	case "notsync":
		nA := adds - len(S)
		if nA < 0 || nA > len(A) || len(X) == 0 {
			return sorted
		}
		first = append(append(first, S...), A[:nA]...)
		A = A[nA:]
		fail, X = X[:1], X[1:]
	case "mismatch":
		nA := adds - 1 - len(S)
		if nA < 0 || nA > len(A) || len(B) == 0 {
			return sorted
		}
		first = append(append(first, S...), A[:nA]...)
		A = A[nA:]
		fail, B = B[:1], B[1:]
	case "stopped":
		// V1 looks at SyncSubcommitteeIndex of the first entry before it notices the stop
		if len(X) > 0 {
			rest := append(append(append(append([]entry{}, S...), A...), B...), C...)
			return append(rest, X...)
		}
		return sorted
	default:
		return sorted
	}
	out := append(first, fail...)
	rest := append(append(append(append([]entry{}, A...), B...), C...), X...)
	sort.Slice(rest, func(i, j int) bool { return rest[i].pk < rest[j].pk })
	return append(out, rest...)
}

func (e *episode) doStore(run *hx.Run, d key, dlst int, ents []entry) (string, string) {
	before := len(e.blocked())
	set := core.SignedDataSet{}
	for _, en := range ents {
		val, _ := mkValue(en.dsub, en.v)
		set[pubKey(en.pk)] = val
	}
	e.dl.status.Store(int64(dlst))
	a0 := e.dl.adds.Load()
	err := e.db.Store(context.Background(), d.duty(), set)
	pre := e.snapJSON
	out := e.observe(run, "", opInfo{kind: "store", storeErr: err, duty: d, entries: ents}, before)
	adds := int(e.dl.adds.Load() - a0)
	ord := e.canonOrder(d, ents, pre, e.snapJSON, err, adds)
	parts := make([]string, len(ord))
	for i, en := range ord {
		parts[i] = en.String()
	}
	line := strings.TrimSpace(fmt.Sprintf("store %d/%d %d %s", d.slot, d.ty, dlst, strings.Join(parts, " ")))
	run.Count(e.impl + ":store:" + errClass(err))
	if len(ents) > 1 && err != nil {
		run.Count(e.impl + ":store:multi_failed")
	}
	return line, fmt.Sprintf("%s:%d%s", errClass(err), adds, out)
}

func (e *episode) doCancel(run *hx.Run, rid int) string {
	before := len(e.blocked())
	if rd, ok := e.readers[rid]; ok {
		if !rd.done {
			run.Count(e.impl + ":cancel:live")
		}
		rd.cancel()
	}
	return e.observe(run, "-", opInfo{kind: "cancel"}, before)
}

func (e *episode) doExpire(run *hx.Run, d key) string {
	before := len(e.blocked())
	if !e.stopped {
		select {
		case e.dl.ch <- d.duty():
		case <-time.After(60 * time.Second):
			panic("expiry not consumed")
		}
		run.Count(e.impl + ":expire")
	}
	return e.observe(run, "-", opInfo{kind: "expire", duty: d}, before)
}

func (e *episode) doStop(run *hx.Run) string {
	before := len(e.blocked())
	if !e.stopped {
		e.runCancel()
		<-e.runDone
		e.stopped = true
		run.Count(e.impl + ":stop")
	}
	return e.observe(run, "-", opInfo{kind: "stop"}, before)
}

// ---------------------------------------------------------------------------------------------
// op parsing / execution

func parseDuty(s string) (key, bool) {
	f := strings.Split(s, "/")
	if len(f) != 2 {
		return key{}, false
	}
	a, e1 := strconv.Atoi(f[0])
	b, e2 := strconv.Atoi(f[1])
	return key{slot: a, ty: b}, e1 == nil && e2 == nil && a >= 0 && b >= 0
}

func parseEntry(s string) (entry, bool) {
	f := strings.Split(s, ":")
	if len(f) != 3 {
		return entry{}, false
	}
	pk, e1 := strconv.Atoi(f[0])
	v, e2 := strconv.Atoi(f[2])
	ds := -1
	var e3 error
	if f[1] != "x" {
		ds, e3 = strconv.Atoi(f[1])
		if ds < 0 || ds > 6 {
			return entry{}, false
		}
	}
	return entry{pk, ds, v}, e1 == nil && e2 == nil && e3 == nil && pk >= 0 && v >= 0
}

type driver struct {
	run *hx.Run
	ep  *episode
}

func (dr *driver) exec(op string) {
	run := dr.run
	f := strings.Fields(op)
	bad := func() { run.Op(op, "bad-op") }
	if len(f) == 0 {
		bad()
		return
	}
	if f[0] == "new" {
		if len(f) != 2 || (f[1] != "v1" && f[1] != "v2") {
			bad()
			return
		}
		if dr.ep != nil {
			dr.ep.shutdown()
		}
		dr.ep = newEpisode(f[1])
		run.Count("episode:" + f[1])
		run.Op(op, dr.ep.observe(run, "-", opInfo{kind: "new"}, 0))
		return
	}
	e := dr.ep
	if e == nil {
		bad()
		return
	}
	switch f[0] {
	case "await":
		if len(f) != 5 {
			bad()
			return
		}
		rid, e1 := strconv.Atoi(f[1])
		d, ok := parseDuty(f[2])
		pk, e2 := strconv.Atoi(f[3])
		sub, e3 := strconv.Atoi(f[4])
		if e1 != nil || !ok || e2 != nil || e3 != nil || rid < 0 || pk < 0 || sub < 0 || e.used[rid] {
			bad()
			return
		}
		run.Op(op, e.doAwait(run, rid, key{d.slot, d.ty, pk, sub}))
	case "awaitst":
		if len(f) != 8 {
			bad()
			return
		}
		rid, e1 := strconv.Atoi(f[1])
		d, ok := parseDuty(f[2])
		pk, e2 := strconv.Atoi(f[3])
		sub, e3 := strconv.Atoi(f[4])
		dlst, e4 := strconv.Atoi(f[5])
		at, e5 := strconv.Atoi(f[6])
		en, ok2 := parseEntry(f[7])
		if e1 != nil || !ok || e2 != nil || e3 != nil || e4 != nil || e5 != nil || at < 1 || !ok2 || rid < 0 || pk < 0 || sub < 0 || e.used[rid] {
			bad()
			return
		}
		run.Op(op, e.doAwaitStore(run, rid, key{d.slot, d.ty, pk, sub}, dlst, at, []entry{en}))
	case "store":
		if len(f) < 3 {
			bad()
			return
		}
		d, ok := parseDuty(f[1])
		dlst, e1 := strconv.Atoi(f[2])
		if !ok || e1 != nil {
			bad()
			return
		}
		var ents []entry
		seen := map[int]bool{}
		for _, s := range f[3:] {
			en, ok := parseEntry(s)
			if !ok || seen[en.pk] {
				bad()
				return
			}
			seen[en.pk] = true
			ents = append(ents, en)
		}
		line, out := e.doStore(run, d, dlst, ents)
		run.Op(line, out)
	case "cancel":
		rid, e1 := strconv.Atoi(f[1])
		if len(f) != 2 || e1 != nil {
			bad()
			return
		}
		run.Op(op, e.doCancel(run, rid))
	case "expire":
		if len(f) != 2 {
			bad()
			return
		}
		d, ok := parseDuty(f[1])
		if !ok {
			bad()
			return
		}
		run.Op(op, e.doExpire(run, d))
	case "stop":
		if len(f) != 1 {
			bad()
			return
		}
		run.Op(op, e.doStop(run))
	default:
		bad()
	}
}

// ---------------------------------------------------------------------------------------------
// generator

func isSync(ty int) bool { return ty == 11 || ty == 12 }

// canonical value of a key (re-stores of it are idempotent)
func canonEntry(k key) entry {
	v := 1 + (k.slot*7+k.ty*3+k.pk*5+k.sub*11)%40
	if isSync(k.ty) {
		return entry{k.pk, k.sub, v}
	}
	return entry{k.pk, -1, v}
}

func (dr *driver) genEpisode(rng *hx.Rng, impl string) {
	dr.exec("new " + impl)
	e := dr.ep
	run := dr.run
	// small key universe so that readers and writers overlap
	types := [][]int{{2, 7}, {7, 11}, {11, 12}, {2, 12}, {9, 11}}[rng.Intn(5)]
	var duties []key
	for i := 0; i < 2+rng.Intn(2); i++ {
		duties = append(duties, key{slot: 1 + rng.Intn(3), ty: types[rng.Intn(len(types))]})
	}
	npk := 2 + rng.Intn(2)
	nextRid := 1
	fresh := 100
	randKey := func() key {
		d := duties[rng.Intn(len(duties))]
		k := key{d.slot, d.ty, 1 + rng.Intn(npk), 0}
		if isSync(d.ty) {
			k.sub = rng.Intn(3)
		} else if rng.Chance(1, 12) {
			k.sub = 1 // never stored under a non-sync duty
		}
		return k
	}
	waitedKey := func() (key, bool) {
		bl := e.blocked()
		if len(bl) == 0 {
			return key{}, false
		}
		return e.readers[bl[rng.Intn(len(bl))]].k, true
	}
	storedKey := func() (key, bool) {
		if len(e.snap) == 0 {
			return key{}, false
		}
		ks := make([]key, 0, len(e.snap))
		for k := range e.snap {
			ks = append(ks, k)
		}
		sort.Slice(ks, func(i, j int) bool { return keyLess(ks[i], ks[j]) })
		return ks[rng.Intn(len(ks))], true
	}
	nops := 12 + rng.Intn(30)
	for i := 0; i < nops; i++ {
		c := rng.Intn(100)
		switch {
		case c < 38 && len(e.blocked()) < 8: // reader
			k := randKey()
			if wk, ok := waitedKey(); ok && rng.Chance(2, 5) {
				k = wk // same key as another waiter
			} else if sk, ok := storedKey(); ok && rng.Chance(1, 4) {
				k = sk // already stored: returns at once
			}
			dr.exec(fmt.Sprintf("await %d %d/%d %d %d", nextRid, k.slot, k.ty, k.pk, k.sub))
			nextRid++
		case c < 44 && len(e.blocked()) < 8: // reader racing with the store of its own key
			k := randKey()
			if wk, ok := waitedKey(); ok && rng.Chance(1, 3) {
				k = wk
			}
			en := canonEntry(k)
			if rng.Chance(1, 8) {
				en.v = fresh
				fresh++
			}
			if !isSync(k.ty) && k.sub != 0 {
				k.sub = 0
			}
			nb := len(e.blocked())
			at := []int{1, 2, 2, 2, 3}[rng.Intn(5)] // V2: 1 = inside the lookup's read lock, 2 = between lookup and wait
			dr.exec(fmt.Sprintf("awaitst %d %d/%d %d %d %d %d %s", nextRid, k.slot, k.ty, k.pk, k.sub, rng.Intn(3), at, en.String()))
			nextRid++
			run.Case(fmt.Sprintf("%s:awaitst:w%d:woke%d", impl, nb, nb+1-len(e.blocked())))
		case c < 72: // store
			var k key
			if wk, ok := waitedKey(); ok && rng.Chance(3, 5) {
				k = wk
			} else if sk, ok := storedKey(); ok && rng.Chance(1, 3) {
				k = sk
			} else {
				k = randKey()
			}
			n := []int{1, 1, 1, 1, 2, 2, 2, 3, 3, 0}[rng.Intn(10)]
			if n > npk {
				n = npk
			}
			var uniq []string
			pks := []int{k.pk}
			for _, p := range rng.Perm(npk) {
				if p+1 != k.pk {
					pks = append(pks, p+1)
				}
			}
			for j := 0; j < n && j < len(pks); j++ {
				kk := key{k.slot, k.ty, pks[j], k.sub}
				if isSync(kk.ty) && j > 0 {
					kk.sub = rng.Intn(3)
				}
				en := canonEntry(kk)
				switch r := rng.Intn(20); {
				case r < 3: // conflicting / fresh value
					en.v = fresh
					fresh++
				case r == 3 && isSync(kk.ty): // wrong data type for a sync-aggregator duty
					en.dsub = -1
				case r == 4 && !isSync(kk.ty): // sync-aggregator data under another duty (index ignored)
					en.dsub = rng.Intn(3)
				}
				uniq = append(uniq, en.String())
			}
			nb := len(e.blocked())
			dr.exec(strings.TrimSpace(fmt.Sprintf("store %d/%d %d %s", k.slot, k.ty, rng.Intn(3), strings.Join(uniq, " "))))
			run.Case(fmt.Sprintf("%s:store:w%d:woke%d:n%d", impl, nb, nb-len(e.blocked()), len(uniq)))
		case c < 82: // cancel
			bl := e.blocked()
			switch {
			case len(bl) > 0 && !rng.Chance(1, 8):
				dr.exec(fmt.Sprintf("cancel %d", bl[rng.Intn(len(bl))]))
				run.Case(fmt.Sprintf("%s:cancel:w%d", impl, len(bl)))
			case nextRid > 1:
				dr.exec(fmt.Sprintf("cancel %d", 1+rng.Intn(nextRid-1))) // possibly finished already
			}
		case c < 93: // expiry
			d := duties[rng.Intn(len(duties))]
			if sk, ok := storedKey(); ok && rng.Chance(2, 3) {
				d = sk
			}
			dr.exec(fmt.Sprintf("expire %d/%d", d.slot, d.ty))
			run.Case(fmt.Sprintf("%s:expire:w%d:k%d", impl, len(e.blocked()), len(e.snap)))
		case c < 95:
			dr.exec("stop")
			run.Case(fmt.Sprintf("%s:stop:w%d", impl, len(e.blocked())))
		default:
			i--
		}
	}
}

func main() {
	a := hx.ParseArgs()
	if runtime.GOMAXPROCS(0) > 4 {
		runtime.GOMAXPROCS(4) // real parallelism between readers, writer and Run loop; cheap stop-the-world snapshots
	}
	run := hx.NewRun(a.Dir)
	defer run.Close()
	dr := &driver{run: run}
	if a.Mode == "exec" {
		for _, op := range hx.ReadOps(a.Ops) {
			dr.exec(op)
		}
	} else {
		rng := hx.NewRng(a.Seed)
		for run.NOps < a.N && !run.Enough() {
			impl := "v1"
			if rng.Chance(1, 2) {
				impl = "v2"
			}
			dr.genEpisode(rng, impl)
		}
	}
	if dr.ep != nil {
		dr.ep.shutdown()
	}
}
