// drive-cache: correspondence driver for C20 (app/eth2wrap/cache.go, DutiesCache).
//
// Runs the real DutiesCache over a scripted beacon node (a pure function of seed and number of
// validators, the same function as CharonV.DutiesCache.scriptedBn) that logs every request and can
// hold a request in flight, so that other callers, Trim and InvalidateCache interleave between a
// call's cache lookup and its storeOrAmend in a chosen order (channels, no sleeps).
//
// ops:
//
//	cfg <seed> <nv> <active|->        new episode: fresh cache and beacon node
//	get <k> <e> <idxs|->              complete call of kind k (0 attester, 1 proposer, 2 sync)
//	begin <id> <k> <e> <idxs|->       call whose beacon node request (if any) stays in flight
//	finish <id>                       the held beacon node request of call <id> is answered
//	reorg <e>                         node answers change for epochs > e; InvalidateCache(e)
//	trim <e>                          Trim(e)
//	active <idxs|->                   UpdateActiveValIndices
//
// outputs: see lean/Driver/DutiesCache.lean.
package main

import (
	"context"
	"fmt"
	"reflect"
	"sort"
	"strconv"
	"strings"
	"sync"
	"unsafe"

	eth2api "github.com/attestantio/go-eth2-client/api"
	eth2v1 "github.com/attestantio/go-eth2-client/api/v1"
	eth2p0 "github.com/attestantio/go-eth2-client/spec/phase0"

	"github.com/obolnetwork/charon/app/eth2wrap"
	"github.com/obolnetwork/charon/app/sse"
	"github.com/obolnetwork/charon/app/log"

	"verifharness/hx"
)

// ---------------------------------------------------------------------------------------------
// scripted beacon node

func mix(x uint32) uint32 {
	x = (x ^ (x >> 16)) * 73244475
	x = (x ^ (x >> 16)) * 73244475

	return x ^ (x >> 16)
}

func h5(seed, v, k, e, i uint32) uint32 {
	return mix(mix(mix(mix(mix(seed)+v)+k)+e) + i)
}

func nDuties(h uint32) int {
	switch c := h % 16; {
	case c < 4:
		return 0
	case c < 12:
		return 1
	case c < 15:
		return 2
	default:
		return 3
	}
}

type duty struct{ idx, tag uint64 }

type bnCall struct {
	kind    int
	epoch   uint64
	indices []uint64
}

type heldCall struct {
	release chan struct{}
	call    bnCall
}

type node struct {
	eth2wrap.Client // nil: any other endpoint would panic (the cache uses none)

	mu       sync.Mutex
	seed, nv uint32
	reorgs   []uint64
	calls    []bnCall
	holdNext bool
	arrived  chan *heldCall
}

func (n *node) verOf(e uint64) uint32 {
	var v uint32
	for _, r := range n.reorgs {
		if r < e {
			v++
		}
	}

	return v
}

// all duties of (version, kind, epoch), listed by validator index.
func (n *node) all(v uint32, k int, e uint64) []duty {
	var out []duty
	for i := uint32(0); i < n.nv; i++ {
		h := h5(n.seed, v, uint32(k), uint32(e), i)
		for j := 0; j < nDuties(h); j++ {
			out = append(out, duty{uint64(i), uint64(mix(h+uint32(j)+1)%8)*4 + uint64(j)})
		}
	}

	return out
}

func (n *node) meta(v uint32, k int, e uint64) int {
	return int(h5(n.seed, v, uint32(k), uint32(e), 1000003) % 1000)
}

func (n *node) answer(v uint32, k int, e uint64, idxs []uint64) []duty {
	set := map[uint64]bool{}
	for _, i := range idxs {
		set[i] = true
	}
	var out []duty
	for _, d := range n.all(v, k, e) {
		if set[d.idx] {
			out = append(out, d)
		}
	}

	return out
}

func pubkey(i uint64) (pk eth2p0.BLSPubKey) {
	pk[0] = 0xa0
	pk[1] = byte(i)
	pk[2] = byte(i >> 8)
	pk[47] = byte(i * 7)

	return pk
}

func mkAtt(e uint64, d duty) *eth2v1.AttesterDuty {
	return &eth2v1.AttesterDuty{PubKey: pubkey(d.idx), Slot: eth2p0.Slot(e*32 + d.tag), ValidatorIndex: eth2p0.ValidatorIndex(d.idx),
		CommitteeIndex: eth2p0.CommitteeIndex(d.tag), CommitteeLength: 128 + d.tag, CommitteesAtSlot: 4, ValidatorCommitteeIndex: d.idx + d.tag}
}

func mkProp(e uint64, d duty) *eth2v1.ProposerDuty {
	return &eth2v1.ProposerDuty{PubKey: pubkey(d.idx), Slot: eth2p0.Slot(e*32 + d.tag), ValidatorIndex: eth2p0.ValidatorIndex(d.idx)}
}

func mkSync(_ uint64, d duty) *eth2v1.SyncCommitteeDuty {
	return &eth2v1.SyncCommitteeDuty{PubKey: pubkey(d.idx), ValidatorIndex: eth2p0.ValidatorIndex(d.idx),
		ValidatorSyncCommitteeIndices: []eth2p0.CommitteeIndex{eth2p0.CommitteeIndex(d.tag), eth2p0.CommitteeIndex(d.tag + 100)}}
}

func mkMeta(md int) map[string]any {
	return map[string]any{"v": md, "dependent_root": fmt.Sprintf("0x%064x", md), "execution_optimistic": false}
}

// serve logs the request, computes the answer at the node's current version and, when the
// harness asked for it, keeps the request in flight until released.
func (n *node) serve(k int, e uint64, idxs []eth2p0.ValidatorIndex) ([]duty, int) {
	n.mu.Lock()
	c := bnCall{kind: k, epoch: e}
	for _, i := range idxs {
		c.indices = append(c.indices, uint64(i))
	}
	n.calls = append(n.calls, c)
	v := n.verOf(e)
	ds := n.answer(v, k, e, c.indices)
	md := n.meta(v, k, e)
	hold := n.holdNext
	n.holdNext = false
	n.mu.Unlock()
	if hold {
		hc := &heldCall{release: make(chan struct{}), call: c}
		n.arrived <- hc
		<-hc.release
	}

	return ds, md
}

func (n *node) AttesterDuties(_ context.Context, opts *eth2api.AttesterDutiesOpts) (*eth2api.Response[[]*eth2v1.AttesterDuty], error) {
	ds, md := n.serve(0, uint64(opts.Epoch), opts.Indices)
	out := make([]*eth2v1.AttesterDuty, 0, len(ds))
	for _, d := range ds {
		out = append(out, mkAtt(uint64(opts.Epoch), d))
	}

	return &eth2api.Response[[]*eth2v1.AttesterDuty]{Data: out, Metadata: mkMeta(md)}, nil
}

func (n *node) ProposerDuties(_ context.Context, opts *eth2api.ProposerDutiesOpts) (*eth2api.Response[[]*eth2v1.ProposerDuty], error) {
	ds, md := n.serve(1, uint64(opts.Epoch), opts.Indices)
	out := make([]*eth2v1.ProposerDuty, 0, len(ds))
	for _, d := range ds {
		out = append(out, mkProp(uint64(opts.Epoch), d))
	}

	return &eth2api.Response[[]*eth2v1.ProposerDuty]{Data: out, Metadata: mkMeta(md)}, nil
}

func (n *node) SyncCommitteeDuties(_ context.Context, opts *eth2api.SyncCommitteeDutiesOpts) (*eth2api.Response[[]*eth2v1.SyncCommitteeDuty], error) {
	ds, md := n.serve(2, uint64(opts.Epoch), opts.Indices)
	out := make([]*eth2v1.SyncCommitteeDuty, 0, len(ds))
	for _, d := range ds {
		out = append(out, mkSync(uint64(opts.Epoch), d))
	}

	return &eth2api.Response[[]*eth2v1.SyncCommitteeDuty]{Data: out, Metadata: mkMeta(md)}, nil
}

// violate records a monitor violation; beyond 20 per signature and run only a counter is kept.
var nViol = map[string]int{}

func violate(run *hx.Run, sig, descr string) {
	nViol[sig]++
	run.Count("violation:" + sig)
	if nViol[sig] <= 20 {
		if len(descr) > 600 {
			descr = descr[:600] + "…"
		}
		run.Violate(sig, descr)
	}
}

// ---------------------------------------------------------------------------------------------
// answers in a kind-independent form

type dref struct {
	ptr     unsafe.Pointer // the duty struct
	sl      unsafe.Pointer // backing array of the index slice (sync kind), nil otherwise
	idx     uint64
	tag     uint64
	intact  bool // all fields are what the node produces for (idx, tag)
	content string
	mutate  func()
	restore func()
}

type answer struct {
	err     error
	duties  []dref
	meta    map[string]any
	listPtr unsafe.Pointer // backing array of the Duties slice
	keep    any            // keeps every returned object alive (addresses are never reused)
}

func attAnswer(e uint64, r eth2wrap.AttesterDutyWithMeta, err error) answer {
	a := answer{err: err, meta: r.Metadata, keep: r, listPtr: unsafe.Pointer(unsafe.SliceData(r.Duties))}
	for _, d := range r.Duties {
		d := d
		tag := uint64(d.Slot) - e*32
		exp := mkAtt(e, duty{uint64(d.ValidatorIndex), tag})
		orig := *d
		a.duties = append(a.duties, dref{ptr: unsafe.Pointer(d), idx: uint64(d.ValidatorIndex), tag: tag,
			intact: *d == *exp, content: fmt.Sprintf("%+v", *d),
			mutate: func() {
				d.Slot += 7777
				d.CommitteeIndex += 3
				d.CommitteeLength++
				d.ValidatorCommitteeIndex += 5
				d.PubKey[3] ^= 0xff
			},
			restore: func() { *d = orig }})
	}

	return a
}

func propAnswer(e uint64, r eth2wrap.ProposerDutyWithMeta, err error) answer {
	a := answer{err: err, meta: r.Metadata, keep: r, listPtr: unsafe.Pointer(unsafe.SliceData(r.Duties))}
	for _, d := range r.Duties {
		d := d
		tag := uint64(d.Slot) - e*32
		exp := mkProp(e, duty{uint64(d.ValidatorIndex), tag})
		orig := *d
		a.duties = append(a.duties, dref{ptr: unsafe.Pointer(d), idx: uint64(d.ValidatorIndex), tag: tag,
			intact: *d == *exp, content: fmt.Sprintf("%+v", *d),
			mutate:  func() { d.Slot += 7777; d.PubKey[3] ^= 0xff },
			restore: func() { *d = orig }})
	}

	return a
}

func syncAnswer(e uint64, r eth2wrap.SyncDutyWithMeta, err error) answer {
	a := answer{err: err, meta: r.Metadata, keep: r, listPtr: unsafe.Pointer(unsafe.SliceData(r.Duties))}
	for _, d := range r.Duties {
		d := d
		var tag uint64
		if len(d.ValidatorSyncCommitteeIndices) > 0 {
			tag = uint64(d.ValidatorSyncCommitteeIndices[0])
		}
		exp := mkSync(e, duty{uint64(d.ValidatorIndex), tag})
		origPk := d.PubKey
		origIdx := append([]eth2p0.CommitteeIndex(nil), d.ValidatorSyncCommitteeIndices...)
		sl := d.ValidatorSyncCommitteeIndices
		a.duties = append(a.duties, dref{ptr: unsafe.Pointer(d), sl: unsafe.Pointer(unsafe.SliceData(sl)),
			idx: uint64(d.ValidatorIndex), tag: tag,
			intact:  reflect.DeepEqual(*d, *exp),
			content: fmt.Sprintf("%+v", *d),
			mutate: func() {
				d.PubKey[3] ^= 0xff
				for i := range sl {
					sl[i] += 5000
				}
			},
			restore: func() {
				d.PubKey = origPk
				copy(sl, origIdx)
			}})
	}

	return a
}

// ---------------------------------------------------------------------------------------------
// episode: real cache + node + monitor bookkeeping

type key struct {
	k int
	e uint64
}

type pendingCall struct {
	id        int
	k         int
	e         uint64
	reqV      []uint64
	ver       uint32
	held      *heldCall
	done      chan answer
	nReorgs   int  // invalidations seen when the call began
	straddled bool // a stale store had hit this key when the call began
}

type episode struct {
	n       *node
	cache   *eth2wrap.DutiesCache
	active  []uint64
	pending map[int]*pendingCall
	intern  map[unsafe.Pointer]int
	// monitors
	handed    map[unsafe.Pointer]string // every object ever returned to a caller -> who/what
	keepAlive []any
	mustReorg map[key]bool            // invalidated by a reorg, not yet fetched afresh
	sse       map[uint64]sse.Listener // real SSE listeners (per slots-per-epoch) feeding InvalidateCache
	sseGot    []uint64                // epochs the listener notified during the current op
	mustTrim  map[key]bool            // trimmed, not yet fetched afresh
	straddle  map[key]bool            // a call in flight across an invalidation of this key has stored since
	repeated  map[key]map[uint64]bool // validators that some request for the key repeated
	seen      map[key]bool
	nAnswers  int
}

func newEpisode(seed, nv uint32, active []uint64) *episode {
	n := &node{seed: seed, nv: nv, arrived: make(chan *heldCall)}
	ep := &episode{n: n, active: active, pending: map[int]*pendingCall{}, intern: map[unsafe.Pointer]int{},
		handed: map[unsafe.Pointer]string{}, mustReorg: map[key]bool{}, mustTrim: map[key]bool{},
		straddle: map[key]bool{}, repeated: map[key]map[uint64]bool{}, seen: map[key]bool{}}
	ep.cache = eth2wrap.NewDutiesCache(n, toVidx(active))

	return ep
}

func toVidx(l []uint64) []eth2p0.ValidatorIndex {
	// spare capacity, as slices built by append have in production (ActiveValidators.Indices()): an
	// implementation that keeps such a slice and appends to it writes into memory it shares
	out := make([]eth2p0.ValidatorIndex, 0, len(l)+5)
	for _, i := range l {
		out = append(out, eth2p0.ValidatorIndex(i))
	}

	return out
}

func (ep *episode) close() {
	for _, p := range ep.pending {
		close(p.held.release)
		<-p.done
	}
	ep.pending = map[int]*pendingCall{}
}

func (ep *episode) call(k int, e uint64, idxs []uint64) answer {
	in := toVidx(idxs)
	var a answer
	switch k {
	case 0:
		r, err := ep.cache.AttesterDutiesCache(context.Background(), eth2p0.Epoch(e), in)
		a = attAnswer(e, r, err)
	case 1:
		r, err := ep.cache.ProposerDutiesCache(context.Background(), eth2p0.Epoch(e), in)
		a = propAnswer(e, r, err)
	default:
		r, err := ep.cache.SyncCommDutiesCache(context.Background(), eth2p0.Epoch(e), in)
		a = syncAnswer(e, r, err)
	}
	for j, i := range idxs {
		if uint64(in[j]) != i {
			a.err = fmt.Errorf("caller's index slice was modified")
		}
	}

	return a
}

func (ep *episode) effReq(idxs []uint64) []uint64 {
	if len(idxs) == 0 {
		return ep.active
	}

	return idxs
}

func (ep *episode) internID(p unsafe.Pointer) int {
	if p == nil {
		return 0
	}
	if id, ok := ep.intern[p]; ok {
		return id
	}
	ep.intern[p] = len(ep.intern) + 1

	return len(ep.intern)
}

func showList(l []uint64) string {
	if len(l) == 0 {
		return "-"
	}
	s := make([]string, len(l))
	for i, v := range l {
		s[i] = strconv.FormatUint(v, 10)
	}

	return strings.Join(s, ",")
}

func (ep *episode) render(k int, a answer, call *bnCall) string {
	if a.err != nil {
		return "err " + a.err.Error()
	}
	parts := make([]string, 0, len(a.duties))
	for _, d := range a.duties {
		bang := ""
		if !d.intact {
			bang = "!"
		}
		parts = append(parts, fmt.Sprintf("%d:%d%s#%d", d.idx, d.tag, bang, ep.internID(d.sl)))
	}
	ds := "-"
	if len(parts) > 0 {
		ds = strings.Join(parts, ",")
	}
	md := -1
	if v, ok := a.meta["v"].(int); ok {
		md = v
	}
	var mp unsafe.Pointer
	if a.meta != nil {
		mp = reflect.ValueOf(a.meta).UnsafePointer()
	}
	cs := "none"
	if call != nil {
		cs = showList(call.indices)
	}

	return fmt.Sprintf("ans %s m%d#%d call=%s", ds, md, ep.internID(mp), cs)
}

func multiset(l []string) string {
	c := append([]string(nil), l...)
	sort.Strings(c)

	return strings.Join(c, "|")
}

func (ep *episode) expected(ver uint32, k int, e uint64, reqV []uint64) (string, map[string]int) {
	var l []string
	cnt := map[string]int{}
	for _, d := range ep.n.answer(ver, k, e, reqV) {
		var s string
		switch k {
		case 0:
			s = fmt.Sprintf("%+v", *mkAtt(e, d))
		case 1:
			s = fmt.Sprintf("%+v", *mkProp(e, d))
		default:
			s = fmt.Sprintf("%+v", *mkSync(e, d))
		}
		l = append(l, s)
		cnt[s]++
	}

	return multiset(l), cnt
}

func sameSet(a, b []uint64) bool {
	sa, sb := map[uint64]bool{}, map[uint64]bool{}
	for _, x := range a {
		sa[x] = true
	}
	for _, x := range b {
		sb[x] = true
	}
	if len(sa) != len(sb) {
		return false
	}
	for x := range sa {
		if !sb[x] {
			return false
		}
	}

	return true
}

// checkAnswer: the property itself on the implementation's answer. `ver` is the node's version
// of the epoch when the call began, `call` the node request the call made (nil: none).
func (ep *episode) checkAnswer(run *hx.Run, who string, k int, e uint64, reqV []uint64, ver uint32, a answer, call *bnCall, begunAfterInvalidation bool, straddled bool) {
	kk := key{k, e}
	if a.err != nil {
		violate(run, "dutiescache:unexpected_error", fmt.Sprintf("%s: %v", who, a.err))
		return
	}
	// 1. answer equals the node's own answer (multiset of complete duty objects + metadata)
	var got []string
	gotCnt := map[string]int{}
	for _, d := range a.duties {
		got = append(got, d.content)
		gotCnt[d.content]++
	}
	want, wantCnt := ep.expected(ver, k, e, reqV)
	wantMd := ep.n.meta(ver, k, e)
	gotMd, _ := a.meta["v"].(int)
	if multiset(got) != want || gotMd != wantMd || len(a.meta) != 3 {
		sig := "dutiescache:answer_ne_bn"
		// classify
		surplusOnlyRepeated, missing, foreign := true, false, false
		for c, n := range gotCnt {
			if wantCnt[c] == 0 {
				foreign = true
			} else if n > wantCnt[c] {
				// surplus copies of a duty the node does return
				idx := uint64(0)
				for _, d := range a.duties {
					if d.content == c {
						idx = d.idx
					}
				}
				if !ep.repeated[kk][idx] {
					surplusOnlyRepeated = false
				}
			}
		}
		for c, n := range wantCnt {
			if gotCnt[c] < n {
				missing = true
			}
		}
		// stale: everything that differs from the node's current answer is what the node
		// answered under an older version of this epoch
		stale, staleAll := false, ver > 0 && (foreign || gotMd != wantMd)
		oldDuty := map[string]bool{}
		oldMd := map[int]bool{}
		for v := uint32(0); v < ver; v++ {
			w, wc := ep.expected(v, k, e, reqV)
			if w == multiset(got) && ep.n.meta(v, k, e) == gotMd && (foreign || missing || gotMd != wantMd) {
				stale = true
			}
			for c := range wc {
				oldDuty[c] = true
			}
			oldMd[ep.n.meta(v, k, e)] = true
		}
		for c := range gotCnt {
			if wantCnt[c] == 0 && !oldDuty[c] {
				staleAll = false
			}
		}
		if gotMd != wantMd && !oldMd[gotMd] {
			staleAll = false
		}
		switch {
		case (stale || staleAll || (missing && !foreign && gotMd == wantMd)) && straddled && len(a.meta) == 3:
			sig = "dutiescache:stale_inflight_store_across_invalidate"
		case stale:
			sig = "dutiescache:stale_after_invalidate"
		case !foreign && !missing && gotMd == wantMd && len(a.meta) == 3 && surplusOnlyRepeated:
			sig = "dutiescache:dup_on_amend_repeated_index"
		case missing && !foreign:
			sig = "dutiescache:answer_missing_duty"
		}
		var gc, wc []string
		for _, d := range a.duties {
			x := fmt.Sprintf("%d:%d", d.idx, d.tag)
			if !d.intact {
				x += "!"
			}
			gc = append(gc, x)
		}
		for _, d := range ep.n.answer(ver, k, e, reqV) {
			wc = append(wc, fmt.Sprintf("%d:%d", d.idx, d.tag))
		}
		violate(run, sig, fmt.Sprintf("%s kind %d epoch %d indices %v: cache answers duties {%s} meta %d, the beacon node answers {%s} meta %d",
			who, k, e, reqV, multiset(gc), gotMd, multiset(wc), wantMd))
	}
	// 2. fetched afresh after invalidation / trimming
	if begunAfterInvalidation {
		fresh := call != nil && sameSet(call.indices, reqV)
		if ep.mustReorg[kk] && !fresh {
			sig := "dutiescache:not_refetched_after_invalidate"
			if straddled {
				sig = "dutiescache:stale_inflight_store_across_invalidate"
			}
			violate(run, sig, fmt.Sprintf("%s kind %d epoch %d indices %v served without a full beacon node request after the epoch was invalidated", who, k, e, reqV))
		}
		if ep.mustTrim[kk] && !fresh {
			violate(run, "dutiescache:not_refetched_after_trim", fmt.Sprintf("%s kind %d epoch %d indices %v served without a full beacon node request after the epoch was trimmed", who, k, e, reqV))
		}
	}
	// 3. private copies: no returned object is an object that was returned before
	ep.nAnswers++
	check := func(p unsafe.Pointer, what, sig string) {
		if p == nil {
			return
		}
		if prev, ok := ep.handed[p]; ok {
			violate(run, sig, fmt.Sprintf("%s (answer %d) kind %d epoch %d: %s is the same object as %s", who, ep.nAnswers, k, e, what, prev))
			return
		}
		ep.handed[p] = fmt.Sprintf("%s of answer %d", what, ep.nAnswers)
	}
	if a.meta != nil {
		check(reflect.ValueOf(a.meta).UnsafePointer(), "metadata map", "dutiescache:shared_metadata_map")
	}
	if len(a.duties) > 0 {
		check(a.listPtr, "duties slice", "dutiescache:shared_duties_slice")
	}
	for _, d := range a.duties {
		check(d.ptr, "duty struct", "dutiescache:shared_duty_struct")
		if k == 2 {
			check(d.sl, "ValidatorSyncCommitteeIndices backing array", "dutiescache:shared_slice_sync_indices")
		}
	}
	ep.keepAlive = append(ep.keepAlive, a.keep)
}

// mutateProbe: mutate everything reachable from answer `a` and see whether the cache's next
// answers change (they must not: callers receive private copies). Only after a complete `get`,
// where an identical request is a pure cache hit. Everything is restored afterwards.
func (ep *episode) mutateProbe(run *hx.Run, k int, e uint64, idxs []uint64, a answer) {
	nCalls := len(ep.n.calls)
	r0 := ep.call(k, e, idxs)
	if len(ep.n.calls) != nCalls || r0.err != nil {
		run.Count("probe:not_a_hit")
		return
	}
	snap := func(r answer) (string, string, string) {
		var full, slices []string
		for _, d := range r.duties {
			full = append(full, d.content)
		}
		if k == 2 {
			for _, d := range r.duties {
				slices = append(slices, d.content[strings.Index(d.content, "ValidatorSyncCommitteeIndices"):])
			}
		}
		keys := make([]string, 0, len(r.meta))
		for mk, mv := range r.meta {
			keys = append(keys, fmt.Sprintf("%s=%v", mk, mv))
		}

		return multiset(full), multiset(slices), multiset(keys)
	}
	// re-read once more *after* snapshotting r0's strings (r0's objects are themselves shared
	// with the cache in the code as it is, so take the snapshot before any mutation)
	f0, s0, m0 := snap(r0)
	for _, d := range a.duties {
		d.mutate()
	}
	origMeta := map[string]any{}
	for mk, mv := range a.meta {
		origMeta[mk] = mv
	}
	if a.meta != nil {
		a.meta["v"] = -7
		a.meta["injected"] = true
		delete(a.meta, "execution_optimistic")
	}
	r1 := ep.call(k, e, idxs)
	f1, s1, m1 := snap(r1)
	// restore
	for _, d := range a.duties {
		d.restore()
	}
	if a.meta != nil {
		for mk := range a.meta {
			delete(a.meta, mk)
		}
		for mk, mv := range origMeta {
			a.meta[mk] = mv
		}
	}
	if len(ep.n.calls) != nCalls || r1.err != nil {
		run.Count("probe:not_a_hit")
		return
	}
	run.Count("probe:mutate_reread")
	if m0 != m1 {
		violate(run, "dutiescache:shared_metadata_map", fmt.Sprintf("kind %d epoch %d: a caller's change to its Metadata map is served to the next caller (%s -> %s)", k, e, m0, m1))
	}
	if s0 != s1 {
		violate(run, "dutiescache:shared_slice_sync_indices", fmt.Sprintf("kind %d epoch %d: a caller's change to ValidatorSyncCommitteeIndices is served to the next caller (%s -> %s)", k, e, s0, s1))
	} else if f0 != f1 {
		violate(run, "dutiescache:shared_duty_struct", fmt.Sprintf("kind %d epoch %d: a caller's change to a duty is served to the next caller (%s -> %s)", k, e, f0, f1))
	}
	ep.keepAlive = append(ep.keepAlive, r0.keep, r1.keep)
}

func (ep *episode) noteRequest(run *hx.Run, k int, e uint64, reqV []uint64) {
	kk := key{k, e}
	seen := map[uint64]bool{}
	for _, i := range reqV {
		if seen[i] {
			if ep.repeated[kk] == nil {
				ep.repeated[kk] = map[uint64]bool{}
			}
			ep.repeated[kk][i] = true
			run.Count("req:repeated_index")
		}
		seen[i] = true
	}
	ep.seen[kk] = true
}

func (ep *episode) doGet(run *hx.Run, k int, e uint64, idxs []uint64) string {
	reqV := ep.effReq(idxs)
	kk := key{k, e}
	ep.noteRequest(run, k, e, reqV)
	ver := ep.n.verOf(e)
	nCalls := len(ep.n.calls)
	a := ep.call(k, e, idxs)
	var call *bnCall
	if len(ep.n.calls) > nCalls {
		call = &ep.n.calls[nCalls]
		if len(ep.n.calls) > nCalls+1 {
			violate(run, "dutiescache:multiple_bn_calls", "one cache call made more than one beacon node request")
		}
	}
	ep.checkAnswer(run, "get", k, e, reqV, ver, a, call, true, ep.straddle[kk])
	delete(ep.mustReorg, kk)
	delete(ep.mustTrim, kk)
	switch {
	case call == nil:
		run.Count("get:hit")
	case len(call.indices) < len(reqV):
		run.Count("get:partial")
		run.Case(fmt.Sprintf("partial:%d:%d:%d", k, len(reqV), len(call.indices)))
	default:
		run.Count("get:miss")
	}
	run.Case(fmt.Sprintf("ans:%d:%d:%d", k, len(a.duties), len(reqV)))
	out := ep.render(k, a, call)
	if a.err == nil {
		ep.mutateProbe(run, k, e, idxs, a)
	}

	return out
}

func (ep *episode) doBegin(run *hx.Run, id, k int, e uint64, idxs []uint64) string {
	if _, ok := ep.pending[id]; ok || id == 0 {
		return "bad-op"
	}
	reqV := ep.effReq(idxs)
	kk := key{k, e}
	ep.noteRequest(run, k, e, reqV)
	ver := ep.n.verOf(e)
	ep.n.mu.Lock()
	ep.n.holdNext = true
	ep.n.mu.Unlock()
	done := make(chan answer, 1)
	go func() { done <- ep.call(k, e, idxs) }()
	select {
	case hc := <-ep.n.arrived:
		ep.pending[id] = &pendingCall{id: id, k: k, e: e, reqV: reqV, ver: ver, held: hc, done: done, nReorgs: len(ep.n.reorgs), straddled: ep.straddle[kk]}
		// a request begun after the invalidation that fetches everything clears the obligation
		fresh := sameSet(hc.call.indices, reqV)
		if ep.mustReorg[kk] && !fresh {
			sig := "dutiescache:not_refetched_after_invalidate"
			if ep.straddle[kk] {
				sig = "dutiescache:stale_inflight_store_across_invalidate"
			}
			violate(run, sig, fmt.Sprintf("begin kind %d epoch %d indices %v: partial beacon node request after the epoch was invalidated", k, e, reqV))
		}
		if ep.mustTrim[kk] && !fresh {
			violate(run, "dutiescache:not_refetched_after_trim", fmt.Sprintf("begin kind %d epoch %d indices %v: partial beacon node request after the epoch was trimmed", k, e, reqV))
		}
		delete(ep.mustReorg, kk)
		delete(ep.mustTrim, kk)
		run.Count("begin:pending")

		return "pend call=" + showList(hc.call.indices)
	case a := <-done:
		ep.n.mu.Lock()
		ep.n.holdNext = false
		ep.n.mu.Unlock()
		ep.checkAnswer(run, "begin(hit)", k, e, reqV, ver, a, nil, true, ep.straddle[kk])
		run.Count("begin:hit")

		return ep.render(k, a, nil)
	}
}

func (ep *episode) doFinish(run *hx.Run, id int) string {
	p, ok := ep.pending[id]
	if !ok {
		return "bad-op"
	}
	delete(ep.pending, id)
	kk := key{p.k, p.e}
	close(p.held.release)
	a := <-p.done
	// the call was linearised when it began: compare with the node's answer at that version;
	// the refetch obligations were evaluated at begin.
	ep.checkAnswer(run, "finish", p.k, p.e, p.reqV, p.ver, a, &p.held.call, false, p.straddled)
	if p.ver != ep.n.verOf(p.e) {
		// the response was produced before an invalidation of this epoch and stored after it
		ep.straddle[kk] = true
		run.Count("finish:across_invalidate")
		run.Case(fmt.Sprintf("straddle:%d", p.k))
	}
	run.Count("finish")

	return ep.render(p.k, a, &p.held.call)
}

func (ep *episode) snapshot() string {
	snap := ep.cache.VerifSnapshot()
	parts := make([]string, 3)
	for k := 0; k < 3; k++ {
		items := []string{}
		for _, s := range snap[k] {
			if s.Requested < 0 || s.Duties < 0 || !s.HasMeta {
				items = append(items, fmt.Sprintf("%d(inconsistent)", s.Epoch))
				continue
			}
			items = append(items, fmt.Sprintf("%d(%d,%d)", s.Epoch, s.Requested, s.Duties))
		}
		parts[k] = fmt.Sprintf("k%d:[%s]", k, strings.Join(items, " "))
	}

	return strings.Join(parts, " ")
}

func (ep *episode) doReorg(run *hx.Run, r uint64) string {
	ep.n.mu.Lock()
	ep.n.reorgs = append(ep.n.reorgs, r)
	ep.n.mu.Unlock()
	ep.cache.InvalidateCache(context.Background(), eth2p0.Epoch(r))
	for kk := range ep.seen {
		if kk.e > r {
			ep.mustReorg[kk] = true
			delete(ep.straddle, kk)
		}
	}
	run.Count("reorg")

	return ep.snapshot()
}

// doSse feeds a chain_reorg event (head slot, depth) to the real SSE listener's handler; its
// subscriber is what app.go wires: the node's answers change for the epochs after the notified one
// and DutiesCache.InvalidateCache is called with that epoch.
func (ep *episode) doSse(run *hx.Run, slot, depth, spe uint64) string {
	if ep.sse == nil {
		ep.sse = map[uint64]sse.Listener{}
	}
	l, ok := ep.sse[spe]
	if !ok {
		l = sse.NewListenerVerif(spe)
		l.SubscribeChainReorgEvent(func(_ context.Context, e eth2p0.Epoch) { ep.sseGot = append(ep.sseGot, uint64(e)) })
		ep.sse[spe] = l
	}
	ep.sseGot = nil
	data := fmt.Sprintf(`{"slot":"%d","depth":"%d","old_head_block":"0x00","new_head_block":"0x01","old_head_state":"0x00","new_head_state":"0x01","epoch":"%d","execution_optimistic":false}`, slot, depth, slot/spe)
	err := sse.HandleChainReorgEventVerif(context.Background(), l, []byte(data))
	run.Count("sse")
	switch {
	case err != nil:
		if len(ep.sseGot) > 0 {
			run.Violate("dutiescache:sse_refused_event_notified", fmt.Sprintf("chain_reorg slot %d depth %d refused (%v) but subscribers were called with %v", slot, depth, err, ep.sseGot))
		}
		return "sse err"
	case len(ep.sseGot) == 0:
		return "sse dup"
	}
	if len(ep.sseGot) > 1 {
		run.Violate("dutiescache:sse_notified_twice", fmt.Sprintf("chain_reorg slot %d depth %d: subscriber called %d times", slot, depth, len(ep.sseGot)))
	}
	e := ep.sseGot[0]
	// the common ancestor is slot-depth: every epoch after the one that holds it is affected, none before
	if slot >= depth && (e*spe > slot-depth || (e+1)*spe <= slot-depth) {
		run.Violate("dutiescache:sse_reorg_epoch_wrong", fmt.Sprintf("chain_reorg slot %d depth %d (%d slots per epoch): subscribers notified with epoch %d, the common ancestor slot %d lies in epoch %d", slot, depth, spe, e, slot-depth, (slot-depth)/spe))
	}
	return fmt.Sprintf("sse %d %s", e, ep.doReorg(run, e))
}

func (ep *episode) doTrim(run *hx.Run, t uint64) string {
	ep.cache.Trim(eth2p0.Epoch(t))
	if t >= 3 {
		inflight := map[key]bool{}
		for _, p := range ep.pending {
			inflight[key{p.k, p.e}] = true
		}
		for kk := range ep.seen {
			// a request still in flight will complete (and store) after the trim: that data is
			// fetched afresh in the sense of the property
			if kk.e < t-3 && !inflight[kk] {
				ep.mustTrim[kk] = true
			}
		}
	}
	run.Count("trim")

	return ep.snapshot()
}

// ---------------------------------------------------------------------------------------------

func parseList(s string) []uint64 {
	if s == "-" {
		return nil
	}
	var out []uint64
	for _, f := range strings.Split(s, ",") {
		v, err := strconv.ParseUint(f, 10, 64)
		hx.Must(err)
		out = append(out, v)
	}

	return out
}

func main() {
	a := hx.ParseArgs()
	hx.Must(log.InitLogger(log.Config{Level: "error", Format: "console", Color: "disable"}))
	run := hx.NewRun(a.Dir)
	defer run.Close()
	var ep *episode
	exec := func(op string) {
		f := strings.Fields(op)
		if f[0] != "cfg" && ep == nil {
			ep = newEpisode(1, 4, nil)
		}
		num := func(i int) uint64 { v, err := strconv.ParseUint(f[i], 10, 64); hx.Must(err); return v }
		switch f[0] {
		case "cfg":
			if ep != nil {
				ep.close()
			}
			ep = newEpisode(uint32(num(1)), uint32(num(2)), parseList(f[3]))
			run.Op(op, "ok")
		case "get":
			run.Op(op, ep.doGet(run, int(num(1)), num(2), parseList(f[3])))
		case "begin":
			run.Op(op, ep.doBegin(run, int(num(1)), int(num(2)), num(3), parseList(f[4])))
		case "finish":
			run.Op(op, ep.doFinish(run, int(num(1))))
		case "reorg":
			run.Op(op, ep.doReorg(run, num(1)))
		case "sse":
			run.Op(op, ep.doSse(run, num(1), num(2), num(3)))
		case "trim":
			run.Op(op, ep.doTrim(run, num(1)))
		case "active":
			ep.active = parseList(f[1])
			ep.cache.UpdateActiveValIndices(toVidx(ep.active))
			run.Op(op, "ok")
		default:
			panic("bad op " + op)
		}
	}
	if a.Mode == "exec" {
		for _, op := range hx.ReadOps(a.Ops) {
			exec(op)
		}
		if ep != nil {
			ep.close()
		}

		return
	}
	rng := hx.NewRng(a.Seed)
	search := a.Tier == "search"
	for run.NOps < a.N && !run.Enough() {
		nv := 3 + rng.Intn(10)
		randList := func() []uint64 {
			switch c := rng.Intn(100); {
			case c < 4:
				return nil // "all active validators"
			case c < 30: // one validator per call (what validator clients often do)
				return []uint64{uint64(rng.Intn(nv + 1))}
			case c < 45 || (search && c < 70): // a list repeating indices
				n := 2 + rng.Intn(4)
				l := make([]uint64, n)
				for i := range l {
					l[i] = uint64(rng.Intn(nv))
				}
				l[rng.Intn(n)] = l[0]
				if n > 1 {
					l[n-1] = l[rng.Intn(n-1)]
				}

				return l
			default: // a subset in random order; sometimes an index the node does not know
				p := rng.Perm(nv + 2)
				n := 1 + rng.Intn(nv)
				l := make([]uint64, 0, n)
				for _, v := range p[:n] {
					l = append(l, uint64(v))
				}

				return l
			}
		}
		exec(fmt.Sprintf("cfg %d %d %s", rng.Intn(1<<30), nv, showList(randList())))
		base := uint64(rng.Intn(40))
		var history [][]uint64
		nextID := 1
		steps := 25 + rng.Intn(50)
		for s := 0; s < steps; s++ {
			k := rng.Intn(3)
			e := base + uint64(rng.Intn(5))
			var idxs []uint64
			switch c := rng.Intn(10); {
			case c < 3 && len(history) > 0: // repeat an earlier request exactly
				idxs = history[rng.Intn(len(history))]
			case c < 4 && len(history) > 0: // the complement of an earlier request (disjoint)
				prev := map[uint64]bool{}
				for _, i := range history[rng.Intn(len(history))] {
					prev[i] = true
				}
				for i := 0; i < nv; i++ {
					if !prev[uint64(i)] {
						idxs = append(idxs, uint64(i))
					}
				}
			default:
				idxs = randList()
			}
			history = append(history, idxs)
			switch c := rng.Intn(100); {
			case c < 60:
				exec(fmt.Sprintf("get %d %d %s", k, e, showList(idxs)))
			case c < 74 && len(ep.pending) < 3:
				exec(fmt.Sprintf("begin %d %d %d %s", nextID, k, e, showList(idxs)))
				nextID++
			case c < 86 && len(ep.pending) > 0:
				ids := make([]int, 0, len(ep.pending))
				for id := range ep.pending {
					ids = append(ids, id)
				}
				sort.Ints(ids)
				exec(fmt.Sprintf("finish %d", ids[rng.Intn(len(ids))]))
			case c < 89:
				exec(fmt.Sprintf("reorg %d", base+uint64(rng.Intn(5))))
			case c < 91:
				// the same through the SSE listener: head slot and depth, also short reorgs across an epoch
				// boundary, depth 0, depth > slot
				spe := []uint64{32, 32, 16, 8}[rng.Intn(4)]
				slot := (base+uint64(rng.Intn(5)))*spe + uint64(rng.Intn(int(spe)))
				if rng.Chance(1, 3) {
					slot = (base + uint64(rng.Intn(5))) * spe + uint64(rng.Intn(3)) // just after a boundary
				}
				depth := uint64(rng.Intn(5))
				switch rng.Intn(8) {
				case 0:
					depth = uint64(rng.Intn(int(3 * spe)))
				case 1:
					depth = slot + 1 + uint64(rng.Intn(3))
				}
				exec(fmt.Sprintf("sse %d %d %d", slot, depth, spe))
			case c < 96:
				exec(fmt.Sprintf("trim %d", base+uint64(rng.Intn(10))))
			case c < 98:
				exec(fmt.Sprintf("active %s", showList(randList())))
			default:
				exec(fmt.Sprintf("get %d %d %s", k, e, showList(idxs)))
			}
		}
		// complete what is still in flight, then read everything back once
		ids := make([]int, 0, len(ep.pending))
		for id := range ep.pending {
			ids = append(ids, id)
		}
		sort.Ints(ids)
		for _, id := range ids {
			exec(fmt.Sprintf("finish %d", id))
		}
		for k := 0; k < 3; k++ {
			all := make([]uint64, nv)
			for i := range all {
				all[i] = uint64(i)
			}
			exec(fmt.Sprintf("get %d %d %s", k, base+uint64(rng.Intn(5)), showList(all)))
		}
	}
	if ep != nil {
		ep.close()
	}
}
