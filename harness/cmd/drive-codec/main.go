//go:debug randseednop=0

// drive-codec is the C14 driver (duty data encoding: lossless, deterministic, total).
//
// Two kinds of op lines (one stream, no state between ops: every op is executable from its own
// line alone):
//
// CORRESPONDENCE ops (answered by the Lean model `drv-sszwrap` as well, diffed line by line):
//
//	mb <ver> <0|1> <innerhex>            marshalSSZVersionedBlindedTo with a scripted inner object
//	mv <ver> <innerhex>                  marshalSSZVersionedTo                     -> hex | err
//	mi <ver> <idx> <innerhex>            marshalSSZVersionedValidatorIdxTo
//	ub|uv|ui <hex> <ok|eoff|esize|eother> unmarshalSSZVersioned{Blinded,,ValidatorIdx} with a
//	                                     scripted inner decoder -> ok <ver> [flag|idx] <suffix handed to inner> | err <class>
//	tm <T> <ver> <flag> <innerhex>       REAL type T.MarshalSSZ (inner go-eth2-client bytes opaque) -> hex | err
//	tu <T> <hex> <verdict..>             REAL type T.UnmarshalSSZ; the verdict(s) of the real inner
//	                                     decoder on the suffix are the model's oracle -> ok <ver> [flag] | err <class>
//	am <datahex> <pk> <6 uint64>         AttestationData.MarshalSSZ -> hex
//	au <hex> <verdict>                   AttestationData.UnmarshalSSZ -> ok <duty fields> | err <class>
//	fb <s|j> <ok|err> <hex>              core.unmarshal on a probe value (s: has UnmarshalSSZ) -> ssz-ok | ssz-err | json
//	mf <s|j> <0|1>                       core.marshal on a probe value, ssz switch -> ssz | json
//	ps <duty> {<pk> <idx> <datahex>}*    ParSignedDataSetToProto, then FromProto∘ToProto -> [sorted] | [sorted]|err
//	us <duty> {<pk> <datahex>}*          UnsignedDataSetToProto, ditto
//
// EXPLORATION ops (`x …`, executed on the real code only; the model answers `x`; results are
// monitors + counters, NOT theorems):
//
//	x rt <kind> <b64 json> <b64 ssz|-> <roothex|->   round trips (SSZ, JSON, proto with ssz on/off),
//	                                     Clone equality / no shared memory, determinism
//	x dec <par|uns> <duty> <srckind> <mutation> <b64 bytes>
//	                                     decode peer bytes under a duty type and run every operation
//	                                     of the receive / decide / store path, each under recover()
//	x hash <duty> {<pk> <b64>}*          consensus hash of a set is independent of insertion order
package main

import (
	"bytes"
	"context"
	crand "crypto/rand"
	"encoding/base64"
	"encoding/binary"
	"encoding/hex"
	"encoding/json"
	"fmt"
	"io"
	"math/rand"
	"reflect"
	"sort"
	"strconv"
	"strings"
	"testing"
	"time"

	eth2api "github.com/attestantio/go-eth2-client/api"
	eth2spec "github.com/attestantio/go-eth2-client/spec"
	"github.com/attestantio/go-eth2-client/spec/altair"
	"github.com/attestantio/go-eth2-client/spec/electra"
	eth2p0 "github.com/attestantio/go-eth2-client/spec/phase0"
	ssz "github.com/ferranbt/fastssz"
	"github.com/libp2p/go-libp2p/core/peer"

	"github.com/obolnetwork/charon/app/eth2wrap"
	"github.com/obolnetwork/charon/core"
	cqbft "github.com/obolnetwork/charon/core/consensus/qbft"
	pbv1 "github.com/obolnetwork/charon/core/corepb/v1"
	"github.com/obolnetwork/charon/core/dutydb"
	"github.com/obolnetwork/charon/core/parsigdb"
	"github.com/obolnetwork/charon/core/parsigex"
	"github.com/obolnetwork/charon/eth2util"
	"github.com/obolnetwork/charon/tbls"
	"github.com/obolnetwork/charon/testutil"
	"github.com/obolnetwork/charon/testutil/beaconmock"

	"verifharness/hx"
)

// ---------------------------------------------------------------- small helpers

func hx2(b []byte) string {
	if len(b) == 0 {
		return "-"
	}
	return hex.EncodeToString(b)
}

func unhx(s string) ([]byte, bool) {
	if s == "-" {
		return nil, true
	}
	b, err := hex.DecodeString(s)
	return b, err == nil
}

func b64(b []byte) string {
	if len(b) == 0 {
		return "-"
	}
	return base64.RawStdEncoding.EncodeToString(b)
}

func unb64(s string) ([]byte, bool) {
	if s == "-" {
		return nil, true
	}
	b, err := base64.RawStdEncoding.DecodeString(s)
	return b, err == nil
}

var versions = []eth2util.DataVersion{eth2util.DataVersionPhase0, eth2util.DataVersionAltair, eth2util.DataVersionBellatrix,
	eth2util.DataVersionCapella, eth2util.DataVersionDeneb, eth2util.DataVersionElectra, eth2util.DataVersionFulu}

func verOf(n uint64) (eth2util.DataVersion, bool) {
	if n < uint64(len(versions)) {
		return versions[n], true
	}
	return eth2util.DataVersion("bogus"), false
}

func verNum(v eth2util.DataVersion) int {
	for i, x := range versions {
		if x == v {
			return i
		}
	}
	return -1
}

func eth2VerNum(v eth2spec.DataVersion) int {
	x, err := eth2util.DataVersionFromETH2(v)
	if err != nil {
		return -1
	}
	return verNum(x)
}

// detReader makes crypto/rand deterministic (testutil draws signatures from it).
type detReader struct{ r *rand.Rand }

func (d detReader) Read(p []byte) (int, error) { return d.r.Read(p) }

var _ io.Reader = detReader{}

// safely runs f; a panic is returned as text.
func safely(f func()) (pan string) {
	defer func() {
		if r := recover(); r != nil {
			pan = fmt.Sprint(r)
			if len(pan) > 160 {
				pan = pan[:160]
			}
		}
	}()
	f()
	return ""
}

func typeName(v any) string {
	if v == nil {
		return "nil"
	}
	t := reflect.TypeOf(v)
	for t.Kind() == reflect.Ptr {
		t = t.Elem()
	}
	return t.Name()
}

// ---------------------------------------------------------------- scripted inner ssz object

type fakeInner struct {
	enc     []byte // bytes appended by MarshalSSZTo
	encErr  bool
	decMode string // ok | eoff | esize | eother
	got     []byte // suffix handed to UnmarshalSSZ
	called  bool
}

func (f *fakeInner) MarshalSSZ() ([]byte, error) { return f.MarshalSSZTo(nil) }
func (f *fakeInner) MarshalSSZTo(dst []byte) ([]byte, error) {
	if f.encErr {
		return nil, fmt.Errorf("scripted marshal error")
	}
	return append(dst, f.enc...), nil
}
func (f *fakeInner) SizeSSZ() int { return len(f.enc) }
func (f *fakeInner) UnmarshalSSZ(b []byte) error {
	f.called = true
	f.got = append([]byte(nil), b...)
	switch f.decMode {
	case "ok":
		return nil
	case "eoff":
		return fmt.Errorf("scripted: %w", ssz.ErrOffset)
	case "esize":
		return fmt.Errorf("scripted: %w", ssz.ErrSize)
	default:
		return fmt.Errorf("scripted other error")
	}
}

func (f *fakeInner) valFuncB(v eth2util.DataVersion, _ bool) (core.VerifSSZType, error) {
	return f.valFunc(v)
}
func (f *fakeInner) valFunc(v eth2util.DataVersion) (core.VerifSSZType, error) {
	if verNum(v) < 0 { // like every real sszValFromVersion: default -> error
		return nil, fmt.Errorf("invalid version")
	}
	return f, nil
}

// classify maps a wrapper error to the model's class by the message charon attaches.
func classify(err error) string {
	s := err.Error()
	switch {
	case strings.Contains(s, "versioned object too short"):
		return "size"
	case strings.Contains(s, "unmarshal sszValFromVersion version"):
		return "version"
	case strings.Contains(s, "sszValFromVersion offset"):
		return "offset"
	case strings.Contains(s, "unmarshal sszValFromVersion"):
		return "inner"
	}
	return "unclassified(" + s + ")"
}

// verdict of an inner decoder as far as charon's code can tell.
func verdict(err error) string {
	switch {
	case err == nil:
		return "ok"
	case errorsIs(err, ssz.ErrOffset):
		return "eoff"
	case errorsIs(err, ssz.ErrSize):
		return "esize"
	}
	return "eother"
}

func errorsIs(err, target error) bool {
	for err != nil {
		if err == target {
			return true
		}
		u, ok := err.(interface{ Unwrap() error })
		if !ok {
			return false
		}
		err = u.Unwrap()
	}
	return false
}

// ---------------------------------------------------------------- probes for marshal / unmarshal

type probeS struct {
	sszOK     bool
	sszCalls  int
	jsonCalls int
}

func (p *probeS) UnmarshalSSZ([]byte) error {
	p.sszCalls++
	if p.sszOK {
		return nil
	}
	return fmt.Errorf("scripted ssz failure")
}
func (p *probeS) UnmarshalJSON([]byte) error            { p.jsonCalls++; return nil }
func (p *probeS) MarshalSSZ() ([]byte, error)           { return []byte{1}, nil }
func (p *probeS) MarshalSSZTo(d []byte) ([]byte, error) { return append(d, 1), nil }
func (p *probeS) SizeSSZ() int                          { return 1 }
func (p *probeS) MarshalJSON() ([]byte, error)          { return []byte("2"), nil }

type probeJ struct{ jsonCalls int }

func (p *probeJ) UnmarshalJSON([]byte) error   { p.jsonCalls++; return nil }
func (p *probeJ) MarshalJSON() ([]byte, error) { return []byte("2"), nil }

var _ = binary.LittleEndian
var _ = bytes.Equal
var _ = sort.Strings
var _ = strconv.Itoa
var _ = time.Now
var _ = json.Marshal
var _ = context.Background
var _ = crand.Reader
var _ testing.T

// ---------------------------------------------------------------- correspondence ops (real code side)

func le32(b []byte) uint64 { return uint64(binary.LittleEndian.Uint32(b)) }
func le64(b []byte) uint64 { return binary.LittleEndian.Uint64(b) }

// newVersioned returns a zero value pointer of real type T.
func newVersioned(t string) any {
	switch t {
	case "VSP":
		return new(core.VersionedSignedProposal)
	case "VP":
		return new(core.VersionedProposal)
	case "VA":
		return new(core.VersionedAttestation)
	case "VSAP":
		return new(core.VersionedSignedAggregateAndProof)
	case "VAA":
		return new(core.VersionedAggregatedAttestation)
	}
	return nil
}

func isBlindedT(t string) bool { return t == "VSP" || t == "VP" }

// innerOf returns the go-eth2-client object T uses for (version, blinded), allocated in p.
func innerOf(t string, p any, v eth2util.DataVersion, blinded bool) (core.VerifSSZType, error) {
	if isBlindedT(t) {
		return core.VerifVersionedBlindedSSZValue(p, v, blinded)
	}
	return core.VerifVersionedSSZValue(p, v)
}

func setVersion(t string, p any, ev eth2spec.DataVersion, flag string) {
	switch x := p.(type) {
	case *core.VersionedSignedProposal:
		x.Version, x.Blinded = ev, flag == "1"
	case *core.VersionedProposal:
		x.Version, x.Blinded = ev, flag == "1"
	case *core.VersionedAttestation:
		x.Version = ev
		if flag != "n" {
			i, _ := strconv.ParseUint(flag, 10, 64)
			vi := eth2p0.ValidatorIndex(i)
			x.ValidatorIndex = &vi
		}
	case *core.VersionedSignedAggregateAndProof:
		x.Version = ev
	case *core.VersionedAggregatedAttestation:
		x.Version = ev
	}
}

func getHeader(t string, p any) string {
	switch x := p.(type) {
	case *core.VersionedSignedProposal:
		return fmt.Sprintf("%d %s", eth2VerNum(x.Version), map[bool]string{true: "1", false: "0"}[x.Blinded])
	case *core.VersionedProposal:
		return fmt.Sprintf("%d %s", eth2VerNum(x.Version), map[bool]string{true: "1", false: "0"}[x.Blinded])
	case *core.VersionedAttestation:
		if x.ValidatorIndex == nil {
			return fmt.Sprintf("%d n", eth2VerNum(x.Version))
		}
		return fmt.Sprintf("%d %d", eth2VerNum(x.Version), uint64(*x.ValidatorIndex))
	case *core.VersionedSignedAggregateAndProof:
		return fmt.Sprintf("%d", eth2VerNum(x.Version))
	case *core.VersionedAggregatedAttestation:
		return fmt.Sprintf("%d", eth2VerNum(x.Version))
	}
	return "?"
}

// innerVerdict: what the real inner decoder of T says about buf[o:] (oracle for the model).
func innerVerdict(t string, vn uint64, blinded bool, suffix []byte) string {
	v, ok := verOf(vn)
	if !ok {
		return "-"
	}
	p := newVersioned(t)
	in, err := innerOf(t, p, v, blinded)
	if err != nil {
		return "-"
	}
	res := "-"
	if pan := safely(func() { res = verdict(in.UnmarshalSSZ(suffix)) }); pan != "" {
		return "eother"
	}
	return res
}

// tuOracle computes the verdict tokens of a `tu` op.
func tuOracle(t string, buf []byte) []string {
	if len(buf) < 8 {
		if t == "VA" {
			return []string{"-", "-"}
		}
		return []string{"-"}
	}
	vn := le64(buf[0:8])
	switch {
	case isBlindedT(t):
		if len(buf) >= 13 {
			if o := le32(buf[9:13]); o >= 13 && o <= uint64(len(buf)) {
				return []string{innerVerdict(t, vn, buf[8] == 1, buf[o:])}
			}
		}
		return []string{"-"}
	case t == "VA":
		c20, cO := "-", "-"
		if len(buf) >= 20 && le32(buf[16:20]) == 20 {
			c20 = innerVerdict(t, vn, false, buf[20:])
		}
		if len(buf) >= 12 {
			if o := le32(buf[8:12]); o >= 12 && o <= uint64(len(buf)) {
				cO = innerVerdict(t, vn, false, buf[o:])
			}
		}
		return []string{c20, cO}
	default:
		if len(buf) >= 12 {
			if o := le32(buf[8:12]); o >= 12 && o <= uint64(len(buf)) {
				return []string{innerVerdict(t, vn, false, buf[o:])}
			}
		}
		return []string{"-"}
	}
}

func auOracle(buf []byte) string {
	if len(buf) < 8 {
		return "-"
	}
	o0, o1 := le32(buf[0:4]), le32(buf[4:8])
	n := uint64(len(buf))
	if o0 < 8 || o0 > n || o1 < o0 || o1 > n {
		return "-"
	}
	var d eth2p0.AttestationData
	res := "eother"
	_ = safely(func() { res = verdict(d.UnmarshalSSZ(buf[o0:o1])) })
	return res
}

func pkHex(pk eth2p0.BLSPubKey) string { return hex.EncodeToString(pk[:]) }

func canonSet(m map[string]string) string {
	var xs []string
	for k, v := range m {
		xs = append(xs, k+"="+v)
	}
	sort.Strings(xs)
	return "[" + strings.Join(xs, ";") + "]"
}

func parSetCanon(pb *pbv1.ParSignedDataSet) string {
	m := map[string]string{}
	for k, v := range pb.GetSet() {
		m[k] = fmt.Sprintf("%d:%s", v.GetShareIdx(), hx2(v.GetData()))
	}
	return canonSet(m)
}

func unsSetCanon(pb *pbv1.UnsignedDataSet) string {
	m := map[string]string{}
	for k, v := range pb.GetSet() {
		m[k] = hx2(v)
	}
	return canonSet(m)
}

// execCorr executes one correspondence op on the real code and returns the canonical output.
// monitors evaluated inside correspondence ops (independent of the model)
var pending [][2]string

func monitorVersion(op string, buf []byte, hdr int, out string) {
	if len(buf) >= hdr && le64(buf[0:8]) >= uint64(len(versions)) && out != "err version" {
		pending = append(pending, [2]string{"codec:unknown_version_accepted",
			fmt.Sprintf("%s: version word %d is not a known data version but the decoder answered `%s`; bytes=%s", op, le64(buf[0:8]), out, clip(hx2(buf), 4000))})
	}
}

func execCorr(run *hx.Run, f []string) (out string) {
	pending = pending[:0]
	defer func() {
		for _, p := range pending {
			run.Violate(p[0], p[1])
		}
	}()
	if pan := safely(func() { out = execCorr1(f) }); pan != "" {
		run.Violate("codec:panic:wrapper:"+f[0]+":corr", "panic in correspondence op "+f[0]+": "+pan)
		return "panic"
	}
	return out
}

func execCorr1(f []string) string {
	bad := "bad-op"
	switch f[0] {
	case "mb", "mv", "mi":
		want := map[string]int{"mb": 4, "mv": 3, "mi": 4}[f[0]]
		if len(f) != want {
			return bad
		}
		vn, err := strconv.ParseUint(f[1], 10, 64)
		inner, ok := unhx(f[len(f)-1])
		if err != nil || !ok {
			return bad
		}
		v, _ := verOf(vn)
		fi := &fakeInner{enc: inner}
		var b []byte
		switch f[0] {
		case "mb":
			b, err = core.VerifMarshalSSZVersionedBlindedTo(nil, v, f[2] == "1", fi.valFuncB)
		case "mv":
			b, err = core.VerifMarshalSSZVersionedTo(nil, v, fi.valFunc)
		default:
			i, e2 := strconv.ParseUint(f[2], 10, 64)
			if e2 != nil {
				return bad
			}
			b, err = core.VerifMarshalSSZVersionedValidatorIdxTo(nil, v, eth2p0.ValidatorIndex(i), fi.valFunc)
		}
		if err != nil {
			return "err"
		}
		return hx2(b)
	case "ub", "uv", "ui":
		if len(f) != 3 {
			return bad
		}
		buf, ok := unhx(f[1])
		if !ok {
			return bad
		}
		fi := &fakeInner{decMode: f[2]}
		var (
			v    eth2util.DataVersion
			err  error
			flag string
		)
		switch f[0] {
		case "ub":
			var bl bool
			v, bl, err = core.VerifUnmarshalSSZVersionedBlinded(buf, fi.valFuncB)
			flag = map[bool]string{true: " 1", false: " 0"}[bl]
		case "uv":
			v, err = core.VerifUnmarshalSSZVersioned(buf, fi.valFunc)
		default:
			var idx *eth2p0.ValidatorIndex
			v, idx, err = core.VerifUnmarshalSSZVersionedValidatorIdx(buf, fi.valFunc)
			if idx != nil {
				flag = fmt.Sprintf(" %d", uint64(*idx))
			}
		}
		res := ""
		if err != nil {
			c := classify(err)
			if c == "inner" {
				c += ":" + f[2]
			}
			res = "err " + c
		} else {
			res = fmt.Sprintf("ok %d%s %s", verNum(v), flag, hx2(fi.got))
		}
		monitorVersion(f[0], buf, map[string]int{"ub": 13, "uv": 12, "ui": 20}[f[0]], res)
		return res
	case "tm":
		if len(f) != 5 {
			return bad
		}
		vn, err := strconv.ParseUint(f[2], 10, 64)
		inner, ok := unhx(f[4])
		p := newVersioned(f[1])
		if err != nil || !ok || p == nil {
			return bad
		}
		v, known := verOf(vn)
		if !known {
			setVersion(f[1], p, eth2spec.DataVersion(99), f[3])
		} else {
			setVersion(f[1], p, v.ToETH2(), f[3])
			in, err := innerOf(f[1], p, v, f[3] == "1")
			if err != nil {
				return "bad-inner"
			}
			if err := in.UnmarshalSSZ(inner); err != nil {
				return "bad-inner"
			}
		}
		b, err := p.(ssz.Marshaler).MarshalSSZ()
		if err != nil {
			return "err"
		}
		return hx2(b)
	case "tu":
		if len(f) < 4 {
			return bad
		}
		buf, ok := unhx(f[2])
		p := newVersioned(f[1])
		if !ok || p == nil {
			return bad
		}
		err := p.(ssz.Unmarshaler).UnmarshalSSZ(buf)
		if err != nil {
			stage := ""
			if f[1] == "VA" {
				stage = "idx "
				if strings.Contains(err.Error(), "without validator index") {
					stage = "noidx "
				}
			}
			res := "err " + stage + classify(err)
			monitorVersion("tu "+f[1], buf, map[string]int{"VSP": 13, "VP": 13, "VA": 20, "VSAP": 12, "VAA": 12}[f[1]], strings.Replace(res, stage, "", 1))
			return res
		}
		monitorVersion("tu "+f[1], buf, 20, "ok")
		return "ok " + getHeader(f[1], p)
	case "am":
		if len(f) != 9 {
			return bad
		}
		db, ok1 := unhx(f[1])
		pk, ok2 := unhx(f[2])
		if !ok1 || !ok2 || len(pk) != 48 {
			return bad
		}
		var a core.AttestationData
		if err := a.Data.UnmarshalSSZ(db); err != nil {
			return "bad-inner"
		}
		copy(a.Duty.PubKey[:], pk)
		var n [6]uint64
		for i := range n {
			x, err := strconv.ParseUint(f[3+i], 10, 64)
			if err != nil {
				return bad
			}
			n[i] = x
		}
		a.Duty.Slot, a.Duty.ValidatorIndex, a.Duty.CommitteeIndex = eth2p0.Slot(n[0]), eth2p0.ValidatorIndex(n[1]), eth2p0.CommitteeIndex(n[2])
		a.Duty.CommitteeLength, a.Duty.CommitteesAtSlot, a.Duty.ValidatorCommitteeIndex = n[3], n[4], n[5]
		b, err := a.MarshalSSZ()
		if err != nil {
			return "err"
		}
		return hx2(b)
	case "au":
		if len(f) != 3 {
			return bad
		}
		buf, ok := unhx(f[1])
		if !ok {
			return bad
		}
		var a core.AttestationData
		if err := a.UnmarshalSSZ(buf); err != nil {
			s := err.Error()
			switch {
			case strings.Contains(s, "attestation data too short"):
				return "err size"
			case strings.Contains(s, "attestation data offset"):
				return "err offset0"
			case strings.Contains(s, "attester duty offset"):
				return "err offset1"
			case strings.Contains(s, "unmarshal attestation data"):
				return "err data"
			case strings.Contains(s, "unmarshal attester duty"):
				return "err duty"
			}
			return "err ?" + s
		}
		d := a.Duty
		return fmt.Sprintf("ok %s %d %d %d %d %d %d", pkHex(d.PubKey), uint64(d.Slot), uint64(d.ValidatorIndex),
			uint64(d.CommitteeIndex), d.CommitteeLength, d.CommitteesAtSlot, d.ValidatorCommitteeIndex)
	case "fb":
		if len(f) != 4 {
			return bad
		}
		data, ok := unhx(f[3])
		if !ok {
			return bad
		}
		var err error
		jsonCalls := 0
		if f[1] == "s" {
			p := &probeS{sszOK: f[2] == "ok"}
			err = core.VerifUnmarshal(data, p)
			jsonCalls = p.jsonCalls
			if err == nil && jsonCalls == 0 && p.sszCalls == 1 {
				return "ssz-ok"
			}
		} else {
			p := &probeJ{}
			err = core.VerifUnmarshal(data, p)
			jsonCalls = p.jsonCalls
		}
		if err != nil && strings.HasPrefix(err.Error(), "unmarshal ssz") && jsonCalls == 0 {
			return "ssz-err"
		}
		if jsonCalls > 0 || (err != nil && strings.HasPrefix(err.Error(), "unmarshal json")) {
			return "json"
		}
		return "?"
	case "mf":
		if len(f) != 3 {
			return bad
		}
		prev := core.VerifSetSSZMarshalling(f[2] == "1")
		defer core.VerifSetSSZMarshalling(prev)
		var b []byte
		if f[1] == "s" {
			b, _ = core.VerifMarshal(&probeS{})
		} else {
			b, _ = core.VerifMarshal(&probeJ{})
		}
		if bytes.Equal(b, []byte{1}) {
			return "ssz"
		}
		return "json"
	case "ps":
		if len(f) < 2 || (len(f)-2)%3 != 0 {
			return bad
		}
		dn, err := strconv.Atoi(f[1])
		if err != nil {
			return bad
		}
		set := core.ParSignedDataSet{}
		for i := 2; i < len(f); i += 3 {
			idx, err := strconv.Atoi(f[i+1])
			data, ok := unhx(f[i+2])
			if err != nil || !ok {
				return bad
			}
			psd, err := core.ParSignedDataFromProto(core.DutyType(dn), &pbv1.ParSignedData{Data: data, ShareIdx: int32(idx)})
			if err != nil {
				return "bad-entry"
			}
			set[core.PubKey(f[i])] = psd
		}
		pb, err := core.ParSignedDataSetToProto(set)
		if err != nil {
			return "err | err"
		}
		out := parSetCanon(pb) + " | "
		if len(pb.GetSet()) != len(set) {
			pending = append(pending, [2]string{"codec:set_entry_lost", fmt.Sprintf("ParSignedDataSetToProto of %d entries has %d entries", len(set), len(pb.GetSet()))})
		}
		back, err := core.ParSignedDataSetFromProto(core.DutyType(dn), pb)
		if err != nil {
			if len(set) > 0 {
				pending = append(pending, [2]string{"codec:set_roundtrip_failed", "ParSignedDataSetFromProto(ToProto(set)): " + err.Error()})
			}
			return out + "err"
		}
		pb2, err := core.ParSignedDataSetToProto(back)
		if err != nil {
			return out + "err"
		}
		if parSetCanon(pb2) != parSetCanon(pb) || len(back) != len(set) {
			pending = append(pending, [2]string{"codec:set_entry_lost", "ParSignedDataSet changed through ToProto / FromProto"})
		}
		return out + parSetCanon(pb2)
	case "us":
		if len(f) < 2 || (len(f)-2)%2 != 0 {
			return bad
		}
		dn, err := strconv.Atoi(f[1])
		if err != nil {
			return bad
		}
		set := core.UnsignedDataSet{}
		for i := 2; i < len(f); i += 2 {
			data, ok := unhx(f[i+1])
			if !ok {
				return bad
			}
			ud, err := core.VerifUnmarshalUnsignedData(core.DutyType(dn), data)
			if err != nil {
				return "bad-entry"
			}
			set[core.PubKey(f[i])] = ud
		}
		pb, err := core.UnsignedDataSetToProto(set)
		if err != nil {
			return "err | err"
		}
		out := unsSetCanon(pb) + " | "
		if len(pb.GetSet()) != len(set) {
			pending = append(pending, [2]string{"codec:set_entry_lost", fmt.Sprintf("UnsignedDataSetToProto of %d entries has %d entries", len(set), len(pb.GetSet()))})
		}
		back, err := core.UnsignedDataSetFromProto(core.DutyType(dn), pb)
		if err != nil {
			if len(set) > 0 {
				pending = append(pending, [2]string{"codec:set_roundtrip_failed", "UnsignedDataSetFromProto(ToProto(set)): " + err.Error()})
			}
			return out + "err"
		}
		pb2, err := core.UnsignedDataSetToProto(back)
		if err != nil {
			return out + "err"
		}
		if unsSetCanon(pb2) != unsSetCanon(pb) || len(back) != len(set) {
			pending = append(pending, [2]string{"codec:set_entry_lost", "UnsignedDataSet changed through ToProto / FromProto"})
		}
		return out + unsSetCanon(pb2)
	}
	return bad
}

// ---------------------------------------------------------------- catalogue of core data types × versions

type kind struct {
	name   string        // unique, e.g. VersionedSignedProposal/deneb/blinded
	typ    string        // Go type name
	signed bool          // SignedData (receive path) or UnsignedData (decide path)
	duty   core.DutyType // decoding context; 0 = none (no FromProto case for this type)
	gen    func() any    // a value from the repo's testutil generators
	zero   func() any    // pointer to a zero value (json.Unmarshal target)
}

var tT = &testing.T{}

func sig96() eth2p0.BLSSignature { return testutil.RandomEth2Signature() }

func signedProposal(v eth2spec.DataVersion, blinded bool) core.VersionedSignedProposal {
	switch {
	case v == eth2spec.DataVersionPhase0:
		return core.VersionedSignedProposal{VersionedSignedProposal: eth2api.VersionedSignedProposal{Version: v,
			Phase0: &eth2p0.SignedBeaconBlock{Message: testutil.RandomPhase0BeaconBlock(), Signature: sig96()}}}
	case v == eth2spec.DataVersionAltair:
		return core.VersionedSignedProposal{VersionedSignedProposal: eth2api.VersionedSignedProposal{Version: v,
			Altair: &altair.SignedBeaconBlock{Message: testutil.RandomAltairBeaconBlock(), Signature: sig96()}}}
	case v == eth2spec.DataVersionBellatrix && !blinded:
		return testutil.RandomBellatrixCoreVersionedSignedProposal()
	case v == eth2spec.DataVersionBellatrix:
		return testutil.RandomBellatrixVersionedSignedBlindedProposal()
	case v == eth2spec.DataVersionCapella && !blinded:
		return testutil.RandomCapellaCoreVersionedSignedProposal()
	case v == eth2spec.DataVersionCapella:
		return testutil.RandomCapellaVersionedSignedBlindedProposal()
	case v == eth2spec.DataVersionDeneb && !blinded:
		return testutil.RandomDenebCoreVersionedSignedProposal()
	case v == eth2spec.DataVersionDeneb:
		return testutil.RandomDenebVersionedSignedBlindedProposal()
	case v == eth2spec.DataVersionElectra && !blinded:
		return testutil.RandomElectraCoreVersionedSignedProposal()
	case v == eth2spec.DataVersionElectra:
		return testutil.RandomElectraVersionedSignedBlindedProposal()
	case v == eth2spec.DataVersionFulu && !blinded:
		return testutil.RandomFuluCoreVersionedSignedProposal()
	default:
		return testutil.RandomFuluVersionedSignedBlindedProposal()
	}
}

func unsignedProposal(v eth2spec.DataVersion, blinded bool) core.VersionedProposal {
	p := eth2api.VersionedProposal{Version: v, Blinded: blinded}
	switch {
	case v == eth2spec.DataVersionPhase0:
		p.Phase0 = testutil.RandomPhase0BeaconBlock()
	case v == eth2spec.DataVersionAltair:
		p.Altair = testutil.RandomAltairBeaconBlock()
	case v == eth2spec.DataVersionBellatrix && !blinded:
		return testutil.RandomBellatrixCoreVersionedProposal()
	case v == eth2spec.DataVersionBellatrix:
		return testutil.RandomBellatrixVersionedBlindedProposal()
	case v == eth2spec.DataVersionCapella && !blinded:
		return testutil.RandomCapellaCoreVersionedProposal()
	case v == eth2spec.DataVersionCapella:
		return testutil.RandomCapellaVersionedBlindedProposal()
	case v == eth2spec.DataVersionDeneb && !blinded:
		p = *testutil.RandomDenebVersionedProposal()
	case v == eth2spec.DataVersionDeneb:
		p.DenebBlinded = testutil.RandomDenebBlindedBeaconBlock()
	case v == eth2spec.DataVersionElectra && !blinded:
		p = *testutil.RandomElectraVersionedProposal()
	case v == eth2spec.DataVersionElectra:
		p.ElectraBlinded = testutil.RandomElectraBlindedBeaconBlock()
	case v == eth2spec.DataVersionFulu && !blinded:
		p = *testutil.RandomFuluVersionedProposal()
	default:
		p.FuluBlinded = testutil.RandomElectraBlindedBeaconBlock()
	}
	return core.VersionedProposal{VersionedProposal: p}
}

func versionedAtt(v eth2spec.DataVersion, withIdx bool) eth2spec.VersionedAttestation {
	a := eth2spec.VersionedAttestation{Version: v}
	switch v {
	case eth2spec.DataVersionPhase0:
		a.Phase0 = testutil.RandomPhase0Attestation()
	case eth2spec.DataVersionAltair:
		a.Altair = testutil.RandomPhase0Attestation()
	case eth2spec.DataVersionBellatrix:
		a.Bellatrix = testutil.RandomPhase0Attestation()
	case eth2spec.DataVersionCapella:
		a.Capella = testutil.RandomPhase0Attestation()
	case eth2spec.DataVersionDeneb:
		a.Deneb = testutil.RandomPhase0Attestation()
	case eth2spec.DataVersionElectra:
		a.Electra = testutil.RandomElectraAttestation()
	default:
		a.Fulu = testutil.RandomElectraAttestation()
	}
	if withIdx {
		i := testutil.RandomVIdx()
		a.ValidatorIndex = &i
	}
	return a
}

func versionedAggProof(v eth2spec.DataVersion) core.VersionedSignedAggregateAndProof {
	a := eth2spec.VersionedSignedAggregateAndProof{Version: v}
	el := func() *electra.SignedAggregateAndProof {
		return &electra.SignedAggregateAndProof{Message: &electra.AggregateAndProof{AggregatorIndex: testutil.RandomVIdx(),
			Aggregate: testutil.RandomElectraAttestation(), SelectionProof: sig96()}, Signature: sig96()}
	}
	switch v {
	case eth2spec.DataVersionPhase0:
		a.Phase0 = testutil.RandomSignedAggregateAndProof()
	case eth2spec.DataVersionAltair:
		a.Altair = testutil.RandomSignedAggregateAndProof()
	case eth2spec.DataVersionBellatrix:
		a.Bellatrix = testutil.RandomSignedAggregateAndProof()
	case eth2spec.DataVersionCapella:
		a.Capella = testutil.RandomSignedAggregateAndProof()
	case eth2spec.DataVersionDeneb:
		a.Deneb = testutil.RandomSignedAggregateAndProof()
	case eth2spec.DataVersionElectra:
		a.Electra = el()
	default:
		a.Fulu = el()
	}
	return core.VersionedSignedAggregateAndProof{VersionedSignedAggregateAndProof: a}
}

var eth2Versions = []eth2spec.DataVersion{eth2spec.DataVersionPhase0, eth2spec.DataVersionAltair, eth2spec.DataVersionBellatrix,
	eth2spec.DataVersionCapella, eth2spec.DataVersionDeneb, eth2spec.DataVersionElectra, eth2spec.DataVersionFulu}

func catalogue() []kind {
	var ks []kind
	add := func(name, typ string, signed bool, duty core.DutyType, gen func() any, zero func() any) {
		ks = append(ks, kind{name, typ, signed, duty, gen, zero})
	}
	for _, v := range eth2Versions {
		v := v
		for _, bl := range []bool{false, true} {
			bl := bl
			if bl && (v == eth2spec.DataVersionPhase0 || v == eth2spec.DataVersionAltair) {
				continue
			}
			suf := v.String() + map[bool]string{false: "/full", true: "/blinded"}[bl]
			add("VersionedSignedProposal/"+suf, "VersionedSignedProposal", true, core.DutyProposer,
				func() any { return signedProposal(v, bl) }, func() any { return new(core.VersionedSignedProposal) })
			add("VersionedProposal/"+suf, "VersionedProposal", false, core.DutyProposer,
				func() any { return unsignedProposal(v, bl) }, func() any { return new(core.VersionedProposal) })
		}
		for _, wi := range []bool{true, false} {
			wi := wi
			add("VersionedAttestation/"+v.String()+map[bool]string{true: "/idx", false: "/noidx"}[wi], "VersionedAttestation", true, core.DutyAttester,
				func() any { return core.VersionedAttestation{VersionedAttestation: versionedAtt(v, wi)} }, func() any { return new(core.VersionedAttestation) })
		}
		add("VersionedSignedAggregateAndProof/"+v.String(), "VersionedSignedAggregateAndProof", true, core.DutyAggregator,
			func() any { return versionedAggProof(v) }, func() any { return new(core.VersionedSignedAggregateAndProof) })
		add("VersionedAggregatedAttestation/"+v.String(), "VersionedAggregatedAttestation", false, core.DutyAggregator,
			func() any { return core.VersionedAggregatedAttestation{VersionedAttestation: versionedAtt(v, false)} }, func() any { return new(core.VersionedAggregatedAttestation) })
	}
	add("SignedVoluntaryExit", "SignedVoluntaryExit", true, core.DutyExit,
		func() any { return core.NewSignedVoluntaryExit(testutil.RandomExit()) }, func() any { return new(core.SignedVoluntaryExit) })
	add("VersionedSignedValidatorRegistration/v1", "VersionedSignedValidatorRegistration", true, core.DutyBuilderRegistration,
		func() any { return testutil.RandomCoreVersionedSignedValidatorRegistration(tT) }, func() any { return new(core.VersionedSignedValidatorRegistration) })
	add("SignedRandao", "SignedRandao", true, core.DutyRandao,
		func() any { return testutil.RandomCoreSignedRandao() }, func() any { return new(core.SignedRandao) })
	add("Signature", "Signature", true, core.DutySignature,
		func() any { return testutil.RandomCoreSignature() }, func() any { return new(core.Signature) })
	add("BeaconCommitteeSelection", "BeaconCommitteeSelection", true, core.DutyPrepareAggregator,
		func() any { return testutil.RandomCoreBeaconCommitteeSelection() }, func() any { return new(core.BeaconCommitteeSelection) })
	add("SignedAggregateAndProof", "SignedAggregateAndProof", true, core.DutyAggregator,
		func() any { return core.NewSignedAggregateAndProof(testutil.RandomSignedAggregateAndProof()) }, func() any { return new(core.SignedAggregateAndProof) })
	add("SignedSyncMessage", "SignedSyncMessage", true, core.DutySyncMessage,
		func() any { return core.NewSignedSyncMessage(testutil.RandomSyncCommitteeMessage()) }, func() any { return new(core.SignedSyncMessage) })
	add("SyncCommitteeSelection", "SyncCommitteeSelection", true, core.DutyPrepareSyncContribution,
		func() any { return testutil.RandomCoreSyncCommitteeSelection() }, func() any { return new(core.SyncCommitteeSelection) })
	add("SignedSyncContributionAndProof", "SignedSyncContributionAndProof", true, core.DutySyncContribution,
		func() any { return testutil.RandomCoreSignedSyncContributionAndProof() }, func() any { return new(core.SignedSyncContributionAndProof) })
	add("SyncContributionAndProof", "SyncContributionAndProof", true, 0,
		func() any { return core.NewSyncContributionAndProof(testutil.RandomSyncContributionAndProof()) }, func() any { return new(core.SyncContributionAndProof) })
	add("AttestationData", "AttestationData", false, core.DutyAttester,
		func() any { return testutil.RandomCoreAttestationData(tT) }, func() any { return new(core.AttestationData) })
	add("AggregatedAttestation", "AggregatedAttestation", false, core.DutyAggregator,
		func() any { return core.NewAggregatedAttestation(testutil.RandomAggregateAttestation()) }, func() any { return new(core.AggregatedAttestation) })
	add("SyncContribution", "SyncContribution", false, core.DutySyncContribution,
		func() any { return testutil.RandomCoreSyncContribution() }, func() any { return new(core.SyncContribution) })
	for _, n := range []int{0, 1, 2} {
		n := n
		add(fmt.Sprintf("SyncContributions/%d", n), "SyncContributions", false, core.DutySyncContribution,
			func() any {
				s := core.SyncContributions{}
				for i := 0; i < n; i++ {
					s = append(s, testutil.RandomCoreSyncContribution())
				}
				return s
			}, func() any { return new(core.SyncContributions) })
	}
	return ks
}

func kindByName(ks []kind, n string) *kind {
	for i := range ks {
		if ks[i].name == n {
			return &ks[i]
		}
	}
	return nil
}

// deref turns the pointer produced by kind.zero into the value type the interfaces are
// implemented on.
func deref(p any) any { return reflect.ValueOf(p).Elem().Interface() }

func toJSON(v any) ([]byte, error) { return json.Marshal(v) }

func toSSZ(v any) ([]byte, bool, error) {
	m, ok := v.(ssz.Marshaler)
	if !ok {
		return nil, false, nil
	}
	b, err := m.MarshalSSZ()
	return b, true, err
}

// rootOf is the signing root (SignedData.MessageRoot) or, for unsigned data, the hash tree root
// of the object the validator will sign.
func rootOf(v any) (r [32]byte, ok bool, err error) {
	switch x := v.(type) {
	case core.SignedData:
		r, err = x.MessageRoot()
		return r, true, err
	case core.AttestationData:
		r, err = x.Data.HashTreeRoot()
		return r, true, err
	case core.VersionedProposal:
		var rr eth2p0.Root
		rr, err = x.Root()
		return rr, true, err
	case core.AggregatedAttestation:
		r, err = x.HashTreeRoot()
		return r, true, err
	case core.VersionedAggregatedAttestation:
		r, err = x.HashTreeRoot()
		return r, true, err
	case core.SyncContribution:
		r, err = x.HashTreeRoot()
		return r, true, err
	}
	return r, false, nil
}

// ---------------------------------------------------------------- exploration: environment

type schedDL struct{ ch chan core.Duty }

func (d schedDL) Add(core.Duty) core.DeadlineStatus { return core.DeadlineScheduled }
func (d schedDL) C() <-chan core.Duty               { return d.ch }

type env struct {
	run      *hx.Run
	ks       []kind
	eth2Cl   eth2wrap.Client
	verify   func(context.Context, peer.ID, core.Duty, core.PubKey, core.ParSignedData) error
	pk       core.PubKey
	verified map[string]int // real BLS verification is sampled per (type, mutation)
	panics   map[string]bool
}

func newEnv(run *hx.Run) *env {
	ctx := context.Background()
	bm, err := beaconmock.New(ctx)
	hx.Must(err)
	var pkb [48]byte
	for i := range pkb {
		pkb[i] = byte(0xA0 + i%7)
	}
	pk := core.PubKeyFrom48Bytes(pkb)
	secret, err := tbls.GenerateSecretKey()
	hx.Must(err)
	pub, err := tbls.SecretToPublicKey(secret)
	hx.Must(err)
	vf, err := parsigex.NewEth2Verifier(bm, map[core.PubKey]map[int]tbls.PublicKey{pk: {1: pub}})
	hx.Must(err)
	return &env{run: run, ks: catalogue(), eth2Cl: bm, verify: vf, pk: pk, verified: map[string]int{}, panics: map[string]bool{}}
}

// stage runs one operation of a path under recover. A panic is a violation; an error ends the
// path (the input was rejected there).
func (e *env) stage(typ, op, mut string, payload []byte, f func() error) bool {
	var err error
	if pan := safely(func() { err = f() }); pan != "" {
		sig := fmt.Sprintf("codec:panic:%s:%s:%s", typ, op, mut)
		e.run.Count("explored_panic:" + typ + ":" + op)
		if !e.panics[sig] || len(e.run.Viol) < 400 {
			e.panics[sig] = true
			e.run.Violate(sig, fmt.Sprintf("%s panics on a %s value decoded from peer bytes (mutation %s): %s; bytes(b64)=%s",
				op, typ, mut, pan, clip(b64(payload), 6000)))
		}
		e.run.Case("panic:" + typ + ":" + op + ":" + mut)
		return false
	}
	if err != nil {
		e.run.Count("explored_rejected_at:" + op)
		return false
	}
	return true
}

// latent runs an accessor outside the path order (after the path already rejected the value):
// a panic here is NOT reachable through the modelled path, it is only counted.
func (e *env) latent(typ, op string, f func()) {
	if pan := safely(f); pan != "" {
		e.run.Count("explored_latent_panic:" + typ + ":" + op)
		e.run.Case("latent:" + typ + ":" + op)
	}
}

func clip(s string, n int) string {
	if len(s) > n {
		return s[:n] + "…"
	}
	return s
}

var dummySig = func() []byte { b := make([]byte, 96); b[0] = 0xc0; return b }()

// ---------------------------------------------------------------- exploration: receive path (partial signatures)

func (e *env) decPar(dutyN int, src, mut string, payload []byte) {
	ctx := context.Background()
	duty := core.Duty{Slot: 1, Type: core.DutyType(dutyN)}
	e.run.Count("explored_decode_par")
	var set core.ParSignedDataSet
	typ := "undecoded"
	if k := kindByName(e.ks, src); k != nil {
		typ = k.typ
	}
	if !e.stage(typ, "ParSignedDataSetFromProto", mut, payload, func() (err error) {
		set, err = core.ParSignedDataSetFromProto(duty.Type, &pbv1.ParSignedDataSet{Set: map[string]*pbv1.ParSignedData{
			string(e.pk): {Data: payload, Signature: dummySig, ShareIdx: 1}}})
		return err
	}) {
		return
	}
	e.run.Count("explored_decode_par_accepted")
	d := set[e.pk]
	typ = typeName(d.SignedData)
	e.run.Case("accepted:par:" + typ + ":" + mut)
	accessors := func() {
		e.latent(typ, "MessageRoot", func() { _, _ = d.MessageRoot() })
		e.latent(typ, "Signature", func() { _ = d.Signature() })
		e.latent(typ, "Clone", func() { _, _ = d.Clone() })
		e.latent(typ, "SetSignature", func() { _, _ = d.SetSignature(dummySig) })
		e.latent(typ, "MarshalJSON", func() { _, _ = json.Marshal(d.SignedData) })
		e.latent(typ, "ParSignedDataToProto", func() { _, _ = core.ParSignedDataToProto(d) })
	}
	ok := func() bool {
		var e2 core.Eth2SignedData
		if !e.stage(typ, "Eth2SignedData", mut, payload, func() error {
			x, is := d.SignedData.(core.Eth2SignedData)
			if !is {
				return fmt.Errorf("invalid eth2 signed data")
			}
			e2 = x
			return nil
		}) {
			return false
		}
		if !e.stage(typ, "Epoch", mut, payload, func() error { _, err := e2.Epoch(ctx, e.eth2Cl); return err }) {
			return false
		}
		if !e.stage(typ, "MessageRoot", mut, payload, func() error { _, err := e2.MessageRoot(); return err }) {
			return false
		}
		if !e.stage(typ, "Signature", mut, payload, func() error { _ = e2.DomainName(); _ = e2.Signature().ToETH2(); return nil }) {
			return false
		}
		key := typ + ":" + mut
		if e.verified[key] < 2 { // the real parsigex verifier incl. BLS (sampled: it is slow)
			e.verified[key]++
			e.run.Count("explored_real_verify")
			if !e.stage(typ, "VerifyEth2SignedData", mut, payload, func() error { _ = e.verify(ctx, "", duty, e.pk, d); return nil }) {
				return false
			}
		}
		// A peer signs whatever it sends with its own share key: continue as if the signature verified.
		if !e.stage(typ, "parsigdb.StoreExternal", mut, payload, func() error {
			db := parsigdb.NewMemDB(1, schedDL{make(chan core.Duty)}, parsigdb.NewMemDBMetadata(12, time.Unix(0, 0)))
			db.SubscribeThreshold(func(_ context.Context, _ core.Duty, out map[core.PubKey][]core.ParSignedData) error {
				for _, ps := range out { // what sigagg does with a threshold group
					for _, p := range ps {
						if _, err := p.SetSignature(dummySig); err != nil {
							return err
						}
						if _, err := p.MessageRoot(); err != nil {
							return err
						}
						_ = p.Signature()
					}
				}
				return nil
			})
			return db.StoreExternal(ctx, duty, set)
		}) {
			return false
		}
		if !e.stage(typ, "Clone", mut, payload, func() error { _, err := set.Clone(); return err }) {
			return false
		}
		if !e.stage(typ, "SetSignature", mut, payload, func() error { _, err := d.SetSignature(dummySig); return err }) {
			return false
		}
		if !e.stage(typ, "ParSignedDataSetToProto", mut, payload, func() error { _, err := core.ParSignedDataSetToProto(set); return err }) {
			return false
		}
		if !e.stage(typ, "MarshalJSON", mut, payload, func() error { _, err := json.Marshal(d.SignedData); return err }) {
			return false
		}
		if m, is := d.SignedData.(ssz.Marshaler); is {
			if !e.stage(typ, "MarshalSSZ", mut, payload, func() error { _, err := m.MarshalSSZ(); return err }) {
				return false
			}
		}
		return true
	}()
	if ok {
		e.run.Count("explored_path_par_completed")
	} else {
		accessors()
	}
}

// ---------------------------------------------------------------- exploration: decide / store path (unsigned data)

func (e *env) decUns(dutyN int, src, mut string, payload []byte) {
	ctx := context.Background()
	duty := core.Duty{Slot: 1, Type: core.DutyType(dutyN)}
	e.run.Count("explored_decode_uns")
	typ := "undecoded"
	if k := kindByName(e.ks, src); k != nil {
		typ = k.typ
	}
	var set core.UnsignedDataSet
	pbset := &pbv1.UnsignedDataSet{Set: map[string][]byte{string(e.pk): payload}}
	if !e.stage(typ, "UnsignedDataSetFromProto", mut, payload, func() (err error) {
		set, err = core.UnsignedDataSetFromProto(duty.Type, pbset)
		return err
	}) {
		return
	}
	e.run.Count("explored_decode_uns_accepted")
	d := set[e.pk]
	typ = typeName(d)
	e.run.Case("accepted:uns:" + typ + ":" + mut)
	ok := func() bool {
		if _, err := cqbft.HashProtoVerif(pbset); err != nil { // consensus hashes the value it received
			return false
		}
		if duty.Type == core.DutyAttester { // mirror of consensus/qbft attestationChecker (Compare callback)
			if !e.stage(typ, "attestationChecker", mut, payload, func() error {
				a, is := d.(core.AttestationData)
				if !is {
					return fmt.Errorf("unable to parse")
				}
				_ = a.Data.Source.Epoch
				_ = a.Data.Source.Root
				_ = a.Data.Target.Epoch
				_ = a.Data.Target.Root
				return nil
			}) {
				return false
			}
		}
		if !e.stage(typ, "dutydb.Store", mut, payload, func() error {
			return dutydb.NewMemDB(schedDL{make(chan core.Duty)}).Store(ctx, duty, set)
		}) {
			return false
		}
		if !e.stage(typ, "Clone", mut, payload, func() error { _, err := set.Clone(); return err }) {
			return false
		}
		if !e.stage(typ, "UnsignedDataSetToProto", mut, payload, func() error { _, err := core.UnsignedDataSetToProto(set); return err }) {
			return false
		}
		if !e.stage(typ, "MarshalJSON", mut, payload, func() error { _, err := json.Marshal(d); return err }) {
			return false
		}
		if m, is := d.(ssz.Marshaler); is {
			if !e.stage(typ, "MarshalSSZ", mut, payload, func() error { _, err := m.MarshalSSZ(); return err }) {
				return false
			}
		}
		if !e.stage(typ, "HashTreeRoot", mut, payload, func() error { _, _, err := rootOf(d); return err }) {
			return false
		}
		return true
	}()
	if ok {
		e.run.Count("explored_path_uns_completed")
	} else {
		e.latent(typ, "Clone", func() { _, _ = d.Clone() })
		e.latent(typ, "MarshalJSON", func() { _, _ = json.Marshal(d) })
		e.latent(typ, "HashTreeRoot", func() { _, _, _ = rootOf(d) })
	}
}

// ---------------------------------------------------------------- exploration: round trips, clone, determinism

// ptrs collects the addresses of everything reachable from v through pointers, slices and maps.
func ptrs(v reflect.Value, out map[uintptr]bool, depth int) {
	if depth > 40 || !v.IsValid() {
		return
	}
	switch v.Kind() {
	case reflect.Ptr:
		if v.IsNil() || v.Type().Elem().Size() == 0 {
			return
		}
		if out[v.Pointer()] {
			return
		}
		out[v.Pointer()] = true
		ptrs(v.Elem(), out, depth+1)
	case reflect.Interface:
		if !v.IsNil() {
			ptrs(v.Elem(), out, depth+1)
		}
	case reflect.Slice:
		if v.Len() == 0 {
			return
		}
		out[v.Pointer()] = true
		if k := v.Type().Elem().Kind(); k == reflect.Ptr || k == reflect.Struct || k == reflect.Slice || k == reflect.Interface || k == reflect.Array {
			for i := 0; i < v.Len(); i++ {
				ptrs(v.Index(i), out, depth+1)
			}
		}
	case reflect.Array:
		if k := v.Type().Elem().Kind(); k == reflect.Ptr || k == reflect.Struct || k == reflect.Slice || k == reflect.Interface {
			for i := 0; i < v.Len(); i++ {
				ptrs(v.Index(i), out, depth+1)
			}
		}
	case reflect.Struct:
		if v.Type() == reflect.TypeOf(time.Time{}) { // *time.Location is a shared immutable global
			return
		}
		for i := 0; i < v.NumField(); i++ {
			ptrs(v.Field(i), out, depth+1)
		}
	case reflect.Map:
		it := v.MapRange()
		for it.Next() {
			ptrs(it.Value(), out, depth+1)
		}
	}
}

func sharesMemory(a, b any) bool {
	pa, pb := map[uintptr]bool{}, map[uintptr]bool{}
	ptrs(reflect.ValueOf(a), pa, 0)
	ptrs(reflect.ValueOf(b), pb, 0)
	for p := range pa {
		if pb[p] {
			return true
		}
	}
	return false
}

func (e *env) viol(sig, descr string) {
	e.run.Violate(sig, clip(descr, 8000))
	e.run.Case("viol:" + sig)
}

// sameAs compares a re-decoded / cloned value with the expected encodings and signing root.
func (e *env) sameAs(k *kind, what string, v any, js, sz []byte, root [32]byte, hasRoot bool) {
	j2, err := toJSON(v)
	if err != nil || !bytes.Equal(j2, js) {
		e.viol("codec:roundtrip_lost_field", fmt.Sprintf("%s: JSON after %s differs from the original (err=%v): got %s want %s", k.name, what, err, clip(string(j2), 1500), clip(string(js), 1500)))
	}
	if sz != nil {
		s2, _, err := toSSZ(v)
		if err != nil || !bytes.Equal(s2, sz) {
			e.viol("codec:roundtrip_lost_field", fmt.Sprintf("%s: SSZ after %s differs from the original (err=%v)", k.name, what, err))
		}
	}
	if hasRoot {
		r2, _, err := rootOf(v)
		if err != nil || r2 != root {
			e.viol("codec:roundtrip_changed_root", fmt.Sprintf("%s: signing root after %s is %x (err=%v), was %x", k.name, what, r2, err, root))
		}
	}
}

func (e *env) roundTrip(k *kind, js, szExp []byte, rootExp []byte) {
	e.run.Count("explored_values")
	e.run.Case("rt:" + k.name)
	p := k.zero()
	if err := json.Unmarshal(js, p); err != nil {
		e.viol("codec:roundtrip_failed:"+k.typ+":json", fmt.Sprintf("%s: JSON of a generated value does not decode: %v", k.name, err))
		return
	}
	v := deref(p)
	root, hasRoot, rerr := rootOf(v)
	if rerr != nil {
		if len(rootExp) == 32 { // the generated value had a root (core.Signature never has one)
			e.viol("codec:roundtrip_changed_root", fmt.Sprintf("%s: root of the decoded value: %v", k.name, rerr))
		}
		hasRoot = false
	}
	if hasRoot && len(rootExp) == 32 && !bytes.Equal(root[:], rootExp) {
		e.viol("codec:roundtrip_changed_root", fmt.Sprintf("%s: root after JSON decoding %x, generated value had %x", k.name, root, rootExp))
	}
	sz, isSSZ, serr := toSSZ(v)
	if !isSSZ {
		sz = nil
	} else if serr != nil {
		e.viol("codec:roundtrip_failed:"+k.typ+":ssz", fmt.Sprintf("%s: MarshalSSZ: %v", k.name, serr))
		sz = nil
	} else if szExp != nil && !bytes.Equal(sz, szExp) {
		e.viol("codec:roundtrip_lost_field", fmt.Sprintf("%s: SSZ of the JSON-decoded value differs from the SSZ of the generated value", k.name))
	}
	e.sameAs(k, "JSON", v, js, sz, root, hasRoot)
	// determinism: encode twice
	if j2, _ := toJSON(v); !bytes.Equal(j2, js) {
		e.viol("codec:nondeterministic_bytes", k.name+": two JSON encodings of one value differ")
	}
	if sz != nil {
		if s2, _, _ := toSSZ(v); !bytes.Equal(s2, sz) {
			e.viol("codec:nondeterministic_bytes", k.name+": two SSZ encodings of one value differ")
		}
		p2 := k.zero()
		if err := p2.(ssz.Unmarshaler).UnmarshalSSZ(sz); err != nil {
			sig := "codec:roundtrip_failed:" + k.typ + ":ssz"
			if k.typ == "VersionedAttestation" && strings.HasSuffix(k.name, "/noidx") && slot20(v) {
				sig = "codec:att_noidx_slot20_undecodable"
			}
			e.viol(sig, fmt.Sprintf("%s: SSZ of a valid value does not decode: %v; json(b64)=%s", k.name, err, b64(js)))
		} else {
			e.sameAs(k, "SSZ", deref(p2), js, sz, root, hasRoot)
		}
	}
	// Clone
	var c any
	var cerr error
	switch x := v.(type) {
	case core.SignedData:
		c, cerr = x.Clone()
	case core.UnsignedData:
		c, cerr = x.Clone()
	}
	if cerr != nil {
		sig := "codec:clone_differs"
		if k.typ == "VersionedAttestation" && strings.HasSuffix(k.name, "/noidx") && slot20(v) {
			sig = "codec:att_noidx_slot20_undecodable"
		}
		e.viol(sig, fmt.Sprintf("%s: Clone of a valid value fails: %v", k.name, cerr))
	} else if c != nil {
		cj, _ := toJSON(c)
		cs, _, _ := toSSZ(c)
		cr, _, _ := rootOf(c)
		if !bytes.Equal(cj, js) || (sz != nil && !bytes.Equal(cs, sz)) || (hasRoot && cr != root) || reflect.TypeOf(c) != reflect.TypeOf(v) {
			e.viol("codec:clone_differs", fmt.Sprintf("%s: clone differs from its original (type %T vs %T)", k.name, c, v))
		}
		if sharesMemory(v, c) {
			e.viol("codec:clone_shares_memory", k.name+": clone shares a pointer / slice backing array with its original")
		}
	}
	// protobuf, with SSZ marshalling on and off (a pre-v0.17 peer sends JSON)
	if k.duty != 0 {
		for _, on := range []bool{true, false} {
			prev := core.VerifSetSSZMarshalling(on)
			e.protoTrip(k, v, js, sz, root, hasRoot, on)
			core.VerifSetSSZMarshalling(prev)
		}
	}
}

// leadValues: little-endian integers whose encoding starts with the bytes a JSON document can start with ('{', '[',
// '"', white space followed by '{'). The non-versioned SSZ types begin with a free uint64 (slot, epoch, validator or
// aggregator index): their valid SSZ encodings can look like the start of JSON, and core.unmarshal must still decode them.
var leadValues = []uint64{0x7b, 0x7b20, 0x7b0a, 0x7b090d0a20, 0x5b, 0x22, 0x7b00 | 0x7b, 1<<32 | 0x7b}

// leadTweak sets the integer field that comes first in the SSZ encoding of v (false: v's encoding does not begin with a
// free integer).
func leadTweak(v any, x uint64) (any, bool) {
	switch t := v.(type) {
	case core.SignedSyncMessage:
		t.Slot = eth2p0.Slot(x)
		return t, true
	case core.SyncContribution:
		t.Slot = eth2p0.Slot(x)
		return t, true
	case core.SignedSyncContributionAndProof:
		if t.Message == nil {
			return v, false
		}
		t.Message.AggregatorIndex = eth2p0.ValidatorIndex(x)
		return t, true
	case core.SignedRandao:
		t.SignedEpoch.Epoch = eth2p0.Epoch(x)
		return t, true
	case core.BeaconCommitteeSelection:
		t.ValidatorIndex = eth2p0.ValidatorIndex(x)
		return t, true
	case core.SyncCommitteeSelection:
		t.ValidatorIndex = eth2p0.ValidatorIndex(x)
		return t, true
	case core.SignedVoluntaryExit:
		if t.Message == nil {
			return v, false
		}
		t.Message.Epoch = eth2p0.Epoch(x)
		return t, true
	}
	return v, false
}

// setBlobCount finds the block contents inside a proposal (a struct with fields Blobs and KZGProofs) and makes it
// carry n blobs and n*per proofs (false: the value has none). per = 1 up to electra (one proof per blob); fulu block
// contents carry the cell proofs, CELLS_PER_EXT_BLOB = 128 per blob, so there proofs and blobs differ in number.
func setBlobCount(v any, n, per int) bool {
	done := false
	var walk func(rv reflect.Value, depth int)
	walk = func(rv reflect.Value, depth int) {
		if done || depth > 6 {
			return
		}
		switch rv.Kind() {
		case reflect.Ptr, reflect.Interface:
			if !rv.IsNil() {
				walk(rv.Elem(), depth+1)
			}
		case reflect.Struct:
			bl, pr := rv.FieldByName("Blobs"), rv.FieldByName("KZGProofs")
			if bl.IsValid() && pr.IsValid() && bl.Kind() == reflect.Slice && pr.Kind() == reflect.Slice && bl.CanSet() && pr.CanSet() {
				for fi, f := range []reflect.Value{bl, pr} {
					n := n
					if fi == 1 {
						n *= per
					}
					nf := reflect.MakeSlice(f.Type(), n, n)
					for i := 0; i < n; i++ {
						if f.Len() > 0 {
							nf.Index(i).Set(f.Index(i % f.Len()))
						}
						// make the entries pairwise different
						if e := nf.Index(i); e.Kind() == reflect.Array && e.Len() > 0 && e.Index(0).Kind() == reflect.Uint8 {
							e.Index(0).SetUint(uint64(i + 1))
							if e.Len() > 1 {
								e.Index(1).SetUint(uint64((i + 1) >> 8))
							}
						}
					}
					f.Set(nf)
				}
				done = true
				return
			}
			for i := 0; i < rv.NumField(); i++ {
				if rv.Type().Field(i).IsExported() {
					walk(rv.Field(i), depth+1)
				}
			}
		}
	}
	walk(reflect.ValueOf(v), 0)
	return done
}

func slot20(v any) bool {
	a, ok := v.(core.VersionedAttestation)
	if !ok {
		return false
	}
	d, err := a.Data()
	return err == nil && uint64(d.Slot)%(1<<32) == 20
}

func (e *env) protoTrip(k *kind, v any, js, sz []byte, root [32]byte, hasRoot, sszOn bool) {
	what := fmt.Sprintf("protobuf(ssz=%v)", sszOn)
	fail := func(err error) {
		sig := "codec:roundtrip_failed:" + k.typ + ":proto"
		if k.typ == "VersionedAttestation" && strings.HasSuffix(k.name, "/noidx") && slot20(v) {
			sig = "codec:att_noidx_slot20_undecodable"
		}
		e.viol(sig, fmt.Sprintf("%s: %s round trip fails: %v; json(b64)=%s", k.name, what, err, b64(js)))
	}
	if k.signed {
		in := core.ParSignedData{SignedData: v.(core.SignedData), ShareIdx: 3}
		pb, err := core.ParSignedDataToProto(in)
		if err != nil {
			fail(err)
			return
		}
		pb2, _ := core.ParSignedDataToProto(in)
		if !bytes.Equal(pb.GetData(), pb2.GetData()) || !bytes.Equal(pb.GetSignature(), pb2.GetSignature()) {
			e.viol("codec:nondeterministic_bytes", k.name+": two protobuf encodings of one value differ")
		}
		out, err := core.ParSignedDataFromProto(k.duty, pb)
		if err != nil {
			fail(err)
			return
		}
		if out.ShareIdx != 3 || !bytes.Equal(out.Signature(), in.Signature()) {
			e.viol("codec:roundtrip_lost_field", k.name+": share index / signature changed through "+what)
		}
		if reflect.TypeOf(out.SignedData) != reflect.TypeOf(v) {
			e.viol("codec:roundtrip_lost_field", fmt.Sprintf("%s: %s decodes to %T", k.name, what, out.SignedData))
			return
		}
		e.sameAs(k, what, out.SignedData, js, sz, root, hasRoot)
		return
	}
	pk2 := core.PubKey("0x" + strings.Repeat("b1", 48))
	set := core.UnsignedDataSet{e.pk: v.(core.UnsignedData), pk2: v.(core.UnsignedData)}
	pb, err := core.UnsignedDataSetToProto(set)
	if err != nil {
		fail(err)
		return
	}
	out, err := core.UnsignedDataSetFromProto(k.duty, pb)
	if err != nil {
		fail(err)
		return
	}
	if len(out) != 2 {
		e.viol("codec:roundtrip_lost_field", k.name+": set size changed through "+what)
		return
	}
	for _, pk := range []core.PubKey{e.pk, pk2} {
		got := any(out[pk])
		if reflect.TypeOf(got) != reflect.TypeOf(v) {
			// SyncContributions of length 1 and a single SyncContribution are distinct wire forms; anything else is a loss
			e.viol("codec:roundtrip_lost_field", fmt.Sprintf("%s: %s decodes to %T", k.name, what, got))
			return
		}
		e.sameAs(k, what, got, js, sz, root, hasRoot)
	}
}

// hashOrder: the consensus hash of a proposed set must not depend on the order the Go map was
// filled in or iterated.
func (e *env) hashOrder(dutyN int, pks []string, datas [][]byte) {
	e.run.Count("explored_hash_sets")
	var first [32]byte
	for round := 0; round < 4; round++ {
		set := core.UnsignedDataSet{}
		order := make([]int, len(pks))
		for i := range order {
			order[i] = i
		}
		if round%2 == 1 {
			for i, j := 0, len(order)-1; i < j; i, j = i+1, j-1 {
				order[i], order[j] = order[j], order[i]
			}
		}
		for _, i := range order {
			ud, err := core.VerifUnmarshalUnsignedData(core.DutyType(dutyN), datas[i])
			if err != nil {
				return
			}
			set[core.PubKey(pks[i])] = ud
		}
		pb, err := core.UnsignedDataSetToProto(set)
		if err != nil {
			return
		}
		h, err := cqbft.HashProtoVerif(pb)
		if err != nil {
			return
		}
		if round == 0 {
			first = h
		} else if h != first {
			e.viol("codec:nondeterministic_hash", fmt.Sprintf("consensus hash of one set differs between encodings: %x vs %x", first, h))
		}
	}
}

// execX executes one exploration op.
func (e *env) execX(f []string) {
	if len(f) < 2 {
		return
	}
	switch f[1] {
	case "rt":
		if len(f) != 6 {
			return
		}
		k := kindByName(e.ks, f[2])
		js, ok1 := unb64(f[3])
		sz, ok2 := unb64(f[4])
		root, ok3 := unhx(f[5])
		if k == nil || !ok1 || !ok2 || !ok3 {
			return
		}
		e.roundTrip(k, js, sz, root)
	case "dec":
		if len(f) != 7 {
			return
		}
		dn, err := strconv.Atoi(f[3])
		payload, ok := unb64(f[6])
		if err != nil || !ok {
			return
		}
		e.run.Count("explored_mutations:" + f[5])
		if f[2] == "par" {
			e.decPar(dn, f[4], f[5], payload)
		} else {
			e.decUns(dn, f[4], f[5], payload)
		}
	case "hash":
		if len(f) < 3 || (len(f)-3)%2 != 0 {
			return
		}
		dn, err := strconv.Atoi(f[2])
		if err != nil {
			return
		}
		var pks []string
		var datas [][]byte
		for i := 3; i < len(f); i += 2 {
			b, ok := unb64(f[i+1])
			if !ok {
				return
			}
			pks = append(pks, f[i])
			datas = append(datas, b)
		}
		e.hashOrder(dn, pks, datas)
	}
}

// ---------------------------------------------------------------- mutation enumeration

type mutant struct {
	kind string // jnull | jtype | jempty | jnulllist | jremoved | (jnull|jnulllist|valid)pad | ssztrunc | sszsplice | random | valid | cross
	data []byte
}

func parseTree(js []byte) (any, bool) {
	dec := json.NewDecoder(bytes.NewReader(js))
	dec.UseNumber()
	var t any
	if err := dec.Decode(&t); err != nil {
		return nil, false
	}
	return t, true
}

type removed struct{}

// rebuild returns a copy of tree t in which the node at path is replaced by repl (removed{}:
// dropped from its parent).
func rebuild(t any, path []any, repl any) any {
	if len(path) == 0 {
		return repl
	}
	switch x := t.(type) {
	case map[string]any:
		out := make(map[string]any, len(x))
		for k, v := range x {
			if k == path[0].(string) {
				nv := rebuild(v, path[1:], repl)
				if _, gone := nv.(removed); gone {
					continue
				}
				out[k] = nv
			} else {
				out[k] = v
			}
		}
		return out
	case []any:
		out := make([]any, 0, len(x))
		for i, v := range x {
			if i == path[0].(int) {
				nv := rebuild(v, path[1:], repl)
				if _, gone := nv.(removed); gone {
					continue
				}
				out = append(out, nv)
			} else {
				out = append(out, v)
			}
		}
		return out
	}
	return t
}

func wrongTyped(n any) any {
	switch n.(type) {
	case string:
		return json.Number("7")
	case json.Number, bool:
		return "x"
	case map[string]any:
		return "0x00"
	case []any:
		return map[string]any{}
	}
	return map[string]any{"a": json.Number("1")}
}

// jsonMutants: EVERY node of the encoded tree × {null, wrong type, empty list, [null], removed}.
func jsonMutants(js []byte) []mutant {
	t, ok := parseTree(js)
	if !ok {
		return nil
	}
	var out []mutant
	var walk func(n any, path []any)
	emit := func(kind string, path []any, repl any) {
		nt := rebuild(t, path, repl)
		if _, gone := nt.(removed); gone {
			out = append(out, mutant{kind, nil})
			return
		}
		b, err := json.Marshal(nt)
		if err == nil {
			out = append(out, mutant{kind, b})
		}
	}
	walk = func(n any, path []any) {
		p := append([]any(nil), path...)
		emit("jnull", p, nil)
		emit("jtype", p, wrongTyped(n))
		emit("jempty", p, []any{})
		emit("jnulllist", p, []any{nil})
		emit("jremoved", p, removed{})
		switch x := n.(type) {
		case map[string]any:
			keys := make([]string, 0, len(x))
			for k := range x {
				keys = append(keys, k)
			}
			sort.Strings(keys)
			for _, k := range keys {
				walk(x[k], append(p, k))
			}
		case []any:
			for i, v := range x {
				walk(v, append(p, i))
			}
		}
	}
	walk(t, nil)
	return out
}

func put32(b []byte, off int, v uint32) []byte {
	c := append([]byte(nil), b...)
	if off+4 <= len(c) {
		binary.LittleEndian.PutUint32(c[off:], v)
	}
	return c
}

// sszMutants: truncations and splices of a valid SSZ encoding. `other` are encodings of other
// values (bodies to splice in).
func sszMutants(rng *hx.Rng, b []byte, others [][]byte, thorough bool) []mutant {
	var out []mutant
	n := len(b)
	seen := map[int]bool{}
	trunc := func(l int) {
		if l >= 0 && l < n && !seen[l] {
			seen[l] = true
			out = append(out, mutant{"ssztrunc", append([]byte(nil), b[:l]...)})
		}
	}
	for l := 0; l <= 40; l++ { // every header boundary
		trunc(l)
	}
	steps := 24
	if thorough {
		steps = 200
	}
	for i := 1; i <= steps; i++ {
		trunc(n * i / (steps + 1))
	}
	trunc(n - 1)
	trunc(n - 4)
	sp := func(c []byte) { out = append(out, mutant{"sszsplice", c}) }
	// version / flag / offset words of charon's wrappers (harmless no-ops on unwrapped types)
	for _, v := range []uint64{0, 1, 2, 3, 4, 5, 6, 7, 255, 1 << 63} {
		if n >= 8 {
			c := append([]byte(nil), b...)
			binary.LittleEndian.PutUint64(c, v)
			sp(c)
		}
	}
	for _, off := range []int{0, 4, 8, 9, 12, 16, 20} {
		for _, v := range []uint32{0, 1, 11, 12, 13, 14, 19, 20, 21, uint32(n), uint32(n + 1), uint32(n - 1), 0xffffffff, 0x7fffffff} {
			if off+4 <= n {
				sp(put32(b, off, v))
			}
		}
	}
	if n > 8 {
		for _, v := range []byte{0, 1, 2, 255} {
			c := append([]byte(nil), b...)
			c[8] = v
			sp(c)
		}
	}
	// inner offsets: every 4-byte word of the first part set to extreme values
	lim := 320
	if thorough {
		lim = 1024
	}
	for off := 0; off+4 <= n && off < lim; off += 4 {
		sp(put32(b, off, 0xffffffff))
		sp(put32(b, off, 0))
		if thorough {
			sp(put32(b, off, uint32(n)))
		}
	}
	// insert / delete / duplicate at header boundaries
	for _, at := range []int{8, 9, 12, 13, 20} {
		if at <= n {
			sp(append(append(append([]byte(nil), b[:at]...), 0xAA, 0xBB, 0xCC, 0xDD), b[at:]...))
			if at+4 <= n {
				sp(append(append([]byte(nil), b[:at]...), b[at+4:]...))
			}
		}
	}
	sp(append(append([]byte(nil), b...), b...))
	sp(append(append([]byte(nil), b...), 0))
	// header of this value + body of another one / body cut in the middle and joined
	for _, o := range others {
		for _, h := range []int{12, 13, 20} {
			if h <= n && h <= len(o) {
				sp(append(append([]byte(nil), b[:h]...), o[h:]...))
			}
		}
		if len(o) > 0 && n > 0 {
			sp(append(append([]byte(nil), b[:n/2]...), o[len(o)/2:]...))
		}
	}
	// random byte flips
	flips := 12
	if thorough {
		flips = 120
	}
	for i := 0; i < flips && n > 0; i++ {
		c := append([]byte(nil), b...)
		for k := 0; k <= rng.Intn(3); k++ {
			c[rng.Intn(n)] ^= byte(1 + rng.Intn(255))
		}
		sp(c)
	}
	return out
}

func randomPayloads(rng *hx.Rng, n int) []mutant {
	fixed := []string{"", "{", "{}", " {", "\t\n{}", "null", "[]", "[null]", `""`, "0", "true", `{"version":0}`, `{"version":0,"block":null}`,
		`{"version":4,"blinded":true,"block":null}`, `{"version":5,"validator_index":null,"attestation":null}`, `{"version":0,"registration":null}`,
		`{"version":5,"aggregate_and_proof":null}`, `{"attestation_data":null,"attestation_duty":null}`, `{"attestation_data":{},"attestation_duty":{}}`,
		`{"message":null,"signature":null}`, `{"message":null}`, `[{}]`, `[[]]`, `{"version":99}`, `{"version":"deneb"}`, "\xc2\xa0{}", "\xe2\x80\x83{\"version\":1}"}
	var out []mutant
	for _, s := range fixed {
		out = append(out, mutant{"random", []byte(s)})
	}
	for i := 0; i < n; i++ {
		l := []int{1, 2, 7, 8, 12, 13, 19, 20, 21, 96, 100, 128, 232, 300, 1000}[rng.Intn(15)]
		b := make([]byte, l)
		for j := range b {
			b[j] = byte(rng.U64())
		}
		if rng.Chance(1, 2) && l >= 8 { // plausible version word
			binary.LittleEndian.PutUint64(b, uint64(rng.Intn(8)))
		}
		if rng.Chance(1, 3) && l >= 13 {
			binary.LittleEndian.PutUint32(b[8:], uint32([]int{12, 13, 20, l}[rng.Intn(4)]))
			binary.LittleEndian.PutUint32(b[9:], uint32([]int{12, 13, 20, l}[rng.Intn(4)]))
		}
		out = append(out, mutant{"random", b})
	}
	return out
}

// ---------------------------------------------------------------- generator

func randBytes(rng *hx.Rng, n int) []byte {
	b := make([]byte, n)
	for i := range b {
		b[i] = byte(rng.U64())
	}
	return b
}

func wrapperOf(typ string) string {
	return map[string]string{"VersionedSignedProposal": "VSP", "VersionedProposal": "VP", "VersionedAttestation": "VA",
		"VersionedSignedAggregateAndProof": "VSAP", "VersionedAggregatedAttestation": "VAA"}[typ]
}

// headerInfo extracts (version, flag token, inner object) of a real wrapped value.
func headerInfo(t string, v any) (int, string, core.VerifSSZType, bool) {
	p := reflect.New(reflect.TypeOf(v))
	p.Elem().Set(reflect.ValueOf(v))
	hdr := strings.Split(getHeader(t, p.Interface()), " ")
	vn, err := strconv.Atoi(hdr[0])
	if err != nil || vn < 0 {
		return 0, "", nil, false
	}
	flag := "-"
	if len(hdr) > 1 {
		flag = hdr[1]
	}
	in, err := innerOf(t, p.Interface(), versions[vn], flag == "1")
	if err != nil {
		return 0, "", nil, false
	}
	return vn, flag, in, true
}

var spaceRunes = []string{"\t", "\n", "\v", "\f", "\r", " ", "\xc2\x85", "\xc2\xa0", "\xe1\x9a\x80", "\xe2\x80\x80", "\xe2\x80\x83", "\xe2\x80\x8a",
	"\xe2\x80\xa8", "\xe2\x80\xa9", "\xe2\x80\xaf", "\xe2\x81\x9f", "\xe3\x80\x80"}
var nonSpace = []string{"\xe2\x80\x8b", "\xe2\x80\x8c", "\xef\xbb\xbf", "\xc0\xa0", "\xe0\x80\xa0", "\xc2", "\xe2\x80", "\xe2", "\xc2\x86", "\xc2\x84", "\xe2\x80\xa7",
	"\xe2\x80\xae", "\xe2\x81\x9e", "\xe3\x80\x81", "\xe1\x9a\x81", "\xf0\x9f\x98\x80", "\x00", "\x1f", "\x1c", "\x7f", "\x80", "\xff", "[", "\"", "a", "}", "0"}

func fbData(rng *hx.Rng) []byte {
	var b []byte
	for i, k := 0, rng.Intn(5); i < k; i++ {
		if rng.Chance(3, 4) {
			b = append(b, spaceRunes[rng.Intn(len(spaceRunes))]...)
		} else {
			b = append(b, nonSpace[rng.Intn(len(nonSpace))]...)
		}
	}
	switch rng.Intn(6) {
	case 0, 1, 2:
		b = append(b, '{')
	case 3:
		b = append(b, nonSpace[rng.Intn(len(nonSpace))]...)
	case 4:
		b = append(b, randBytes(rng, 1+rng.Intn(3))...)
	}
	for i, k := 0, rng.Intn(3); i < k; i++ {
		b = append(b, append([]byte(spaceRunes[rng.Intn(len(spaceRunes))]), '}')...)
	}
	return b
}

func gen(a hx.Args, e *env, do func(string)) {
	rng := hx.NewRng(a.Seed)
	rand.Seed(int64(a.Seed)) //nolint:staticcheck // testutil draws from the global source
	crand.Reader = detReader{rand.New(rand.NewSource(int64(a.Seed) + 77))}
	thorough := a.Tier != "quick"
	run := e.run
	modes := []string{"ok", "ok", "eoff", "esize", "eother"}

	// ---- 1. wrappers with a scripted inner object
	for i := 0; i < a.N; i++ {
		vn := rng.Intn(9)
		inner := randBytes(rng, []int{0, 1, 4, 8, 9, 30}[rng.Intn(6)])
		w := rng.Intn(3)
		var valid []byte
		fi := &fakeInner{enc: inner}
		v, _ := verOf(uint64(vn % 7))
		switch w {
		case 0:
			do(fmt.Sprintf("mb %d %d %s", vn, i%2, hx2(inner)))
			valid, _ = core.VerifMarshalSSZVersionedBlindedTo(nil, v, i%2 == 1, fi.valFuncB)
		case 1:
			do(fmt.Sprintf("mv %d %s", vn, hx2(inner)))
			valid, _ = core.VerifMarshalSSZVersionedTo(nil, v, fi.valFunc)
		default:
			idx := []uint64{0, 1, 20, 1 << 32, 1<<64 - 1, rng.U64()}[rng.Intn(6)]
			do(fmt.Sprintf("mi %d %d %s", vn, idx, hx2(inner)))
			valid, _ = core.VerifMarshalSSZVersionedValidatorIdxTo(nil, v, eth2p0.ValidatorIndex(idx), fi.valFunc)
		}
		run.Count("corr_marshal")
		// decode side: the valid bytes and alterations of them, under every wrapper
		buf := append([]byte(nil), valid...)
		switch rng.Intn(8) {
		case 0:
			buf = buf[:rng.Intn(len(buf)+1)]
		case 1:
			binary.LittleEndian.PutUint64(buf, []uint64{7, 8, 255, 1 << 32, 1 << 63, 6}[rng.Intn(6)])
		case 2:
			off := []int{8, 9, 16}[rng.Intn(3)]
			buf = put32(buf, off, []uint32{0, 11, 12, 13, 14, 19, 20, 21, uint32(len(buf)), uint32(len(buf) + 1), 0xffffffff}[rng.Intn(11)])
		case 3:
			at := rng.Intn(len(buf) + 1)
			buf = append(append(append([]byte(nil), buf[:at]...), randBytes(rng, 1+rng.Intn(4))...), buf[at:]...)
		case 4:
			buf = randBytes(rng, rng.Intn(30))
		case 5:
			if len(buf) > 8 {
				buf[8] = []byte{0, 1, 2, 255}[rng.Intn(4)]
			}
		}
		op := []string{"ub", "uv", "ui"}[rng.Intn(3)]
		if rng.Chance(2, 3) {
			op = []string{"ub", "uv", "ui"}[w]
		}
		do(fmt.Sprintf("%s %s %s", op, hx2(buf), modes[rng.Intn(len(modes))]))
		run.Count("corr_unmarshal")
		// fallback decision
		do(fmt.Sprintf("fb %s %s %s", []string{"s", "s", "j"}[rng.Intn(3)], []string{"ok", "err", "err", "err"}[rng.Intn(4)], hx2(fbData(rng))))
		run.Count("corr_fallback")
	}
	for _, p := range []string{"s", "j"} {
		for _, en := range []string{"0", "1"} {
			do("mf " + p + " " + en)
		}
	}

	// ---- 2. real values of every kind
	reps := 1
	if thorough {
		reps = 2
	}
	type encd struct {
		k        *kind
		ssz, jsn []byte
		wire     []byte // core.marshal: what is put on the wire
		s20      bool
	}
	var all []encd
	sszByType := map[string][][]byte{}
	for ki := range e.ks {
		k := &e.ks[ki]
		nlead := 0
		if _, ok := leadTweak(k.gen(), 1); ok {
			nlead = len(leadValues)
		}
		// unblinded deneb+ proposals carry their blobs: the count is bounded by the chain's blob schedule (6 in deneb, 9 in
		// electra, raised by the BPO forks of fulu to 15 and 21), not by the codec; such values are only round-tripped
		// (they are megabytes: no mutation sweep over them)
		var blobCounts [][2]int // blobs, proofs per blob
		if (k.typ == "VersionedSignedProposal" || k.typ == "VersionedProposal") && strings.HasSuffix(k.name, "/full") {
			switch {
			case strings.Contains(k.name, "/deneb/"):
				blobCounts = [][2]int{{6, 1}}
			case strings.Contains(k.name, "/electra/"):
				blobCounts = [][2]int{{9, 1}}
			case strings.Contains(k.name, "/fulu/"):
				blobCounts = [][2]int{{10, 1}, {15, 1}, {21, 1}, {2, 128}, {9, 128}}
			}
		}
		for r := 0; r < reps+nlead+len(blobCounts); r++ {
			v := k.gen()
			big := false
			if r >= reps+nlead {
				if bc := blobCounts[r-reps-nlead]; !setBlobCount(v, bc[0], bc[1]) {
					continue
				}
				big = true
				run.Count("values_many_blobs")
			} else if r >= reps {
				// SSZ encodings that begin with the bytes a JSON document can begin with (see leadValues)
				v, _ = leadTweak(v, leadValues[r-reps])
				run.Count("values_json_like_ssz_prefix")
			}
			if k.typ == "VersionedAttestation" && strings.HasSuffix(k.name, "/noidx") && r == 0 {
				// the slot the compatibility fallback cannot tell apart (see Props/C14.lean)
				va := v.(core.VersionedAttestation)
				if d, err := va.Data(); err == nil {
					d.Slot = 20
				}
			}
			js, err := toJSON(v)
			hx.Must(err)
			sz, isSSZ, err := toSSZ(v)
			hx.Must(err)
			root, hasRoot, rerr := rootOf(v)
			rootTok := "-"
			if hasRoot && rerr == nil {
				rootTok = hex.EncodeToString(root[:])
			}
			do(fmt.Sprintf("x rt %s %s %s %s", k.name, b64(js), b64(sz), rootTok))
			if big {
				continue
			}
			wire, err := core.VerifMarshal(v)
			hx.Must(err)
			all = append(all, encd{k, sz, js, wire, slot20(v)})
			if isSSZ {
				sszByType[k.typ] = append(sszByType[k.typ], sz)
			}
			// byte-exact wrapper correspondence on the real type
			if t := wrapperOf(k.typ); t != "" {
				vn, flag, in, ok := headerInfo(t, v)
				if ok {
					ib, err := in.MarshalSSZ()
					hx.Must(err)
					do(fmt.Sprintf("tm %s %d %s %s", t, vn, flag, hx2(ib)))
					do(fmt.Sprintf("tm %s %d %s %s", t, 7+rng.Intn(3), flag, hx2(ib)))
					run.Count("corr_real_marshal")
				}
				do(fmt.Sprintf("tu %s %s %s", t, hx2(sz), strings.Join(tuOracle(t, sz), " ")))
				ms := sszMutants(rng, sz, sszByType[k.typ], false)
				lim := 70
				if thorough {
					lim = 400
				}
				for i, m := range ms {
					if i >= lim && !(m.kind == "sszsplice" && i%7 == 0) {
						continue
					}
					do(fmt.Sprintf("tu %s %s %s", t, hx2(m.data), strings.Join(tuOracle(t, m.data), " ")))
					run.Count("corr_real_unmarshal")
				}
			}
			if ad, is := v.(core.AttestationData); is {
				db, err := ad.Data.MarshalSSZ()
				hx.Must(err)
				d := ad.Duty
				do(fmt.Sprintf("am %s %s %d %d %d %d %d %d", hx2(db), pkHex(d.PubKey), uint64(d.Slot), uint64(d.ValidatorIndex), uint64(d.CommitteeIndex),
					d.CommitteeLength, d.CommitteesAtSlot, d.ValidatorCommitteeIndex))
				do(fmt.Sprintf("au %s %s", hx2(sz), auOracle(sz)))
				for _, m := range sszMutants(rng, sz, nil, thorough) {
					do(fmt.Sprintf("au %s %s", hx2(m.data), auOracle(m.data)))
					run.Count("corr_attdata_unmarshal")
				}
			}
		}
	}

	// ---- 3. set encoders
	small := func(signed bool) []encd {
		var out []encd
		for _, x := range all {
			if x.k.signed == signed && x.k.duty != 0 && len(x.jsn) < 1500 && !x.s20 {
				out = append(out, x)
			}
		}
		return out
	}
	for _, signed := range []bool{true, false} {
		cands := small(signed)
		for i := 0; i < 60; i++ {
			base := cands[rng.Intn(len(cands))]
			n := rng.Intn(5)
			var toks, htoks []string
			used := map[string]bool{}
			for j := 0; j < n; j++ {
				x := cands[rng.Intn(len(cands))]
				if x.k.duty != base.k.duty {
					x = base
				}
				pk := "0x" + hex.EncodeToString(randBytes(rng, 48))
				if used[pk] {
					continue
				}
				used[pk] = true
				data := x.wire
				if signed {
					toks = append(toks, pk, strconv.Itoa(1+rng.Intn(6)), hx2(data))
				} else {
					toks = append(toks, pk, hx2(data))
					htoks = append(htoks, pk, b64(data))
				}
			}
			op := map[bool]string{true: "ps", false: "us"}[signed]
			do(strings.TrimSpace(fmt.Sprintf("%s %d %s", op, int(base.k.duty), strings.Join(toks, " "))))
			run.Count("corr_set")
			if !signed && len(htoks) > 0 {
				do(fmt.Sprintf("x hash %d %s", int(base.k.duty), strings.Join(htoks, " ")))
			}
		}
	}

	// ---- 4. exploration: valid, cross-type, every JSON mutation, SSZ truncations / splices
	allDuties := core.AllDutyTypes()
	unsDuties := []core.DutyType{core.DutyAttester, core.DutyProposer, core.DutyAggregator, core.DutySyncContribution, core.DutyRandao}
	path := func(signed bool) string { return map[bool]string{true: "par", false: "uns"}[signed] }
	for _, x := range all {
		encs := [][]byte{x.jsn}
		if x.ssz != nil {
			encs = append(encs, x.ssz)
		}
		for _, enc := range encs {
			if x.k.duty != 0 {
				do(fmt.Sprintf("x dec %s %d %s valid %s", path(x.k.signed), int(x.k.duty), x.k.name, b64(enc)))
			}
			for _, d := range allDuties {
				if d != x.k.duty || !x.k.signed {
					do(fmt.Sprintf("x dec par %d %s cross %s", int(d), x.k.name, b64(enc)))
				}
			}
			for _, d := range unsDuties {
				if d != x.k.duty || x.k.signed {
					do(fmt.Sprintf("x dec uns %d %s cross %s", int(d), x.k.name, b64(enc)))
				}
			}
		}
		if x.k.duty == 0 {
			continue
		}
		// the JSON decoders accept white space around a document and core.unmarshal trims it before it looks for the
		// opening brace: a framed document takes the same path as the bare one and must be handled as safely
		pads := [][2]string{{" ", ""}, {"\n", "\n"}, {"\t\r\n ", " "}, {"", " \n"}}
		do(fmt.Sprintf("x dec %s %d %s validpad %s", path(x.k.signed), int(x.k.duty), x.k.name, b64([]byte(" \n"+string(x.jsn)+"\n"))))
		for i, m := range jsonMutants(x.jsn) {
			do(fmt.Sprintf("x dec %s %d %s %s %s", path(x.k.signed), int(x.k.duty), x.k.name, m.kind, b64(m.data)))
			if (m.kind == "jnull" || m.kind == "jnulllist") && m.data != nil {
				pd := pads[i%len(pads)]
				do(fmt.Sprintf("x dec %s %d %s %spad %s", path(x.k.signed), int(x.k.duty), x.k.name, m.kind, b64([]byte(pd[0]+string(m.data)+pd[1]))))
			}
		}
		if x.ssz != nil {
			for _, m := range sszMutants(rng, x.ssz, sszByType[x.k.typ], thorough) {
				do(fmt.Sprintf("x dec %s %d %s %s %s", path(x.k.signed), int(x.k.duty), x.k.name, m.kind, b64(m.data)))
			}
		}
	}
	nr := 40
	if thorough {
		nr = 600
	}
	for _, m := range randomPayloads(rng, nr) {
		for _, d := range allDuties {
			do(fmt.Sprintf("x dec par %d - random %s", int(d), b64(m.data)))
		}
		for _, d := range unsDuties {
			do(fmt.Sprintf("x dec uns %d - random %s", int(d), b64(m.data)))
		}
	}
}

func main() {
	a := hx.ParseArgs()
	run := hx.NewRun(a.Dir)
	e := newEnv(run)
	do := func(op string) {
		f := strings.Split(op, " ")
		if f[0] == "x" {
			e.execX(f)
			run.Op(op, "x")
			return
		}
		run.Op(op, execCorr(run, f))
	}
	if a.Mode == "exec" {
		for _, op := range hx.ReadOps(a.Ops) {
			do(op)
		}
	} else {
		gen(a, e, do)
	}
	run.Close()
}
