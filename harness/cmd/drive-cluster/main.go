// drive-cluster: correspondence driver + monitors for C12 (cluster artifacts are mutually
// consistent and tamper-evident).
//
// Ops (one line each; the Lean driver `drv-cluster` answers every line):
//
//	sha <hex>                      SHA-256 of the bytes                       -> <hex digest>
//	hash <ver> <cfg|def|lock> <v>  hashDefinition(d, true/false) / hashLock(l) of the struct value <v>
//	                               (reflection dump, see emitVal)             -> ok <root> | err | panic
//	leaves <ver> <def|lock> <p,..> JSON leaf paths found by walking a real encoded file; the model
//	                               compares them with the T-fields list        -> ok
//	doc <ver> <def|lock> <hexjson> start of an episode: the valid signed file  -> -
//	reenc                          decode -> encode -> decode of the episode's file (monitor only) -> -
//	tamper <path> <alt>            one alteration of one JSON leaf / list of the episode's file,
//	                               decode, VerifyHashes, VerifySignatures (monitor only) -> -
//	forged <what> <ver> <hexjson>  a lock with right hashes and signatures whose artifacts are mutually
//	                               inconsistent must be rejected (monitor only)             -> -
//	create <k=v ...>               `charon create cluster` in-process + artifact checks (monitor only) -> -
//	combine t=<t> shares=<k>       emitted by `create`: cmd/combine.Combine on k node directories of the
//	                               created cluster                                    -> accept | refuse
//
// `hash` ops are self-contained (exec mode rebuilds the struct from the dump); `tamper`/`reenc`
// refer to the last `doc` (reset op).
package main

import (
	"bytes"
	"context"
	"crypto/sha256"
	"encoding/hex"
	"encoding/json"
	"fmt"
	"io"
	"math/big"
	"os"
	"path/filepath"
	"reflect"
	"regexp"
	"sort"
	"strconv"
	"strings"
	"testing"
	"time"

	eth2p0 "github.com/attestantio/go-eth2-client/spec/phase0"
	k1 "github.com/decred/dcrd/dcrec/secp256k1/v4"

	"github.com/obolnetwork/charon/app/k1util"
	"github.com/obolnetwork/charon/cluster"
	"github.com/obolnetwork/charon/cmd"
	"github.com/obolnetwork/charon/cmd/combine"
	"github.com/obolnetwork/charon/eth2util"
	"github.com/obolnetwork/charon/eth2util/deposit"
	"github.com/obolnetwork/charon/eth2util/enr"
	"github.com/obolnetwork/charon/eth2util/keystore"
	"github.com/obolnetwork/charon/eth2util/registration"
	"github.com/obolnetwork/charon/tbls"
	"github.com/obolnetwork/charon/tbls/tblsconv"

	"verifharness/hx"
)

var versions = []string{"v1.0.0", "v1.1.0", "v1.2.0", "v1.3.0", "v1.4.0", "v1.5.0", "v1.6.0", "v1.7.0", "v1.8.0", "v1.9.0", "v1.10.0", "v1.11.0"}

func minor(v string) int {
	n, _ := strconv.Atoi(strings.Split(v, ".")[1])
	return n
}

// ---------------------------------------------------------------------------------------------
// struct value dump:  {Field=v;..}  [v,v]  x<hex> (bytes, strings)  i<int>  t/f

var timeType = reflect.TypeOf(time.Time{})

func emitVal(v reflect.Value, sb *strings.Builder) {
	if v.Type() == timeType {
		fmt.Fprintf(sb, "i%d", v.Interface().(time.Time).Unix())
		return
	}
	switch v.Kind() {
	case reflect.Struct:
		sb.WriteByte('{')
		for i := 0; i < v.NumField(); i++ {
			if i > 0 {
				sb.WriteByte(';')
			}
			sb.WriteString(v.Type().Field(i).Name)
			sb.WriteByte('=')
			emitVal(v.Field(i), sb)
		}
		sb.WriteByte('}')
	case reflect.Slice:
		if v.Type().Elem().Kind() == reflect.Uint8 {
			sb.WriteByte('x')
			sb.WriteString(hex.EncodeToString(v.Bytes()))
			return
		}
		sb.WriteByte('[')
		for i := 0; i < v.Len(); i++ {
			if i > 0 {
				sb.WriteByte(',')
			}
			emitVal(v.Index(i), sb)
		}
		sb.WriteByte(']')
	case reflect.String:
		sb.WriteByte('x')
		sb.WriteString(hex.EncodeToString([]byte(v.String())))
	case reflect.Int, reflect.Int64, reflect.Int32:
		fmt.Fprintf(sb, "i%d", v.Int())
	case reflect.Uint, reflect.Uint64, reflect.Uint32:
		fmt.Fprintf(sb, "i%d", v.Uint())
	case reflect.Bool:
		if v.Bool() {
			sb.WriteByte('t')
		} else {
			sb.WriteByte('f')
		}
	default:
		panic("emitVal: kind " + v.Kind().String())
	}
}

func dump(x any) string {
	var sb strings.Builder
	emitVal(reflect.ValueOf(x), &sb)
	return sb.String()
}

type vparser struct {
	s string
	i int
}

func (p *vparser) parse(v reflect.Value) error {
	if p.i >= len(p.s) {
		return fmt.Errorf("eof")
	}
	c := p.s[p.i]
	switch c {
	case '{':
		p.i++
		if v.Kind() != reflect.Struct || v.Type() == timeType {
			return fmt.Errorf("struct into %s", v.Type())
		}
		for p.i < len(p.s) && p.s[p.i] != '}' {
			j := strings.IndexByte(p.s[p.i:], '=')
			if j < 0 {
				return fmt.Errorf("no =")
			}
			name := p.s[p.i : p.i+j]
			p.i += j + 1
			f := v.FieldByName(name)
			if !f.IsValid() {
				return fmt.Errorf("no field %s", name)
			}
			if err := p.parse(f); err != nil {
				return err
			}
			if p.i < len(p.s) && p.s[p.i] == ';' {
				p.i++
			}
		}
		p.i++
		return nil
	case '[':
		p.i++
		if v.Kind() != reflect.Slice {
			return fmt.Errorf("list into %s", v.Type())
		}
		out := reflect.MakeSlice(v.Type(), 0, 4)
		for p.i < len(p.s) && p.s[p.i] != ']' {
			el := reflect.New(v.Type().Elem()).Elem()
			if err := p.parse(el); err != nil {
				return err
			}
			out = reflect.Append(out, el)
			if p.i < len(p.s) && p.s[p.i] == ',' {
				p.i++
			}
		}
		p.i++
		v.Set(out)
		return nil
	case 'x':
		j := p.i + 1
		for j < len(p.s) && strings.IndexByte("0123456789abcdef", p.s[j]) >= 0 {
			j++
		}
		b, err := hex.DecodeString(p.s[p.i+1 : j])
		if err != nil {
			return err
		}
		p.i = j
		if v.Kind() == reflect.String {
			v.SetString(string(b))
		} else if v.Kind() == reflect.Slice && v.Type().Elem().Kind() == reflect.Uint8 {
			v.SetBytes(b)
		} else {
			return fmt.Errorf("bytes into %s", v.Type())
		}
		return nil
	case 'i':
		j := p.i + 1
		for j < len(p.s) && (p.s[j] == '-' || (p.s[j] >= '0' && p.s[j] <= '9')) {
			j++
		}
		txt := p.s[p.i+1 : j]
		p.i = j
		if v.Type() == timeType {
			n, err := strconv.ParseInt(txt, 10, 64)
			if err != nil {
				return err
			}
			v.Set(reflect.ValueOf(time.Unix(n, 0)))
			return nil
		}
		switch v.Kind() {
		case reflect.Int, reflect.Int64, reflect.Int32:
			n, err := strconv.ParseInt(txt, 10, 64)
			if err != nil {
				return err
			}
			v.SetInt(n)
		case reflect.Uint, reflect.Uint64, reflect.Uint32:
			n, err := strconv.ParseUint(txt, 10, 64)
			if err != nil {
				return err
			}
			v.SetUint(n)
		default:
			return fmt.Errorf("int into %s", v.Type())
		}
		return nil
	case 't', 'f':
		p.i++
		if v.Kind() != reflect.Bool {
			return fmt.Errorf("bool into %s", v.Type())
		}
		v.SetBool(c == 't')
		return nil
	}
	return fmt.Errorf("unexpected %q", c)
}

// ---------------------------------------------------------------------------------------------
// driver state

type drv struct {
	run  *hx.Run
	rng  *hx.Rng
	dir  string
	tier string

	// episode
	docVer  string
	docKind string
	doc     []byte
}

type rngReader struct{ r *hx.Rng }

func (r rngReader) Read(p []byte) (int, error) {
	for i := range p {
		p[i] = byte(r.r.U64())
	}
	return len(p), nil
}

func (d *drv) bytes(n int) []byte {
	b := make([]byte, n)
	_, _ = rngReader{d.rng}.Read(b)
	return b
}

// ---------------------------------------------------------------------------------------------
// hash ops

func hashOf(ver, kind, val string) (out string) {
	defer func() {
		if r := recover(); r != nil {
			out = "panic"
		}
	}()
	var root [32]byte
	var err error
	switch kind {
	case "cfg", "def":
		var def cluster.Definition
		p := &vparser{s: val}
		if e := p.parse(reflect.ValueOf(&def).Elem()); e != nil {
			return "bad-op"
		}
		root, err = cluster.VerifHashDefinition(def, kind == "cfg")
	case "lock":
		var l cluster.Lock
		p := &vparser{s: val}
		if e := p.parse(reflect.ValueOf(&l).Elem()); e != nil {
			return "bad-op"
		}
		root, err = cluster.VerifHashLock(l)
	default:
		return "bad-op"
	}
	_ = ver
	if err != nil {
		return "err"
	}
	return "ok " + hex.EncodeToString(root[:])
}

func (d *drv) opHash(ver, kind string, x any) {
	val := dump(x)
	out := hashOf(ver, kind, val)
	d.run.Count("hash:" + kind + ":" + strings.Fields(out)[0])
	d.run.Op("hash "+ver+" "+kind+" "+val, out)
}

func (d *drv) hashLockOps(l cluster.Lock, tag string) {
	d.run.Case("hash:" + l.Version + ":" + tag)
	d.opHash(l.Version, "cfg", l.Definition)
	d.opHash(l.Version, "def", l.Definition)
	d.opHash(l.Version, "lock", l)
}

// ---------------------------------------------------------------------------------------------
// generation of valid definitions / locks

type genParams struct {
	version     string
	n, t, nv    int
	network     string
	amounts     []int // ETH
	compounding bool
	zeroTailFee bool
}

type genKeys struct {
	p2p    []*k1.PrivateKey
	roots  []tbls.PrivateKey
	shares [][]tbls.PrivateKey // [validator][node]
}

func (d *drv) ethAddr(zeroTail bool) string {
	b := d.bytes(20)
	if b[0] == 0 {
		b[0] = 1
	}
	if zeroTail {
		b[19] = 0
	} else if b[19] == 0 {
		b[19] = 1
	}
	a, err := eth2util.ChecksumAddress("0x" + hex.EncodeToString(b))
	hx.Must(err)
	return a
}

func (d *drv) genLock(p genParams) (cluster.Lock, genKeys) {
	var keys genKeys
	mv := minor(p.version)
	rd := rngReader{d.rng}
	var ops []cluster.Operator
	for i := 0; i < p.n; i++ {
		var key *k1.PrivateKey
		for {
			kb := d.bytes(32)
			key = k1.PrivKeyFromBytes(kb)
			if !key.Key.IsZero() {
				break
			}
		}
		rec, err := enr.New(key)
		hx.Must(err)
		keys.p2p = append(keys.p2p, key)
		ops = append(ops, cluster.Operator{Address: eth2util.PublicKeyToAddress(key.PubKey()), ENR: rec.String(),
			ConfigSignature: []byte{}, ENRSignature: []byte{}})
	}
	var feeAddrs, wAddrs []string
	legacyAddrs := mv < 5
	for i := 0; i < p.nv; i++ {
		if legacyAddrs && i > 0 {
			feeAddrs = append(feeAddrs, feeAddrs[0])
			wAddrs = append(wAddrs, wAddrs[0])
			continue
		}
		feeAddrs = append(feeAddrs, d.ethAddr(p.zeroTailFee && i == 0))
		wAddrs = append(wAddrs, d.ethAddr(false))
	}
	forkHex, err := eth2util.NetworkToForkVersion(p.network)
	hx.Must(err)
	var amounts []int
	if mv >= 8 {
		amounts = p.amounts
	}
	gas := uint(0)
	if mv >= 10 {
		gas = 30000000 + uint(d.rng.Intn(3))*6000000
	}
	proto := ""
	if mv >= 9 && d.rng.Chance(1, 2) {
		proto = "qbft"
	}
	compounding := p.compounding && mv >= 10
	creator := cluster.Creator{}
	if mv >= 4 {
		creator.Address = ops[0].Address
	}
	opts := []func(*cluster.Definition){cluster.WithVersion(p.version), func(df *cluster.Definition) {
		df.Timestamp = time.Unix(1600000000+int64(d.rng.Intn(100000000)), 0).UTC().Format(time.RFC3339)
	}}
	def, err := cluster.NewDefinition(fmt.Sprintf("cluster %d", d.rng.Intn(1000)), p.nv, p.t, feeAddrs, wAddrs, forkHex,
		creator, ops, amounts, proto, gas, compounding, rd, opts...)
	hx.Must(err)
	if cluster.VerifSupportEIP712Sigs(p.version) {
		for i := range def.Operators {
			def.Operators[i], err = cluster.VerifSignOperator(keys.p2p[i], def, def.Operators[i])
			hx.Must(err)
		}
		if mv >= 4 {
			def, err = cluster.VerifSignCreator(keys.p2p[0], def)
			hx.Must(err)
		}
		def, err = def.SetDefinitionHashes()
		hx.Must(err)
	}

	gweis := deposit.EthsToGweis(p.amounts)
	if len(gweis) == 0 || mv < 8 {
		gweis = deposit.DefaultDepositAmounts(compounding)[:1]
	}
	forkBytes, err := eth2util.NetworkToForkVersionBytes(p.network)
	hx.Must(err)
	var vals []cluster.DistValidator
	for i := 0; i < p.nv; i++ {
		root, err := tbls.GenerateInsecureKey(new(testing.T), rd)
		hx.Must(err)
		pub, err := tbls.SecretToPublicKey(root)
		hx.Must(err)
		sh, err := tbls.ThresholdSplitInsecure(new(testing.T), root, uint(p.n), uint(p.t), rd)
		hx.Must(err)
		var pubshares [][]byte
		var priv []tbls.PrivateKey
		for j := 1; j <= p.n; j++ {
			ps, err := tbls.SecretToPublicKey(sh[j])
			hx.Must(err)
			pubshares = append(pubshares, append([]byte(nil), ps[:]...))
			priv = append(priv, sh[j])
		}
		keys.roots = append(keys.roots, root)
		keys.shares = append(keys.shares, priv)
		dv := cluster.DistValidator{PubKey: append([]byte(nil), pub[:]...), PubShares: pubshares}
		if mv >= 6 {
			for k, amt := range gweis {
				if mv < 8 && k > 0 {
					break
				}
				msg, err := deposit.NewMessage(eth2p0.BLSPubKey(pub), wAddrs[i], amt, compounding)
				hx.Must(err)
				sr, err := deposit.GetMessageSigningRoot(msg, p.network)
				hx.Must(err)
				sig, err := tbls.Sign(root, sr[:])
				hx.Must(err)
				dv.PartialDepositData = append(dv.PartialDepositData, cluster.DepositData{PubKey: append([]byte(nil), pub[:]...),
					WithdrawalCredentials: msg.WithdrawalCredentials, Amount: int(amt), Signature: append([]byte(nil), sig[:]...)})
			}
		}
		if mv >= 7 {
			ts, err := eth2util.ForkVersionToGenesisTime(forkBytes)
			hx.Must(err)
			gl := uint64(gas)
			if gl == 0 {
				gl = registration.DefaultGasLimit
			}
			msg, err := registration.NewMessage(eth2p0.BLSPubKey(pub), feeAddrs[i], gl, ts)
			hx.Must(err)
			sr, err := registration.GetMessageSigningRoot(msg, eth2p0.Version(forkBytes))
			hx.Must(err)
			sig, err := tbls.Sign(root, sr[:])
			hx.Must(err)
			dv.BuilderRegistration = cluster.BuilderRegistration{
				Message: cluster.Registration{FeeRecipient: append([]byte(nil), msg.FeeRecipient[:]...), GasLimit: int(msg.GasLimit),
					Timestamp: msg.Timestamp, PubKey: append([]byte(nil), msg.Pubkey[:]...)},
				Signature: append([]byte(nil), sig[:]...),
			}
		}
		vals = append(vals, dv)
	}
	lock := signLock(cluster.Lock{Definition: def, Validators: vals}, keys)
	return lock, keys
}

// signLock sets the lock hash, the aggregate signature of all key shares and the node signatures.
func signLock(lock cluster.Lock, keys genKeys) cluster.Lock {
	lock, err := lock.SetLockHash()
	hx.Must(err)
	var sigs []tbls.Signature
	for _, shs := range keys.shares {
		for _, s := range shs {
			sig, err := tbls.Sign(s, lock.LockHash)
			hx.Must(err)
			sigs = append(sigs, sig)
		}
	}
	agg, err := tbls.Aggregate(sigs)
	hx.Must(err)
	lock.SignatureAggregate = append([]byte(nil), agg[:]...)
	lock.NodeSignatures = nil
	if minor(lock.Version) >= 7 {
		for _, k := range keys.p2p {
			ns, err := k1util.Sign(k, lock.LockHash)
			hx.Must(err)
			lock.NodeSignatures = append(lock.NodeSignatures, ns)
		}
	}
	return lock
}

// forged locks: hashes and every signature are right, but the artifacts are mutually inconsistent.
// forge returns "" if the case does not apply.
func (d *drv) forge(what string, lock cluster.Lock, keys genKeys) (cluster.Lock, bool) {
	var l cluster.Lock
	p := &vparser{s: dump(lock)}
	hx.Must(p.parse(reflect.ValueOf(&l).Elem()))
	ks := genKeys{p2p: keys.p2p, roots: append([]tbls.PrivateKey(nil), keys.roots...)}
	for _, sh := range keys.shares {
		ks.shares = append(ks.shares, append([]tbls.PrivateKey(nil), sh...))
	}
	n := len(l.Operators)
	rd := rngReader{d.rng}
	fresh := func() (tbls.PrivateKey, []byte) {
		k, err := tbls.GenerateInsecureKey(new(testing.T), rd)
		hx.Must(err)
		pk, err := tbls.SecretToPublicKey(k)
		hx.Must(err)
		return k, append([]byte(nil), pk[:]...)
	}
	switch what {
	case "extra-share-off-polynomial": // the last node's share of validator 0 is an unrelated key
		if l.Threshold >= n {
			return l, false
		}
		k, pk := fresh()
		ks.shares[0][n-1] = k
		l.Validators[0].PubShares[n-1] = pk
	case "first-share-off-polynomial": // node 0's share of validator 0 is an unrelated key
		k, pk := fresh()
		ks.shares[0][0] = k
		l.Validators[0].PubShares[0] = pk
	case "shares-of-other-validator": // validator 0 lists the shares of validator 1
		if len(l.Validators) < 2 {
			return l, false
		}
		l.Validators[0].PubShares, l.Validators[1].PubShares = l.Validators[1].PubShares, l.Validators[0].PubShares
		ks.shares[0], ks.shares[1] = ks.shares[1], ks.shares[0]
	case "duplicate-share": // two nodes hold the same share
		ks.shares[0][1] = ks.shares[0][0]
		l.Validators[0].PubShares[1] = l.Validators[0].PubShares[0]
	case "duplicate-validator-key":
		if len(l.Validators) < 2 {
			return l, false
		}
		l.Validators[1] = l.Validators[0]
		ks.shares[1] = ks.shares[0]
	case "registration-of-other-key": // builder registration signed by an unrelated key
		if minor(l.Version) < 7 {
			return l, false
		}
		k, _ := fresh()
		reg := l.Validators[0].BuilderRegistration
		msg, err := registration.NewMessage(eth2p0.BLSPubKey(l.Validators[0].PubKey), l.ValidatorAddresses[0].FeeRecipientAddress, uint64(reg.Message.GasLimit), reg.Message.Timestamp)
		hx.Must(err)
		sr, err := registration.GetMessageSigningRoot(msg, eth2p0.Version(l.ForkVersion))
		hx.Must(err)
		sig, err := tbls.Sign(k, sr[:])
		hx.Must(err)
		l.Validators[0].BuilderRegistration.Signature = append([]byte(nil), sig[:]...)
	case "node-signature-of-other-key":
		if minor(l.Version) < 7 {
			return l, false
		}
		l = signLock(l, ks)
		other := k1.PrivKeyFromBytes(d.bytes(32))
		ns, err := k1util.Sign(other, l.LockHash)
		hx.Must(err)
		l.NodeSignatures[n-1] = ns
		return l, true
	case "aggregate-misses-a-share": // one share did not sign
		l, err := l.SetLockHash()
		hx.Must(err)
		full := signLock(l, ks)
		var sigs []tbls.Signature
		for vi, shs := range ks.shares {
			for si, s := range shs {
				if vi == 0 && si == 0 {
					continue
				}
				sig, err := tbls.Sign(s, l.LockHash)
				hx.Must(err)
				sigs = append(sigs, sig)
			}
		}
		agg, err := tbls.Aggregate(sigs)
		hx.Must(err)
		full.SignatureAggregate = append([]byte(nil), agg[:]...)
		return full, true
	case "threshold-above-nodes":
		l.Threshold = n + 1
		if cluster.VerifSupportEIP712Sigs(l.Version) {
			return l, false // would need re-signing the definition; covered by the config hash
		}
		df, err := l.Definition.SetDefinitionHashes()
		hx.Must(err)
		l.Definition = df
	default:
		panic("forge " + what)
	}
	return signLock(l, ks), true
}

var forgeKinds = []string{"extra-share-off-polynomial", "first-share-off-polynomial", "shares-of-other-validator",
	"duplicate-share", "duplicate-validator-key", "registration-of-other-key", "node-signature-of-other-key",
	"aggregate-misses-a-share", "threshold-above-nodes"}

// opForged: a consistently hashed and signed but inconsistent lock must be rejected.
func (d *drv) opForged(what string, l cluster.Lock) {
	b, err := json.Marshal(l)
	hx.Must(err)
	d.execForged(what, l.Version, b)
}

func (d *drv) execForged(what, ver string, b []byte) {
	line := "forged " + what + " " + ver + " " + hex.EncodeToString(b)
	dd, err := decodeDoc("lock", b)
	switch {
	case err != nil:
		d.run.Count("forged:decode-error")
	default:
		r := dd.verify()
		if r == "" {
			d.run.Violate("cluster:inconsistent_lock_accepted:"+what, fmt.Sprintf("%s lock with consistent hashes and signatures but %s passes VerifyHashes and VerifySignatures", ver, what))
		}
		d.run.Count("forged:" + what + ":rejected-" + r)
	}
	d.run.Case("forged:" + ver + ":" + what)
	d.run.Op(line, "-")
}

func (d *drv) randParams(ver string, i int) genParams {
	n := 3 + d.rng.Intn(8) // 3..10
	if d.tier == "quick" && n > 6 {
		n = 3 + d.rng.Intn(4)
	}
	t := cluster.Threshold(n)
	if d.rng.Chance(1, 3) {
		t = 2 + d.rng.Intn(n-1) // 2..n
	}
	nets := []string{"goerli", "sepolia", "hoodi", "mainnet", "gnosis", "chiado"}
	amountSets := [][]int{nil, {32}, {16, 16}, {8, 8, 16}, {1, 31}}
	p := genParams{version: ver, n: n, t: t, nv: 1 + d.rng.Intn(3), network: nets[d.rng.Intn(len(nets))],
		amounts: amountSets[d.rng.Intn(len(amountSets))], zeroTailFee: i%3 == 1}
	if minor(ver) >= 10 && d.rng.Chance(1, 4) {
		p.compounding = true
		p.amounts = [][]int{nil, {32}, {1, 31}, {32, 100}}[d.rng.Intn(4)]
	}
	return p
}

// ---------------------------------------------------------------------------------------------
// JSON walking and alterations

type leafRef struct {
	path    []any  // string keys / int indices
	generic string // a.b[].c
	val     any
	isList  bool
}

func decodeAny(b []byte) any {
	dec := json.NewDecoder(bytes.NewReader(b))
	dec.UseNumber()
	var v any
	hx.Must(dec.Decode(&v))
	return v
}

func walkJSON(v any, path []any, generic string, out *[]leafRef) {
	switch x := v.(type) {
	case map[string]any:
		keys := make([]string, 0, len(x))
		for k := range x {
			keys = append(keys, k)
		}
		sort.Strings(keys)
		for _, k := range keys {
			g := k
			if generic != "" {
				g = generic + "." + k
			}
			walkJSON(x[k], append(append([]any(nil), path...), k), g, out)
		}
	case []any:
		*out = append(*out, leafRef{path: path, generic: generic, val: x, isList: true})
		for i, e := range x {
			walkJSON(e, append(append([]any(nil), path...), i), generic+"[]", out)
		}
	default:
		*out = append(*out, leafRef{path: path, generic: generic, val: x})
	}
}

func pathStr(p []any) string {
	var parts []string
	for _, s := range p {
		parts = append(parts, fmt.Sprint(s))
	}
	return strings.Join(parts, "/")
}

func deepCopy(v any) any {
	switch x := v.(type) {
	case map[string]any:
		m := make(map[string]any, len(x))
		for k, e := range x {
			m[k] = deepCopy(e)
		}
		return m
	case []any:
		l := make([]any, len(x))
		for i, e := range x {
			l[i] = deepCopy(e)
		}
		return l
	}
	return v
}

var deleted = &struct{}{}

// setAt returns root with the value at path replaced (or the key deleted).
func setAt(root any, path []any, nv any) any {
	if len(path) == 0 {
		return nv
	}
	switch k := path[0].(type) {
	case string:
		m := root.(map[string]any)
		if len(path) == 1 && nv == any(deleted) {
			delete(m, k)
			return m
		}
		m[k] = setAt(m[k], path[1:], nv)
		return m
	case int:
		l := root.([]any)
		l[k] = setAt(l[k], path[1:], nv)
		return l
	}
	panic("path")
}

func isHexStr(s string) bool {
	if !strings.HasPrefix(s, "0x") || len(s)%2 != 0 {
		return false
	}
	_, err := hex.DecodeString(s[2:])
	return err == nil
}

func isDigits(s string) bool {
	if s == "" {
		return false
	}
	for _, c := range s {
		if c < '0' || c > '9' {
			return false
		}
	}
	return true
}

// altsFor lists the alteration names applicable to a leaf.
func altsFor(l leafRef) []string {
	if l.isList {
		arr := l.val.([]any)
		var a []string
		if len(arr) >= 2 && !reflect.DeepEqual(arr[0], arr[1]) {
			a = append(a, "swap01")
		}
		if len(arr) >= 1 {
			a = append(a, "droplast", "duplast")
		}
		return append(a, "emptylist", "delete")
	}
	a := []string{}
	switch v := l.val.(type) {
	case string:
		switch {
		case isHexStr(v):
			if len(v) >= 4 {
				a = append(a, "flipnib", "fliplast", "flipfirst", "dropbyte")
				if strings.HasPrefix(v, "0x00") {
					a = append(a, "stripzero")
				}
				if strings.ContainsAny(v[2:], "abcdefABCDEF") {
					a = append(a, "hexcase")
				}
				a = append(a, "no0x")
			}
			a = append(a, "addbyte", "empty")
		case isDigits(v):
			a = append(a, "incr", "empty")
		default:
			if v != "" {
				a = append(a, "flipchar", "empty")
			}
			a = append(a, "appendchar", "appendnul")
		}
	case json.Number:
		a = append(a, "incr")
		if v.String() != "0" {
			a = append(a, "zero")
		}
	case bool:
		a = append(a, "toggle")
	case nil:
	}
	if len(l.path) > 0 {
		if _, isKey := l.path[len(l.path)-1].(string); isKey {
			a = append(a, "delete")
		}
	}
	return a
}

func applyAlt(l leafRef, alt string) (any, bool) {
	if alt == "delete" {
		return deleted, true
	}
	if l.isList {
		arr := deepCopy(l.val).([]any)
		switch alt {
		case "swap01":
			arr[0], arr[1] = arr[1], arr[0]
		case "droplast":
			arr = arr[:len(arr)-1]
		case "duplast":
			arr = append(arr, deepCopy(arr[len(arr)-1]))
		case "emptylist":
			arr = []any{}
		default:
			return nil, false
		}
		return arr, true
	}
	switch v := l.val.(type) {
	case string:
		switch alt {
		case "flipnib":
			pos := 2 + (len(v)-2)/2
			digits := "0123456789abcdef"
			c := strings.IndexByte(digits, strings.ToLower(v)[pos])
			return v[:pos] + string(digits[(c+1)%16]) + v[pos+1:], true
		case "fliplast", "flipfirst":
			// the last / first hex digit (e.g. the recovery id of a 65-byte signature, the top bits of a key)
			pos := len(v) - 1
			if alt == "flipfirst" {
				pos = 2
			}
			digits := "0123456789abcdef"
			c := strings.IndexByte(digits, strings.ToLower(v)[pos])
			return v[:pos] + string(digits[(c+1)%16]) + v[pos+1:], true
		case "dropbyte":
			return v[:len(v)-2], true
		case "addbyte":
			if v == "" {
				return "0x00", true
			}
			return v + "00", true
		case "stripzero":
			return "0x" + v[4:], true
		case "hexcase":
			b := []byte(v)
			for i := 2; i < len(b); i++ {
				if b[i] >= 'a' && b[i] <= 'f' {
					b[i] -= 32
					break
				}
				if b[i] >= 'A' && b[i] <= 'F' {
					b[i] += 32
					break
				}
			}
			return string(b), true
		case "no0x":
			return v[2:], true
		case "empty":
			return "", true
		case "incr":
			n, _ := new(big.Int).SetString(v, 10)
			return n.Add(n, big.NewInt(1)).String(), true
		case "flipchar":
			pos := len(v) / 2
			c := byte('A')
			if v[pos] == 'A' {
				c = 'B'
			}
			return v[:pos] + string(c) + v[pos+1:], true
		case "appendchar":
			return v + "x", true
		case "appendnul":
			return v + "\x00", true
		}
	case json.Number:
		switch alt {
		case "incr":
			n, _ := new(big.Int).SetString(v.String(), 10)
			return json.Number(n.Add(n, big.NewInt(1)).String()), true
		case "zero":
			return json.Number("0"), true
		}
	case bool:
		if alt == "toggle" {
			return !v, true
		}
	}
	return nil, false
}

// ---------------------------------------------------------------------------------------------
// verification of a decoded file

type decoded struct {
	lock *cluster.Lock
	def  *cluster.Definition
}

func decodeDoc(kind string, b []byte) (dd decoded, err error) {
	defer func() {
		if r := recover(); r != nil {
			err = fmt.Errorf("panic: %v", r)
		}
	}()
	if kind == "lock" {
		var l cluster.Lock
		if e := json.Unmarshal(b, &l); e != nil {
			return dd, e
		}
		dd.lock = &l
	} else {
		var df cluster.Definition
		if e := json.Unmarshal(b, &df); e != nil {
			return dd, e
		}
		dd.def = &df
	}
	return dd, nil
}

func (dd decoded) dump() string {
	if dd.lock != nil {
		return dump(*dd.lock)
	}
	return dump(*dd.def)
}

// verify returns "" when both VerifyHashes and VerifySignatures accept.
func (dd decoded) verify() (res string) {
	defer func() {
		if r := recover(); r != nil {
			res = "panic"
		}
	}()
	if dd.lock != nil {
		if err := dd.lock.VerifyHashes(); err != nil {
			return "hash"
		}
		if err := dd.lock.VerifySignatures(nil); err != nil {
			return "sig"
		}
		return ""
	}
	if err := dd.def.VerifyHashes(); err != nil {
		return "hash"
	}
	if err := dd.def.VerifySignatures(nil); err != nil {
		return "sig"
	}
	return ""
}

func (d *drv) opDoc(ver, kind string, doc []byte) {
	d.docVer, d.docKind, d.doc = ver, kind, doc
	dd, err := decodeDoc(kind, doc)
	if err != nil {
		d.run.Violate("cluster:valid_file_rejected:"+ver, fmt.Sprintf("%s file does not decode: %v", kind, err))
	} else if r := dd.verify(); r != "" {
		d.run.Violate("cluster:valid_file_rejected:"+ver, fmt.Sprintf("generated valid %s file fails %s verification", kind, r))
	}
	d.run.Count("doc:" + kind)
	d.run.Op("doc "+ver+" "+kind+" "+hex.EncodeToString(doc), "-")
}

func (d *drv) opLeaves() {
	var ls []leafRef
	walkJSON(decodeAny(d.doc), nil, "", &ls)
	set := map[string]bool{}
	for _, l := range ls {
		if !l.isList {
			set[l.generic] = true
		}
	}
	var ps []string
	for p := range set {
		ps = append(ps, p)
	}
	sort.Strings(ps)
	d.run.Op("leaves "+d.docVer+" "+d.docKind+" "+strings.Join(ps, ","), "ok")
}

func (d *drv) opReenc() {
	ver := d.docVer
	bad := func(msg string) {
		d.run.Violate("cluster:reencode_changes_hash:"+ver, d.docKind+" file: "+msg)
	}
	d1, err := decodeDoc(d.docKind, d.doc)
	if err != nil {
		bad("does not decode")
	} else {
		var b2 []byte
		if d1.lock != nil {
			b2, err = json.Marshal(*d1.lock)
		} else {
			b2, err = json.Marshal(*d1.def)
		}
		if err != nil {
			bad("does not re-encode: " + err.Error())
		} else {
			d2, err := decodeDoc(d.docKind, b2)
			if err != nil {
				bad("re-encoded file does not decode")
			} else {
				h := func(x decoded) string {
					df := x.def
					s := ""
					if x.lock != nil {
						df = &x.lock.Definition
						lh, e := cluster.VerifHashLock(*x.lock)
						s = fmt.Sprintf("%x/%v/%x|", lh, e, x.lock.LockHash)
					}
					ch, e1 := cluster.VerifHashDefinition(*df, true)
					dh, e2 := cluster.VerifHashDefinition(*df, false)
					return s + fmt.Sprintf("%x/%v/%x|%x/%v/%x", ch, e1, df.ConfigHash, dh, e2, df.DefinitionHash)
				}
				if h(d1) != h(d2) {
					bad("hashes before " + h(d1) + " after " + h(d2))
				}
				if d1.dump() != d2.dump() {
					bad("decoded contents differ after re-encoding")
				}
				// the canonical encoding is a fixed point
				if !bytes.Equal(compactJSON(d.doc), compactJSON(b2)) {
					bad("re-encoded bytes differ from the file")
				}
			}
		}
	}
	d.run.Count("reenc")
	d.run.Op("reenc", "-")
}

func compactJSON(b []byte) []byte {
	var out bytes.Buffer
	if err := json.Compact(&out, b); err != nil {
		return b
	}
	return out.Bytes()
}

// explicit exceptions: (version, field, alteration result) accepted by design.
func allowedException(ver, generic string, after decoded) string {
	if (ver == "v1.0.0" || ver == "v1.1.0") && generic == "signature_aggregate" && after.lock != nil && len(after.lock.SignatureAggregate) == 0 {
		return "v1.0/v1.1 locks without aggregate signature are accepted by design (Lock.VerifySignatures)"
	}
	return ""
}

func trimZerosLeft(b []byte) []byte {
	for len(b) > 0 && b[0] == 0 {
		b = b[1:]
	}
	return b
}

func trimZerosRight(b []byte) []byte {
	for len(b) > 0 && b[len(b)-1] == 0 {
		b = b[:len(b)-1]
	}
	return b
}

// classify the way an accepted alteration changed the leaf.
func padClass(before, after any) string {
	bs, ok1 := before.(string)
	as, ok2 := after.(string)
	if after == any(deleted) {
		as, ok2 = "", true
	}
	if !ok1 || !ok2 {
		return ""
	}
	if isHexStr(bs) && (as == "" || isHexStr(as)) {
		bb, _ := hex.DecodeString(bs[2:])
		var ab []byte
		if as != "" {
			ab, _ = hex.DecodeString(as[2:])
		}
		if len(ab) < len(bb) && bytes.Equal(trimZerosLeft(bb), trimZerosLeft(ab)) && bytes.HasSuffix(bb, ab) {
			return "left"
		}
		if len(ab) != len(bb) && bytes.Equal(trimZerosRight(bb), trimZerosRight(ab)) {
			return "right"
		}
		return ""
	}
	if bytes.Equal(trimZerosRight([]byte(bs)), trimZerosRight([]byte(as))) {
		return "right"
	}
	return ""
}

func (d *drv) findLeaf(path string) (leafRef, bool) {
	var ls []leafRef
	walkJSON(decodeAny(d.doc), nil, "", &ls)
	for _, l := range ls {
		if pathStr(l.path) == path {
			return l, true
		}
	}
	return leafRef{}, false
}

// opTamper executes one alteration; returns the decoded altered file if it decoded.
func (d *drv) opTamper(l leafRef, alt string, orig decoded, origDump string) *decoded {
	line := "tamper " + pathStr(l.path) + " " + alt
	nv, ok := applyAlt(l, alt)
	if !ok {
		d.run.Op(line, "-")
		return nil
	}
	root := setAt(deepCopy(decodeAny(d.doc)), l.path, nv)
	b, err := json.Marshal(root)
	hx.Must(err)
	d.run.Count("tamper:alt:" + alt)
	var res *decoded
	dd, err := decodeDoc(d.docKind, b)
	switch {
	case err != nil:
		d.run.Count("tamper:decode-error")
	case dd.dump() == origDump:
		d.run.Count("tamper:same-contents:" + alt)
		res = &dd
	default:
		res = &dd
		r := dd.verify()
		switch {
		case r != "":
			d.run.Count("tamper:rejected:" + r)
		case alt == "hexcase" || alt == "no0x":
			// value-preserving re-spelling of a 0x-hex string held in a Go string field
			d.run.Count("tamper:accepted-respelling:" + alt)
			d.run.Case("respell:" + d.docVer + ":" + l.generic)
		case allowedException(d.docVer, l.generic, dd) != "":
			d.run.Count("tamper:accepted-by-design")
		default:
			descr := fmt.Sprintf("%s %s file: %s altered by %s (%v -> %v) still passes VerifyHashes and VerifySignatures",
				d.docVer, d.docKind, pathStr(l.path), alt, short(l.val), short(nv))
			switch padClass(l.val, nv) {
			case "left":
				d.run.Violate("cluster:short_fixed_field_accepted", descr+" [putBytesN left-pads shorter values]")
			case "right":
				switch {
				case minor(d.docVer) <= 2:
					d.run.Violate("cluster:legacy_raw_string_trailing_nul_accepted", descr+" [legacy v1.0-v1.2 hashing: raw PutBytes right-pads with zeros, no length mix-in]")
				case strings.HasSuffix(l.generic, "builder_registration.message.fee_recipient"):
					d.run.Violate("cluster:registration_fee_recipient_padding_accepted", descr+" [hashRegistration: raw PutBytes right-pads; the stored message is not compared with the verified one]")
				default:
					d.run.Violate("cluster:trailing_zero_raw_field_accepted", descr+" [raw PutBytes right-pads, no length mix-in]")
				}
			default:
				d.run.Violate("cluster:tampered_field_accepted:"+d.docVer+":"+l.generic, descr)
			}
		}
	}
	d.run.Case("tamper:" + d.docVer + ":" + d.docKind + ":" + l.generic + ":" + alt)
	d.run.Op(line, "-")
	return res
}

func short(v any) string {
	s := fmt.Sprint(v)
	if v == any(deleted) {
		s = "<deleted>"
	}
	if len(s) > 70 {
		s = s[:34] + ".." + s[len(s)-34:]
	}
	return strconv.Quote(s)
}

// tamperAll runs every alteration of every leaf (or a 1/keep sample of the leaves).
func (d *drv) tamperAll(keep int) {
	orig, err := decodeDoc(d.docKind, d.doc)
	if err != nil {
		return
	}
	origDump := orig.dump()
	var ls []leafRef
	walkJSON(decodeAny(d.doc), nil, "", &ls)
	seen := map[string]int{}
	for _, l := range ls {
		// the first two instances of a generic leaf always, others sampled
		seen[l.generic]++
		if seen[l.generic] > 2 && d.rng.Intn(keep) != 0 {
			continue
		}
		for _, alt := range altsFor(l) {
			dd := d.opTamper(l, alt, orig, origDump)
			if dd != nil && d.rng.Intn(12) == 0 {
				// the model recomputes the roots of the altered contents
				if dd.lock != nil {
					d.hashLockOps(*dd.lock, "tampered")
				} else {
					d.opHash(dd.def.Version, "cfg", *dd.def)
					d.opHash(dd.def.Version, "def", *dd.def)
				}
			}
		}
	}
}

// ---------------------------------------------------------------------------------------------
// struct-level mutants for the bit-exact comparison (odd sizes, error paths)

func (d *drv) mutants(l cluster.Lock, k int) {
	for i := 0; i < k; i++ {
		var m cluster.Lock
		p := &vparser{s: dump(l)}
		hx.Must(p.parse(reflect.ValueOf(&m).Elem()))
		what := d.mutate(&m)
		d.run.Count("mutant:" + what)
		d.hashLockOps(m, "mutant")
	}
}

func (d *drv) mutate(m *cluster.Lock) string {
	pickBytes := func() (*[]byte, string) {
		c := []struct {
			p *[]byte
			n string
		}{{&m.ForkVersion, "fork"}, {&m.ConfigHash, "confighash"}, {&m.Creator.ConfigSignature, "creatorsig"}}
		for i := range m.Operators {
			c = append(c, struct {
				p *[]byte
				n string
			}{&m.Operators[i].ConfigSignature, "opsig"}, struct {
				p *[]byte
				n string
			}{&m.Operators[i].ENRSignature, "enrsig"})
		}
		for i := range m.Validators {
			v := &m.Validators[i]
			c = append(c, struct {
				p *[]byte
				n string
			}{&v.PubKey, "pubkey"}, struct {
				p *[]byte
				n string
			}{&v.BuilderRegistration.Signature, "regsig"}, struct {
				p *[]byte
				n string
			}{&v.BuilderRegistration.Message.FeeRecipient, "regfee"}, struct {
				p *[]byte
				n string
			}{&v.BuilderRegistration.Message.PubKey, "regpub"})
			for j := range v.PubShares {
				c = append(c, struct {
					p *[]byte
					n string
				}{&v.PubShares[j], "pubshare"})
			}
			for j := range v.PartialDepositData {
				c = append(c, struct {
					p *[]byte
					n string
				}{&v.PartialDepositData[j].Signature, "ddsig"}, struct {
					p *[]byte
					n string
				}{&v.PartialDepositData[j].WithdrawalCredentials, "ddwc"})
			}
		}
		x := c[d.rng.Intn(len(c))]
		return x.p, x.n
	}
	switch d.rng.Intn(14) {
	case 0, 1, 2: // resize a byte field
		p, n := pickBytes()
		switch d.rng.Intn(6) {
		case 0:
			*p = nil
		case 1:
			if len(*p) > 0 {
				*p = (*p)[1:]
			}
		case 2:
			*p = append([]byte{0}, *p...)
		case 3:
			*p = append(*p, 0)
		case 4:
			if len(*p) > 0 {
				*p = (*p)[:len(*p)-1]
			}
		case 5:
			*p = append(append([]byte(nil), *p...), *p...)
		}
		return "resize:" + n
	case 3: // leading / trailing zero content
		p, n := pickBytes()
		if len(*p) > 0 {
			if d.rng.Chance(1, 2) {
				(*p)[0] = 0
			} else {
				(*p)[len(*p)-1] = 0
			}
		}
		return "zeroend:" + n
	case 4: // string lengths around limits
		strs := []*string{&m.UUID, &m.Name, &m.Timestamp, &m.DKGAlgorithm, &m.ConsensusProtocol, &m.Version}
		lims := []int{64, 256, 32, 32, 256, 16}
		i := d.rng.Intn(len(strs))
		if i == 5 && d.rng.Chance(3, 4) {
			i = 1
		}
		ln := []int{0, 1, 31, 32, 33, lims[i] - 1, lims[i], lims[i] + 1}[d.rng.Intn(8)]
		*strs[i] = strings.Repeat("a", ln)
		return "strlen"
	case 5: // address spelling
		addrs := []*string{&m.Creator.Address}
		for i := range m.Operators {
			addrs = append(addrs, &m.Operators[i].Address)
		}
		for i := range m.ValidatorAddresses {
			addrs = append(addrs, &m.ValidatorAddresses[i].FeeRecipientAddress, &m.ValidatorAddresses[i].WithdrawalAddress)
		}
		a := addrs[d.rng.Intn(len(addrs))]
		switch d.rng.Intn(6) {
		case 0:
			*a = ""
		case 1:
			*a = strings.ToLower(*a)
		case 2:
			*a = strings.TrimPrefix(*a, "0x")
		case 3:
			*a = *a + "00"
		case 4:
			*a = "0xzz" + strings.TrimPrefix(*a, "0x")
		case 5:
			*a = "0x" + strings.ToUpper(strings.TrimPrefix(*a, "0x"))
		}
		return "addr"
	case 6: // numbers
		ns := []*int{&m.NumValidators, &m.Threshold}
		for i := range m.Validators {
			ns = append(ns, &m.Validators[i].BuilderRegistration.Message.GasLimit)
			for j := range m.Validators[i].PartialDepositData {
				ns = append(ns, &m.Validators[i].PartialDepositData[j].Amount)
			}
		}
		*ns[d.rng.Intn(len(ns))] = []int{0, -1, 1 << 40, -(1 << 62), 255, 256}[d.rng.Intn(6)]
		return "num"
	case 7: // list lengths
		switch d.rng.Intn(7) {
		case 0:
			m.Operators = nil
		case 1:
			m.Validators = nil
		case 2:
			m.ValidatorAddresses = append(m.ValidatorAddresses, cluster.ValidatorAddresses{FeeRecipientAddress: d.ethAddr(false), WithdrawalAddress: d.ethAddr(false)})
		case 3:
			m.DepositAmounts = append(m.DepositAmounts, eth2p0.Gwei(d.rng.U64()))
		case 4:
			if len(m.Validators) > 0 {
				m.Validators[0].PubShares = nil
			}
		case 5:
			if len(m.Validators) > 0 {
				m.Validators[0].PartialDepositData = nil
			}
		case 6:
			m.DepositAmounts = nil
		}
		return "listlen"
	case 8:
		m.Compounding = !m.Compounding
		m.TargetGasLimit = uint(d.rng.U64())
		return "flags"
	case 9: // multi-signature (v1.11 List[Bytes65,32])
		k := []int{0, 2, 3, 32, 33}[d.rng.Intn(5)]
		m.Creator.ConfigSignature = d.bytes(65 * k)
		if len(m.Operators) > 0 {
			m.Operators[0].ENRSignature = d.bytes(65 * (k % 4))
		}
		return "multisig"
	case 10: // time
		if len(m.Validators) > 0 {
			m.Validators[0].BuilderRegistration.Message.Timestamp = time.Unix(int64(d.rng.Intn(1<<31))-1000, 0)
		}
		return "time"
	case 11: // more list elements than the merkle limit: fastssz panics
		if len(m.Validators) > 0 && d.rng.Chance(1, 3) {
			v := &m.Validators[0]
			for len(v.PubShares) <= 256 {
				v.PubShares = append(v.PubShares, d.bytes(48))
			}
			return "overlimit"
		}
		m.Name = ""
		return "emptyname"
	case 12:
		m.Timestamp = ""
		return "emptyts"
	default:
		m.ConfigHash = d.bytes(32)
		return "confighash"
	}
}

// ---------------------------------------------------------------------------------------------
// create cluster

func subsets(n, k int, f func([]int)) {
	idx := make([]int, k)
	var rec func(start, depth int)
	rec = func(start, depth int) {
		if depth == k {
			f(append([]int(nil), idx...))
			return
		}
		for i := start; i <= n-(k-depth); i++ {
			idx[depth] = i
			rec(i+1, depth+1)
		}
	}
	rec(0, 0)
}

type createParams struct {
	n, t, v int
	net     string
	amounts []int
	comp    bool
	ver     string // "" = flags (current version), else through a definition file
	insec   bool
	spec    string // full "custom:..." network specification when net holds only its name
}

func (p createParams) line() string {
	var am []string
	for _, a := range p.amounts {
		am = append(am, strconv.Itoa(a))
	}
	net := p.net
	if p.spec != "" {
		net = p.spec
	}
	return fmt.Sprintf("create n=%d t=%d v=%d net=%s amounts=%s comp=%v ver=%s insecure=%v", p.n, p.t, p.v, net, strings.Join(am, "+"), p.comp, p.ver, p.insec)
}

func parseCreate(line string) (createParams, bool) {
	var p createParams
	for _, kv := range strings.Fields(line)[1:] {
		i := strings.IndexByte(kv, '=')
		if i < 0 {
			return p, false
		}
		k, v := kv[:i], kv[i+1:]
		switch k {
		case "n":
			p.n, _ = strconv.Atoi(v)
		case "t":
			p.t, _ = strconv.Atoi(v)
		case "v":
			p.v, _ = strconv.Atoi(v)
		case "net":
			p.net = v
		case "amounts":
			if v != "" {
				for _, a := range strings.Split(v, "+") {
					x, _ := strconv.Atoi(a)
					p.amounts = append(p.amounts, x)
				}
			}
		case "comp":
			p.comp = v == "true"
		case "ver":
			p.ver = v
		case "insecure":
			p.insec = v == "true"
		}
	}
	return p, p.n >= 3 && p.v >= 1
}

var createSeq int

func (d *drv) opCreate(p createParams) {
	createSeq++
	sig := func(what string) string { return "cluster:create_" + what }
	dir := filepath.Join(d.dir, fmt.Sprintf("create-%d", createSeq))
	_ = os.RemoveAll(dir)
	hx.Must(os.MkdirAll(dir, 0o755))
	defer os.RemoveAll(dir)
	d.run.Count("create")
	d.run.Case(fmt.Sprintf("create:n%d:t%d:v%d:%s:%v:%v:%s", p.n, p.t, p.v, p.net, p.amounts, p.comp, p.ver))

	var feeAddrs, wAddrs []string
	for i := 0; i < p.v; i++ {
		feeAddrs = append(feeAddrs, d.ethAddr(false))
		wAddrs = append(wAddrs, d.ethAddr(false))
	}
	args := []string{"create", "cluster", "--cluster-dir", dir}
	if p.insec {
		args = append(args, "--insecure-keys")
	}
	// a custom test network is given by the --testnet-* flags only; --network keeps its CLI default
	custom := strings.HasPrefix(p.net, "custom:")
	if custom {
		cf := strings.Split(p.net, ":")
		if len(cf) != 5 || p.ver != "" {
			panic("bad custom network " + p.net)
		}
		args = append(args, "--testnet-name", cf[1], "--testnet-fork-version", cf[2], "--testnet-chain-id", cf[3], "--testnet-genesis-timestamp", cf[4])
		p.spec = p.net
		p.net = cf[1] // the name everything below is checked against
	}
	if p.ver == "" {
		args = append(args, "--name", "created", "--nodes", strconv.Itoa(p.n), "--threshold", strconv.Itoa(p.t),
			"--num-validators", strconv.Itoa(p.v),
			"--fee-recipient-addresses", strings.Join(feeAddrs, ","), "--withdrawal-addresses", strings.Join(wAddrs, ","))
		if !custom {
			args = append(args, "--network", p.net)
		}
		if len(p.amounts) > 0 {
			var am []string
			for _, a := range p.amounts {
				am = append(am, strconv.Itoa(a))
			}
			args = append(args, "--deposit-amounts", strings.Join(am, ","))
		}
		if p.comp {
			args = append(args, "--compounding")
		}
	} else {
		// an unsigned definition of the requested version
		gp := genParams{version: p.ver, n: p.n, t: p.t, nv: p.v, network: p.net, amounts: p.amounts, compounding: p.comp}
		l, _ := d.genLock(gp)
		def := l.Definition
		for i := range def.Operators {
			def.Operators[i] = cluster.Operator{ENR: def.Operators[i].ENR}
		}
		def.Creator = cluster.Creator{}
		def, err := def.SetDefinitionHashes()
		hx.Must(err)
		b, err := json.Marshal(def)
		hx.Must(err)
		df := filepath.Join(dir, "def.json")
		hx.Must(os.WriteFile(df, b, 0o644))
		args = append(args, "--definition-file", df)
		feeAddrs, wAddrs = def.FeeRecipientAddresses(), def.WithdrawalAddresses()
	}
	root := cmd.New()
	root.SetArgs(args)
	var out bytes.Buffer
	root.SetOut(&out)
	root.SetErr(&out)
	ctx, cancel := context.WithTimeout(context.Background(), 5*time.Minute)
	defer cancel()
	if err := root.ExecuteContext(ctx); err != nil {
		d.run.Violate(sig("failed"), fmt.Sprintf("%s: %v", p.line(), err))
		d.run.Op(p.line(), "-")
		return
	}

	// --- the lock of every node is the same file and passes full verification
	var lockBytes []byte
	for i := 0; i < p.n; i++ {
		b, err := os.ReadFile(filepath.Join(dir, fmt.Sprintf("node%d", i), "cluster-lock.json"))
		if err != nil {
			d.run.Violate(sig("lock_missing"), fmt.Sprintf("%s: node%d: %v", p.line(), i, err))
			d.run.Op(p.line(), "-")
			return
		}
		if i == 0 {
			lockBytes = b
		} else if !bytes.Equal(b, lockBytes) {
			d.run.Violate(sig("locks_differ"), fmt.Sprintf("%s: node%d lock differs from node0", p.line(), i))
		}
	}
	lock, err := cluster.LoadClusterLock(ctx, filepath.Join(dir, "node0", "cluster-lock.json"), false, nil)
	if err != nil {
		d.run.Violate(sig("lock_invalid"), fmt.Sprintf("%s: %v", p.line(), err))
		d.run.Op(p.line(), "-")
		return
	}
	mv := minor(lock.Version)
	if len(lock.Operators) != p.n || lock.Threshold != p.t || len(lock.Validators) != p.v || lock.NumValidators != p.v {
		d.run.Violate(sig("params_mismatch"), fmt.Sprintf("%s: lock has n=%d t=%d v=%d", p.line(), len(lock.Operators), lock.Threshold, len(lock.Validators)))
	}
	if nw, err := eth2util.ForkVersionToNetwork(lock.ForkVersion); err != nil || nw != p.net {
		d.run.Violate(sig("params_mismatch"), fmt.Sprintf("%s: lock network %s %v", p.line(), nw, err))
	}

	// --- key shares on disk correspond to the public shares in the lock
	shares := make([][]tbls.PrivateKey, p.n) // [node][validator]
	for i := 0; i < p.n; i++ {
		kf, err := keystore.LoadFilesUnordered(filepath.Join(dir, fmt.Sprintf("node%d", i), "validator_keys"))
		if err != nil {
			d.run.Violate(sig("keystore_unreadable"), fmt.Sprintf("%s: node%d: %v", p.line(), i, err))
			continue
		}
		ks, err := kf.SequencedKeys()
		if err != nil || len(ks) != len(lock.Validators) {
			d.run.Violate(sig("keystore_count"), fmt.Sprintf("%s: node%d has %d keys (%v)", p.line(), i, len(ks), err))
			continue
		}
		shares[i] = ks
		for j, s := range ks {
			pk, err := tbls.SecretToPublicKey(s)
			if err != nil || j >= len(lock.Validators) || i >= len(lock.Validators[j].PubShares) || !bytes.Equal(pk[:], lock.Validators[j].PubShares[i]) {
				d.run.Violate(sig("share_mismatch"), fmt.Sprintf("%s: keystore %d of node%d is not public share %d of validator %d", p.line(), j, i, i, j))
			}
		}
		// the node's ENR key is operator i
		if key, err := k1util.Load(filepath.Join(dir, fmt.Sprintf("node%d", i), "charon-enr-private-key")); err == nil {
			rec, err := enr.New(key)
			if err != nil || rec.String() != lock.Operators[i].ENR {
				d.run.Violate(sig("enr_mismatch"), fmt.Sprintf("%s: node%d ENR key is not operator %d", p.line(), i, i))
			}
		} else {
			d.run.Violate(sig("enr_mismatch"), fmt.Sprintf("%s: node%d: %v", p.line(), i, err))
		}
	}

	// --- every threshold subset recombines to the private key of the validator key
	nsub := 0
	for j, val := range lock.Validators {
		check := func(idx []int) {
			m := map[int]tbls.PrivateKey{}
			for _, i := range idx {
				if shares[i] == nil {
					return
				}
				m[i+1] = shares[i][j]
			}
			sec, err := tbls.RecoverSecret(m, uint(p.n), uint(p.t))
			if err != nil {
				d.run.Violate(sig("recombine_failed"), fmt.Sprintf("%s: validator %d subset %v: %v", p.line(), j, idx, err))
				return
			}
			pk, err := tbls.SecretToPublicKey(sec)
			if err != nil || !bytes.Equal(pk[:], val.PubKey) {
				d.run.Violate(sig("recombine_wrong_key"), fmt.Sprintf("%s: validator %d subset %v recombines to another key", p.line(), j, idx))
			}
			nsub++
		}
		if p.n <= 6 {
			subsets(p.n, p.t, check)
		} else {
			for k := 0; k < 12; k++ {
				check(d.rng.Perm(p.n)[:p.t])
			}
		}
	}
	for i := 0; i < nsub; i++ {
		d.run.Count("create:subset_recombined")
	}

	// --- deposit data in the lock and in the deposit-data files verifies for the validator keys
	wantAmounts := deposit.EthsToGweis(p.amounts)
	if len(wantAmounts) == 0 {
		wantAmounts = deposit.DefaultDepositAmounts(lock.Compounding)
	}
	wantAmounts = deposit.DedupAmounts(wantAmounts)
	checkDD := func(where string, pk, wc []byte, amt eth2p0.Gwei, sgn []byte, j int) {
		val := lock.Validators[j]
		if !bytes.Equal(pk, val.PubKey) {
			d.run.Violate(sig("deposit_wrong_key"), fmt.Sprintf("%s: %s validator %d", p.line(), where, j))
			return
		}
		msg, err := deposit.NewMessage(eth2p0.BLSPubKey(pk), wAddrs[j], amt, lock.Compounding)
		if err != nil || !bytes.Equal(msg.WithdrawalCredentials, wc) {
			d.run.Violate(sig("deposit_wrong_credentials"), fmt.Sprintf("%s: %s validator %d", p.line(), where, j))
			return
		}
		sr, err := deposit.GetMessageSigningRoot(msg, p.net)
		hx.Must(err)
		pub, e1 := tblsconv.PubkeyFromBytes(pk)
		sg, e2 := tblsconv.SignatureFromBytes(sgn)
		if e1 != nil || e2 != nil || tbls.Verify(pub, sr[:], sg) != nil {
			d.run.Violate(sig("deposit_invalid_signature"), fmt.Sprintf("%s: %s validator %d amount %d", p.line(), where, j, amt))
		}
		d.run.Count("create:deposit_verified")
	}
	if mv >= 6 {
		for j, val := range lock.Validators {
			var got []eth2p0.Gwei
			for _, dd := range val.PartialDepositData {
				checkDD("lock", dd.PubKey, dd.WithdrawalCredentials, eth2p0.Gwei(dd.Amount), dd.Signature, j)
				got = append(got, eth2p0.Gwei(dd.Amount))
			}
			want := wantAmounts
			if mv < 8 {
				want = want[:1]
			}
			if fmt.Sprint(got) != fmt.Sprint(want) {
				d.run.Violate(sig("deposit_amounts"), fmt.Sprintf("%s: validator %d lock amounts %v want %v", p.line(), j, got, want))
			}
		}
	}
	for i := 0; i < p.n; i++ {
		sets, err := deposit.ReadDepositDataFiles(filepath.Join(dir, fmt.Sprintf("node%d", i)))
		if err != nil || len(sets) != len(wantAmounts) {
			d.run.Violate(sig("deposit_files"), fmt.Sprintf("%s: node%d has %d deposit files (%v), want %d", p.line(), i, len(sets), err, len(wantAmounts)))
			continue
		}
		for _, set := range sets {
			if len(set) != len(lock.Validators) {
				d.run.Violate(sig("deposit_files"), fmt.Sprintf("%s: node%d deposit file has %d entries", p.line(), i, len(set)))
				continue
			}
			for _, dd := range set {
				j := -1
				for x, val := range lock.Validators {
					if bytes.Equal(val.PubKey, dd.PublicKey[:]) {
						j = x
					}
				}
				if j < 0 {
					d.run.Violate(sig("deposit_wrong_key"), fmt.Sprintf("%s: node%d deposit file entry for unknown key", p.line(), i))
					continue
				}
				if i == 0 {
					checkDD("file", dd.PublicKey[:], dd.WithdrawalCredentials, dd.Amount, dd.Signature[:], j)
				}
			}
		}
	}

	// --- builder registrations verify for the validator keys
	if mv >= 7 {
		for j, val := range lock.Validators {
			reg := val.BuilderRegistration
			if !bytes.Equal(reg.Message.PubKey, val.PubKey) {
				d.run.Violate(sig("registration_wrong_key"), fmt.Sprintf("%s: validator %d", p.line(), j))
				continue
			}
			msg, err := registration.NewMessage(eth2p0.BLSPubKey(reg.Message.PubKey), feeAddrs[j], uint64(reg.Message.GasLimit), reg.Message.Timestamp)
			if err != nil || !bytes.Equal(msg.FeeRecipient[:], reg.Message.FeeRecipient) {
				d.run.Violate(sig("registration_wrong_fee_recipient"), fmt.Sprintf("%s: validator %d", p.line(), j))
				continue
			}
			sr, err := registration.GetMessageSigningRoot(msg, eth2p0.Version(lock.ForkVersion))
			hx.Must(err)
			pub, e1 := tblsconv.PubkeyFromBytes(val.PubKey)
			sg, e2 := tblsconv.SignatureFromBytes(reg.Signature)
			if e1 != nil || e2 != nil || tbls.Verify(pub, sr[:], sg) != nil {
				d.run.Violate(sig("registration_invalid_signature"), fmt.Sprintf("%s: validator %d", p.line(), j))
			}
			d.run.Count("create:registration_verified")
		}
	}

	d.run.Op(p.line(), "-")

	// --- the combine command (real cmd/combine.Combine) on subsets of the node directories:
	// every subset of exactly threshold size (n <= 5, sampled above), all directories, threshold-1 (must refuse)
	if p.insec {
		all := make([]int, p.n)
		for i := range all {
			all[i] = i
		}
		var sets [][]int
		if p.n <= 5 {
			subsets(p.n, p.t, func(idx []int) { sets = append(sets, idx) })
		} else {
			for k := 0; k < 3; k++ {
				ix := d.rng.Perm(p.n)[:p.t]
				sort.Ints(ix)
				sets = append(sets, ix)
			}
		}
		if p.t < p.n {
			sets = append(sets, all)
			if p.t+1 < p.n {
				sets = append(sets, d.rng.Perm(p.n)[:p.t+1])
			}
		}
		if p.t >= 2 {
			sets = append(sets, d.rng.Perm(p.n)[:p.t-1])
		}
		for k, idx := range sets {
			d.opCombine(ctx, dir, k, idx, lock, shares, p)
		}
		// the same command when the lock file of ONE of the directories was edited in a hashed field (raw edit, stored
		// hashes kept): every position of the altered directory among those handed in
		if len(sets) > 0 && len(sets[0]) >= p.t {
			idx := sets[0]
			for pos := range idx {
				d.opCombineTampered(ctx, dir, 100+pos, idx, pos, lock, p)
			}
		}
	}

	// the created lock as a file: model reproduces its hashes, leaves, re-encoding, alterations
	d.opDoc(lock.Version, "lock", compactJSON(lockBytes))
	d.opLeaves()
	d.hashLockOps(*lock, "created")
	d.opReenc()
	d.tamperAll(6)
}

// opCombine runs the real combine entry point on the node directories `idx` of a created cluster.
// Op `combine t=<threshold> shares=<number of node directories>` -> accept | refuse (the model answers
// from the sufficiency rule of Combine); monitors compare the recombined keystores with the
// tbls.RecoverSecret result of the same subset and with the lock's validator keys.
func (d *drv) opCombine(ctx context.Context, dir string, k int, idx []int, lock *cluster.Lock, shares [][]tbls.PrivateKey, p createParams) {
	in := filepath.Join(dir, fmt.Sprintf("combine-in-%d", k))
	out := filepath.Join(dir, fmt.Sprintf("combine-out-%d", k))
	abs, err := filepath.Abs(dir)
	hx.Must(err)
	for _, i := range idx {
		nd := filepath.Join(in, fmt.Sprintf("node%d", i))
		hx.Must(os.MkdirAll(nd, 0o755))
		hx.Must(os.Symlink(filepath.Join(abs, fmt.Sprintf("node%d", i), "validator_keys"), filepath.Join(nd, "validator_keys")))
		hx.Must(os.Symlink(filepath.Join(abs, fmt.Sprintf("node%d", i), "cluster-lock.json"), filepath.Join(nd, "cluster-lock.json")))
	}
	line := fmt.Sprintf("combine t=%d shares=%d", lock.Threshold, len(idx))
	descr := fmt.Sprintf("%s: combine on node directories %v (threshold %d)", p.line(), idx, lock.Threshold)
	cerr := combine.Combine(ctx, in, out, true, false, "", eth2util.Network{}, combine.WithInsecureKeysForT(nil))
	got := "accept"
	if cerr != nil {
		got = "refuse"
	}
	d.run.Count(fmt.Sprintf("combine:%s:shares-threshold=%+d", got, len(idx)-lock.Threshold))
	switch {
	case len(idx) < lock.Threshold && cerr == nil:
		d.run.Violate("cluster:combine_accepts_below_threshold", descr)
	case len(idx) >= lock.Threshold && cerr != nil:
		d.run.Violate("cluster:combine_refuses_threshold_subset", fmt.Sprintf("%s: %v", descr, cerr))
	case cerr == nil:
		kf, err := keystore.LoadFilesUnordered(out)
		var ks []tbls.PrivateKey
		if err == nil {
			ks, err = kf.SequencedKeys()
		}
		if err != nil || len(ks) != len(lock.Validators) {
			d.run.Violate("cluster:combine_wrong_key", fmt.Sprintf("%s: %d combined keystores readable (%v), %d validators", descr, len(ks), err, len(lock.Validators)))
			break
		}
		for j, val := range lock.Validators {
			m := map[int]tbls.PrivateKey{}
			for _, i := range idx {
				if shares[i] != nil {
					m[i+1] = shares[i][j]
				}
			}
			want, err := tbls.RecoverSecret(m, uint(len(lock.Operators)), uint(lock.Threshold))
			pk, err2 := tbls.SecretToPublicKey(ks[j])
			if err != nil || err2 != nil || want != ks[j] || !bytes.Equal(pk[:], val.PubKey) {
				d.run.Violate("cluster:combine_wrong_key", fmt.Sprintf("%s: combined keystore %d is not the tbls.RecoverSecret result / not the key of validator %d", descr, j, j))
			}
		}
	}
	d.run.Case(fmt.Sprintf("combine:n%d:t%d:k%d:%s", len(lock.Operators), lock.Threshold, len(idx), got))
	d.run.Op(line, got)
}

// opCombineTampered: as opCombine, but the cluster-lock.json of directory idx[pos] is a copy whose `name` (a hashed
// definition field) was edited without touching the stored hashes. Op `combinet t=<t> shares=<k> pos=<pos>` -> refuse.
func (d *drv) opCombineTampered(ctx context.Context, dir string, k int, idx []int, pos int, lock *cluster.Lock, p createParams) {
	in := filepath.Join(dir, fmt.Sprintf("combine-in-%d", k))
	out := filepath.Join(dir, fmt.Sprintf("combine-out-%d", k))
	abs, err := filepath.Abs(dir)
	hx.Must(err)
	edited := false
	for j, i := range idx {
		nd := filepath.Join(in, fmt.Sprintf("node%d", i))
		hx.Must(os.MkdirAll(nd, 0o755))
		hx.Must(os.Symlink(filepath.Join(abs, fmt.Sprintf("node%d", i), "validator_keys"), filepath.Join(nd, "validator_keys")))
		src := filepath.Join(abs, fmt.Sprintf("node%d", i), "cluster-lock.json")
		if j != pos {
			hx.Must(os.Symlink(src, filepath.Join(nd, "cluster-lock.json")))
			continue
		}
		b, err := os.ReadFile(src)
		hx.Must(err)
		re := regexp.MustCompile(`("name"\s*:\s*")`)
		if loc := re.FindIndex(b); loc != nil {
			b = append(append(append([]byte(nil), b[:loc[1]]...), 'x'), b[loc[1]:]...)
			edited = true
		}
		hx.Must(os.WriteFile(filepath.Join(nd, "cluster-lock.json"), b, 0o644))
	}
	line := fmt.Sprintf("combinet t=%d shares=%d pos=%d", lock.Threshold, len(idx), pos)
	if !edited {
		d.run.Count("combinet:no_name_field")
		return
	}
	cerr := combine.Combine(ctx, in, out, true, false, "", eth2util.Network{}, combine.WithInsecureKeysForT(nil))
	got := "refuse"
	if cerr == nil {
		got = "accept"
		d.run.Violate("cluster:combine_accepts_tampered_lock", fmt.Sprintf("%s: combine on node directories %v accepted although the lock file of directory %d had its name edited (stored hashes kept)", p.line(), idx, idx[pos]))
	}
	d.run.Count("combinet:" + got)
	d.run.Case(fmt.Sprintf("combinet:n%d:k%d:pos%d", len(lock.Operators), len(idx), pos))
	d.run.Op(line, got)
}

// ---------------------------------------------------------------------------------------------

func (d *drv) episode(i int) {
	ver := versions[i%len(versions)]
	p := d.randParams(ver, i)
	lock, keys := d.genLock(p)
	d.run.Case(fmt.Sprintf("gen:%s:n%d:t%d:v%d:%s:%v:%v", ver, p.n, p.t, p.nv, p.network, p.amounts, p.compounding))

	lb, err := json.Marshal(lock)
	hx.Must(err)
	d.opDoc(ver, "lock", lb)
	d.opLeaves()
	d.hashLockOps(lock, "valid")
	d.opReenc()
	d.tamperAll(4)
	d.mutants(lock, 10)
	for _, fk := range forgeKinds {
		if fl, ok := d.forge(fk, lock, keys); ok {
			d.opForged(fk, fl)
		}
	}

	db, err := json.Marshal(lock.Definition)
	hx.Must(err)
	d.opDoc(ver, "def", db)
	d.opLeaves()
	d.opReenc()
	d.tamperAll(4)

	for k := 0; k < 3; k++ {
		b := d.bytes(d.rng.Intn(200))
		s := sha256.Sum256(b)
		d.run.Op("sha "+hex.EncodeToString(b), hex.EncodeToString(s[:]))
	}
}

func (d *drv) creates(k int) {
	quick := []createParams{
		{n: 3, t: 2, v: 1, net: "hoodi", insec: true},
		{n: 4, t: 3, v: 2, net: "custom:verifnet:0x10203040:424242:1700000000", insec: true},
		{n: 4, t: 3, v: 2, net: "sepolia", amounts: []int{16, 16}, insec: true},
		{n: 5, t: 4, v: 1, net: "goerli", ver: "v1.8.0", amounts: []int{8, 8, 16}, insec: true},
		{n: 4, t: 2, v: 3, net: "hoodi", comp: true, amounts: []int{32, 100}, insec: true},
		{n: 6, t: 4, v: 1, net: "sepolia", ver: "v1.5.0", insec: true},
		{n: 7, t: 5, v: 2, net: "chiado", ver: "v1.10.0", insec: true},
		{n: 10, t: 7, v: 1, net: "hoodi", insec: true},
		{n: 3, t: 3, v: 1, net: "goerli", ver: "v1.7.0", insec: true},
	}
	for i := 0; i < k; i++ {
		var p createParams
		if i < len(quick) {
			p = quick[i]
		} else {
			n := 3 + d.rng.Intn(8)
			p = createParams{n: n, t: 2 + d.rng.Intn(n-1), v: 1 + d.rng.Intn(3), net: []string{"goerli", "sepolia", "hoodi", "chiado"}[d.rng.Intn(4)], insec: true}
			if d.rng.Chance(1, 2) {
				p.ver = versions[d.rng.Intn(len(versions))]
			}
			if p.ver == "" || minor(p.ver) >= 8 {
				p.amounts = [][]int{nil, {32}, {16, 16}, {1, 31}}[d.rng.Intn(4)]
			}
			if i%9 == 8 {
				p = createParams{n: 3, t: 2, v: 1, net: "mainnet"} // secure keystores (slow)
			}
		}
		d.opCreate(p)
	}
}

func (d *drv) exec(ops []string) {
	for _, op := range ops {
		f := strings.SplitN(op, " ", 4)
		switch {
		case f[0] == "sha" && len(f) == 2:
			b, err := hex.DecodeString(f[1])
			if err != nil {
				d.run.Op(op, "bad-op")
				continue
			}
			s := sha256.Sum256(b)
			d.run.Op(op, hex.EncodeToString(s[:]))
		case f[0] == "sha" && len(f) == 1:
			s := sha256.Sum256(nil)
			d.run.Op(op, hex.EncodeToString(s[:]))
		case f[0] == "hash" && len(f) == 4:
			d.run.Op(op, hashOf(f[1], f[2], f[3]))
		case f[0] == "doc" && len(f) == 4:
			b, err := hex.DecodeString(f[3])
			if err != nil {
				d.run.Op(op, "bad-op")
				continue
			}
			d.opDoc(f[1], f[2], b)
		case f[0] == "leaves" && d.doc != nil:
			d.opLeaves()
		case f[0] == "reenc" && d.doc != nil:
			d.opReenc()
		case f[0] == "tamper" && len(f) == 3 && d.doc != nil:
			l, ok := d.findLeaf(f[1])
			orig, err := decodeDoc(d.docKind, d.doc)
			if !ok || err != nil {
				d.run.Op(op, "-")
				continue
			}
			d.opTamper(l, f[2], orig, orig.dump())
		case f[0] == "forged" && len(f) == 4:
			b, err := hex.DecodeString(f[3])
			if err != nil {
				d.run.Op(op, "bad-op")
				continue
			}
			d.execForged(f[1], f[2], b)
		case f[0] == "combine" || f[0] == "combinet":
			// produced (again) by the preceding `create` op: not executable on its own
			continue
		case f[0] == "create":
			p, ok := parseCreate(op)
			if !ok {
				d.run.Op(op, "bad-op")
				continue
			}
			d.opCreate(p)
		default:
			d.run.Op(op, "bad-op")
		}
	}
}

func main() {
	a := hx.ParseArgs()
	run := hx.NewRun(a.Dir)
	d := &drv{run: run, rng: hx.NewRng(a.Seed), dir: a.Dir, tier: a.Tier}
	_ = io.Discard
	if a.Mode == "exec" {
		d.exec(hx.ReadOps(a.Ops))
	} else {
		// empty input of sha and of the hashers
		s := sha256.Sum256(nil)
		run.Op("sha", hex.EncodeToString(s[:]))
		n := a.N
		if a.Tier == "search" && n > 24 {
			n = 24 // the search for a failing input after a broken obligation: two rounds over the versions
		}
		for i := 0; i < n; i++ {
			d.episode(i + int(a.Seed%12))
		}
		nc := n / 3
		if a.Tier == "search" {
			nc = 2
		}
		d.creates(nc)
	}
	run.Close()
}
