// drive-admit: correspondence driver for C10 (core/validatorapi, core/parsigex).
//
// Runs the real validatorapi.Component (secure constructor) and the real parsigex handler
// (hook parsigex.VerifNew / VerifHandle: the unexported handle without a libp2p host, with the
// real NewEth2Verifier and the real core.NewDutyGater) over a beacon mock with a seven-fork
// schedule and REAL t-of-n tbls keys. Every op builds a valid submission with the repo's own
// testutil generators, signs it with the share keys, applies the alterations named in the op and
// submits it. The model (lean/Driver/Admit.lean) gets an abstract view computed INDEPENDENTLY of
// the components: the object's own epoch, message root and domain from a hand-written table, the
// domain bytes from our own compute_domain over our own fork table, and `facts` = the
// (key, domain, epoch, root, sig) tuples on which a direct tbls.Verify call said yes.
//
// ops (everything before " | " is the recipe, everything after it the abstract view, see
// Driver/Admit.lean for its syntax; exec mode reads only the recipe and recomputes the view):
//
//	cfg ks=<id> n=<n> t=<t> m=<validators> cur=<epoch> allowed=<k> | …
//	vc <Method> node=<idx> nsub=<k> fail=<k|-> seed=<u64> items=<item;item…> | …
//	     item := <validator>/<version>/<epoch>/<slotoff>/<alt>
//	peer ty=<dutyType> slot=<s|auto> nsub=<k> seed=<u64> msg=<malt> entries=<entry;…> | …
//	     entry := <kind>/<validator>/<share>/<version>/<epoch>/<alt>
//	alt  := none | field.<leaf>.<bit> | share.<j> | val.<w> | group | dom.<d> | fork.<epoch> | gvr
//	        | zero | inf | rand | trunc | unkval | idx.<i> | key.<garbage-kind> | gatemiss
//
// outcome := <class> <calls|->   (see Driver/Admit.lean)
//
//go:debug randseednop=0
package main

import (
	"bytes"
	"context"
	"crypto/sha256"
	"encoding/binary"
	"encoding/json"
	"fmt"
	"math/big"
	"math/rand"
	"os"
	"reflect"
	"sort"
	"strconv"
	"strings"
	"testing"
	"time"

	"github.com/OffchainLabs/go-bitfield"
	eth2api "github.com/attestantio/go-eth2-client/api"
	eth2v1 "github.com/attestantio/go-eth2-client/api/v1"
	eth2bellatrix "github.com/attestantio/go-eth2-client/api/v1/bellatrix"
	eth2capella "github.com/attestantio/go-eth2-client/api/v1/capella"
	eth2deneb "github.com/attestantio/go-eth2-client/api/v1/deneb"
	eth2electra "github.com/attestantio/go-eth2-client/api/v1/electra"
	eth2fulu "github.com/attestantio/go-eth2-client/api/v1/fulu"
	eth2spec "github.com/attestantio/go-eth2-client/spec"
	"github.com/attestantio/go-eth2-client/spec/altair"
	"github.com/attestantio/go-eth2-client/spec/bellatrix"
	"github.com/attestantio/go-eth2-client/spec/capella"
	"github.com/attestantio/go-eth2-client/spec/deneb"
	"github.com/attestantio/go-eth2-client/spec/electra"
	eth2p0 "github.com/attestantio/go-eth2-client/spec/phase0"
	"github.com/libp2p/go-libp2p/core/peer"

	"github.com/obolnetwork/charon/app/eth2wrap"
	"github.com/obolnetwork/charon/app/log"
	"github.com/obolnetwork/charon/core"
	pbv1 "github.com/obolnetwork/charon/core/corepb/v1"
	"github.com/obolnetwork/charon/core/parsigex"
	"github.com/obolnetwork/charon/core/validatorapi"
	"github.com/obolnetwork/charon/eth2util"
	"github.com/obolnetwork/charon/eth2util/signing"
	"github.com/obolnetwork/charon/tbls"
	"github.com/obolnetwork/charon/testutil"
	"github.com/obolnetwork/charon/testutil/beaconmock"

	"verifharness/hx"
)

var (
	_ = bytes.Equal
	_ = big.NewInt
	_ = os.Exit
	_ = sort.Ints
	_ = eth2util.SlotHashRoot
	_ = signing.DomainExit
	_ = peer.ID("")
	_ = pbv1.ParSigExMsg{}
	_ = parsigex.Protocols
	_ = validatorapi.NewComponent
	_ = eth2wrap.ActiveValidators{}
	_ = json.Marshal
	_ = time.Now
)

// =============================================================================================
// chain configuration: our own fork table and domain computation (independent of eth2util/signing)

const spe = 16 // SLOTS_PER_EPOCH of the beacon mock

var (
	forkEpochs = []uint64{0, 4, 8, 12, 16, 20, 24}
	genesisVR  = [32]byte{0x21, 0x2f, 0x13, 0xfc, 0x4d, 0xf0, 0x78, 0xb6, 0x01, 0x02, 0x03}
	genesisT   = time.Date(2022, 3, 1, 0, 0, 0, 0, time.UTC)
)

func forkVersion(i int) [4]byte { return [4]byte{byte(0x10 * (i + 1)), 0x00, 0x09, 0x10} }

func forkIndexAt(epoch uint64) int {
	idx := 0
	for i, e := range forkEpochs {
		if e <= epoch {
			idx = i
		}
	}
	return idx
}

func forkScheduleJSON() string {
	var parts []string
	for i, e := range forkEpochs {
		prev := forkVersion(i)
		if i > 0 {
			prev = forkVersion(i - 1)
		}
		parts = append(parts, fmt.Sprintf(`{"previous_version":"%#x","current_version":"%#x","epoch":"%d"}`, prev, forkVersion(i), e))
	}
	return `{"data":[` + strings.Join(parts, ",") + `]}`
}

// domain indices = order of CharonV.Admit.Domain
const (
	domProposer = iota
	domAttester
	domExit
	domBuilder
	domRandao
	domSelection
	domAggAndProof
	domSyncComm
	domContribAndProof
	domSyncSelection
	numDomains
)

// domain type constants of the consensus spec (phase0/altair beacon-chain.md, builder-specs)
var domainTypes = [numDomains][4]byte{
	domProposer:        {0x00, 0, 0, 0},
	domAttester:        {0x01, 0, 0, 0},
	domRandao:          {0x02, 0, 0, 0},
	domExit:            {0x04, 0, 0, 0},
	domSelection:       {0x05, 0, 0, 0},
	domAggAndProof:     {0x06, 0, 0, 0},
	domSyncComm:        {0x07, 0, 0, 0},
	domSyncSelection:   {0x08, 0, 0, 0},
	domContribAndProof: {0x09, 0, 0, 0},
	domBuilder:         {0x00, 0, 0, 0x01},
}

var domainNames = [numDomains]signing.DomainName{
	domProposer: signing.DomainBeaconProposer, domAttester: signing.DomainBeaconAttester,
	domRandao: signing.DomainRandao, domExit: signing.DomainExit, domSelection: signing.DomainSelectionProof,
	domAggAndProof: signing.DomainAggregateAndProof, domSyncComm: signing.DomainSyncCommittee,
	domSyncSelection: signing.DomainSyncCommitteeSelectionProof, domContribAndProof: signing.DomainContributionAndProof,
	domBuilder: signing.DomainApplicationBuilder,
}

// computeDomain is compute_domain of the consensus spec.
func computeDomain(domType [4]byte, version [4]byte, gvr [32]byte) [32]byte {
	fd := &eth2p0.ForkData{CurrentVersion: version, GenesisValidatorsRoot: gvr}
	root, err := fd.HashTreeRoot()
	hx.Must(err)
	var d [32]byte
	copy(d[:4], domType[:])
	copy(d[4:], root[:28])
	return d
}

// signingRootWith is compute_signing_root with an explicitly chosen fork epoch and genesis root
// (used both for honest signing and for domain/fork/gvr substitutions).
func signingRootWith(dom int, forkEpoch uint64, gvr [32]byte, root [32]byte) [32]byte {
	var d [32]byte
	if dom == domBuilder {
		d = computeDomain(domainTypes[dom], forkVersion(0), [32]byte{})
	} else {
		d = computeDomain(domainTypes[dom], forkVersion(forkIndexAt(forkEpoch)), gvr)
	}
	sd := &eth2p0.SigningData{ObjectRoot: root, Domain: d}
	r, err := sd.HashTreeRoot()
	hx.Must(err)
	return r
}

func signingRoot(dom int, epoch uint64, root [32]byte) [32]byte {
	return signingRootWith(dom, epoch, genesisVR, root)
}

func u64Root(x uint64) [32]byte {
	var r [32]byte
	binary.LittleEndian.PutUint64(r[:8], x)
	return r
}

// =============================================================================================
// beacon mock (one per process)

var bmockBase beaconmock.Mock

func initMock(ctx context.Context) {
	m, err := beaconmock.New(ctx,
		beaconmock.WithEndpoint("/eth/v1/config/fork_schedule", forkScheduleJSON()),
		beaconmock.WithGenesisValidatorsRoot(genesisVR),
		beaconmock.WithGenesisTime(genesisT),
		beaconmock.WithSlotsPerEpoch(spe),
	)
	hx.Must(err)
	bmockBase = m
	// sanity: our domain computation agrees with eth2util/signing over the mock on an honest input
	for d := 0; d < numDomains; d++ {
		for _, e := range []uint64{0, 3, 4, 13, 24, 1000} {
			root := [32]byte{byte(d), byte(e)}
			want, err := signing.GetDataRoot(ctx, m, domainNames[d], eth2p0.Epoch(e), root)
			hx.Must(err)
			if got := signingRoot(d, e, root); got != want {
				panic(fmt.Sprintf("harness domain computation disagrees with signing.GetDataRoot: dom %d epoch %d", d, e))
			}
		}
	}
}

// =============================================================================================
// clusters: real t-of-n keys, deterministic per key-set id

type rngReader struct{ r *hx.Rng }

func (r rngReader) Read(p []byte) (int, error) {
	for i := range p {
		p[i] = byte(r.r.U64())
	}
	return len(p), nil
}

type cluster struct {
	ks, n, t, m int
	secrets     []tbls.PrivateKey
	pubkeys     []tbls.PublicKey
	corePks     []core.PubKey
	shares      []map[int]tbls.PrivateKey
	pubshares   map[core.PubKey]map[int]tbls.PublicKey
	// one extra validator that is active on the beacon node but not part of the lock
	xSecret tbls.PrivateKey
	xPub    tbls.PublicKey
	active  eth2wrap.ActiveValidators
	mock    beaconmock.Mock
	allKeys []tbls.PublicKey // every pubshare, every group key, the extra key
}

const valIdxBase = 100 // beacon validator index of cluster validator i is valIdxBase+i
const xValIdx = 900

var clusters = map[string]*cluster{}

func getCluster(ks, n, t, m int) *cluster {
	key := fmt.Sprintf("%d/%d/%d/%d", ks, n, t, m)
	if c, ok := clusters[key]; ok {
		return c
	}
	r := hx.NewRng(uint64(ks)*7919 + uint64(n)*131 + uint64(t)*17 + uint64(m))
	c := &cluster{ks: ks, n: n, t: t, m: m, pubshares: map[core.PubKey]map[int]tbls.PublicKey{}, active: eth2wrap.ActiveValidators{}}
	newSecret := func() tbls.PrivateKey {
		s, err := tbls.GenerateInsecureKey(new(testing.T), rngReader{r})
		hx.Must(err)
		return s
	}
	for i := 0; i < m; i++ {
		sec := newSecret()
		pub, err := tbls.SecretToPublicKey(sec)
		hx.Must(err)
		sh, err := tbls.ThresholdSplitInsecure(new(testing.T), sec, uint(n), uint(t), rngReader{r})
		hx.Must(err)
		cpk, err := core.PubKeyFromBytes(pub[:])
		hx.Must(err)
		ps := map[int]tbls.PublicKey{}
		for idx := 1; idx <= n; idx++ {
			s := sh[idx]
			p, err := tbls.SecretToPublicKey(s)
			hx.Must(err)
			ps[idx] = p
			c.allKeys = append(c.allKeys, p)
		}
		c.secrets = append(c.secrets, sec)
		c.pubkeys = append(c.pubkeys, pub)
		c.corePks = append(c.corePks, cpk)
		c.shares = append(c.shares, sh)
		c.pubshares[cpk] = ps
		c.allKeys = append(c.allKeys, pub)
		c.active[eth2p0.ValidatorIndex(valIdxBase+i)] = eth2p0.BLSPubKey(pub)
	}
	c.xSecret = newSecret()
	xp, err := tbls.SecretToPublicKey(c.xSecret)
	hx.Must(err)
	c.xPub = xp
	c.allKeys = append(c.allKeys, xp)
	c.active[eth2p0.ValidatorIndex(xValIdx)] = eth2p0.BLSPubKey(xp)
	c.mock = bmockBase
	act := c.active
	c.mock.CachedValidatorsFunc = func(context.Context) (eth2wrap.ActiveValidators, eth2wrap.CompleteValidators, error) {
		return act, nil, nil
	}
	clusters[key] = c
	return c
}

// validator index (beacon) -> position in cluster (-1: the extra validator, -2: nobody)
func (c *cluster) posOfValIdx(v uint64) int {
	if v >= valIdxBase && v < uint64(valIdxBase+c.m) {
		return int(v - valIdxBase)
	}
	if v == xValIdx {
		return -1
	}
	return -2
}

// =============================================================================================
// samples: one signed object of some type, built from testutil generators

const (
	kAtt = iota
	kRandao
	kProp
	kBProp
	kExit
	kBcSel
	kAgg
	kSyncMsg
	kContrib
	kSyncSel
	kReg
	kOldAgg
	kRaw
	numKinds
)

var kindNames = [numKinds]string{"att", "randao", "prop", "bprop", "exit", "bcsel", "agg", "syncmsg", "contrib", "syncsel", "reg", "oldagg", "raw"}

// SigType indices = order of Driver.Admit.sigTypes
const (
	tyProposal = iota
	tyAttestation
	tyExit
	tyRegistration
	tyRandao
	tyBcSelection
	tyAggProof
	tyVAggProof
	tySyncMessage
	tyContribution
	tySyncSelection
	tyRawSig
)

type randaoS struct {
	Slot      eth2p0.Slot  // VC door: ProposalOpts.Slot (the signed epoch is Slot / SLOTS_PER_EPOCH)
	Epoch     eth2p0.Epoch // peer door: SignedEpoch.Epoch
	Signature eth2p0.BLSSignature
	vc        bool
}

func (r *randaoS) epoch() eth2p0.Epoch {
	if r.vc {
		return eth2p0.Epoch(uint64(r.Slot) / spe)
	}
	return r.Epoch
}

type sample struct {
	kind int
	obj  any // pointer to the submitted object
}

var versions = []eth2spec.DataVersion{eth2spec.DataVersionPhase0, eth2spec.DataVersionAltair, eth2spec.DataVersionBellatrix,
	eth2spec.DataVersionCapella, eth2spec.DataVersionDeneb, eth2spec.DataVersionElectra, eth2spec.DataVersionFulu}

func numVersions(kind int) int {
	switch kind {
	case kAtt, kProp, kAgg:
		return 7
	case kBProp:
		return 5
	}
	return 1
}

type buildArgs struct {
	valIdx  uint64 // beacon validator index written into the object
	ver     int
	blinded bool
	epoch   uint64 // the object's own epoch
	slotOff uint64 // slot offset inside the epoch (where the object has a slot)
	subcomm uint64
	commIdx uint64
	vci     uint64 // validator committee index (pre-electra attestations)
	commLen uint64
	vcDoor  bool
}

func attData(a buildArgs) *eth2p0.AttestationData {
	d := testutil.RandomAttestationDataPhase0()
	d.Slot = eth2p0.Slot(a.epoch*spe + a.slotOff)
	d.Index = eth2p0.CommitteeIndex(a.commIdx)
	d.Target.Epoch = eth2p0.Epoch(a.epoch)
	if a.epoch > 0 {
		d.Source.Epoch = eth2p0.Epoch(a.epoch - 1)
	} else {
		d.Source.Epoch = 0
	}
	return d
}

func oneBit(n, at uint64) bitfield.Bitlist {
	b := bitfield.NewBitlist(n)
	b.SetBitAt(at, true)
	return b
}

func buildSample(kind int, a buildArgs) *sample {
	slot := eth2p0.Slot(a.epoch*spe + a.slotOff)
	vidx := eth2p0.ValidatorIndex(a.valIdx)
	switch kind {
	case kAtt:
		v := &eth2spec.VersionedAttestation{Version: versions[a.ver]}
		if a.ver <= 4 {
			att := &eth2p0.Attestation{AggregationBits: oneBit(a.commLen, a.vci), Data: attData(a)}
			switch a.ver {
			case 0:
				v.Phase0 = att
			case 1:
				v.Altair = att
			case 2:
				v.Bellatrix = att
			case 3:
				v.Capella = att
			case 4:
				v.Deneb = att
			}
		} else {
			d := attData(a)
			d.Index = 0
			cb := bitfield.NewBitvector64()
			cb.SetBitAt(a.commIdx, true)
			att := &electra.Attestation{AggregationBits: oneBit(a.commLen, a.vci), Data: d, CommitteeBits: cb}
			vi := vidx
			v.ValidatorIndex = &vi
			if a.ver == 5 {
				v.Electra = att
			} else {
				v.Fulu = att
			}
		}
		return &sample{kind, v}
	case kRandao:
		return &sample{kind, &randaoS{Slot: slot, Epoch: eth2p0.Epoch(a.epoch), vc: a.vcDoor}}
	case kProp, kBProp:
		p := &eth2api.VersionedSignedProposal{Version: versions[a.ver], Blinded: a.blinded}
		switch {
		case a.ver == 0:
			b := testutil.RandomPhase0BeaconBlock()
			b.Slot, b.ProposerIndex = slot, vidx
			p.Phase0 = &eth2p0.SignedBeaconBlock{Message: b}
		case a.ver == 1:
			b := testutil.RandomAltairBeaconBlock()
			b.Slot, b.ProposerIndex = slot, vidx
			p.Altair = &altair.SignedBeaconBlock{Message: b}
		case a.ver == 2 && !a.blinded:
			b := testutil.RandomBellatrixBeaconBlock()
			b.Slot, b.ProposerIndex = slot, vidx
			p.Bellatrix = &bellatrix.SignedBeaconBlock{Message: b}
		case a.ver == 2:
			b := testutil.RandomBellatrixBlindedBeaconBlock()
			b.Slot, b.ProposerIndex = slot, vidx
			p.BellatrixBlinded = &eth2bellatrix.SignedBlindedBeaconBlock{Message: b}
		case a.ver == 3 && !a.blinded:
			b := testutil.RandomCapellaBeaconBlock()
			b.Slot, b.ProposerIndex = slot, vidx
			p.Capella = &capella.SignedBeaconBlock{Message: b}
		case a.ver == 3:
			b := testutil.RandomCapellaBlindedBeaconBlock()
			b.Slot, b.ProposerIndex = slot, vidx
			p.CapellaBlinded = &eth2capella.SignedBlindedBeaconBlock{Message: b}
		case a.ver == 4 && !a.blinded:
			b := testutil.RandomDenebBeaconBlock()
			b.Slot, b.ProposerIndex = slot, vidx
			p.Deneb = &eth2deneb.SignedBlockContents{SignedBlock: &deneb.SignedBeaconBlock{Message: b}, KZGProofs: []deneb.KZGProof{}, Blobs: []deneb.Blob{}}
		case a.ver == 4:
			b := testutil.RandomDenebBlindedBeaconBlock()
			b.Slot, b.ProposerIndex = slot, vidx
			p.DenebBlinded = &eth2deneb.SignedBlindedBeaconBlock{Message: b}
		case a.ver == 5 && !a.blinded:
			b := testutil.RandomElectraBeaconBlock()
			b.Slot, b.ProposerIndex = slot, vidx
			p.Electra = &eth2electra.SignedBlockContents{SignedBlock: &electra.SignedBeaconBlock{Message: b}, KZGProofs: []deneb.KZGProof{}, Blobs: []deneb.Blob{}}
		case a.ver == 5:
			b := testutil.RandomElectraBlindedBeaconBlock()
			b.Slot, b.ProposerIndex = slot, vidx
			p.ElectraBlinded = &eth2electra.SignedBlindedBeaconBlock{Message: b}
		case a.ver == 6 && !a.blinded:
			b := testutil.RandomElectraBeaconBlock()
			b.Slot, b.ProposerIndex = slot, vidx
			p.Fulu = &eth2fulu.SignedBlockContents{SignedBlock: &electra.SignedBeaconBlock{Message: b}, KZGProofs: []deneb.KZGProof{}, Blobs: []deneb.Blob{}}
		default:
			b := testutil.RandomElectraBlindedBeaconBlock()
			b.Slot, b.ProposerIndex = slot, vidx
			p.FuluBlinded = &eth2electra.SignedBlindedBeaconBlock{Message: b}
		}
		if kind == kBProp {
			return &sample{kind, &eth2api.VersionedSignedBlindedProposal{Version: p.Version, Bellatrix: p.BellatrixBlinded,
				Capella: p.CapellaBlinded, Deneb: p.DenebBlinded, Electra: p.ElectraBlinded, Fulu: p.FuluBlinded}}
		}
		return &sample{kind, p}
	case kExit:
		return &sample{kind, &eth2p0.SignedVoluntaryExit{Message: &eth2p0.VoluntaryExit{Epoch: eth2p0.Epoch(a.epoch), ValidatorIndex: vidx}}}
	case kBcSel:
		return &sample{kind, &eth2v1.BeaconCommitteeSelection{ValidatorIndex: vidx, Slot: slot}}
	case kAgg, kOldAgg:
		agg := testutil.RandomAggregateAttestation()
		agg.Data.Slot = slot
		if kind == kOldAgg {
			return &sample{kind, &eth2p0.SignedAggregateAndProof{Message: &eth2p0.AggregateAndProof{AggregatorIndex: vidx, Aggregate: agg}}}
		}
		v := &eth2spec.VersionedSignedAggregateAndProof{Version: versions[a.ver]}
		if a.ver <= 4 {
			s := &eth2p0.SignedAggregateAndProof{Message: &eth2p0.AggregateAndProof{AggregatorIndex: vidx, Aggregate: agg}}
			switch a.ver {
			case 0:
				v.Phase0 = s
			case 1:
				v.Altair = s
			case 2:
				v.Bellatrix = s
			case 3:
				v.Capella = s
			case 4:
				v.Deneb = s
			}
		} else {
			ea := testutil.RandomElectraAttestation()
			ea.Data.Slot = slot
			s := &electra.SignedAggregateAndProof{Message: &electra.AggregateAndProof{AggregatorIndex: vidx, Aggregate: ea}}
			if a.ver == 5 {
				v.Electra = s
			} else {
				v.Fulu = s
			}
		}
		return &sample{kind, v}
	case kSyncMsg:
		return &sample{kind, &altair.SyncCommitteeMessage{Slot: slot, BeaconBlockRoot: testutil.RandomRoot(), ValidatorIndex: vidx}}
	case kContrib:
		c := testutil.RandomSignedSyncContributionAndProof()
		c.Message.AggregatorIndex = vidx
		c.Message.Contribution.Slot = slot
		c.Message.Contribution.SubcommitteeIndex = a.subcomm
		c.Message.SelectionProof = eth2p0.BLSSignature{}
		c.Signature = eth2p0.BLSSignature{}
		return &sample{kind, c}
	case kSyncSel:
		return &sample{kind, &eth2v1.SyncCommitteeSelection{ValidatorIndex: vidx, Slot: slot, SubcommitteeIndex: a.subcomm}}
	case kReg:
		r := testutil.RandomVersionedSignedValidatorRegistration(new(testing.T))
		r.V1.Signature = eth2p0.BLSSignature{}
		// the generator uses crypto/rand and time.Now: overwrite with values from the seeded source
		_, _ = rand.Read(r.V1.Message.FeeRecipient[:])
		r.V1.Message.Timestamp = time.Unix(1700000000+int64(rand.Intn(1000000)), 0)
		return &sample{kind, r}
	case kRaw:
		s := core.Signature(make([]byte, 96))
		return &sample{kind, &s}
	}
	panic("bad kind")
}

// view is what the harness itself reads off an object: type, domain, own epoch, own message root,
// signature, slot / subcommittee / validator index the object names. Written by hand per type; it
// does not call core's Eth2SignedData methods.
type view struct {
	ty      int
	dom     int // -1: not an eth2 signed object
	epoch   *uint64
	root    *[32]byte
	sig     [96]byte
	slot    uint64
	subcomm uint64
	valIdx  *uint64
}

func p0AttOf(v *eth2spec.VersionedAttestation) (*eth2p0.AttestationData, *eth2p0.BLSSignature, bool) {
	var a *eth2p0.Attestation
	switch v.Version {
	case eth2spec.DataVersionPhase0:
		a = v.Phase0
	case eth2spec.DataVersionAltair:
		a = v.Altair
	case eth2spec.DataVersionBellatrix:
		a = v.Bellatrix
	case eth2spec.DataVersionCapella:
		a = v.Capella
	case eth2spec.DataVersionDeneb:
		a = v.Deneb
	case eth2spec.DataVersionElectra:
		if v.Electra == nil {
			return nil, nil, false
		}
		return v.Electra.Data, &v.Electra.Signature, true
	case eth2spec.DataVersionFulu:
		if v.Fulu == nil {
			return nil, nil, false
		}
		return v.Fulu.Data, &v.Fulu.Signature, true
	default:
		return nil, nil, false
	}
	if a == nil {
		return nil, nil, false
	}
	return a.Data, &a.Signature, true
}

type htr interface{ HashTreeRoot() ([32]byte, error) }

// propParts returns the block message, its slot, proposer index and a pointer to the signature.
func propParts(p *eth2api.VersionedSignedProposal) (htr, uint64, uint64, *eth2p0.BLSSignature, bool) {
	switch p.Version {
	case eth2spec.DataVersionPhase0:
		if p.Phase0 != nil {
			return p.Phase0.Message, uint64(p.Phase0.Message.Slot), uint64(p.Phase0.Message.ProposerIndex), &p.Phase0.Signature, true
		}
	case eth2spec.DataVersionAltair:
		if p.Altair != nil {
			return p.Altair.Message, uint64(p.Altair.Message.Slot), uint64(p.Altair.Message.ProposerIndex), &p.Altair.Signature, true
		}
	case eth2spec.DataVersionBellatrix:
		if p.Blinded && p.BellatrixBlinded != nil {
			return p.BellatrixBlinded.Message, uint64(p.BellatrixBlinded.Message.Slot), uint64(p.BellatrixBlinded.Message.ProposerIndex), &p.BellatrixBlinded.Signature, true
		}
		if !p.Blinded && p.Bellatrix != nil {
			return p.Bellatrix.Message, uint64(p.Bellatrix.Message.Slot), uint64(p.Bellatrix.Message.ProposerIndex), &p.Bellatrix.Signature, true
		}
	case eth2spec.DataVersionCapella:
		if p.Blinded && p.CapellaBlinded != nil {
			return p.CapellaBlinded.Message, uint64(p.CapellaBlinded.Message.Slot), uint64(p.CapellaBlinded.Message.ProposerIndex), &p.CapellaBlinded.Signature, true
		}
		if !p.Blinded && p.Capella != nil {
			return p.Capella.Message, uint64(p.Capella.Message.Slot), uint64(p.Capella.Message.ProposerIndex), &p.Capella.Signature, true
		}
	case eth2spec.DataVersionDeneb:
		if p.Blinded && p.DenebBlinded != nil {
			return p.DenebBlinded.Message, uint64(p.DenebBlinded.Message.Slot), uint64(p.DenebBlinded.Message.ProposerIndex), &p.DenebBlinded.Signature, true
		}
		if !p.Blinded && p.Deneb != nil {
			return p.Deneb.SignedBlock.Message, uint64(p.Deneb.SignedBlock.Message.Slot), uint64(p.Deneb.SignedBlock.Message.ProposerIndex), &p.Deneb.SignedBlock.Signature, true
		}
	case eth2spec.DataVersionElectra:
		if p.Blinded && p.ElectraBlinded != nil {
			return p.ElectraBlinded.Message, uint64(p.ElectraBlinded.Message.Slot), uint64(p.ElectraBlinded.Message.ProposerIndex), &p.ElectraBlinded.Signature, true
		}
		if !p.Blinded && p.Electra != nil {
			return p.Electra.SignedBlock.Message, uint64(p.Electra.SignedBlock.Message.Slot), uint64(p.Electra.SignedBlock.Message.ProposerIndex), &p.Electra.SignedBlock.Signature, true
		}
	case eth2spec.DataVersionFulu:
		if p.Blinded && p.FuluBlinded != nil {
			return p.FuluBlinded.Message, uint64(p.FuluBlinded.Message.Slot), uint64(p.FuluBlinded.Message.ProposerIndex), &p.FuluBlinded.Signature, true
		}
		if !p.Blinded && p.Fulu != nil {
			return p.Fulu.SignedBlock.Message, uint64(p.Fulu.SignedBlock.Message.Slot), uint64(p.Fulu.SignedBlock.Message.ProposerIndex), &p.Fulu.SignedBlock.Signature, true
		}
	}
	return nil, 0, 0, nil, false
}

func asProposal(s *sample) *eth2api.VersionedSignedProposal {
	if s.kind == kProp {
		return s.obj.(*eth2api.VersionedSignedProposal)
	}
	bp := s.obj.(*eth2api.VersionedSignedBlindedProposal)
	return &eth2api.VersionedSignedProposal{Version: bp.Version, Blinded: true, BellatrixBlinded: bp.Bellatrix,
		CapellaBlinded: bp.Capella, DenebBlinded: bp.Deneb, ElectraBlinded: bp.Electra, FuluBlinded: bp.Fulu}
}

// aggParts: message, slot, aggregator index, inner selection proof, signature pointer.
func aggParts(v *eth2spec.VersionedSignedAggregateAndProof) (htr, uint64, uint64, eth2p0.BLSSignature, *eth2p0.BLSSignature, bool) {
	var a *eth2p0.SignedAggregateAndProof
	switch v.Version {
	case eth2spec.DataVersionPhase0:
		a = v.Phase0
	case eth2spec.DataVersionAltair:
		a = v.Altair
	case eth2spec.DataVersionBellatrix:
		a = v.Bellatrix
	case eth2spec.DataVersionCapella:
		a = v.Capella
	case eth2spec.DataVersionDeneb:
		a = v.Deneb
	case eth2spec.DataVersionElectra, eth2spec.DataVersionFulu:
		e := v.Electra
		if v.Version == eth2spec.DataVersionFulu {
			e = v.Fulu
		}
		if e == nil {
			return nil, 0, 0, eth2p0.BLSSignature{}, nil, false
		}
		return e.Message, uint64(e.Message.Aggregate.Data.Slot), uint64(e.Message.AggregatorIndex), e.Message.SelectionProof, &e.Signature, true
	default:
		return nil, 0, 0, eth2p0.BLSSignature{}, nil, false
	}
	if a == nil {
		return nil, 0, 0, eth2p0.BLSSignature{}, nil, false
	}
	return a.Message, uint64(a.Message.Aggregate.Data.Slot), uint64(a.Message.AggregatorIndex), a.Message.SelectionProof, &a.Signature, true
}

func mustRoot(h htr) *[32]byte {
	r, err := h.HashTreeRoot()
	if err != nil {
		return nil
	}
	return &r
}

func up(x uint64) *uint64 { return &x }

// sigPtr returns a pointer to the object's signature bytes (nil if the shape is broken).
func (s *sample) sigPtr() *eth2p0.BLSSignature {
	switch s.kind {
	case kAtt:
		_, sp, _ := p0AttOf(s.obj.(*eth2spec.VersionedAttestation))
		return sp
	case kRandao:
		return &s.obj.(*randaoS).Signature
	case kProp, kBProp:
		_, _, _, sp, _ := propParts(asProposal(s))
		return sp
	case kExit:
		return &s.obj.(*eth2p0.SignedVoluntaryExit).Signature
	case kBcSel:
		return &s.obj.(*eth2v1.BeaconCommitteeSelection).SelectionProof
	case kAgg:
		_, _, _, _, sp, _ := aggParts(s.obj.(*eth2spec.VersionedSignedAggregateAndProof))
		return sp
	case kOldAgg:
		return &s.obj.(*eth2p0.SignedAggregateAndProof).Signature
	case kSyncMsg:
		return &s.obj.(*altair.SyncCommitteeMessage).Signature
	case kContrib:
		return &s.obj.(*altair.SignedContributionAndProof).Signature
	case kSyncSel:
		return &s.obj.(*eth2v1.SyncCommitteeSelection).SelectionProof
	case kReg:
		return &s.obj.(*eth2api.VersionedSignedValidatorRegistration).V1.Signature
	}
	return nil
}

func (s *sample) view() view {
	v := view{dom: -1}
	if sp := s.sigPtr(); sp != nil {
		v.sig = *sp
	}
	switch s.kind {
	case kAtt:
		v.ty, v.dom = tyAttestation, domAttester
		va := s.obj.(*eth2spec.VersionedAttestation)
		v.valIdx = nil
		if va.ValidatorIndex != nil {
			v.valIdx = up(uint64(*va.ValidatorIndex))
		}
		if d, _, ok := p0AttOf(va); ok && d != nil && d.Target != nil && d.Source != nil {
			v.epoch, v.root, v.slot = up(uint64(d.Target.Epoch)), mustRoot(d), uint64(d.Slot)
		}
	case kRandao:
		r := s.obj.(*randaoS)
		v.ty, v.dom = tyRandao, domRandao
		v.epoch, v.slot = up(uint64(r.epoch())), uint64(r.Slot)
		rt := u64Root(uint64(r.epoch()))
		v.root = &rt
	case kProp, kBProp:
		v.ty, v.dom = tyProposal, domProposer
		if m, slot, pi, _, ok := propParts(asProposal(s)); ok {
			v.root, v.slot, v.valIdx = mustRoot(m), slot, up(pi)
			// the object's epoch comes from the Slot accessor of the go-eth2-client type, which (in the
			// fork the repo pins) knows no pre-merge block versions: such proposals have no epoch
			if _, err := asProposal(s).Slot(); err == nil {
				v.epoch = up(slot / spe)
			}
		}
	case kExit:
		e := s.obj.(*eth2p0.SignedVoluntaryExit)
		v.ty, v.dom = tyExit, domExit
		v.epoch, v.root, v.slot, v.valIdx = up(uint64(e.Message.Epoch)), mustRoot(e.Message), uint64(e.Message.Epoch)*spe, up(uint64(e.Message.ValidatorIndex))
	case kBcSel:
		b := s.obj.(*eth2v1.BeaconCommitteeSelection)
		v.ty, v.dom = tyBcSelection, domSelection
		rt := u64Root(uint64(b.Slot))
		v.epoch, v.root, v.slot, v.valIdx = up(uint64(b.Slot)/spe), &rt, uint64(b.Slot), up(uint64(b.ValidatorIndex))
	case kAgg:
		v.ty, v.dom = tyVAggProof, domAggAndProof
		if m, slot, ai, _, _, ok := aggParts(s.obj.(*eth2spec.VersionedSignedAggregateAndProof)); ok {
			v.epoch, v.root, v.slot, v.valIdx = up(slot/spe), mustRoot(m), slot, up(ai)
		}
	case kOldAgg:
		a := s.obj.(*eth2p0.SignedAggregateAndProof)
		v.ty, v.dom = tyAggProof, domAggAndProof
		slot := uint64(a.Message.Aggregate.Data.Slot)
		v.epoch, v.root, v.slot, v.valIdx = up(slot/spe), mustRoot(a.Message), slot, up(uint64(a.Message.AggregatorIndex))
	case kSyncMsg:
		m := s.obj.(*altair.SyncCommitteeMessage)
		v.ty, v.dom = tySyncMessage, domSyncComm
		rt := [32]byte(m.BeaconBlockRoot)
		v.epoch, v.root, v.slot, v.valIdx = up(uint64(m.Slot)/spe), &rt, uint64(m.Slot), up(uint64(m.ValidatorIndex))
	case kContrib:
		c := s.obj.(*altair.SignedContributionAndProof)
		v.ty, v.dom = tyContribution, domContribAndProof
		slot := uint64(c.Message.Contribution.Slot)
		v.epoch, v.root, v.slot, v.subcomm, v.valIdx = up(slot/spe), mustRoot(c.Message), slot, c.Message.Contribution.SubcommitteeIndex, up(uint64(c.Message.AggregatorIndex))
	case kSyncSel:
		x := s.obj.(*eth2v1.SyncCommitteeSelection)
		v.ty, v.dom = tySyncSelection, domSyncSelection
		d := &altair.SyncAggregatorSelectionData{Slot: x.Slot, SubcommitteeIndex: x.SubcommitteeIndex}
		v.epoch, v.root, v.slot, v.subcomm, v.valIdx = up(uint64(x.Slot)/spe), mustRoot(d), uint64(x.Slot), x.SubcommitteeIndex, up(uint64(x.ValidatorIndex))
	case kReg:
		r := s.obj.(*eth2api.VersionedSignedValidatorRegistration)
		v.ty, v.dom = tyRegistration, domBuilder
		v.epoch, v.root = up(0), mustRoot(r.V1.Message)
	case kRaw:
		v.ty = tyRawSig
		copy(v.sig[:], *s.obj.(*core.Signature))
	}
	return v
}

func (s *sample) setSig(sig [96]byte) {
	if s.kind == kRaw {
		b := core.Signature(append([]byte(nil), sig[:]...))
		*s.obj.(*core.Signature) = b
		return
	}
	if sp := s.sigPtr(); sp != nil {
		*sp = sig
	}
}

// toCore wraps (a deep copy of) the object with the repo's own constructors.
func (s *sample) toCore(shareIdx int) (core.ParSignedData, error) {
	switch s.kind {
	case kAtt:
		return core.NewPartialVersionedAttestation(s.obj.(*eth2spec.VersionedAttestation), shareIdx)
	case kRandao:
		r := s.obj.(*randaoS)
		return core.NewPartialSignedRandao(r.epoch(), r.Signature, shareIdx), nil
	case kProp:
		return core.NewPartialVersionedSignedProposal(s.obj.(*eth2api.VersionedSignedProposal), shareIdx)
	case kBProp:
		return core.NewPartialVersionedSignedBlindedProposal(s.obj.(*eth2api.VersionedSignedBlindedProposal), shareIdx)
	case kExit:
		return core.NewPartialSignedVoluntaryExit(s.obj.(*eth2p0.SignedVoluntaryExit), shareIdx), nil
	case kBcSel:
		return core.NewPartialSignedBeaconCommitteeSelection(s.obj.(*eth2v1.BeaconCommitteeSelection), shareIdx), nil
	case kAgg:
		return core.NewPartialVersionedSignedAggregateAndProof(s.obj.(*eth2spec.VersionedSignedAggregateAndProof), shareIdx), nil
	case kOldAgg:
		return core.NewPartialSignedAggregateAndProof(s.obj.(*eth2p0.SignedAggregateAndProof), shareIdx), nil
	case kSyncMsg:
		return core.NewPartialSignedSyncMessage(s.obj.(*altair.SyncCommitteeMessage), shareIdx), nil
	case kContrib:
		return core.NewPartialSignedSyncContributionAndProof(s.obj.(*altair.SignedContributionAndProof), shareIdx), nil
	case kSyncSel:
		return core.NewPartialSignedSyncCommitteeSelection(s.obj.(*eth2v1.SyncCommitteeSelection), shareIdx), nil
	case kReg:
		return core.NewPartialVersionedSignedValidatorRegistration(s.obj.(*eth2api.VersionedSignedValidatorRegistration), shareIdx)
	case kRaw:
		return core.NewPartialSignature(*s.obj.(*core.Signature), shareIdx), nil
	}
	panic("bad kind")
}

// =============================================================================================
// reflection walk: every leaf field of the submitted object

type leaf struct {
	v    reflect.Value
	path string
}

var bigIntT = reflect.TypeOf(big.Int{})
var timeT = reflect.TypeOf(time.Time{})

func walk(v reflect.Value, path string, out *[]leaf) {
	switch v.Kind() {
	case reflect.Ptr:
		if !v.IsNil() {
			walk(v.Elem(), path, out)
		}
	case reflect.Struct:
		if v.Type() == bigIntT {
			return
		}
		if v.Type() == timeT {
			*out = append(*out, leaf{v, path})
			return
		}
		for i := 0; i < v.NumField(); i++ {
			if v.Type().Field(i).IsExported() {
				walk(v.Field(i), path+"."+v.Type().Field(i).Name, out)
			}
		}
	case reflect.Array, reflect.Slice:
		if v.Type().Elem().Kind() == reflect.Uint8 {
			if v.Len() > 0 {
				*out = append(*out, leaf{v, path})
			}
			return
		}
		for i := 0; i < v.Len(); i++ {
			walk(v.Index(i), fmt.Sprintf("%s[%d]", path, i), out)
		}
	case reflect.Uint8, reflect.Uint16, reflect.Uint32, reflect.Uint64, reflect.Uint, reflect.Int, reflect.Int32, reflect.Int64, reflect.Bool:
		*out = append(*out, leaf{v, path})
	}
}

func leavesOf(obj any) []leaf {
	var out []leaf
	walk(reflect.ValueOf(obj), "", &out)
	return out
}

// mutate changes the leaf (flips one bit chosen by `bit`); returns a short description.
func mutate(l leaf, bit uint64) {
	v := l.v
	switch v.Kind() {
	case reflect.Bool:
		v.SetBool(!v.Bool())
	case reflect.Uint8, reflect.Uint16, reflect.Uint32, reflect.Uint64, reflect.Uint:
		v.SetUint(v.Uint() ^ (1 << (bit % uint64(v.Type().Bits()))))
	case reflect.Int, reflect.Int32, reflect.Int64:
		v.SetInt(v.Int() ^ (1 << (bit % uint64(v.Type().Bits()-1))))
	case reflect.Array, reflect.Slice:
		i := int(bit/8) % v.Len()
		e := v.Index(i)
		e.SetUint(e.Uint() ^ (1 << (bit % 8)))
	case reflect.Struct: // time.Time
		t := v.Interface().(time.Time)
		v.Set(reflect.ValueOf(t.Add(time.Second)))
	}
}

// =============================================================================================
// interning (per episode) and small helpers

type episode struct {
	cl      *cluster
	cur     uint64 // wall-clock epoch of the gater
	allowed int
	gater   core.DutyGaterFunc
	roots   map[[32]byte]int
	sigs    map[[96]byte]int
	objs    map[[32]byte]int
	vals    map[string]int
	keyIDs  map[tbls.PublicKey]int
	comps   map[string]*validatorapi.Component
	px      map[int]*parsigex.ParSigEx
}

func (e *episode) rootID(r [32]byte) int {
	if id, ok := e.roots[r]; ok {
		return id
	}
	e.roots[r] = len(e.roots) + 1
	return len(e.roots)
}

func (e *episode) sigID(s [96]byte) int {
	if s == ([96]byte{}) {
		return 0
	}
	if id, ok := e.sigs[s]; ok {
		return id
	}
	e.sigs[s] = len(e.sigs) + 1
	return len(e.sigs)
}

func (e *episode) objID(sd any) int {
	b, err := json.Marshal(sd)
	if err != nil {
		b = []byte("unmarshalable:" + err.Error())
	}
	h := sha256.Sum256(b)
	if id, ok := e.objs[h]; ok {
		return id
	}
	e.objs[h] = len(e.objs) + 1
	return len(e.objs)
}

// validator id of a core pubkey: cluster validators 1..m, anything else interned from 100.
func (e *episode) valID(pk core.PubKey) int {
	for i, c := range e.cl.corePks {
		if c == pk {
			return i + 1
		}
	}
	if id, ok := e.vals[string(pk)]; ok {
		return id
	}
	e.vals[string(pk)] = 100 + len(e.vals)
	return e.vals[string(pk)]
}

func (e *episode) lockStr() string {
	var vs []string
	for i, pk := range e.cl.corePks {
		var idxs []int
		for idx := range e.cl.pubshares[pk] {
			idxs = append(idxs, idx)
		}
		sort.Ints(idxs)
		var ps []string
		for _, idx := range idxs {
			ps = append(ps, fmt.Sprintf("%d.%d", idx, e.keyIDs[e.cl.pubshares[pk][idx]]))
		}
		vs = append(vs, fmt.Sprintf("%d:%s", i+1, strings.Join(ps, ",")))
	}
	return strings.Join(vs, ";")
}

func optU(p *uint64) string {
	if p == nil {
		return "x"
	}
	return strconv.FormatUint(*p, 10)
}

func b01(b bool) string {
	if b {
		return "1"
	}
	return "0"
}

func dashIfEmpty(s string) string {
	if s == "" {
		return "-"
	}
	return s
}

// objStr renders the abstract object `id:ty:epoch:root:sig`.
func (e *episode) objStr(id int, v view) string {
	root := "x"
	if v.root != nil {
		root = strconv.Itoa(e.rootID(*v.root))
	}
	return fmt.Sprintf("%d:%d:%s:%s:%d", id, v.ty, optU(v.epoch), root, e.sigID(v.sig))
}

// factsFor returns the (key,dom,epoch,root,sig) tuples on which tbls.Verify accepts the view's
// signature, trying every key of the cluster (keys are distinct: at most one can accept).
func (e *episode) factsFor(v view, facts map[string]bool) (okKey *tbls.PublicKey) {
	if v.dom < 0 || v.epoch == nil || v.root == nil || v.sig == ([96]byte{}) {
		return nil
	}
	sr := signingRoot(v.dom, *v.epoch, *v.root)
	for i := range e.cl.allKeys {
		k := e.cl.allKeys[i]
		if tbls.Verify(k, sr[:], tbls.Signature(v.sig)) == nil {
			facts[fmt.Sprintf("%d.%d.%d.%d.%d", e.keyIDs[k], v.dom, *v.epoch, e.rootID(*v.root), e.sigID(v.sig))] = true
			return &k
		}
	}
	return nil
}

func sortedKeys(m map[string]bool) string {
	var ks []string
	for k := range m {
		ks = append(ks, k)
	}
	sort.Strings(ks)
	return strings.Join(ks, ",")
}

// =============================================================================================
// signing with substitutions

type signPlan struct {
	secret    tbls.PrivateKey
	dom       int   // -1: the object's own
	forkEpoch int64 // -1: the object's own epoch
	otherGVR  bool
}

func signView(v view, p signPlan) ([96]byte, bool) {
	if v.dom < 0 || v.epoch == nil || v.root == nil {
		return [96]byte{}, false
	}
	dom, fe, gvr := v.dom, *v.epoch, genesisVR
	if p.dom >= 0 {
		dom = p.dom
	}
	if p.forkEpoch >= 0 {
		fe = uint64(p.forkEpoch)
	}
	if p.otherGVR {
		gvr[5] ^= 0x40
	}
	sr := signingRootWith(dom, fe, gvr, *v.root)
	sig, err := tbls.Sign(p.secret, sr[:])
	hx.Must(err)
	return [96]byte(sig), true
}

// secretFor picks the signing key of an item: validator position `val` (-1 the extra validator,
// -2 nobody: the extra key again), share index `share` (0: the group secret).
func (c *cluster) secretFor(val, share int) tbls.PrivateKey {
	if val < 0 || val >= c.m {
		return c.xSecret
	}
	if share == 0 {
		return c.secrets[val]
	}
	if s, ok := c.shares[val][share]; ok {
		return s
	}
	return c.xSecret
}

type alt struct {
	kind string
	a, b uint64
}

func parseAlt(s string) alt {
	p := strings.Split(s, ".")
	al := alt{kind: p[0]}
	if len(p) > 1 {
		al.a, _ = strconv.ParseUint(p[1], 10, 64)
	}
	if len(p) > 2 {
		al.b, _ = strconv.ParseUint(p[2], 10, 64)
	}
	return al
}

func (a alt) String() string {
	switch a.kind {
	case "field", "wire":
		return fmt.Sprintf("%s.%d.%d", a.kind, a.a, a.b)
	case "share", "val", "dom", "fork", "idx", "key", "xsig":
		return fmt.Sprintf("%s.%d", a.kind, a.a)
	}
	return a.kind
}

// signSample signs the sample as validator `val`'s share `share` would, bent by the alteration.
func signSample(c *cluster, s *sample, val, share int, a alt, r *hx.Rng) {
	plan := signPlan{secret: c.secretFor(val, share), dom: -1, forkEpoch: -1}
	switch a.kind {
	case "share":
		plan.secret = c.secretFor(val, int(a.a))
	case "val":
		plan.secret = c.secretFor(int(a.a), share)
	case "group":
		plan.secret = c.secretFor(val, 0)
	case "dom":
		plan.dom = int(a.a)
	case "fork":
		plan.forkEpoch = int64(a.a)
	case "gvr":
		plan.otherGVR = true
	}
	v := s.view()
	sig, ok := signView(v, plan)
	if !ok {
		return
	}
	switch a.kind {
	case "zero":
		sig = [96]byte{}
	case "inf":
		sig = [96]byte{0xc0}
	case "rand":
		for i := range sig {
			sig[i] = byte(r.U64())
		}
	case "negate": // flip the sign bit of the compressed point: -sig, a valid point that does not verify
		sig[0] ^= 0x20
	}
	s.setSig(sig)
}

// setInnerProof fills the group-signed inner selection proof of aggregate / contribution objects.
func setInnerProof(c *cluster, s *sample, val int, how string) {
	sec := c.secretFor(val, 0)
	if how == "innershare" {
		sec = c.secretFor(val, 1)
	}
	var sr [32]byte
	var dst *eth2p0.BLSSignature
	switch s.kind {
	case kAgg:
		v := s.obj.(*eth2spec.VersionedSignedAggregateAndProof)
		_, slot, _, _, _, ok := aggParts(v)
		if !ok {
			return
		}
		sr = signingRoot(domSelection, slot/spe, u64Root(slot))
		switch {
		case v.Electra != nil:
			dst = &v.Electra.Message.SelectionProof
		case v.Fulu != nil:
			dst = &v.Fulu.Message.SelectionProof
		default:
			for _, a := range []*eth2p0.SignedAggregateAndProof{v.Phase0, v.Altair, v.Bellatrix, v.Capella, v.Deneb} {
				if a != nil {
					dst = &a.Message.SelectionProof
				}
			}
		}
	case kOldAgg:
		a := s.obj.(*eth2p0.SignedAggregateAndProof)
		slot := uint64(a.Message.Aggregate.Data.Slot)
		sr = signingRoot(domSelection, slot/spe, u64Root(slot))
		dst = &a.Message.SelectionProof
	case kContrib:
		cp := s.obj.(*altair.SignedContributionAndProof)
		d := &altair.SyncAggregatorSelectionData{Slot: cp.Message.Contribution.Slot, SubcommitteeIndex: cp.Message.Contribution.SubcommitteeIndex}
		rt, err := d.HashTreeRoot()
		hx.Must(err)
		sr = signingRoot(domSyncSelection, uint64(cp.Message.Contribution.Slot)/spe, rt)
		dst = &cp.Message.SelectionProof
	default:
		return
	}
	sig, err := tbls.Sign(sec, sr[:])
	hx.Must(err)
	*dst = eth2p0.BLSSignature(sig)
	switch how {
	case "innerzero":
		*dst = eth2p0.BLSSignature{}
	case "innerbad":
		dst[40] ^= 1
	}
}

// innerOK is the harness's own check of the inner selection proof under group key `pub`.
func innerOK(s *sample, pub tbls.PublicKey) bool {
	var sr [32]byte
	var proof eth2p0.BLSSignature
	switch s.kind {
	case kAgg:
		_, slot, _, pr, _, ok := aggParts(s.obj.(*eth2spec.VersionedSignedAggregateAndProof))
		if !ok {
			return false
		}
		sr, proof = signingRoot(domSelection, slot/spe, u64Root(slot)), pr
	case kContrib:
		cp := s.obj.(*altair.SignedContributionAndProof)
		d := &altair.SyncAggregatorSelectionData{Slot: cp.Message.Contribution.Slot, SubcommitteeIndex: cp.Message.Contribution.SubcommitteeIndex}
		rt, err := d.HashTreeRoot()
		if err != nil {
			return false
		}
		sr, proof = signingRoot(domSyncSelection, uint64(cp.Message.Contribution.Slot)/spe, rt), cp.Message.SelectionProof
	default:
		return true
	}
	if proof == (eth2p0.BLSSignature{}) {
		return false
	}
	return tbls.Verify(pub, sr[:], tbls.Signature(proof)) == nil
}

// =============================================================================================
// validator client door

var vcMethods = []string{"SubmitAttestations", "Proposal", "SubmitProposal", "SubmitBlindedProposal", "SubmitVoluntaryExit",
	"BeaconCommitteeSelections", "SubmitAggregateAttestations", "SubmitSyncCommitteeMessages",
	"SubmitSyncCommitteeContributions", "SyncCommitteeSelections"}

var vcKind = map[string]int{"SubmitAttestations": kAtt, "Proposal": kRandao, "SubmitProposal": kProp, "SubmitBlindedProposal": kBProp,
	"SubmitVoluntaryExit": kExit, "BeaconCommitteeSelections": kBcSel, "SubmitAggregateAttestations": kAgg,
	"SubmitSyncCommitteeMessages": kSyncMsg, "SubmitSyncCommitteeContributions": kContrib, "SyncCommitteeSelections": kSyncSel}

var vcDutyType = map[string]core.DutyType{"SubmitAttestations": core.DutyAttester, "Proposal": core.DutyRandao,
	"SubmitProposal": core.DutyProposer, "SubmitBlindedProposal": core.DutyProposer, "SubmitVoluntaryExit": core.DutyExit,
	"BeaconCommitteeSelections": core.DutyPrepareAggregator, "SubmitAggregateAttestations": core.DutyAggregator,
	"SubmitSyncCommitteeMessages": core.DutySyncMessage, "SubmitSyncCommitteeContributions": core.DutySyncContribution,
	"SyncCommitteeSelections": core.DutyPrepareSyncContribution}

func isBatch(m string) bool {
	switch m {
	case "Proposal", "SubmitProposal", "SubmitBlindedProposal", "SubmitVoluntaryExit":
		return false
	}
	return true
}

type itemSpec struct {
	val     int // cluster position; -1: active on the beacon node but not in the lock; -2: nobody
	ver     int
	blinded bool
	epoch   uint64
	slotOff uint64
	subcomm uint64
	alt     alt
}

func (it itemSpec) String() string {
	b := ""
	if it.blinded {
		b = "b"
	}
	return fmt.Sprintf("%d/%d%s/%d/%d/%d/%s", it.val, it.ver, b, it.epoch, it.slotOff, it.subcomm, it.alt)
}

func parseItemSpec(s string) itemSpec {
	p := strings.Split(s, "/")
	if len(p) != 6 {
		panic("bad item spec " + s)
	}
	var it itemSpec
	it.val, _ = strconv.Atoi(p[0])
	if strings.HasSuffix(p[1], "b") {
		it.blinded = true
		p[1] = strings.TrimSuffix(p[1], "b")
	}
	it.ver, _ = strconv.Atoi(p[1])
	it.epoch, _ = strconv.ParseUint(p[2], 10, 64)
	it.slotOff, _ = strconv.ParseUint(p[3], 10, 64)
	it.subcomm, _ = strconv.ParseUint(p[4], 10, 64)
	it.alt = parseAlt(p[5])
	return it
}

func (c *cluster) valIdxOf(pos int) uint64 {
	switch {
	case pos >= 0 && pos < c.m:
		return uint64(valIdxBase + pos)
	case pos == -1:
		return xValIdx
	}
	return 777
}

func (c *cluster) corePkOf(pos int) (core.PubKey, bool) {
	switch {
	case pos >= 0 && pos < c.m:
		return c.corePks[pos], true
	case pos == -1:
		pk, err := core.PubKeyFromBytes(c.xPub[:])
		hx.Must(err)
		return pk, true
	}
	return "", false
}

func (c *cluster) groupPubOf(pos int) (tbls.PublicKey, bool) {
	switch {
	case pos >= 0 && pos < c.m:
		return c.pubkeys[pos], true
	case pos == -1:
		return c.xPub, true
	}
	return tbls.PublicKey{}, false
}

// environment of one VC call: what the registered input functions answer.
type attDuty struct {
	slot, commIdx, valIdx, vci, commLen uint64
	pk                                  core.PubKey
}

type vcEnv struct {
	att       []attDuty
	proposer  map[uint64]core.PubKey
	proposals map[uint64]*eth2api.VersionedProposal
	subCalls  int
	failAt    int
	calls     []obsCall
}

type obsCall struct {
	sub  int
	duty core.Duty
	set  core.ParSignedDataSet
}

var env *vcEnv

var errSubFail = fmt.Errorf("harness-sub-fail")

func (e *episode) component(node, nsub int) *validatorapi.Component {
	key := fmt.Sprintf("%d/%d", node, nsub)
	if c, ok := e.comps[key]; ok {
		return c
	}
	comp, err := validatorapi.NewComponent(e.cl.mock, e.cl.pubshares, node, nil, false, 30000000)
	hx.Must(err)
	comp.RegisterPubKeyByAttestation(func(_ context.Context, slot, commIdx, valIdx uint64) (core.PubKey, error) {
		for _, d := range env.att {
			if d.slot == slot && d.commIdx == commIdx && d.valIdx == valIdx {
				return d.pk, nil
			}
		}
		return "", fmt.Errorf("harness: no attester duty")
	})
	comp.RegisterGetDutyDefinition(func(_ context.Context, duty core.Duty) (core.DutyDefinitionSet, error) {
		res := core.DutyDefinitionSet{}
		switch duty.Type {
		case core.DutyAttester:
			for _, d := range env.att {
				if d.slot == duty.Slot {
					res[d.pk] = core.NewAttesterDefinition(&eth2v1.AttesterDuty{Slot: eth2p0.Slot(d.slot), ValidatorIndex: eth2p0.ValidatorIndex(d.valIdx),
						CommitteeIndex: eth2p0.CommitteeIndex(d.commIdx), CommitteeLength: d.commLen, CommitteesAtSlot: 8, ValidatorCommitteeIndex: d.vci})
				}
			}
		case core.DutyProposer:
			pk, ok := env.proposer[duty.Slot]
			if !ok {
				return nil, fmt.Errorf("harness: no proposer duty")
			}
			res[pk] = core.NewProposerDefinition(&eth2v1.ProposerDuty{Slot: eth2p0.Slot(duty.Slot)})
		}
		return res, nil
	})
	comp.RegisterAwaitProposal(func(_ context.Context, slot uint64) (*eth2api.VersionedProposal, error) {
		p, ok := env.proposals[slot]
		if !ok {
			return nil, fmt.Errorf("harness: no consensus proposal")
		}
		return p, nil
	})
	comp.RegisterAwaitAggSigDB(func(_ context.Context, duty core.Duty, _ core.PubKey, _ core.SubcommitteeIndex) (core.SignedData, error) {
		if duty.Type == core.DutyPrepareAggregator {
			return core.NewBeaconCommitteeSelection(&eth2v1.BeaconCommitteeSelection{Slot: eth2p0.Slot(duty.Slot)}), nil
		}
		return core.NewSyncCommitteeSelection(&eth2v1.SyncCommitteeSelection{Slot: eth2p0.Slot(duty.Slot)}), nil
	})
	for s := 0; s < nsub; s++ {
		s := s
		comp.Subscribe(func(_ context.Context, duty core.Duty, set core.ParSignedDataSet) error {
			env.calls = append(env.calls, obsCall{s, duty, set})
			k := env.subCalls
			env.subCalls++
			if env.failAt >= 0 && k == env.failAt {
				return errSubFail
			}
			return nil
		})
	}
	e.comps[key] = comp
	return comp
}

// unsignedOf builds the consensus proposal (what dutydb would hold) for a signed proposal.
func unsignedOf(p *eth2api.VersionedSignedProposal) *eth2api.VersionedProposal {
	u := &eth2api.VersionedProposal{Version: p.Version, Blinded: p.Blinded}
	switch {
	case p.Phase0 != nil:
		u.Phase0 = p.Phase0.Message
	case p.Altair != nil:
		u.Altair = p.Altair.Message
	case p.Bellatrix != nil:
		u.Bellatrix = p.Bellatrix.Message
	case p.BellatrixBlinded != nil:
		u.BellatrixBlinded = p.BellatrixBlinded.Message
	case p.Capella != nil:
		u.Capella = p.Capella.Message
	case p.CapellaBlinded != nil:
		u.CapellaBlinded = p.CapellaBlinded.Message
	case p.Deneb != nil:
		u.Deneb = &eth2deneb.BlockContents{Block: p.Deneb.SignedBlock.Message, KZGProofs: p.Deneb.KZGProofs, Blobs: p.Deneb.Blobs}
	case p.DenebBlinded != nil:
		u.DenebBlinded = p.DenebBlinded.Message
	case p.Electra != nil:
		u.Electra = &eth2electra.BlockContents{Block: p.Electra.SignedBlock.Message, KZGProofs: p.Electra.KZGProofs, Blobs: p.Electra.Blobs}
	case p.ElectraBlinded != nil:
		u.ElectraBlinded = p.ElectraBlinded.Message
	case p.Fulu != nil:
		u.Fulu = &eth2fulu.BlockContents{Block: p.Fulu.SignedBlock.Message, KZGProofs: p.Fulu.KZGProofs, Blobs: p.Fulu.Blobs}
	case p.FuluBlinded != nil:
		u.FuluBlinded = p.FuluBlinded.Message
	}
	return u
}

// deepCopyJSON clones a go-eth2-client value through its JSON codec.
func deepCopyJSON[T any](src *T) *T {
	b, err := json.Marshal(src)
	hx.Must(err)
	dst := new(T)
	hx.Must(json.Unmarshal(b, dst))
	return dst
}

// consensusRootOf: version, blinded, proposer index and block root of a consensus proposal.
type propID struct {
	ver     eth2spec.DataVersion
	blinded bool
	pidx    uint64
	root    [32]byte
}

func propIDOfSigned(p *eth2api.VersionedSignedProposal) (propID, bool) {
	m, _, pi, _, ok := propParts(p)
	if !ok {
		return propID{}, false
	}
	r := mustRoot(m)
	if r == nil {
		return propID{}, false
	}
	return propID{p.Version, p.Blinded, pi, *r}, true
}

func classifyVC(err error, inner bool) string {
	if err == nil {
		return "ok"
	}
	s := err.Error()
	has := func(x string) bool { return strings.Contains(s, x) }
	switch {
	case has("harness-sub-fail"):
		return "suberr"
	case has("consensus proposal and VC-submitted one do not match"):
		return "gate"
	case has("unknown public key"):
		return "unknown"
	case has("invalid eth2 signed data"):
		return "noteth2"
	case has("no signature found"):
		if inner {
			return "sig"
		}
		return "zerosig"
	case has("signature not verified"), has("unmarshal signature into Herumi"), has("set compressed public key"):
		if inner {
			return "sig"
		}
		return "badsig"
	}
	return "pre"
}

func hasInnerGate(m string) bool {
	return m == "SubmitAggregateAttestations" || m == "SubmitSyncCommitteeContributions"
}

func subcommOfPayload(p core.ParSignedData) uint64 {
	switch d := p.SignedData.(type) {
	case core.SignedSyncContributionAndProof:
		return d.Message.Contribution.SubcommitteeIndex
	case core.SyncCommitteeSelection:
		return d.SubcommitteeIndex
	}
	return 0
}

// payloadView re-derives a sample from a delivered payload so that the monitors can judge it with
// the harness's own view.
func sampleOfCore(sd core.SignedData) *sample {
	switch d := sd.(type) {
	case core.VersionedAttestation:
		return &sample{kAtt, &d.VersionedAttestation}
	case core.VersionedSignedProposal:
		return &sample{kProp, &d.VersionedSignedProposal}
	case core.SignedVoluntaryExit:
		return &sample{kExit, &d.SignedVoluntaryExit}
	case core.VersionedSignedValidatorRegistration:
		return &sample{kReg, &d.VersionedSignedValidatorRegistration}
	case core.SignedRandao:
		return &sample{kRandao, &randaoS{Epoch: d.SignedEpoch.Epoch, Signature: d.SignedEpoch.Signature}}
	case core.BeaconCommitteeSelection:
		return &sample{kBcSel, &d.BeaconCommitteeSelection}
	case core.SignedAggregateAndProof:
		return &sample{kOldAgg, &d.SignedAggregateAndProof}
	case core.VersionedSignedAggregateAndProof:
		return &sample{kAgg, &d.VersionedSignedAggregateAndProof}
	case core.SignedSyncMessage:
		return &sample{kSyncMsg, &d.SyncCommitteeMessage}
	case core.SignedSyncContributionAndProof:
		return &sample{kContrib, &d.SignedContributionAndProof}
	case core.SyncCommitteeSelection:
		return &sample{kSyncSel, &d.SyncCommitteeSelection}
	case core.Signature:
		return &sample{kRaw, &d}
	}
	return nil
}

// monitorDelivered judges every delivered partial with the harness's own eyes.
func (e *episode) monitorDelivered(run *hx.Run, calls []obsCall, where string) {
	for _, c := range calls {
		for pk, par := range c.set {
			s := sampleOfCore(par.SignedData)
			if s == nil {
				run.Violate("admit:invalid_partial_reached_subscriber", where+": payload of unknown type delivered")
				continue
			}
			v := s.view()
			if v.sig == ([96]byte{}) {
				run.Violate("admit:zero_sig_accepted", fmt.Sprintf("%s: zero signature delivered for %s", where, kindNames[s.kind]))
				continue
			}
			shares, known := e.cl.pubshares[pk]
			key, okShare := shares[par.ShareIdx]
			valid := false
			if known && okShare && v.dom >= 0 && v.epoch != nil && v.root != nil {
				sr := signingRoot(v.dom, *v.epoch, *v.root)
				valid = tbls.Verify(key, sr[:], tbls.Signature(v.sig)) == nil
			}
			if valid {
				continue
			}
			if ok := e.factsFor(v, map[string]bool{}); ok != nil {
				run.Violate("admit:wrong_share_accepted", fmt.Sprintf("%s: %s partial filed under validator %d share %d verifies under another key of the cluster", where, kindNames[s.kind], e.valID(pk), par.ShareIdx))
			} else {
				run.Violate("admit:invalid_partial_reached_subscriber", fmt.Sprintf("%s: %s partial for validator %d share %d does not verify", where, kindNames[s.kind], e.valID(pk), par.ShareIdx))
			}
		}
	}
}

func (e *episode) renderCalls(calls []obsCall) string {
	var cs []string
	for _, c := range calls {
		type ent struct {
			v   int
			str string
		}
		var es []ent
		for pk, par := range c.set {
			es = append(es, ent{e.valID(pk), fmt.Sprintf("%d=%d@%d", e.valID(pk), e.objID(par.SignedData), par.ShareIdx)})
		}
		sort.Slice(es, func(i, j int) bool { return es[i].v < es[j].v })
		var ss []string
		for _, x := range es {
			ss = append(ss, x.str)
		}
		cs = append(cs, fmt.Sprintf("s%d:%d:%d:{%s}", c.sub, int(c.duty.Type), c.duty.Slot, strings.Join(ss, ",")))
	}
	return dashIfEmpty(strings.Join(cs, ";"))
}

type vcOp struct {
	method string
	node   int
	nsub   int
	fail   int // -1: no subscriber failure
	seed   uint64
	items  []itemSpec
}

func (o vcOp) recipe() string {
	var is []string
	for _, it := range o.items {
		is = append(is, it.String())
	}
	f := "-"
	if o.fail >= 0 {
		f = strconv.Itoa(o.fail)
	}
	return fmt.Sprintf("vc %s node=%d nsub=%d fail=%s seed=%d items=%s", o.method, o.node, o.nsub, f, o.seed, dashIfEmpty(strings.Join(is, ";")))
}

func kv(tok, key string) string {
	if !strings.HasPrefix(tok, key+"=") {
		panic("expected " + key + "= in " + tok)
	}
	return strings.TrimPrefix(tok, key+"=")
}

func parseVCOp(f []string) vcOp {
	if len(f) != 7 {
		panic("bad vc op")
	}
	o := vcOp{method: f[1], fail: -1}
	o.node, _ = strconv.Atoi(kv(f[2], "node"))
	o.nsub, _ = strconv.Atoi(kv(f[3], "nsub"))
	if x := kv(f[4], "fail"); x != "-" {
		o.fail, _ = strconv.Atoi(x)
	}
	o.seed, _ = strconv.ParseUint(kv(f[5], "seed"), 10, 64)
	if x := kv(f[6], "items"); x != "-" {
		for _, s := range strings.Split(x, ";") {
			o.items = append(o.items, parseItemSpec(s))
		}
	}
	return o
}

// shareContent makes dst sign the same message as src where the signed message does not name the validator
// (sync committee message: slot and block root; attestation: the attestation data).
func shareContent(kind int, dst, src *sample) {
	switch kind {
	case kSyncMsg:
		d, ok1 := dst.obj.(*altair.SyncCommitteeMessage)
		s, ok2 := src.obj.(*altair.SyncCommitteeMessage)
		if ok1 && ok2 {
			d.Slot, d.BeaconBlockRoot = s.Slot, s.BeaconBlockRoot
		}
	case kAtt:
		dv, ok1 := dst.obj.(*eth2spec.VersionedAttestation)
		sv, ok2 := src.obj.(*eth2spec.VersionedAttestation)
		if ok1 && ok2 {
			dd, _, okd := p0AttOf(dv)
			sd, _, oks := p0AttOf(sv)
			if okd && oks && dd != nil && sd != nil {
				idx := dd.Index
				*dd = *sd
				dd.Index = idx
				if dv.Version >= eth2spec.DataVersionElectra {
					dd.Index = sd.Index // the committee is outside the signed data from electra on
				}
			}
		}
	}
}

func (e *episode) execVC(run *hx.Run, o vcOp) {
	ctx := context.Background()
	cl := e.cl
	kind := vcKind[o.method]
	rand.Seed(int64(o.seed))
	r := hx.NewRng(o.seed)
	env = &vcEnv{proposer: map[uint64]core.PubKey{}, proposals: map[uint64]*eth2api.VersionedProposal{}, failAt: o.fail}

	// 1. build, sign, alter
	samples := make([]*sample, len(o.items))
	for i, it := range o.items {
		ba := buildArgs{valIdx: cl.valIdxOf(it.val), ver: it.ver % numVersionsAll(kind), blinded: it.blinded, epoch: it.epoch, slotOff: it.slotOff % spe,
			subcomm: it.subcomm, commIdx: uint64(1 + ((it.val + 8) % 8)), vci: uint64((it.val + 8) % 8), commLen: 8, vcDoor: true}
		if kind == kBProp {
			ba.blinded = true
			ba.ver = 2 + it.ver%5
		}
		if kind == kProp && ba.ver < 2 {
			ba.blinded = false
		}
		s := buildSample(kind, ba)
		samples[i] = s
		inner := "ok"
		if strings.HasPrefix(it.alt.kind, "inner") {
			inner = it.alt.kind
		}
		setInnerProof(cl, s, it.val, inner)
		signSample(cl, s, it.val, o.node, it.alt, r)
		// environment answers are fixed from the honest object (before field alterations)
		hv := s.view()
		if pk, ok := cl.corePkOf(it.val); ok {
			switch kind {
			case kAtt:
				env.att = append(env.att, attDuty{hv.slot, ba.commIdx, ba.valIdx, ba.vci, ba.commLen, pk})
			case kRandao, kProp, kBProp:
				env.proposer[hv.slot] = pk
			}
		}
		switch kind {
		case kRandao:
			env.proposals[hv.slot] = testutil.RandomDenebVersionedProposal()
		case kProp, kBProp:
			cons := unsignedOf(deepCopyJSON(asProposal(s)))
			if it.alt.kind == "gatemiss" {
				other := buildSample(kind, ba)
				cons = unsignedOf(asProposal(other))
			}
			env.proposals[hv.slot] = cons
		}
		if it.alt.kind == "field" {
			ls := leavesOf(s.obj)
			if len(ls) > 0 {
				l := ls[int(it.alt.a)%len(ls)]
				mutate(l, it.alt.b)
				// an object that does not survive its own codec (e.g. a bit list whose last byte became
				// zero) cannot come out of the HTTP router and cannot be cloned for a subscriber: such
				// an alteration is not a possible submission, it is undone
				if par, err := s.toCore(o.node); err == nil {
					if _, err := par.Clone(); err != nil && l.v.Kind() != reflect.Struct {
						mutate(l, it.alt.b)
						run.Count("vc:uncloneable-alteration-undone")
					}
				}
				run.Case(fmt.Sprintf("vc/%s/v%d/field%s", o.method, ba.ver, l.path))
			}
		} else {
			run.Case(fmt.Sprintf("vc/%s/v%d%v/%s", o.method, ba.ver, ba.blinded, it.alt.kind))
		}
	}

	// 1b. cross signatures: item i with alteration xsig.K carries the signed content of item K (where the
	// content does not name the validator) and the signature validator K's share would make over it; a
	// pair pointing at each other is invalid entry by entry although the sum of the two signatures
	// verifies under the sum of the two public shares
	for i, it := range o.items {
		if it.alt.kind != "xsig" || int(it.alt.a) >= len(o.items) || int(it.alt.a) == i {
			continue
		}
		k := int(it.alt.a)
		shareContent(kind, samples[i], samples[k])
		plan := signPlan{secret: cl.secretFor(o.items[k].val, o.node), dom: -1, forkEpoch: -1}
		if sig, ok := signView(samples[i].view(), plan); ok {
			samples[i].setSig(sig)
		}
	}

	// 2. the harness's own view of every element
	facts := map[string]bool{}
	var absItems []string
	allValid := true
	anyGateMiss := false
	for i, it := range o.items {
		s := samples[i]
		v := s.view()
		pre := true
		var valPk *core.PubKey
		gate := true
		par, cerr := s.toCore(o.node)
		if cerr != nil {
			pre = false
		}
		switch kind {
		case kAtt:
			va := s.obj.(*eth2spec.VersionedAttestation)
			d, _, ok := p0AttOf(va)
			if !ok || d == nil {
				pre = false
				break
			}
			commIdx, err := va.CommitteeIndex()
			if err != nil {
				pre = false
				break
			}
			var valIdx uint64
			if va.Version >= eth2spec.DataVersionElectra {
				if va.ValidatorIndex == nil {
					pre = false
					break
				}
				valIdx = uint64(*va.ValidatorIndex)
			} else {
				bits, err := va.AggregationBits()
				if err != nil {
					pre = false
					break
				}
				for _, du := range env.att {
					if du.slot != uint64(d.Slot) || du.commIdx != uint64(d.Index) {
						continue
					}
					idxs := bits.BitIndices()
					if len(idxs) != 1 {
						pre = false
						break
					}
					if du.vci == uint64(idxs[0]) {
						valIdx = du.valIdx
						break
					}
				}
			}
			for _, du := range env.att {
				if du.slot == uint64(d.Slot) && du.commIdx == uint64(commIdx) && du.valIdx == valIdx {
					pk := du.pk
					valPk = &pk
					break
				}
			}
		case kRandao, kProp, kBProp:
			if v.root == nil {
				pre = false
				break
			}
			if kind != kRandao { // accessors of the go-eth2-client type the handler calls first
				if _, err := asProposal(s).Slot(); err != nil {
					pre = false
					break
				}
			}
			if pk, ok := env.proposer[v.slot]; ok {
				if _, ok2 := env.proposals[v.slot]; ok2 {
					valPk = &pk
				}
			}
			if kind != kRandao && valPk != nil {
				want, ok1 := propIDOfSigned(asProposal(s))
				cons := env.proposals[v.slot]
				consSigned := &eth2api.VersionedSignedProposal{Version: cons.Version, Blinded: cons.Blinded}
				_ = consSigned
				got, ok2 := propIDOfUnsigned(cons)
				gate = ok1 && ok2 && want == got
			}
		default:
			if kind == kAgg {
				if _, _, _, _, _, ok := aggParts(s.obj.(*eth2spec.VersionedSignedAggregateAndProof)); !ok {
					pre = false
					break
				}
			}
			if v.valIdx != nil {
				if pub, ok := cl.active[eth2p0.ValidatorIndex(*v.valIdx)]; ok {
					pk, err := core.PubKeyFromBytes(pub[:])
					hx.Must(err)
					valPk = &pk
					if hasInnerGate(o.method) {
						gate = innerOK(s, tbls.PublicKey(pub))
					}
				}
			}
		}
		id := 0
		if cerr == nil {
			id = e.objID(par.SignedData)
		}
		okKey := e.factsFor(v, facts)
		valStr := "-"
		itemValid := pre && valPk != nil && gate
		if valPk != nil {
			valStr = strconv.Itoa(e.valID(*valPk))
			want, ok := cl.pubshares[*valPk][o.node]
			itemValid = itemValid && ok && okKey != nil && *okKey == want
		}
		if !gate {
			anyGateMiss = true
		}
		allValid = allValid && itemValid
		_ = it
		absItems = append(absItems, fmt.Sprintf("%s,%s,%s,%d,%d,%s", b01(pre), valStr, b01(gate), v.slot, v.subcomm, e.objStr(id, v)))
	}

	// 3. the real call
	comp := e.component(o.node, o.nsub)
	var err error
	func() {
		defer func() {
			if p := recover(); p != nil {
				err = fmt.Errorf("harness: panic: %v", p)
				run.Count("vc:panic")
			}
		}()
		switch o.method {
		case "SubmitAttestations":
			var xs []*eth2spec.VersionedAttestation
			for _, s := range samples {
				xs = append(xs, s.obj.(*eth2spec.VersionedAttestation))
			}
			err = comp.SubmitAttestations(ctx, &eth2api.SubmitAttestationsOpts{Attestations: xs})
		case "Proposal":
			rs := samples[0].obj.(*randaoS)
			_, err = comp.Proposal(ctx, &eth2api.ProposalOpts{Slot: rs.Slot, RandaoReveal: rs.Signature})
		case "SubmitProposal":
			err = comp.SubmitProposal(ctx, &eth2api.SubmitProposalOpts{Proposal: samples[0].obj.(*eth2api.VersionedSignedProposal)})
		case "SubmitBlindedProposal":
			err = comp.SubmitBlindedProposal(ctx, &eth2api.SubmitBlindedProposalOpts{Proposal: samples[0].obj.(*eth2api.VersionedSignedBlindedProposal)})
		case "SubmitVoluntaryExit":
			err = comp.SubmitVoluntaryExit(ctx, samples[0].obj.(*eth2p0.SignedVoluntaryExit))
		case "BeaconCommitteeSelections":
			var xs []*eth2v1.BeaconCommitteeSelection
			for _, s := range samples {
				xs = append(xs, s.obj.(*eth2v1.BeaconCommitteeSelection))
			}
			_, err = comp.BeaconCommitteeSelections(ctx, &eth2api.BeaconCommitteeSelectionsOpts{Selections: xs})
		case "SubmitAggregateAttestations":
			var xs []*eth2spec.VersionedSignedAggregateAndProof
			for _, s := range samples {
				xs = append(xs, s.obj.(*eth2spec.VersionedSignedAggregateAndProof))
			}
			err = comp.SubmitAggregateAttestations(ctx, &eth2api.SubmitAggregateAttestationsOpts{SignedAggregateAndProofs: xs})
		case "SubmitSyncCommitteeMessages":
			var xs []*altair.SyncCommitteeMessage
			for _, s := range samples {
				xs = append(xs, s.obj.(*altair.SyncCommitteeMessage))
			}
			err = comp.SubmitSyncCommitteeMessages(ctx, xs)
		case "SubmitSyncCommitteeContributions":
			var xs []*altair.SignedContributionAndProof
			for _, s := range samples {
				xs = append(xs, s.obj.(*altair.SignedContributionAndProof))
			}
			err = comp.SubmitSyncCommitteeContributions(ctx, xs)
		case "SyncCommitteeSelections":
			var xs []*eth2v1.SyncCommitteeSelection
			for _, s := range samples {
				xs = append(xs, s.obj.(*eth2v1.SyncCommitteeSelection))
			}
			_, err = comp.SyncCommitteeSelections(ctx, &eth2api.SyncCommitteeSelectionsOpts{Selections: xs})
		default:
			panic("unknown method " + o.method)
		}
	}()
	class := classifyVC(err, hasInnerGate(o.method))
	calls := env.calls

	// 4. monitors (independent of the model)
	e.monitorDelivered(run, calls, "vc "+o.method)
	if len(calls) > 0 && !allValid {
		if anyGateMiss {
			run.Violate("admit:gate_skipped", fmt.Sprintf("vc %s: subscriber called although the proposal / inner selection proof gate should have rejected", o.method))
		} else {
			run.Violate("admit:partial_batch_delivered", fmt.Sprintf("vc %s: subscriber called although an element of the request is not valid", o.method))
		}
	}
	if allValid && len(o.items) > 0 && (class != "ok" && class != "suberr") {
		run.Violate("admit:valid_rejected", fmt.Sprintf("vc %s: fully valid request rejected: %v", o.method, err))
	}
	for _, c := range calls {
		if c.duty.Type != vcDutyType[o.method] {
			run.Violate("admit:wrong_duty_type", fmt.Sprintf("vc %s: subscriber got duty %v", o.method, c.duty))
		}
	}

	// 5. record
	var hint []string
	seen := map[string]bool{}
	for _, c := range calls {
		sc := uint64(0)
		for _, p := range c.set {
			sc = subcommOfPayload(p)
		}
		k := fmt.Sprintf("%d.%d", c.duty.Slot, sc)
		if !seen[k] {
			seen[k] = true
			hint = append(hint, k)
		}
	}
	f := "-"
	if o.fail >= 0 {
		f = strconv.Itoa(o.fail)
	}
	abs := fmt.Sprintf("%s %d %d %s %s %s %s", o.method, o.node, o.nsub, f, dashIfEmpty(strings.Join(hint, ",")),
		dashIfEmpty(sortedKeys(facts)), dashIfEmpty(strings.Join(absItems, ";")))
	run.Count("vc:" + o.method)
	run.Count("class:" + class)
	run.Op(o.recipe()+" | "+abs, class+" "+e.renderCalls(calls))
}

func numVersionsAll(kind int) int {
	if kind == kBProp {
		return 7
	}
	return numVersions(kind)
}

func propIDOfUnsigned(p *eth2api.VersionedProposal) (propID, bool) {
	var m htr
	var pi uint64
	switch {
	case p.Version == eth2spec.DataVersionPhase0 && p.Phase0 != nil:
		m, pi = p.Phase0, uint64(p.Phase0.ProposerIndex)
	case p.Version == eth2spec.DataVersionAltair && p.Altair != nil:
		m, pi = p.Altair, uint64(p.Altair.ProposerIndex)
	case p.Version == eth2spec.DataVersionBellatrix && !p.Blinded && p.Bellatrix != nil:
		m, pi = p.Bellatrix, uint64(p.Bellatrix.ProposerIndex)
	case p.Version == eth2spec.DataVersionBellatrix && p.Blinded && p.BellatrixBlinded != nil:
		m, pi = p.BellatrixBlinded, uint64(p.BellatrixBlinded.ProposerIndex)
	case p.Version == eth2spec.DataVersionCapella && !p.Blinded && p.Capella != nil:
		m, pi = p.Capella, uint64(p.Capella.ProposerIndex)
	case p.Version == eth2spec.DataVersionCapella && p.Blinded && p.CapellaBlinded != nil:
		m, pi = p.CapellaBlinded, uint64(p.CapellaBlinded.ProposerIndex)
	case p.Version == eth2spec.DataVersionDeneb && !p.Blinded && p.Deneb != nil:
		m, pi = p.Deneb.Block, uint64(p.Deneb.Block.ProposerIndex)
	case p.Version == eth2spec.DataVersionDeneb && p.Blinded && p.DenebBlinded != nil:
		m, pi = p.DenebBlinded, uint64(p.DenebBlinded.ProposerIndex)
	case p.Version == eth2spec.DataVersionElectra && !p.Blinded && p.Electra != nil:
		m, pi = p.Electra.Block, uint64(p.Electra.Block.ProposerIndex)
	case p.Version == eth2spec.DataVersionElectra && p.Blinded && p.ElectraBlinded != nil:
		m, pi = p.ElectraBlinded, uint64(p.ElectraBlinded.ProposerIndex)
	case p.Version == eth2spec.DataVersionFulu && !p.Blinded && p.Fulu != nil:
		m, pi = p.Fulu.Block, uint64(p.Fulu.Block.ProposerIndex)
	case p.Version == eth2spec.DataVersionFulu && p.Blinded && p.FuluBlinded != nil:
		m, pi = p.FuluBlinded, uint64(p.FuluBlinded.ProposerIndex)
	default:
		return propID{}, false
	}
	r := mustRoot(m)
	if r == nil {
		return propID{}, false
	}
	return propID{p.Version, p.Blinded, pi, *r}, true
}

// =============================================================================================
// peer door

type entrySpec struct {
	kind    int
	val     int
	share   int
	ver     int
	blinded bool
	epoch   uint64
	slotOff uint64
	subcomm uint64
	alt     alt
}

func (es entrySpec) String() string {
	b := ""
	if es.blinded {
		b = "b"
	}
	return fmt.Sprintf("%s/%d/%d/%d%s/%d/%d/%d/%s", kindNames[es.kind], es.val, es.share, es.ver, b, es.epoch, es.slotOff, es.subcomm, es.alt)
}

func parseEntrySpec(s string) entrySpec {
	p := strings.Split(s, "/")
	if len(p) != 8 {
		panic("bad entry spec " + s)
	}
	var es entrySpec
	es.kind = -1
	for i, n := range kindNames {
		if n == p[0] {
			es.kind = i
		}
	}
	if es.kind < 0 {
		panic("bad kind " + p[0])
	}
	es.val, _ = strconv.Atoi(p[1])
	es.share, _ = strconv.Atoi(p[2])
	if strings.HasSuffix(p[3], "b") {
		es.blinded = true
		p[3] = strings.TrimSuffix(p[3], "b")
	}
	es.ver, _ = strconv.Atoi(p[3])
	es.epoch, _ = strconv.ParseUint(p[4], 10, 64)
	es.slotOff, _ = strconv.ParseUint(p[5], 10, 64)
	es.subcomm, _ = strconv.ParseUint(p[6], 10, 64)
	es.alt = parseAlt(p[7])
	return es
}

type peerOp struct {
	ty      int
	slot    uint64
	nsub    int
	seed    uint64
	malt    string
	entries []entrySpec
}

func (o peerOp) recipe() string {
	var es []string
	for _, e := range o.entries {
		es = append(es, e.String())
	}
	return fmt.Sprintf("peer ty=%d slot=%d nsub=%d seed=%d msg=%s entries=%s", o.ty, o.slot, o.nsub, o.seed, o.malt, dashIfEmpty(strings.Join(es, ";")))
}

func parsePeerOp(f []string) peerOp {
	if len(f) != 7 {
		panic("bad peer op")
	}
	var o peerOp
	o.ty, _ = strconv.Atoi(kv(f[1], "ty"))
	o.slot, _ = strconv.ParseUint(kv(f[2], "slot"), 10, 64)
	o.nsub, _ = strconv.Atoi(kv(f[3], "nsub"))
	o.seed, _ = strconv.ParseUint(kv(f[4], "seed"), 10, 64)
	o.malt = kv(f[5], "msg")
	if x := kv(f[6], "entries"); x != "-" {
		for _, s := range strings.Split(x, ";") {
			o.entries = append(o.entries, parseEntrySpec(s))
		}
	}
	return o
}

var kindDuty = [numKinds]int{kAtt: 2, kRandao: 7, kProp: 1, kBProp: 1, kExit: 4, kBcSel: 8, kAgg: 9, kSyncMsg: 10, kContrib: 12,
	kSyncSel: 11, kReg: 6, kOldAgg: 9, kRaw: 3}

type peerState struct {
	order []core.PubKey
	calls []obsCall
}

var pst *peerState

func (e *episode) parsigex(nsub int) *parsigex.ParSigEx {
	if p, ok := e.px[nsub]; ok {
		return p
	}
	real, err := parsigex.NewEth2Verifier(e.cl.mock, e.cl.pubshares)
	hx.Must(err)
	wrapped := func(ctx context.Context, id peer.ID, duty core.Duty, pk core.PubKey, d core.ParSignedData) error {
		pst.order = append(pst.order, pk)
		return real(ctx, id, duty, pk, d)
	}
	p := parsigex.VerifNew(wrapped, e.gater)
	for s := 0; s < nsub; s++ {
		s := s
		p.Subscribe(func(_ context.Context, duty core.Duty, set core.ParSignedDataSet) error {
			pst.calls = append(pst.calls, obsCall{s, duty, set})
			if s == 0 {
				return errSubFail // subscriber errors are only logged by handle
			}
			return nil
		})
	}
	e.px[nsub] = p
	return p
}

func classifyPeer(err error) string {
	if err == nil {
		return "ok"
	}
	s := err.Error()
	has := func(x string) bool { return strings.Contains(s, x) }
	switch {
	case has("invalid parsigex msg fields"), has("invalid request type"):
		return "malformed"
	case has("invalid duty"):
		return "gated"
	case has("convert parsigex proto"):
		return "parse"
	case has("unknown pubkey"):
		return "unknown"
	case has("invalid shareIdx"):
		return "badshare"
	case has("invalid eth2 signed data"):
		return "noteth2"
	case has("no signature found"):
		return "zerosig"
	case has("signature not verified"), has("unmarshal signature into Herumi"), has("set compressed public key"):
		return "badsig"
	}
	return "objerr"
}

func (e *episode) execPeer(run *hx.Run, o peerOp) {
	ctx := context.Background()
	cl := e.cl
	rand.Seed(int64(o.seed))
	r := hx.NewRng(o.seed)

	// 1. build the set as an honest peer would, bent by the alterations
	set := core.ParSignedDataSet{}
	type postAlt struct {
		key string
		a   alt
	}
	var posts []postAlt
	for _, es := range o.entries {
		ba := buildArgs{valIdx: cl.valIdxOf(es.val), ver: es.ver % numVersions(es.kind), blinded: es.blinded, epoch: es.epoch, slotOff: es.slotOff % spe,
			subcomm: es.subcomm, commIdx: uint64(1 + ((es.val + 8) % 8)), vci: uint64((es.val + 8) % 8), commLen: 8}
		kind := es.kind
		if kind == kBProp {
			kind, ba.blinded, ba.ver = kProp, true, 2+es.ver%5
		}
		if kind == kProp && ba.ver < 2 {
			ba.blinded = false
		}
		s := buildSample(kind, ba)
		inner := "ok"
		if strings.HasPrefix(es.alt.kind, "inner") {
			inner = es.alt.kind
		}
		setInnerProof(cl, s, es.val, inner)
		if kind == kRaw {
			sig, _ := signView(view{dom: domAttester, epoch: up(es.epoch), root: &[32]byte{1}}, signPlan{secret: cl.secretFor(es.val, es.share), dom: -1, forkEpoch: -1})
			s.setSig(sig)
		} else {
			signSample(cl, s, es.val, es.share, es.alt, r)
		}
		if es.alt.kind == "field" {
			if ls := leavesOf(s.obj); len(ls) > 0 {
				l := ls[int(es.alt.a)%len(ls)]
				mutate(l, es.alt.b)
				run.Case(fmt.Sprintf("peer/%s/v%d/field%s", kindNames[es.kind], ba.ver, l.path))
			}
		} else {
			run.Case(fmt.Sprintf("peer/%s/v%d%v/%s/ty%d", kindNames[es.kind], ba.ver, ba.blinded, es.alt.kind, o.ty))
		}
		par, err := s.toCore(es.share)
		if err != nil {
			run.Count("peer:unbuildable-entry")
			continue
		}
		pk, ok := cl.corePkOf(es.val)
		if !ok {
			pk = testutil.RandomCorePubKey(new(testing.T))
		}
		var keyDigitIdx *postAlt
		if es.alt.kind == "key" {
			switch es.alt.a {
			case 0:
				pk = testutil.RandomCorePubKey(new(testing.T))
			case 1:
				pk = core.PubKey("0x1234")
			case 2:
				pk, _ = cl.corePkOf(-1)
			case 4:
				// the set key is a peer-chosen string: a real validator key followed by the first decimal digit of the
				// signing share's index, the claimed share index being the remaining digits — (P, 10) becomes (P+"1", 0).
				// The validator is unknown and must be refused; a lookup keyed by key ++ index would take it for (P, 10).
				if es.share >= 10 {
					ds := strconv.Itoa(es.share)
					rest, _ := strconv.Atoi(ds[1:])
					pk = core.PubKey(string(pk) + ds[:1])
					keyDigitIdx = &postAlt{string(pk), alt{kind: "idx", a: uint64(rest)}}
				} else {
					pk = core.PubKey(string(pk) + "1")
				}
			default:
				pk = cl.corePks[(es.val+1+cl.m)%cl.m]
			}
		}
		set[pk] = par
		if es.alt.kind == "idx" || es.alt.kind == "wire" {
			posts = append(posts, postAlt{string(pk), es.alt})
		}
		if keyDigitIdx != nil {
			posts = append(posts, *keyDigitIdx)
		}
	}
	var msg *pbv1.ParSigExMsg
	pbSet, err := core.ParSignedDataSetToProto(set)
	if err != nil {
		// an altered object that can no longer be marshalled cannot be sent at all
		run.Count("peer:unmarshalable-set")
		pbSet = &pbv1.ParSignedDataSet{Set: map[string]*pbv1.ParSignedData{}}
	}
	for _, p := range posts {
		d := pbSet.GetSet()[p.key]
		if d == nil {
			continue
		}
		switch p.a.kind {
		case "idx":
			d.ShareIdx = int32(uint32(p.a.a))
		case "wire":
			if len(d.Data) > 0 {
				d.Data[int(p.a.a)%len(d.Data)] ^= 1 << (p.a.b % 8)
			}
		}
	}
	msg = &pbv1.ParSigExMsg{Duty: &pbv1.Duty{Slot: o.slot, Type: int32(o.ty)}, DataSet: pbSet}
	switch o.malt {
	case "nilduty":
		msg.Duty = nil
	case "nilset":
		msg.DataSet = nil
	case "emptyset":
		msg.DataSet = &pbv1.ParSignedDataSet{Set: map[string]*pbv1.ParSignedData{}}
	case "sigfield":
		for _, d := range pbSet.GetSet() {
			d.Signature = []byte{1, 2, 3}
		}
	}

	// 2. the harness's own reading of the wire message
	wf := msg.GetDuty() != nil && msg.GetDataSet() != nil
	gateOK := o.ty >= 1 && o.ty <= 13 && o.slot/spe <= e.cur+uint64(e.allowed)
	parseOK := false
	facts := map[string]bool{}
	var absEntries []string
	allValid := true
	if wf {
		parsed, perr := core.ParSignedDataSetFromProto(core.DutyType(o.ty), msg.GetDataSet())
		parseOK = perr == nil
		type ent struct {
			v   int
			str string
		}
		var ents []ent
		var pks []string
		for pk := range parsed {
			pks = append(pks, string(pk))
		}
		sort.Strings(pks)
		for _, pkStr := range pks {
			pk := core.PubKey(pkStr)
			par := parsed[pk]
			s := sampleOfCore(par.SignedData)
			if s == nil {
				panic(fmt.Sprintf("unknown parsed type %T", par.SignedData))
			}
			v := s.view()
			okKey := e.factsFor(v, facts)
			want, ok := cl.pubshares[pk][par.ShareIdx]
			if !(ok && okKey != nil && *okKey == want) {
				allValid = false
			}
			ents = append(ents, ent{e.valID(pk), fmt.Sprintf("%d,%d,%s", e.valID(pk), par.ShareIdx, e.objStr(e.objID(par.SignedData), v))})
		}
		sort.Slice(ents, func(i, j int) bool { return ents[i].v < ents[j].v })
		for _, x := range ents {
			absEntries = append(absEntries, x.str)
		}
	}

	// 3. the real handler
	pst = &peerState{}
	px := e.parsigex(o.nsub)
	var herr error
	func() {
		defer func() {
			if p := recover(); p != nil {
				herr = fmt.Errorf("harness: panic: %v", p)
				run.Count("peer:panic")
			}
		}()
		_, _, herr = px.VerifHandle(ctx, peer.ID("peer"), msg)
	}()
	class := classifyPeer(herr)
	calls := pst.calls

	// 4. monitors
	e.monitorDelivered(run, calls, fmt.Sprintf("peer duty %d", o.ty))
	if len(calls) > 0 && !gateOK {
		run.Violate("admit:gated_duty_accepted", fmt.Sprintf("peer: duty type %d slot %d (wall-clock epoch %d, %d future epochs allowed) reached the subscriber", o.ty, o.slot, e.cur, e.allowed))
	}
	if len(calls) > 0 && !allValid {
		run.Violate("admit:partial_batch_delivered", "peer: subscriber called although an entry of the set is not valid")
	}
	if wf && gateOK && parseOK && allValid && class != "ok" {
		run.Violate("admit:valid_rejected", fmt.Sprintf("peer: fully valid message rejected: %v", herr))
	}
	if wf && gateOK && parseOK && allValid && class == "ok" && len(calls) == 0 && len(o.entries) > 0 {
		// accepted without error, yet nobody was told: the partial signatures never reach the store
		run.Violate("admit:valid_not_delivered", fmt.Sprintf("peer: fully valid message for duty %d/%d (%d entries) returned no error but no subscriber was called", o.slot, o.ty, len(o.entries)))
	}
	for _, c := range calls {
		if int(c.duty.Type) != o.ty || c.duty.Slot != o.slot {
			run.Violate("admit:wrong_duty_type", fmt.Sprintf("peer: subscriber got duty %v for message duty %d/%d", c.duty, o.slot, o.ty))
		}
	}

	// 5. record
	var hint []string
	for _, pk := range pst.order {
		hint = append(hint, strconv.Itoa(e.valID(pk)))
	}
	abs := fmt.Sprintf("%s %d %d %s %d %s %s %s", b01(wf), o.ty, o.slot, b01(parseOK), o.nsub, dashIfEmpty(strings.Join(hint, ",")),
		dashIfEmpty(sortedKeys(facts)), dashIfEmpty(strings.Join(absEntries, ";")))
	run.Count(fmt.Sprintf("peer:ty%d", o.ty))
	run.Count("class:" + class)
	run.Op(o.recipe()+" | "+abs, class+" "+e.renderCalls(calls))
}

// =============================================================================================
// episodes

type cfgOp struct{ ks, n, t, m, cur, allowed int }

func (c cfgOp) recipe() string {
	return fmt.Sprintf("cfg ks=%d n=%d t=%d m=%d cur=%d allowed=%d", c.ks, c.n, c.t, c.m, c.cur, c.allowed)
}

func parseCfgOp(f []string) cfgOp {
	if len(f) != 7 {
		panic("bad cfg op")
	}
	var c cfgOp
	c.ks, _ = strconv.Atoi(kv(f[1], "ks"))
	c.n, _ = strconv.Atoi(kv(f[2], "n"))
	c.t, _ = strconv.Atoi(kv(f[3], "t"))
	c.m, _ = strconv.Atoi(kv(f[4], "m"))
	c.cur, _ = strconv.Atoi(kv(f[5], "cur"))
	c.allowed, _ = strconv.Atoi(kv(f[6], "allowed"))
	return c
}

func newEpisode(run *hx.Run, c cfgOp) *episode {
	cl := getCluster(c.ks, c.n, c.t, c.m)
	e := &episode{cl: cl, cur: uint64(c.cur), allowed: c.allowed, roots: map[[32]byte]int{}, sigs: map[[96]byte]int{}, objs: map[[32]byte]int{},
		vals: map[string]int{}, keyIDs: map[tbls.PublicKey]int{}, comps: map[string]*validatorapi.Component{}, px: map[int]*parsigex.ParSigEx{}}
	for i, k := range cl.allKeys {
		e.keyIDs[k] = i + 1
	}
	now := genesisT.Add(time.Duration(uint64(c.cur)*spe+3) * 12 * time.Second)
	g, err := core.NewDutyGater(context.Background(), cl.mock, core.WithDutyGaterForT(nil, func() time.Time { return now }, c.allowed))
	hx.Must(err)
	e.gater = g
	sentinel := 1
	for core.DutyType(sentinel).Valid() {
		sentinel++
	}
	run.Op(c.recipe()+fmt.Sprintf(" | %d %d %d %d %s", spe, c.cur, c.allowed, sentinel, e.lockStr()), "ok")
	return e
}

// =============================================================================================
// generator

var signAlts = []string{"share", "val", "group", "dom", "fork", "gvr", "zero", "inf", "rand", "negate"}

type gen struct {
	run  *hx.Run
	r    *hx.Rng
	ep   *episode
	cfg  cfgOp
	left int
	capF int
}

func (g *gen) newEpisode() {
	shapes := [][2]int{{4, 3}, {3, 2}, {4, 3}, {5, 4}}
	sh := shapes[g.r.Intn(len(shapes))]
	if g.r.Chance(1, 6) {
		sh = [][2]int{{10, 7}, {12, 8}}[g.r.Intn(2)] // share indices with two decimal digits
	}
	m := 2 + g.r.Intn(2)
	if g.r.Chance(1, 3) {
		m = 6 + g.r.Intn(3) // large sets: many validators with the same duty in one slot
	}
	g.cfg = cfgOp{ks: g.r.Intn(3), n: sh[0], t: sh[1], m: m, cur: []int{1, 5, 11, 23, 26}[g.r.Intn(5)], allowed: 2}
	g.ep = newEpisode(g.run, g.cfg)
	g.left--
}

func (g *gen) seed() uint64 { return g.r.U64() >> 1 }

// otherEpoch returns an epoch whose fork version differs from the one of `e`.
func otherForkEpoch(e uint64) uint64 {
	i := forkIndexAt(e)
	return forkEpochs[(i+1)%len(forkEpochs)]
}

func (g *gen) mkAlt(kind string, val, node int, epoch uint64, dom int) alt {
	switch kind {
	case "share":
		j := 1 + g.r.Intn(g.cfg.n)
		if j == node {
			j = 1 + j%g.cfg.n
		}
		return alt{kind: "share", a: uint64(j)}
	case "val":
		return alt{kind: "val", a: uint64((val + 1 + g.r.Intn(g.cfg.m-1)) % g.cfg.m)}
	case "dom":
		d := g.r.Intn(numDomains)
		if d == dom {
			d = (d + 1) % numDomains
		}
		return alt{kind: "dom", a: uint64(d)}
	case "fork":
		return alt{kind: "fork", a: otherForkEpoch(epoch)}
	}
	return alt{kind: kind}
}

var kindDom = [numKinds]int{kAtt: domAttester, kRandao: domRandao, kProp: domProposer, kBProp: domProposer, kExit: domExit, kBcSel: domSelection,
	kAgg: domAggAndProof, kSyncMsg: domSyncComm, kContrib: domContribAndProof, kSyncSel: domSyncSelection, kReg: domBuilder, kOldAgg: domAggAndProof, kRaw: -1}

func (g *gen) vc(o vcOp) {
	g.ep.execVC(g.run, o)
	g.left--
}

func (g *gen) peer(o peerOp) {
	g.ep.execPeer(g.run, o)
	g.left--
}

// leafCount builds one object of the given shape to learn how many leaf fields it has.
func leafCount(kind, ver int, blinded bool) int {
	s := buildSample(kind, buildArgs{valIdx: valIdxBase, ver: ver, blinded: blinded, epoch: 5, commIdx: 1, commLen: 8})
	return len(leavesOf(s.obj))
}

// fieldPicks: every leaf when there are at most capF, otherwise capF leaves spread over the object
// (shifted by the seed so that different seeds cover different leaves).
func (g *gen) fieldPicks(n int) []int {
	if n <= g.capF {
		out := make([]int, n)
		for i := range out {
			out[i] = i
		}
		return out
	}
	off := g.r.Intn(n)
	out := make([]int, g.capF)
	for i := range out {
		out[i] = (off + i*n/g.capF) % n
	}
	return out
}

type combo struct {
	ver     int
	blinded bool
}

func combosOf(kind int) []combo {
	var out []combo
	switch kind {
	case kProp:
		for v := 0; v < 7; v++ {
			out = append(out, combo{v, false})
			if v >= 2 {
				out = append(out, combo{v, true})
			}
		}
	case kBProp:
		for v := 0; v < 5; v++ {
			out = append(out, combo{v, true})
		}
	default:
		for v := 0; v < numVersions(kind); v++ {
			out = append(out, combo{v, false})
		}
	}
	return out
}

// systematic: for every endpoint / duty type x version: a valid submission, then every
// single-field alteration (capped per object), then every substitution.
func (g *gen) systematicVC(method string) {
	kind := vcKind[method]
	for _, cb := range combosOf(kind) {
		if g.left <= 0 {
			return
		}
		node := 1 + g.r.Intn(g.cfg.n)
		val := g.r.Intn(g.cfg.m)
		epoch := uint64(g.r.Intn(27))
		base := itemSpec{val: val, ver: cb.ver, blinded: cb.blinded, epoch: epoch, slotOff: uint64(g.r.Intn(spe)), subcomm: uint64(g.r.Intn(4)), alt: alt{kind: "none"}}
		one := func(a alt) {
			it := base
			it.alt = a
			g.vc(vcOp{method: method, node: node, nsub: 1 + g.r.Intn(2), fail: -1, seed: g.seed(), items: []itemSpec{it}})
		}
		one(alt{kind: "none"})
		bver := cb.ver
		if kind == kBProp {
			bver = 2 + cb.ver
		}
		n := leafCount(kind, bver, cb.blinded || kind == kBProp)
		for _, i := range g.fieldPicks(n) {
			one(alt{kind: "field", a: uint64(i), b: uint64(g.r.Intn(64))})
		}
		for _, k := range signAlts {
			one(g.mkAlt(k, val, node, epoch, kindDom[kind]))
		}
		for _, v := range []int{-1, -2} { // active but not in the lock; unknown to the beacon node
			it := base
			it.val = v
			g.vc(vcOp{method: method, node: node, nsub: 1, fail: -1, seed: g.seed(), items: []itemSpec{it}})
		}
		for _, nd := range []int{0, g.cfg.n + 1} { // a node whose share index has no key share in the lock
			g.vc(vcOp{method: method, node: nd, nsub: 1, fail: -1, seed: g.seed(), items: []itemSpec{base}})
		}
		if kind == kProp || kind == kBProp {
			one(alt{kind: "gatemiss"})
		}
		if kind == kAgg || kind == kContrib {
			for _, k := range []string{"innerzero", "innershare", "innerbad"} {
				one(alt{kind: k})
			}
		}
		// compensating pair: two validators' objects over the same content whose signatures are swapped -
		// each is invalid for its own validator's share although the SUM of the signatures verifies under
		// the SUM of the public shares (a batch that is verified as one aggregate would let both in);
		// alone, in both orders and among valid entries
		if isBatch(method) && g.cfg.m >= 2 {
			other := (val + 1 + g.r.Intn(g.cfg.m-1)) % g.cfg.m
			a, b := base, base
			a.alt = alt{kind: "xsig", a: 1}
			b.val, b.alt = other, alt{kind: "xsig", a: 0}
			g.vc(vcOp{method: method, node: node, nsub: 1 + g.r.Intn(2), fail: -1, seed: g.seed(), items: []itemSpec{a, b}})
			g.vc(vcOp{method: method, node: node, nsub: 1, fail: -1, seed: g.seed(), items: []itemSpec{b, a}})
			if g.cfg.m >= 3 {
				third := base
				for third.val = 0; third.val == val || third.val == other; third.val++ {
				}
				a.alt.a, b.alt.a = 2, 1
				g.vc(vcOp{method: method, node: node, nsub: 1, fail: -1, seed: g.seed(), items: []itemSpec{third, a, b}})
			}
		}
	}
}

func (g *gen) naturalSlot(epoch uint64) uint64 { return epoch*spe + uint64(g.r.Intn(spe)) }

func (g *gen) inWindowEpoch() uint64 { return uint64(g.r.Intn(g.cfg.cur + g.cfg.allowed + 1)) }

func (g *gen) systematicPeer(kind int) {
	for _, cb := range combosOf(kind) {
		if g.left <= 0 {
			return
		}
		share := 1 + g.r.Intn(g.cfg.n)
		val := g.r.Intn(g.cfg.m)
		epoch := g.inWindowEpoch()
		objEpoch := uint64(g.r.Intn(27))
		ty := kindDuty[kind]
		base := entrySpec{kind: kind, val: val, share: share, ver: cb.ver, blinded: cb.blinded, epoch: objEpoch, slotOff: uint64(g.r.Intn(spe)), subcomm: uint64(g.r.Intn(4)), alt: alt{kind: "none"}}
		slot := g.naturalSlot(epoch)
		one := func(a alt) {
			es := base
			es.alt = a
			g.peer(peerOp{ty: ty, slot: slot, nsub: 1 + g.r.Intn(2), seed: g.seed(), malt: "none", entries: []entrySpec{es}})
		}
		one(alt{kind: "none"})
		bver := cb.ver
		if kind == kBProp {
			bver = 2 + cb.ver
		}
		n := leafCount(kind, bver, cb.blinded || kind == kBProp)
		for _, i := range g.fieldPicks(n) {
			one(alt{kind: "field", a: uint64(i), b: uint64(g.r.Intn(64))})
		}
		if kind != kRaw {
			for _, k := range signAlts {
				one(g.mkAlt(k, val, share, objEpoch, kindDom[kind]))
			}
		}
		for _, i := range []uint64{0, uint64(g.cfg.n + 1), 1000, 0xFFFFFFFF} {
			one(alt{kind: "idx", a: i})
		}
		for k := uint64(0); k < 4; k++ {
			one(alt{kind: "key", a: k})
		}
		if g.cfg.n >= 10 {
			es := base
			es.share = 10 + g.r.Intn(g.cfg.n-9)
			es.alt = alt{kind: "key", a: 4}
			g.peer(peerOp{ty: ty, slot: slot, nsub: 1 + g.r.Intn(2), seed: g.seed(), malt: "none", entries: []entrySpec{es}})
		}
		for k := 0; k < 4; k++ {
			one(alt{kind: "wire", a: uint64(g.r.Intn(4096)), b: uint64(g.r.Intn(8))})
		}
		// mixed batches: one message carrying a valid entry for one validator and an invalid entry
		// for another, in both positions (the whole set must be refused; no entry may reach the
		// subscriber unverified)
		if g.cfg.m >= 2 && kind != kRaw {
			other := (val + 1 + g.r.Intn(g.cfg.m-1)) % g.cfg.m
			oshare := 1 + g.r.Intn(g.cfg.n)
			bads := []alt{g.mkAlt(signAlts[g.r.Intn(len(signAlts))], other, oshare, objEpoch, kindDom[kind]),
				{kind: "idx", a: uint64(1 + (oshare % g.cfg.n))}, {kind: "key", a: uint64(g.r.Intn(4))}}
			for bi, b := range bads {
				good := base
				bad := base
				bad.val, bad.share, bad.alt = other, oshare, b
				es := []entrySpec{good, bad}
				if bi%2 == 1 {
					es = []entrySpec{bad, good}
				}
				g.peer(peerOp{ty: ty, slot: slot, nsub: 1 + g.r.Intn(2), seed: g.seed(), malt: "none", entries: es})
			}
		}
		// compensating pair (see systematicVC): two validators' entries over the same content with swapped signatures
		if g.cfg.m >= 2 && kind != kRaw {
			other := (val + 1 + g.r.Intn(g.cfg.m-1)) % g.cfg.m
			a, b := base, base
			a.alt = alt{kind: "val", a: uint64(other)}
			b.val, b.alt = other, alt{kind: "val", a: uint64(val)}
			g.peer(peerOp{ty: ty, slot: slot, nsub: 1 + g.r.Intn(2), seed: g.seed(), malt: "none", entries: []entrySpec{a, b}})
		}
		// a large set (every validator of the cluster) in which exactly one entry, at any position of
		// the map iteration, is invalid: the whole set must be refused
		if g.cfg.m >= 5 && kind != kRaw {
			for rep := 0; rep < 3; rep++ {
				badPos := g.r.Intn(g.cfg.m)
				var es []entrySpec
				for v := 0; v < g.cfg.m; v++ {
					e := base
					e.val, e.share = v, share
					if v == badPos {
						e.alt = []alt{g.mkAlt(signAlts[g.r.Intn(len(signAlts))], v, share, objEpoch, kindDom[kind]),
							{kind: "idx", a: uint64(1 + (share % g.cfg.n))}, {kind: "key", a: uint64(g.r.Intn(4))}}[g.r.Intn(3)]
					}
					es = append(es, e)
				}
				g.peer(peerOp{ty: ty, slot: slot, nsub: 1 + g.r.Intn(2), seed: g.seed(), malt: "none", entries: es})
			}
		}
		// duty outside the gater's window, invalid / deprecated / unsupported duty types, other type
		past := uint64(g.cfg.cur+g.cfg.allowed+1)*spe + uint64(g.r.Intn(40))
		g.peer(peerOp{ty: ty, slot: past, nsub: 1, seed: g.seed(), malt: "none", entries: []entrySpec{base}})
		g.peer(peerOp{ty: ty, slot: uint64(g.cfg.cur+g.cfg.allowed+1)*spe - 1, nsub: 1, seed: g.seed(), malt: "none", entries: []entrySpec{base}})
		// extreme wire slots (sign bit set, near the uint64 / int64 limits): far outside every window
		for _, xs := range []uint64{1 << 63, 1<<63 + uint64(g.r.Intn(1000)), ^uint64(0), ^uint64(0) - uint64(g.r.Intn(64)), 1<<63 - 1, 1 << 62, 1 << 32} {
			if g.r.Chance(1, 2) {
				g.peer(peerOp{ty: ty, slot: xs, nsub: 1, seed: g.seed(), malt: "none", entries: []entrySpec{base}})
			}
		}
		for _, t := range []int{0, -1, 5, 13, 14, 15 + g.r.Intn(100), 1 + g.r.Intn(12)} {
			g.peer(peerOp{ty: t, slot: slot, nsub: 1, seed: g.seed(), malt: "none", entries: []entrySpec{base}})
		}
		for _, m := range []string{"nilduty", "nilset", "emptyset", "sigfield"} {
			g.peer(peerOp{ty: ty, slot: slot, nsub: 1, seed: g.seed(), malt: m, entries: []entrySpec{base}})
		}
	}
}

func (g *gen) randomAlt(kind, val, idx int, epoch uint64) alt {
	switch g.r.Intn(4) {
	case 0:
		return alt{kind: "field", a: uint64(g.r.Intn(100000)), b: uint64(g.r.Intn(64))}
	case 1:
		return g.mkAlt(signAlts[g.r.Intn(len(signAlts))], val, idx, epoch, kindDom[kind])
	case 2:
		if kind == kProp || kind == kBProp {
			return alt{kind: "gatemiss"}
		}
		if kind == kAgg || kind == kContrib {
			return alt{kind: []string{"innerzero", "innershare", "innerbad"}[g.r.Intn(3)]}
		}
	}
	return g.mkAlt(signAlts[g.r.Intn(len(signAlts))], val, idx, epoch, kindDom[kind])
}

func (g *gen) randomVC() {
	method := vcMethods[g.r.Intn(len(vcMethods))]
	kind := vcKind[method]
	node := 1 + g.r.Intn(g.cfg.n)
	if g.r.Chance(1, 25) {
		node = []int{0, g.cfg.n + 1}[g.r.Intn(2)]
	}
	k := 1
	if isBatch(method) {
		k = 1 + g.r.Intn(5)
		if g.r.Chance(1, 30) {
			k = 0
		}
	}
	epochs := []uint64{uint64(g.r.Intn(27)), uint64(g.r.Intn(27))}
	var items []itemSpec
	for i := 0; i < k; i++ {
		cbs := combosOf(kind)
		cb := cbs[g.r.Intn(len(cbs))]
		val := g.r.Intn(g.cfg.m)
		if g.r.Chance(1, 20) {
			val = -1 - g.r.Intn(2)
		}
		it := itemSpec{val: val, ver: cb.ver, blinded: cb.blinded, epoch: epochs[g.r.Intn(2)], slotOff: uint64(g.r.Intn(2)), subcomm: uint64(g.r.Intn(2)), alt: alt{kind: "none"}}
		items = append(items, it)
	}
	if k > 0 && g.r.Chance(2, 5) {
		i := g.r.Intn(k)
		items[i].alt = g.randomAlt(kind, items[i].val, node, items[i].epoch)
	}
	fail := -1
	if g.r.Chance(1, 8) {
		fail = g.r.Intn(4)
	}
	g.vc(vcOp{method: method, node: node, nsub: 1 + g.r.Intn(2), fail: fail, seed: g.seed(), items: items})
}

func (g *gen) randomPeer() {
	kind := g.r.Intn(numKinds)
	ty := kindDuty[kind]
	k := 1 + g.r.Intn(g.cfg.m)
	epoch := g.inWindowEpoch()
	if g.r.Chance(1, 12) {
		epoch = uint64(g.cfg.cur + g.cfg.allowed + 1 + g.r.Intn(3))
	}
	perm := g.r.Perm(g.cfg.m)
	var entries []entrySpec
	for i := 0; i < k; i++ {
		cbs := combosOf(kind)
		cb := cbs[g.r.Intn(len(cbs))]
		es := entrySpec{kind: kind, val: perm[i], share: 1 + g.r.Intn(g.cfg.n), ver: cb.ver, blinded: cb.blinded, epoch: uint64(g.r.Intn(27)),
			slotOff: uint64(g.r.Intn(spe)), subcomm: uint64(g.r.Intn(4)), alt: alt{kind: "none"}}
		entries = append(entries, es)
	}
	if g.r.Chance(2, 5) {
		i := g.r.Intn(k)
		switch g.r.Intn(4) {
		case 0:
			entries[i].alt = alt{kind: "idx", a: []uint64{0, uint64(g.cfg.n + 1), 0xFFFFFFFF}[g.r.Intn(3)]}
		case 1:
			entries[i].alt = alt{kind: "key", a: uint64(g.r.Intn(4))}
		default:
			entries[i].alt = g.randomAlt(kind, entries[i].val, entries[i].share, entries[i].epoch)
		}
	}
	if g.r.Chance(1, 15) {
		ty = g.r.Intn(16) - 1
	}
	g.peer(peerOp{ty: ty, slot: g.naturalSlot(epoch), nsub: 1 + g.r.Intn(2), seed: g.seed(), malt: "none", entries: entries})
}

func generate(run *hx.Run, a hx.Args) {
	g := &gen{run: run, r: hx.NewRng(a.Seed), left: a.N, capF: 10}
	if a.Tier == "thorough" {
		g.capF = 48
	}
	g.newEpisode()
	// the systematic sweep; which half comes first alternates with the seed so that a small
	// budget still sees both doors
	order := g.r.Perm(len(vcMethods) + numKinds)
	for _, i := range order {
		if g.left <= 0 {
			break
		}
		if i < len(vcMethods) {
			g.systematicVC(vcMethods[i])
		} else {
			g.systematicPeer(i - len(vcMethods))
		}
		if g.r.Chance(1, 3) && g.left > 0 {
			g.newEpisode()
		}
	}
	for g.left > 0 {
		if g.r.Chance(1, 40) {
			g.newEpisode()
			continue
		}
		if g.r.Chance(1, 2) {
			g.randomVC()
		} else {
			g.randomPeer()
		}
	}
}

func execute(run *hx.Run, ops []string) {
	var ep *episode
	for _, line := range ops {
		recipe := strings.SplitN(line, " | ", 2)[0]
		f := strings.Fields(recipe)
		if len(f) == 0 {
			continue
		}
		switch f[0] {
		case "cfg":
			ep = newEpisode(run, parseCfgOp(f))
		case "vc":
			if ep == nil {
				panic("vc before cfg")
			}
			ep.execVC(run, parseVCOp(f))
		case "peer":
			if ep == nil {
				panic("peer before cfg")
			}
			ep.execPeer(run, parsePeerOp(f))
		default:
			panic("unknown op " + f[0])
		}
	}
}

func main() {
	a := hx.ParseArgs()
	hx.Must(log.InitLogger(log.Config{Level: "fatal", Format: "console", Color: "disable"}))
	ctx, cancel := context.WithCancel(context.Background())
	defer cancel()
	initMock(ctx)
	run := hx.NewRun(a.Dir)
	defer run.Close()
	if a.Mode == "exec" {
		execute(run, hx.ReadOps(a.Ops))
		return
	}
	generate(run, a)
}
