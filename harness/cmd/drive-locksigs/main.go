// drive-locksigs: correspondence driver + monitors for C12, the DECISION LOGIC of signature verification
// (cluster/definition.go Definition.VerifySignatures, cluster/lock.go Lock.VerifySignatures, cluster/helpers.go
// verifySig / verifySigOrERC1271, cluster/eip712sigs.go, cluster/distvalidator.go).
//
// Every op line is an ABSTRACT description of one artifact: version, who signed what with which key over which
// digest, which hash field holds which value. The driver builds the concrete artifact from the line alone (real
// secp256k1 keys, real EIP-712 signatures made by the package's own signer, real BLS shares / aggregates, real SSZ
// hashes), runs the REAL VerifySignatures and VerifyHashes on it and prints the class of the first error. The Lean
// driver `drv-locksigs` decides the same from the description (symbolic signatures, CharonV/Model/LockSigs.lean).
//
//	def  v=<minor> nm=<content id> ch=<0..3|x> nv=<n> th=<t> e1=<nil|no|yes|noeng|fail> cfg=<ref> dh=<ref>
//	     cr=<addr>/<sig> ops=<addr>,<enr>,<cfgsig>,<enrsig>|...    [#alt=<name of the alteration, ignored by the model>]
//	lock <the same fields> deg=<t> lh=<ref> agg=<-|b<n>|A<href>:<bkey>+...> ns=<sig>,... vals=<pk>~<bkey>+...~<reg>|...
//	dv   i=<peerIdx> shares=<bkey>+... reg=<sigLen>,<pkLen>,<feeLen>,<gas>,<tsZero>
//
//	addr  -  (empty string) | k<n> (address of secp256k1 key n)
//	enr   p<n> (ENR of key n) | x<n> (a string that does not parse)
//	sig   -  | g<n>:<digest> (65 bytes by key n) | G<n>:<digest> (same, v = 27/28) | b<n> (n bytes, nobody's)
//	digest oc.<ch>.<href> OperatorConfigHash | lc.… ConfigHash (v1.3) | cc.… CreatorConfigHash | en.<ch>.<enr> ENR |
//	      tc.<ch> TermsAndConditions | rc.<href> the 32 bytes of a config-hash-context value signed raw |
//	      rl.<href> the 32 bytes of a lock-hash-context value signed raw
//	href  h (recomputed hash of this artifact) | s (the stored field) | n<c> (hash of this artifact with content id c) |
//	      o<k> (32 unrelated bytes number k);   ref = href without `s`;  dh=- : hashes are not evaluated (answer `-`)
//	bkey  S<p>.<i> share i of polynomial p | R<p> group key of p | F<n> unrelated key | x (47 bytes)
//	reg   - | ok | bad
//
// Answer:  <VerifySignatures class> <VerifyHashes class>      (dv: share=… zero=… eth2=… noreg=…)
package main

import (
	"context"
	"crypto/sha256"
	"encoding/hex"
	"fmt"
	"strconv"
	"strings"
	"testing"
	"time"

	eth2p0 "github.com/attestantio/go-eth2-client/spec/phase0"
	k1 "github.com/decred/dcrd/dcrec/secp256k1/v4"

	"github.com/obolnetwork/charon/app/errors"
	"github.com/obolnetwork/charon/app/eth1wrap"
	"github.com/obolnetwork/charon/app/k1util"
	"github.com/obolnetwork/charon/cluster"
	"github.com/obolnetwork/charon/eth2util"
	"github.com/obolnetwork/charon/eth2util/enr"
	"github.com/obolnetwork/charon/eth2util/registration"
	"github.com/obolnetwork/charon/tbls"

	"verifharness/hx"
)

// ---------------------------------------------------------------------------------------------
// description

type opD struct{ addr, enr, cfgSig, enrSig string }

type valD struct {
	pk     string
	shares []string
	reg    string
}

type desc struct {
	kind          string
	v, nm, nv, th int
	ch, e1        string
	cfg, dh       string
	crAddr, crSig string
	ops           []opD
	deg           int
	lh, agg       string
	ns            []string
	vals          []valD
	alt           string
}

func (d desc) clone() desc {
	c := d
	c.ops = append([]opD(nil), d.ops...)
	c.ns = append([]string(nil), d.ns...)
	c.vals = nil
	for _, v := range d.vals {
		c.vals = append(c.vals, valD{v.pk, append([]string(nil), v.shares...), v.reg})
	}
	return c
}

func orDash(s string) string {
	if s == "" {
		return "-"
	}
	return s
}

func (d desc) line() string {
	var sb strings.Builder
	fmt.Fprintf(&sb, "%s v=%d nm=%d ch=%s nv=%d th=%d e1=%s cfg=%s dh=%s cr=%s/%s ops=", d.kind, d.v, d.nm, d.ch, d.nv, d.th, d.e1, d.cfg, d.dh, d.crAddr, d.crSig)
	var os []string
	for _, o := range d.ops {
		os = append(os, o.addr+","+o.enr+","+o.cfgSig+","+o.enrSig)
	}
	sb.WriteString(orDash(strings.Join(os, "|")))
	if d.kind == "lock" {
		var vs []string
		for _, v := range d.vals {
			vs = append(vs, v.pk+"~"+orDash(strings.Join(v.shares, "+"))+"~"+v.reg)
		}
		fmt.Fprintf(&sb, " deg=%d lh=%s agg=%s ns=%s vals=%s", d.deg, d.lh, d.agg, orDash(strings.Join(d.ns, ",")), orDash(strings.Join(vs, "|")))
	}
	if d.alt != "" {
		sb.WriteString(" #alt=" + d.alt)
	}
	return sb.String()
}

func parseLine(line string) (d desc, ok bool) {
	defer func() {
		if r := recover(); r != nil {
			ok = false
		}
	}()
	toks := strings.Fields(line)
	if len(toks) == 0 || (toks[0] != "def" && toks[0] != "lock") {
		return d, false
	}
	d.kind = toks[0]
	kv := map[string]string{}
	for _, t := range toks[1:] {
		if strings.HasPrefix(t, "#alt=") {
			d.alt = t[5:]
			continue
		}
		i := strings.IndexByte(t, '=')
		if i < 0 {
			return d, false
		}
		kv[t[:i]] = t[i+1:]
	}
	num := func(k string) int {
		n, err := strconv.Atoi(kv[k])
		if err != nil {
			panic("num")
		}
		return n
	}
	need := []string{"v", "nm", "ch", "nv", "th", "e1", "cfg", "dh", "cr", "ops"}
	if d.kind == "lock" {
		need = append(need, "deg", "lh", "agg", "ns", "vals")
	}
	for _, k := range need {
		if _, has := kv[k]; !has {
			return d, false
		}
	}
	d.v, d.nm, d.nv, d.th = num("v"), num("nm"), num("nv"), num("th")
	d.ch, d.e1, d.cfg, d.dh = kv["ch"], kv["e1"], kv["cfg"], kv["dh"]
	cr := strings.SplitN(kv["cr"], "/", 2)
	d.crAddr, d.crSig = cr[0], cr[1]
	if kv["ops"] != "-" {
		for _, o := range strings.Split(kv["ops"], "|") {
			f := strings.Split(o, ",")
			if len(f) != 4 {
				return d, false
			}
			d.ops = append(d.ops, opD{f[0], f[1], f[2], f[3]})
		}
	}
	if d.kind == "lock" {
		d.deg, d.lh, d.agg = num("deg"), kv["lh"], kv["agg"]
		if kv["ns"] != "-" {
			d.ns = strings.Split(kv["ns"], ",")
		}
		if kv["vals"] != "-" {
			for _, v := range strings.Split(kv["vals"], "|") {
				f := strings.Split(v, "~")
				if len(f) != 3 {
					return d, false
				}
				var sh []string
				if f[1] != "-" {
					sh = strings.Split(f[1], "+")
				}
				d.vals = append(d.vals, valD{f[0], sh, f[2]})
			}
		}
	}
	return d, true
}

// ---------------------------------------------------------------------------------------------
// concrete world: keys, networks

var k1cache = map[int]*k1.PrivateKey{}

func k1Key(n int) *k1.PrivateKey {
	if k, ok := k1cache[n]; ok {
		return k
	}
	for i := 0; ; i++ {
		h := sha256.Sum256([]byte(fmt.Sprintf("locksigs/k1/%d/%d", n, i)))
		k := k1.PrivKeyFromBytes(h[:])
		if !k.Key.IsZero() {
			k1cache[n] = k
			return k
		}
	}
}

var networks = []eth2util.Network{eth2util.Mainnet, eth2util.Goerli, eth2util.Sepolia, eth2util.Hoodi}

func forkVersion(ch string) []byte {
	if ch == "x" {
		return []byte{0xde, 0xad, 0xbe, 0xef}
	}
	i, err := strconv.Atoi(ch)
	if err != nil || i < 0 || i >= len(networks) {
		panic("chain")
	}
	b, err := hex.DecodeString(strings.TrimPrefix(networks[i].GenesisForkVersionHex, "0x"))
	hx.Must(err)
	return b
}

func addrOf(tok string) string {
	if tok == "-" {
		return ""
	}
	if tok[0] != 'k' {
		panic("addr")
	}
	n, err := strconv.Atoi(tok[1:])
	hx.Must(err)
	return eth2util.PublicKeyToAddress(k1Key(n).PubKey())
}

var enrCache = map[string]string{}

func enrOf(tok string) string {
	if s, ok := enrCache[tok]; ok {
		return s
	}
	n, err := strconv.Atoi(tok[1:])
	hx.Must(err)
	var s string
	switch tok[0] {
	case 'p':
		rec, err := enr.New(k1Key(n))
		hx.Must(err)
		s = rec.String()
	case 'x':
		s = fmt.Sprintf("enr:-not-a-record-%d", n)
	default:
		panic("enr")
	}
	enrCache[tok] = s
	return s
}

type detReader struct {
	seed string
	ctr  int
	buf  []byte
}

func (r *detReader) Read(p []byte) (int, error) {
	for i := range p {
		if len(r.buf) == 0 {
			h := sha256.Sum256([]byte(fmt.Sprintf("%s/%d", r.seed, r.ctr)))
			r.ctr++
			r.buf = h[:]
		}
		p[i] = r.buf[0]
		r.buf = r.buf[1:]
	}
	return len(p), nil
}

type poly struct {
	root   tbls.PrivateKey
	shares map[int]tbls.PrivateKey
}

var polyCache = map[string]poly{}

const maxShares = 12

func polyOf(p, deg int) poly {
	key := fmt.Sprintf("%d/%d", p, deg)
	if q, ok := polyCache[key]; ok {
		return q
	}
	rd := &detReader{seed: "locksigs/poly/" + key}
	root, err := tbls.GenerateInsecureKey(new(testing.T), rd)
	hx.Must(err)
	sh, err := tbls.ThresholdSplitInsecure(new(testing.T), root, maxShares, uint(deg), rd)
	hx.Must(err)
	q := poly{root, sh}
	polyCache[key] = q
	return q
}

var freeCache = map[int]tbls.PrivateKey{}

func freeKey(n int) tbls.PrivateKey {
	if k, ok := freeCache[n]; ok {
		return k
	}
	k, err := tbls.GenerateInsecureKey(new(testing.T), &detReader{seed: fmt.Sprintf("locksigs/free/%d", n)})
	hx.Must(err)
	freeCache[n] = k
	return k
}

// bSecret returns the secret key of a bkey token (deg: degree + 1 of every polynomial of the line).
func bSecret(tok string, deg int) tbls.PrivateKey {
	switch tok[0] {
	case 'S':
		f := strings.Split(tok[1:], ".")
		p, err := strconv.Atoi(f[0])
		hx.Must(err)
		i, err := strconv.Atoi(f[1])
		hx.Must(err)
		s, ok := polyOf(p, deg).shares[i]
		if !ok {
			panic("share index")
		}
		return s
	case 'R':
		p, err := strconv.Atoi(tok[1:])
		hx.Must(err)
		return polyOf(p, deg).root
	case 'F':
		n, err := strconv.Atoi(tok[1:])
		hx.Must(err)
		return freeKey(n)
	}
	panic("bkey")
}

func bPublic(tok string, deg int) []byte {
	if tok == "x" {
		return make([]byte, 47)
	}
	pk, err := tbls.SecretToPublicKey(bSecret(tok, deg))
	hx.Must(err)
	return append([]byte(nil), pk[:]...)
}

func other32(k string) []byte {
	h := sha256.Sum256([]byte("locksigs/other/" + k))
	return h[:]
}

// ---------------------------------------------------------------------------------------------
// eth1 mock

type eth1Mock struct{ mode string }

var errMock = errors.New("mock execution client failure")

func (eth1Mock) Run(context.Context) {}
func (eth1Mock) ClientVersion(context.Context) (string, error) {
	return "mock", nil
}

func (m eth1Mock) VerifySmartContractBasedSignature(string, [32]byte, []byte) (bool, error) {
	switch m.mode {
	case "yes":
		return true, nil
	case "no":
		return false, nil
	case "noeng":
		return false, eth1wrap.ErrNoExecutionEngineAddr
	default:
		return false, errMock
	}
}

func eth1Of(mode string) eth1wrap.EthClientRunner {
	switch mode {
	case "nil":
		return nil
	case "yes", "no", "noeng", "fail":
		return eth1Mock{mode}
	}
	panic("e1")
}

// ---------------------------------------------------------------------------------------------
// building the concrete artifact

const feeAddrBase = "0x52fdfc072182654f163f5f0f9a621d729566c7"

func verStr(v int) string { return fmt.Sprintf("v1.%d.0", v) }

type builder struct {
	d      desc
	def    cluster.Definition
	lock   cluster.Lock
	cfgCtx func(href string) []byte
	lckCtx func(href string) []byte
}

func (b *builder) baseDef(nm int) cluster.Definition {
	d := b.d
	def := cluster.Definition{
		UUID:          "0194FDC2-FA2F-4CC0-81D3-FF12045B73C8",
		Name:          fmt.Sprintf("c%d", nm),
		Version:       verStr(d.v),
		NumValidators: d.nv,
		Threshold:     d.th,
		DKGAlgorithm:  "default",
		ForkVersion:   forkVersion(d.ch),
		Creator:       cluster.Creator{Address: addrOf(d.crAddr)},
	}
	if d.v >= 1 {
		def.Timestamp = "2022-07-19T18:19:58+02:00"
	}
	if d.v >= 10 {
		def.TargetGasLimit = 30000000
	}
	for i := 0; i < d.nv; i++ {
		j := i
		if d.v < 5 {
			j = 0
		}
		def.ValidatorAddresses = append(def.ValidatorAddresses, cluster.ValidatorAddresses{
			FeeRecipientAddress: fmt.Sprintf("%s%02x", feeAddrBase, j+1), WithdrawalAddress: fmt.Sprintf("%s%02x", feeAddrBase, 0x80+j)})
	}
	for _, o := range d.ops {
		def.Operators = append(def.Operators, cluster.Operator{Address: addrOf(o.addr), ENR: enrOf(o.enr),
			ConfigSignature: []byte{}, ENRSignature: []byte{}})
	}
	return def
}

func resolveRef(ref string, h func() []byte, n func(c int) []byte) []byte {
	switch {
	case ref == "h":
		return h()
	case ref[0] == 'n':
		c, err := strconv.Atoi(ref[1:])
		hx.Must(err)
		return n(c)
	case ref[0] == 'o':
		return other32(ref[1:])
	}
	panic("ref " + ref)
}

// sign makes the signature of a sig token.
func (b *builder) sign(tok string) []byte {
	if tok == "-" {
		return []byte{}
	}
	if tok[0] == 'b' {
		n, err := strconv.Atoi(tok[1:])
		hx.Must(err)
		out := make([]byte, n)
		for i := range out {
			out[i] = byte(7 * (i + 1))
		}
		if n >= 65 {
			out[64] = 5 // no recovery id
		}
		return out
	}
	if tok[0] != 'g' && tok[0] != 'G' {
		panic("sig " + tok)
	}
	i := strings.IndexByte(tok, ':')
	kn, err := strconv.Atoi(tok[1:i])
	hx.Must(err)
	key := k1Key(kn)
	f := strings.SplitN(tok[i+1:], ".", 3)
	var sig []byte
	tmp := cluster.Definition{}
	if f[0] != "rc" && f[0] != "rl" {
		tmp.ForkVersion = forkVersion(f[1])
	}
	switch f[0] {
	case "oc", "lc":
		tmp.Version = "v1.4.0"
		if f[0] == "lc" {
			tmp.Version = "v1.3.0"
		}
		tmp.ConfigHash = b.cfgCtx(f[2])
		op, err := cluster.VerifSignOperator(key, tmp, cluster.Operator{})
		hx.Must(err)
		sig = op.ConfigSignature
	case "cc":
		tmp.ConfigHash = b.cfgCtx(f[2])
		d2, err := cluster.VerifSignCreator(key, tmp)
		hx.Must(err)
		sig = d2.Creator.ConfigSignature
	case "en":
		tmp.Version = "v1.4.0"
		op, err := cluster.VerifSignOperator(key, tmp, cluster.Operator{ENR: enrOf(f[2])})
		hx.Must(err)
		sig = op.ENRSignature
	case "tc":
		sig, err = cluster.SignTermsAndConditions(key, tmp)
		hx.Must(err)
	case "rc":
		sig, err = k1util.Sign(key, b.cfgCtx(f[1]))
		hx.Must(err)
	case "rl":
		sig, err = k1util.Sign(key, b.lckCtx(f[1]))
		hx.Must(err)
	default:
		panic("digest " + tok)
	}
	sig = append([]byte(nil), sig...)
	if tok[0] == 'G' {
		sig[64] += 27
	}
	return sig
}

func (b *builder) build() {
	d := b.d
	def := b.baseDef(d.nm)
	cfgOf := func(nm int) []byte {
		h, err := cluster.VerifHashDefinition(b.baseDef(nm), true)
		hx.Must(err)
		return h[:]
	}
	def.ConfigHash = resolveRef(d.cfg, func() []byte { return cfgOf(d.nm) }, cfgOf)
	stored := def.ConfigHash
	b.cfgCtx = func(href string) []byte {
		if href == "s" {
			return stored
		}
		return resolveRef(href, func() []byte { return cfgOf(d.nm) }, cfgOf)
	}
	// the lock-hash context needs the finished definition: node signatures and the aggregate are made later; an
	// operator / creator signature over a lock-context value is not supported (never generated)
	b.lckCtx = func(string) []byte { panic("lock context inside a definition signature") }
	for i, o := range d.ops {
		def.Operators[i].ConfigSignature = b.sign(o.cfgSig)
		def.Operators[i].ENRSignature = b.sign(o.enrSig)
	}
	def.Creator.ConfigSignature = b.sign(d.crSig)
	dhOf := func(nm int) []byte {
		x := def
		x.Name = fmt.Sprintf("c%d", nm)
		h, err := cluster.VerifHashDefinition(x, false)
		hx.Must(err)
		return h[:]
	}
	if d.dh != "-" { // `-`: the definition cannot be hashed (a signature of a length the SSZ schema has no room for)
		def.DefinitionHash = resolveRef(d.dh, func() []byte { return dhOf(d.nm) }, dhOf)
	}
	b.def = def
	if d.kind != "lock" {
		return
	}
	lock := cluster.Lock{Definition: def}
	ts := time.Unix(1616508000, 0).UTC()
	for i, v := range d.vals {
		dv := cluster.DistValidator{PubKey: bPublic(v.pk, d.deg)}
		for _, s := range v.shares {
			dv.PubShares = append(dv.PubShares, bPublic(s, d.deg))
		}
		if v.reg != "-" && v.pk != "x" {
			fee := fmt.Sprintf("%s%02x", feeAddrBase, 0x7f)
			if i < len(def.ValidatorAddresses) {
				fee = def.ValidatorAddresses[i].FeeRecipientAddress
			}
			msg, err := registration.NewMessage(eth2p0.BLSPubKey(dv.PubKey), fee, registration.DefaultGasLimit, ts)
			hx.Must(err)
			sr, err := registration.GetMessageSigningRoot(msg, eth2p0.Version(def.ForkVersion))
			hx.Must(err)
			signer := bSecret(v.pk, d.deg)
			if v.reg == "bad" {
				signer = freeKey(900 + i)
			}
			sig, err := tbls.Sign(signer, sr[:])
			hx.Must(err)
			dv.BuilderRegistration = cluster.BuilderRegistration{
				Message: cluster.Registration{FeeRecipient: append([]byte(nil), msg.FeeRecipient[:]...), GasLimit: int(msg.GasLimit),
					Timestamp: msg.Timestamp, PubKey: append([]byte(nil), msg.Pubkey[:]...)},
				Signature: append([]byte(nil), sig[:]...),
			}
		}
		lock.Validators = append(lock.Validators, dv)
	}
	lhOf := func(nm int) []byte {
		x := lock
		x.Definition.Name = fmt.Sprintf("c%d", nm)
		h, err := cluster.VerifHashLock(x)
		hx.Must(err)
		return h[:]
	}
	lock.LockHash = resolveRef(d.lh, func() []byte { return lhOf(d.nm) }, lhOf)
	storedLH := lock.LockHash
	b.lckCtx = func(href string) []byte {
		if href == "s" {
			return storedLH
		}
		return resolveRef(href, func() []byte { return lhOf(d.nm) }, lhOf)
	}
	switch {
	case d.agg == "-":
		lock.SignatureAggregate = nil
	case d.agg[0] == 'b':
		n, err := strconv.Atoi(d.agg[1:])
		hx.Must(err)
		lock.SignatureAggregate = make([]byte, n)
		for i := range lock.SignatureAggregate {
			lock.SignatureAggregate[i] = byte(3 * (i + 1))
		}
	case d.agg[0] == 'A':
		i := strings.IndexByte(d.agg, ':')
		msg := b.lckCtx(d.agg[1:i])
		var sigs []tbls.Signature
		if d.agg[i+1:] != "" {
			for _, s := range strings.Split(d.agg[i+1:], "+") {
				sig, err := tbls.Sign(bSecret(s, d.deg), msg)
				hx.Must(err)
				sigs = append(sigs, sig)
			}
		}
		if len(sigs) == 0 {
			inf := make([]byte, 96) // the aggregate of nobody: the point at infinity
			inf[0] = 0xc0
			lock.SignatureAggregate = inf
		} else {
			agg, err := tbls.Aggregate(sigs)
			hx.Must(err)
			lock.SignatureAggregate = append([]byte(nil), agg[:]...)
		}
	default:
		panic("agg")
	}
	for _, s := range d.ns {
		lock.NodeSignatures = append(lock.NodeSignatures, b.sign(s))
	}
	b.lock = lock
}

// ---------------------------------------------------------------------------------------------
// classes

var defClasses = []struct{ sub, cls string }{
	{"older version signatures not supported", "old-sigs"},
	{"invalid signature length", "sig-len"},
	{"invalid fork version", "chain"},
	{"empty operator enr signature", "empty-enr-sig"},
	{"empty operator config signature", "empty-cfg-sig"},
	{"invalid ethereum address", "addr-err"},
	{"pubkey from signature", "rec-err"},
	{"mock execution client failure", "erc-err"},
	{"invalid operator config signature", "invalid-op-cfg"},
	{"invalid operator enr signature", "invalid-op-enr"},
	{"invalid creator config signature", "invalid-creator"},
	{"some operators signed while others did not", "some-signed"},
	{"unexpected creator config signature in old version", "creator-old"},
	{"operators signed while creator did not", "ops-signed-creator-not"},
	{"empty creator config signature", "creator-empty"},
}

func defClass(err error) string {
	if err == nil {
		return "ok"
	}
	m := err.Error()
	for _, c := range defClasses {
		if strings.Contains(m, c.sub) {
			return c.cls
		}
	}
	return "?" + strings.ReplaceAll(m, " ", "_")
}

var lockClasses = []struct{ sub, cls string }{
	{"empty lock aggregate signature", "empty-agg"},
	{"invalid public share count", "share-count"},
	{"duplicate distributed validator public key", "dup-dvkey"},
	{"duplicate public share", "dup-share"},
	{"parse public shares", "share-bytes"},
	{"invalid data length", "bytes-len"},
	{"invalid threshold", "threshold"},
	{"public shares do not reconstruct", "reconstruct"},
	{"extra share does not lie", "extra-share"},
	{"verify lock signature aggregate", "agg"},
	{"unexpected validator registration", "reg-unexpected"},
	{"missing validator registration", "reg-missing"},
	{"missing fee recipient address for validator", "reg-no-addr"}, // since repair 5c353f3 (before: index out of range panic)
	{"verify pre-generated builder registrations", "reg-invalid"},
	{"unexpected node signatures", "ns-unexpected"},
	{"invalid node signature count", "ns-count"},
	{"operator ENR", "enr-parse"},
	{"node signature check", "ns-err"},
	{"invalid node signature", "ns-invalid"},
}

func lockClass(err error) string {
	if err == nil {
		return "ok"
	}
	m := err.Error()
	if strings.HasPrefix(m, "invalid definition") {
		return "def:" + defClass(err)
	}
	for _, c := range lockClasses {
		if strings.Contains(m, c.sub) {
			return c.cls
		}
	}
	return "?" + strings.ReplaceAll(m, " ", "_")
}

func hashClass(kind string, err error) string {
	if err == nil {
		return "ok"
	}
	m := err.Error()
	switch {
	case strings.Contains(m, "invalid config hash"):
		return "cfg"
	case strings.Contains(m, "invalid definition hash"):
		return "dfn"
	case strings.Contains(m, "lock validators count mismatch"):
		return "count"
	case strings.Contains(m, "invalid lock hash"):
		return "lock"
	}
	return "?" + strings.ReplaceAll(m, " ", "_")
}

// execArtifact builds the artifact of a def / lock line and runs the real verification.
func execArtifact(d desc) (out string) {
	defer func() {
		if r := recover(); r != nil {
			out = fmt.Sprintf("panic:%v", r)
			out = strings.ReplaceAll(out, " ", "_")
		}
	}()
	b := &builder{d: d}
	b.build()
	eth1 := eth1Of(d.e1)
	var sigs, hashes string
	func() {
		defer func() {
			if r := recover(); r != nil {
				sigs = "panic"
			}
		}()
		if d.kind == "def" {
			sigs = defClass(b.def.VerifySignatures(eth1))
		} else {
			sigs = lockClass(b.lock.VerifySignatures(eth1))
		}
	}()
	if d.dh == "-" {
		hashes = "-"
	} else if d.kind == "def" {
		hashes = hashClass("def", b.def.VerifyHashes())
	} else {
		hashes = hashClass("lock", b.lock.VerifyHashes())
	}
	return sigs + " " + hashes
}

// ---------------------------------------------------------------------------------------------
// dv op (distvalidator.go)

func execDV(line string) (out string) {
	defer func() {
		if r := recover(); r != nil {
			out = "bad-op"
		}
	}()
	kv := map[string]string{}
	for _, t := range strings.Fields(line)[1:] {
		i := strings.IndexByte(t, '=')
		kv[t[:i]] = t[i+1:]
	}
	idx, err := strconv.Atoi(kv["i"])
	hx.Must(err)
	var dv cluster.DistValidator
	var toks []string
	if kv["shares"] != "-" {
		toks = strings.Split(kv["shares"], "+")
	}
	for _, s := range toks {
		dv.PubShares = append(dv.PubShares, bPublic(s, 2))
	}
	f := strings.Split(kv["reg"], ",")
	var n [5]int
	for i := range n {
		n[i], err = strconv.Atoi(f[i])
		hx.Must(err)
	}
	dv.BuilderRegistration.Signature = make([]byte, n[0])
	dv.BuilderRegistration.Message.PubKey = make([]byte, n[1])
	dv.BuilderRegistration.Message.FeeRecipient = make([]byte, n[2])
	dv.BuilderRegistration.Message.GasLimit = n[3]
	if n[4] == 0 {
		dv.BuilderRegistration.Message.Timestamp = time.Unix(1616508000, 0)
	}
	share := func() (s string) {
		defer func() {
			if r := recover(); r != nil {
				s = "none"
			}
		}()
		pk, err := dv.PublicShare(idx)
		if err != nil {
			return "none"
		}
		for _, t := range toks {
			if t != "x" && string(bPublic(t, 2)) == string(pk[:]) {
				return t
			}
		}
		return "?"
	}()
	zero := dv.ZeroRegistration()
	_, e2 := dv.Eth2Registration()
	reg := dv.BuilderRegistration
	noReg := len(reg.Signature) == 0 || len(reg.Message.FeeRecipient) == 0 || len(reg.Message.PubKey) == 0
	return fmt.Sprintf("share=%s zero=%v eth2=%v noreg=%v", share, zero, e2 == nil, noReg)
}

// ---------------------------------------------------------------------------------------------
// monitors (independent of the model: decided from the NAME of the alteration the generator applied)

type drv struct {
	run  *hx.Run
	rng  *hx.Rng
	tier string
}

// family of an alteration that MUST be rejected by full verification (VerifySignatures and VerifyHashes); "" = no claim.
func mustReject(alt string) string {
	switch {
	case strings.HasPrefix(alt, "T:"):
		return "locksigs:tampered_definition_accepted"
	case strings.HasPrefix(alt, "F:"):
		return "locksigs:foreign_signature_accepted"
	case strings.HasPrefix(alt, "H:"):
		return "locksigs:half_signed_accepted"
	case strings.HasPrefix(alt, "N:"):
		return "locksigs:lock_with_bad_node_sig_accepted"
	case strings.HasPrefix(alt, "A:"):
		return "locksigs:lock_with_bad_aggregate_accepted"
	case strings.HasPrefix(alt, "R:"):
		return "locksigs:malformed_artifact_accepted"
	}
	return ""
}

func (dr *drv) op(line string) {
	toks := strings.Fields(line)
	if len(toks) > 0 && toks[0] == "dv" {
		out := execDV(line)
		dr.run.Count("dv")
		dr.run.Op(line, out)
		return
	}
	d, ok := parseLine(line)
	if !ok {
		dr.run.Op(line, "bad-op")
		return
	}
	dr.run.Begin(line)
	out := execArtifact(d)
	f := strings.Fields(out)
	accepted := len(f) == 2 && f[0] == "ok" && f[1] == "ok"
	alt := d.alt
	if i := strings.IndexByte(alt, '@'); i >= 0 {
		alt = alt[:i]
	}
	if strings.HasPrefix(out, "panic") && d.kind == "lock" && d.v >= 7 && len(d.vals) > d.nv {
		// repaired finding (5c353f3): verifyBuilderRegistrations indexed FeeRecipientAddresses() by the validator index without a
		// bound check; silent on /repo, fires again if the panic comes back
		dr.run.Violate("locksigs:verify_signatures_panics_more_validators_than_addresses",
			fmt.Sprintf("v1.%d lock with %d validators and %d validator addresses, consistently signed: Lock.VerifySignatures panics (%s)", d.v, len(d.vals), d.nv, out))
	} else if strings.HasPrefix(out, "panic") || strings.Contains(out, "?") {
		dr.run.Violate("locksigs:panic_or_unknown_error", fmt.Sprintf("%s: %s", d.alt, out))
	}
	if sig := mustReject(alt); sig != "" && accepted {
		dr.run.Violate(sig, fmt.Sprintf("v1.%d %s with alteration %s passes VerifySignatures and VerifyHashes", d.v, d.kind, d.alt))
	}
	if alt == "honest" && !accepted {
		dr.run.Violate("locksigs:honest_artifact_rejected", fmt.Sprintf("v1.%d honest %s rejected: %s", d.v, d.kind, out))
	}
	dr.run.Count(d.kind + ":" + f[0])
	dr.run.Count("alt:" + alt)
	dr.run.Case(fmt.Sprintf("%s:%d:%s:%s", d.kind, d.v, alt, out))
	dr.run.Op(line, out)
}

func main() {
	a := hx.ParseArgs()
	run := hx.NewRun(a.Dir)
	defer run.Close()
	dr := &drv{run: run, rng: hx.NewRng(a.Seed), tier: a.Tier}
	if a.Mode == "exec" {
		for _, l := range hx.ReadOps(a.Ops) {
			dr.op(l)
		}
		return
	}
	dr.generate(a.N)
}
