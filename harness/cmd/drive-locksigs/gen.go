package main

import (
	"fmt"
	"strings"

	"github.com/obolnetwork/charon/cluster"
)

// honest builds the description of an honestly created and signed definition / lock.
func (dr *drv) honest(kind string, v, n, nv int) desc {
	r := dr.rng
	d := desc{kind: kind, v: v, nm: 1 + r.Intn(3), ch: fmt.Sprint(r.Intn(4)), nv: nv, th: cluster.Threshold(n), e1: "nil",
		cfg: "h", dh: "h", crAddr: "-", crSig: "-", alt: "honest"}
	sameKey := r.Chance(1, 3)
	for i := 0; i < n; i++ {
		o := opD{addr: fmt.Sprintf("k%d", 1+i), enr: fmt.Sprintf("p%d", 21+i), cfgSig: "-", enrSig: "-"}
		if sameKey {
			o.enr = fmt.Sprintf("p%d", 1+i)
		}
		if v >= 3 {
			typ := "oc"
			if v == 3 {
				typ = "lc"
			}
			o.cfgSig = fmt.Sprintf("g%d:%s.%s.s", 1+i, typ, d.ch)
			o.enrSig = fmt.Sprintf("g%d:en.%s.%s", 1+i, d.ch, o.enr)
		}
		d.ops = append(d.ops, o)
	}
	if v >= 4 {
		ck := 40
		if r.Chance(1, 2) {
			ck = 1
		}
		d.crAddr = fmt.Sprintf("k%d", ck)
		d.crSig = fmt.Sprintf("g%d:cc.%s.s", ck, d.ch)
	} else if v == 3 && r.Chance(1, 2) {
		d.crAddr = "k40"
	}
	if kind != "lock" {
		return d
	}
	d.deg, d.lh = d.th, "h"
	var all []string
	for j := 0; j < nv; j++ {
		val := valD{pk: fmt.Sprintf("R%d", j+1), reg: "-"}
		if v >= 7 {
			val.reg = "ok"
		}
		for i := 0; i < n; i++ {
			val.shares = append(val.shares, fmt.Sprintf("S%d.%d", j+1, i+1))
		}
		all = append(all, val.shares...)
		d.vals = append(d.vals, val)
	}
	d.agg = "Ah:" + strings.Join(all, "+")
	if v >= 7 {
		for _, o := range d.ops {
			d.ns = append(d.ns, fmt.Sprintf("g%s:rl.s", o.enr[1:]))
		}
	}
	return d
}

// sig token helpers
func sigKey(tok string) string { return tok[1:strings.IndexByte(tok, ':')] }
func sigDig(tok string) string { return tok[strings.IndexByte(tok, ':')+1:] }
func isGood(tok string) bool   { return len(tok) > 0 && (tok[0] == 'g' || tok[0] == 'G') }

func otherChain(ch string) string {
	if ch == "0" {
		return "1"
	}
	return "0"
}

type alteration struct {
	name string
	f    func(dr *drv, d *desc) bool // false: does not apply to this artifact
}

func signed(d *desc) bool { return d.v >= 3 }

// two different operator positions
func (dr *drv) two(n int) (int, int) {
	i := dr.rng.Intn(n)
	j := (i + 1 + dr.rng.Intn(n-1)) % n
	return i, j
}

var defAlts = []alteration{
	{"honest", func(dr *drv, d *desc) bool { return true }},
	{"honest@unsigned-all", func(dr *drv, d *desc) bool {
		for i := range d.ops {
			d.ops[i].addr, d.ops[i].cfgSig, d.ops[i].enrSig = "-", "-", "-"
		}
		d.crAddr, d.crSig = "-", "-"
		return len(d.ops) > 0
	}},
	{"honest@respell", func(dr *drv, d *desc) bool {
		if !signed(d) {
			return false
		}
		i := dr.rng.Intn(len(d.ops))
		d.ops[i].cfgSig = "G" + d.ops[i].cfgSig[1:]
		if dr.rng.Chance(1, 2) {
			d.ops[i].enrSig = "G" + d.ops[i].enrSig[1:]
		}
		if isGood(d.crSig) {
			d.crSig = "G" + d.crSig[1:]
		}
		return true
	}},
	{"honest@eth1", func(dr *drv, d *desc) bool { // an execution client is there: EOA signatures never reach it
		d.e1 = []string{"no", "yes", "noeng", "fail"}[dr.rng.Intn(4)]
		return true
	}},
	{"W:ops-unsigned-creator-signed", func(dr *drv, d *desc) bool {
		if d.v < 4 {
			return false
		}
		for i := range d.ops {
			d.ops[i].addr, d.ops[i].cfgSig, d.ops[i].enrSig = "-", "-", "-"
		}
		return true
	}},
	{"W:no-operators", func(dr *drv, d *desc) bool {
		if d.kind == "lock" {
			return false
		}
		d.ops = nil
		if dr.rng.Chance(1, 2) {
			d.crAddr, d.crSig = "-", "-"
		}
		return true
	}},
	{"W:legacy-creator-ignored", func(dr *drv, d *desc) bool {
		if d.v > 3 {
			return false
		}
		d.crAddr = "k40"
		if d.v < 3 {
			d.crSig = fmt.Sprintf("g77:cc.%s.s", d.ch)
			if dr.rng.Chance(1, 2) {
				d.ch = "x"
			}
		}
		return true
	}},
	{"H:half-signed", func(dr *drv, d *desc) bool {
		if !signed(d) || len(d.ops) < 2 {
			return false
		}
		i := dr.rng.Intn(len(d.ops))
		d.ops[i].addr, d.ops[i].cfgSig, d.ops[i].enrSig = "-", "-", "-"
		return true
	}},
	{"H:op-missing-enr-sig", func(dr *drv, d *desc) bool {
		if !signed(d) {
			return false
		}
		d.ops[dr.rng.Intn(len(d.ops))].enrSig = "-"
		return true
	}},
	{"H:op-missing-cfg-sig", func(dr *drv, d *desc) bool {
		if !signed(d) {
			return false
		}
		d.ops[dr.rng.Intn(len(d.ops))].cfgSig = "-"
		return true
	}},
	{"H:op-sigs-dropped-address-kept", func(dr *drv, d *desc) bool {
		if !signed(d) {
			return false
		}
		i := dr.rng.Intn(len(d.ops))
		d.ops[i].cfgSig, d.ops[i].enrSig = "-", "-"
		return true
	}},
	{"H:creator-missing", func(dr *drv, d *desc) bool {
		if d.v < 4 {
			return false
		}
		d.crAddr, d.crSig = "-", "-"
		return true
	}},
	{"H:creator-sig-missing", func(dr *drv, d *desc) bool {
		if d.v < 4 {
			return false
		}
		d.crSig = "-"
		return true
	}},
	{"F:swap-sigs", func(dr *drv, d *desc) bool {
		if !signed(d) || len(d.ops) < 2 {
			return false
		}
		i, j := dr.two(len(d.ops))
		switch dr.rng.Intn(3) {
		case 0:
			d.ops[i].cfgSig, d.ops[j].cfgSig = d.ops[j].cfgSig, d.ops[i].cfgSig
		case 1:
			d.ops[i].enrSig, d.ops[j].enrSig = d.ops[j].enrSig, d.ops[i].enrSig
		default:
			d.ops[i].cfgSig, d.ops[j].cfgSig = d.ops[j].cfgSig, d.ops[i].cfgSig
			d.ops[i].enrSig, d.ops[j].enrSig = d.ops[j].enrSig, d.ops[i].enrSig
		}
		return true
	}},
	{"F:replay", func(dr *drv, d *desc) bool {
		if !signed(d) || len(d.ops) < 2 {
			return false
		}
		i, j := dr.two(len(d.ops))
		if dr.rng.Chance(1, 2) {
			d.ops[j].cfgSig = d.ops[i].cfgSig
		} else {
			d.ops[j].enrSig = d.ops[i].enrSig
		}
		return true
	}},
	{"F:enr-sig-as-cfg-sig", func(dr *drv, d *desc) bool {
		if !signed(d) {
			return false
		}
		i := dr.rng.Intn(len(d.ops))
		if dr.rng.Chance(1, 2) {
			d.ops[i].cfgSig = d.ops[i].enrSig
		} else {
			d.ops[i].enrSig = d.ops[i].cfgSig
		}
		return true
	}},
	{"F:wrong-signer", func(dr *drv, d *desc) bool {
		if !signed(d) {
			return false
		}
		i := dr.rng.Intn(len(d.ops))
		switch dr.rng.Intn(3) {
		case 0:
			d.ops[i].cfgSig = "g77:" + sigDig(d.ops[i].cfgSig)
		case 1:
			d.ops[i].enrSig = "g77:" + sigDig(d.ops[i].enrSig)
		default: // signed by the node's ENR key instead of the operator's wallet key
			d.ops[i].cfgSig = "g" + d.ops[i].enr[1:] + ":" + sigDig(d.ops[i].cfgSig)
			if d.ops[i].enr[1:] == d.ops[i].addr[1:] {
				return false
			}
		}
		d.e1 = []string{"nil", "no", "noeng"}[dr.rng.Intn(3)]
		return true
	}},
	{"F:address-replaced", func(dr *drv, d *desc) bool { // another operator address, every hash recomputed, signatures kept
		if !signed(d) {
			return false
		}
		d.ops[dr.rng.Intn(len(d.ops))].addr = "k78"
		return true
	}},
	{"F:wrong-typed-data", func(dr *drv, d *desc) bool {
		if !signed(d) {
			return false
		}
		i := dr.rng.Intn(len(d.ops))
		k := sigKey(d.ops[i].cfgSig)
		typs := []string{"cc." + d.ch + ".s", "tc." + d.ch, "rc.s", "lc." + d.ch + ".s"}
		if d.v == 3 {
			typs[3] = "oc." + d.ch + ".s"
		}
		d.ops[i].cfgSig = "g" + k + ":" + typs[dr.rng.Intn(4)]
		return true
	}},
	{"F:other-definition", func(dr *drv, d *desc) bool { // a signature the same key made over another definition
		if !signed(d) {
			return false
		}
		i := dr.rng.Intn(len(d.ops))
		dig := strings.Split(sigDig(d.ops[i].cfgSig), ".")
		ref := []string{fmt.Sprintf("n%d", d.nm+5), "o3"}[dr.rng.Intn(2)]
		d.ops[i].cfgSig = "g" + sigKey(d.ops[i].cfgSig) + ":" + dig[0] + "." + dig[1] + "." + ref
		return true
	}},
	{"F:other-chain", func(dr *drv, d *desc) bool {
		if !signed(d) {
			return false
		}
		i := dr.rng.Intn(len(d.ops))
		if dr.rng.Chance(1, 2) {
			dig := strings.Split(sigDig(d.ops[i].cfgSig), ".")
			d.ops[i].cfgSig = "g" + sigKey(d.ops[i].cfgSig) + ":" + dig[0] + "." + otherChain(d.ch) + "." + dig[2]
		} else {
			d.ops[i].enrSig = "g" + sigKey(d.ops[i].enrSig) + ":en." + otherChain(d.ch) + "." + d.ops[i].enr
		}
		return true
	}},
	{"F:enr-sig-of-other-enr", func(dr *drv, d *desc) bool {
		if !signed(d) {
			return false
		}
		i := dr.rng.Intn(len(d.ops))
		d.ops[i].enrSig = "g" + sigKey(d.ops[i].enrSig) + ":en." + d.ch + ".p60"
		return true
	}},
	{"F:enr-replaced", func(dr *drv, d *desc) bool { // the ENR of an operator is exchanged, hashes recomputed, signature kept
		if !signed(d) || d.kind == "lock" {
			return false
		}
		d.ops[dr.rng.Intn(len(d.ops))].enr = "p61"
		return true
	}},
	{"F:creator-wrong", func(dr *drv, d *desc) bool {
		if d.v < 4 {
			return false
		}
		switch dr.rng.Intn(4) {
		case 0:
			d.crSig = "g77:" + sigDig(d.crSig)
		case 1:
			d.crSig = "g" + sigKey(d.crSig) + ":oc." + d.ch + ".s"
		case 2:
			d.crSig = "g" + sigKey(d.crSig) + ":cc." + d.ch + ".o4"
		default:
			d.crAddr = "k79"
		}
		return true
	}},
	{"T:content-edited", func(dr *drv, d *desc) bool { // a hashed field is edited, the stored hashes are left alone
		old := d.nm
		d.nm += 1 + dr.rng.Intn(3)
		d.cfg, d.dh = fmt.Sprintf("n%d", old), fmt.Sprintf("n%d", old)
		if d.kind == "lock" {
			d.lh = fmt.Sprintf("n%d", old)
			d.agg = strings.Replace(d.agg, "Ah:", "As:", 1)
		}
		return true
	}},
	{"T:content-edited-rehashed", func(dr *drv, d *desc) bool { // … and every hash is recomputed; signatures are the old ones
		if !signed(d) {
			return false
		}
		old := fmt.Sprintf("n%d", d.nm)
		d.nm += 1 + dr.rng.Intn(3)
		for i := range d.ops {
			d.ops[i].cfgSig = strings.Replace(d.ops[i].cfgSig, ".s", "."+old, 1)
		}
		if isGood(d.crSig) {
			d.crSig = strings.Replace(d.crSig, ".s", "."+old, 1)
		}
		return true
	}},
	{"T:config-hash-replaced", func(dr *drv, d *desc) bool { // the stored config hash is other bytes; signatures over the right one
		if !signed(d) {
			return false
		}
		for i := range d.ops {
			d.ops[i].cfgSig = strings.Replace(d.ops[i].cfgSig, ".s", ".h", 1)
		}
		if isGood(d.crSig) {
			d.crSig = strings.Replace(d.crSig, ".s", ".h", 1)
		}
		d.cfg = "o7"
		return true
	}},
	{"T:definition-hash-replaced", func(dr *drv, d *desc) bool {
		d.dh = "o8"
		return true
	}},
	{"T:threshold-edited", func(dr *drv, d *desc) bool { // Threshold is a config-hashed field: old signatures, new hashes
		if !signed(d) || d.kind == "lock" {
			return false
		}
		// the signatures were made over the config hash with the old threshold: not expressible as n<c>; model it as
		// a signature over unrelated bytes
		for i := range d.ops {
			d.ops[i].cfgSig = strings.Replace(d.ops[i].cfgSig, ".s", ".o9", 1)
		}
		d.th++
		return true
	}},
	{"R:legacy-with-sigs", func(dr *drv, d *desc) bool {
		if d.v > 2 {
			return false
		}
		i := dr.rng.Intn(len(d.ops))
		if dr.rng.Chance(1, 2) {
			d.ops[i].cfgSig = fmt.Sprintf("g%s:oc.%s.s", d.ops[i].addr[1:], d.ch)
		} else {
			d.ops[i].enrSig = "b1"
		}
		return true
	}},
	{"R:v13-creator-signed", func(dr *drv, d *desc) bool {
		if d.v != 3 {
			return false
		}
		d.crAddr = "k40"
		d.crSig = "g40:cc." + d.ch + ".s"
		return true
	}},
	{"R:sig-junk", func(dr *drv, d *desc) bool {
		if !signed(d) {
			return false
		}
		i := dr.rng.Intn(len(d.ops))
		n := []string{"b65", "b64", "b66", "b1", "b130", "b2145"}[dr.rng.Intn(6)]
		if n != "b65" && !(n == "b130" && d.v == 11) {
			if d.kind == "lock" {
				return false
			}
			d.dh = "-" // such a definition has no definition hash
		}
		switch dr.rng.Intn(3) {
		case 0:
			d.ops[i].cfgSig = n
		case 1:
			d.ops[i].enrSig = n
		default:
			if d.v < 4 {
				return false
			}
			d.crSig = n
		}
		d.e1 = []string{"nil", "no", "noeng", "fail"}[dr.rng.Intn(4)]
		return true
	}},
	{"R:unknown-chain", func(dr *drv, d *desc) bool {
		if !signed(d) {
			return false
		}
		d.ch = "x"
		return true
	}},
	{"R:addr-empty-signed", func(dr *drv, d *desc) bool {
		if !signed(d) {
			return false
		}
		if d.v >= 4 && dr.rng.Chance(1, 2) {
			d.crAddr = "-"
		} else {
			d.ops[dr.rng.Intn(len(d.ops))].addr = "-"
		}
		return true
	}},
	{"W:erc1271", func(dr *drv, d *desc) bool { // what the execution client says decides for non-EOA signatures
		if !signed(d) {
			return false
		}
		i := dr.rng.Intn(len(d.ops))
		d.e1 = []string{"yes", "no", "noeng", "fail"}[dr.rng.Intn(4)]
		switch dr.rng.Intn(4) {
		case 0:
			d.ops[i].cfgSig = "b65"
		case 1:
			d.ops[i].enrSig = "g77:" + sigDig(d.ops[i].enrSig)
		case 2:
			if d.v != 11 {
				return false
			}
			d.ops[i].cfgSig = "b130"
		default:
			if d.v < 4 {
				return false
			}
			d.crSig = "g77:" + sigDig(d.crSig)
		}
		return true
	}},
}

var lockAlts = []alteration{
	{"honest@agg-reordered", func(dr *drv, d *desc) bool {
		i := strings.IndexByte(d.agg, ':')
		ks := strings.Split(d.agg[i+1:], "+")
		p := dr.rng.Perm(len(ks))
		var out []string
		for _, j := range p {
			out = append(out, ks[j])
		}
		d.agg = d.agg[:i+1] + strings.Join(out, "+")
		return true
	}},
	{"N:drop", func(dr *drv, d *desc) bool {
		if d.v < 7 {
			return false
		}
		i := dr.rng.Intn(len(d.ns))
		d.ns = append(d.ns[:i:i], d.ns[i+1:]...)
		return true
	}},
	{"N:drop-all", func(dr *drv, d *desc) bool {
		if d.v < 7 {
			return false
		}
		d.ns = nil
		return true
	}},
	{"N:dup-append", func(dr *drv, d *desc) bool {
		if d.v < 7 {
			return false
		}
		d.ns = append(d.ns, d.ns[dr.rng.Intn(len(d.ns))])
		return true
	}},
	{"N:dup-replace", func(dr *drv, d *desc) bool {
		if d.v < 7 || len(d.ns) < 2 {
			return false
		}
		i, j := dr.two(len(d.ns))
		d.ns[j] = d.ns[i]
		return true
	}},
	{"N:reorder", func(dr *drv, d *desc) bool {
		if d.v < 7 || len(d.ns) < 2 {
			return false
		}
		i, j := dr.two(len(d.ns))
		d.ns[i], d.ns[j] = d.ns[j], d.ns[i]
		return true
	}},
	{"N:wrong-signer", func(dr *drv, d *desc) bool {
		if d.v < 7 {
			return false
		}
		i := dr.rng.Intn(len(d.ns))
		if dr.rng.Chance(1, 2) || d.ops[i].addr[1:] == d.ops[i].enr[1:] {
			d.ns[i] = "g77:rl.s"
		} else {
			d.ns[i] = "g" + d.ops[i].addr[1:] + ":rl.s" // the operator's wallet key instead of the node key
		}
		return true
	}},
	{"N:other-message", func(dr *drv, d *desc) bool {
		if d.v < 7 {
			return false
		}
		i := dr.rng.Intn(len(d.ns))
		k := sigKey(d.ns[i])
		d.ns[i] = "g" + k + ":" + []string{"rl.o5", fmt.Sprintf("rl.n%d", d.nm+4), "rc.s", "en." + d.ch + "." + d.ops[i].enr}[dr.rng.Intn(4)]
		return true
	}},
	{"N:junk", func(dr *drv, d *desc) bool {
		if d.v < 7 {
			return false
		}
		d.ns[dr.rng.Intn(len(d.ns))] = []string{"b65", "b64", "-", "b130"}[dr.rng.Intn(4)]
		return true
	}},
	{"N:legacy-with-node-sigs", func(dr *drv, d *desc) bool {
		if d.v >= 7 {
			return false
		}
		for _, o := range d.ops {
			d.ns = append(d.ns, fmt.Sprintf("g%s:rl.s", o.enr[1:]))
			if dr.rng.Chance(1, 2) {
				break
			}
		}
		return true
	}},
	{"N:enr-unparsable", func(dr *drv, d *desc) bool { // hashes recomputed; the operator's ENR signature made over the new string
		if d.v < 7 {
			return false
		}
		i := dr.rng.Intn(len(d.ops))
		d.ops[i].enr = "x3"
		d.ops[i].enrSig = "g" + sigKey(d.ops[i].enrSig) + ":en." + d.ch + ".x3"
		return true
	}},
	{"N:lock-hash-replaced", func(dr *drv, d *desc) bool { // node signatures are over the original hash
		if d.v < 7 {
			return false
		}
		d.lh = "o6"
		for i := range d.ns {
			d.ns[i] = strings.Replace(d.ns[i], "rl.s", "rl.h", 1)
		}
		return true
	}},
	{"T:lock-hash-replaced-resigned", func(dr *drv, d *desc) bool { // node signatures over the STORED (wrong) hash: only VerifyHashes objects
		d.lh = "o6"
		return true
	}},
	{"A:missing-share", func(dr *drv, d *desc) bool {
		i := strings.IndexByte(d.agg, ':')
		ks := strings.Split(d.agg[i+1:], "+")
		j := dr.rng.Intn(len(ks))
		ks = append(ks[:j:j], ks[j+1:]...)
		d.agg = d.agg[:i+1] + strings.Join(ks, "+")
		return true
	}},
	{"A:extra-signer", func(dr *drv, d *desc) bool {
		if dr.rng.Chance(1, 2) {
			d.agg += "+F5"
		} else {
			d.agg += "+" + d.vals[0].shares[0]
		}
		return true
	}},
	{"A:signer-replaced", func(dr *drv, d *desc) bool {
		i := strings.IndexByte(d.agg, ':')
		ks := strings.Split(d.agg[i+1:], "+")
		ks[dr.rng.Intn(len(ks))] = []string{"F6", "R1"}[dr.rng.Intn(2)]
		d.agg = d.agg[:i+1] + strings.Join(ks, "+")
		return true
	}},
	{"A:only-group-keys", func(dr *drv, d *desc) bool { // signed by the validators' group keys instead of the shares
		var ks []string
		for _, v := range d.vals {
			ks = append(ks, v.pk)
		}
		d.agg = "Ah:" + strings.Join(ks, "+")
		return true
	}},
	{"A:other-message", func(dr *drv, d *desc) bool {
		d.agg = strings.Replace(d.agg, "Ah:", []string{"Ao2:", fmt.Sprintf("An%d:", d.nm+3)}[dr.rng.Intn(2)], 1)
		return true
	}},
	{"A:empty", func(dr *drv, d *desc) bool {
		if d.v < 2 {
			return false
		}
		d.agg = "-"
		return true
	}},
	{"W:legacy-empty-aggregate", func(dr *drv, d *desc) bool { // v1.0 / v1.1: nothing of the lock is checked then
		if d.v >= 2 {
			return false
		}
		d.agg = "-"
		switch dr.rng.Intn(4) {
		case 0:
			d.vals[0].shares[0] = "F7"
		case 1:
			d.vals[0].pk = "F8"
		case 2:
			d.ns = []string{"b3"}
		}
		return true
	}},
	{"A:junk", func(dr *drv, d *desc) bool {
		d.agg = []string{"b96", "b95", "b97", "b1", "Ah:"}[dr.rng.Intn(5)]
		return true
	}},
	{"A:share-replaced", func(dr *drv, d *desc) bool { // a public share is another key; hashes recomputed, node signatures redone
		v := dr.rng.Intn(len(d.vals))
		i := dr.rng.Intn(len(d.vals[v].shares))
		d.vals[v].shares[i] = "F9"
		return true
	}},
	{"A:share-replaced-resigned", func(dr *drv, d *desc) bool { // … and the new key signs the aggregate too
		v := dr.rng.Intn(len(d.vals))
		i := dr.rng.Intn(len(d.vals[v].shares))
		d.agg = strings.Replace(d.agg+"+", d.vals[v].shares[i]+"+", "F9+", 1)
		d.agg = strings.TrimSuffix(d.agg, "+")
		d.vals[v].shares[i] = "F9"
		return true
	}},
	{"A:shares-swapped", func(dr *drv, d *desc) bool {
		v := dr.rng.Intn(len(d.vals))
		if len(d.vals[v].shares) < 2 {
			return false
		}
		i, j := dr.two(len(d.vals[v].shares))
		s := d.vals[v].shares
		s[i], s[j] = s[j], s[i]
		return true
	}},
	{"A:shares-of-other-validator", func(dr *drv, d *desc) bool {
		if len(d.vals) < 2 {
			return false
		}
		d.vals[0].shares, d.vals[1].shares = d.vals[1].shares, d.vals[0].shares
		return true
	}},
	{"A:group-key-replaced", func(dr *drv, d *desc) bool {
		if d.v >= 7 {
			return false // the builder registration is checked against the key: covered by R:reg
		}
		d.vals[dr.rng.Intn(len(d.vals))].pk = "F10"
		return true
	}},
	{"R:dup-validator", func(dr *drv, d *desc) bool {
		d.vals = append(d.vals, d.vals[0])
		d.nv++
		d.agg += "+" + strings.Join(d.vals[0].shares, "+")
		return true
	}},
	{"R:dup-share", func(dr *drv, d *desc) bool {
		s := d.vals[0].shares
		if len(s) < 2 {
			return false
		}
		d.agg = strings.Replace(d.agg+"+", s[1]+"+", s[0]+"+", 1)
		d.agg = strings.TrimSuffix(d.agg, "+")
		s[1] = s[0]
		return true
	}},
	{"R:share-count", func(dr *drv, d *desc) bool {
		v := dr.rng.Intn(len(d.vals))
		s := d.vals[v].shares
		if dr.rng.Chance(1, 2) && len(s) > 1 {
			d.agg = strings.TrimSuffix(strings.Replace(d.agg+"+", s[len(s)-1]+"+", "", 1), "+")
			d.vals[v].shares = s[:len(s)-1]
		} else {
			d.vals[v].shares = append(s, "F11")
			d.agg += "+F11"
		}
		return true
	}},
	{"R:key-bytes", func(dr *drv, d *desc) bool {
		v := dr.rng.Intn(len(d.vals))
		if dr.rng.Chance(1, 2) {
			d.vals[v].pk = "x"
			d.vals[v].reg = "-"
			return d.v < 7
		}
		i := dr.rng.Intn(len(d.vals[v].shares))
		d.agg = strings.TrimSuffix(strings.Replace(d.agg+"+", d.vals[v].shares[i]+"+", "", 1), "+")
		d.vals[v].shares[i] = "x"
		return true
	}},
	{"R:threshold", func(dr *drv, d *desc) bool { // Threshold 0, above the operators, or below the real degree; signatures redone
		switch dr.rng.Intn(3) {
		case 0:
			d.th = 0
		case 1:
			d.th = len(d.ops) + 1
		default:
			if d.deg < 2 {
				return false
			}
			d.th = d.deg - 1
		}
		return true
	}},
	{"W:threshold-above-degree", func(dr *drv, d *desc) bool { // accepted: more shares than needed still recover the key
		if d.deg+1 > len(d.ops) {
			return false
		}
		d.th = d.deg + 1
		return true
	}},
	{"R:reg", func(dr *drv, d *desc) bool {
		v := dr.rng.Intn(len(d.vals))
		if d.v < 7 {
			d.vals[v].reg = []string{"ok", "bad"}[dr.rng.Intn(2)]
		} else {
			d.vals[v].reg = []string{"-", "bad"}[dr.rng.Intn(2)]
		}
		return true
	}},
	{"R:more-validators-than-addresses", func(dr *drv, d *desc) bool { // repaired finding 5c353f3: VerifySignatures panicked, now reg-no-addr
		if d.v < 7 {
			return false
		}
		val := valD{pk: "R3", reg: "ok"}
		for i := range d.ops {
			val.shares = append(val.shares, fmt.Sprintf("S3.%d", i+1))
		}
		d.vals = append(d.vals, val)
		d.agg += "+" + strings.Join(val.shares, "+")
		return true
	}},
	{"R:validator-count", func(dr *drv, d *desc) bool { // fewer validators than num_validators; everything signed consistently
		if len(d.vals) < 2 {
			return false
		}
		last := d.vals[len(d.vals)-1]
		for _, s := range last.shares {
			d.agg = strings.TrimSuffix(strings.Replace(d.agg+"+", s+"+", "", 1), "+")
		}
		d.vals = d.vals[:len(d.vals)-1]
		return true
	}},
}

func (dr *drv) generate(n int) {
	maxOps := 4
	if dr.tier != "quick" {
		maxOps = 7
	}
	for k := 0; k < n && !dr.run.Enough(); k++ {
		v := k % 12
		if k%10 == 9 {
			dr.genDV()
			continue
		}
		kind := "def"
		alts := defAlts
		if dr.rng.Chance(1, 2) {
			kind = "lock"
			if dr.rng.Chance(3, 5) {
				alts = lockAlts
			}
		}
		nOps := 1 + dr.rng.Intn(maxOps)
		if kind == "lock" && nOps < 2 {
			nOps = 2 // one operator: threshold 1, every share IS the group key (the symbolic keys would differ)
		}
		if dr.rng.Chance(2, 3) && nOps < 3 {
			nOps = 3 + dr.rng.Intn(maxOps-2)
		}
		nv := 1 + dr.rng.Intn(2)
		base := dr.honest(kind, v, nOps, nv)
		// pick an alteration that applies (round robin start so that the whole menu is visited)
		start := (k/12 + dr.rng.Intn(3)) % len(alts)
		d := base
		for t := 0; t < len(alts); t++ {
			a := alts[(start+t)%len(alts)]
			c := base.clone()
			if a.f(dr, &c) {
				c.alt = a.name
				d = c
				break
			}
		}
		dr.op(d.line())
	}
}

func (dr *drv) genDV() {
	r := dr.rng
	n := r.Intn(5)
	var sh []string
	for i := 0; i < n; i++ {
		if r.Chance(1, 8) {
			sh = append(sh, "x")
		} else {
			sh = append(sh, fmt.Sprintf("S1.%d", i+1))
		}
	}
	pick := func(vals ...int) int { return vals[r.Intn(len(vals))] }
	line := fmt.Sprintf("dv i=%d shares=%s reg=%d,%d,%d,%d,%d", r.Intn(n+2), orDash(strings.Join(sh, "+")),
		pick(0, 96, 96, 95), pick(0, 48, 48, 47), pick(0, 20, 20, 32), pick(0, 30000000, 30000000, 1), pick(0, 0, 1))
	dr.op(line)
}
