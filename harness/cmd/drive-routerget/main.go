// drive-routerget: correspondence driver for the RESPONSE side of the validator API
// (core/validatorapi/router.go: proposeBlockV3 + createProposeBlockResponse, aggregateAttestation +
// createAggregateAttestation, attestationData, getValidators / getValidator + id parsing, the duties
// wrappers with their metadata readers, uintQuery / uintParam, writeResponse / writeError; and
// validatorapi.go: the non-cryptographic decisions of Component.Proposal).
//
// The REAL validatorapi.NewRouter is served over httptest. Behind it: a scripted Handler returning the
// answer the op dictates (every fork x blinded x consistent / inconsistent / nil), or — op `pc` — the
// real Component (insecure constructor) over a scripted duty store. Every 200 body is decoded with
// go-eth2-client's own types chosen from the response headers alone and compared with the served object.
//
// Op lines: `<kind> <concrete recipe> | <what the model reads>` (see lean/Driver/RouterGet.lean).
// In <chars> `~` is a space, `^` a tab.
package main

import (
	"context"
	"encoding/json"
	"fmt"
	"math/big"
	"strconv"
	"strings"

	"github.com/obolnetwork/charon/app/log"
	"github.com/obolnetwork/charon/core/validatorapi"
	"github.com/obolnetwork/charon/testutil/beaconmock"

	"verifharness/hx"
)

type driver struct {
	run  *hx.Run
	h    *scripted
	srv  *server // router over the scripted Handler (builderEnabled = false)
	srvB *server // the same with builderEnabled = true
	cs   *compServers
}

func encChars(s string) string {
	s = strings.ReplaceAll(s, " ", "~")
	return strings.ReplaceAll(s, "\t", "^")
}

func decChars(s string) string {
	s = strings.ReplaceAll(s, "~", " ")
	return strings.ReplaceAll(s, "^", "\t")
}

// Q token: `-` absent, `=<chars>` present.
type qv struct {
	present bool
	val     string
}

func (q qv) String() string {
	if !q.present {
		return "-"
	}
	return "=" + encChars(q.val)
}

func parseQ(s string) qv {
	if s == "-" || !strings.HasPrefix(s, "=") {
		return qv{}
	}
	return qv{true, decChars(s[1:])}
}

var two64 = new(big.Int).Lsh(big.NewInt(1), 64)

// ownUint: the harness's own reading of an unsigned 64 bit decimal (beacon API: "^[0-9]+$" below 2^64).
func ownUint(s string) (uint64, bool) {
	if s == "" {
		return 0, false
	}
	for i := 0; i < len(s); i++ {
		if s[i] < '0' || s[i] > '9' {
			return 0, false
		}
	}
	n, ok := new(big.Int).SetString(s, 10)
	if !ok || n.Cmp(two64) >= 0 {
		return 0, false
	}
	return n.Uint64(), true
}

type errBody struct {
	Code    int    `json:"code"`
	Message string `json:"message"`
}

// statusStr: status code + class of the error message; monitors the error body.
func (d *driver) statusStr(out httpOutcome, where string) string {
	if out.status == 0 {
		if out.panicAt != "" {
			return "panic"
		}
		d.run.Violate("routerget:timeout_no_response", where+": no HTTP response: "+out.netErr)
		return "noresp"
	}
	if out.status == 200 {
		return "200"
	}
	var eb errBody
	if err := json.Unmarshal(out.body, &eb); err != nil || eb.Code != out.status {
		d.run.Violate("routerget:error_body_code_mismatch", fmt.Sprintf("%s: status %d, body %.120q", where, out.status, out.body))
	}
	switch out.status {
	case 400:
		switch {
		case strings.Contains(eb.Message, "empty request body"):
			return "400:empty"
		case strings.Contains(eb.Message, "failed parsing json"):
			return "400:json"
		}
		return "400:param"
	case 404:
		return "404"
	case 500:
		return "500"
	case 418:
		return "proxied"
	}
	return strconv.Itoa(out.status)
}

// panicSeen: a handler panic. net/http recovers it (the process survives): after a nil answer of the
// Handler it is counted as observed; anywhere else it is a violation.
func (d *driver) panicSeen(out httpOutcome, endpoint string, nilAnswer string) {
	if out.panicAt == "" {
		return
	}
	if nilAnswer != "" {
		d.run.Count("observed:handler_panic_recovered:" + endpoint + ":" + nilAnswer)
		return
	}
	d.run.Violate("routerget:panic:"+endpoint, endpoint+": handler panicked: "+out.panicAt)
}

func splitOp(line string) (kind string, conc map[string]string, abs []string, ok bool) {
	parts := strings.SplitN(line, " | ", 2)
	if len(parts) != 2 {
		return "", nil, nil, false
	}
	pre := strings.Fields(parts[0])
	if len(pre) == 0 {
		return "", nil, nil, false
	}
	conc = map[string]string{}
	for _, t := range pre[1:] {
		if i := strings.Index(t, "="); i > 0 {
			conc[t[:i]] = t[i+1:]
		}
	}
	return pre[0], conc, strings.Fields(parts[1]), true
}

func (d *driver) exec(line string) {
	kind, conc, abs, ok := splitOp(line)
	if !ok {
		d.run.Op(line, "bad-op")
		return
	}
	defer func() {
		if p := recover(); p != nil {
			if s, isStr := p.(string); isStr && strings.HasPrefix(s, "bad-op") {
				d.run.Op(line, "bad-op")
				return
			}
			panic(p)
		}
	}()
	need := func(n int) {
		if len(abs) != n {
			panic("bad-op: arity")
		}
	}
	switch kind {
	case "pv":
		need(2)
		d.runPv(parseQ(conc["slot"]).val, conc["randao"], conc["graffiti"], conc["builder"] == "1", abs[1])
	case "pc":
		need(7)
		nsub, _ := strconv.Atoi(abs[4])
		d.runPc(parseQ(conc["slot"]).val, conc["randao"], conc["graffiti"], abs[1] == "1", abs[3], nsub, abs[5], abs[6])
	case "ag":
		need(4)
		d.runAg(parseQ(abs[0]), conc["root"], parseQ(abs[2]), abs[3])
	case "ad":
		need(3)
		d.runAd(parseQ(abs[0]), parseQ(abs[1]), abs[2])
	case "vs":
		need(4)
		d.runVs(conc["method"], abs[0], parseQList(abs[1]), conc["body"], bodyIDsOf(abs[2]), abs[3])
	case "v1":
		need(3)
		d.runV1(abs[0], parseQ(abs[1]).val, abs[2])
	case "du":
		need(4)
		d.runDu(abs[0], parseQ(abs[1]).val, conc["body"], bodyIdxOf(abs[2]), abs[3])
	default:
		d.run.Op(line, "bad-op")
	}
}

func parseQList(s string) []string {
	if s == "-" {
		return nil
	}
	var out []string
	for _, t := range strings.Split(s, ";") {
		out = append(out, parseQ(t).val)
	}
	return out
}

func qListStr(vs []string) string {
	if len(vs) == 0 {
		return "-"
	}
	p := make([]string, len(vs))
	for i, v := range vs {
		p[i] = "=" + encChars(v)
	}
	return strings.Join(p, ";")
}

func main() {
	a := hx.ParseArgs()
	hx.Must(log.InitLogger(log.Config{Level: "fatal", Format: "console", Color: "disable"}))
	ctx, cancel := context.WithCancel(context.Background())
	defer cancel()
	bmock, err := beaconmock.New(ctx)
	hx.Must(err)
	run := hx.NewRun(a.Dir)
	defer run.Close()
	h := &scripted{}
	r1, err := validatorapi.NewRouter(h, false)
	hx.Must(err)
	r2, err := validatorapi.NewRouter(h, true)
	hx.Must(err)
	d := &driver{run: run, h: h, srv: newServer(r1), srvB: newServer(r2), cs: &compServers{bmock: bmock, m: map[string]*server{}}}
	defer func() {
		d.srv.ts.Close()
		d.srvB.ts.Close()
		for _, s := range d.cs.m {
			s.ts.Close()
		}
	}()
	if a.Mode == "exec" {
		for _, l := range hx.ReadOps(a.Ops) {
			d.exec(l)
		}
		return
	}
	d.generate(a)
}
