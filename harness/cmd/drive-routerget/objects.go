// objects.go: the served objects (one Go value per wire type, identified by the slot written into
// it), the harness's own reading of a versioned answer (which field the beacon API says is served
// for a version and a blinded flag) and the validator client's side: decoding a `data` member with
// go-eth2-client's own types, chosen from the response headers alone.
package main

import (
	"bytes"
	"encoding/json"
	"fmt"
	"math/big"
	"strconv"
	"strings"

	eth2api "github.com/attestantio/go-eth2-client/api"
	apiv1bellatrix "github.com/attestantio/go-eth2-client/api/v1/bellatrix"
	apiv1capella "github.com/attestantio/go-eth2-client/api/v1/capella"
	apiv1deneb "github.com/attestantio/go-eth2-client/api/v1/deneb"
	apiv1electra "github.com/attestantio/go-eth2-client/api/v1/electra"
	apiv1fulu "github.com/attestantio/go-eth2-client/api/v1/fulu"
	eth2spec "github.com/attestantio/go-eth2-client/spec"
	"github.com/attestantio/go-eth2-client/spec/altair"
	"github.com/attestantio/go-eth2-client/spec/bellatrix"
	"github.com/attestantio/go-eth2-client/spec/capella"
	"github.com/attestantio/go-eth2-client/spec/deneb"
	"github.com/attestantio/go-eth2-client/spec/electra"
	eth2p0 "github.com/attestantio/go-eth2-client/spec/phase0"

	"github.com/obolnetwork/charon/testutil"
)

var forkNames = []string{"phase0", "altair", "bellatrix", "capella", "deneb", "electra", "fulu"}

// wire type names (the Go type a data member is encoded as)
var fullTypes = []string{"p0Block", "altBlock", "belBlock", "capBlock", "denContents", "elContents", "fuContents"}
var blindTypes = []string{"", "", "belBlind", "capBlind", "denBlind", "elBlind", "elBlind"}
var attTypes = []string{"p0Att", "p0Att", "p0Att", "p0Att", "p0Att", "elAtt", "elAtt"}

// mkObj builds a fresh object of a wire type with the identity written into its slot.
func mkObj(ty string, id int) any {
	s := eth2p0.Slot(id)
	switch ty {
	case "p0Block":
		o := testutil.RandomPhase0BeaconBlock()
		o.Slot = s
		return o
	case "altBlock":
		o := testutil.RandomAltairBeaconBlock()
		o.Slot = s
		return o
	case "belBlock":
		o := testutil.RandomBellatrixBeaconBlock()
		o.Slot = s
		return o
	case "belBlind":
		o := testutil.RandomBellatrixBlindedBeaconBlock()
		o.Slot = s
		return o
	case "capBlock":
		o := testutil.RandomCapellaBeaconBlock()
		o.Slot = s
		return o
	case "capBlind":
		o := testutil.RandomCapellaBlindedBeaconBlock()
		o.Slot = s
		return o
	case "denContents":
		o := &apiv1deneb.BlockContents{Block: testutil.RandomDenebBeaconBlock(), KZGProofs: []deneb.KZGProof{}, Blobs: []deneb.Blob{}}
		o.Block.Slot = s
		return o
	case "denBlind":
		o := testutil.RandomDenebBlindedBeaconBlock()
		o.Slot = s
		return o
	case "elContents":
		o := &apiv1electra.BlockContents{Block: testutil.RandomElectraBeaconBlock(), KZGProofs: []deneb.KZGProof{}, Blobs: []deneb.Blob{}}
		o.Block.Slot = s
		return o
	case "elBlind":
		o := testutil.RandomElectraBlindedBeaconBlock()
		o.Slot = s
		return o
	case "fuContents":
		o := &apiv1fulu.BlockContents{Block: testutil.RandomElectraBeaconBlock(), KZGProofs: []deneb.KZGProof{}, Blobs: []deneb.Blob{}}
		o.Block.Slot = s
		return o
	case "p0Att":
		o := testutil.RandomPhase0Attestation()
		o.Data.Slot = s
		return o
	case "elAtt":
		o := testutil.RandomElectraAttestation()
		o.Data.Slot = s
		return o
	}
	panic("mkObj: " + ty)
}

// newOf returns an empty value of a wire type (to decode into).
func newOf(ty string) any {
	switch ty {
	case "p0Block":
		return new(eth2p0.BeaconBlock)
	case "altBlock":
		return new(altair.BeaconBlock)
	case "belBlock":
		return new(bellatrix.BeaconBlock)
	case "belBlind":
		return new(apiv1bellatrix.BlindedBeaconBlock)
	case "capBlock":
		return new(capella.BeaconBlock)
	case "capBlind":
		return new(apiv1capella.BlindedBeaconBlock)
	case "denContents":
		return new(apiv1deneb.BlockContents)
	case "denBlind":
		return new(apiv1deneb.BlindedBeaconBlock)
	case "elContents":
		return new(apiv1electra.BlockContents)
	case "elBlind":
		return new(apiv1electra.BlindedBeaconBlock)
	case "fuContents":
		return new(apiv1fulu.BlockContents)
	case "p0Att":
		return new(eth2p0.Attestation)
	case "elAtt":
		return new(electra.Attestation)
	}
	panic("newOf: " + ty)
}

// slotOf reads the identity back from a decoded object.
func slotOf(o any) int {
	switch v := o.(type) {
	case *eth2p0.BeaconBlock:
		return int(v.Slot)
	case *altair.BeaconBlock:
		return int(v.Slot)
	case *bellatrix.BeaconBlock:
		return int(v.Slot)
	case *apiv1bellatrix.BlindedBeaconBlock:
		return int(v.Slot)
	case *capella.BeaconBlock:
		return int(v.Slot)
	case *apiv1capella.BlindedBeaconBlock:
		return int(v.Slot)
	case *apiv1deneb.BlockContents:
		return int(v.Block.Slot)
	case *apiv1deneb.BlindedBeaconBlock:
		return int(v.Slot)
	case *apiv1electra.BlockContents:
		return int(v.Block.Slot)
	case *apiv1electra.BlindedBeaconBlock:
		return int(v.Slot)
	case *apiv1fulu.BlockContents:
		return int(v.Block.Slot)
	case *eth2p0.Attestation:
		return int(v.Data.Slot)
	case *electra.Attestation:
		return int(v.Data.Slot)
	}
	return -1
}

// served is one populated field of a versioned answer.
type served struct {
	ty   string
	id   int
	obj  any
	json []byte
}

func mkServed(ty string, id int) *served {
	o := mkObj(ty, id)
	b, err := json.Marshal(o)
	if err != nil {
		panic(err)
	}
	return &served{ty: ty, id: id, obj: o, json: b}
}

// ---------------------------------------------------------------------------------------------
// proposal answers

type propSpec struct {
	ver     int
	blinded bool
	exec    int // -1: nil
	cons    int
	full    [7]int // -1: nil, else identity
	blind   [7]int
}

func fieldsStr(f [7]int) string {
	p := make([]string, 7)
	for i, v := range f {
		if v < 0 {
			p[i] = "-"
		} else {
			p[i] = strconv.Itoa(v)
		}
	}
	return strings.Join(p, ".")
}

func parseFields(s string) ([7]int, bool) {
	var f [7]int
	p := strings.Split(s, ".")
	if len(p) != 7 {
		return f, false
	}
	for i, t := range p {
		if t == "-" {
			f[i] = -1
			continue
		}
		n, err := strconv.Atoi(t)
		if err != nil {
			return f, false
		}
		f[i] = n
	}
	return f, true
}

func nilOr(v int) string {
	if v < 0 {
		return "n"
	}
	return strconv.Itoa(v)
}

func (p propSpec) String() string {
	return fmt.Sprintf("P:%d:%s:%s:%s:%s:%s", p.ver, b01(p.blinded), nilOr(p.exec), nilOr(p.cons), fieldsStr(p.full), fieldsStr(p.blind))
}

func b01(b bool) string {
	if b {
		return "1"
	}
	return "0"
}

func parseProp(s string) (propSpec, bool) {
	t := strings.Split(s, ":")
	var p propSpec
	if len(t) != 7 || t[0] != "P" {
		return p, false
	}
	var err error
	if p.ver, err = strconv.Atoi(t[1]); err != nil {
		return p, false
	}
	p.blinded = t[2] == "1"
	rd := func(x string) int {
		if x == "n" {
			return -1
		}
		n, _ := strconv.Atoi(x)
		return n
	}
	p.exec, p.cons = rd(t[3]), rd(t[4])
	var ok1, ok2 bool
	p.full, ok1 = parseFields(t[5])
	p.blind, ok2 = parseFields(t[6])
	return p, ok1 && ok2
}

// build makes the VersionedProposal and the list of its populated fields.
func (p propSpec) build() (*eth2api.VersionedProposal, []*served) {
	vp := &eth2api.VersionedProposal{Version: eth2spec.DataVersion(p.ver), Blinded: p.blinded}
	if p.exec >= 0 {
		vp.ExecutionValue = big.NewInt(int64(p.exec))
	}
	if p.cons >= 0 {
		vp.ConsensusValue = big.NewInt(int64(p.cons))
	}
	var all []*served
	for f := 0; f < 7; f++ {
		if p.full[f] >= 0 {
			s := mkServed(fullTypes[f], p.full[f])
			all = append(all, s)
			switch f {
			case 0:
				vp.Phase0 = s.obj.(*eth2p0.BeaconBlock)
			case 1:
				vp.Altair = s.obj.(*altair.BeaconBlock)
			case 2:
				vp.Bellatrix = s.obj.(*bellatrix.BeaconBlock)
			case 3:
				vp.Capella = s.obj.(*capella.BeaconBlock)
			case 4:
				vp.Deneb = s.obj.(*apiv1deneb.BlockContents)
			case 5:
				vp.Electra = s.obj.(*apiv1electra.BlockContents)
			case 6:
				vp.Fulu = s.obj.(*apiv1fulu.BlockContents)
			}
		}
		if p.blind[f] >= 0 && blindTypes[f] != "" {
			s := mkServed(blindTypes[f], p.blind[f])
			all = append(all, s)
			switch f {
			case 2:
				vp.BellatrixBlinded = s.obj.(*apiv1bellatrix.BlindedBeaconBlock)
			case 3:
				vp.CapellaBlinded = s.obj.(*apiv1capella.BlindedBeaconBlock)
			case 4:
				vp.DenebBlinded = s.obj.(*apiv1deneb.BlindedBeaconBlock)
			case 5:
				vp.ElectraBlinded = s.obj.(*apiv1electra.BlindedBeaconBlock)
			case 6:
				vp.FuluBlinded = s.obj.(*apiv1electra.BlindedBeaconBlock)
			}
		}
	}
	return vp, all
}

// expected: the harness's own reading of the answer (beacon API produceBlockV3: the block of the
// fork named by the version, blinded or full as the flag says). "" / -1: there is no such object.
func (p propSpec) expected() (string, int) {
	if p.ver < 1 || p.ver > 7 {
		return "", -1
	}
	f := p.ver - 1
	if p.blinded {
		if blindTypes[f] == "" || p.blind[f] < 0 {
			return "", -1
		}
		return blindTypes[f], p.blind[f]
	}
	if p.full[f] < 0 {
		return "", -1
	}
	return fullTypes[f], p.full[f]
}

// typeFromHeaders: what a validator client decodes `data` into.
func typeFromHeaders(version string, blinded bool) string {
	for f, n := range forkNames {
		if n == strings.ToLower(version) {
			if blinded {
				return blindTypes[f]
			}
			return fullTypes[f]
		}
	}
	return ""
}

func attTypeFromHeader(version string) string {
	for f, n := range forkNames {
		if n == strings.ToLower(version) {
			return attTypes[f]
		}
	}
	return ""
}

// findServed: which populated field is the raw `data` (by JSON identity).
func findServed(raw []byte, all []*served) string {
	for _, s := range all {
		if bytes.Equal(raw, s.json) {
			return s.ty + ":" + strconv.Itoa(s.id)
		}
	}
	return "?"
}

// decodeAs decodes raw into the wire type and re-encodes it: the decoded object and its JSON.
func decodeAs(ty string, raw []byte) (any, []byte, error) {
	if ty == "" {
		return nil, nil, fmt.Errorf("no type for these headers")
	}
	o := newOf(ty)
	if err := json.Unmarshal(raw, o); err != nil {
		return nil, nil, err
	}
	b, err := json.Marshal(o)
	if err != nil {
		return nil, nil, err
	}
	return o, b, nil
}

// ---------------------------------------------------------------------------------------------
// aggregate attestation answers

type aggSpec struct {
	ver   int
	field [7]int
}

func (a aggSpec) String() string { return fmt.Sprintf("A:%d:%s", a.ver, fieldsStr(a.field)) }

func parseAgg(s string) (aggSpec, bool) {
	t := strings.Split(s, ":")
	var a aggSpec
	if len(t) != 3 || t[0] != "A" {
		return a, false
	}
	var err error
	if a.ver, err = strconv.Atoi(t[1]); err != nil {
		return a, false
	}
	var ok bool
	a.field, ok = parseFields(t[2])
	return a, ok
}

func (a aggSpec) build() (*eth2spec.VersionedAttestation, []*served) {
	va := &eth2spec.VersionedAttestation{Version: eth2spec.DataVersion(a.ver)}
	var all []*served
	for f := 0; f < 7; f++ {
		if a.field[f] < 0 {
			continue
		}
		s := mkServed(attTypes[f], a.field[f])
		all = append(all, s)
		switch f {
		case 0:
			va.Phase0 = s.obj.(*eth2p0.Attestation)
		case 1:
			va.Altair = s.obj.(*eth2p0.Attestation)
		case 2:
			va.Bellatrix = s.obj.(*eth2p0.Attestation)
		case 3:
			va.Capella = s.obj.(*eth2p0.Attestation)
		case 4:
			va.Deneb = s.obj.(*eth2p0.Attestation)
		case 5:
			va.Electra = s.obj.(*electra.Attestation)
		case 6:
			va.Fulu = s.obj.(*electra.Attestation)
		}
	}
	return va, all
}

func (a aggSpec) expected() (string, int) {
	if a.ver < 1 || a.ver > 7 || a.field[a.ver-1] < 0 {
		return "", -1
	}
	return attTypes[a.ver-1], a.field[a.ver-1]
}
