// gen.go: the structured generator (one hx.Rng).
package main

import (
	"fmt"
	"strconv"
	"strings"

	"verifharness/hx"
)

func pick(r *hx.Rng, xs ...string) string { return xs[r.Intn(len(xs))] }

// a raw unsigned parameter: mostly valid, plus the adversarial forms
func genUintRaw(r *hx.Rng, pathSafe bool) string {
	if r.Chance(1, 2) {
		return strconv.Itoa(r.Intn(5000))
	}
	switch r.Intn(16) {
	case 0:
		return "18446744073709551615"
	case 1:
		return "18446744073709551616"
	case 2:
		return "+" + strconv.Itoa(r.Intn(100))
	case 3:
		return "-" + strconv.Itoa(r.Intn(100))
	case 4:
		return "0x1f"
	case 5:
		return "1_000"
	case 6:
		return "00" + strconv.Itoa(r.Intn(1000))
	case 7:
		return "12a"
	case 8:
		if pathSafe {
			return "1.5"
		}
		return ""
	case 9:
		return " " + strconv.Itoa(r.Intn(100))
	case 10:
		return "99999999999999999999999999"
	default:
		return strconv.Itoa(r.Intn(5000))
	}
}

func genQ(r *hx.Rng) qv {
	if r.Chance(1, 12) {
		return qv{}
	}
	return qv{true, genUintRaw(r, false)}
}

func genVersion(r *hx.Rng) int {
	switch r.Intn(12) {
	case 0:
		return 0
	case 1:
		return 8 + r.Intn(3)
	default:
		return 1 + r.Intn(7)
	}
}

var idCounter int

func freshID() int {
	idCounter++
	return 1000 + idCounter%800000
}

// genProp: a versioned proposal answer: consistent, or inconsistent in one of the ways a Handler /
// duty store could be (field of the version nil, the other variant populated, another fork's field
// populated, blinded flag on a fork without blinded blocks, unknown version, several fields).
func genProp(r *hx.Rng) propSpec {
	p := propSpec{ver: genVersion(r), blinded: r.Chance(1, 2), exec: r.Intn(1000), cons: r.Intn(1000)}
	if r.Chance(1, 10) {
		p.exec = -1
	}
	if r.Chance(1, 10) {
		p.cons = -1
	}
	for i := range p.full {
		p.full[i], p.blind[i] = -1, -1
	}
	f := p.ver - 1
	if f < 0 || f > 6 {
		f = r.Intn(7)
	}
	setSel := func() {
		if p.blinded && blindTypes[f] != "" {
			p.blind[f] = freshID()
		} else {
			p.full[f] = freshID()
		}
	}
	setOther := func() {
		if p.blinded {
			p.full[f] = freshID()
		} else if blindTypes[f] != "" {
			p.blind[f] = freshID()
		}
	}
	switch r.Intn(16) {
	case 0: // nothing populated
	case 1: // only the other variant
		setOther()
	case 2: // another fork's fields
		g := (f + 1 + r.Intn(6)) % 7
		p.full[g] = freshID()
		if blindTypes[g] != "" {
			p.blind[g] = freshID()
		}
	case 3: // both variants
		setSel()
		setOther()
	case 4: // everything populated
		for g := 0; g < 7; g++ {
			p.full[g] = freshID()
			if blindTypes[g] != "" {
				p.blind[g] = freshID()
			}
		}
	default:
		setSel()
	}
	return p
}

func genAgg(r *hx.Rng) aggSpec {
	a := aggSpec{ver: genVersion(r)}
	for i := range a.field {
		a.field[i] = -1
	}
	f := a.ver - 1
	if f < 0 || f > 6 {
		f = r.Intn(7)
	}
	switch r.Intn(8) {
	case 0:
	case 1:
		a.field[(f+1+r.Intn(6))%7] = freshID()
	case 2:
		for g := range a.field {
			a.field[g] = freshID()
		}
	default:
		a.field[f] = freshID()
	}
	return a
}

func genNilAns(r *hx.Rng) string { return pick(r, "err", "nilresp", "nildata") }

func genPubkeyID(r *hx.Rng) string {
	b := make([]byte, 96)
	const hexd = "0123456789abcdef"
	for i := range b {
		b[i] = hexd[r.Intn(16)]
	}
	s := string(b)
	if r.Chance(1, 2) {
		return "0x" + s
	}
	switch r.Intn(14) {
	case 0:
		return "0X" + s // upper-case prefix
	case 1:
		return s // no prefix
	case 2:
		return "0x" + s[:94] // short
	case 3:
		return "0x" + s + "ab" // long
	case 4:
		return "0x" + "zz" + s[2:] // not hex
	case 5:
		return "0x" + strings.ToUpper(s)
	case 6:
		return "zz" + s // 98 characters, prefix not 0x
	default:
		return "0x" + s
	}
}

func genIDs(r *hx.Rng) []string {
	n := r.Intn(5)
	if r.Chance(1, 8) {
		n = 0
	}
	mode := r.Intn(9) // 0..3 indices, 4..7 pubkeys, 8 mixed
	var ids []string
	for i := 0; i < n; i++ {
		pk := mode >= 4 && mode <= 7
		if mode >= 8 {
			pk = r.Chance(1, 2)
		}
		var id string
		if pk {
			id = genPubkeyID(r)
		} else {
			id = genUintRaw(r, true)
		}
		if r.Chance(1, 10) {
			id = " " + id + "\t"
		}
		ids = append(ids, id)
		if r.Chance(1, 6) { // duplicate
			ids = append(ids, id)
		}
	}
	return ids
}

func genState(r *hx.Rng) string {
	return pick(r, "head", "head", "head", "genesis", "finalized", "justified", "12345", "0x"+hex32)
}

func genValAns(r *hx.Rng) string {
	switch r.Intn(12) {
	case 0:
		return "err"
	case 1:
		return "nilresp"
	case 2:
		return "nildata"
	case 3:
		return fmt.Sprintf("V:%d:1", r.Intn(3))
	default:
		return fmt.Sprintf("V:%d:0", r.Intn(4))
	}
}

func genMeta(r *hx.Rng) string {
	if r.Chance(1, 6) {
		return "nil"
	}
	eo := pick(r, "t", "f", "t", "f", "t", "f", "bad", "missing")
	dr := "r" + strconv.Itoa(r.Intn(100000))
	switch r.Intn(10) {
	case 0:
		dr = "bad"
	case 1:
		dr = "missing"
	}
	return eo + "/" + dr
}

func (d *driver) generate(a hx.Args) {
	r := hx.NewRng(a.Seed)
	hexShapes := []string{"ok", "ok", "ok", "ok", "ok", "ok", "upper", "nopfx", "missing", "short", "badhex", "odd", "dup"}
	grafShapes := []string{"none", "none", "none", "ok", "ok", "short", "dup", "nopfx", "upper", "badhex", "odd"}
	for i := 0; i < a.N && !d.run.Enough(); i++ {
		switch k := r.Intn(20); {
		case k < 5: // pv
			slot := strconv.Itoa(1 + r.Intn(5000))
			randao, graf := "ok", "none"
			if r.Chance(1, 5) {
				slot = genUintRaw(r, true)
				randao = pick(r, hexShapes...)
				graf = pick(r, grafShapes...)
			}
			ans := genProp(r).String()
			if r.Chance(1, 10) {
				ans = genNilAns(r)
			}
			d.runPv(slot, randao, graf, r.Chance(1, 2), ans)
		case k < 9: // pc
			slotN := 1 + r.Intn(5000)
			slot := strconv.Itoa(slotN)
			randao, graf := "ok", "none"
			if r.Chance(1, 8) {
				slot = genUintRaw(r, true)
				randao = pick(r, hexShapes...)
				graf = pick(r, grafShapes...)
			}
			defs := "1"
			switch r.Intn(12) {
			case 0:
				defs = "e"
			case 1:
				defs = "0"
			case 2:
				defs = "2"
			}
			nsub := r.Intn(4)
			failAt := "-"
			if r.Chance(1, 6) {
				failAt = strconv.Itoa(r.Intn(4))
			}
			var ents []string
			one := func(s int) string {
				switch r.Intn(12) {
				case 0:
					return fmt.Sprintf("%d=err", s)
				case 1:
					return fmt.Sprintf("%d=nil", s)
				default:
					return fmt.Sprintf("%d=%s", s, genProp(r).String())
				}
			}
			if !r.Chance(1, 10) {
				ents = append(ents, one(slotN))
			}
			if r.Chance(1, 2) {
				ents = append(ents, one(slotN+1))
			}
			if r.Chance(1, 4) {
				ents = append([]string{one(slotN - 1)}, ents...)
			}
			store := "-"
			if len(ents) > 0 {
				store = strings.Join(ents, ",")
			}
			d.runPc(slot, randao, graf, r.Chance(1, 2), defs, nsub, failAt, store)
		case k < 12: // ag
			slotQ, ciQ, root := qv{true, strconv.Itoa(r.Intn(5000))}, qv{true, strconv.Itoa(r.Intn(64))}, "ok"
			if r.Chance(1, 4) {
				slotQ, ciQ, root = genQ(r), genQ(r), pick(r, hexShapes...)
			}
			ans := genAgg(r).String()
			if r.Chance(1, 10) {
				ans = genNilAns(r)
			}
			d.runAg(slotQ, root, ciQ, ans)
		case k < 14: // ad
			slotQ, ciQ := qv{true, strconv.Itoa(r.Intn(5000))}, qv{true, strconv.Itoa(r.Intn(64))}
			if r.Chance(1, 3) {
				slotQ, ciQ = genQ(r), genQ(r)
			}
			ans := "D:" + strconv.Itoa(freshID())
			if r.Chance(1, 5) {
				ans = genNilAns(r)
			}
			d.runAd(slotQ, ciQ, ans)
		case k < 17: // vs
			var csvs []string
			ids := genIDs(r)
			bodyKind := "none"
			var bodyIDs []string
			if r.Chance(1, 2) { // ids in the query: one csv, several values, or both; sometimes an empty value
				for len(ids) > 0 {
					n := 1 + r.Intn(len(ids))
					csvs = append(csvs, strings.Join(ids[:n], ","))
					ids = ids[n:]
				}
				if r.Chance(1, 12) {
					csvs = append(csvs, "")
				}
				if r.Chance(1, 4) {
					bodyKind, bodyIDs = "ids", genIDs(r)
				}
			} else {
				bodyKind = pick(r, "ids", "ids", "ids", "ids", "extra", "empty_obj", "null_ids", "array", "num_ids", "garbage", "none")
				if bodyKind == "ids" || bodyKind == "extra" {
					bodyIDs = ids
				}
			}
			for i, c := range csvs { // `;` separates csv values in the op line
				csvs[i] = strings.ReplaceAll(c, ";", "")
			}
			method := "GET"
			if bodyKind != "none" || r.Chance(1, 4) {
				method = "POST"
			}
			d.runVs(method, genState(r), csvs, bodyKind, bodyIDs, genValAns(r))
		case k < 18: // v1
			var id string
			if r.Chance(1, 2) {
				id = genPubkeyID(r)
			} else {
				id = genUintRaw(r, true)
			}
			d.runV1(genState(r), id, genValAns(r))
		default: // du
			kind := pick(r, "proposer_duties", "proposer_duties_v2", "attester_duties", "sync_committee_duties")
			epoch := strconv.Itoa(r.Intn(100000))
			if r.Chance(1, 5) {
				epoch = genUintRaw(r, true)
			}
			bodyKind := pick(r, "nums", "strs", "nums", "strs", "nums", "strs", "none", "mixed", "obj", "neg", "big", "bigstr", "badstr", "null", "garbage")
			var idxs []uint64
			if bodyKind == "nums" || bodyKind == "strs" {
				for n := r.Intn(5); n > 0; n-- {
					idxs = append(idxs, uint64(r.Intn(1000)))
				}
				if r.Chance(1, 8) {
					idxs = append(idxs, 18446744073709551615)
				}
			}
			if dutyPaths[kind][0] == "GET" {
				bodyKind, idxs = "none", nil
			}
			ans := fmt.Sprintf("U:%d:%s", r.Intn(4), genMeta(r))
			switch r.Intn(14) {
			case 0:
				ans = "err"
			case 1:
				ans = "nilresp"
			}
			d.runDu(kind, epoch, bodyKind, idxs, ans)
		}
	}
}
