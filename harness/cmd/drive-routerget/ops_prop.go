// ops_prop.go: produce block v3 (scripted Handler: pv; real Component: pc), aggregate attestation (ag),
// attestation data (ad).
package main

import (
	"encoding/json"
	"fmt"
	"net/url"
	"strconv"
	"strings"

	eth2api "github.com/attestantio/go-eth2-client/api"
	eth2spec "github.com/attestantio/go-eth2-client/spec"
	eth2p0 "github.com/attestantio/go-eth2-client/spec/phase0"

	"github.com/obolnetwork/charon/testutil"
)

const hex96 = "b1a2c3d4e5f60718293a4b5c6d7e8f90b1a2c3d4e5f60718293a4b5c6d7e8f90b1a2c3d4e5f60718293a4b5c6d7e8f90b1a2c3d4e5f60718293a4b5c6d7e8f90b1a2c3d4e5f60718293a4b5c6d7e8f90b1a2c3d4e5f60718293a4b5c6d7e8f90"
const hex32 = "00112233445566778899aabbccddeeff00112233445566778899aabbccddeeff"

// hexParam adds a 0x-hex query parameter of a named shape; ok: the harness's own judgement whether a
// parameter that must be a `want`-byte 0x-hex string is acceptable.
func hexParam(q url.Values, name, shape, good string) (ok bool) {
	switch shape {
	case "ok":
		q.Add(name, "0x"+good)
		return true
	case "upper":
		q.Add(name, "0x"+strings.ToUpper(good))
		return true
	case "nopfx": // the code strips an optional 0x: accepted
		q.Add(name, good)
		return true
	case "missing", "none":
		return false
	case "short":
		q.Add(name, "0x1234")
		return false
	case "badhex":
		q.Add(name, "0xzz"+good[2:])
		return false
	case "odd":
		q.Add(name, "0x"+good[1:])
		return false
	case "dup":
		q.Add(name, "0x"+good)
		q.Add(name, "0x"+good)
		return false
	}
	panic("bad-op: hex shape " + shape)
}

// proposeURL builds the produce-block request and judges its parameters.
func proposeURL(slotRaw, randao, graffiti string) (string, bool, uint64) {
	q := url.Values{}
	ok := hexParam(q, "randao_reveal", randao, hex96)
	// graffiti is optional; a present one must be hex (any length: it is copied into 32 bytes);
	// a repeated one is ignored by the code
	switch graffiti {
	case "none", "ok", "short", "dup", "nopfx", "upper":
		hexParam(q, "graffiti", graffiti, hex32)
	case "badhex", "odd":
		hexParam(q, "graffiti", graffiti, hex32)
		ok = false
	default:
		panic("bad-op: graffiti " + graffiti)
	}
	slot, sok := ownUint(slotRaw)
	return "/eth/v3/validator/blocks/" + url.PathEscape(slotRaw) + "?" + q.Encode(), ok && sok, slot
}

type propBody struct {
	Version string          `json:"version"`
	Blinded *bool           `json:"execution_payload_blinded"`
	Exec    *string         `json:"execution_payload_value"`
	Cons    *string         `json:"consensus_block_value"`
	Data    json.RawMessage `json:"data"`
}

func nilStr(s string) string {
	if s == "<nil>" {
		return "nil"
	}
	return s
}

// propOut renders a produce-block answer and runs the monitors. all: populated fields of the served
// proposal; expTy/expID: the object the beacon API says must be served ("" / -1: none).
func (d *driver) propOut(out httpOutcome, endpoint string, all []*served, expTy string, expID int, nilAns string, paramsOk bool) string {
	st := d.statusStr(out, endpoint)
	d.panicSeen(out, endpoint, nilAns)
	if st != "200" {
		if paramsOk && expID >= 0 && nilAns == "" && st != "panic" {
			// a consistent answer must be served (checked by the caller for pc, where the Component may refuse)
			d.run.Count("refused_consistent:" + st)
		}
		return st
	}
	var b propBody
	if err := json.Unmarshal(out.body, &b); err != nil || b.Blinded == nil || b.Exec == nil || b.Cons == nil {
		d.run.Violate("routerget:header_body_mismatch", fmt.Sprintf("%s: 200 body is not a produce-block response: %.100q", endpoint, out.body))
		return "200 unparsable"
	}
	hv := out.hdr.Get("Eth-Consensus-Version")
	hbS := out.hdr.Get("Eth-Execution-Payload-Blinded")
	he := out.hdr.Get("Eth-Execution-Payload-Value")
	hc := out.hdr.Get("Eth-Consensus-Block-Value")
	hb := hbS == "true"
	if hbS != "true" && hbS != "false" {
		d.run.Violate("routerget:header_body_mismatch", endpoint+": blinded header is "+hbS)
	}
	if len(out.hdr.Values("Eth-Consensus-Version")) != 1 || out.hdr.Get("Content-Type") != "application/json" {
		d.run.Violate("routerget:header_body_mismatch", endpoint+": version header repeated or content type not json")
	}
	if hv != b.Version || hb != *b.Blinded || he != *b.Exec || hc != *b.Cons {
		d.run.Violate("routerget:header_body_mismatch", fmt.Sprintf("%s: headers (%s,%s,%s,%s) body (%s,%v,%s,%s)", endpoint, hv, hbS, he, hc, b.Version, *b.Blinded, *b.Exec, *b.Cons))
	}
	if expID < 0 || nilAns != "" {
		d.run.Violate("routerget:ok_status_on_inconsistent_answer", fmt.Sprintf("%s: 200 for an answer with no object for its version / blinded flag", endpoint))
	}
	obj := findServed(b.Data, all)
	dec := "-"
	ty := typeFromHeaders(hv, hb)
	if o, re, err := decodeAs(ty, b.Data); err == nil {
		dec = "x"
		for _, s := range all {
			if string(re) == string(s.json) && s.ty == ty {
				dec = ty + ":" + strconv.Itoa(slotOf(o))
			}
		}
	}
	if expID >= 0 && dec != expTy+":"+strconv.Itoa(expID) {
		d.run.Violate("routerget:response_decodes_to_other_object", fmt.Sprintf("%s: served %s:%d, a client decoding by the headers (%s, blinded=%s) gets %s (data is %s)", endpoint, expTy, expID, hv, hbS, dec, obj))
	}
	if he == "<nil>" || hc == "<nil>" {
		d.run.Count("observed:nil_value_rendered_as_<nil>")
	}
	return fmt.Sprintf("200 hv=%s hb=%s he=%s hc=%s bv=%s bb=%s be=%s bc=%s obj=%s dec=%s",
		hv, b01(hb), nilStr(he), nilStr(hc), b.Version, b01(*b.Blinded), nilStr(*b.Exec), nilStr(*b.Cons), obj, dec)
}

// runPv: scripted Handler. ans := err | nilresp | nildata | P:…
func (d *driver) runPv(slotRaw, randao, graffiti string, builder bool, ans string) {
	u, pok, slot := proposeURL(slotRaw, randao, graffiti)
	op := fmt.Sprintf("pv slot==%s randao=%s graffiti=%s builder=%s | %s %s", encChars(slotRaw), randao, graffiti, b01(builder), b01(pok), ans)
	var all []*served
	expTy, expID, nilAns := "", -1, ""
	called := 0
	var seenOpts *eth2api.ProposalOpts
	switch ans {
	case "err":
		d.h.proposal = func(o *eth2api.ProposalOpts) (*eth2api.Response[*eth2api.VersionedProposal], error) {
			called++
			seenOpts = o
			return nil, errScripted
		}
	case "nilresp":
		nilAns = ans
		d.h.proposal = func(o *eth2api.ProposalOpts) (*eth2api.Response[*eth2api.VersionedProposal], error) {
			called++
			seenOpts = o
			return nil, nil
		}
	case "nildata":
		nilAns = ans
		d.h.proposal = func(o *eth2api.ProposalOpts) (*eth2api.Response[*eth2api.VersionedProposal], error) {
			called++
			seenOpts = o
			return &eth2api.Response[*eth2api.VersionedProposal]{}, nil
		}
	default:
		p, ok := parseProp(ans)
		if !ok {
			panic("bad-op: proposal")
		}
		vp, a := p.build()
		all = a
		expTy, expID = p.expected()
		d.h.proposal = func(o *eth2api.ProposalOpts) (*eth2api.Response[*eth2api.VersionedProposal], error) {
			called++
			seenOpts = o
			return &eth2api.Response[*eth2api.VersionedProposal]{Data: vp}, nil
		}
		d.run.Case(fmt.Sprintf("pv:%d:%v:%v", p.ver, p.blinded, expID >= 0))
	}
	srv := d.srv
	if builder {
		srv = d.srvB
	}
	d.run.Begin(op)
	out := srv.do("GET", u, nil)
	if pok != (called == 1) {
		d.run.Violate("routerget:params_misjudged", fmt.Sprintf("produce block: parameters acceptable=%v but the Handler was called %d times", pok, called))
	}
	if seenOpts != nil && (uint64(seenOpts.Slot) != slot || seenOpts.BuilderBoostFactor == nil || (*seenOpts.BuilderBoostFactor != 0) != builder) {
		d.run.Violate("routerget:params_misjudged", "produce block: slot / builder boost factor handed to the Handler differ from the request")
	}
	res := d.propOut(out, "propose_block_v3", all, expTy, expID, nilAns, pok)
	if pok && expID >= 0 && res[:3] != "200" {
		d.run.Violate("routerget:consistent_answer_refused", "produce block: a consistent answer was answered "+res)
	}
	d.run.Count("pv:" + strings.SplitN(res, " ", 2)[0])
	d.run.Op(op, res)
}

func parseStore(s string) map[uint64]storeAns {
	m := map[uint64]storeAns{}
	if s == "-" {
		return m
	}
	for _, e := range strings.Split(s, ",") {
		kv := strings.SplitN(e, "=", 2)
		if len(kv) != 2 {
			panic("bad-op: store")
		}
		k, err := strconv.ParseUint(kv[0], 10, 64)
		if err != nil {
			panic("bad-op: store key")
		}
		switch kv[1] {
		case "err", "nil":
			m[k] = storeAns{kind: kv[1]}
		default:
			p, ok := parseProp(kv[1])
			if !ok {
				panic("bad-op: store proposal")
			}
			m[k] = storeAns{kind: "prop", p: p}
		}
	}
	return m
}

// runPc: the real Component over a scripted duty store.
func (d *driver) runPc(slotRaw, randao, graffiti string, builder bool, defs string, nsub int, failAt string, store string) {
	u, pok, slot := proposeURL(slotRaw, randao, graffiti)
	op := fmt.Sprintf("pc slot==%s randao=%s graffiti=%s | %s %s %d %s %d %s %s", encChars(slotRaw), randao, graffiti, b01(pok), b01(builder), slot, defs, nsub, failAt, store)
	e := &compEnv{defs: -1, failAt: -1, store: parseStore(store)}
	if defs != "e" {
		n, err := strconv.Atoi(defs)
		if err != nil {
			panic("bad-op: defs")
		}
		e.defs = n
	}
	if failAt != "-" {
		n, err := strconv.Atoi(failAt)
		if err != nil {
			panic("bad-op: failAt")
		}
		e.failAt = n
	}
	cenv = e
	srv := d.cs.get(nsub, builder)
	d.run.Begin(op)
	out := srv.do("GET", u, nil)
	// the harness's own expectation: the proposal stored for the REQUESTED slot, if every step before succeeds
	expTy, expID, nilAns := "", -1, ""
	reach := pok && e.defs == 1 && (e.failAt < 0 || e.failAt >= nsub)
	if a, ok := e.store[slot]; ok && reach {
		switch a.kind {
		case "prop":
			expTy, expID = a.p.expected()
		case "nil":
			nilAns = "nil_proposal_from_store"
		}
	}
	for _, s := range e.asked {
		if s != slot {
			d.run.Violate("routerget:proposal_from_other_slot", fmt.Sprintf("Component.Proposal for slot %d asked the duty store for slot %d", slot, s))
		}
	}
	for _, s := range e.defAsked {
		if s != slot {
			d.run.Violate("routerget:proposal_from_other_slot", fmt.Sprintf("Component.Proposal for slot %d asked the duty definition of slot %d", slot, s))
		}
	}
	res := d.propOut(out, "propose_block_v3", e.served, expTy, expID, nilAns, pok)
	if strings.HasPrefix(res, "200 hv=") && !strings.Contains(res, " he=1 hc=1 ") {
		d.run.Violate("routerget:component_value_not_set", "Component.Proposal served values other than 1/1: "+res)
	}
	if reach && expID >= 0 && res[:3] != "200" {
		d.run.Violate("routerget:consistent_answer_refused", "produce block (Component): a stored consistent proposal was answered "+res)
	}
	if !reach && res[:3] == "200" {
		d.run.Violate("routerget:ok_status_on_inconsistent_answer", "produce block (Component): served although a step before the duty store failed")
	}
	d.run.Count("pc:" + strings.SplitN(res, " ", 2)[0])
	d.run.Case(fmt.Sprintf("pc:%s:%d:%s:%v", defs, nsub, failAt, expID >= 0))
	d.run.Op(op, res+" calls="+strconv.Itoa(e.calls))
}

func uintParamQ(q url.Values, name string, v qv) (uint64, bool) {
	if !v.present {
		return 0, false
	}
	q.Add(name, v.val)
	return ownUint(v.val)
}

// runAg: aggregate attestation, scripted Handler. ans := err | nilresp | nildata | A:…
func (d *driver) runAg(slotQ qv, root string, ciQ qv, ans string) {
	q := url.Values{}
	slot, ok1 := uintParamQ(q, "slot", slotQ)
	rootOk := hexParam(q, "attestation_data_root", root, hex32)
	ci, ok2 := uintParamQ(q, "committee_index", ciQ)
	pok := ok1 && rootOk && ok2
	op := fmt.Sprintf("ag root=%s | %s %s %s %s", root, slotQ, b01(rootOk), ciQ, ans)
	var all []*served
	expTy, expID, nilAns := "", -1, ""
	seen := "-"
	var resp *eth2api.Response[*eth2spec.VersionedAttestation]
	var rerr error
	switch ans {
	case "err":
		rerr = errScripted
	case "nilresp":
		nilAns = ans
	case "nildata":
		nilAns = ans
		resp = &eth2api.Response[*eth2spec.VersionedAttestation]{}
	default:
		a, ok := parseAgg(ans)
		if !ok {
			panic("bad-op: aggregate")
		}
		va, s := a.build()
		all = s
		expTy, expID = a.expected()
		resp = &eth2api.Response[*eth2spec.VersionedAttestation]{Data: va}
		d.run.Case(fmt.Sprintf("ag:%d:%v", a.ver, expID >= 0))
	}
	d.h.agg = func(o *eth2api.AggregateAttestationOpts) (*eth2api.Response[*eth2spec.VersionedAttestation], error) {
		seen = fmt.Sprintf("%d.%d", uint64(o.Slot), uint64(o.CommitteeIndex))
		if fmt.Sprintf("%x", o.AttestationDataRoot[:]) != hex32 {
			d.run.Violate("routerget:params_misjudged", "aggregate attestation: root handed to the Handler differs from the request")
		}
		return resp, rerr
	}
	d.run.Begin(op)
	out := d.srv.do("GET", "/eth/v2/validator/aggregate_attestation?"+q.Encode(), nil)
	if pok != (seen != "-") || (pok && seen != fmt.Sprintf("%d.%d", slot, ci)) {
		d.run.Violate("routerget:params_misjudged", fmt.Sprintf("aggregate attestation: parameters acceptable=%v (%d,%d), Handler saw %s", pok, slot, ci, seen))
	}
	st := d.statusStr(out, "aggregate_attestation_v2")
	d.panicSeen(out, "aggregate_attestation_v2", nilAns)
	res := st
	if st == "200" {
		var b struct {
			Version string          `json:"version"`
			Data    json.RawMessage `json:"data"`
		}
		if err := json.Unmarshal(out.body, &b); err != nil {
			d.run.Violate("routerget:header_body_mismatch", "aggregate attestation: unparsable 200 body")
		}
		hv := out.hdr.Get("Eth-Consensus-Version")
		if hv != b.Version || len(out.hdr.Values("Eth-Consensus-Version")) != 1 {
			d.run.Violate("routerget:header_body_mismatch", fmt.Sprintf("aggregate attestation: header %s body %s", hv, b.Version))
		}
		if expID < 0 {
			d.run.Violate("routerget:ok_status_on_inconsistent_answer", "aggregate attestation: 200 for an answer with no attestation for its version")
		}
		obj := findServed(b.Data, all)
		dec := "-"
		ty := attTypeFromHeader(hv)
		if o, re, err := decodeAs(ty, b.Data); err == nil {
			dec = "x"
			for _, s := range all {
				if string(re) == string(s.json) && s.ty == ty {
					dec = ty + ":" + strconv.Itoa(slotOf(o))
				}
			}
		}
		if expID >= 0 && dec != expTy+":"+strconv.Itoa(expID) {
			d.run.Violate("routerget:response_decodes_to_other_object", fmt.Sprintf("aggregate attestation: served %s:%d, a client decoding by the header %s gets %s (data is %s)", expTy, expID, hv, dec, obj))
		}
		res = fmt.Sprintf("200 hv=%s bv=%s obj=%s dec=%s", hv, b.Version, obj, dec)
	} else if pok && expID >= 0 {
		d.run.Violate("routerget:consistent_answer_refused", "aggregate attestation: a consistent answer was answered "+st)
	}
	d.run.Count("ag:" + st)
	d.run.Op(op, res+" seen="+seen)
}

// runAd: attestation data, scripted Handler. ans := err | nilresp | nildata | D:<id>
func (d *driver) runAd(slotQ, ciQ qv, ans string) {
	q := url.Values{}
	slot, ok1 := uintParamQ(q, "slot", slotQ)
	ci, ok2 := uintParamQ(q, "committee_index", ciQ)
	pok := ok1 && ok2
	op := fmt.Sprintf("ad x | %s %s %s", slotQ, ciQ, ans)
	seen := "-"
	var resp *eth2api.Response[*eth2p0.AttestationData]
	var rerr error
	var want []byte
	nilAns := ""
	id := -1
	switch {
	case ans == "err":
		rerr = errScripted
	case ans == "nilresp":
		nilAns = ans
	case ans == "nildata":
		nilAns = ans
		resp = &eth2api.Response[*eth2p0.AttestationData]{}
	case strings.HasPrefix(ans, "D:"):
		n, err := strconv.Atoi(ans[2:])
		if err != nil {
			panic("bad-op: attestation data id")
		}
		id = n
		ad := testutil.RandomAttestationDataPhase0()
		ad.Slot = eth2p0.Slot(n)
		want, _ = json.Marshal(ad)
		resp = &eth2api.Response[*eth2p0.AttestationData]{Data: ad}
	default:
		panic("bad-op: attestation data answer")
	}
	d.h.attData = func(o *eth2api.AttestationDataOpts) (*eth2api.Response[*eth2p0.AttestationData], error) {
		seen = fmt.Sprintf("%d.%d", uint64(o.Slot), uint64(o.CommitteeIndex))
		return resp, rerr
	}
	d.run.Begin(op)
	out := d.srv.do("GET", "/eth/v1/validator/attestation_data?"+q.Encode(), nil)
	if pok != (seen != "-") || (pok && seen != fmt.Sprintf("%d.%d", slot, ci)) {
		d.run.Violate("routerget:params_misjudged", fmt.Sprintf("attestation data: parameters acceptable=%v (%d,%d), Handler saw %s", pok, slot, ci, seen))
	}
	st := d.statusStr(out, "attestation_data")
	// nil data is answered 200 {"data":null}; a nil response panics (recovered)
	d.panicSeen(out, "attestation_data", nilAns)
	res := st
	if st == "200" {
		var b struct {
			Data json.RawMessage `json:"data"`
		}
		uerr := json.Unmarshal(out.body, &b)
		switch {
		case uerr != nil:
			d.run.Violate("routerget:header_body_mismatch", "attestation data: unparsable 200 body")
		case string(b.Data) == "null":
			res += " data=null"
			if nilAns == "nildata" {
				// the scripted Handler's nil data; the real Component never answers nil without an error
				d.run.Count("observed:ok_status_on_nil_answer:attestation_data")
			} else {
				d.run.Violate("routerget:ok_status_on_inconsistent_answer", "attestation data: null data although the Handler answered an object")
			}
		default:
			var got eth2p0.AttestationData
			if err := json.Unmarshal(b.Data, &got); err != nil {
				d.run.Violate("routerget:response_decodes_to_other_object", "attestation data: data does not decode: "+err.Error())
			} else {
				re, _ := json.Marshal(&got)
				if string(re) != string(want) {
					d.run.Violate("routerget:response_decodes_to_other_object", fmt.Sprintf("attestation data: served id %d, decoded slot %d", id, got.Slot))
				}
				res += " data=" + strconv.Itoa(int(got.Slot))
			}
		}
	}
	d.run.Count("ad:" + st)
	d.run.Op(op, res+" seen="+seen)
}
