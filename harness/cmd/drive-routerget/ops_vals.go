// ops_vals.go: validators by id (vs, v1) and the duties wrappers (du), scripted Handler.
package main

import (
	"bytes"
	"encoding/binary"
	"encoding/hex"
	"encoding/json"
	"fmt"
	"net/url"
	"strconv"
	"strings"

	eth2api "github.com/attestantio/go-eth2-client/api"
	eth2v1 "github.com/attestantio/go-eth2-client/api/v1"
	eth2p0 "github.com/attestantio/go-eth2-client/spec/phase0"
)

// bodyIDsOf: the ids of an `ok:…` body token (exec mode).
func bodyIDsOf(tok string) []string {
	if !strings.HasPrefix(tok, "ok:") {
		return nil
	}
	return parseQList(tok[3:])
}

func idsBody(kind string, ids []string) []byte {
	js, _ := json.Marshal(ids)
	if ids == nil {
		js = []byte("[]")
	}
	switch kind {
	case "none":
		return nil
	case "ids":
		return []byte(`{"ids":` + string(js) + `}`)
	case "extra":
		return []byte(`{"statuses":["active_ongoing"],"ids":` + string(js) + `}`)
	case "empty_obj":
		return []byte(`{}`)
	case "null_ids":
		return []byte(`{"ids":null}`)
	case "array":
		return []byte(`["1"]`)
	case "num_ids":
		return []byte(`{"ids":[1,2]}`)
	case "garbage":
		return []byte(`{"ids":`)
	}
	panic("bad-op: body kind " + kind)
}

// readBodyIDs: the harness's own reading of a POST …/validators body (beacon API: an object with an
// optional array of strings `ids`).
func readBodyIDs(b []byte) (string, []string) {
	if len(b) == 0 {
		return "empty", nil
	}
	var top any
	if err := json.Unmarshal(b, &top); err != nil {
		return "fail", nil
	}
	obj, ok := top.(map[string]any)
	if !ok {
		return "fail", nil
	}
	v, has := obj["ids"]
	if !has || v == nil {
		return "ok", nil
	}
	arr, ok := v.([]any)
	if !ok {
		return "fail", nil
	}
	var ids []string
	for _, e := range arr {
		s, ok := e.(string)
		if !ok {
			return "fail", nil
		}
		ids = append(ids, s)
	}
	return "ok", ids
}

func isHexStr(s string) bool {
	for i := 0; i < len(s); i++ {
		c := s[i]
		if !(c >= '0' && c <= '9' || c >= 'a' && c <= 'f' || c >= 'A' && c <= 'F') {
			return false
		}
	}
	return true
}

// apiPubkey / apiIndex: the beacon API's two forms of a validator id.
func apiPubkey(id string) (string, bool) {
	if len(id) == 98 && strings.HasPrefix(id, "0x") && isHexStr(id[2:]) {
		return strings.ToLower(id[2:]), true
	}
	return "", false
}

func trimASCII(s string) string { return strings.Trim(s, " \t\n\r\v\f") }

type valSeen struct {
	called  int
	state   string
	pubkeys []string
	indices []uint64
}

func (v valSeen) String() string {
	if v.called == 0 {
		return "-"
	}
	if len(v.pubkeys) > 0 {
		return v.state + "/P:" + strings.Join(v.pubkeys, ",")
	}
	p := make([]string, len(v.indices))
	for i, x := range v.indices {
		p[i] = strconv.FormatUint(x, 10)
	}
	return v.state + "/I:" + strings.Join(p, ",")
}

// scriptVals installs the Validators answer. ans := err | nilresp | nildata | V:<n>:<hasNil>
func (d *driver) scriptVals(ans string, seen *valSeen) (nilAns string, n int) {
	var resp *eth2api.Response[map[eth2p0.ValidatorIndex]*eth2v1.Validator]
	var rerr error
	switch {
	case ans == "err":
		rerr = errScripted
	case ans == "nilresp":
		nilAns = ans
	case ans == "nildata":
		resp = &eth2api.Response[map[eth2p0.ValidatorIndex]*eth2v1.Validator]{}
	case strings.HasPrefix(ans, "V:"):
		t := strings.Split(ans, ":")
		if len(t) != 3 {
			panic("bad-op: validators answer")
		}
		k, err := strconv.Atoi(t[1])
		if err != nil {
			panic("bad-op: validators answer")
		}
		n = k
		m := map[eth2p0.ValidatorIndex]*eth2v1.Validator{}
		for i := 0; i < k; i++ {
			var pk eth2p0.BLSPubKey
			pk[0] = byte(i + 1)
			m[eth2p0.ValidatorIndex(i)] = &eth2v1.Validator{Index: eth2p0.ValidatorIndex(i), Balance: 32000000000, Status: eth2v1.ValidatorStateActiveOngoing,
				Validator: &eth2p0.Validator{PublicKey: pk, WithdrawalCredentials: make([]byte, 32), EffectiveBalance: 32000000000}}
		}
		if t[2] == "1" {
			nilAns = "nil_validator_in_map"
			m[eth2p0.ValidatorIndex(100000)] = nil
		}
		resp = &eth2api.Response[map[eth2p0.ValidatorIndex]*eth2v1.Validator]{Data: m}
	default:
		panic("bad-op: validators answer")
	}
	d.h.vals = func(o *eth2api.ValidatorsOpts) (*eth2api.Response[map[eth2p0.ValidatorIndex]*eth2v1.Validator], error) {
		seen.called++
		seen.state = o.State
		for _, pk := range o.PubKeys {
			seen.pubkeys = append(seen.pubkeys, hex.EncodeToString(pk[:]))
		}
		for _, i := range o.Indices {
			seen.indices = append(seen.indices, uint64(i))
		}
		if len(o.PubKeys) > 0 && len(o.Indices) > 0 {
			d.run.Violate("routerget:id_misclassified", "the Handler was asked for public keys and indices at once")
		}
		return resp, rerr
	}
	return nilAns, n
}

// idMonitor: every id the Handler saw is the beacon-API reading of the request id at the same position
// (order and duplicates preserved); ids that are in neither form must not reach the Handler.
func (d *driver) idMonitor(where, state string, ids []string, seen valSeen) {
	if seen.called == 0 {
		return
	}
	if seen.called > 1 {
		d.run.Violate("routerget:id_misclassified", where+": the Handler was called more than once")
	}
	if seen.state != state {
		d.run.Violate("routerget:id_misclassified", fmt.Sprintf("%s: state id %q reached the Handler as %q", where, state, seen.state))
	}
	if len(seen.pubkeys)+len(seen.indices) != len(ids) {
		d.run.Violate("routerget:id_misclassified", fmt.Sprintf("%s: %d ids requested, the Handler saw %d", where, len(ids), len(seen.pubkeys)+len(seen.indices)))
		return
	}
	for i, id := range ids {
		if len(seen.pubkeys) > 0 {
			k, ok := apiPubkey(id)
			if !ok && len(id) == 98 && isHexStr(id[2:]) && i > 0 {
				// the code cuts the first two characters off unseen (core.PubKey.Bytes): observed, reported
				d.run.Count("observed:pubkey_prefix_unchecked")
				k, ok = strings.ToLower(id[2:]), true
			}
			if !ok || k != seen.pubkeys[i] {
				d.run.Violate("routerget:id_misclassified", fmt.Sprintf("%s: id %q (position %d) reached the Handler as public key %s", where, id, i, seen.pubkeys[i]))
			}
		} else {
			n, ok := ownUint(id)
			if !ok || n != seen.indices[i] {
				d.run.Violate("routerget:id_misclassified", fmt.Sprintf("%s: id %q (position %d) reached the Handler as index %d", where, id, i, seen.indices[i]))
			}
		}
	}
}

func uniformIDs(ids []string) bool {
	allPk, allIdx := true, true
	for _, id := range ids {
		if _, ok := apiPubkey(id); !ok {
			allPk = false
		}
		if _, ok := ownUint(id); !ok {
			allIdx = false
		}
	}
	return allPk || allIdx
}

func (d *driver) valsOut(out httpOutcome, endpoint string, nilAns string, single bool) (string, string) {
	st := d.statusStr(out, endpoint)
	d.panicSeen(out, endpoint, nilAns)
	if st != "200" {
		return st, st
	}
	var b struct {
		Data json.RawMessage `json:"data"`
	}
	if err := json.Unmarshal(out.body, &b); err != nil {
		d.run.Violate("routerget:header_body_mismatch", endpoint+": unparsable 200 body")
		return st, "200 unparsable"
	}
	if single {
		var v eth2v1.Validator
		if err := json.Unmarshal(b.Data, &v); err != nil {
			d.run.Violate("routerget:response_decodes_to_other_object", endpoint+": validator does not decode: "+err.Error())
		}
		return st, "200 n=1"
	}
	if string(b.Data) == "null" {
		d.run.Violate("routerget:ok_status_on_inconsistent_answer", endpoint+": 200 with null data")
		return st, "200 n=null"
	}
	var vs []*eth2v1.Validator
	if err := json.Unmarshal(b.Data, &vs); err != nil {
		d.run.Violate("routerget:response_decodes_to_other_object", endpoint+": validators do not decode: "+err.Error())
	}
	return st, "200 n=" + strconv.Itoa(len(vs))
}

// runVs: GET / POST /eth/v1/beacon/states/{state}/validators
func (d *driver) runVs(method, state string, csvs []string, bodyKind string, ids []string, ans string) {
	body := idsBody(bodyKind, ids)
	bk, bids := readBodyIDs(body)
	btok := bk
	if bk == "ok" {
		btok = "ok:" + qListStr(bids)
	}
	op := fmt.Sprintf("vs method=%s body=%s | %s %s %s %s", method, bodyKind, state, qListStr(csvs), btok, ans)
	q := url.Values{}
	for _, c := range csvs {
		q.Add("id", c)
	}
	var seen valSeen
	nilAns, n := d.scriptVals(ans, &seen)
	d.run.Begin(op)
	u := "/eth/v1/beacon/states/" + url.PathEscape(state) + "/validators"
	if len(q) > 0 {
		u += "?" + q.Encode()
	}
	out := d.srv.do(method, u, body)
	// the harness's own list of requested ids: query values, comma separated, trimmed; else the body's
	var eff []string
	for _, c := range csvs {
		for _, p := range strings.Split(c, ",") {
			eff = append(eff, trimASCII(p))
		}
	}
	bodyFail := false
	if len(eff) == 0 {
		eff = bids
		bodyFail = bk == "fail"
	}
	d.idMonitor("get_validators", state, eff, seen)
	st, res := d.valsOut(out, "get_validators", nilAns, false)
	if st == "200" && bodyFail {
		d.run.Violate("routerget:ok_status_on_inconsistent_answer", "get_validators: 200 for an unreadable body")
	}
	if strings.HasPrefix(ans, "V:") && nilAns == "" && !bodyFail && uniformIDs(eff) {
		if st != "200" {
			d.run.Violate("routerget:valid_ids_refused", fmt.Sprintf("get_validators: ids all of one form, answered %s", st))
		} else if res != "200 n="+strconv.Itoa(n) {
			d.run.Violate("routerget:response_decodes_to_other_object", fmt.Sprintf("get_validators: Handler answered %d validators, response %s", n, res))
		}
	}
	d.run.Count("vs:" + st)
	d.run.Case(fmt.Sprintf("vs:%s:%d:%s:%s", method, len(csvs), bk, st))
	d.run.Op(op, res+" seen="+seen.String())
}

// runV1: GET /eth/v1/beacon/states/{state}/validators/{validator_id}
func (d *driver) runV1(state, id, ans string) {
	op := fmt.Sprintf("v1 x | %s =%s %s", state, encChars(id), ans)
	var seen valSeen
	nilAns, n := d.scriptVals(ans, &seen)
	d.run.Begin(op)
	out := d.srv.do("GET", "/eth/v1/beacon/states/"+url.PathEscape(state)+"/validators/"+url.PathEscape(id), nil)
	d.idMonitor("get_validator", state, []string{id}, seen)
	st, res := d.valsOut(out, "get_validator", nilAns, true)
	if strings.HasPrefix(ans, "V:") && nilAns == "" && uniformIDs([]string{id}) {
		want := "500"
		if n == 0 {
			want = "404"
		} else if n == 1 {
			want = "200"
		}
		if st != want {
			d.run.Violate("routerget:valid_ids_refused", fmt.Sprintf("get_validator: %d validators answered, status %s", n, st))
		}
	}
	d.run.Count("v1:" + st)
	d.run.Op(op, res+" seen="+seen.String())
}

// ---------------------------------------------------------------------------------------------
// duties

func bodyIdxOf(tok string) []uint64 {
	if !strings.HasPrefix(tok, "ok:") || tok == "ok:-" {
		return nil
	}
	var out []uint64
	for _, t := range strings.Split(tok[3:], ",") {
		n, err := strconv.ParseUint(t, 10, 64)
		if err != nil {
			panic("bad-op: body index")
		}
		out = append(out, n)
	}
	return out
}

func idxBody(kind string, idxs []uint64) []byte {
	nums := make([]string, len(idxs))
	strs := make([]string, len(idxs))
	for i, x := range idxs {
		nums[i] = strconv.FormatUint(x, 10)
		strs[i] = `"` + nums[i] + `"`
	}
	switch kind {
	case "none":
		return nil
	case "nums":
		return []byte("[" + strings.Join(nums, ",") + "]")
	case "strs":
		return []byte("[" + strings.Join(strs, ",") + "]")
	case "mixed":
		return []byte(`[1,"2"]`)
	case "obj":
		return []byte(`{}`)
	case "neg":
		return []byte(`[-1]`)
	case "big":
		return []byte(`[18446744073709551616]`)
	case "bigstr":
		return []byte(`["18446744073709551616"]`)
	case "badstr":
		return []byte(`["1x"]`)
	case "null":
		return []byte(`null`)
	case "garbage":
		return []byte(`[1,`)
	}
	panic("bad-op: body kind " + kind)
}

// readBodyIdx: the harness's own reading (beacon API: an array of decimal strings; the code also takes
// an array of numbers).
func readBodyIdx(b []byte) (string, []uint64) {
	if len(b) == 0 {
		return "empty", nil
	}
	dec := json.NewDecoder(bytes.NewReader(b))
	dec.UseNumber()
	var top any
	if err := dec.Decode(&top); err != nil {
		return "fail", nil
	}
	if top == nil {
		return "ok", nil
	}
	arr, ok := top.([]any)
	if !ok {
		return "fail", nil
	}
	var out []uint64
	nNum, nStr := 0, 0
	for _, e := range arr {
		var s string
		switch v := e.(type) {
		case json.Number:
			nNum++
			s = v.String()
		case string:
			nStr++
			s = v
		default:
			return "fail", nil
		}
		n, ok := ownUint(s)
		if !ok {
			return "fail", nil
		}
		out = append(out, n)
	}
	if nNum > 0 && nStr > 0 {
		return "fail", nil
	}
	return "ok", out
}

func rootOf(n uint64) eth2p0.Root {
	var r eth2p0.Root
	binary.BigEndian.PutUint64(r[24:], n)
	return r
}

var dutyPaths = map[string][2]string{
	"proposer_duties":       {"GET", "/eth/v1/validator/duties/proposer/"},
	"proposer_duties_v2":    {"GET", "/eth/v2/validator/duties/proposer/"},
	"attester_duties":       {"POST", "/eth/v1/validator/duties/attester/"},
	"sync_committee_duties": {"POST", "/eth/v1/validator/duties/sync/"},
}

// runDu: ans := err | nilresp | U:<n>:<nil | eo/dr>
func (d *driver) runDu(kind, epochRaw, bodyKind string, idxs []uint64, ans string) {
	pm, ok := dutyPaths[kind]
	if !ok {
		panic("bad-op: duty kind")
	}
	post := pm[0] == "POST"
	body := idxBody(bodyKind, idxs)
	btok := "-"
	bk := ""
	var bidx []uint64
	if post {
		bk, bidx = readBodyIdx(body)
		btok = bk
		if bk == "ok" {
			p := make([]string, len(bidx))
			for i, x := range bidx {
				p[i] = strconv.FormatUint(x, 10)
			}
			btok = "ok:" + strings.Join(p, ",")
			if len(bidx) == 0 {
				btok = "ok:-"
			}
		}
	}
	op := fmt.Sprintf("du body=%s | %s =%s %s %s", bodyKind, kind, encChars(epochRaw), btok, ans)
	epoch, eok := ownUint(epochRaw)
	// the scripted answer
	n := 0
	nilAns := ""
	var rerr error
	respond := true
	var md map[string]any
	wantEO, wantDR, metaOK := false, uint64(0), true
	switch {
	case ans == "err":
		rerr = errScripted
	case ans == "nilresp":
		nilAns = ans
		respond = false
	case strings.HasPrefix(ans, "U:"):
		t := strings.SplitN(ans, ":", 3)
		if len(t) != 3 {
			panic("bad-op: duties answer")
		}
		k, err := strconv.Atoi(t[1])
		if err != nil {
			panic("bad-op: duties answer")
		}
		n = k
		if t[2] != "nil" {
			md = map[string]any{"unrelated": 1}
			m := strings.Split(t[2], "/")
			if len(m) != 2 {
				panic("bad-op: metadata")
			}
			switch m[0] {
			case "t":
				md["execution_optimistic"], wantEO = true, true
			case "f":
				md["execution_optimistic"] = false
			case "bad":
				md["execution_optimistic"], metaOK = "true", false
			case "missing":
				metaOK = false
			default:
				panic("bad-op: metadata eo")
			}
			switch {
			case m[1] == "bad":
				md["dependent_root"], metaOK = "0x"+hex32, false
			case m[1] == "missing":
				metaOK = false
			case strings.HasPrefix(m[1], "r"):
				r, err := strconv.ParseUint(m[1][1:], 10, 64)
				if err != nil {
					panic("bad-op: metadata root")
				}
				md["dependent_root"], wantDR = rootOf(r), r
			default:
				panic("bad-op: metadata dr")
			}
		}
	default:
		panic("bad-op: duties answer")
	}
	seen := "-"
	see := func(e eth2p0.Epoch, idx []eth2p0.ValidatorIndex, isNil bool) {
		if isNil {
			seen = fmt.Sprintf("%d:nil", uint64(e))
			return
		}
		p := make([]string, len(idx))
		for i, x := range idx {
			p[i] = strconv.FormatUint(uint64(x), 10)
		}
		seen = fmt.Sprintf("%d:[%s]", uint64(e), strings.Join(p, ","))
	}
	var wantData []byte
	var pk eth2p0.BLSPubKey
	switch kind {
	case "proposer_duties", "proposer_duties_v2":
		var data []*eth2v1.ProposerDuty
		for i := 0; i < n; i++ {
			pk[0] = byte(i + 1)
			data = append(data, &eth2v1.ProposerDuty{PubKey: pk, Slot: eth2p0.Slot(100 + i), ValidatorIndex: eth2p0.ValidatorIndex(i)})
		}
		wantData, _ = json.Marshal(data)
		d.h.propD = func(o *eth2api.ProposerDutiesOpts) (*eth2api.Response[[]*eth2v1.ProposerDuty], error) {
			see(o.Epoch, o.Indices, len(o.Indices) == 0)
			if !respond {
				return nil, nil
			}
			return &eth2api.Response[[]*eth2v1.ProposerDuty]{Data: data, Metadata: md}, rerr
		}
	case "attester_duties":
		var data []*eth2v1.AttesterDuty
		for i := 0; i < n; i++ {
			pk[0] = byte(i + 1)
			data = append(data, &eth2v1.AttesterDuty{PubKey: pk, Slot: eth2p0.Slot(100 + i), ValidatorIndex: eth2p0.ValidatorIndex(i), CommitteeLength: 8, CommitteesAtSlot: 4})
		}
		wantData, _ = json.Marshal(data)
		d.h.attD = func(o *eth2api.AttesterDutiesOpts) (*eth2api.Response[[]*eth2v1.AttesterDuty], error) {
			see(o.Epoch, o.Indices, false)
			if !respond {
				return nil, nil
			}
			return &eth2api.Response[[]*eth2v1.AttesterDuty]{Data: data, Metadata: md}, rerr
		}
	case "sync_committee_duties":
		var data []*eth2v1.SyncCommitteeDuty
		for i := 0; i < n; i++ {
			pk[0] = byte(i + 1)
			data = append(data, &eth2v1.SyncCommitteeDuty{PubKey: pk, ValidatorIndex: eth2p0.ValidatorIndex(i), ValidatorSyncCommitteeIndices: []eth2p0.CommitteeIndex{1, 2}})
		}
		wantData, _ = json.Marshal(data)
		d.h.syncD = func(o *eth2api.SyncCommitteeDutiesOpts) (*eth2api.Response[[]*eth2v1.SyncCommitteeDuty], error) {
			see(o.Epoch, o.Indices, false)
			if !respond {
				return nil, nil
			}
			return &eth2api.Response[[]*eth2v1.SyncCommitteeDuty]{Data: data, Metadata: md}, rerr
		}
	}
	if n == 0 {
		wantData = []byte("[]")
	}
	d.run.Begin(op)
	out := d.srv.do(pm[0], pm[1]+url.PathEscape(epochRaw), body)
	reach := eok && (!post || bk == "ok")
	wantSeen := "-"
	if reach {
		if post {
			p := make([]string, len(bidx))
			for i, x := range bidx {
				p[i] = strconv.FormatUint(x, 10)
			}
			wantSeen = fmt.Sprintf("%d:[%s]", epoch, strings.Join(p, ","))
		} else {
			wantSeen = fmt.Sprintf("%d:nil", epoch)
		}
	}
	if seen != wantSeen {
		d.run.Violate("routerget:params_misjudged", fmt.Sprintf("%s: the request asks for %s, the Handler saw %s", kind, wantSeen, seen))
	}
	st := d.statusStr(out, kind)
	d.panicSeen(out, kind, nilAns)
	res := st
	if st == "200" {
		var b struct {
			DependentRoot       *string         `json:"dependent_root"`
			Data                json.RawMessage `json:"data"`
			ExecutionOptimistic *bool           `json:"execution_optimistic"`
		}
		if err := json.Unmarshal(out.body, &b); err != nil || b.ExecutionOptimistic == nil {
			d.run.Violate("routerget:header_body_mismatch", kind+": unparsable 200 body")
			d.run.Op(op, "200 unparsable seen="+seen)
			return
		}
		dr := "-"
		var gotDR uint64
		if b.DependentRoot != nil {
			raw, err := hex.DecodeString(strings.TrimPrefix(*b.DependentRoot, "0x"))
			if err != nil || len(raw) != 32 || !strings.HasPrefix(*b.DependentRoot, "0x") || !bytes.Equal(raw[:24], make([]byte, 24)) {
				d.run.Violate("routerget:metadata_changed", kind+": dependent_root is not the served root: "+*b.DependentRoot)
			} else {
				gotDR = binary.BigEndian.Uint64(raw[24:])
			}
			dr = strconv.FormatUint(gotDR, 10)
		}
		nn := "null"
		if string(b.Data) != "null" {
			var arr []json.RawMessage
			if err := json.Unmarshal(b.Data, &arr); err != nil {
				d.run.Violate("routerget:response_decodes_to_other_object", kind+": data is not an array")
			}
			nn = strconv.Itoa(len(arr))
		}
		if !bytes.Equal(b.Data, wantData) {
			d.run.Violate("routerget:response_decodes_to_other_object", fmt.Sprintf("%s: the duties served differ from the Handler's answer (%d duties, data %.80s)", kind, n, b.Data))
		}
		if kind != "sync_committee_duties" {
			if !metaOK {
				d.run.Violate("routerget:ok_status_on_inconsistent_answer", kind+": 200 although the metadata is malformed / incomplete")
			} else if *b.ExecutionOptimistic != wantEO || b.DependentRoot == nil || gotDR != wantDR {
				d.run.Violate("routerget:metadata_changed", fmt.Sprintf("%s: metadata (%v,%d) served as (%v,%s)", kind, wantEO, wantDR, *b.ExecutionOptimistic, dr))
			}
		} else if wantEO && !*b.ExecutionOptimistic {
			d.run.Count("observed:sync_duties_execution_optimistic_dropped")
		}
		res = fmt.Sprintf("200 eo=%s dr=%s n=%s", b01(*b.ExecutionOptimistic), dr, nn)
	} else if reach && strings.HasPrefix(ans, "U:") && (metaOK || kind == "sync_committee_duties") {
		d.run.Violate("routerget:consistent_answer_refused", fmt.Sprintf("%s: a well-formed answer was answered %s", kind, st))
	}
	d.run.Count("du:" + kind + ":" + st)
	d.run.Case(fmt.Sprintf("du:%s:%s:%s", kind, bk, st))
	d.run.Op(op, res+" seen="+seen)
}
