// server.go: the real validatorapi.NewRouter over httptest (loopback) in front of (a) a scripted
// Handler whose answers the op line dictates and (b) the real validatorapi.Component over a scripted
// duty store; a panic catching middleware (net/http would recover the panic and close the connection).
package main

import (
	"bytes"
	"context"
	"errors"
	"fmt"
	"io"
	stdlog "log"
	"net/http"
	"net/http/httptest"
	"runtime/debug"
	"strings"
	"time"

	eth2api "github.com/attestantio/go-eth2-client/api"
	eth2v1 "github.com/attestantio/go-eth2-client/api/v1"
	eth2spec "github.com/attestantio/go-eth2-client/spec"
	eth2p0 "github.com/attestantio/go-eth2-client/spec/phase0"

	"github.com/obolnetwork/charon/app/eth2wrap"
	"github.com/obolnetwork/charon/core"
	"github.com/obolnetwork/charon/core/validatorapi"

	"verifharness/hx"
)

var errScripted = errors.New("harness: scripted error")

// scripted implements validatorapi.Handler: the methods of the response side answer what the current
// op dictates; every other method is the nil embedded interface (never called by these ops).
type scripted struct {
	validatorapi.Handler

	proposal func(*eth2api.ProposalOpts) (*eth2api.Response[*eth2api.VersionedProposal], error)
	agg      func(*eth2api.AggregateAttestationOpts) (*eth2api.Response[*eth2spec.VersionedAttestation], error)
	attData  func(*eth2api.AttestationDataOpts) (*eth2api.Response[*eth2p0.AttestationData], error)
	vals     func(*eth2api.ValidatorsOpts) (*eth2api.Response[map[eth2p0.ValidatorIndex]*eth2v1.Validator], error)
	propD    func(*eth2api.ProposerDutiesOpts) (*eth2api.Response[[]*eth2v1.ProposerDuty], error)
	attD     func(*eth2api.AttesterDutiesOpts) (*eth2api.Response[[]*eth2v1.AttesterDuty], error)
	syncD    func(*eth2api.SyncCommitteeDutiesOpts) (*eth2api.Response[[]*eth2v1.SyncCommitteeDuty], error)
	proxied  int
}

func (s *scripted) Proposal(_ context.Context, o *eth2api.ProposalOpts) (*eth2api.Response[*eth2api.VersionedProposal], error) {
	return s.proposal(o)
}

func (s *scripted) AggregateAttestation(_ context.Context, o *eth2api.AggregateAttestationOpts) (*eth2api.Response[*eth2spec.VersionedAttestation], error) {
	return s.agg(o)
}

func (s *scripted) AttestationData(_ context.Context, o *eth2api.AttestationDataOpts) (*eth2api.Response[*eth2p0.AttestationData], error) {
	return s.attData(o)
}

func (s *scripted) Validators(_ context.Context, o *eth2api.ValidatorsOpts) (*eth2api.Response[map[eth2p0.ValidatorIndex]*eth2v1.Validator], error) {
	return s.vals(o)
}

func (s *scripted) ProposerDuties(_ context.Context, o *eth2api.ProposerDutiesOpts) (*eth2api.Response[[]*eth2v1.ProposerDuty], error) {
	return s.propD(o)
}

func (s *scripted) AttesterDuties(_ context.Context, o *eth2api.AttesterDutiesOpts) (*eth2api.Response[[]*eth2v1.AttesterDuty], error) {
	return s.attD(o)
}

func (s *scripted) SyncCommitteeDuties(_ context.Context, o *eth2api.SyncCommitteeDutiesOpts) (*eth2api.Response[[]*eth2v1.SyncCommitteeDuty], error) {
	return s.syncD(o)
}

func (s *scripted) Proxy(_ context.Context, _ *http.Request) (*http.Response, error) {
	s.proxied++
	return &http.Response{StatusCode: http.StatusTeapot, Header: http.Header{}, Body: io.NopCloser(bytes.NewReader([]byte("proxied")))}, nil
}

func (s *scripted) Address() string            { return "http://127.0.0.1:1" }
func (s *scripted) Headers() map[string]string { return nil }

// server: a router behind the panic catching middleware.
type server struct {
	ts        *httptest.Server
	handler   http.Handler
	lastPanic string
}

func (s *server) ServeHTTP(w http.ResponseWriter, r *http.Request) {
	defer func() {
		if p := recover(); p != nil {
			s.lastPanic = fmt.Sprintf("%v @ %s", p, firstRepoFrame(string(debug.Stack())))
			panic(http.ErrAbortHandler)
		}
	}()
	s.handler.ServeHTTP(w, r)
}

func firstRepoFrame(stack string) string {
	lines := strings.Split(stack, "\n")
	seenPanic := false
	for i, l := range lines {
		if strings.HasPrefix(l, "panic(") {
			seenPanic = true
			continue
		}
		if !seenPanic {
			continue
		}
		if (strings.Contains(l, "obolnetwork/charon") || strings.Contains(l, "go-eth2-client")) && !strings.HasPrefix(l, "\t") {
			fn := l
			if j := strings.LastIndex(fn, "("); j > 0 {
				fn = fn[:j]
			}
			if j := strings.LastIndex(fn, "/"); j >= 0 {
				fn = fn[j+1:]
			}
			loc := ""
			if i+1 < len(lines) {
				loc = strings.TrimSpace(lines[i+1])
				if j := strings.LastIndex(loc, "/"); j >= 0 {
					loc = loc[j+1:]
				}
				if j := strings.Index(loc, " "); j >= 0 {
					loc = loc[:j]
				}
			}
			return fn + " " + loc
		}
	}
	return "?"
}

func newServer(h http.Handler) *server {
	srv := &server{handler: h}
	ts := httptest.NewUnstartedServer(srv)
	ts.Config.ErrorLog = stdlog.New(io.Discard, "", 0)
	ts.Start()
	srv.ts = ts
	return srv
}

// keep-alives off: on a reused connection net/http's client silently repeats a GET whose connection the
// server closed without a response (a recovered handler panic), which would call the Handler twice
var httpClient = &http.Client{Timeout: 60 * time.Second, Transport: &http.Transport{DisableKeepAlives: true}}

type httpOutcome struct {
	status  int // 0: no response
	hdr     http.Header
	body    []byte
	panicAt string
	netErr  string
}

func (s *server) do(meth, url string, body []byte) httpOutcome {
	s.lastPanic = ""
	var rd io.Reader
	if body != nil {
		rd = bytes.NewReader(body)
	}
	req, err := http.NewRequest(meth, s.ts.URL+url, rd)
	hx.Must(err)
	if body != nil {
		req.Header.Set("Content-Type", "application/json")
	}
	res, err := httpClient.Do(req)
	if err != nil {
		if s.lastPanic != "" {
			return httpOutcome{panicAt: s.lastPanic}
		}
		return httpOutcome{netErr: err.Error()}
	}
	defer res.Body.Close()
	b, _ := io.ReadAll(res.Body)
	out := httpOutcome{status: res.StatusCode, hdr: res.Header, body: b}
	if s.lastPanic != "" {
		out.panicAt = s.lastPanic
	}
	return out
}

// ---------------------------------------------------------------------------------------------
// the real Component over a scripted duty store

type storeAns struct {
	kind string // err | nil | prop
	p    propSpec
}

type compEnv struct {
	defs     int // -1: dutyDefFunc errors, else size of the returned set
	failAt   int // -1: no subscriber fails
	store    map[uint64]storeAns
	calls    int
	asked    []uint64 // slots the store was asked for
	defAsked []uint64
	served   []*served // populated fields of the proposal handed out
	handed   *propSpec
}

var cenv *compEnv

type compServers struct {
	bmock eth2wrap.Client
	m     map[string]*server
}

func (cs *compServers) get(nsub int, builder bool) *server {
	key := fmt.Sprintf("%d/%v", nsub, builder)
	if s, ok := cs.m[key]; ok {
		return s
	}
	comp, err := validatorapi.NewComponentInsecure(nil, cs.bmock, 1)
	hx.Must(err)
	comp.RegisterGetDutyDefinition(func(_ context.Context, duty core.Duty) (core.DutyDefinitionSet, error) {
		cenv.defAsked = append(cenv.defAsked, duty.Slot)
		if duty.Type != core.DutyProposer {
			return nil, fmt.Errorf("harness: unexpected duty type %v", duty.Type)
		}
		if cenv.defs < 0 {
			return nil, errScripted
		}
		res := core.DutyDefinitionSet{}
		for i := 0; i < cenv.defs; i++ {
			pk := core.PubKey(fmt.Sprintf("0x%096x", i+1))
			res[pk] = core.NewProposerDefinition(&eth2v1.ProposerDuty{Slot: eth2p0.Slot(duty.Slot)})
		}
		return res, nil
	})
	comp.RegisterAwaitProposal(func(_ context.Context, slot uint64) (*eth2api.VersionedProposal, error) {
		cenv.asked = append(cenv.asked, slot)
		a, ok := cenv.store[slot]
		if !ok || a.kind == "err" {
			return nil, errScripted
		}
		if a.kind == "nil" {
			return nil, nil
		}
		vp, all := a.p.build()
		cenv.served = all
		p := a.p
		cenv.handed = &p
		return vp, nil
	})
	for i := 0; i < nsub; i++ {
		comp.Subscribe(func(_ context.Context, _ core.Duty, _ core.ParSignedDataSet) error {
			k := cenv.calls
			cenv.calls++
			if cenv.failAt >= 0 && k == cenv.failAt {
				return errScripted
			}
			return nil
		})
	}
	router, err := validatorapi.NewRouter(comp, builder)
	hx.Must(err)
	s := newServer(router)
	cs.m[key] = s
	return s
}
