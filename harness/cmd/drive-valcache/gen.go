package main

import (
	"fmt"
	"sort"

	"verifharness/hx"
)

// ---------- generator ----------

type genVal struct {
	idx, pk uint64
	status  int
	act     uint64
	bad     int
}

type genWorld struct {
	mode string
	vals map[uint64]genVal
}

func (w *genWorld) clone() *genWorld {
	c := &genWorld{mode: w.mode, vals: map[uint64]genVal{}}
	for k, v := range w.vals {
		c.vals[k] = v
	}
	return c
}

func (w *genWorld) entries() []entry {
	keys := make([]uint64, 0, len(w.vals))
	for k := range w.vals {
		keys = append(keys, k)
	}
	sort.Slice(keys, func(i, j int) bool { return keys[i] < keys[j] })
	var es []entry
	for _, k := range keys {
		v := w.vals[k]
		es = append(es, entry{key: k, idx: v.idx, pk: v.pk, status: v.status, act: v.act, bad: v.bad})
	}
	return es
}

func (w *genWorld) op(state string) string {
	switch w.mode {
	case "err", "nil":
		return fmt.Sprintf("bnset %s %s -", state, w.mode)
	}
	return fmt.Sprintf("bnset %s %s %s", state, w.mode, entriesStr(w.entries()))
}

// status weights: mostly active_ongoing, every other state present
func genStatus(rng *hx.Rng) int {
	switch r := rng.Intn(20); {
	case r < 9:
		return 3
	case r < 11:
		return 4
	case r < 12:
		return 5
	case r < 14:
		return 2
	case r < 15:
		return 1
	case r < 16:
		return 6
	case r < 17:
		return 7
	case r < 18:
		return 8
	case r < 19:
		return 9
	}
	return 0
}

// the next state in a validator's life (what a node reports one epoch later)
func nextStatus(rng *hx.Rng, s int) int {
	switch s {
	case 0:
		return 1
	case 1:
		return 2
	case 2:
		return 3
	case 3:
		if rng.Chance(1, 4) {
			return 5
		}
		return 4
	case 4:
		return 6
	case 5:
		return 7
	case 6, 7:
		return 8
	case 8:
		return 9
	}
	return 3
}

func generateEpisode(rng *hx.Rng, run *hx.Run, exec func(string), cur func() *episode, dead *bool) {
	stack := "m"
	switch r := rng.Intn(20); {
	case r < 5:
		stack = "d"
	case r < 8:
		stack = "a"
	case r < 12:
		stack = "l"
	}
	// the cluster: some of the keys 1..8 (pubkey 100+key); foreign validators 21, 22 (pubkeys 921, 922) exist at the node
	var keys []uint64
	for _, k := range rng.Perm(8)[:2+rng.Intn(5)] {
		keys = append(keys, uint64(k+1))
	}
	sort.Slice(keys, func(i, j int) bool { return keys[i] < keys[j] })
	var pks []uint64
	for _, k := range keys {
		pks = append(pks, 100+k)
	}
	if rng.Chance(1, 5) {
		pks = append(pks, 199) // a cluster pubkey the node has no validator for
	}
	universe := append(append([]uint64(nil), keys...), 21, 22)
	pkOf := func(k uint64) uint64 {
		if k >= 20 {
			return 900 + k
		}
		return 100 + k
	}
	epoch := uint64(1 + rng.Intn(6))
	slot := epoch*spe + uint64(rng.Intn(spe-1))
	genVal1 := func(k uint64) genVal {
		v := genVal{idx: k, pk: pkOf(k), status: genStatus(rng)}
		switch rng.Intn(4) {
		case 0:
			v.act = epoch
		case 1:
			v.act = epoch + 1
		case 2:
			v.act = 0
		default:
			v.act = 1 << 40
		}
		if rng.Chance(1, 40) {
			v.idx = k + 50 // the response map's key is not the validator's own index
		}
		if rng.Chance(1, 60) {
			v.bad = 1 + rng.Intn(2)
		}
		return v
	}
	newWorld := func() *genWorld {
		w := &genWorld{mode: "flt", vals: map[uint64]genVal{}}
		for _, k := range universe {
			if rng.Chance(5, 6) {
				w.vals[k] = genVal1(k)
			}
		}
		if rng.Chance(1, 25) {
			w.mode = "raw"
		}
		return w
	}
	head := newWorld()
	do := func(op string) {
		if !*dead {
			exec(op)
		}
	}
	do(fmt.Sprintf("cfg %s %s", stack, pksStr(pks)))
	if rng.Chance(1, 6) { // a request before the cache is wired into the client
		do([]string{"active", "complete", "sched " + fmt.Sprint(slot)}[rng.Intn(3)])
	}
	if rng.Chance(1, 8) { // a request before the node was scripted at all: every state id is unknown to it
		do("head")
	}
	do("wire")
	do(head.op("head"))
	change := func(w *genWorld) {
		switch r := rng.Intn(20); {
		case r < 9 && len(w.vals) > 0: // one validator moves on in its life
			ks := make([]uint64, 0, len(w.vals))
			for k := range w.vals {
				ks = append(ks, k)
			}
			sort.Slice(ks, func(i, j int) bool { return ks[i] < ks[j] })
			k := ks[rng.Intn(len(ks))]
			v := w.vals[k]
			v.status = nextStatus(rng, v.status)
			if v.status == 3 {
				v.act = epoch + uint64(rng.Intn(2))
			}
			w.vals[k] = v
		case r < 12: // a validator appears / disappears / changes arbitrarily
			k := universe[rng.Intn(len(universe))]
			if _, ok := w.vals[k]; ok && rng.Chance(1, 2) {
				delete(w.vals, k)
			} else {
				w.vals[k] = genVal1(k)
			}
		case r < 14:
			nw := newWorld()
			w.mode, w.vals = nw.mode, nw.vals
		case r < 15:
			w.mode = "err"
		case r < 16:
			w.mode = "nil"
		case r < 17:
			w.mode = "raw"
		default:
			w.mode = "flt"
		}
	}
	scriptSlot := func(s uint64) {
		switch r := rng.Intn(10); {
		case r < 5: // the state of that slot: the head state, perhaps one step behind
			w := head.clone()
			if w.mode == "err" || w.mode == "nil" {
				w.mode = "flt"
			}
			if rng.Chance(1, 2) {
				change(w)
			}
			do(w.op(fmt.Sprint(s)))
		case r < 6:
			do(fmt.Sprintf("bnset %d err -", s))
		}
		// else: whatever was scripted for that slot before, or nothing (the node does not know the state)
	}
	n := 40 + rng.Intn(140)
	for i := 0; i < n && run.NOps < 1<<30 && !*dead; i++ {
		switch r := rng.Intn(100); {
		case r < 17:
			do("head")
		case r < 27:
			do("active")
		case r < 37:
			do("complete")
		case r < 46:
			do(fmt.Sprintf("sched %d", slot))
		case r < 53:
			do("trim")
		case r < 60:
			s := slot
			if rng.Chance(1, 3) {
				s = (slot / spe) * spe
			}
			scriptSlot(s)
			do(fmt.Sprintf("slot %d", s))
		case r < 66:
			scriptSlot(slot)
			if rng.Chance(1, 2) {
				scriptSlot((slot / spe) * spe)
			}
			do(fmt.Sprintf("refresh %d", slot))
		case r < 78:
			change(head)
			do(head.op("head"))
		case r < 82:
			bits := ""
			for j := 1 + rng.Intn(3); j > 0; j-- {
				bits += b2s(rng.Chance(2, 3))
			}
			do("bnfail " + bits)
		case r < 86:
			k := universe[rng.Intn(len(universe))]
			switch rng.Intn(4) {
			case 0:
				do(fmt.Sprintf("mut adel %d", k))
			case 1:
				do(fmt.Sprintf("mut aadd %d %d", 30+rng.Intn(3), 930+rng.Intn(3)))
			case 2:
				do(fmt.Sprintf("mut cstat %d %s", k, statusNames[genStatus(rng)]))
			default:
				do(fmt.Sprintf("mut cdel %d", k))
			}
		case r < 92:
			// racing calls, usually right after something that empties or changes the cache
			switch rng.Intn(4) {
			case 0:
				do("trim")
			case 1:
				change(head)
				do(head.op("head"))
			}
			switch rng.Intn(3) {
			case 0:
				do("race hh")
			case 1:
				do("race ht")
			default:
				scriptSlot(slot)
				do(fmt.Sprintf("race hs:%d", slot))
			}
		default:
			// the next slots go by; at an epoch boundary validators move on, the slot subscriber refreshes the
			// cache and the scheduler resolves the new epoch
			adv := uint64(1 + rng.Intn(spe))
			oldEpoch := slot / spe
			slot += adv
			if slot%spe == spe-1 {
				slot++
			}
			if slot/spe != oldEpoch {
				epoch = slot / spe
				for j := rng.Intn(3); j > 0; j-- {
					change(head)
				}
				do(head.op("head"))
				if rng.Chance(2, 3) {
					first := epoch * spe
					scriptSlot(first)
					do(fmt.Sprintf("refresh %d", first))
				}
				do(fmt.Sprintf("sched %d", slot))
			} else if rng.Chance(1, 2) {
				do(fmt.Sprintf("refresh %d", slot))
			}
		}
	}
}
