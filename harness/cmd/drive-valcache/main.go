// drive-valcache: correspondence driver for the validator cache of app/eth2wrap/cache.go (C15, stream valcache).
//
// The real eth2wrap.NewValidatorCache runs over a scripted beacon-node client (only Validators is
// implemented; every other method of the interface is a nil-pointer call). Its GetByHead is wired as in
// app/app.go into the production client stack (eth2wrap.Instrument over the lazy client over the http
// adapter: SetValidatorCache / ActiveValidators / CompleteValidators of multi.go, lazy.go, httpwrap.go),
// and the real Scheduler (hook scheduler.NewVerif) resolves epochs through that stack.
//
// ops (see lean/Driver/ValCache.lean for the grammar):
//
//	cfg <stack> <pks|->        new episode; stack d (GetByHead called directly) | a (http adapter) |
//	                           l (lazy over adapter) | m (Instrument([lazy(adapter)]) = production)
//	wire                       stack.SetValidatorCache(valCache.GetByHead)
//	bnset <state> <mode> <entries>   what the node answers for a state id; entry key:idx:pk:status/verdict:act
//	                           (verdict = the real ValidatorState.IsActive()), key:nil, key:nv
//	bnfail <bits>              the next node calls fail where the bit is 1
//	head | active | complete   GetByHead directly / ActiveValidators, CompleteValidators through the stack
//	slot <s>                   GetBySlot
//	trim                       Trim
//	refresh <slot>             the slot subscriber of app/app.go (replica; compared with app.go's text once per run)
//	mut ...                    the hostile caller writes into the maps the last head / slot op returned
//	sched <slot>               a fresh real Scheduler handles the slot: resolves the epoch through the stack; the node
//	                           assigns an attester duty in that slot to every validator the scheduler asks for
//	race hh|ht|hs:<s>          two goroutines behind a barrier: GetByHead ∥ GetByHead / Trim / GetBySlot; the observed
//	                           results and the order of node calls are appended to the op line (a= b= o=)
//
// Every answer ends in " | S=a:..;c:.. bn=<n>": what the cache holds (hook VerifSnapshot), node calls so far.
package main

import (
	"context"
	"encoding/binary"
	"errors"
	"fmt"
	"runtime"
	"sort"
	"strconv"
	"strings"
	"sync"
	"sync/atomic"
	"time"

	eth2api "github.com/attestantio/go-eth2-client/api"
	eth2v1 "github.com/attestantio/go-eth2-client/api/v1"
	eth2p0 "github.com/attestantio/go-eth2-client/spec/phase0"
	"github.com/jonboulle/clockwork"

	"github.com/obolnetwork/charon/app/eth2wrap"
	"github.com/obolnetwork/charon/app/featureset"
	"github.com/obolnetwork/charon/app/log"
	"github.com/obolnetwork/charon/core"
	"github.com/obolnetwork/charon/core/scheduler"

	"verifharness/hx"
)

const spe = 16 // slots per epoch of the scheduler episodes (Driver/ValCache.lean: slotsPerEpoch)

var (
	genesis = time.Date(2024, 1, 1, 0, 0, 0, 0, time.UTC)
	errBN   = errors.New("scripted beacon node failure")
)

var statusNames = []string{"unknown", "pending_initialized", "pending_queued", "active_ongoing", "active_exiting",
	"active_slashed", "exited_unslashed", "exited_slashed", "withdrawal_possible", "withdrawal_done"}

func statusCode(n string) int {
	for i, s := range statusNames {
		if s == n {
			return i
		}
	}
	panic(opError("bad status " + n))
}

func pkBytes(id uint64) eth2p0.BLSPubKey {
	var pk eth2p0.BLSPubKey
	pk[0] = 0xa5
	binary.BigEndian.PutUint64(pk[40:], id)
	return pk
}

func pkID(pk eth2p0.BLSPubKey) uint64 { return binary.BigEndian.Uint64(pk[40:]) }

// ---------- scripted beacon node ----------

type entry struct {
	key, idx, pk uint64
	status       int
	act          uint64
	bad          int // 0 ok, 1 nil *Validator, 2 nil inner Validator
}

type ansSpec struct {
	mode string // err nil flt raw
	es   []entry
}

type bnCall struct {
	state  string
	tag    string
	ok     bool    // the node answered (no error)
	formed bool    // ... and no entry was nil
	raw    bool    // ... without honouring the pubkey filter
	es     []entry // what it answered
}

type tagKey struct{}

type bnClient struct {
	eth2wrap.Client // nil, or the production stack: any method but Validators is not the node's business
	e               *episode
}

func (b bnClient) Validators(ctx context.Context, opts *eth2api.ValidatorsOpts) (*eth2api.Response[map[eth2p0.ValidatorIndex]*eth2v1.Validator], error) {
	e := b.e
	// the cache holds its write lock while it asks the node: two queries are never in flight together
	if n := atomic.AddInt32(&e.inflight, 1); n > 1 {
		atomic.StoreInt32(&e.overlap, 1)
	}
	defer atomic.AddInt32(&e.inflight, -1)
	e.bnMu.Lock()
	defer e.bnMu.Unlock()
	if e.inRace {
		for i := 0; i < e.raceYield; i++ {
			runtime.Gosched()
		}
	}
	tag, _ := ctx.Value(tagKey{}).(string)
	e.calls++
	call := bnCall{state: opts.State, tag: tag}
	// the query itself: the cluster's pubkeys, nothing else
	if len(opts.Indices) != 0 || len(opts.PubKeys) != len(e.pks) {
		e.badQuery = fmt.Sprintf("state %s: %d pubkeys, %d indices (cluster has %d pubkeys)", opts.State, len(opts.PubKeys), len(opts.Indices), len(e.pks))
	} else {
		for i, pk := range opts.PubKeys {
			if pkID(pk) != e.pks[i] || pk != pkBytes(e.pks[i]) {
				e.badQuery = fmt.Sprintf("state %s: pubkey %d of the query is %d, cluster has %d", opts.State, i, pkID(pk), e.pks[i])
			}
		}
	}
	fail := false
	if len(e.failq) > 0 {
		fail, e.failq = e.failq[0], e.failq[1:]
	}
	spec := e.states[opts.State]
	if fail || spec == nil || spec.mode == "err" {
		e.log = append(e.log, call)
		return nil, errBN
	}
	call.ok = true
	if spec.mode == "nil" {
		call.formed = true
		e.log = append(e.log, call)
		e.noteFetch(call)
		return &eth2api.Response[map[eth2p0.ValidatorIndex]*eth2v1.Validator]{Data: nil, Metadata: map[string]any{}}, nil
	}
	call.raw = spec.mode == "raw"
	call.formed = true
	asked := map[uint64]bool{}
	for _, pk := range opts.PubKeys {
		asked[pkID(pk)] = true
	}
	// a query without ids is a query for every validator of the state
	all := call.raw || (len(opts.PubKeys) == 0 && len(opts.Indices) == 0)
	data := make(map[eth2p0.ValidatorIndex]*eth2v1.Validator)
	for _, en := range spec.es {
		if en.bad == 0 && !all && !asked[en.pk] {
			continue
		}
		call.es = append(call.es, en)
		switch en.bad {
		case 1:
			data[eth2p0.ValidatorIndex(en.key)] = nil
			call.formed = false
		case 2:
			data[eth2p0.ValidatorIndex(en.key)] = &eth2v1.Validator{Index: eth2p0.ValidatorIndex(en.key)}
			call.formed = false
		default:
			data[eth2p0.ValidatorIndex(en.key)] = &eth2v1.Validator{
				Index: eth2p0.ValidatorIndex(en.idx), Balance: 32000000000, Status: eth2v1.ValidatorState(en.status),
				Validator: &eth2p0.Validator{PublicKey: pkBytes(en.pk), ActivationEpoch: eth2p0.Epoch(en.act),
					ExitEpoch: 1 << 62, WithdrawableEpoch: 1 << 62, EffectiveBalance: 32000000000},
			}
		}
	}
	e.log = append(e.log, call)
	if call.formed {
		e.noteFetch(call)
	}
	return &eth2api.Response[map[eth2p0.ValidatorIndex]*eth2v1.Validator]{Data: data, Metadata: map[string]any{}}, nil
}

// noteFetch: the monitors' reference is the node's most recent well-formed answer.
func (e *episode) noteFetch(c bnCall) {
	cp := c
	e.ref = &cp
	e.everFetched = true
	e.trimSinceFetch = false
	e.mutSinceFetch = false
}

// ---------- episode ----------

type episode struct {
	stack string
	pks   []uint64
	isPk  map[uint64]bool
	wired bool
	vc    *eth2wrap.ValidatorCache
	cl    eth2wrap.Client // the client stack (nil for stack d)

	bnMu      sync.Mutex
	inflight  int32
	overlap   int32
	states    map[string]*ansSpec
	failq     []bool
	calls     int
	log       []bnCall
	badQuery  string
	inRace    bool
	raceYield int
	pkOfKey   map[uint64]uint64

	heldA eth2wrap.ActiveValidators
	heldC eth2wrap.CompleteValidators
	held  bool

	// slot subscriber of app.go
	firstCacheRefresh bool
	refreshedBySlot   bool

	// monitor state
	ref            *bnCall
	everFetched    bool
	trimSinceFetch bool
	mutSinceFetch  bool
}

func newEpisode(stack string, pks []uint64) *episode {
	e := &episode{stack: stack, pks: pks, isPk: map[uint64]bool{}, states: map[string]*ansSpec{}, pkOfKey: map[uint64]uint64{},
		firstCacheRefresh: true, refreshedBySlot: true}
	var pubkeys []eth2p0.BLSPubKey
	for _, p := range pks {
		e.isPk[p] = true
		pubkeys = append(pubkeys, pkBytes(p))
	}
	adapter := func() eth2wrap.Client { return eth2wrap.VerifNewHTTPAdapter("http://scripted-node") }
	lazy := func() eth2wrap.Client {
		return eth2wrap.VerifNewLazy(func(context.Context) (eth2wrap.Client, error) { return adapter(), nil })
	}
	switch stack {
	case "d":
	case "a":
		e.cl = adapter()
	case "l":
		e.cl = lazy()
	case "m":
		cl, err := eth2wrap.Instrument([]eth2wrap.Client{lazy()}, nil)
		hx.Must(err)
		e.cl = cl
	default:
		panic(opError("bad stack " + stack))
	}
	// as in app.go: the cache queries the node through the same client object it is wired into
	e.vc = eth2wrap.NewValidatorCache(bnClient{Client: e.cl, e: e}, pubkeys)
	return e
}

func (e *episode) takeLog() (calls []bnCall) {
	e.bnMu.Lock()
	defer e.bnMu.Unlock()
	calls, e.log = e.log, nil
	return calls
}

func qStr(calls []bnCall) string {
	if len(calls) == 0 {
		return "-"
	}
	var p []string
	for _, c := range calls {
		p = append(p, c.state)
	}
	return strings.Join(p, "+")
}

// ---------- rendering ----------

func showA(a eth2wrap.ActiveValidators) string {
	keys := make([]uint64, 0, len(a))
	for k := range a {
		keys = append(keys, uint64(k))
	}
	sort.Slice(keys, func(i, j int) bool { return keys[i] < keys[j] })
	p := make([]string, len(keys))
	for i, k := range keys {
		p[i] = fmt.Sprintf("%d:%d", k, pkID(a[eth2p0.ValidatorIndex(k)]))
	}
	return "A[" + strings.Join(p, ",") + "]"
}

func showVal(k uint64, v *eth2v1.Validator) string {
	if v == nil {
		return fmt.Sprintf("%d:nil", k)
	}
	if v.Validator == nil {
		return fmt.Sprintf("%d:nv", k)
	}
	return fmt.Sprintf("%d:%d:%d:%s:%d", k, uint64(v.Index), pkID(v.Validator.PublicKey), v.Status.String(), uint64(v.Validator.ActivationEpoch))
}

func showC(c eth2wrap.CompleteValidators) string {
	keys := make([]uint64, 0, len(c))
	for k := range c {
		keys = append(keys, uint64(k))
	}
	sort.Slice(keys, func(i, j int) bool { return keys[i] < keys[j] })
	p := make([]string, len(keys))
	for i, k := range keys {
		p[i] = showVal(k, c[eth2p0.ValidatorIndex(k)])
	}
	return "C[" + strings.Join(p, ",") + "]"
}

func errClass(err error) string {
	s := err.Error()
	switch {
	case strings.Contains(s, "no active validator cache"):
		return "err:nocache"
	case strings.Contains(s, "validator data is nil"):
		return "err:nilval"
	case strings.Contains(s, errBN.Error()):
		return "err:bn"
	}
	return "err:other(" + strings.ReplaceAll(s, " ", "_") + ")"
}

func showRes(a eth2wrap.ActiveValidators, c eth2wrap.CompleteValidators, err error) string {
	if err != nil {
		return errClass(err)
	}
	return "ok/" + showA(a) + "/" + showC(c)
}

func (e *episode) snap() string {
	a, c := e.vc.VerifSnapshot()
	sa, sc := "nil", "nil"
	if a != nil {
		sa = showA(a)
	}
	if c != nil {
		sc = showC(c)
	}
	return "S=a:" + sa + ";c:" + sc
}

func (e *episode) digest() string {
	e.bnMu.Lock()
	n := e.calls
	e.bnMu.Unlock()
	return fmt.Sprintf("%s bn=%d", e.snap(), n)
}

// ---------- monitors ----------

// judge evaluates the property on one successful answer: a / c are what the caller got (haveA / haveC: which of
// the two), calls are the node calls made by this operation.
func (e *episode) judge(run *hx.Run, what string, a eth2wrap.ActiveValidators, c eth2wrap.CompleteValidators, haveA, haveC bool, calls []bnCall) {
	fetched := false
	for _, cl := range calls {
		if cl.ok && cl.formed {
			fetched = true
		}
	}
	if n := len(calls); n > 0 && calls[n-1].ok && !calls[n-1].formed {
		run.Violate("valcache:nil_validator_accepted", what+": the node's response had a nil validator and the call succeeded")
		return
	}
	if !fetched {
		switch {
		case !e.everFetched:
			run.Violate("valcache:served_without_fetch_before_first_call", what+": an answer was served although the beacon node never gave one")
			return
		case e.trimSinceFetch:
			run.Violate("valcache:stale_after_trim", what+": an answer was served after Trim without asking the beacon node again")
			return
		}
	}
	ref := e.ref
	if ref == nil {
		return
	}
	run.Case(fmt.Sprintf("answer:%s:fetched=%v:active=%d:complete=%d:raw=%v", strings.SplitN(what, " ", 2)[0], fetched, len(a), len(c), ref.raw))
	for _, en := range ref.es {
		run.Case("status-in-answer:" + statusNames[en.status])
	}
	blame := func(sig, descr string) {
		if e.mutSinceFetch {
			// not a violation of C15 (no caller in /repo writes into these maps; the property does not quantify over hostile
			// callers of the validator cache): counted as an observation, the model follows the code as it is (taint)
			_ = descr
			run.Count("observed:shared_map_mutated")
		} else {
			run.Violate(sig, what+": "+descr)
		}
	}
	byIdx := map[uint64]entry{}
	byKey := map[uint64]entry{}
	for _, en := range ref.es {
		byIdx[en.idx] = en
		byKey[en.key] = en
	}
	if haveA {
		for idx, pk := range a {
			en, ok := byIdx[uint64(idx)]
			switch {
			case !e.isPk[pkID(pk)] && !ref.raw:
				blame("valcache:foreign_validator", fmt.Sprintf("active validator %d has pubkey %d which is not a cluster validator", idx, pkID(pk)))
			case !ok || en.pk != pkID(pk):
				blame("valcache:answer_differs_from_last_fetch", fmt.Sprintf("active validator %d:%d is not in the node's last answer", idx, pkID(pk)))
			case !eth2v1.ValidatorState(en.status).IsActive():
				blame("valcache:inactive_reported_active", fmt.Sprintf("validator %d has status %s in the node's last answer and is reported active", idx, statusNames[en.status]))
			}
		}
		for _, en := range ref.es {
			if eth2v1.ValidatorState(en.status).IsActive() {
				if pk, ok := a[eth2p0.ValidatorIndex(en.idx)]; !ok || pkID(pk) != en.pk {
					blame("valcache:active_missing", fmt.Sprintf("validator %d (%s in the node's last answer) is not reported active", en.idx, statusNames[en.status]))
				}
			}
		}
	}
	if haveC {
		for key, v := range c {
			en, ok := byKey[uint64(key)]
			switch {
			case v == nil || v.Validator == nil:
				blame("valcache:answer_differs_from_last_fetch", fmt.Sprintf("complete set has a nil validator under %d", key))
			case !e.isPk[pkID(v.Validator.PublicKey)] && !ref.raw:
				blame("valcache:foreign_validator", fmt.Sprintf("complete set has validator %d with pubkey %d which is not a cluster validator", key, pkID(v.Validator.PublicKey)))
			case !ok || showVal(uint64(key), v) != showEntry(en):
				blame("valcache:answer_differs_from_last_fetch", fmt.Sprintf("complete set entry %s differs from the node's last answer", showVal(uint64(key), v)))
			}
		}
		for _, en := range ref.es {
			if _, ok := c[eth2p0.ValidatorIndex(en.key)]; !ok {
				blame("valcache:answer_differs_from_last_fetch", fmt.Sprintf("validator %d of the node's last answer is missing from the complete set", en.key))
			}
		}
	}
}

func showEntry(en entry) string {
	switch en.bad {
	case 1:
		return fmt.Sprintf("%d:nil", en.key)
	case 2:
		return fmt.Sprintf("%d:nv", en.key)
	}
	return fmt.Sprintf("%d:%d:%d:%s:%d", en.key, en.idx, en.pk, statusNames[en.status], en.act)
}

// checkHeadQuery: GetByHead asks the node at most once, and for the state "head".
func checkHeadQuery(run *hx.Run, what string, calls []bnCall) {
	if q := qStr(calls); q != "-" && q != "head" {
		run.Violate("valcache:head_query_protocol", what+" asked the node for "+q+", expected at most one query for state head")
	}
}

func (e *episode) checkQuery(run *hx.Run) {
	if atomic.SwapInt32(&e.overlap, 0) != 0 {
		run.Violate("valcache:bn_fetches_overlap", "two Validators queries of the cache were in flight at the same time (the cache asks the node under its write lock)")
	}
	if e.badQuery != "" {
		run.Violate("valcache:bn_query_not_the_cluster_pubkeys", e.badQuery)
		e.badQuery = ""
	}
}

// ---------- operations ----------

func ctxTag(tag string) context.Context {
	return context.WithValue(context.Background(), tagKey{}, tag)
}

func (e *episode) doHead(run *hx.Run) string {
	before := e.snap()
	a, c, err := e.vc.GetByHead(ctxTag("h"))
	calls := e.takeLog()
	e.checkQuery(run)
	checkHeadQuery(run, "GetByHead", calls)
	if err != nil {
		if after := e.snap(); after != before {
			run.Violate("valcache:error_changed_cache", fmt.Sprintf("GetByHead returned %v and the cache changed from %s to %s", err, before, after))
		}
	} else {
		e.judge(run, "GetByHead", a, c, true, true, calls)
		e.heldA, e.heldC, e.held = a, c, true
	}
	run.Count("head:" + strings.SplitN(showRes(a, c, err), "/", 2)[0] + ":q=" + qStr(calls))
	return showRes(a, c, err) + " q=" + qStr(calls)
}

func (e *episode) viaStack(run *hx.Run, active bool) string {
	var (
		a   eth2wrap.ActiveValidators
		c   eth2wrap.CompleteValidators
		err error
	)
	before := e.snap()
	switch {
	case e.cl == nil && active:
		a, _, err = e.vc.GetByHead(ctxTag("p"))
	case e.cl == nil:
		_, c, err = e.vc.GetByHead(ctxTag("p"))
	case active:
		a, err = e.cl.ActiveValidators(ctxTag("p"))
	default:
		c, err = e.cl.CompleteValidators(ctxTag("p"))
	}
	calls := e.takeLog()
	e.checkQuery(run)
	name := "CompleteValidators"
	if active {
		name = "ActiveValidators"
	}
	checkHeadQuery(run, name, calls)
	if err != nil {
		if after := e.snap(); after != before {
			run.Violate("valcache:error_changed_cache", fmt.Sprintf("%s returned %v and the cache changed from %s to %s", name, err, before, after))
		}
		if errClass(err) == "err:nocache" && (e.wired || e.cl == nil) {
			run.Violate("valcache:wired_cache_not_reached", name+" (stack "+e.stack+") says there is no validator cache after SetValidatorCache(valCache.GetByHead)")
		}
		run.Count("stack:" + errClass(err))
		return errClass(err) + " q=" + qStr(calls)
	}
	if e.cl != nil && !e.wired {
		run.Violate("valcache:answer_before_cache_was_wired", name+" answered before SetValidatorCache")
	}
	e.judge(run, name+" (stack "+e.stack+")", a, c, active, !active, calls)
	run.Count("stack:ok:q=" + qStr(calls))
	if active {
		return "ok/" + showA(a) + " q=" + qStr(calls)
	}
	return "ok/" + showC(c) + " q=" + qStr(calls)
}

func b2s(b bool) string {
	if b {
		return "1"
	}
	return "0"
}

func (e *episode) doSlot(run *hx.Run, s uint64) (string, bool, error, eth2wrap.ActiveValidators) {
	before := e.snap()
	a, c, refreshed, err := e.vc.GetBySlot(ctxTag("s"), s)
	calls := e.takeLog()
	e.checkQuery(run)
	after := e.snap()
	// the query protocol: by slot first, "head" only after a failure of that
	want := []string{strconv.FormatUint(s, 10)}
	if len(calls) > 0 && !calls[0].ok {
		want = append(want, "head")
	}
	if got := qStr(calls); got != strings.Join(want, "+") {
		run.Violate("valcache:slot_query_protocol", fmt.Sprintf("GetBySlot(%d) asked the node for %s, expected %s", s, got, strings.Join(want, "+")))
	} else if refreshed != calls[0].ok {
		run.Violate("valcache:refreshed_by_slot_flag_wrong", fmt.Sprintf("GetBySlot(%d): by-slot query ok=%v but refreshedBySlot=%v", s, calls[0].ok, refreshed))
	}
	if err != nil {
		if after != before {
			run.Violate("valcache:head_cache_polluted_by_slot_query", fmt.Sprintf("GetBySlot(%d) returned %v and what GetByHead serves changed from %s to %s", s, err, before, after))
		}
	} else {
		e.judge(run, fmt.Sprintf("GetBySlot(%d)", s), a, c, true, true, calls)
		exp := "S=a:" + showA(a) + ";c:" + showC(c)
		if c == nil {
			exp = "S=a:" + showA(a) + ";c:nil"
		}
		if after != exp {
			run.Violate("valcache:slot_refresh_not_stored", fmt.Sprintf("GetBySlot(%d) returned %s but the cache holds %s", s, exp, after))
		}
		e.heldA, e.heldC, e.held = a, c, true
	}
	run.Count("slot:" + strings.SplitN(showRes(a, c, err), "/", 2)[0] + ":r=" + b2s(refreshed))
	return showRes(a, c, err) + " r=" + b2s(refreshed) + " q=" + qStr(calls), refreshed, err, a
}

func (e *episode) doTrim(run *hx.Run) {
	e.vc.Trim()
	e.trimSinceFetch = true
	e.mutSinceFetch = false
	if s := e.snap(); s != "S=a:nil;c:nil" {
		run.Violate("valcache:trim_left_entries", "after Trim the cache holds "+s)
	}
}

// doRefresh is the slot subscriber of app/app.go (the closure passed to sched.SubscribeSlots next to the cache's
// construction), statement for statement; pinnedWiring is its text, compared with app.go once per run.
func (e *episode) doRefresh(run *hx.Run, slot uint64) string {
	first := slot%spe == 0
	if !first && !e.firstCacheRefresh && e.refreshedBySlot {
		return "skip"
	}
	var slotToFetch uint64
	if !e.refreshedBySlot {
		slotToFetch = (slot / spe) * spe
	} else {
		slotToFetch = slot
	}
	e.doTrim(run)
	out, refresh, err, _ := e.doSlot(run, slotToFetch)
	if err != nil {
		return fmt.Sprintf("f=%d %s", slotToFetch, out)
	}
	e.refreshedBySlot = refresh
	e.firstCacheRefresh = false
	return fmt.Sprintf("f=%d %s", slotToFetch, out)
}

func (e *episode) doMut(run *hx.Run, f []string) string {
	onActive := f[1] == "adel" || f[1] == "aadd"
	if !e.held || (!onActive && e.heldC == nil) || (onActive && e.heldA == nil) {
		return "nohandle"
	}
	switch f[1] {
	case "adel":
		delete(e.heldA, eth2p0.ValidatorIndex(u64(f[2])))
	case "aadd":
		e.heldA[eth2p0.ValidatorIndex(u64(f[2]))] = pkBytes(u64(f[3]))
	case "cstat":
		if v := e.heldC[eth2p0.ValidatorIndex(u64(f[2]))]; v != nil {
			v.Status = eth2v1.ValidatorState(statusCode(f[3]))
		}
	case "cdel":
		delete(e.heldC, eth2p0.ValidatorIndex(u64(f[2])))
	default:
		panic(opError("bad mut"))
	}
	e.mutSinceFetch = true
	return "ok"
}

// ---------- scheduler episodes ----------

// schedClient is the client the Scheduler gets: validators through the stack (exactly as wired in app.go: the
// stack's valCache is valCache.GetByHead), duties from the scripted node.
type schedClient struct {
	eth2wrap.Client // nil: the scheduler must not need anything else while handling a slot
	e               *episode
	slot            uint64
	errs            *[]error // what CompleteValidators returned to the scheduler
}

func (s schedClient) ActiveValidators(ctx context.Context) (eth2wrap.ActiveValidators, error) {
	if s.e.cl == nil {
		a, _, err := s.e.vc.GetByHead(ctx)
		return a, err
	}
	return s.e.cl.ActiveValidators(ctx)
}

func (s schedClient) CompleteValidators(ctx context.Context) (c eth2wrap.CompleteValidators, err error) {
	if s.e.cl == nil {
		_, c, err = s.e.vc.GetByHead(ctx)
	} else {
		c, err = s.e.cl.CompleteValidators(ctx)
	}
	*s.errs = append(*s.errs, err)
	return c, err
}

func (s schedClient) AttesterDutiesCache(_ context.Context, _ eth2p0.Epoch, vidxs []eth2p0.ValidatorIndex) (eth2wrap.AttesterDutyWithMeta, error) {
	var out []*eth2v1.AttesterDuty
	for _, v := range vidxs {
		pk, ok := s.e.pkOfKey[uint64(v)]
		if !ok {
			continue
		}
		out = append(out, &eth2v1.AttesterDuty{PubKey: pkBytes(pk), Slot: eth2p0.Slot(s.slot), ValidatorIndex: v,
			CommitteeIndex: 1, CommitteeLength: 16, CommitteesAtSlot: 2, ValidatorCommitteeIndex: uint64(v) % 16})
	}
	return eth2wrap.AttesterDutyWithMeta{Duties: out}, nil
}

func (schedClient) ProposerDutiesCache(context.Context, eth2p0.Epoch, []eth2p0.ValidatorIndex) (eth2wrap.ProposerDutyWithMeta, error) {
	return eth2wrap.ProposerDutyWithMeta{}, nil
}

func (schedClient) SyncCommDutiesCache(context.Context, eth2p0.Epoch, []eth2p0.ValidatorIndex) (eth2wrap.SyncDutyWithMeta, error) {
	return eth2wrap.SyncDutyWithMeta{}, nil
}

type trigRec struct {
	duty core.Duty
	set  core.DutyDefinitionSet
}

func (e *episode) doSched(run *hx.Run, slot uint64) string {
	ctx, cancel := context.WithCancel(ctxTag("p"))
	defer cancel()
	slotTime := genesis.Add(time.Duration(slot) * 12 * time.Second)
	trigs := make(chan trigRec, 64)
	delay := func(core.Duty, time.Time) <-chan time.Time {
		ch := make(chan time.Time, 1)
		ch <- slotTime
		return ch
	}
	var cvErrs []error
	s, err := scheduler.NewVerif(clockwork.NewFakeClockAt(slotTime), delay, nil, schedClient{e: e, slot: slot, errs: &cvErrs}, false)
	hx.Must(err)
	s.SubscribeDuties(func(_ context.Context, duty core.Duty, set core.DutyDefinitionSet) error {
		trigs <- trigRec{duty, set}
		return nil
	})
	s.HandleSlotVerif(ctx, core.Slot{Slot: slot, Time: slotTime, SlotDuration: 12 * time.Second, SlotsPerEpoch: spe})
	calls := e.takeLog()
	e.checkQuery(run)
	checkHeadQuery(run, "scheduler", calls)
	want := 0
	for d := range s.SnapshotVerif().Duties {
		if d.Slot == slot {
			want++
		}
	}
	var att core.DutyDefinitionSet
	timeout := time.After(60 * time.Second)
	for got := 0; got < want; got++ {
		select {
		case t := <-trigs:
			if t.duty.Type == core.DutyAttester {
				att = t.set
			}
		case <-timeout:
			run.Violate("valcache:sched_trigger_waited_timeout", fmt.Sprintf("slot %d: %d of %d duty triggers arrived within 60 s", slot, got, want))
			got = want
		}
	}
	type kp struct{ key, pk uint64 }
	var vs []kp
	for _, def := range att {
		ad, ok := def.(core.AttesterDefinition)
		if !ok {
			panic(opError("attester definition expected"))
		}
		vs = append(vs, kp{uint64(ad.ValidatorIndex), pkID(ad.PubKey)})
	}
	sort.Slice(vs, func(i, j int) bool { return vs[i].key < vs[j].key })
	// the property itself (C15: no duty for an inactive / foreign validator, none of the active ones skipped),
	// judged against the node's most recent well-formed answer and the rule of resolveActiveValidators
	epoch := slot / spe
	if len(cvErrs) != 1 {
		run.Violate("valcache:scheduler_validator_queries", fmt.Sprintf("slot %d: the scheduler asked for the complete validators %d times while resolving one epoch", slot, len(cvErrs)))
	}
	var cvErr error
	if len(cvErrs) > 0 {
		cvErr = cvErrs[0]
	}
	if cvErr != nil && errClass(cvErr) == "err:nocache" && (e.wired || e.cl == nil) {
		run.Violate("valcache:wired_cache_not_reached", fmt.Sprintf("scheduler, slot %d: CompleteValidators (stack %s) says there is no validator cache after SetValidatorCache(valCache.GetByHead)", slot, e.stack))
	}
	if cvErr != nil && len(vs) > 0 {
		run.Violate("valcache:duty_after_validators_error", fmt.Sprintf("scheduler, slot %d: duties triggered although CompleteValidators failed: %v", slot, cvErr))
	}
	if ref := e.ref; ref != nil && cvErr == nil && len(cvErrs) == 1 {
		stale := ""
		fetched := false
		for _, cl := range calls {
			if cl.ok && cl.formed {
				fetched = true
			}
		}
		if !fetched && e.trimSinceFetch {
			stale = "valcache:stale_after_trim"
			run.Violate(stale, fmt.Sprintf("scheduler, slot %d: the epoch was resolved from an answer served after Trim without asking the beacon node again", slot))
		}
		blame := func(sig, descr string) {
			switch {
			case e.mutSinceFetch:
				_ = descr
				run.Count("observed:shared_map_mutated")
			case stale != "":
			default:
				run.Violate(sig, fmt.Sprintf("scheduler, slot %d: %s", slot, descr))
			}
		}
		byKey := map[uint64]entry{}
		for _, en := range ref.es {
			byKey[en.key] = en
		}
		trig := map[uint64]bool{}
		for _, v := range vs {
			trig[v.key] = true
			en, ok := byKey[v.key]
			switch {
			case !e.isPk[v.pk] && !ref.raw:
				blame("valcache:foreign_validator", fmt.Sprintf("attester duty triggered for validator %d with pubkey %d which is not a cluster validator", v.key, v.pk))
			case !ok || en.pk != v.pk:
				blame("valcache:duty_for_inactive_validator", fmt.Sprintf("attester duty triggered for validator %d:%d which is not in the node's last answer", v.key, v.pk))
			case !eth2v1.ValidatorState(en.status).IsActive() && en.act != epoch:
				blame("valcache:duty_for_inactive_validator", fmt.Sprintf("attester duty triggered for validator %d (status %s, activation epoch %d, epoch %d)", v.key, statusNames[en.status], en.act, epoch))
			}
		}
		{
			for _, en := range ref.es {
				if (eth2v1.ValidatorState(en.status).IsActive() || en.act == epoch) && !trig[en.key] {
					blame("valcache:active_missing", fmt.Sprintf("validator %d (status %s) was assigned an attester duty and none was triggered", en.key, statusNames[en.status]))
				}
			}
		}
	} else if e.ref == nil && cvErr == nil && len(cvErrs) == 1 {
		run.Violate("valcache:served_without_fetch_before_first_call", fmt.Sprintf("scheduler, slot %d: the epoch was resolved although the beacon node never answered", slot))
	}
	p := make([]string, len(vs))
	for i, v := range vs {
		p[i] = fmt.Sprintf("%d:%d", v.key, v.pk)
	}
	run.Count(fmt.Sprintf("sched:triggered=%d", len(vs)))
	run.Case(fmt.Sprintf("sched:stack=%s:triggered=%d:q=%s", e.stack, len(vs), qStr(calls)))
	return "V[" + strings.Join(p, ",") + "] q=" + qStr(calls)
}

// ---------- races ----------

func (e *episode) doRace(run *hx.Run, kind string, yieldA, yieldB, yieldBN int) (string, bool) {
	var (
		wg     sync.WaitGroup
		ra, rb string
		start  = make(chan struct{})
	)
	e.takeLog()
	e.bnMu.Lock()
	e.inRace, e.raceYield = true, yieldBN
	e.bnMu.Unlock()
	wg.Add(2)
	go func() {
		defer wg.Done()
		<-start
		for i := 0; i < yieldA; i++ {
			runtime.Gosched()
		}
		a, c, err := e.vc.GetByHead(ctxTag("a"))
		ra = showRes(a, c, err)
	}()
	go func() {
		defer wg.Done()
		<-start
		for i := 0; i < yieldB; i++ {
			runtime.Gosched()
		}
		switch {
		case kind == "hh":
			a, c, err := e.vc.GetByHead(ctxTag("b"))
			rb = showRes(a, c, err)
		case kind == "ht":
			e.vc.Trim()
			rb = "done"
		default:
			s := u64(strings.TrimPrefix(kind, "hs:"))
			a, c, refreshed, err := e.vc.GetBySlot(ctxTag("b"), s)
			rb = showRes(a, c, err) + "/r" + b2s(refreshed)
		}
	}()
	close(start)
	done := make(chan struct{})
	go func() { wg.Wait(); close(done) }()
	select {
	case <-done:
	case <-time.After(60 * time.Second):
		run.Violate("valcache:race_blocked_timeout", "racing calls ("+kind+") did not return within 60 s")
		return "race " + kind + " a=? b=? o=? s=?", false
	}
	e.bnMu.Lock()
	e.inRace = false
	e.bnMu.Unlock()
	calls := e.takeLog()
	e.checkQuery(run)
	order := ""
	for _, c := range calls {
		order += c.tag
	}
	if order == "" {
		order = "-"
	}
	// the caller drops the maps it held; whether a Trim came after the last fetch is read off the cache
	e.heldA, e.heldC, e.held = nil, nil, false
	a, _ := e.vc.VerifSnapshot()
	if kind == "ht" {
		e.trimSinceFetch = a == nil
	}
	run.Count("race:" + strings.SplitN(kind, ":", 2)[0] + ":o=" + order)
	run.Case("race:" + strings.SplitN(kind, ":", 2)[0] + ":" + order + ":" + strings.SplitN(ra, "/", 2)[0] + ":" + strings.SplitN(rb, "/", 2)[0])
	return fmt.Sprintf("race %s a=%s b=%s o=%s s=%s", kind, ra, rb, order, strings.TrimPrefix(e.snap(), "S=")), true
}

// ---------- op parsing ----------

func u64(s string) uint64 {
	v, err := strconv.ParseUint(s, 10, 64)
	if err != nil {
		panic(opError("bad number " + s))
	}
	return v
}

func parseEntries(s string) []entry {
	if s == "-" {
		return nil
	}
	var out []entry
	for _, it := range strings.Split(s, ",") {
		f := strings.Split(it, ":")
		switch {
		case len(f) == 2 && f[1] == "nil":
			out = append(out, entry{key: u64(f[0]), bad: 1})
		case len(f) == 2 && f[1] == "nv":
			out = append(out, entry{key: u64(f[0]), bad: 2})
		case len(f) == 5:
			sv := strings.Split(f[3], "/")
			out = append(out, entry{key: u64(f[0]), idx: u64(f[1]), pk: u64(f[2]), status: statusCode(sv[0]), act: u64(f[4])})
		default:
			panic(opError("bad entry " + it))
		}
	}
	return out
}

func entriesStr(es []entry) string {
	if len(es) == 0 {
		return "-"
	}
	p := make([]string, len(es))
	for i, en := range es {
		switch en.bad {
		case 1:
			p[i] = fmt.Sprintf("%d:nil", en.key)
		case 2:
			p[i] = fmt.Sprintf("%d:nv", en.key)
		default:
			// the verdict is the real IsActive() of go-eth2-client; the model has its own table
			p[i] = fmt.Sprintf("%d:%d:%d:%s/%s:%d", en.key, en.idx, en.pk, statusNames[en.status],
				b2s(eth2v1.ValidatorState(en.status).IsActive()), en.act)
		}
	}
	return strings.Join(p, ",")
}

func pksStr(p []uint64) string {
	if len(p) == 0 {
		return "-"
	}
	s := make([]string, len(p))
	for i, v := range p {
		s[i] = strconv.FormatUint(v, 10)
	}
	return strings.Join(s, ",")
}

func main() {
	a := hx.ParseArgs()
	hx.Must(log.InitLogger(log.Config{Level: "error", Format: "console", Color: "disable"}))
	hx.Must(featureset.Init(context.Background(), featureset.Config{MinStatus: "stable",
		Disabled: []string{string(featureset.FetchAttOnBlock), string(featureset.FetchAttOnBlockWithDelay), string(featureset.DisableDutiesCache)}}))
	run := hx.NewRun(a.Dir)
	defer run.Close()
	checkWiring(run)
	var ep *episode
	dead := false
	exec := func(op string) {
		defer func() {
			r := recover()
			if r == nil {
				return
			}
			if _, mine := r.(opError); mine {
				panic(r)
			}
			buf := make([]byte, 4096)
			buf = buf[:runtime.Stack(buf, false)]
			run.Violate("valcache:panic", fmt.Sprintf("%v | %s", r, strings.ReplaceAll(string(buf), "\n", " | ")))
			run.Op(op, "<panic>")
			dead = true
		}()
		f := strings.Fields(op)
		if f[0] == "cfg" {
			var pks []uint64
			if f[2] != "-" {
				for _, s := range strings.Split(f[2], ",") {
					pks = append(pks, u64(s))
				}
			}
			ep = newEpisode(f[1], pks)
			run.Count("cfg:stack=" + f[1])
			run.Op(op, "ok")
			return
		}
		if ep == nil {
			panic(opError("op before cfg: " + op))
		}
		e := ep
		out := ""
		switch f[0] {
		case "wire":
			if e.cl != nil {
				e.cl.SetValidatorCache(e.vc.GetByHead)
			}
			e.wired = true
			out = "ok"
		case "bnset":
			es := parseEntries(f[3])
			// the op is rewritten with the real IsActive() verdicts (exec mode: whatever the file said)
			op = fmt.Sprintf("bnset %s %s %s", f[1], f[2], entriesStr(es))
			e.bnMu.Lock()
			e.states[f[1]] = &ansSpec{mode: f[2], es: es}
			for _, en := range es {
				if en.bad == 0 {
					e.pkOfKey[en.key] = en.pk
				}
			}
			e.bnMu.Unlock()
			run.Count("bnset:" + f[2])
			out = "ok"
		case "bnfail":
			var bits []bool
			if f[1] != "-" {
				for _, c := range f[1] {
					bits = append(bits, c == '1')
				}
			}
			e.bnMu.Lock()
			e.failq = bits
			e.bnMu.Unlock()
			out = "ok"
		case "head":
			out = e.doHead(run)
		case "active":
			out = e.viaStack(run, true)
		case "complete":
			out = e.viaStack(run, false)
		case "slot":
			out, _, _, _ = e.doSlot(run, u64(f[1]))
		case "trim":
			e.doTrim(run)
			out = "ok"
		case "refresh":
			out = e.doRefresh(run, u64(f[1]))
			if out == "skip" {
				run.Count("refresh:skip")
			} else {
				run.Count("refresh:" + strings.SplitN(strings.SplitN(out, " ", 3)[1], "/", 2)[0])
			}
		case "mut":
			out = e.doMut(run, f)
			run.Count("mut:" + f[1] + ":" + out)
		case "sched":
			if u64(f[1])%spe == spe-1 {
				panic(opError("sched on the last slot of an epoch is not generated"))
			}
			out = e.doSched(run, u64(f[1]))
		case "race":
			ya, yb, yn := 0, 0, 0
			if raceRng != nil {
				ya, yb, yn = raceRng.Intn(4), raceRng.Intn(4), raceRng.Intn(6)
			}
			line, ok := e.doRace(run, f[1], ya, yb, yn)
			op = line
			if !ok {
				run.Op(op, "<stuck>")
				dead = true
				return
			}
			out = "ok"
		default:
			panic(opError("bad op " + op))
		}
		run.Op(op, out+" | "+e.digest())
	}
	if a.Mode == "exec" {
		raceRng = hx.NewRng(a.Seed)
		for _, op := range hx.ReadOps(a.Ops) {
			if dead {
				break
			}
			exec(op)
		}
		return
	}
	rng := hx.NewRng(a.Seed)
	raceRng = rng
	for run.NOps < a.N && !run.Enough() && !dead {
		generateEpisode(rng, run, exec, func() *episode { return ep }, &dead)
	}
}

var raceRng *hx.Rng

// opError: a malformed op (the driver's own complaint, never the implementation's).
type opError string
