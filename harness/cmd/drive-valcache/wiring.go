package main

import (
	"bytes"
	"go/ast"
	"go/parser"
	"go/printer"
	"go/token"
	"os"
	"path/filepath"
	"reflect"
	"runtime"
	"strings"

	"github.com/obolnetwork/charon/app/eth2wrap"

	"verifharness/hx"
)

// The cache is created, wired into the clients and refreshed by statements of app/app.go (wireCoreWorkflow) that
// cannot be called from outside: the driver wires its cache the same way (newEpisode, op wire) and replays the slot
// subscriber statement for statement (doRefresh). pinnedWiring is the text of those statements (every statement
// of the function body that mentions valCache, firstCacheRefresh, refreshedBySlot or shouldUpdateCache, comments
// dropped, gofmt layout); the driver compares it with the app.go of the tree it was built against.
const pinnedWiring = `valCache := eth2wrap.NewValidatorCache(eth2Cl, eth2Pubkeys)
eth2Cl.SetValidatorCache(valCache.GetByHead)
firstCacheRefresh := true
refreshedBySlot := true
shouldUpdateCache := func(slot core.Slot, lock *sync.RWMutex) bool {
	lock.RLock()
	defer lock.RUnlock()
	if !slot.FirstInEpoch() && !firstCacheRefresh && refreshedBySlot {
		return false
	}
	return true
}
sched.SubscribeSlots(func(ctx context.Context, slot core.Slot) error {
	if !shouldUpdateCache(slot, &fvcrLock) {
		return nil
	}
	fvcrLock.Lock()
	defer fvcrLock.Unlock()
	ctx = log.WithCtx(ctx, z.Bool("first_refresh", firstCacheRefresh))
	log.Info(ctx, "Refreshing validator cache")
	var slotToFetch uint64
	if !refreshedBySlot {
		slotToFetch = slot.Epoch() * slot.SlotsPerEpoch
	} else {
		slotToFetch = slot.Slot
	}
	valCache.Trim()
	if !featureset.Enabled(featureset.DisableDutiesCache) {
		dutiesCache.Trim(eth2p0.Epoch(slot.Epoch()))
	}
	activeValidators, _, refresh, err := valCache.GetBySlot(ctx, slotToFetch)
	if err != nil {
		log.Error(ctx, "Failed to refresh validator cache", err)
		return err
	}
	if !featureset.Enabled(featureset.DisableDutiesCache) {
		dutiesCache.UpdateActiveValIndices(activeValidators.Indices())
	}
	refreshedBySlot = refresh
	firstCacheRefresh = false
	return nil
})
submissionEth2Cl.SetValidatorCache(valCache.GetByHead)
`

// repoRoot: the source tree this binary was built against (from the file name recorded for a function of it).
func repoRoot() string {
	f := runtime.FuncForPC(reflect.ValueOf(eth2wrap.NewValidatorCache).Pointer())
	if f == nil {
		return ""
	}
	file, _ := f.FileLine(f.Entry())
	// <root>/app/eth2wrap/cache.go
	return filepath.Dir(filepath.Dir(filepath.Dir(file)))
}

func wiringText(root string) (string, error) {
	src, err := os.ReadFile(filepath.Join(root, "app", "app.go"))
	if err != nil {
		return "", err
	}
	fset := token.NewFileSet()
	file, err := parser.ParseFile(fset, "app.go", src, 0) // comments are not kept
	if err != nil {
		return "", err
	}
	var out bytes.Buffer
	words := []string{"valCache", "firstCacheRefresh", "refreshedBySlot", "shouldUpdateCache"}
	for _, d := range file.Decls {
		fn, ok := d.(*ast.FuncDecl)
		if !ok || fn.Body == nil {
			continue
		}
		for _, st := range fn.Body.List {
			var b bytes.Buffer
			if err := (&printer.Config{Mode: printer.UseSpaces | printer.TabIndent, Tabwidth: 8}).Fprint(&b, token.NewFileSet(), st); err != nil {
				return "", err
			}
			txt := b.String()
			hit := false
			for _, w := range words {
				if strings.Contains(txt, w) {
					hit = true
				}
			}
			if !hit {
				continue
			}
			// blank lines carry no meaning
			for _, l := range strings.Split(txt, "\n") {
				if strings.TrimSpace(l) != "" {
					out.WriteString(l)
					out.WriteString("\n")
				}
			}
		}
	}
	return out.String(), nil
}

func checkWiring(run *hx.Run) {
	root := repoRoot()
	txt, err := wiringText(root)
	if err != nil {
		run.Count("wiring:source-unavailable")
		return
	}
	if os.Getenv("VALCACHE_DUMP_WIRING") != "" {
		os.Stderr.WriteString(txt)
	}
	if txt != pinnedWiring {
		a, b := strings.Split(pinnedWiring, "\n"), strings.Split(txt, "\n")
		where := "the end"
		for i := 0; i < len(a) && i < len(b); i++ {
			if a[i] != b[i] {
				where = "`" + strings.TrimSpace(b[i]) + "` (pinned: `" + strings.TrimSpace(a[i]) + "`)"
				break
			}
		}
		run.Violate("valcache:app_wiring_differs_from_replica", "app/app.go creates / wires / refreshes the validator cache differently from the driver's replica, first at "+where)
		return
	}
	run.Count("wiring:matches")
}
