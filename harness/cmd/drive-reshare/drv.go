package main

import (
	"bytes"
	"context"
	"encoding/json"
	"fmt"
	"os"
	"path/filepath"
	"sort"
	"strconv"
	"strings"
	"time"

	k1 "github.com/decred/dcrd/dcrec/secp256k1/v4"
	"github.com/libp2p/go-libp2p"
	"github.com/libp2p/go-libp2p/core/host"
	"github.com/libp2p/go-libp2p/core/peer"

	"github.com/obolnetwork/charon/app/eth1wrap"
	"github.com/obolnetwork/charon/app/k1util"
	"github.com/obolnetwork/charon/cluster"
	"github.com/obolnetwork/charon/cmd"
	"github.com/obolnetwork/charon/dkg"
	"github.com/obolnetwork/charon/eth2util"
	"github.com/obolnetwork/charon/eth2util/enr"
	"github.com/obolnetwork/charon/p2p"
	"github.com/obolnetwork/charon/tbls"

	"verifharness/hx"
)

const foreignBase = 100

// ident is one operator identity of the harness's table.
type ident struct {
	id  int
	key *k1.PrivateKey
	enr string
	pid peer.ID
	dir string // directory the operator runs from ("" for a foreign identity)
}

// clus is the cluster made by the last `clu`.
type clus struct {
	n, t, nv int
	dir      string
	lock     *cluster.Lock
	lockRaw  []byte
	sk       [][]tbls.PrivateKey // [operator][validator]
	G        []tbls.PublicKey    // group keys of the lock
	ids      map[int]*ident
	byPID    map[peer.ID]int
	byENR    map[string]int
	cerN     int
	last     *cerResult // result of the last cer, nil unless it succeeded
}

type drv struct {
	run     *hx.Run
	scratch string
	host    host.Host
	c       *clus
	cluN    int
}

func newDrv(run *hx.Run, scratch string) *drv {
	_ = os.RemoveAll(scratch)
	hx.Must(os.MkdirAll(scratch, 0o755))
	h, err := libp2p.New(libp2p.NoListenAddrs)
	hx.Must(err)
	return &drv{run: run, scratch: scratch, host: h}
}

// newCluster runs the real `charon create cluster` and loads what it wrote.
func (d *drv) newCluster(n, t, nv int) {
	_ = os.RemoveAll(d.scratch)
	hx.Must(os.MkdirAll(d.scratch, 0o755))
	d.cluN++
	dir := filepath.Join(d.scratch, fmt.Sprintf("clu%d", d.cluN))
	hx.Must(os.MkdirAll(dir, 0o755))
	args := []string{
		"create", "cluster",
		"--cluster-dir", dir,
		"--nodes", strconv.Itoa(n),
		"--threshold", strconv.Itoa(t),
		"--num-validators", strconv.Itoa(nv),
		"--network", eth2util.Hoodi.Name,
		"--fee-recipient-addresses", "0x0000000000000000000000000000000000000000",
		"--withdrawal-addresses", "0x0000000000000000000000000000000000000000",
		"--insecure-keys",
	}
	root := cmd.New()
	root.SetArgs(args)
	var out bytes.Buffer
	root.SetOut(&out)
	root.SetErr(&out)
	ctx, cancel := context.WithTimeout(context.Background(), 5*time.Minute)
	defer cancel()
	if err := root.ExecuteContext(ctx); err != nil {
		panic(fmt.Sprintf("create cluster %d %d %d: %v", n, t, nv, err))
	}
	initLog() // the command re-initialises the logger from its flags

	c := &clus{n: n, t: t, nv: nv, dir: dir, ids: map[int]*ident{}, byPID: map[peer.ID]int{}, byENR: map[string]int{}}
	eth1 := eth1wrap.NewDefaultEthClientRunner("")
	lp := filepath.Join(dir, "node0", "cluster-lock.json")
	raw, err := os.ReadFile(lp)
	hx.Must(err)
	c.lockRaw = raw
	c.lock, err = cluster.LoadClusterLock(context.Background(), lp, false, eth1)
	hx.Must(err)
	if len(c.lock.Operators) != n || c.lock.Threshold != t || len(c.lock.Validators) != nv {
		panic("create cluster made another shape")
	}
	for i := 0; i < n; i++ {
		nd := filepath.Join(dir, fmt.Sprintf("node%d", i))
		key, err := k1util.Load(p2p.KeyPath(nd))
		hx.Must(err)
		id := c.addIdent(i, key, nd)
		if id.enr != c.lock.Operators[i].ENR {
			panic("p2p key of node dir does not match the lock's operator ENR")
		}
		sk, err := dkg.LoadSecrets(filepath.Join(nd, "validator_keys"))
		hx.Must(err)
		if len(sk) != nv {
			panic("keystore count")
		}
		c.sk = append(c.sk, sk)
	}
	for k := 0; k < nv; k++ {
		var g tbls.PublicKey
		copy(g[:], c.lock.Validators[k].PubKey)
		c.G = append(c.G, g)
		// sanity: the shares of the lock interpolate to the group key
		m := map[int]tbls.PrivateKey{}
		for i := 0; i < t; i++ {
			m[i+1] = c.sk[i][k]
		}
		x, err := tbls.RecoverSecret(m, uint(n), uint(t))
		hx.Must(err)
		pk, err := tbls.SecretToPublicKey(x)
		hx.Must(err)
		if pk != g {
			panic("create cluster: shares do not interpolate to the group key")
		}
	}
	d.c = c
}

func (c *clus) addIdent(id int, key *k1.PrivateKey, dir string) *ident {
	rec, err := enr.New(key)
	hx.Must(err)
	pid, err := p2p.PeerIDFromKey(key.PubKey())
	hx.Must(err)
	it := &ident{id: id, key: key, enr: rec.String(), pid: pid, dir: dir}
	c.ids[id] = it
	c.byPID[pid] = id
	c.byENR[it.enr] = id
	return it
}

// ident returns the identity of id; fresh and foreign ones are created on first use.
func (c *clus) ident(id int) *ident {
	if it, ok := c.ids[id]; ok {
		return it
	}
	if id < c.n {
		panic("missing operator identity")
	}
	key, err := k1.GeneratePrivateKey()
	hx.Must(err)
	dir := ""
	if id < foreignBase { // a fresh operator is handed the lock
		dir = filepath.Join(filepath.Dir(c.dir), fmt.Sprintf("%s-fresh%d", filepath.Base(c.dir), id))
		hx.Must(os.MkdirAll(dir, 0o755))
		hx.Must(k1util.Save(key, p2p.KeyPath(dir)))
		hx.Must(os.WriteFile(filepath.Join(dir, "cluster-lock.json"), c.lockRaw, 0o644))
	}
	return c.addIdent(id, key, dir)
}

func (c *clus) enrs(ids []int) []string {
	var out []string
	for _, id := range ids {
		out = append(out, c.ident(id).enr)
	}
	return out
}

// cloneLock: every call of the real code gets its own lock value.
func (c *clus) cloneLock() *cluster.Lock {
	var l cluster.Lock
	hx.Must(json.Unmarshal(c.lockRaw, &l))
	return &l
}

// ---- spec

type spec struct {
	kind    string // reshare | add | rm | repl
	add     []int
	rm      []int
	part    []int
	newT    int
	old, nw int
	raw     string
}

func parseCSV(s string) ([]int, bool) {
	if s == "-" || s == "" {
		return nil, true
	}
	var out []int
	for _, f := range strings.Split(s, ",") {
		v, err := strconv.Atoi(f)
		if err != nil || v < 0 {
			return nil, false
		}
		out = append(out, v)
	}
	return out, true
}

func csv(ids []int) string {
	if len(ids) == 0 {
		return "-"
	}
	p := make([]string, len(ids))
	for i, v := range ids {
		p[i] = strconv.Itoa(v)
	}
	return strings.Join(p, ",")
}

func parseSpec(s string) (spec, bool) {
	sp := spec{raw: s}
	f := strings.Split(s, ":")
	sp.kind = f[0]
	var ok, ok2 bool
	switch {
	case s == "reshare":
		return sp, true
	case f[0] == "add" && len(f) == 2:
		sp.add, ok = parseCSV(f[1])
		return sp, ok
	case f[0] == "rm" && len(f) == 4:
		sp.rm, ok = parseCSV(f[1])
		sp.part, ok2 = parseCSV(f[2])
		t, err := strconv.Atoi(f[3])
		sp.newT = t
		return sp, ok && ok2 && err == nil
	case f[0] == "repl" && len(f) == 3:
		o, err := strconv.Atoi(f[1])
		w, err2 := strconv.Atoi(f[2])
		sp.old, sp.nw = o, w
		return sp, err == nil && err2 == nil && o >= 0 && w >= 0
	}
	return sp, false
}

func (sp spec) String() string {
	switch sp.kind {
	case "add":
		return "add:" + csv(sp.add)
	case "rm":
		return fmt.Sprintf("rm:%s:%s:%d", csv(sp.rm), csv(sp.part), sp.newT)
	case "repl":
		return fmt.Sprintf("repl:%d:%d", sp.old, sp.nw)
	}
	return "reshare"
}

func idClass(n, id int) string {
	switch {
	case id < n:
		return "o"
	case id < foreignBase:
		return "f"
	}
	return "x"
}

func distinct(l []int) bool {
	m := map[int]bool{}
	for _, v := range l {
		if m[v] {
			return false
		}
		m[v] = true
	}
	return true
}

func contains(l []int, v int) bool {
	for _, x := range l {
		if x == v {
			return true
		}
	}
	return false
}

// shape: the spec with identities reduced to their class (for run.Case).
func (sp spec) shape(n int) string {
	cl := func(ids []int) string {
		s := ""
		for _, id := range ids {
			s += idClass(n, id)
		}
		if !distinct(ids) {
			s += "!"
		}
		return s
	}
	switch sp.kind {
	case "add":
		return "add:" + cl(sp.add)
	case "rm":
		sorted := sort.IntsAreSorted(sp.part)
		return fmt.Sprintf("rm:%s:%s:%v:%d", cl(sp.rm), cl(sp.part), sorted, sp.newT)
	case "repl":
		return "repl:" + idClass(n, sp.old) + idClass(n, sp.nw) + fmt.Sprint(sp.old == sp.nw)
	}
	return "reshare"
}

func ceilThreshold(n int) int { return (2*n + 2) / 3 }

// valid: harness-side statement of the requests the protocols must carry out.
func (c *clus) valid(sp spec) bool {
	isOp := func(id int) bool { return id >= 0 && id < c.n }
	isFresh := func(id int) bool { return id >= c.n && id < foreignBase }
	switch sp.kind {
	case "reshare":
		return true
	case "add":
		if len(sp.add) == 0 || !distinct(sp.add) {
			return false
		}
		for _, id := range sp.add {
			if !isFresh(id) {
				return false
			}
		}
		return true
	case "repl":
		return isOp(sp.old) && isFresh(sp.nw) && c.n-1 >= c.t
	case "rm":
		if len(sp.rm) == 0 || !distinct(sp.rm) {
			return false
		}
		for _, id := range sp.rm {
			if !isOp(id) {
				return false
			}
		}
		newN := c.n - len(sp.rm)
		if newN < 1 {
			return false
		}
		holders := newN
		if len(sp.part) > 0 {
			if !distinct(sp.part) {
				return false
			}
			for _, id := range sp.part {
				if !isOp(id) {
					return false
				}
			}
			for i := 0; i < c.n; i++ {
				if !contains(sp.rm, i) && !contains(sp.part, i) {
					return false
				}
			}
			holders = len(sp.part)
		}
		if holders < c.t {
			return false
		}
		def := ceilThreshold(newN)
		if sp.newT != 0 && !(def <= sp.newT && sp.newT < newN) {
			return false
		}
		nt := sp.newT
		if nt == 0 {
			nt = def
		}
		return nt >= 1 && nt <= newN
	}
	return false
}

// thisClass: how `this` relates to the spec (for run.Case).
func (d *drv) thisClass(sp spec, this int) string {
	c := d.c
	s := idClass(c.n, this)
	if contains(d.participants(sp), this) {
		s += "p"
	}
	if (sp.kind == "rm" && contains(sp.rm, this)) || (sp.kind == "repl" && sp.old == this) {
		s += "r"
	}
	return s
}

// participants: who runs the protocol (ascending ids, foreign identities never run).
func (d *drv) participants(sp spec) []int {
	c := d.c
	var ids []int
	add := func(id int) {
		if id < foreignBase && !contains(ids, id) {
			ids = append(ids, id)
		}
	}
	switch sp.kind {
	case "reshare":
		for i := 0; i < c.n; i++ {
			add(i)
		}
	case "add":
		for i := 0; i < c.n; i++ {
			add(i)
		}
		for _, id := range sp.add {
			add(id)
		}
	case "rm":
		if len(sp.part) > 0 {
			for _, id := range sp.part {
				add(id)
			}
		} else {
			for i := 0; i < c.n; i++ {
				if !contains(sp.rm, i) {
					add(i)
				}
			}
		}
	case "repl":
		for i := 0; i < c.n; i++ {
			if i != sp.old {
				add(i)
			}
		}
		add(sp.nw)
	}
	sort.Ints(ids)
	return ids
}

// ---- plan

func errClass(err error) string {
	m := err.Error()
	for _, p := range [][2]string{
		{"participating ENR not found", "participating-not-found"},
		{"old operator not found in lock", "old-not-found"},
		{"duplicate peer ID found", "duplicate-peer"},
		{"unknown private key", "unknown-key"},
		{"new-threshold is invalid", "new-threshold-invalid"},
	} {
		if strings.Contains(m, p[0]) {
			return p[1]
		}
	}
	return "other:" + strings.Join(strings.Fields(m), "_")
}

func (c *clus) pidID(p peer.ID) string {
	if id, ok := c.byPID[p]; ok {
		return strconv.Itoa(id)
	}
	return "?"
}

func (c *clus) enrID(e string) string {
	if id, ok := c.byENR[e]; ok {
		return strconv.Itoa(id)
	}
	return "?"
}

func (c *clus) pidsStr(ps []peer.ID) string {
	if len(ps) == 0 {
		return "-"
	}
	var out []string
	for _, p := range ps {
		out = append(out, c.pidID(p))
	}
	return strings.Join(out, ",")
}

// mapStr renders a peer map as `id:peerIdx/shareIdx` sorted by id (unknown peers last).
func (c *clus) mapStr(m map[peer.ID]cluster.NodeIdx) string {
	if len(m) == 0 {
		return "-"
	}
	type ent struct {
		id  int
		str string
	}
	var es []ent
	for p, ni := range m {
		id, ok := c.byPID[p]
		if !ok {
			id = 1 << 30
		}
		es = append(es, ent{id, fmt.Sprintf("%s:%d/%d", c.pidID(p), ni.PeerIdx, ni.ShareIdx)})
	}
	sort.Slice(es, func(i, j int) bool {
		if es[i].id != es[j].id {
			return es[i].id < es[j].id
		}
		return es[i].str < es[j].str
	})
	var out []string
	for _, e := range es {
		out = append(out, e.str)
	}
	return strings.Join(out, ";")
}

func (d *drv) specArgs(sp spec) (newENRs, removing, participating []string, newT int, oldENR, newENR string) {
	c := d.c
	switch sp.kind {
	case "add":
		newENRs = c.enrs(sp.add)
	case "rm":
		removing = c.enrs(sp.rm)
		participating = c.enrs(sp.part)
		newT = sp.newT
	case "repl":
		oldENR = c.ident(sp.old).enr
		newENR = c.ident(sp.nw).enr
	}
	return
}

func (d *drv) plan(sp spec, this int) (out string) {
	c := d.c
	defer func() {
		if p := recover(); p != nil {
			out = "err other:panic"
		}
	}()
	me := c.ident(this)
	newENRs, removing, participating, newT, oldENR, newENR := d.specArgs(sp)
	ctx, cancel := context.WithCancel(context.Background())
	defer cancel()
	conf := dkg.Config{Timeout: 10 * time.Second}
	pl, err := dkg.VerifProtocolPlan(ctx, sp.kind, c.cloneLock(), me.key, d.host, conf, newENRs, removing, participating, newT, oldENR, newENR)
	if err != nil {
		return "err " + errClass(err)
	}
	var peers []string
	for _, p := range pl.Peers {
		peers = append(peers, c.pidID(p.ID))
	}
	ped := "-|0|0|0|-|-"
	if pc := pl.Pedersen; pc != nil {
		tot, nt, added, removed := 0, 0, "-", "-"
		if pc.Reshare != nil {
			tot, nt = pc.Reshare.TotalShares, pc.Reshare.NewThreshold
			added, removed = c.pidsStr(pc.Reshare.AddedPeers), c.pidsStr(pc.Reshare.RemovedPeers)
		}
		ped = fmt.Sprintf("%s|%d|%d|%d|%s|%s", c.mapStr(pc.PeerMap), pc.Threshold, tot, nt, added, removed)
	}
	ops := "-"
	if len(pl.UpdOperators) > 0 {
		var l []string
		for _, e := range pl.UpdOperators {
			l = append(l, c.enrID(e))
		}
		ops = strings.Join(l, ",")
	}
	return fmt.Sprintf("ok peers=%s pm=%s this=%d/%d ex=%s ped=%s steps=%s ops=%s ut=%d",
		strings.Join(peers, ","), c.mapStr(pl.PeerMap), pl.ThisNodeIdx.PeerIdx, pl.ThisNodeIdx.ShareIdx, b01(pl.HasExchanger),
		ped, strings.Join(pl.Steps, ""), ops, pl.UpdThreshold)
}

func b01(b bool) string {
	if b {
		return "1"
	}
	return "0"
}
