package main

import (
	"fmt"
	"sort"

	"verifharness/hx"
)

func pick(rng *hx.Rng, l []int) int { return l[rng.Intn(len(l))] }

func permuted(rng *hx.Rng, l []int) []int {
	out := make([]int, len(l))
	for i, j := range rng.Perm(len(l)) {
		out[i] = l[j]
	}
	return out
}

// subset of 0..n-1 of size k, ascending
func randSubset(rng *hx.Rng, n, k int) []int {
	s := append([]int(nil), rng.Perm(n)[:k]...)
	sort.Ints(s)
	return s
}

func without(n int, rm []int) []int {
	var out []int
	for i := 0; i < n; i++ {
		if !contains(rm, i) {
			out = append(out, i)
		}
	}
	return out
}

// validNewT: a threshold remove-operators accepts for n' remaining operators (0 if only the default is).
func validNewT(rng *hx.Rng, newN int) int {
	lo, hi := ceilThreshold(newN), newN-1
	if lo > hi || lo < 1 {
		return 0
	}
	return lo + rng.Intn(hi-lo+1)
}

// genRm: a remove-operators spec, valid or adversarial.
func genRm(rng *hx.Rng, n, t int) spec {
	sp := spec{kind: "rm"}
	r := 1 + rng.Intn(n-1)
	base := randSubset(rng, n, r)
	sp.rm = base
	switch x := rng.Intn(20); {
	case x < 11: // distinct lock operators
	case x < 13: // a foreign ENR among them
		sp.rm = append(append([]int(nil), base...), foreignBase+rng.Intn(2))
	case x < 15: // a repeated id
		sp.rm = append(append([]int(nil), base...), pick(rng, base))
	case x < 16: // all operators
		sp.rm = without(n, nil)
	case x < 17: // more ids than operators
		sp.rm = without(n, nil)
		for i := 0; i <= rng.Intn(2); i++ {
			if rng.Chance(1, 2) {
				sp.rm = append(sp.rm, foreignBase+i)
			} else {
				sp.rm = append(sp.rm, rng.Intn(n))
			}
		}
	case x < 18: // a fresh operator's ENR among them
		sp.rm = append(append([]int(nil), base...), n+rng.Intn(2))
	default: // two foreign ENRs more
		sp.rm = append(append([]int(nil), base...), foreignBase, foreignBase+1)
	}
	if rng.Chance(1, 3) {
		sp.rm = permuted(rng, sp.rm)
	}
	stay := without(n, sp.rm)
	var gone []int
	for i := 0; i < n; i++ {
		if contains(sp.rm, i) {
			gone = append(gone, i)
		}
	}
	withGone := func() []int { // the stayers and some of the removed ones, lock order
		p := append([]int(nil), stay...)
		for _, g := range gone {
			if rng.Chance(2, 3) {
				p = append(p, g)
			}
		}
		sort.Ints(p)
		return p
	}
	switch x := rng.Intn(20); {
	case x < 7: // no list
	case x < 11:
		sp.part = withGone()
	case x < 14:
		sp.part = permuted(rng, withGone())
	case x < 16: // a stayer is missing
		p := withGone()
		if len(stay) > 0 {
			miss := pick(rng, stay)
			var q []int
			for _, id := range p {
				if id != miss {
					q = append(q, id)
				}
			}
			p = q
		}
		sp.part = p
	case x < 18: // a foreign / fresh ENR
		p := withGone()
		id := foreignBase + rng.Intn(2)
		if rng.Chance(1, 3) {
			id = n + rng.Intn(2)
		}
		at := rng.Intn(len(p) + 1)
		sp.part = append(append(append([]int(nil), p[:at]...), id), p[at:]...)
	case x < 19: // a repeated id
		p := withGone()
		if len(p) > 0 {
			p = append(p, pick(rng, p))
		}
		sp.part = p
	default: // only removed ones
		sp.part = gone
	}
	newN := n - len(sp.rm)
	switch x := rng.Intn(20); {
	case x < 8:
	case x < 13:
		sp.newT = validNewT(rng, newN)
	case x < 15: // too low
		sp.newT = ceilThreshold(newN) - 1
	case x < 17: // = n'
		sp.newT = newN
	case x < 19: // > n'
		sp.newT = newN + 1 + rng.Intn(2)
	default:
		sp.newT = 1 + rng.Intn(n)
	}
	if sp.newT < 0 {
		sp.newT = 0
	}
	return sp
}

func genAdd(rng *hx.Rng, n int) spec {
	sp := spec{kind: "add"}
	k := 1 + rng.Intn(3)
	for i := 0; i < k; i++ {
		sp.add = append(sp.add, n+i)
	}
	switch x := rng.Intn(20); {
	case x < 11:
	case x < 13:
		sp.add = permuted(rng, sp.add)
	case x < 16: // an existing operator
		at := rng.Intn(len(sp.add) + 1)
		sp.add = append(append(append([]int(nil), sp.add[:at]...), rng.Intn(n)), sp.add[at:]...)
	case x < 18: // a repeated new ENR
		sp.add = append(sp.add, pick(rng, sp.add))
	default: // an ENR nobody runs
		sp.add = append(sp.add, foreignBase+rng.Intn(2))
	}
	return sp
}

func genRepl(rng *hx.Rng, n int) spec {
	sp := spec{kind: "repl", old: rng.Intn(n), nw: n + rng.Intn(2)}
	switch x := rng.Intn(20); {
	case x < 11:
	case x < 14:
		sp.old = foreignBase + rng.Intn(2)
	case x < 15:
		sp.old = n + rng.Intn(2)
	case x < 18: // an existing operator (may be the old one itself)
		sp.nw = rng.Intn(n)
	case x < 19:
		sp.nw = sp.old
	default:
		sp.nw = foreignBase + rng.Intn(2)
	}
	return sp
}

func genSpec(rng *hx.Rng, n, t int) spec {
	switch x := rng.Intn(20); {
	case x < 1:
		return spec{kind: "reshare"}
	case x < 5:
		return genAdd(rng, n)
	case x < 15:
		return genRm(rng, n, t)
	}
	return genRepl(rng, n)
}

func (d *drv) genThis(rng *hx.Rng, sp spec) int {
	n := d.c.n
	parts := d.participants(sp)
	var leaving []int
	if sp.kind == "rm" {
		for _, id := range sp.rm {
			if id < n {
				leaving = append(leaving, id)
			}
		}
	}
	if sp.kind == "repl" && sp.old < n {
		leaving = append(leaving, sp.old)
	}
	switch x := rng.Intn(20); {
	case x < 9 && len(parts) > 0:
		return pick(rng, parts)
	case x < 12:
		return rng.Intn(n)
	case x < 15 && len(leaving) > 0:
		return pick(rng, leaving)
	case x < 17:
		return n + rng.Intn(3)
	case x < 19:
		return foreignBase + rng.Intn(2)
	}
	return rng.Intn(n)
}

// validCer: a request of the given kind the protocols must carry out on an (n, t) cluster.
func validCer(rng *hx.Rng, kind string, n, t int, thorough bool) spec {
	switch kind {
	case "add":
		sp := spec{kind: "add"}
		k := 1 + rng.Intn(2)
		for i := 0; i < k; i++ {
			sp.add = append(sp.add, n+i)
		}
		if rng.Chance(1, 3) {
			sp.add = permuted(rng, sp.add)
		}
		return sp
	case "repl":
		if n-1 < t {
			return spec{kind: "reshare"}
		}
		return spec{kind: "repl", old: rng.Intn(n), nw: n + rng.Intn(2)}
	case "rm":
		sp := spec{kind: "rm"}
		r := 1 + rng.Intn(n-1)
		if !thorough && r > 2 {
			r = 2
		}
		sp.rm = randSubset(rng, n, r)
		if rng.Chance(1, 4) {
			sp.rm = permuted(rng, sp.rm)
		}
		newN := n - r
		stay := without(n, sp.rm)
		if newN < t || rng.Chance(1, 2) { // removed operators take part
			p := append([]int(nil), stay...)
			for _, g := range sp.rm {
				if len(p) < t || rng.Chance(1, 2) {
					p = append(p, g)
				}
			}
			sort.Ints(p)
			if len(p) > len(stay) {
				sp.part = p
			} else if rng.Chance(1, 2) {
				sp.part = p // the stayers, listed
			}
		}
		if rng.Chance(1, 2) {
			sp.newT = validNewT(rng, newN)
		}
		return sp
	}
	return spec{kind: "reshare"}
}

// refusedCer: a request every node refuses before any waiting.
func refusedCer(rng *hx.Rng, n, t int) spec {
	switch rng.Intn(6) {
	case 0:
		return spec{kind: "add", add: []int{n, rng.Intn(n)}}
	case 1:
		return spec{kind: "repl", old: foreignBase, nw: n}
	case 2:
		return spec{kind: "repl", old: rng.Intn(n), nw: rng.Intn(n)}
	case 3:
		rm := []int{rng.Intn(n)}
		p := without(n, rm)
		p = append(p, foreignBase)
		return spec{kind: "rm", rm: rm, part: p}
	case 4:
		rm := []int{rng.Intn(n)}
		return spec{kind: "rm", rm: rm, newT: n - 1} // = n'
	default:
		rm := []int{rng.Intn(n)}
		return spec{kind: "rm", rm: rm, newT: ceilThreshold(n-1) - 1}
	}
}

func gen(a hx.Args, run *hx.Run, d *drv, exec func(string)) {
	rng := hx.NewRng(a.Seed)
	thorough := a.Tier == "thorough"
	maxN, plans := 5, 40
	if thorough {
		maxN, plans = 7, 150
	}
	kinds := []string{"reshare", "add", "rm", "repl"}
	for ci := 0; ci < a.N && !run.Enough(); ci++ {
		// the kinds of this cluster's ceremonies: seed / cluster parity in the quick tier
		var cers []string
		if thorough {
			cers = []string{"reshare", "add", "rm", "repl"}
		} else {
			b := 2 * (int(a.Seed%2) + ci)
			cers = []string{kinds[b%4], kinds[(b+1)%4]}
		}
		n := 3 + rng.Intn(maxN-2)
		tmin := ceilThreshold(n)
		t := tmin + rng.Intn(n-tmin+1)
		if contains4(cers, "repl") && t > n-1 && rng.Chance(3, 4) { // replace needs t <= n-1
			t = n - 1
		}
		nv := 1 + rng.Intn(2)
		exec(fmt.Sprintf("clu %d %d %d", n, t, nv))
		for i := 0; i < plans; i++ {
			sp := genSpec(rng, n, t)
			this := d.genThis(rng, sp)
			exec(fmt.Sprintf("plan %s %d", sp, this))
		}
		var specs []spec
		for _, k := range cers {
			specs = append(specs, validCer(rng, k, n, t, thorough))
		}
		specs = append(specs, refusedCer(rng, n, t))
		for _, i := range rng.Perm(len(specs)) {
			sp := specs[i]
			// what every participant plans for the request that is about to run
			for _, id := range d.participants(sp) {
				if rng.Chance(1, 2) {
					exec(fmt.Sprintf("plan %s %d", sp, id))
				}
			}
			exec(fmt.Sprintf("cer %s %d", sp, rng.U64()%1000000))
			if d.c.last != nil {
				for k := 0; k < nv; k++ {
					exec(fmt.Sprintf("nsh %d", k))
				}
			}
		}
	}
}

func contains4(l []string, s string) bool {
	for _, x := range l {
		if x == s {
			return true
		}
	}
	return false
}
