// drive-reshare: correspondence driver for the cluster-changing protocols of dkg/ (protocol.go,
// protocol_reshare.go, protocol_addoperators.go, protocol_removeoperators.go, protocol_replaceoperator.go,
// protocolsteps.go): what every node decides before any networking (peers, peer map, PostInit state,
// steps: hook dkg/verif_export_reshare.go) and the REAL protocol run by all participating nodes in this
// process over loopback TCP on a cluster made by the REAL `charon create cluster`.
//
// Operator identities are small numbers: 0..n-1 operators of the cluster's lock (lock order), n.. fresh
// operators (valid ENR + p2p key, a directory with the key and a copy of the lock), >= 100 foreign ENRs
// (valid ENR + key, never in a lock, never run anything).
//
// ops:
//
//	clu <n> <t> <nv>        reset op: `charon create cluster` in process                    -> ok
//	plan <spec> <this>      dkg.VerifProtocolPlan on the cluster's lock for node `this`     -> plan line | err <class>
//	cer <spec> <sched>      the real protocol, all participants                             -> ok n= t= ops= idx= | err
//	nsh <k> <old> | <new>   secret shares of validator k before / after the last cer        -> xo= xn= do= dn= same=
//
// spec: reshare | add:<ids> | rm:<ids>:<part|->:<newT> | repl:<old>:<new>
package main

import (
	"fmt"
	"os"
	"path/filepath"
	"strconv"
	"strings"

	"github.com/obolnetwork/charon/app/log"

	"verifharness/hx"
)

func initLog() {
	hx.Must(log.InitLogger(log.Config{Level: "fatal", Format: "console", Color: "disable"}))
}

func main() {
	a := hx.ParseArgs()
	initLog()
	run := hx.NewRun(a.Dir)
	defer run.Close()
	d := newDrv(run, filepath.Join(a.Dir, "scratch"))
	defer d.cleanup()

	exec := func(op string) {
		f := strings.Fields(op)
		switch f[0] {
		case "clu":
			if len(f) != 4 {
				panic("bad op " + op)
			}
			n, _ := strconv.Atoi(f[1])
			t, _ := strconv.Atoi(f[2])
			nv, _ := strconv.Atoi(f[3])
			run.Begin(op)
			d.newCluster(n, t, nv)
			run.Count("clu")
			run.Case(fmt.Sprintf("clu:%d:%d:%d", n, t, nv))
			run.Op(op, "ok")
		case "plan":
			if d.c == nil {
				panic("op without cluster: " + op)
			}
			sp, ok := parseSpec(f[1])
			this, err := strconv.Atoi(f[2])
			if !ok || err != nil || this < 0 {
				run.Op(op, "bad-op")
				return
			}
			out := d.plan(sp, this)
			cls := strings.Fields(out)
			res := cls[0]
			if res == "err" {
				res += ":" + strings.SplitN(cls[1], ":", 2)[0]
			}
			run.Count("plan")
			run.Count("plan:" + sp.kind + ":" + res)
			run.Case(fmt.Sprintf("plan:%d:%d:%s:%s:%s", d.c.n, d.c.t, sp.shape(d.c.n), d.thisClass(sp, this), res))
			run.Op(op, out)
		case "cer":
			if d.c == nil {
				panic("op without cluster: " + op)
			}
			sp, ok := parseSpec(f[1])
			sched, err := strconv.ParseUint(f[2], 10, 64)
			if !ok || err != nil {
				run.Op(op, "bad-op")
				return
			}
			run.Begin(op)
			out := d.cer(sp, sched)
			run.Count("cer")
			run.Count("cer:" + sp.kind + ":" + strings.Fields(out)[0])
			if d.c.valid(sp) {
				run.Count("cer:valid")
			}
			run.Case(fmt.Sprintf("cer:%d:%d:%s:%s", d.c.n, d.c.t, sp.shape(d.c.n), strings.Fields(out)[0]))
			run.Op(op, out)
		case "nsh":
			if d.c == nil {
				panic("op without cluster: " + op)
			}
			k, err := strconv.Atoi(f[1])
			if err != nil {
				run.Op(op, "bad-op")
				return
			}
			line, out, ok := d.nsh(k)
			if !ok {
				run.Op(op, "bad-op")
				return
			}
			run.Count("nsh")
			run.Op(line, out)
		default:
			panic("bad op " + op)
		}
	}

	if a.Mode == "exec" {
		for _, op := range hx.ReadOps(a.Ops) {
			exec(op)
		}
		return
	}
	gen(a, run, d, exec)
}

func (d *drv) cleanup() {
	if d.host != nil {
		_ = d.host.Close()
	}
	_ = os.RemoveAll(d.scratch)
}
