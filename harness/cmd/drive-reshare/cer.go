package main

import (
	"bytes"
	"context"
	"fmt"
	"net"
	"os"
	"path/filepath"
	"sort"
	"strconv"
	"strings"
	"sync"
	"time"

	"github.com/libp2p/go-libp2p/core/host"
	"github.com/libp2p/go-libp2p/core/peerstore"

	"github.com/obolnetwork/charon/app/eth1wrap"
	"github.com/obolnetwork/charon/app/log"
	"github.com/obolnetwork/charon/cluster"
	"github.com/obolnetwork/charon/dkg"
	"github.com/obolnetwork/charon/p2p"
	"github.com/obolnetwork/charon/tbls"

	"verifharness/hx"
)

func freeAddr() string {
	l, err := net.Listen("tcp", "127.0.0.1:0")
	hx.Must(err)
	defer l.Close()
	return l.Addr().String()
}

func allNil(errs []error) bool {
	for _, e := range errs {
		if e != nil {
			return false
		}
	}
	return true
}

// firstErr: the first error that is not the echo of another node's failure (every failing node cancels
// the others), else the first error.
func firstErr(errs []error) string {
	for _, e := range errs {
		if e != nil && !strings.Contains(e.Error(), "context canceled") {
			return e.Error()
		}
	}
	for _, e := range errs {
		if e != nil {
			return e.Error()
		}
	}
	return "-"
}

// timeoutClass: do the errors only speak of waiting (time-outs, cancellations, connections)?
func timeoutClass(errs []error) bool {
	for _, e := range errs {
		if e == nil {
			continue
		}
		m := strings.ToLower(e.Error())
		waiting := false
		for _, w := range []string{"timed out", "timeout", "context", "deadline", "sync", "connection", "stream", "bind", "address already in use", "dial"} {
			if strings.Contains(m, w) {
				waiting = true
			}
		}
		if !waiting {
			return false
		}
	}
	return true
}

// newNode is one operator of the new lock.
type newNode struct {
	id      int // -1: the ENR is not in the harness's table
	pos     int
	out     string // output directory ("" if it did not take part)
	loaded  bool
	raw     []byte
	lock    *cluster.Lock
	lockErr error
	sk      []tbls.PrivateKey
}

type cerResult struct {
	sp    spec
	ref   *cluster.Lock // the new lock (first writer's)
	nodes []*newNode    // operators of the new lock, lock order
}

// runOnce runs the protocol once for all participants with the given time-out.
func (d *drv) runOnce(sp spec, parts []int, sched uint64, timeout time.Duration, root string) (map[int]string, []error) {
	c := d.c
	rng := hx.NewRng(sched)
	hx.Must(os.MkdirAll(root, 0o755))
	newENRs, removing, participating, newT, oldENR, newENR := d.specArgs(sp)
	outs := map[int]string{}
	for _, id := range parts {
		outs[id] = filepath.Join(root, fmt.Sprintf("out%d", id))
	}
	var mu sync.Mutex
	var hosts []host.Host
	cb := func(h host.Host) {
		mu.Lock()
		defer mu.Unlock()
		for _, x := range hosts {
			x.Peerstore().AddAddrs(h.ID(), h.Addrs(), peerstore.PermanentAddrTTL)
			h.Peerstore().AddAddrs(x.ID(), x.Addrs(), peerstore.PermanentAddrTTL)
		}
		hosts = append(hosts, h)
	}
	ctx, cancel := context.WithTimeout(context.Background(), 5*timeout)
	defer cancel()
	errs := make([]error, len(parts))
	var wg sync.WaitGroup
	for x, i := range rng.Perm(len(parts)) {
		it := c.ident(parts[i])
		conf := dkg.Config{
			P2P:           p2p.Config{TCPAddrs: []string{freeAddr()}},
			Log:           log.DefaultConfig(),
			Timeout:       timeout,
			ShutdownDelay: 100 * time.Millisecond,
			TestConfig:    dkg.TestConfig{P2PNodeCallback: cb},
		}
		out := outs[it.id]
		delay := time.Duration(rng.Intn(100)) * time.Millisecond
		if x == 0 {
			delay = 0
		}
		wg.Add(1)
		go func() {
			defer wg.Done()
			defer func() {
				if p := recover(); p != nil {
					errs[i] = fmt.Errorf("panic: %v", p)
					cancel()
				}
			}()
			time.Sleep(delay)
			lockPath, keyPath, keysDir := filepath.Join(it.dir, "cluster-lock.json"), p2p.KeyPath(it.dir), filepath.Join(it.dir, "validator_keys")
			switch sp.kind {
			case "reshare":
				errs[i] = dkg.RunReshareProtocol(ctx, dkg.ReshareConfig{DKGConfig: conf, PrivateKeyPath: keyPath, LockFilePath: lockPath, ValidatorKeysDir: keysDir, OutputDir: out})
			case "add":
				errs[i] = dkg.RunAddOperatorsProtocol(ctx, dkg.AddOperatorsConfig{PrivateKeyPath: keyPath, LockFilePath: lockPath, ValidatorKeysDir: keysDir, OutputDir: out, NewENRs: newENRs}, conf)
			case "rm":
				errs[i] = dkg.RunRemoveOperatorsProtocol(ctx, dkg.RemoveOperatorsConfig{PrivateKeyPath: keyPath, LockFilePath: lockPath, ValidatorKeysDir: keysDir, OutputDir: out,
					RemovingENRs: removing, ParticipatingENRs: participating, NewThreshold: newT}, conf)
			case "repl":
				errs[i] = dkg.RunReplaceOperatorProtocol(ctx, dkg.ReplaceOperatorConfig{PrivateKeyPath: keyPath, LockFilePath: lockPath, ValidatorKeysDir: keysDir, OutputDir: out,
					NewENR: newENR, OldENR: oldENR}, conf)
			default:
				errs[i] = fmt.Errorf("bad kind")
			}
			if errs[i] != nil {
				cancel()
			}
		}()
	}
	wg.Wait()
	return outs, errs
}

// cer: the protocol with a growing time-out (two attempts); only a request that fails with every time-out
// is reported. A refusal every node reports without waiting is not retried.
func (d *drv) cer(sp spec, sched uint64) (out string) {
	c := d.c
	c.last = nil
	valid := c.valid(sp)
	failed := func(descr string) string {
		if valid {
			sig := "reshare:ceremony_failed"
			if sp.kind == "rm" && !stayersInLockOrder(sp) && strings.Contains(descr, "invalid node signature") {
				// known pattern (fixes/C11-remove-participating-order.diff): node signatures are collected in the order of
				// --participating-operator-enrs, Lock.VerifySignatures wants them in operator order
				sig = "reshare:participating_order_breaks_node_signatures"
			}
			d.run.Violate(sig, fmt.Sprintf("cluster n=%d t=%d nv=%d, cer %s: %s", c.n, c.t, c.nv, sp, descr))
		}
		return "err"
	}
	defer func() {
		if p := recover(); p != nil {
			c.last = nil
			out = failed(fmt.Sprintf("panic: %v", p))
		}
	}()
	parts := d.participants(sp)
	if len(parts) == 0 {
		return failed("nobody takes part")
	}
	c.cerN++
	var outs map[int]string
	var errs []error
	first := ""
	for attempt, to := range []time.Duration{12 * time.Second, 36 * time.Second} {
		root := filepath.Join(d.scratch, fmt.Sprintf("cer%d-%d", c.cerN, attempt))
		outs, errs = d.runOnce(sp, parts, sched, to, root)
		if allNil(errs) {
			break
		}
		if first == "" {
			first = firstErr(errs)
		}
		if !timeoutClass(errs) || attempt == 1 {
			return failed(first)
		}
		_ = os.RemoveAll(root)
	}

	// what the participants wrote
	eth1 := eth1wrap.NewDefaultEthClientRunner("")
	var writers []int
	for _, id := range parts {
		if _, err := os.Stat(filepath.Join(outs[id], "cluster-lock.json")); err == nil {
			writers = append(writers, id)
		}
	}
	if len(writers) == 0 {
		return failed("every participant returned nil, none wrote a lock")
	}
	ref, err := cluster.LoadClusterLock(context.Background(), filepath.Join(outs[writers[0]], "cluster-lock.json"), true, eth1)
	if err != nil {
		return failed(fmt.Sprintf("the lock written by %d cannot be loaded: %v", writers[0], err))
	}
	secrets := map[int][]tbls.PrivateKey{}
	for _, id := range writers {
		sk, err := dkg.LoadSecrets(filepath.Join(outs[id], "validator_keys"))
		if err != nil {
			return failed(fmt.Sprintf("the keystores written by %d cannot be loaded: %v", id, err))
		}
		secrets[id] = sk
	}
	res := &cerResult{sp: sp, ref: ref}
	var opsIDs []string
	for p, op := range ref.Operators {
		nn := &newNode{id: -1, pos: p}
		if id, ok := c.byENR[op.ENR]; ok {
			nn.id = id
		}
		opsIDs = append(opsIDs, c.enrID(op.ENR))
		if sk, ok := secrets[nn.id]; ok && nn.id >= 0 {
			nn.out = outs[nn.id]
			lp := filepath.Join(nn.out, "cluster-lock.json")
			nn.raw, err = os.ReadFile(lp)
			if err != nil {
				return failed(fmt.Sprintf("read lock of %d: %v", nn.id, err))
			}
			nn.lock, err = cluster.LoadClusterLock(context.Background(), lp, true, eth1)
			if err != nil {
				return failed(fmt.Sprintf("the lock written by %d cannot be loaded: %v", nn.id, err))
			}
			_, nn.lockErr = cluster.LoadClusterLock(context.Background(), lp, false, eth1)
			nn.sk = sk
			nn.loaded = true
		}
		res.nodes = append(res.nodes, nn)
	}
	var idx []string
	for _, id := range writers { // ascending
		pos := "?"
		if len(ref.Validators) > 0 && len(secrets[id]) > 0 {
			pk, err := tbls.SecretToPublicKey(secrets[id][0])
			hx.Must(err)
			for p, ps := range ref.Validators[0].PubShares {
				if bytes.Equal(ps, pk[:]) {
					pos = strconv.Itoa(p)
					break
				}
			}
		}
		idx = append(idx, fmt.Sprintf("%d:%s", id, pos))
	}
	d.monitors(res, valid, sched)
	c.last = res
	return fmt.Sprintf("ok n=%d t=%d ops=%s idx=%s", len(ref.Operators), ref.Threshold, strings.Join(opsIDs, ","), strings.Join(idx, ","))
}

// expectedOps: the operator ids the new lock must list.
func (d *drv) expectedOps(sp spec) []int {
	c := d.c
	var out []int
	for i := 0; i < c.n; i++ {
		switch {
		case sp.kind == "rm" && contains(sp.rm, i):
		case sp.kind == "repl" && i == sp.old:
			out = append(out, sp.nw)
		default:
			out = append(out, i)
		}
	}
	if sp.kind == "add" {
		out = append(out, sp.add...)
	}
	return out
}

// subsets of size k of 0..n-1: all of them if there are at most 64, else 64 random ones.
func subsets(n, k int, rng *hx.Rng) [][]int {
	binom := 1
	for i := 0; i < k; i++ {
		binom = binom * (n - i) / (i + 1)
	}
	var out [][]int
	if binom <= 64 {
		var rec func(start int, cur []int)
		rec = func(start int, cur []int) {
			if len(cur) == k {
				out = append(out, append([]int(nil), cur...))
				return
			}
			for i := start; i < n; i++ {
				rec(i+1, append(cur, i))
			}
		}
		rec(0, nil)
		return out
	}
	for i := 0; i < 64; i++ {
		s := append([]int(nil), rng.Perm(n)[:k]...)
		sort.Ints(s)
		out = append(out, s)
	}
	return out
}

// monitors: the new cluster against the old lock's group keys, with tbls and the loaders only.
func (d *drv) monitors(res *cerResult, valid bool, sched uint64) {
	c, run, sp, ref := d.c, d.run, res.sp, res.ref
	rng := hx.NewRng(sched ^ 0x5eed)
	where := fmt.Sprintf("cluster n=%d t=%d nv=%d, cer %s", c.n, c.t, c.nv, sp)
	var loaded []*newNode
	for _, nn := range res.nodes {
		if nn.loaded {
			loaded = append(loaded, nn)
		} else if valid {
			run.Violate("reshare:ceremony_failed", fmt.Sprintf("%s: every participant returned nil, operator %d (id %d) of the new lock wrote no artifacts", where, nn.pos, nn.id))
		}
	}
	nOps := len(ref.Operators)
	tNew := ref.Threshold

	// reshare:lock_invalid
	for _, nn := range loaded {
		if nn.lockErr != nil {
			run.Violate("reshare:lock_invalid", fmt.Sprintf("%s: the lock written by new node %d (id %d) is refused by cluster.LoadClusterLock: %v", where, nn.pos, nn.id, nn.lockErr))
		}
		if !bytes.Equal(nn.raw, loaded[0].raw) {
			run.Violate("reshare:lock_invalid", fmt.Sprintf("%s: cluster-lock.json of new node %d differs from new node %d's", where, nn.pos, loaded[0].pos))
		}
		if bytes.Equal(nn.lock.LockHash, c.lock.LockHash) {
			run.Violate("reshare:lock_invalid", fmt.Sprintf("%s: new node %d: lock hash not renewed", where, nn.pos))
		}
	}

	// reshare:group_key_changed
	for _, nn := range loaded {
		if len(nn.lock.Validators) != c.nv {
			run.Violate("reshare:group_key_changed", fmt.Sprintf("%s: new node %d: the new lock has %d validators, the old one %d", where, nn.pos, len(nn.lock.Validators), c.nv))
			continue
		}
		for k := 0; k < c.nv; k++ {
			if !bytes.Equal(nn.lock.Validators[k].PubKey, c.G[k][:]) {
				run.Violate("reshare:group_key_changed", fmt.Sprintf("%s: new node %d: group key of validator %d changed", where, nn.pos, k))
			}
		}
	}

	// reshare:share_index_mismatch
	exp := d.expectedOps(sp)
	okOps := len(exp) == nOps
	for p := 0; okOps && p < nOps; p++ {
		okOps = res.nodes[p].id == exp[p]
	}
	if !okOps {
		var got []string
		for _, nn := range res.nodes {
			got = append(got, strconv.Itoa(nn.id))
		}
		run.Violate("reshare:share_index_mismatch", fmt.Sprintf("%s: the new lock lists operators %s, expected %s", where, strings.Join(got, ","), csv(exp)))
	}
	shapeOK := len(ref.Validators) == c.nv
	for k := 0; k < len(ref.Validators); k++ {
		if len(ref.Validators[k].PubShares) != nOps {
			shapeOK = false
			run.Violate("reshare:share_index_mismatch", fmt.Sprintf("%s: validator %d of the new lock has %d public shares for %d operators", where, k, len(ref.Validators[k].PubShares), nOps))
		}
	}
	for _, nn := range loaded {
		if len(nn.sk) != c.nv {
			shapeOK = false
			run.Violate("reshare:share_index_mismatch", fmt.Sprintf("%s: new node %d holds %d keystores for %d validators", where, nn.pos, len(nn.sk), c.nv))
		}
	}
	if !shapeOK {
		return
	}
	for _, nn := range loaded {
		for k := 0; k < c.nv; k++ {
			pk, err := tbls.SecretToPublicKey(nn.sk[k])
			if err != nil || !bytes.Equal(nn.lock.Validators[k].PubShares[nn.pos], pk[:]) || !bytes.Equal(ref.Validators[k].PubShares[nn.pos], pk[:]) {
				run.Violate("reshare:share_index_mismatch", fmt.Sprintf("%s: keystore %d of the node at position %d of the new lock (id %d) does not hold the secret of public share %d of validator %d", where, k, nn.pos, nn.id, nn.pos, k))
			}
		}
	}

	// reshare:threshold_wrong
	wantT := c.t
	evalT := true
	if sp.kind == "rm" {
		evalT = distinct(sp.rm)
		for _, id := range sp.rm {
			if id >= c.n {
				evalT = false
			}
		}
		wantT = sp.newT
		if wantT == 0 {
			wantT = ceilThreshold(c.n - len(sp.rm))
		}
	}
	if evalT && tNew != wantT {
		run.Violate("reshare:threshold_wrong", fmt.Sprintf("%s: the new lock has threshold %d, expected %d", where, tNew, wantT))
	}

	// reshare:new_shares_do_not_reconstruct
	if tNew >= 1 && len(loaded) >= tNew {
		subs := subsets(len(loaded), tNew, rng)
		for k := 0; k < c.nv; k++ {
			msg := []byte(fmt.Sprintf("reshare-monitor-%d-%d", rng.U64(), k))
			for _, s := range subs {
				m := map[int]tbls.PrivateKey{}
				sigs := map[int]tbls.Signature{}
				var pts []int
				for _, j := range s {
					nn := loaded[j]
					m[nn.pos+1] = nn.sk[k]
					sig, err := tbls.Sign(nn.sk[k], msg)
					hx.Must(err)
					sigs[nn.pos+1] = sig
					pts = append(pts, nn.pos+1)
				}
				x, err := tbls.RecoverSecret(m, uint(nOps), uint(tNew))
				var pk tbls.PublicKey
				if err == nil {
					pk, err = tbls.SecretToPublicKey(x)
				}
				if err != nil || pk != c.G[k] {
					run.Violate("reshare:new_shares_do_not_reconstruct", fmt.Sprintf("%s: validator %d: the new shares at points %v do not interpolate to the secret of the old group key", where, k, pts))
					break
				}
				agg, err := tbls.ThresholdAggregate(sigs)
				if err != nil || tbls.Verify(c.G[k], msg, agg) != nil {
					run.Violate("reshare:new_shares_do_not_reconstruct", fmt.Sprintf("%s: validator %d: the threshold aggregate of the partial signatures of the new shares at points %v does not verify under the old group key", where, k, pts))
					break
				}
			}
			if tNew >= 2 {
				m := map[int]tbls.PrivateKey{}
				for _, nn := range loaded[:tNew-1] {
					m[nn.pos+1] = nn.sk[k]
				}
				if x, err := tbls.RecoverSecret(m, uint(nOps), uint(tNew-1)); err == nil {
					if pk, err := tbls.SecretToPublicKey(x); err == nil && pk == c.G[k] {
						sig := "reshare:new_shares_do_not_reconstruct"
						if sp.kind == "rm" && !c.removingAreDistinctOperators(sp) {
							// known pattern (fixes/C11-remove-threshold-counts-listed-enrs.diff): the threshold arithmetic counts
							// the LISTED removing ENRs; with foreign / repeated entries the lock keeps a threshold the sharing does not have
							sig = "reshare:lock_threshold_above_sharing_degree_listed_enrs"
						}
						run.Violate(sig, fmt.Sprintf("%s: validator %d: %d < t'=%d new shares already interpolate to the group secret (degree too low)", where, k, tNew-1, tNew))
					}
				}
			}
		}
	}

	// reshare:unchanged_share, reshare:leaving_share_still_valid
	inNew := map[int]*newNode{}
	for _, nn := range res.nodes {
		if nn.id >= 0 {
			inNew[nn.id] = nn
		}
	}
	for i := 0; i < c.n; i++ {
		nn, stays := inNew[i]
		for k := 0; k < c.nv; k++ {
			if stays {
				if nn.loaded && nn.sk[k] == c.sk[i][k] {
					run.Violate("reshare:unchanged_share", fmt.Sprintf("%s: validator %d: operator %d holds its old secret share", where, k, i))
				}
				continue
			}
			// leaving operator: old share at old point i+1 with t'-1 new shares at other points
			if tNew < 2 {
				continue
			}
			m := map[int]tbls.PrivateKey{}
			for _, o := range loaded {
				if len(m) < tNew-1 && o.pos+1 != i+1 {
					m[o.pos+1] = o.sk[k]
				}
			}
			if len(m) != tNew-1 {
				continue
			}
			m[i+1] = c.sk[i][k]
			if x, err := tbls.RecoverSecret(m, uint(nOps), uint(tNew)); err == nil {
				if pk, err := tbls.SecretToPublicKey(x); err == nil && pk == c.G[k] {
					run.Violate("reshare:leaving_share_still_valid", fmt.Sprintf("%s: validator %d: the old share of leaving operator %d and %d new shares interpolate to the group secret", where, k, i, tNew-1))
				}
			}
		}
	}
}

// ---- nsh

type pt struct {
	x  int
	sk tbls.PrivateKey
}

func recoverPts(ps []pt) (tbls.PrivateKey, bool) {
	m := map[int]tbls.PrivateKey{}
	for _, p := range ps {
		m[p.x] = p.sk
	}
	x, err := tbls.RecoverSecret(m, uint(len(ps)), uint(len(ps)))
	return x, err == nil
}

// onePoly: the secret of the first t shares and whether every other share lies on their polynomial.
func onePoly(ps []pt, t int) (tbls.PrivateKey, bool, bool) {
	x, ok := recoverPts(ps[:t])
	if !ok {
		return x, false, false
	}
	all := true
	for _, p := range ps[t:] {
		y, ok := recoverPts(append(append([]pt(nil), ps[:t-1]...), p))
		if !ok || y != x {
			all = false
		}
	}
	return x, all, true
}

func ptsStr(ps []pt) string {
	var out []string
	for _, p := range ps {
		out = append(out, fmt.Sprintf("%d:%x", p.x, p.sk[:]))
	}
	return strings.Join(out, ",")
}

// nsh: the shares of validator k before and after the last (successful) cer.
func (d *drv) nsh(k int) (line, out string, ok bool) {
	c := d.c
	res := c.last
	if res == nil || k < 0 || k >= c.nv {
		return "", "", false
	}
	var old, nw []pt
	for i := 0; i < c.n; i++ {
		old = append(old, pt{i + 1, c.sk[i][k]})
	}
	for _, nn := range res.nodes {
		if nn.loaded && k < len(nn.sk) {
			nw = append(nw, pt{nn.pos + 1, nn.sk[k]})
		}
	}
	tOld, tNew := c.t, res.ref.Threshold
	if tOld < 1 || tNew < 1 || len(old) < tOld || len(nw) < tNew {
		return "", "", false
	}
	xo, do, ok1 := onePoly(old, tOld)
	xn, dn, ok2 := onePoly(nw, tNew)
	if !ok1 || !ok2 {
		return "", "", false
	}
	line = fmt.Sprintf("nsh %d %s | %s", k, ptsStr(old), ptsStr(nw))
	out = fmt.Sprintf("xo=%x xn=%x do=%s dn=%s same=%s", xo[:], xn[:], b01(do), b01(dn), b01(xo == xn))
	return line, out, true
}

// stayersInLockOrder: do the operators that stay appear in ascending lock position in the participating list?
func stayersInLockOrder(sp spec) bool {
	last := -1
	for _, id := range sp.part {
		if contains(sp.rm, id) {
			continue
		}
		if id < last {
			return false
		}
		last = id
	}
	return true
}

// removingAreDistinctOperators: every listed removing id is a lock operator and none is repeated.
func (c *clus) removingAreDistinctOperators(sp spec) bool {
	if !distinct(sp.rm) {
		return false
	}
	for _, id := range sp.rm {
		if id < 0 || id >= c.n {
			return false
		}
	}
	return true
}
