// drive-vapimaps: correspondence driver for what sits AROUND signature verification in core/validatorapi (C10 with C20,
// stream `vapimaps`; model lean/CharonV/Model/VapiMaps.lean, line driver lean/Driver/VapiMaps.lean).
//
// Runs the REAL validatorapi.NewComponent over random cluster locks (1..6 validators x 3..7 shares; adversarial locks
// with a public share listed under two validators, a repeated validator key, a share equal to a validator key, the
// all-zero key as a share, a validator with fewer shares, a share index that is not peer index + 1 or outside the
// lock) and then the lookups it built (hook core/validatorapi/verif_export_vapimaps.go) and the endpoints that swap
// keys: ProposerDuties / AttesterDuties / SyncCommitteeDuties (provider = a scripted duties cache, the direct beacon
// node path behind featureset.DisableDutiesCache, or the REAL eth2wrap.DutiesCache in front of the scripted beacon node)
// and Validators / convertValidators (scripted beacon node validator set + CompleteValidators cache).
//
// app.go's loop over lock.Validators (allPubSharesByKey / pubshares) is inline in wireCoreWorkflow and cannot be called
// in isolation: appTables below is a transcript of it (same calls: core.PubKeyFromBytes, tblsconv.PubkeyFromBytes,
// cluster.DistValidator.PublicShare), named in the trusted base.
//
// Where Go's map order decides (keysByShare when one public share is this node's share of several validators) the
// observation is appended to the cfg line (` ~ inv=<share>:<validator>,…`) and the model has to explain it.
//
// Keys are interned: id 0 = the all-zero 48-byte key, id k = a fixed 48-byte pattern of k.
package main

import (
	"context"
	"encoding/binary"
	"fmt"
	"sort"
	"strconv"
	"strings"

	eth2api "github.com/attestantio/go-eth2-client/api"
	eth2v1 "github.com/attestantio/go-eth2-client/api/v1"
	eth2p0 "github.com/attestantio/go-eth2-client/spec/phase0"

	"github.com/obolnetwork/charon/app/eth2wrap"
	"github.com/obolnetwork/charon/app/featureset"
	"github.com/obolnetwork/charon/app/log"
	"github.com/obolnetwork/charon/cluster"
	"github.com/obolnetwork/charon/core"
	"github.com/obolnetwork/charon/core/validatorapi"
	"github.com/obolnetwork/charon/tbls"
	"github.com/obolnetwork/charon/tbls/tblsconv"
	"github.com/obolnetwork/charon/testutil/beaconmock"

	"verifharness/hx"
)

// ---------------------------------------------------------------------------------------------
// keys

func keyBytes(id int) []byte {
	b := make([]byte, 48)
	if id == 0 {
		return b
	}
	binary.LittleEndian.PutUint64(b[:8], uint64(id))
	for i := 8; i < 48; i++ {
		b[i] = byte(0xA5 ^ (i * 7) ^ (id * 13))
	}
	return b
}

func bls(id int) eth2p0.BLSPubKey { return eth2p0.BLSPubKey(keyBytes(id)) }

// keyID is the inverse of keyBytes; bytes that are no pattern print as ?<hex>.
func keyID(b []byte) string {
	id := int(binary.LittleEndian.Uint64(b[:8]))
	if id >= 0 && id < 1<<30 && string(keyBytes(id)) == string(b) {
		return strconv.Itoa(id)
	}
	return fmt.Sprintf("?%x", b[:6])
}

func corePk(id int) core.PubKey {
	pk, err := core.PubKeyFromBytes(keyBytes(id))
	hx.Must(err)
	return pk
}

// ---------------------------------------------------------------------------------------------
// the lock and app.go's tables

type lockVal struct {
	pk     int
	shares []int
}

func showLock(l []lockVal) string {
	if len(l) == 0 {
		return "-"
	}
	var parts []string
	for _, v := range l {
		var ss []string
		for _, s := range v.shares {
			ss = append(ss, strconv.Itoa(s))
		}
		parts = append(parts, fmt.Sprintf("%d:%s", v.pk, strings.Join(ss, ",")))
	}
	return strings.Join(parts, ";")
}

func parseLock(s string) []lockVal {
	if s == "-" {
		return nil
	}
	var out []lockVal
	for _, p := range strings.Split(s, ";") {
		f := strings.SplitN(p, ":", 2)
		v := lockVal{pk: atoi(f[0])}
		if f[1] != "" {
			for _, x := range strings.Split(f[1], ",") {
				v.shares = append(v.shares, atoi(x))
			}
		}
		out = append(out, v)
	}
	return out
}

func atoi(s string) int {
	n, err := strconv.Atoi(s)
	hx.Must(err)
	return n
}

func toDist(l []lockVal) []cluster.DistValidator {
	var out []cluster.DistValidator
	for _, v := range l {
		d := cluster.DistValidator{PubKey: keyBytes(v.pk)}
		for _, s := range v.shares {
			d.PubShares = append(d.PubShares, keyBytes(s))
		}
		out = append(out, d)
	}
	return out
}

// appTables is a transcript of app/app.go wireCoreWorkflow, "Convert and prep public keys and public shares"
// (the loop `for vi, val := range lock.Validators`), restricted to pubshares and allPubSharesByKey.
func appTables(validators []cluster.DistValidator, peerIdx int) (pubshares []eth2p0.BLSPubKey, allPubSharesByKey map[core.PubKey]map[int]tbls.PublicKey, err error) {
	allPubSharesByKey = make(map[core.PubKey]map[int]tbls.PublicKey)

	for _, val := range validators {
		corePubkey, err := core.PubKeyFromBytes(val.PubKey)
		if err != nil {
			return nil, nil, err
		}

		allPubShares := make(map[int]tbls.PublicKey)

		for i, b := range val.PubShares {
			pubshare, err := tblsconv.PubkeyFromBytes(b)
			if err != nil {
				return nil, nil, err
			}

			// share index is 1-indexed
			allPubShares[i+1] = pubshare
		}

		pubShare, err := val.PublicShare(peerIdx)
		if err != nil {
			return nil, nil, err
		}

		eth2Share := eth2p0.BLSPubKey(pubShare)

		pubshares = append(pubshares, eth2Share)
		allPubSharesByKey[corePubkey] = allPubShares
	}

	return pubshares, allPubSharesByKey, nil
}

// ---------------------------------------------------------------------------------------------
// scripted beacon node / providers

type duty struct {
	isNil bool
	pk    int
	rest  int
}

type val struct {
	isNil bool
	pk    int
	rest  int
}

type world struct {
	// duties script of the current op
	script []duty
	md     int // -1: no metadata
	// objects handed to the caller by the last provider call (pointers retained)
	handedP []*eth2v1.ProposerDuty
	handedA []*eth2v1.AttesterDuty
	handedS []*eth2v1.SyncCommitteeDuty
	// real duties cache (mode r)
	dc *eth2wrap.DutiesCache
	// validators
	bn       map[int]val
	cached   map[int]bool
	cacheObj eth2wrap.CompleteValidators
	bnHanded []map[eth2p0.ValidatorIndex]*eth2v1.Validator
	queries  []string
}

func mkProposer(d duty) *eth2v1.ProposerDuty {
	if d.isNil {
		return nil
	}
	return &eth2v1.ProposerDuty{PubKey: bls(d.pk), Slot: eth2p0.Slot(d.rest*3 + 1), ValidatorIndex: eth2p0.ValidatorIndex(d.rest)}
}

func mkAttester(d duty) *eth2v1.AttesterDuty {
	if d.isNil {
		return nil
	}
	return &eth2v1.AttesterDuty{PubKey: bls(d.pk), Slot: eth2p0.Slot(d.rest*3 + 1), ValidatorIndex: eth2p0.ValidatorIndex(d.rest),
		CommitteeIndex: eth2p0.CommitteeIndex(d.rest % 7), CommitteeLength: uint64(d.rest + 2), CommitteesAtSlot: uint64(d.rest%5 + 1),
		ValidatorCommitteeIndex: uint64(d.rest % 11)}
}

func mkSync(d duty) *eth2v1.SyncCommitteeDuty {
	if d.isNil {
		return nil
	}
	return &eth2v1.SyncCommitteeDuty{PubKey: bls(d.pk), ValidatorIndex: eth2p0.ValidatorIndex(d.rest),
		ValidatorSyncCommitteeIndices: []eth2p0.CommitteeIndex{eth2p0.CommitteeIndex(d.rest), eth2p0.CommitteeIndex(d.rest + 1)}}
}

// canonical text of a duty object: pk/rest when every field but the key is what mk* builds from rest, pk/rest!<fields> otherwise.
func showProposer(d *eth2v1.ProposerDuty) (string, bool) {
	if d == nil {
		return "nil", true
	}
	rest := int(d.ValidatorIndex)
	w := mkProposer(duty{pk: 0, rest: rest})
	ok := d.Slot == w.Slot
	s := fmt.Sprintf("%s/%d", keyID(d.PubKey[:]), rest)
	if !ok {
		s += fmt.Sprintf("!slot=%d", d.Slot)
	}
	return s, ok
}

func showAttester(d *eth2v1.AttesterDuty) (string, bool) {
	if d == nil {
		return "nil", true
	}
	rest := int(d.ValidatorIndex)
	w := mkAttester(duty{pk: 0, rest: rest})
	ok := d.Slot == w.Slot && d.CommitteeIndex == w.CommitteeIndex && d.CommitteeLength == w.CommitteeLength &&
		d.CommitteesAtSlot == w.CommitteesAtSlot && d.ValidatorCommitteeIndex == w.ValidatorCommitteeIndex
	s := fmt.Sprintf("%s/%d", keyID(d.PubKey[:]), rest)
	if !ok {
		s += fmt.Sprintf("!%d.%d.%d.%d.%d", d.Slot, d.CommitteeIndex, d.CommitteeLength, d.CommitteesAtSlot, d.ValidatorCommitteeIndex)
	}
	return s, ok
}

func showSync(d *eth2v1.SyncCommitteeDuty) (string, bool) {
	if d == nil {
		return "nil", true
	}
	rest := int(d.ValidatorIndex)
	ok := len(d.ValidatorSyncCommitteeIndices) == 2 && int(d.ValidatorSyncCommitteeIndices[0]) == rest && int(d.ValidatorSyncCommitteeIndices[1]) == rest+1
	s := fmt.Sprintf("%s/%d", keyID(d.PubKey[:]), rest)
	if !ok {
		s += fmt.Sprintf("!%v", d.ValidatorSyncCommitteeIndices)
	}
	return s, ok
}

func (w *world) meta() map[string]any {
	if w.md < 0 {
		return nil
	}
	return map[string]any{"m": w.md}
}

// bnClient is the scripted beacon node: every call answers FRESH objects (as an HTTP client decoding a response does).
type bnClient struct {
	beaconmock.Mock
	w *world
}

func (c bnClient) ProposerDuties(context.Context, *eth2api.ProposerDutiesOpts) (*eth2api.Response[[]*eth2v1.ProposerDuty], error) {
	var out []*eth2v1.ProposerDuty
	for _, d := range c.w.script {
		out = append(out, mkProposer(d))
	}
	c.w.handedP = out
	return &eth2api.Response[[]*eth2v1.ProposerDuty]{Data: out, Metadata: c.w.meta()}, nil
}

func (c bnClient) AttesterDuties(context.Context, *eth2api.AttesterDutiesOpts) (*eth2api.Response[[]*eth2v1.AttesterDuty], error) {
	var out []*eth2v1.AttesterDuty
	for _, d := range c.w.script {
		out = append(out, mkAttester(d))
	}
	c.w.handedA = out
	return &eth2api.Response[[]*eth2v1.AttesterDuty]{Data: out, Metadata: c.w.meta()}, nil
}

func (c bnClient) SyncCommitteeDuties(context.Context, *eth2api.SyncCommitteeDutiesOpts) (*eth2api.Response[[]*eth2v1.SyncCommitteeDuty], error) {
	var out []*eth2v1.SyncCommitteeDuty
	for _, d := range c.w.script {
		out = append(out, mkSync(d))
	}
	c.w.handedS = out
	return &eth2api.Response[[]*eth2v1.SyncCommitteeDuty]{Data: out, Metadata: c.w.meta()}, nil
}

func (c bnClient) Validators(_ context.Context, opts *eth2api.ValidatorsOpts) (*eth2api.Response[map[eth2p0.ValidatorIndex]*eth2v1.Validator], error) {
	var pks, idxs []string
	wantPk := map[eth2p0.BLSPubKey]bool{}
	for _, p := range opts.PubKeys {
		wantPk[p] = true
		pks = append(pks, keyID(p[:]))
	}
	wantIdx := map[int]bool{}
	for _, i := range opts.Indices {
		wantIdx[int(i)] = true
		idxs = append(idxs, strconv.Itoa(int(i)))
	}
	c.w.queries = append(c.w.queries, listOrDash(pks)+"|"+listOrDash(idxs))
	all := len(opts.PubKeys) == 0 && len(opts.Indices) == 0
	out := map[eth2p0.ValidatorIndex]*eth2v1.Validator{}
	for i, v := range c.w.bn {
		if all || wantIdx[i] || (!v.isNil && wantPk[bls(v.pk)]) {
			out[eth2p0.ValidatorIndex(i)] = mkVal(i, v)
		}
	}
	c.w.bnHanded = append(c.w.bnHanded, out)
	return &eth2api.Response[map[eth2p0.ValidatorIndex]*eth2v1.Validator]{Data: out}, nil
}

func (c bnClient) CompleteValidators(context.Context) (eth2wrap.CompleteValidators, error) {
	return c.w.cacheObj, nil
}

func mkVal(idx int, v val) *eth2v1.Validator {
	if v.isNil {
		return nil
	}
	return &eth2v1.Validator{Index: eth2p0.ValidatorIndex(idx), Balance: eth2p0.Gwei(v.rest * 1000), Status: eth2v1.ValidatorState(v.rest%9 + 1),
		Validator: &eth2p0.Validator{PublicKey: bls(v.pk), EffectiveBalance: eth2p0.Gwei(v.rest), ActivationEpoch: eth2p0.Epoch(v.rest + 5),
			WithdrawalCredentials: []byte{byte(v.rest), 2, 3}, Slashed: v.rest%2 == 1}}
}

// showVal: pk/rest if all fields but the key are what mkVal builds for (idx, rest).
func showVal(mapIdx int, v *eth2v1.Validator) (string, bool) {
	if v == nil || v.Validator == nil {
		return "nil", false
	}
	rest := int(v.Validator.EffectiveBalance)
	w := mkVal(mapIdx, val{rest: rest})
	ok := v.Index == w.Index && v.Balance == w.Balance && v.Status == w.Status && v.Validator.ActivationEpoch == w.Validator.ActivationEpoch &&
		string(v.Validator.WithdrawalCredentials) == string(w.Validator.WithdrawalCredentials) && v.Validator.Slashed == w.Validator.Slashed &&
		v.Validator.ExitEpoch == 0 && v.Validator.WithdrawableEpoch == 0 && v.Validator.ActivationEligibilityEpoch == 0
	s := fmt.Sprintf("%s/%d", keyID(v.Validator.PublicKey[:]), rest)
	if !ok {
		s += "!"
	}
	return s, ok
}

// vapiClient is what the Component gets: the scripted beacon node plus the duties-cache entry points.
type vapiClient struct {
	bnClient
	real bool // the *DutiesCache methods go through the real eth2wrap.DutiesCache
}

func (c vapiClient) ProposerDutiesCache(ctx context.Context, epoch eth2p0.Epoch, vidxs []eth2p0.ValidatorIndex) (eth2wrap.ProposerDutyWithMeta, error) {
	if c.real {
		r, err := c.w.dc.ProposerDutiesCache(ctx, epoch, vidxs)
		c.w.handedP = r.Duties
		return r, err
	}
	resp, _ := c.bnClient.ProposerDuties(ctx, nil)
	return eth2wrap.ProposerDutyWithMeta{Duties: resp.Data, Metadata: resp.Metadata}, nil
}

func (c vapiClient) AttesterDutiesCache(ctx context.Context, epoch eth2p0.Epoch, vidxs []eth2p0.ValidatorIndex) (eth2wrap.AttesterDutyWithMeta, error) {
	if c.real {
		r, err := c.w.dc.AttesterDutiesCache(ctx, epoch, vidxs)
		c.w.handedA = r.Duties
		return r, err
	}
	resp, _ := c.bnClient.AttesterDuties(ctx, nil)
	return eth2wrap.AttesterDutyWithMeta{Duties: resp.Data, Metadata: resp.Metadata}, nil
}

func (c vapiClient) SyncCommDutiesCache(ctx context.Context, epoch eth2p0.Epoch, vidxs []eth2p0.ValidatorIndex) (eth2wrap.SyncDutyWithMeta, error) {
	if c.real {
		r, err := c.w.dc.SyncCommDutiesCache(ctx, epoch, vidxs)
		c.w.handedS = r.Duties
		return r, err
	}
	resp, _ := c.bnClient.SyncCommitteeDuties(ctx, nil)
	return eth2wrap.SyncDutyWithMeta{Duties: resp.Data, Metadata: resp.Metadata}, nil
}

func listOrDash(l []string) string {
	if len(l) == 0 {
		return "-"
	}
	return strings.Join(l, ",")
}

// ---------------------------------------------------------------------------------------------
// episode

var base beaconmock.Mock

type episode struct {
	run      *hx.Run
	lock     []lockVal
	peerIdx  int
	shareIdx int
	comp     *validatorapi.Component
	compReal *validatorapi.Component // same tables, *DutiesCache through the real cache
	all      map[core.PubKey]map[int]tbls.PublicKey
	w        *world
	epoch    int
}

func errClass(err error) string {
	s := err.Error()
	switch {
	case strings.Contains(s, "nil proposer duty"), strings.Contains(s, "duty cannot be nil"), strings.Contains(s, "duty is nil"):
		return "err:nil"
	case strings.Contains(s, "validator data cannot be nil"):
		return "err:conv"
	case strings.Contains(s, "pubshare not found"):
		return "err:notfound"
	case strings.Contains(s, "mismatching validator client key share index"):
		return "err:mismatch"
	case strings.Contains(s, "unknown public key"):
		return "err:unknown"
	}
	return "err:other:" + strings.ReplaceAll(s, " ", "_")
}

// lockShares returns the shares the lock records at share index idx under validator key pk (one per lock entry with that
// key); inRange=false if no such entry has the index.
func (e *episode) lockShares(pk int, idx int) (cands []int, known bool) {
	for _, v := range e.lock {
		if v.pk != pk {
			continue
		}
		known = true
		if idx >= 1 && idx <= len(v.shares) {
			cands = append(cands, v.shares[idx-1])
		}
	}
	return cands, known
}

func contains(l []int, x int) bool {
	for _, y := range l {
		if y == x {
			return true
		}
	}
	return false
}

// expectShare: what a lookup of validator key pk may answer according to the LOCK (monitor side; independent of the model):
// known=false: nothing; otherwise one of cands, or — when the share index is outside the validator's list — the zero key.
func (e *episode) checkOwnShare(where string, pk int, got string, found bool) {
	cands, known := e.lockShares(pk, e.shareIdx)
	if !known {
		if found {
			e.run.Violate("vapimaps:unknown_key_resolved", fmt.Sprintf("%s: key %d is not in the lock but resolves to %s", where, pk, got))
		}
		return
	}
	if !found {
		e.run.Violate("vapimaps:wrong_share_for_validator", fmt.Sprintf("%s: validator %d of the lock has no share", where, pk))
		return
	}
	if len(cands) == 0 {
		if got != "0" {
			e.run.Violate("vapimaps:wrong_share_for_validator", fmt.Sprintf("%s: validator %d has no share at index %d but resolves to %s", where, pk, e.shareIdx, got))
		}
		return
	}
	ok := false
	for _, c := range cands {
		if strconv.Itoa(c) == got {
			ok = true
		}
	}
	// a repeated validator key whose other entry lacks the index may also give the zero key
	if !ok && got == "0" {
		for _, v := range e.lock {
			if v.pk == pk && !(e.shareIdx >= 1 && e.shareIdx <= len(v.shares)) {
				ok = true
			}
		}
	}
	if !ok {
		e.run.Violate("vapimaps:wrong_share_for_validator", fmt.Sprintf("%s: validator %d resolves to %s, the lock records %v at index %d", where, pk, got, cands, e.shareIdx))
	}
}

func (e *episode) cfg(opBody string) {
	e.comp, e.compReal, e.all = nil, nil, nil
	e.w = &world{md: -1, bn: map[int]val{}, cached: map[int]bool{}, cacheObj: eth2wrap.CompleteValidators{}}
	dist := toDist(e.lock)
	var (
		ps     []eth2p0.BLSPubKey
		all    map[core.PubKey]map[int]tbls.PublicKey
		err    error
		paniced bool
	)
	func() {
		defer func() {
			if r := recover(); r != nil {
				paniced = true
			}
		}()
		ps, all, err = appTables(dist, e.peerIdx)
	}()
	// monitor: the loop must not get past a validator without a share at the peer index
	short := false
	for _, v := range e.lock {
		if e.peerIdx < 0 || e.peerIdx >= len(v.shares) {
			short = true
		}
	}
	if paniced || err != nil {
		if !short {
			e.run.Violate("vapimaps:wrong_share_for_validator", "app.go loop failed although every validator has a share at the peer index")
		}
		e.run.Count("cfg:panic")
		if err != nil {
			e.run.Op(opBody, "err:"+err.Error())
			return
		}
		e.run.Op(opBody, "panic")
		return
	}
	if short {
		e.run.Violate("vapimaps:wrong_share_for_validator", "app.go loop passed although a validator has no share at the peer index")
	}
	for j, v := range e.lock {
		if keyID(ps[j][:]) != strconv.Itoa(v.shares[e.peerIdx]) {
			e.run.Violate("vapimaps:wrong_share_for_validator", fmt.Sprintf("pubshares[%d] = %s, lock records %d", j, keyID(ps[j][:]), v.shares[e.peerIdx]))
		}
	}
	e.all = all
	bn := bnClient{Mock: base, w: e.w}
	e.w.dc = eth2wrap.NewDutiesCache(bn, nil)
	comp, err := validatorapi.NewComponent(vapiClient{bnClient: bn}, all, e.shareIdx, nil, false, 30000000)
	hx.Must(err)
	compReal, err := validatorapi.NewComponent(vapiClient{bnClient: bn, real: true}, all, e.shareIdx, nil, false, 30000000)
	hx.Must(err)
	e.comp, e.compReal = comp, compReal

	// the tables, read back through the hook
	var psS []string
	for _, p := range ps {
		psS = append(psS, keyID(p[:]))
	}
	pks := map[int]bool{}
	for _, v := range e.lock {
		pks[v.pk] = true
	}
	var pkl []int
	for k := range pks {
		pkl = append(pkl, k)
	}
	sort.Ints(pkl)
	byKey := comp.VerifSharesByKey()
	if len(byKey) != len(pkl) {
		e.run.Violate("vapimaps:unknown_key_resolved", fmt.Sprintf("sharesByKey has %d entries, the lock %d validators", len(byKey), len(pkl)))
	}
	var own []string
	ownShares := map[string][]int{}
	for _, pk := range pkl {
		sh, ok := comp.VerifGetPubShare(bls(pk))
		got := keyID(sh[:])
		e.checkOwnShare("getPubShareFunc", pk, got, ok)
		vs, err := comp.VerifGetVerifyShare(corePk(pk))
		if err != nil || keyID(vs[:]) != got {
			e.run.Violate("vapimaps:wrong_share_for_validator", fmt.Sprintf("getVerifyShareFunc(%d) disagrees with getPubShareFunc: %v %s vs %s", pk, err, keyID(vs[:]), got))
		}
		if cs, ok := byKey[corePk(pk)]; !ok || string(cs) != string(mustCore(sh[:])) {
			e.run.Violate("vapimaps:wrong_share_for_validator", fmt.Sprintf("sharesByKey[%d] disagrees with getPubShareFunc", pk))
		}
		// the second component must have the same tables
		sh2, ok2 := compReal.VerifGetPubShare(bls(pk))
		if ok2 != ok || sh2 != sh {
			e.run.Violate("vapimaps:wrong_share_for_validator", fmt.Sprintf("two NewComponent calls on the same table disagree for %d", pk))
		}
		own = append(own, fmt.Sprintf("%d>%s", pk, got))
		ownShares[got] = append(ownShares[got], pk)
	}
	var shl []int
	for s := range ownShares {
		shl = append(shl, atoi(s))
	}
	sort.Ints(shl)
	var inv, orc []string
	for _, s := range shl {
		k, err := comp.VerifGetPubKey(bls(s))
		cands := ownShares[strconv.Itoa(s)]
		if err != nil {
			e.run.Violate("vapimaps:wrong_share_for_validator", fmt.Sprintf("getPubKeyFunc(%d): %v although it is this node's share of %v", s, err, cands))
			inv = append(inv, fmt.Sprintf("%d>%s", s, errClass(err)))
			continue
		}
		got := keyID(k[:])
		okc := false
		for _, c := range cands {
			if strconv.Itoa(c) == got {
				okc = true
			}
		}
		if !okc {
			e.run.Violate("vapimaps:wrong_share_for_validator", fmt.Sprintf("getPubKeyFunc(%d) = %s, a validator whose share it is not (candidates %v)", s, got, cands))
		}
		inv = append(inv, fmt.Sprintf("%d>%s", s, got))
		if len(cands) > 1 {
			orc = append(orc, fmt.Sprintf("%d:%s", s, got))
			e.run.Count("cfg:duplicate_share_inverse")
			e.run.Case(fmt.Sprintf("dupinv:%d:%s", len(cands), got))
		}
	}
	op := opBody
	if len(orc) > 0 {
		op += " ~ inv=" + strings.Join(orc, ",")
	}
	e.run.Count("cfg:ok")
	e.run.Op(op, fmt.Sprintf("ok ps=%s own=%s inv=%s", listOrDash(psS), strings.Join(own, ","), strings.Join(inv, ",")))
}

func mustCore(b []byte) core.PubKey {
	pk, err := core.PubKeyFromBytes(b)
	hx.Must(err)
	return pk
}

func (e *episode) share(op string, pk int) {
	if e.comp == nil {
		e.run.Op(op, "nocomp")
		return
	}
	sh, ok := e.comp.VerifGetPubShare(bls(pk))
	ps := "-"
	if ok {
		ps = keyID(sh[:])
	}
	e.checkOwnShare("share", pk, ps, ok)
	vs, err := e.comp.VerifGetVerifyShare(corePk(pk))
	vsS := ""
	if err != nil {
		vsS = errClass(err)
		if ok {
			e.run.Violate("vapimaps:wrong_share_for_validator", fmt.Sprintf("getVerifyShareFunc(%d) fails, getPubShareFunc succeeds", pk))
		}
	} else {
		vsS = keyID(vs[:])
		e.checkOwnShare("verifyshare", pk, vsS, true)
	}
	e.run.Count("share:" + map[bool]string{true: "found", false: "unknown"}[ok])
	e.run.Op(op, fmt.Sprintf("ps=%s vs=%s", ps, vsS))
}

func (e *episode) key(op string, s int) {
	if e.comp == nil {
		e.run.Op(op, "nocomp")
		return
	}
	k, err := e.comp.VerifGetPubKey(bls(s))
	// which validators have s as this node's share, according to the lock (zero key: validators without the index)
	var owners []int
	for _, v := range e.lock {
		in := e.shareIdx >= 1 && e.shareIdx <= len(v.shares)
		if (in && v.shares[e.shareIdx-1] == s) || (!in && s == 0) {
			owners = append(owners, v.pk)
		}
	}
	if err != nil {
		c := errClass(err)
		e.run.Count("key:" + c)
		e.run.Op(op, c)
		return
	}
	got := keyID(k[:])
	if len(owners) == 0 {
		e.run.Violate("vapimaps:unknown_key_resolved", fmt.Sprintf("getPubKeyFunc(%d) = %s but %d is not this node's share of any validator", s, got, s))
	} else if !contains(owners, atoiSafe(got)) {
		e.run.Violate("vapimaps:wrong_share_for_validator", fmt.Sprintf("getPubKeyFunc(%d) = %s, owners %v", s, got, owners))
	}
	e.run.Count("key:ok")
	e.run.Op(op, got)
}

func atoiSafe(s string) int {
	n, err := strconv.Atoi(s)
	if err != nil {
		return -1
	}
	return n
}

func (e *episode) allOp(op string, pk, idx int) {
	if e.comp == nil {
		e.run.Op(op, "nocomp")
		return
	}
	m, ok := e.all[corePk(pk)]
	if !ok {
		if _, known := e.lockShares(pk, idx); known {
			e.run.Violate("vapimaps:wrong_share_for_validator", fmt.Sprintf("allPubSharesByKey lacks validator %d", pk))
		}
		e.run.Op(op, "err:unknown")
		return
	}
	k, ok := m[idx]
	if !ok {
		e.run.Op(op, "err:noidx")
		return
	}
	got := keyID(k[:])
	cands, known := e.lockShares(pk, idx)
	if !known {
		e.run.Violate("vapimaps:unknown_key_resolved", fmt.Sprintf("allPubSharesByKey[%d] exists", pk))
	} else if !contains(cands, atoiSafe(got)) {
		e.run.Violate("vapimaps:wrong_share_for_validator", fmt.Sprintf("allPubSharesByKey[%d][%d] = %s, lock %v", pk, idx, got, cands))
	}
	e.run.Op(op, got)
}

func showScript(l []duty) string {
	if len(l) == 0 {
		return "-"
	}
	var out []string
	for _, d := range l {
		if d.isNil {
			out = append(out, "nil")
		} else {
			out = append(out, fmt.Sprintf("%d/%d", d.pk, d.rest))
		}
	}
	return strings.Join(out, ",")
}

func parseScript(s string) []duty {
	if s == "-" {
		return nil
	}
	var out []duty
	for _, p := range strings.Split(s, ",") {
		if p == "nil" {
			out = append(out, duty{isNil: true})
			continue
		}
		f := strings.Split(p, "/")
		out = append(out, duty{pk: atoi(f[0]), rest: atoi(f[1])})
	}
	return out
}

// one call of a duties endpoint; returns the response items (nil on error), metadata, error
func (e *episode) callDuties(comp *validatorapi.Component, kind string, epoch int, idxs []eth2p0.ValidatorIndex) (items []string, fieldsOK bool, md string, err error) {
	ctx := context.Background()
	fieldsOK = true
	md = "-"
	getMd := func(m map[string]any) {
		if v, ok := m["m"]; ok {
			md = fmt.Sprint(v)
		}
	}
	switch kind {
	case "p":
		r, err := comp.ProposerDuties(ctx, &eth2api.ProposerDutiesOpts{Epoch: eth2p0.Epoch(epoch), Indices: idxs})
		if err != nil {
			return nil, true, md, err
		}
		getMd(r.Metadata)
		for _, d := range r.Data {
			s, ok := showProposer(d)
			items = append(items, s)
			fieldsOK = fieldsOK && ok
		}
	case "a":
		r, err := comp.AttesterDuties(ctx, &eth2api.AttesterDutiesOpts{Epoch: eth2p0.Epoch(epoch), Indices: idxs})
		if err != nil {
			return nil, true, md, err
		}
		getMd(r.Metadata)
		for _, d := range r.Data {
			s, ok := showAttester(d)
			items = append(items, s)
			fieldsOK = fieldsOK && ok
		}
	case "s":
		r, err := comp.SyncCommitteeDuties(ctx, &eth2api.SyncCommitteeDutiesOpts{Epoch: eth2p0.Epoch(epoch), Indices: idxs})
		if err != nil {
			return nil, true, md, err
		}
		getMd(r.Metadata)
		for _, d := range r.Data {
			s, ok := showSync(d)
			items = append(items, s)
			fieldsOK = fieldsOK && ok
		}
	}
	return items, fieldsOK, md, nil
}

func (e *episode) handed(kind string) []string {
	var out []string
	switch kind {
	case "p":
		for _, d := range e.w.handedP {
			s, _ := showProposer(d)
			out = append(out, s)
		}
	case "a":
		for _, d := range e.w.handedA {
			s, _ := showAttester(d)
			out = append(out, s)
		}
	case "s":
		for _, d := range e.w.handedS {
			s, _ := showSync(d)
			out = append(out, s)
		}
	}
	return out
}

func (e *episode) duties(op string, kind, mode string, md int, script []duty) {
	if e.comp == nil {
		e.run.Op(op, "nocomp")
		return
	}
	ctx := context.Background()
	e.w.script, e.w.md = script, md
	e.w.handedP, e.w.handedA, e.w.handedS = nil, nil, nil
	if mode == "d" {
		hx.Must(featureset.Init(ctx, featureset.Config{MinStatus: "stable", Enabled: []string{string(featureset.DisableDutiesCache)}}))
	} else {
		hx.Must(featureset.Init(ctx, featureset.Config{MinStatus: "stable", Disabled: []string{string(featureset.DisableDutiesCache)}}))
	}
	comp := e.comp
	if mode == "r" {
		comp = e.compReal
	}
	e.epoch++
	seen := map[int]bool{}
	var idxs []eth2p0.ValidatorIndex
	for _, d := range script {
		if !d.isNil && !seen[d.rest] {
			seen[d.rest] = true
			idxs = append(idxs, eth2p0.ValidatorIndex(d.rest))
		}
	}
	items, fieldsOK, mdS, err := e.callDuties(comp, kind, e.epoch, idxs)
	handed := e.handed(kind)
	if mode == "r" && err != nil && len(handed) == 0 {
		// the cache refused the beacon node's answer: what the beacon node handed out is the script itself
		handed = strings.Split(showScript(script), ",")
		if len(script) == 0 {
			handed = nil
		}
	}

	// ---- monitors (on the lock and the script, independent of the model)
	hasNil, hasUnknown := false, false
	for _, d := range script {
		if d.isNil {
			hasNil = true
			continue
		}
		if _, known := e.lockShares(d.pk, e.shareIdx); !known {
			hasUnknown = true
		}
	}
	var out string
	if err != nil {
		out = errClass(err)
		if !hasNil && !(hasUnknown && kind != "p") {
			e.run.Violate("vapimaps:duty_dropped_or_duplicated", fmt.Sprintf("%s duties refused (%v) although every duty is non-nil and of a lock validator", kind, err))
		}
	} else {
		if hasNil {
			e.run.Violate("vapimaps:duty_dropped_or_duplicated", "a nil duty was accepted")
		}
		if hasUnknown && kind != "p" {
			e.run.Violate("vapimaps:unknown_validator_duty_accepted", fmt.Sprintf("%s duties answered although a duty belongs to a validator outside the lock", kind))
		}
		if !fieldsOK {
			e.run.Violate("vapimaps:duty_field_changed", fmt.Sprintf("a field other than the key changed: %v", items))
		}
		if len(items) != len(script) {
			e.run.Violate("vapimaps:duty_dropped_or_duplicated", fmt.Sprintf("%d duties in, %d out", len(script), len(items)))
		} else {
			for j, d := range script {
				if d.isNil {
					continue
				}
				f := strings.SplitN(strings.SplitN(items[j], "!", 2)[0], "/", 2)
				if len(f) != 2 || f[1] != strconv.Itoa(d.rest) {
					e.run.Violate("vapimaps:duty_dropped_or_duplicated", fmt.Sprintf("position %d: in %d/%d, out %s", j, d.pk, d.rest, items[j]))
					continue
				}
				cands, known := e.lockShares(d.pk, e.shareIdx)
				if !known {
					if f[0] != strconv.Itoa(d.pk) {
						e.run.Violate("vapimaps:unknown_key_resolved", fmt.Sprintf("duty of %d (not in the lock) answered with key %s", d.pk, f[0]))
					}
					continue
				}
				if !(contains(cands, atoiSafe(f[0])) || (f[0] == "0" && e.zeroPossible(d.pk))) {
					e.run.Violate("vapimaps:wrong_share_for_validator", fmt.Sprintf("duty of validator %d answered with key %s, lock records %v at index %d", d.pk, f[0], cands, e.shareIdx))
				}
			}
		}
		if kind == "s" {
			mdS = "-" // SyncCommitteeDuties answers without metadata
		}
		out = fmt.Sprintf("ok %s md=%s", listOrDash(items), mdS)
	}
	out += " handed=" + listOrDash(handed)

	if mode == "r" {
		// second identical call: served from the real cache; then the cache's own answer is compared with the script
		items2, _, md2, err2 := e.callDuties(comp, kind, e.epoch, idxs)
		same := (err == nil) == (err2 == nil)
		if err != nil && err2 != nil {
			same = errClass(err) == errClass(err2)
		}
		if err == nil && err2 == nil {
			if kind == "s" {
				md2 = "-"
			}
			same = strings.Join(items, ",") == strings.Join(items2, ",") && mdS == md2
		}
		if same {
			out += " again=same"
		} else {
			out += " again=diff"
			e.run.Violate("vapimaps:bn_response_mutated", fmt.Sprintf("a repeated %s duties request over the duties cache answers differently: %v / %v, then %v / %v", kind, items, err, items2, err2))
		}
		if !hasNil {
			var third []string
			switch kind {
			case "p":
				r, err := e.w.dc.ProposerDutiesCache(ctx, eth2p0.Epoch(e.epoch), idxs)
				hx.Must(err)
				for _, d := range r.Duties {
					s, _ := showProposer(d)
					third = append(third, s)
				}
			case "a":
				r, err := e.w.dc.AttesterDutiesCache(ctx, eth2p0.Epoch(e.epoch), idxs)
				hx.Must(err)
				for _, d := range r.Duties {
					s, _ := showAttester(d)
					third = append(third, s)
				}
			case "s":
				r, err := e.w.dc.SyncCommDutiesCache(ctx, eth2p0.Epoch(e.epoch), idxs)
				hx.Must(err)
				for _, d := range r.Duties {
					s, _ := showSync(d)
					third = append(third, s)
				}
			}
			if listOrDash(third) != showScript(script) {
				e.run.Violate("vapimaps:bn_response_mutated", fmt.Sprintf("the duties cache holds %s after the component served the request, the beacon node answered %s", listOrDash(third), showScript(script)))
			}
		}
	}
	e.run.Count("duties:" + kind + mode + ":" + strings.SplitN(out, " ", 2)[0])
	if err == nil && hasUnknown {
		e.run.Case("duties:passthrough")
	}
	e.run.Op(op, out)
}

func (e *episode) zeroPossible(pk int) bool {
	for _, v := range e.lock {
		if v.pk == pk && !(e.shareIdx >= 1 && e.shareIdx <= len(v.shares)) {
			return true
		}
	}
	return false
}

func (e *episode) bnOp(op string, bn map[int]val, cached []int) {
	if e.w == nil {
		e.w = &world{md: -1}
	}
	e.w.bn = bn
	e.w.cached = map[int]bool{}
	e.w.cacheObj = eth2wrap.CompleteValidators{}
	for _, i := range cached {
		if v, ok := bn[i]; ok && !v.isNil {
			e.w.cached[i] = true
			e.w.cacheObj[eth2p0.ValidatorIndex(i)] = mkVal(i, v)
		}
	}
	e.run.Op(op, "ok")
}

func showBn(bn map[int]val) string {
	var idx []int
	for i := range bn {
		idx = append(idx, i)
	}
	sort.Ints(idx)
	var out []string
	for _, i := range idx {
		if bn[i].isNil {
			out = append(out, fmt.Sprintf("%d:nil", i))
		} else {
			out = append(out, fmt.Sprintf("%d:%d/%d", i, bn[i].pk, bn[i].rest))
		}
	}
	return listOrDash(out)
}

func parseBn(s string) map[int]val {
	out := map[int]val{}
	if s == "-" {
		return out
	}
	for _, p := range strings.Split(s, ",") {
		f := strings.SplitN(p, ":", 2)
		if f[1] == "nil" {
			out[atoi(f[0])] = val{isNil: true}
			continue
		}
		g := strings.Split(f[1], "/")
		out[atoi(f[0])] = val{pk: atoi(g[0]), rest: atoi(g[1])}
	}
	return out
}

func showInts(l []int) string {
	var out []string
	for _, x := range l {
		out = append(out, strconv.Itoa(x))
	}
	return listOrDash(out)
}

func parseInts(s string) []int {
	if s == "-" {
		return nil
	}
	var out []int
	for _, p := range strings.Split(s, ",") {
		out = append(out, atoi(p))
	}
	return out
}

func (e *episode) vals(op string, shares, idxs []int) {
	if e.comp == nil {
		e.run.Op(op, "nocomp")
		return
	}
	e.w.queries, e.w.bnHanded = nil, nil
	opts := &eth2api.ValidatorsOpts{State: "head"}
	for _, s := range shares {
		opts.PubKeys = append(opts.PubKeys, bls(s))
	}
	for _, i := range idxs {
		opts.Indices = append(opts.Indices, eth2p0.ValidatorIndex(i))
	}
	resp, err := e.comp.Validators(context.Background(), opts)
	var res string
	if err != nil {
		res = errClass(err)
		if res == "err:notfound" {
			res = "err:conv"
		}
	} else {
		var ids []int
		for i := range resp.Data {
			ids = append(ids, int(i))
		}
		sort.Ints(ids)
		var items []string
		for _, i := range ids {
			s, ok := showVal(i, resp.Data[eth2p0.ValidatorIndex(i)])
			items = append(items, fmt.Sprintf("%d:%s", i, s))
			master, have := e.w.bn[i]
			f := strings.SplitN(strings.TrimSuffix(s, "!"), "/", 2)
			if !ok || !have || master.isNil || len(f) != 2 || f[1] != strconv.Itoa(master.rest) {
				e.run.Violate("vapimaps:duty_field_changed", fmt.Sprintf("validator %d answered as %s, beacon node has %+v", i, s, master))
				continue
			}
			cands, known := e.lockShares(master.pk, e.shareIdx)
			if !known {
				if f[0] != strconv.Itoa(master.pk) {
					e.run.Violate("vapimaps:unknown_key_resolved", fmt.Sprintf("validator %d (key %d, not in the lock) answered with key %s", i, master.pk, f[0]))
				}
			} else if !(contains(cands, atoiSafe(f[0])) || (f[0] == "0" && e.zeroPossible(master.pk))) {
				e.run.Violate("vapimaps:wrong_share_for_validator", fmt.Sprintf("validator %d (key %d) answered with key %s, lock records %v", i, master.pk, f[0], cands))
			}
		}
		res = "ok " + listOrDash(items)
		// every requested share that is this node's share of exactly one validator which the beacon node knows must be answered
		for _, s := range shares {
			var owners []int
			for _, v := range e.lock {
				if e.shareIdx >= 1 && e.shareIdx <= len(v.shares) && v.shares[e.shareIdx-1] == s {
					owners = append(owners, v.pk)
				}
			}
			if len(owners) != 1 {
				continue
			}
			for i, v := range e.w.bn {
				if !v.isNil && v.pk == owners[0] {
					if _, ok := resp.Data[eth2p0.ValidatorIndex(i)]; !ok {
						e.run.Violate("vapimaps:duty_dropped_or_duplicated", fmt.Sprintf("validator %d requested by share %d is missing in the answer", i, s))
					}
				}
			}
		}
	}
	// nothing the beacon node or the complete-validators cache handed out may be written
	for i, v := range e.w.cacheObj {
		s, ok := showVal(int(i), v)
		m := e.w.bn[int(i)]
		if !ok || s != fmt.Sprintf("%d/%d", m.pk, m.rest) {
			e.run.Violate("vapimaps:bn_response_mutated", fmt.Sprintf("CompleteValidators[%d] is %s after the call, was %d/%d", i, s, m.pk, m.rest))
		}
	}
	for _, h := range e.w.bnHanded {
		for i, v := range h {
			m := e.w.bn[int(i)]
			if m.isNil {
				continue
			}
			s, ok := showVal(int(i), v)
			if !ok || s != fmt.Sprintf("%d/%d", m.pk, m.rest) {
				e.run.Violate("vapimaps:bn_response_mutated", fmt.Sprintf("the beacon node's Validators answer [%d] is %s after the call, was %d/%d", i, s, m.pk, m.rest))
			}
		}
	}
	var optS []string
	for _, p := range opts.PubKeys {
		optS = append(optS, keyID(p[:]))
	}
	e.run.Count("vals:" + strings.SplitN(res, " ", 2)[0])
	e.run.Op(op, fmt.Sprintf("%s q=%s opt=%s", res, func() string {
		if len(e.w.queries) == 0 {
			return "-"
		}
		return strings.Join(e.w.queries, ";")
	}(), listOrDash(optS)))
}

// ---------------------------------------------------------------------------------------------
// exec

func (e *episode) exec(line string) {
	body := strings.SplitN(line, " ~ ", 2)[0]
	f := strings.Fields(body)
	e.run.Begin(body)
	defer func() {
		if r := recover(); r != nil {
			e.run.Violate("vapimaps:panic", fmt.Sprintf("%s: %v", body, r))
			e.run.Op(body, "panic!")
		}
	}()
	switch f[0] {
	case "cfg":
		e.peerIdx, e.shareIdx, e.lock = atoi(f[1]), atoi(f[2]), parseLock(f[3])
		e.cfg(body)
	case "share":
		e.share(body, atoi(f[1]))
	case "key":
		e.key(body, atoi(f[1]))
	case "all":
		e.allOp(body, atoi(f[1]), atoi(f[2]))
	case "duties":
		md := -1
		if f[3] != "-" {
			md = atoi(f[3])
		}
		e.duties(body, f[1], f[2], md, parseScript(f[4]))
	case "bn":
		e.bnOp(body, parseBn(f[1]), parseInts(f[2]))
	case "vals":
		e.vals(body, parseInts(f[1]), parseInts(f[2]))
	default:
		panic("unknown op " + f[0])
	}
}

// ---------------------------------------------------------------------------------------------
// generator

type gen struct {
	r *hx.Rng
	e *episode
}

func (g *gen) newLock() (lock []lockVal, peerIdx, shareIdx int) {
	r := g.r
	V := 1 + r.Intn(6)
	N := 3 + r.Intn(5)
	for j := 0; j < V; j++ {
		v := lockVal{pk: 100 * (j + 1)}
		for i := 1; i <= N; i++ {
			v.shares = append(v.shares, 100*(j+1)+i)
		}
		lock = append(lock, v)
	}
	// adversarial locks
	if V >= 2 && r.Chance(1, 3) { // one public share under two validators, same position
		a, b, i := r.Intn(V), r.Intn(V), r.Intn(N)
		lock[b].shares[i] = lock[a].shares[i]
		g.e.run.Count("lock:dup_share_same_pos")
	}
	if V >= 2 && r.Chance(1, 8) { // … at another position
		a, b := r.Intn(V), r.Intn(V)
		lock[b].shares[r.Intn(N)] = lock[a].shares[r.Intn(N)]
		g.e.run.Count("lock:dup_share_other_pos")
	}
	if V >= 3 && r.Chance(1, 10) { // three validators share one public share
		i := r.Intn(N)
		lock[1].shares[i] = lock[0].shares[i]
		lock[2].shares[i] = lock[0].shares[i]
		g.e.run.Count("lock:triple_share")
	}
	if V >= 2 && r.Chance(1, 10) { // repeated validator key
		lock[r.Intn(V)].pk = lock[r.Intn(V)].pk
		g.e.run.Count("lock:dup_validator_key")
	}
	if r.Chance(1, 10) { // a share that equals a validator key
		lock[r.Intn(V)].shares[r.Intn(N)] = lock[r.Intn(V)].pk
		g.e.run.Count("lock:share_is_validator_key")
	}
	if r.Chance(1, 12) { // the zero key as a share
		lock[r.Intn(V)].shares[r.Intn(N)] = 0
		g.e.run.Count("lock:zero_share")
	}
	if r.Chance(1, 10) { // one validator with fewer shares
		j := r.Intn(V)
		lock[j].shares = lock[j].shares[:len(lock[j].shares)-1-r.Intn(2)]
		g.e.run.Count("lock:short_validator")
	}
	if r.Chance(1, 40) {
		lock = nil
	}
	peerIdx = r.Intn(N)
	shareIdx = peerIdx + 1
	switch {
	case r.Chance(1, 12):
		peerIdx = []int{-1, N, N + 1, N - 1}[r.Intn(4)]
		shareIdx = peerIdx + 1
	case r.Chance(1, 10): // the component's share index is not the peer index + 1
		shareIdx = r.Intn(N+4) - 1
		g.e.run.Count("lock:share_idx_off")
	}
	return lock, peerIdx, shareIdx
}

func (g *gen) somePk() int {
	r := g.r
	lock := g.e.lock
	switch {
	case len(lock) > 0 && r.Chance(7, 10):
		return lock[r.Intn(len(lock))].pk
	case len(lock) > 0 && r.Chance(1, 3):
		v := lock[r.Intn(len(lock))]
		if len(v.shares) > 0 {
			return v.shares[r.Intn(len(v.shares))]
		}
		return 0
	case r.Chance(1, 6):
		return 0
	default:
		return 9000 + r.Intn(5)
	}
}

func (g *gen) someShare() int {
	r := g.r
	lock := g.e.lock
	if len(lock) == 0 {
		return 9000 + r.Intn(3)
	}
	v := lock[r.Intn(len(lock))]
	switch {
	case r.Chance(6, 10) && g.e.shareIdx >= 1 && g.e.shareIdx <= len(v.shares):
		return v.shares[g.e.shareIdx-1]
	case r.Chance(1, 2) && len(v.shares) > 0:
		return v.shares[r.Intn(len(v.shares))]
	case r.Chance(1, 3):
		return v.pk
	case r.Chance(1, 3):
		return 0
	default:
		return 9000 + r.Intn(5)
	}
}

func (g *gen) script(kind string) []duty {
	r := g.r
	n := r.Intn(7)
	clean := r.Chance(6, 10)
	var out []duty
	for i := 0; i < n; i++ {
		switch {
		case !clean && r.Chance(1, 12):
			out = append(out, duty{isNil: true})
		case !clean && r.Chance(1, 4):
			out = append(out, duty{pk: 9000 + r.Intn(4), rest: r.Intn(1000)})
		case !clean && r.Chance(1, 10):
			out = append(out, duty{pk: g.someShare(), rest: r.Intn(1000)})
		case len(g.e.lock) > 0:
			out = append(out, duty{pk: g.e.lock[r.Intn(len(g.e.lock))].pk, rest: r.Intn(1000)})
		default:
			out = append(out, duty{pk: 9000, rest: r.Intn(1000)})
		}
		if len(out) > 1 && r.Chance(1, 10) { // the same validator index twice
			out[len(out)-1].rest = out[0].rest
		}
	}
	if kind == "p" && r.Chance(1, 3) { // proposer duties of the whole epoch: mostly foreign validators
		for i := 0; i < 3; i++ {
			out = append(out, duty{pk: 9100 + r.Intn(50), rest: r.Intn(1000)})
		}
	}
	return out
}

func (g *gen) bnWorld() (map[int]val, []int) {
	r := g.r
	bn := map[int]val{}
	var cached []int
	used := map[int]bool{}
	add := func(pk int) {
		if used[pk] {
			return
		}
		used[pk] = true
		i := 1 + r.Intn(60)
		for {
			if _, ok := bn[i]; !ok {
				break
			}
			i++
		}
		bn[i] = val{pk: pk, rest: 1 + r.Intn(900)}
		if r.Chance(1, 2) {
			cached = append(cached, i)
		}
	}
	for _, v := range g.e.lock {
		if r.Chance(8, 10) {
			add(v.pk)
		}
	}
	for k := r.Intn(3); k > 0; k-- {
		add(9000 + r.Intn(5))
	}
	if r.Chance(1, 12) {
		bn[70] = val{isNil: true}
	}
	sort.Ints(cached)
	return bn, cached
}

func (g *gen) valsReq() (shares, idxs []int) {
	r := g.r
	if r.Chance(1, 8) {
		return nil, nil
	}
	clean := r.Chance(6, 10)
	for k := r.Intn(4); k > 0; k-- {
		if clean && len(g.e.lock) > 0 {
			v := g.e.lock[r.Intn(len(g.e.lock))]
			if g.e.shareIdx >= 1 && g.e.shareIdx <= len(v.shares) {
				shares = append(shares, v.shares[g.e.shareIdx-1])
				continue
			}
		}
		shares = append(shares, g.someShare())
	}
	if r.Chance(1, 3) {
		var have []int
		for i := range g.e.w.bn {
			have = append(have, i)
		}
		sort.Ints(have)
		for k := 1 + r.Intn(2); k > 0; k-- {
			if len(have) > 0 && r.Chance(8, 10) {
				idxs = append(idxs, have[r.Intn(len(have))])
			} else {
				idxs = append(idxs, 80+r.Intn(5))
			}
		}
	}
	return shares, idxs
}

func generate(run *hx.Run, a hx.Args) {
	g := &gen{r: hx.NewRng(a.Seed), e: &episode{run: run}}
	r := g.r
	for run.NOps < a.N && !run.Enough() {
		lock, p, s := g.newLock()
		g.e.exec(fmt.Sprintf("cfg %d %d %s", p, s, showLock(lock)))
		if g.e.comp == nil {
			if r.Chance(1, 2) {
				g.e.exec(fmt.Sprintf("share %d", g.somePk()))
			}
			continue
		}
		bn, cached := g.bnWorld()
		g.e.exec(fmt.Sprintf("bn %s %s", showBn(bn), showInts(cached)))
		for k := 12 + r.Intn(25); k > 0 && run.NOps < a.N; k-- {
			switch x := r.Intn(100); {
			case x < 12:
				g.e.exec(fmt.Sprintf("share %d", g.somePk()))
			case x < 27:
				g.e.exec(fmt.Sprintf("key %d", g.someShare()))
			case x < 35:
				g.e.exec(fmt.Sprintf("all %d %d", g.somePk(), r.Intn(10)-1))
			case x < 70:
				kind := []string{"p", "a", "s"}[r.Intn(3)]
				mode := []string{"c", "d", "r"}[r.Intn(3)]
				md := "-"
				if r.Chance(2, 3) {
					md = strconv.Itoa(r.Intn(50))
				}
				g.e.exec(fmt.Sprintf("duties %s %s %s %s", kind, mode, md, showScript(g.script(kind))))
			case x < 75:
				bn, cached := g.bnWorld()
				g.e.exec(fmt.Sprintf("bn %s %s", showBn(bn), showInts(cached)))
			default:
				sh, ix := g.valsReq()
				g.e.exec(fmt.Sprintf("vals %s %s", showInts(sh), showInts(ix)))
			}
		}
	}
}

func main() {
	a := hx.ParseArgs()
	hx.Must(log.InitLogger(log.Config{Level: "fatal", Format: "console", Color: "disable"}))
	ctx, cancel := context.WithCancel(context.Background())
	defer cancel()
	m, err := beaconmock.New(ctx)
	hx.Must(err)
	base = m
	run := hx.NewRun(a.Dir)
	defer run.Close()
	e := &episode{run: run}
	if a.Mode == "exec" {
		for _, l := range hx.ReadOps(a.Ops) {
			e.exec(l)
		}
		return
	}
	generate(run, a)
}
