package main

import (
	"encoding/hex"
	"fmt"
	"strconv"
	"strings"

	"verifharness/hx"
)

// gen produces about n ops in episodes (each starts with `cfg`: a fresh, empty base directory). The generator looks
// at the real directory tree (d.walk) to pick existing files for its mutations; every op it emits is executable
// from the op line alone.
type generator struct {
	d       *driver
	r       *hx.Rng
	emit    func(string)
	placeNo int
}

func gen(d *driver, r *hx.Rng, n int, do func(string)) {
	g := &generator{d: d, r: r}
	count := 0
	g.emit = func(s string) { do(s); count++ }
	for count < n && !d.run.Enough() {
		g.emit("cfg")
		switch x := r.Intn(100); {
		case x < 40:
			g.flatEpisode()
		case x < 55:
			g.recursiveEpisode()
		case x < 65:
			g.idxBatch()
		case x < 78:
			g.k2vBatch()
		case x < 86:
			g.placeEpisode()
		case x < 91:
			g.shareIdxBatch()
		default:
			g.storeErrorEpisode()
		}
	}
}

func (g *generator) numSecrets() int {
	switch x := g.r.Intn(100); {
	case x < 3:
		return 0
	case x < 50:
		return 1 + g.r.Intn(10)
	default:
		return 11 + g.r.Intn(15)
	}
}

func (g *generator) secretIDs(k int) []int {
	ids := make([]int, k)
	for i := range ids {
		ids[i] = 1 + g.r.Intn(400)
	}
	return ids
}

func (g *generator) mkdirs(path string) {
	parts := strings.Split(path, "/")
	for i := range parts {
		g.emit("mkdir " + strings.Join(parts[:i+1], "/"))
	}
}

var flatDirs = []string{"d0", "d0", "d0", "d0", "validator_keys", ".charon/validator_keys", "node0/validator_keys",
	"keystore-7.json.d", "a.json", "keystore-3xjson", "keystore-", "x.jsonl/keys", "keystore-insecure-2yjson/v"}

func (g *generator) jsonFiles(dir string) []string {
	var out []string
	for _, e := range g.d.walk() {
		if !e.dir && strings.HasPrefix(e.rel, dir+"/") && !strings.Contains(e.rel[len(dir)+1:], "/") &&
			strings.HasPrefix(e.rel[len(dir)+1:], "keystore-") && strings.HasSuffix(e.rel, ".json") {
			out = append(out, e.rel)
		}
	}
	return out
}

func txtOf(p string) string { return strings.TrimSuffix(p, ".json") + ".txt" }

func (g *generator) flatEpisode() {
	r := g.r
	dir := flatDirs[r.Intn(len(flatDirs))]
	g.mkdirs(dir)
	k := g.numSecrets()
	mode := "ins"
	if r.Chance(2, 100) && k <= 3 {
		mode = "sec"
	}
	g.emit(fmt.Sprintf("store %s %s %s", dir, mode, joinInts(g.secretIDs(k))))
	g.emit("load " + dir)
	if r.Chance(1, 4) {
		g.emit("load " + dir) // another arrival order
	}
	if r.Chance(1, 6) {
		g.emit("loadrec " + dir)
	}
	pre := "keystore-insecure-"
	if mode == "sec" {
		pre = "keystore-"
	}
	q := 0
	nm := r.Intn(7)
	for m := 0; m < nm; m++ {
		files := g.jsonFiles(dir)
		pick := func() string {
			if len(files) == 0 {
				return dir + "/" + pre + "0.json"
			}
			return files[r.Intn(len(files))]
		}
		withTxt := func(f func(j, t string)) { f(".json", ".txt") }
		_ = withTxt
		switch x := r.Intn(20); x {
		case 0: // gap: move a file to an index beyond the end
			f := pick()
			j := len(files) + r.Intn(3)
			nf := fmt.Sprintf("%s/%s%d.json", dir, pre, j)
			g.emit("mv " + f + " " + nf)
			if r.Chance(4, 5) {
				g.emit("mv " + txtOf(f) + " " + txtOf(nf))
			}
		case 1: // duplicate through a leading zero
			f := pick()
			base := f[strings.LastIndex(f, "-")+1:]
			nf := f[:strings.LastIndex(f, "-")+1] + strings.Repeat("0", 1+r.Intn(2)) + base
			g.emit("cp " + f + " " + nf)
			g.emit("cp " + txtOf(f) + " " + txtOf(nf))
		case 2: // same index under the other naming scheme
			f := pick()
			var nf string
			if strings.Contains(f, "keystore-insecure-") {
				nf = strings.Replace(f, "keystore-insecure-", "keystore-", 1)
			} else {
				nf = strings.Replace(f, "/keystore-", "/keystore-insecure-", 1)
			}
			if r.Chance(1, 2) {
				g.emit("mv " + f + " " + nf)
				g.emit("mv " + txtOf(f) + " " + txtOf(nf))
			} else {
				g.emit("cp " + f + " " + nf)
				g.emit("cp " + txtOf(f) + " " + txtOf(nf))
			}
		case 3: // remove the last / a middle file
			if len(files) > 0 {
				f := files[r.Intn(len(files))]
				if r.Chance(1, 2) {
					f = fmt.Sprintf("%s/%s%d.json", dir, pre, len(files)-1)
				}
				g.emit("rm " + f)
				if r.Chance(2, 3) {
					g.emit("rm " + txtOf(f))
				}
			}
		case 4: // password file missing
			g.emit("rm " + txtOf(pick()))
		case 5: // swap two files (with their passwords)
			if len(files) >= 2 {
				a, b := files[r.Intn(len(files))], files[r.Intn(len(files))]
				if a != b {
					tmp := dir + "/tmp.json"
					g.emit("mv " + a + " " + tmp)
					g.emit("mv " + b + " " + a)
					g.emit("mv " + tmp + " " + b)
					if r.Chance(4, 5) {
						g.emit("mv " + txtOf(a) + " " + txtOf(tmp))
						g.emit("mv " + txtOf(b) + " " + txtOf(a))
						g.emit("mv " + txtOf(tmp) + " " + txtOf(b))
					}
				}
			}
		case 6: // unrelated files
			switch r.Intn(4) {
			case 0:
				g.emit("put " + dir + "/cluster-lock.json lock")
			case 1:
				g.emit("put " + dir + "/deposit-data.json pw 77")
			case 2:
				g.emit("put " + dir + "/keystore-deposit.json obj")
			default:
				g.emit("put " + dir + "/notes.txt pw 78")
			}
		case 7: // a keystore without index in its name
			q++
			nm := []string{"keystore-foo.json", "keystore-.json", "keystore-a1.json", "keystore-insecure-.json", "keystore--1.json"}[r.Intn(5)]
			g.emit(fmt.Sprintf("put %s/%s ks %d %d", dir, nm, 1+r.Intn(400), q))
			g.emit(fmt.Sprintf("put %s/%s pw %d", dir, txtOf(nm), q))
		case 8: // names the unanchored expression reads in its own way
			q++
			nm := []string{"keystore-12json.json", "keystore-1-keystore-2.json", "keystore-0xjson.json", "keystore-insecure-insecure-3.json",
				"keystore-5.json.json", "keystore-2.jsonkeystore-9.json"}[r.Intn(6)]
			g.emit(fmt.Sprintf("put %s/%s ks %d %d", dir, nm, 1+r.Intn(400), q))
			g.emit(fmt.Sprintf("put %s/%s pw %d", dir, strings.Replace(nm, ".json", ".txt", 1), q))
		case 9: // huge numbers
			q++
			nm := []string{"keystore-9223372036854775808.json", "keystore-9223372036854775807.json", "keystore-18446744073709551616.json",
				"keystore-000000000000000000000000000001.json", "keystore-99999999999999999999999.json"}[r.Intn(5)]
			g.emit(fmt.Sprintf("put %s/%s ks %d %d", dir, nm, 1+r.Intn(400), q))
			g.emit(fmt.Sprintf("put %s/%s pw %d", dir, txtOf(nm), q))
		case 10: // wrong password
			q++
			g.emit(fmt.Sprintf("put %s pw %d", txtOf(pick()), 500+q))
		case 11: // a directory that matches the glob
			g.emit(fmt.Sprintf("mkdir %s/%s%d.json", dir, pre, len(files)))
		case 12: // a crafted keystore of the all-zero secret sharing index 0 / the last index
			q++
			i := 0
			if r.Chance(1, 2) && len(files) > 0 {
				i = len(files) - 1
			}
			nm := fmt.Sprintf("%s0%d.json", pre, i)
			g.emit(fmt.Sprintf("put %s/%s ks 0 %d", dir, nm, q))
			g.emit(fmt.Sprintf("put %s/%s pw %d", dir, txtOf(nm), q))
		case 13: // store again into the used directory
			k2 := g.numSecrets()
			m2 := "ins"
			if r.Chance(1, 4) && k2 <= 1 {
				m2 = "sec"
			}
			g.emit(fmt.Sprintf("store %s %s %s", dir, m2, joinInts(g.secretIDs(k2))))
		case 14: // a file is replaced by another keystore file of the directory (content copy)
			if len(files) >= 2 {
				a, b := files[r.Intn(len(files))], files[r.Intn(len(files))]
				if a != b {
					g.emit("cp " + a + " " + b)
					if r.Chance(3, 4) {
						g.emit("cp " + txtOf(a) + " " + txtOf(b))
					}
				}
			}
		case 15: // garbage instead of a keystore
			g.emit("put " + pick() + " pw 79")
		case 16: // nested directory with more keystores (invisible to the flat loader)
			q++
			g.emit("mkdir " + dir + "/sub")
			g.emit(fmt.Sprintf("put %s/sub/keystore-0.json ks %d %d", dir, 1+r.Intn(400), q))
			g.emit(fmt.Sprintf("put %s/sub/keystore-0.txt pw %d", dir, q))
		case 17:
			g.emit("ls")
		default: // a correct extension: the next index
			q++
			nf := fmt.Sprintf("%s/%s%d.json", dir, pre, len(files))
			g.emit(fmt.Sprintf("put %s ks %d %d", nf, 1+r.Intn(400), q))
			g.emit(fmt.Sprintf("put %s pw %d", txtOf(nf), q))
		}
		g.emit("load " + dir)
		if r.Chance(1, 8) {
			g.emit("loadrec " + dir)
		}
	}
}

func (g *generator) recursiveEpisode() {
	r := g.r
	dirs := []string{"r", "r/a", "r/a/b", "r/c"}
	for _, d := range dirs {
		g.emit("mkdir " + d)
	}
	noTxt := r.Chance(1, 10)
	nk := r.Intn(8)
	names := []string{"keystore-0.json", "keystore-1.json", "key.json", "validator.json", "keystore-insecure-4.json", "x.json", "k.txt.json", "0.json"}
	for i := 0; i < nk; i++ {
		d := dirs[r.Intn(len(dirs))]
		nm := names[r.Intn(len(names))]
		p := d + "/" + nm
		sec := 1 + r.Intn(400)
		q := 100 + i
		if r.Chance(1, 6) {
			q = 100 // a shared password
		}
		g.emit(fmt.Sprintf("put %s ks %d %d", p, sec, q))
		if noTxt {
			continue
		}
		switch x := r.Intn(20); {
		case x < 13:
			g.emit(fmt.Sprintf("put %s pw %d", strings.Replace(p, ".json", ".txt", 1), q))
		case x < 16: // the password is somewhere else in the tree
			g.emit(fmt.Sprintf("put %s/pw%d.txt pw %d", dirs[r.Intn(len(dirs))], i, q))
		case x < 18: // a wrong password next to it, the right one elsewhere
			g.emit(fmt.Sprintf("put %s pw %d", strings.Replace(p, ".json", ".txt", 1), 900+i))
			g.emit(fmt.Sprintf("put %s/other%d.txt pw %d", dirs[r.Intn(len(dirs))], i, q))
		default: // none
		}
	}
	if r.Chance(1, 3) {
		g.emit("put r/deposit-data.json pw 77")
	}
	if r.Chance(1, 8) {
		g.emit("put r/c/cluster-lock.json lock")
	}
	if r.Chance(1, 8) {
		g.emit("put r/a/empty.json obj")
	}
	if r.Chance(1, 4) {
		g.emit("ls")
	}
	g.emit("loadrec r")
	if r.Chance(1, 2) {
		g.emit("loadrec r/a")
	}
	if r.Chance(1, 3) {
		g.emit("load r")
	}
	if r.Chance(1, 4) {
		g.emit("load r/a")
	}
	if r.Chance(1, 6) {
		g.emit("loadrec nope")
	}
	if r.Chance(1, 6) {
		g.emit("load nope")
	}
	if r.Chance(1, 5) {
		g.emit("loadrec r/a/b/keystore-0.json") // Walk of a file visits that file
	}
}

var idxAlphabet = "keystore-insecure-0123456789.json/x\n"

func (g *generator) idxString() string {
	r := g.r
	if r.Chance(1, 6) { // random soup over the alphabet of the expression
		n := r.Intn(30)
		var sb strings.Builder
		for i := 0; i < n; i++ {
			switch r.Intn(6) {
			case 0:
				sb.WriteString("keystore-")
			case 1:
				sb.WriteString("json")
			case 2:
				sb.WriteString(strconv.Itoa(r.Intn(200)))
			default:
				sb.WriteByte(idxAlphabet[r.Intn(len(idxAlphabet))])
			}
		}
		return sb.String()
	}
	pick := func(xs ...string) string { return xs[r.Intn(len(xs))] }
	digits := func() string {
		switch r.Intn(12) {
		case 0:
			return ""
		case 1:
			return "0"
		case 2:
			return strings.Repeat("0", 1+r.Intn(25)) + strconv.Itoa(r.Intn(30))
		case 3:
			return "9223372036854775807"
		case 4:
			return "9223372036854775808"
		case 5:
			return "18446744073709551615"
		case 6:
			return "18446744073709551616"
		case 7:
			return strconv.Itoa(r.Intn(10)) + strings.Repeat("9", 18+r.Intn(3))
		case 8:
			return "+" + strconv.Itoa(r.Intn(30))
		case 9:
			return "-" + strconv.Itoa(r.Intn(30))
		default:
			return strconv.Itoa(r.Intn(3000))
		}
	}
	return pick("", "", "", "x/", "/abs/dir/", "a/keystore-7.json.d/", "keystore-", "akeystore-", "keystore-9/", "keystore-4xjson/", "Keystore-1.json/") +
		pick("keystore-", "keystore-", "keystore-", "keystore-", "keystore", "Keystore-", "keystor-") +
		pick("", "", "", "insecure-", "insecure-", "insecure-insecure-", "insecure", "secure-") +
		digits() +
		pick(".", ".", ".", ".", "x", "\n", "-", "", "/", "9", "１", "..") +
		pick("json", "json", "json", "json", "jso", "jsonx", "JSON", "txt", "") +
		pick("", "", "", ".json", "keystore-5.json", "/keystore-6.json", ".bak")
}

func (g *generator) idxBatch() {
	n := 20 + g.r.Intn(30)
	for i := 0; i < n; i++ {
		g.emit("idx " + hexOrDash(g.idxString()))
	}
}

func hexOrDash(s string) string {
	if s == "" {
		return "-"
	}
	return hex.EncodeToString([]byte(s))
}

func (g *generator) k2vBatch() {
	r := g.r
	n := 6 + r.Intn(10)
	for it := 0; it < n; it++ {
		V := r.Intn(14)
		if r.Chance(1, 5) {
			V = 11 + r.Intn(15)
		}
		N := 1 + r.Intn(6)
		vids := make([]int, V)
		sh := make([][]int, V)
		for k := 0; k < V; k++ {
			vids[k] = 1000 + k
			for i := 1; i <= N; i++ {
				sh[k] = append(sh[k], 2000+10*k+i)
			}
		}
		node := 1 + r.Intn(N)
		var shares []int
		for k := 0; k < V; k++ {
			shares = append(shares, 2000+10*k+node)
		}
		// honest variations: subset, shuffled
		if r.Chance(1, 3) {
			p := r.Perm(len(shares))
			s2 := make([]int, len(shares))
			for i, j := range p {
				s2[i] = shares[j]
			}
			shares = s2
		}
		if r.Chance(1, 4) && len(shares) > 0 {
			shares = shares[:r.Intn(len(shares)+1)]
		}
		// adversarial variations
		if V >= 2 {
			switch r.Intn(12) {
			case 0: // a public share listed for two validators
				a, b := r.Intn(V), r.Intn(V)
				sh[b] = append(sh[b], sh[a][r.Intn(N)])
			case 1: // the same public share twice in one validator (not an error)
				a := r.Intn(V)
				sh[a] = append(sh[a], sh[a][r.Intn(N)])
			case 2: // a share that is in no validator
				shares = append(shares, 3990+r.Intn(5))
				if r.Chance(1, 2) && len(shares) > 1 {
					i := r.Intn(len(shares) - 1)
					shares[i], shares[len(shares)-1] = shares[len(shares)-1], shares[i]
				}
			case 3: // two shares of one validator
				k := r.Intn(V)
				o := 1 + r.Intn(N)
				shares = append(shares, 2000+10*k+o)
			case 4: // the zero key
				if len(shares) > 0 {
					shares[r.Intn(len(shares))] = 0
				} else {
					shares = append(shares, 0)
				}
			case 5: // the same validator twice in the lock (same key, same shares)
				a := r.Intn(V)
				vids = append(vids, vids[a])
				sh = append(sh, sh[a])
			case 6: // the same validator key with other shares, one of them colliding with a third validator
				a, b := r.Intn(V), r.Intn(V)
				vids = append(vids, vids[a])
				sh = append(sh, []int{sh[b][0]})
			case 7: // a validator's share removed from the lock
				a := r.Intn(V)
				sh[a] = sh[a][:0]
			}
		}
		var ls []string
		for k := range vids {
			ls = append(ls, fmt.Sprintf("%d:%s", vids[k], joinInts(sh[k])))
		}
		l := "-"
		if len(ls) > 0 {
			l = strings.Join(ls, ";")
		}
		g.emit("k2v " + l + " " + joinInts(shares))
	}
}

func (g *generator) placeEpisode() {
	r := g.r
	g.placeNo++
	V := g.numSecrets()
	N := 2 + r.Intn(5)
	T := 2 + r.Intn(N-1)
	mode := "ins"
	if r.Chance(1, 50) && V <= 2 && N <= 3 {
		mode = "sec"
	}
	g.emit(fmt.Sprintf("place %d %d %d %d %s pl", 100000+10000*g.placeNo, V, N, T, mode))
	if r.Chance(1, 3) {
		g.emit(fmt.Sprintf("load pl/n%d", r.Intn(N)))
	}
	if r.Chance(1, 5) {
		g.emit("loadrec pl")
	}
	if r.Chance(1, 10) {
		g.emit("ls")
	}
}

func (g *generator) shareIdxBatch() {
	r := g.r
	n := 4 + r.Intn(8)
	for it := 0; it < n; it++ {
		N := r.Intn(8)
		var ops []string
		for i := 0; i < N; i++ {
			ops = append(ops, strconv.Itoa(1+r.Intn(9)))
		}
		if r.Chance(1, 8) && N > 0 {
			ops[r.Intn(N)] = "x"
		}
		o := "-"
		if len(ops) > 0 {
			o = strings.Join(ops, ",")
		}
		g.emit(fmt.Sprintf("shareidx %s %d", o, 1+r.Intn(10)))
	}
}

func (g *generator) storeErrorEpisode() {
	r := g.r
	k := 1 + r.Intn(14)
	ids := g.secretIDs(k)
	switch r.Intn(7) {
	case 0: // the directory does not exist
		g.emit("store nope ins " + joinInts(ids))
		g.emit("load nope")
	case 1: // the directory is a file
		g.emit("put f.json obj")
		g.emit("store f.json ins " + joinInts(ids))
		g.emit("load f.json")
	case 2: // the zero key among the secrets
		g.emit("mkdir d0")
		ids[r.Intn(k)] = 0
		g.emit("store d0 ins " + joinInts(ids))
		g.emit("load d0")
	case 3: // ".json" in the directory name: the password path points elsewhere
		g.emit("mkdir a.json")
		if r.Chance(1, 2) {
			g.emit("mkdir a.txt")
		}
		g.emit("store a.json ins " + joinInts(ids))
		g.emit("load a.json")
		g.emit("ls")
	case 4: // a directory squats on a keystore file name
		g.emit("mkdir d0")
		g.emit(fmt.Sprintf("mkdir d0/keystore-insecure-%d.json", r.Intn(k)))
		g.emit("store d0 ins " + joinInts(ids))
		g.emit("load d0")
	case 5: // a directory squats on a password file name
		g.emit("mkdir d0")
		g.emit(fmt.Sprintf("mkdir d0/keystore-insecure-%d.txt", r.Intn(k)))
		g.emit("store d0 ins " + joinInts(ids))
		g.emit("load d0")
	default: // no secrets at all
		g.emit("mkdir d0")
		g.emit("store d0 ins -")
		g.emit("load d0")
	}
}
