// drive-keystore: correspondence driver for the file / ordering / mapping logic of eth2util/keystore (C12, stream
// `keystore`; model lean/CharonV/Model/Keystore.lean, line driver lean/Driver/Keystore.lean).
//
// Runs the REAL package on real files in directories below the run's -dir: StoreKeys / StoreKeysInsecure,
// LoadFilesUnordered, LoadFilesRecursively, KeyFiles.Keys / SequencedKeys, KeysharesToValidatorPubkey (locks with real
// tbls keys), ShareIdxForCluster (locks with real ENRs) and extractFileIndex (hook VerifExtractFileIndex), on honest
// and adversarial directory contents (renamed files: gaps, duplicates, leading zeros, names the unanchored regular
// expression reads differently, unrelated files, missing / wrong password files, directories squatting on file
// names, nested directories, a second store into a used directory, crafted keystores of the all-zero secret).
//
// After every op the whole world below the episode's base directory is read back, classified by CONTENT (keystore
// of which secret under which password / other JSON object / anything else = a password text) and compared with the
// model's world through a digest (`W=<entries>:<fnv32>`; op `ls` prints it in full).
//
// Where the Go code leaves the outcome to the scheduler the observation is appended to the op line and the model has
// to explain it (`impossible` otherwise):
//
//	load / loadrec, success:   ` ~ ord=…`   arrival order of the results (indices into the sorted file list; for the
//	                                       recursive loader each with the FileIndex the atomic counter gave it)
//	load / loadrec / store, failure:  ` ~ e=<class>` (store: ` ~ wr=<indices whose keystore file was written> e=<class>`):
//	                                       the reported error must be the error of one of the work functions.
//
// ops (grammar in lean/Driver/Keystore.lean).
package main

import (
	"bytes"
	"crypto/sha256"
	"encoding/hex"
	"encoding/json"
	"fmt"
	"math/rand"
	"os"
	"path/filepath"
	"regexp"
	"sort"
	"strconv"
	"strings"
	"testing"

	k1 "github.com/decred/dcrd/dcrec/secp256k1/v4"
	keystorev4 "github.com/wealdtech/go-eth2-wallet-encryptor-keystorev4"
	"go.uber.org/zap"

	"github.com/obolnetwork/charon/app/z"
	"github.com/obolnetwork/charon/cluster"
	"github.com/obolnetwork/charon/core"
	"github.com/obolnetwork/charon/eth2util/enr"
	"github.com/obolnetwork/charon/eth2util/keystore"
	"github.com/obolnetwork/charon/tbls"

	"verifharness/hx"
)

// ---------------------------------------------------------------------------------------------
// secrets and passwords

type driver struct {
	run    *hx.Run
	root   string // the run's -dir
	base   string // base directory of the current episode
	ep     int
	secBy  map[int]tbls.PrivateKey
	idBy   map[tbls.PrivateKey]int
	pubHex map[string]int // core.PubKey (0x…) -> secret id
	known  []string       // every password text seen so far
	knownS map[string]bool
	cls    map[[32]byte]classified
	// what the monitors remember about the last successful store into a directory
	stored map[string]*storedInfo
	rnd    *rand.Rand // only for the random source of tbls.*Insecure (values are registered under ids, never printed)
}

type storedInfo struct {
	secrets []int
	clean   bool // no file of the directory matched keystore-*.json before the store
	touched bool // the directory was changed by another op since
}

type classified struct {
	kind   byte // K keystore, O other JSON object, T anything else
	sec    int
	pw     string
	tried  int  // for O: number of known passwords tried
	crypto bool // for O: it has a crypto section (a keystore nobody knows the password of)
}

var zeroKey tbls.PrivateKey

// secret returns the real key registered for a symbolic id (0 = the all-zero key; ids below 100000 are derived from
// the id, larger ones are registered by op place).
func (d *driver) secret(id int) tbls.PrivateKey {
	if id == 0 {
		return zeroKey
	}
	if k, ok := d.secBy[id]; ok {
		return k
	}
	h := sha256.Sum256([]byte("verif-keystore-secret-" + strconv.Itoa(id)))
	h[0] &= 0x3f // below the group order, big endian
	k := tbls.PrivateKey(h)
	d.register(id, k)
	return k
}

func (d *driver) register(id int, k tbls.PrivateKey) {
	d.secBy[id] = k
	d.idBy[k] = id
	if pk, err := tbls.SecretToPublicKey(k); err == nil {
		d.pubHex[string(core.PubKeyFrom48Bytes(pk))] = id
	}
}

func (d *driver) secID(k tbls.PrivateKey) int {
	if k == zeroKey {
		return 0
	}
	if id, ok := d.idBy[k]; ok {
		return id
	}
	return -1
}

func (d *driver) pub(id int) tbls.PublicKey {
	pk, err := tbls.SecretToPublicKey(d.secret(id))
	hx.Must(err)
	return pk
}

func pwText(q int) string { return fmt.Sprintf("verif-password-%d", q) }

func (d *driver) learn(pw string) {
	if !d.knownS[pw] {
		d.knownS[pw] = true
		d.known = append(d.known, pw)
	}
}

var fastEnc = keystorev4.New(keystorev4.WithCost(new(testing.T), 4))

// craft builds a keystore JSON directly with the encryptor (never through the code under test): any secret, the
// all-zero one included.
func craft(sec tbls.PrivateKey, pw string) []byte {
	f, err := fastEnc.Encrypt(sec[:], pw)
	hx.Must(err)
	b, err := json.Marshal(keystore.Keystore{Crypto: f, Path: "m/12381/3600/0/0/0", ID: "verif", Version: 4})
	hx.Must(err)
	return b
}

// ---------------------------------------------------------------------------------------------
// the world as it is on disk

type went struct {
	rel    string
	dir    bool
	kind   byte
	sec    int
	pw     string
	crypto bool
}

func (d *driver) abs(rel string) string { return filepath.Join(d.base, filepath.FromSlash(rel)) }

func (d *driver) rel(abs string) string {
	r, err := filepath.Rel(d.base, abs)
	if err != nil {
		return "?" + abs
	}
	return filepath.ToSlash(r)
}

func (d *driver) classify(path string, b []byte) classified {
	h := sha256.Sum256(b)
	c, ok := d.cls[h]
	if ok && c.kind != 'O' {
		return c
	}
	var ks keystore.Keystore
	if err := json.Unmarshal(b, &ks); err != nil {
		c = classified{kind: 'T', pw: string(b)}
		d.cls[h] = c
		return c
	}
	try := func(pw string) bool {
		sb, err := keystorev4.New().Decrypt(ks.Crypto, pw)
		if err != nil || len(sb) != 32 {
			return false
		}
		c = classified{kind: 'K', sec: d.secID(tbls.PrivateKey(sb)), pw: pw}
		return true
	}
	if len(ks.Crypto) == 0 {
		c = classified{kind: 'O', tried: 1 << 30}
		d.cls[h] = c
		return c
	}
	if !ok { // first sight: the sibling password file first
		if pb, err := os.ReadFile(strings.Replace(path, ".json", ".txt", 1)); err == nil && try(string(pb)) {
			d.cls[h] = c
			return c
		}
	}
	if costly(ks) { // a full-cost keystore is only ever tried with its sibling password at first sight
		c = classified{kind: 'O', crypto: true, tried: 1 << 30}
		d.cls[h] = c
		return c
	}
	for i := len(d.known) - 1; i >= c.tried; i-- { // newest first: a crafted keystore's password was learnt last
		if try(d.known[i]) {
			d.cls[h] = c
			return c
		}
	}
	c = classified{kind: 'O', crypto: true, tried: len(d.known)}
	d.cls[h] = c
	return c
}

// costly: the key derivation of the keystore is not the 2^4 rounds of the insecure variant.
func costly(ks keystore.Keystore) bool {
	kdf, _ := ks.Crypto["kdf"].(map[string]any)
	params, _ := kdf["params"].(map[string]any)
	if c, ok := params["c"].(float64); ok {
		return c > 1024
	}
	if n, ok := params["n"].(float64); ok {
		return n > 1024
	}
	return true
}

// walk reads the whole episode world back from disk (sorted by relative path, bytewise).
func (d *driver) walk() []went {
	var out []went
	var files []string
	hx.Must(filepath.Walk(d.base, func(p string, info os.FileInfo, err error) error {
		if err != nil {
			return err
		}
		if p == d.base {
			return nil
		}
		if info.IsDir() {
			out = append(out, went{rel: d.rel(p), dir: true})
		} else {
			files = append(files, p)
		}
		return nil
	}))
	contents := make(map[string][]byte, len(files))
	for _, p := range files { // pass 1: everything that is not JSON is a password text
		b, err := os.ReadFile(p)
		hx.Must(err)
		contents[p] = b
		var ks keystore.Keystore
		if json.Unmarshal(b, &ks) != nil {
			d.learn(string(b))
		}
	}
	for _, p := range files {
		c := d.classify(p, contents[p])
		out = append(out, went{rel: d.rel(p), kind: c.kind, sec: c.sec, pw: c.pw, crypto: c.crypto})
	}
	sort.Slice(out, func(i, j int) bool { return out[i].rel < out[j].rel })
	return out
}

// dump: the canonical text of a world. A keystore whose password is not the content of any file of the world is
// printed as `K?` (the secret of a keystore nobody has the password of cannot be observed).
func dump(w []went) string {
	present := map[string]bool{}
	for _, e := range w {
		if !e.dir && e.kind == 'T' {
			present[e.pw] = true
		}
	}
	ids := map[string]int{}
	id := func(pw string) int {
		if v, ok := ids[pw]; ok {
			return v
		}
		ids[pw] = len(ids)
		return len(ids) - 1
	}
	var sb strings.Builder
	for i, e := range w {
		if i > 0 {
			sb.WriteByte(' ')
		}
		sb.WriteString(e.rel)
		sb.WriteByte('=')
		switch {
		case e.dir:
			sb.WriteByte('D')
		case e.kind == 'K' && present[e.pw]:
			fmt.Fprintf(&sb, "K%d:%d", e.sec, id(e.pw))
		case e.kind == 'K' || (e.kind == 'O' && e.crypto):
			sb.WriteString("K?")
		case e.kind == 'O':
			sb.WriteByte('O')
		default:
			fmt.Fprintf(&sb, "T%d", id(e.pw))
		}
	}
	return sb.String()
}

func fnv32(s string) uint32 {
	h := uint32(2166136261)
	for i := 0; i < len(s); i++ {
		h ^= uint32(s[i])
		h *= 16777619
	}
	return h
}

func (d *driver) digest() (string, []went) {
	w := d.walk()
	return fmt.Sprintf("W=%d:%08x", len(w), fnv32(dump(w))), w
}

// ---------------------------------------------------------------------------------------------
// error classes

func classOf(err error, table [][2]string) string {
	if err == nil {
		return "ok"
	}
	msg := err.Error()
	for _, t := range table {
		if strings.HasPrefix(msg, t[0]) {
			return t[1]
		}
	}
	return "other(" + strings.ReplaceAll(strings.ReplaceAll(msg, "\n", " "), " ", "_") + ")"
}

var storeClasses = [][2]string{
	{"keystore dir does not exist", "nodir"}, {"keystore dir is not a directory", "notdir"},
	{"encryption error", "encrypt"}, {"write keystore", "writeks"}, {"store password", "storepw"},
}

var loadClasses = [][2]string{
	{"no keys found", "nokeys"}, {"read file", "readfile"}, {"unmarshal keystore", "unmarshal"},
	{"load password", "loadpw"}, {"keystore decryption", "decrypt"}, {"extract file index", "extractidx"},
	{"walk directory", "walk"}, {"no password files found", "nopw"},
}

var seqClasses = [][2]string{
	{"unknown keystore index", "unknown"}, {"out of sequence keystore index", "outofseq"},
	{"duplicate keystore index", "dup"},
}

var mapClasses = [][2]string{
	{"public key share appears in more than one validator", "dupshare"}, {"private share to public share", "badshare"},
	{"public key share from provided private key share not found", "notfound"},
	{"multiple provided private key shares resolve", "multi"},
}

func intField(err error, key string) int {
	res := -1
	for _, f := range z.Fields(err) {
		f(func(zf zap.Field) {
			if zf.Key == key {
				res = int(zf.Integer)
			}
		})
	}
	return res
}

// ---------------------------------------------------------------------------------------------
// ops

func ints(s string) []int {
	if s == "-" || s == "" {
		return nil
	}
	var out []int
	for _, f := range strings.Split(s, ",") {
		v, err := strconv.Atoi(f)
		hx.Must(err)
		out = append(out, v)
	}
	return out
}

func joinInts(v []int) string {
	if len(v) == 0 {
		return "-"
	}
	s := make([]string, len(v))
	for i, x := range v {
		s[i] = strconv.Itoa(x)
	}
	return strings.Join(s, ",")
}

func (d *driver) touch(rel string) {
	for dir, st := range d.stored {
		if rel == dir || strings.HasPrefix(rel, dir+"/") {
			st.touched = true
		}
	}
}

// exec executes one op (without oracle suffix) and returns the op line to record and the canonical answer.
func (d *driver) exec(base string) (op string, out string) {
	defer func() {
		if r := recover(); r != nil {
			d.run.Violate("keystore:panic", fmt.Sprintf("%s: %v", base, r))
			op, out = base, "panic"
		}
	}()
	f := strings.Fields(base)
	if d.base == "" && f[0] != "cfg" { // an op list that does not start with cfg (minimised replay)
		d.run.Op(d.exec("cfg"))
	}
	d.run.Count("op:" + f[0])
	oracle := ""
	res := ""
	switch f[0] {
	case "cfg":
		if d.base != "" {
			_ = os.RemoveAll(d.base)
		}
		d.ep++
		d.base = filepath.Join(d.root, fmt.Sprintf("ep%d", d.ep))
		_ = os.RemoveAll(d.base)
		hx.Must(os.MkdirAll(d.base, 0o755))
		d.stored = map[string]*storedInfo{}
		// passwords and classifications of earlier episodes are of no use in a fresh world
		d.known, d.knownS, d.cls = nil, map[string]bool{}, map[[32]byte]classified{}
		res = "ok"
		oracle = "base=" + hex.EncodeToString([]byte(d.base))
	case "mkdir":
		res = okErr(os.Mkdir(d.abs(f[1]), 0o755))
		d.touch(f[1])
	case "put":
		res = d.opPut(f)
		d.touch(f[1])
	case "mv":
		res = okErr(os.Rename(d.abs(f[1]), d.abs(f[2])))
		d.touch(f[1])
		d.touch(f[2])
	case "cp":
		b, err := os.ReadFile(d.abs(f[1]))
		if err == nil {
			if st, e := os.Stat(d.abs(f[2])); e == nil && st.IsDir() {
				err = fmt.Errorf("is a directory")
			} else {
				_ = os.Remove(d.abs(f[2]))
				err = os.WriteFile(d.abs(f[2]), b, 0o444)
			}
		}
		res = okErr(err)
		d.touch(f[2])
	case "rm":
		res = okErr(os.Remove(d.abs(f[1])))
		d.touch(f[1])
	case "store":
		res, oracle = d.opStore(f)
	case "load":
		res, oracle = d.opLoad(f[1])
	case "loadrec":
		res, oracle = d.opLoadRec(f[1])
	case "idx":
		res = d.opIdx(f[1])
		return base, res
	case "k2v":
		res = d.opK2V(f[1], f[2])
		return base, res
	case "shareidx":
		res = d.opShareIdx(f[1], f[2])
		return base, res
	case "place":
		res = d.opPlace(f)
	case "ls":
		_, w := d.digest()
		return base, "ls " + dump(w)
	default:
		panic("unknown op " + base)
	}
	dg, _ := d.digest()
	op = base
	if oracle != "" {
		op += " ~ " + oracle
	}
	return op, res + " | " + dg
}

func okErr(err error) string {
	if err != nil {
		return "err"
	}
	return "ok"
}

// put <path> ks <secret> <q> | obj | lock | pw <q> | raw <hex>
func (d *driver) opPut(f []string) string {
	var b []byte
	switch f[2] {
	case "ks":
		s, _ := strconv.Atoi(f[3])
		q, _ := strconv.Atoi(f[4])
		b = craft(d.secret(s), pwText(q))
		d.learn(pwText(q))
	case "obj":
		b = []byte("{}")
	case "lock":
		b = []byte(`{"cluster_definition":{"name":"x","version":"v1.10.0"},"distributed_validators":[],"lock_hash":"0x00"}`)
	case "pw":
		q, _ := strconv.Atoi(f[3])
		b = []byte(pwText(q))
	default:
		panic("put kind")
	}
	p := d.abs(f[1])
	if st, err := os.Stat(p); err == nil && st.IsDir() {
		return "err"
	}
	_ = os.Remove(p) // files are written read-only; replace instead of truncating
	return okErr(os.WriteFile(p, b, 0o444))
}

func storeNames(insecure bool, i int) (string, string) {
	if insecure {
		return fmt.Sprintf("keystore-insecure-%d.json", i), fmt.Sprintf("keystore-insecure-%d.txt", i)
	}
	return fmt.Sprintf("keystore-%d.json", i), fmt.Sprintf("keystore-%d.txt", i)
}

// store <dir> <ins|sec> <secrets>
func (d *driver) opStore(f []string) (string, string) {
	dir, insecure, ids := f[1], f[2] == "ins", ints(f[3])
	adir := d.abs(dir)
	secrets := make([]tbls.PrivateKey, len(ids))
	for i, id := range ids {
		secrets[i] = d.secret(id)
	}
	before := map[string][32]byte{}
	clean := true
	if es, err := os.ReadDir(adir); err == nil {
		for _, e := range es {
			if ok, _ := filepath.Match("keystore-*.json", e.Name()); ok {
				clean = false
			}
			if b, err := os.ReadFile(filepath.Join(adir, e.Name())); err == nil {
				before[e.Name()] = sha256.Sum256(b)
			}
		}
	}
	var err error
	if insecure {
		err = keystore.StoreKeysInsecure(secrets, adir, keystore.ConfirmInsecureKeys)
	} else {
		err = keystore.StoreKeys(secrets, adir)
	}
	cl := classOf(err, storeClasses)
	d.run.Count("store:" + cl)
	if len(ids) >= 11 {
		d.run.Count("store:>=11")
	}
	// which keystore files were (re)written
	var wr []int
	for i := range ids {
		jn, _ := storeNames(insecure, i)
		b, e := os.ReadFile(filepath.Join(adir, jn))
		if e != nil {
			continue
		}
		if h, ok := before[jn]; !ok || h != sha256.Sum256(b) {
			wr = append(wr, i)
		}
	}
	d.touch(dir)
	if err != nil {
		delete(d.stored, dir)
		if cl == "nodir" || cl == "notdir" {
			return "err:" + cl, ""
		}
		return "err:" + cl, "wr=" + joinInts(wr) + " e=" + cl
	}
	// monitors on a successful store
	if !inert(adir) {
		d.stored[dir] = &storedInfo{secrets: ids, clean: clean}
		return "ok", ""
	}
	if len(wr) != len(ids) {
		d.run.Violate("keystore:store_wrong_files", fmt.Sprintf("store of %d secrets into %s succeeded, %d keystore files were written", len(ids), dir, len(wr)))
	}
	for i, id := range ids {
		jn, tn := storeNames(insecure, i)
		jb, e1 := os.ReadFile(filepath.Join(adir, jn))
		pb, e2 := os.ReadFile(filepath.Join(adir, tn))
		if e1 != nil || e2 != nil {
			d.run.Violate("keystore:store_wrong_files", fmt.Sprintf("store into %s succeeded, %s / %s missing", dir, jn, tn))
			continue
		}
		var ks keystore.Keystore
		if json.Unmarshal(jb, &ks) != nil {
			d.run.Violate("keystore:decrypt_roundtrip", fmt.Sprintf("%s/%s is not a keystore JSON", dir, jn))
			continue
		}
		sb, e := keystorev4.New().Decrypt(ks.Crypto, string(pb))
		if e != nil || !bytes.Equal(sb, secrets[i][:]) {
			d.run.Violate("keystore:decrypt_roundtrip", fmt.Sprintf("%s/%s does not decrypt to secret %d (position %d) with the password of %s: %v", dir, jn, id, i, tn, e))
		}
		if pk, e := tbls.SecretToPublicKey(secrets[i]); e == nil && ks.Pubkey != hex.EncodeToString(pk[:]) {
			d.run.Violate("keystore:pubkey_field", fmt.Sprintf("%s/%s: pubkey field is not the public key of the stored secret", dir, jn))
		}
	}
	d.stored[dir] = &storedInfo{secrets: ids, clean: clean}
	return "ok", ""
}

func showFiles(d *driver, kf keystore.KeyFiles) string {
	s := make([]string, len(kf))
	for i, k := range kf {
		s[i] = fmt.Sprintf("%s:%d:%d", d.rel(k.Filename), k.FileIndex, d.secID(k.PrivateKey))
	}
	if len(s) == 0 {
		return "-"
	}
	return strings.Join(s, ",")
}

func secIDs(d *driver, ks []tbls.PrivateKey) []int {
	out := make([]int, len(ks))
	for i, k := range ks {
		out[i] = d.secID(k)
	}
	return out
}

func sortedCopy(v []int) []int {
	c := append([]int(nil), v...)
	sort.Ints(c)
	return c
}

func eqInts(a, b []int) bool {
	if len(a) != len(b) {
		return false
	}
	for i := range a {
		if a[i] != b[i] {
			return false
		}
	}
	return true
}

// inert: nothing in the directory's own path is read by the file-name expression or by the ".json" -> ".txt"
// replacement (both work on the full path). The pattern text is copied here, charon's code is not used.
var pathPattern = regexp.MustCompile(`keystore-(?:insecure-)?([0-9]+).json`)

func inert(adir string) bool {
	return !strings.Contains(adir, ".json") && !pathPattern.MatchString(adir+"/")
}

// canonicalIndex: the index a file name carries by the naming scheme of StoreKeys (keystore-<n>.json /
// keystore-insecure-<n>.json, n in canonical decimal); -1 if the name is not of that form. Independent of the regexp.
func canonicalIndex(name string) int {
	if !strings.HasPrefix(name, "keystore-") || !strings.HasSuffix(name, ".json") {
		return -1
	}
	m := strings.TrimSuffix(strings.TrimPrefix(name, "keystore-"), ".json")
	m = strings.TrimPrefix(m, "insecure-")
	if m == "" || len(m) > 9 || (len(m) > 1 && m[0] == '0') {
		return -1
	}
	n := 0
	for _, c := range m {
		if c < '0' || c > '9' {
			return -1
		}
		n = n*10 + int(c-'0')
	}
	return n
}

// seqPart evaluates Keys / SequencedKeys of loaded files and the monitors on them.
func (d *driver) seqPart(where string, kf keystore.KeyFiles, classifiedSec map[string]int) string {
	keysOut := secIDs(d, kf.Keys())
	// Keys() is the secrets of the files in result order
	for i, k := range kf {
		if i < len(keysOut) && keysOut[i] != d.secID(k.PrivateKey) {
			d.run.Violate("keystore:keys_not_permutation", where+": Keys() differs from the files' keys")
		}
		if want, ok := classifiedSec[k.Filename]; ok && want != d.secID(k.PrivateKey) {
			if d.secID(k.PrivateKey) == 0 {
				d.run.Violate("keystore:zero_key_loaded", fmt.Sprintf("%s: %s was loaded as the all-zero key without error (its secret is %d)", where, d.rel(k.Filename), want))
			} else {
				d.run.Violate("keystore:loaded_wrong_secret", fmt.Sprintf("%s: %s loaded as secret %d, it holds %d", where, d.rel(k.Filename), d.secID(k.PrivateKey), want))
			}
		}
	}
	if len(keysOut) != len(kf) {
		d.run.Violate("keystore:keys_not_permutation", where+": Keys() has another length than the files")
	}
	seq, err := kf.SequencedKeys()
	cl := classOf(err, seqClasses)
	d.run.Count("seq:" + cl)
	// the property itself, judged on the indices the implementation reports
	cnt := map[int]int{}
	indexless, zeroDup := false, false
	byIdx := map[int][]int{}
	for _, k := range kf {
		if !k.HasIndex() {
			indexless = true
		}
		cnt[k.FileIndex]++
		byIdx[k.FileIndex] = append(byIdx[k.FileIndex], d.secID(k.PrivateKey))
	}
	exact := !indexless
	for i := 0; i < len(kf); i++ {
		if cnt[i] != 1 {
			exact = false
		}
	}
	for _, ss := range byIdx {
		if len(ss) > 1 {
			for _, s := range ss {
				if s == 0 {
					zeroDup = true
				}
			}
		}
	}
	if err == nil {
		switch {
		case indexless:
			d.run.Violate("keystore:indexless_accepted", where+": SequencedKeys accepted a file without index")
		case !exact && zeroDup:
			d.run.Violate("keystore:zero_key_duplicate_index_accepted", where+": SequencedKeys accepted two files with the same index, one of them holding the all-zero key; the result contains a zero key in the slot of the missing index")
		case !exact:
			dup := false
			for _, c := range cnt {
				if c > 1 {
					dup = true
				}
			}
			if dup {
				d.run.Violate("keystore:duplicate_index_accepted", where+": SequencedKeys accepted a duplicate index")
			} else {
				d.run.Violate("keystore:gap_accepted", where+": SequencedKeys accepted indices that are not 0..k-1")
			}
		default:
			for _, k := range kf {
				if k.FileIndex < len(seq) && seq[k.FileIndex] != k.PrivateKey {
					d.run.Violate("keystore:seq_wrong_order", fmt.Sprintf("%s: SequencedKeys()[%d] is not the key of the file with index %d", where, k.FileIndex, k.FileIndex))
				}
			}
		}
		if len(seq) != len(kf) {
			d.run.Violate("keystore:seq_dropped_or_added", where+": SequencedKeys returned another number of keys than files")
		}
	} else if exact {
		d.run.Violate("keystore:valid_sequence_rejected", where+": indices are exactly 0..k-1, SequencedKeys failed: "+cl)
	}
	sq := "err:" + cl
	if err == nil {
		sq = "ok:" + joinInts(secIDs(d, seq))
	}
	return "keys=" + joinInts(keysOut) + " seq=" + sq
}

// load <dir>
func (d *driver) opLoad(dir string) (string, string) {
	adir := d.abs(dir)
	kf, err := keystore.LoadFilesUnordered(adir)
	cl := classOf(err, loadClasses)
	d.run.Count("load:" + cl)
	st := d.stored[dir]
	if err != nil {
		if st != nil && st.clean && !st.touched && len(st.secrets) > 0 && inert(adir) {
			d.run.Violate("keystore:roundtrip_load_failed", fmt.Sprintf("load of %s right after a store of %d secrets failed: %v", dir, len(st.secrets), err))
		}
		return "err:" + cl, "e=" + cl
	}
	// sorted glob list, computed independently
	var names []string
	es, _ := os.ReadDir(adir)
	for _, e := range es {
		if ok, _ := filepath.Match("keystore-*.json", e.Name()); ok {
			names = append(names, filepath.Join(adir, e.Name()))
		}
	}
	sort.Strings(names)
	pos := map[string]int{}
	for i, n := range names {
		pos[n] = i
	}
	if len(kf) != len(names) {
		d.run.Violate("keystore:load_dropped_or_added", fmt.Sprintf("load %s: %d files match, %d loaded", dir, len(names), len(kf)))
	}
	ord := make([]int, len(kf))
	inOrder := true
	classifiedSec := map[string]int{}
	for i, k := range kf {
		p, ok := pos[k.Filename]
		if !ok {
			d.run.Violate("keystore:load_dropped_or_added", fmt.Sprintf("load %s: %s is not a matching file", dir, d.rel(k.Filename)))
			p = 999
		}
		ord[i] = p
		if p != i {
			inOrder = false
		}
		if b, e := os.ReadFile(k.Filename); e == nil {
			if c := d.classify(k.Filename, b); c.kind == 'K' {
				classifiedSec[k.Filename] = c.sec
			}
		}
		if ci := canonicalIndex(filepath.Base(k.Filename)); ci >= 0 && inert(adir) && k.FileIndex != ci {
			d.run.Violate("keystore:file_index_differs_from_name", fmt.Sprintf("%s has FileIndex %d", d.rel(k.Filename), k.FileIndex))
		}
	}
	if !inOrder {
		d.run.Count("load:arrival_order_not_glob_order")
	}
	if len(kf) >= 11 {
		d.run.Count("load:>=11")
	}
	sp := d.seqPart("load "+dir, kf, classifiedSec)
	if st != nil && st.clean && !st.touched && inert(adir) {
		seq, e := kf.SequencedKeys()
		if e != nil || !eqInts(secIDs(d, seq), st.secrets) {
			d.run.Violate("keystore:roundtrip_order_changed", fmt.Sprintf("store %v into %s, then LoadFilesUnordered.SequencedKeys = %v (%v)", st.secrets, dir, secIDs(d, seq), e))
		}
		if !eqInts(sortedCopy(secIDs(d, kf.Keys())), sortedCopy(st.secrets)) {
			d.run.Violate("keystore:keys_not_permutation", fmt.Sprintf("store %v into %s, then Keys() = %v", st.secrets, dir, secIDs(d, kf.Keys())))
		}
		if !eqInts(secIDs(d, kf.Keys()), st.secrets) {
			d.run.Count("observed:keys_unsequenced_order_differs_from_stored")
		}
		d.run.Case(fmt.Sprintf("roundtrip:%d", len(st.secrets)))
	}
	return "ok files=" + showFiles(d, kf) + " " + sp, "ord=" + joinInts(ord)
}

// loadrec <dir>
func (d *driver) opLoadRec(dir string) (string, string) {
	adir := d.abs(dir)
	kf, err := keystore.LoadFilesRecursively(adir)
	cl := classOf(err, loadClasses)
	d.run.Count("loadrec:" + cl)
	if err != nil {
		return "err:" + cl, "e=" + cl
	}
	// the valid files, independently: every *.json below dir that unmarshals
	var names []string
	ntxt := 0
	_ = filepath.Walk(adir, func(p string, info os.FileInfo, err error) error {
		if err != nil || info.IsDir() {
			return nil
		}
		if strings.HasSuffix(info.Name(), ".json") {
			b, _ := os.ReadFile(p)
			var ks keystore.Keystore
			if json.Unmarshal(b, &ks) == nil {
				names = append(names, p)
			}
		} else if strings.HasSuffix(info.Name(), ".txt") {
			ntxt++
		}
		return nil
	})
	sort.Strings(names)
	pos := map[string]int{}
	for i, n := range names {
		pos[n] = i
	}
	if len(kf) != len(names) {
		d.run.Violate("keystore:load_dropped_or_added", fmt.Sprintf("loadrec %s: %d keystore files, %d loaded", dir, len(names), len(kf)))
	}
	var ord []string
	classifiedSec := map[string]int{}
	seen := map[int]bool{}
	for _, k := range kf {
		p, ok := pos[k.Filename]
		if !ok {
			d.run.Violate("keystore:load_dropped_or_added", fmt.Sprintf("loadrec %s: %s is not a keystore file below it", dir, d.rel(k.Filename)))
			p = 999
		}
		ord = append(ord, fmt.Sprintf("%d:%d", p, k.FileIndex))
		if k.FileIndex < 1 || k.FileIndex > len(kf) || seen[k.FileIndex] {
			d.run.Violate("keystore:recursive_index_not_a_permutation", fmt.Sprintf("loadrec %s: FileIndex %d", dir, k.FileIndex))
		}
		seen[k.FileIndex] = true
		if b, e := os.ReadFile(k.Filename); e == nil {
			if c := d.classify(k.Filename, b); c.kind == 'K' {
				classifiedSec[k.Filename] = c.sec
			} else if d.secID(k.PrivateKey) == 0 {
				if ntxt == 0 {
					d.run.Violate("keystore:recursive_zero_key_without_password_files", fmt.Sprintf("loadrec %s: no .txt file below it, %s returned as the all-zero key without error", dir, d.rel(k.Filename)))
				} else {
					d.run.Violate("keystore:zero_key_loaded", fmt.Sprintf("loadrec %s: %s returned as the all-zero key", dir, d.rel(k.Filename)))
				}
			}
		}
	}
	// with no password file at all the code returns zero keys: specific signature
	if ntxt == 0 {
		for _, k := range kf {
			if want, ok := classifiedSec[k.Filename]; ok && want != 0 && d.secID(k.PrivateKey) == 0 {
				d.run.Violate("keystore:recursive_zero_key_without_password_files", fmt.Sprintf("loadrec %s: no .txt file below it, %s (secret %d) returned as the all-zero key without error", dir, d.rel(k.Filename), want))
				delete(classifiedSec, k.Filename)
			}
		}
	}
	sp := d.seqPart("loadrec "+dir, kf, classifiedSec)
	o := "-"
	if len(ord) > 0 {
		o = strings.Join(ord, ",")
	}
	return "ok files=" + showFiles(d, kf) + " " + sp, "ord=" + o
}

// idx <hex of the string>
func (d *driver) opIdx(hx_ string) string {
	if hx_ == "-" {
		hx_ = ""
	}
	b, err := hex.DecodeString(hx_)
	hx.Must(err)
	s := string(b)
	i, e := keystore.VerifExtractFileIndex(s)
	if e != nil {
		d.run.Count("idx:err")
		return "err"
	}
	if i == -1 {
		d.run.Count("idx:none")
	} else {
		d.run.Count("idx:some")
		d.run.Case("idx:" + s)
	}
	// canonical names carry their own index
	if ci := canonicalIndex(s); ci >= 0 && i != ci {
		d.run.Violate("keystore:file_index_differs_from_name", fmt.Sprintf("extractFileIndex(%q) = %d", s, i))
	}
	return strconv.Itoa(i)
}

type lockSpec struct {
	vids   []int
	shares [][]int
}

func parseLock(s string) lockSpec {
	var l lockSpec
	if s == "-" {
		return l
	}
	for _, v := range strings.Split(s, ";") {
		p := strings.SplitN(v, ":", 2)
		id, err := strconv.Atoi(p[0])
		hx.Must(err)
		l.vids = append(l.vids, id)
		l.shares = append(l.shares, ints(p[1]))
	}
	return l
}

func (d *driver) buildLock(l lockSpec) cluster.Lock {
	var lock cluster.Lock
	for i, vid := range l.vids {
		pk := d.pub(vid)
		dv := cluster.DistValidator{PubKey: append([]byte(nil), pk[:]...)}
		for _, s := range l.shares[i] {
			ps := d.pub(s)
			dv.PubShares = append(dv.PubShares, append([]byte(nil), ps[:]...))
		}
		lock.Validators = append(lock.Validators, dv)
	}
	return lock
}

// k2v <lock> <shares>: KeysharesToValidatorPubkey
func (d *driver) opK2V(ls, ss string) string {
	l := parseLock(ls)
	shares := ints(ss)
	lock := d.buildLock(l)
	secrets := make([]tbls.PrivateKey, len(shares))
	for i, s := range shares {
		secrets[i] = d.secret(s)
	}
	res, err := keystore.KeysharesToValidatorPubkey(lock, secrets)
	return d.judgeK2V("k2v", l, shares, res, err)
}

// judgeK2V: canonical answer plus the monitors (the three error conditions recomputed from the spec, on ids).
func (d *driver) judgeK2V(where string, l lockSpec, shares []int, res keystore.ValidatorShares, err error) string {
	cl := classOf(err, mapClasses)
	d.run.Count("k2v:" + cl)
	// expected verdict
	owner := map[int]int{}
	cross := false
	for i, vid := range l.vids {
		for _, s := range l.shares[i] {
			if o, ok := owner[s]; ok && o != vid {
				cross = true
			}
			owner[s] = vid
		}
	}
	want := "ok"
	if cross {
		want = "dupshare"
	} else {
		used := map[int]bool{}
		for _, s := range shares {
			if s == 0 {
				want = "badshare"
				break
			}
			o, ok := owner[s]
			if !ok {
				want = "notfound"
				break
			}
			if used[o] {
				want = "multi"
				break
			}
			used[o] = true
		}
	}
	if want != cl {
		d.run.Violate("keystore:k2v_verdict", fmt.Sprintf("%s: KeysharesToValidatorPubkey answered %s, the three error conditions give %s", where, cl, want))
	}
	if err != nil {
		if cl == "notfound" || cl == "multi" {
			return fmt.Sprintf("err:%s@%d", cl, intField(err, "share_index"))
		}
		return "err:" + cl
	}
	type pair struct{ v, s, idx int }
	var ps []pair
	usedShare := map[int]int{}
	for pk, ks := range res {
		vid, ok := d.pubHex[string(pk)]
		if !ok {
			d.run.Violate("keystore:share_mapped_to_wrong_validator", where+": result names a validator that is not in the lock")
			vid = -1
		}
		sid := d.secID(ks.Share)
		ps = append(ps, pair{vid, sid, ks.Index})
		usedShare[sid]++
		// pub(share) must be one of the public shares of that validator in the lock (on the real bytes)
		pub, e := tbls.SecretToPublicKey(ks.Share)
		found := false
		for i, v := range l.vids {
			if v != vid || e != nil {
				continue
			}
			for _, s := range l.shares[i] {
				if d.pub(s) == pub {
					found = true
				}
			}
		}
		if !found {
			d.run.Violate("keystore:share_mapped_to_wrong_validator", fmt.Sprintf("%s: validator %d is given share %d whose public key is not among its public shares", where, vid, sid))
		}
		if ks.Index < 1 || ks.Index > len(shares) || shares[ks.Index-1] != sid {
			d.run.Violate("keystore:share_index_not_position", fmt.Sprintf("%s: Index %d is not the position+1 of share %d", where, ks.Index, sid))
		}
	}
	if len(res) != len(shares) {
		d.run.Violate("keystore:share_dropped", fmt.Sprintf("%s: %d shares in, %d validators out", where, len(shares), len(res)))
	}
	for s, c := range usedShare {
		if c != 1 {
			d.run.Violate("keystore:share_dropped", fmt.Sprintf("%s: share %d used %d times", where, s, c))
		}
	}
	sort.Slice(ps, func(i, j int) bool { return ps[i].v < ps[j].v })
	out := make([]string, len(ps))
	for i, p := range ps {
		out[i] = fmt.Sprintf("%d=%d@%d", p.v, p.s, p.idx)
	}
	if len(out) == 0 {
		return "ok -"
	}
	return "ok " + strings.Join(out, ",")
}

func k1Key(id int) *k1.PrivateKey {
	h := sha256.Sum256([]byte("verif-keystore-k1-" + strconv.Itoa(id)))
	return k1.PrivKeyFromBytes(h[:])
}

// shareidx <operator key ids, x = unparsable ENR> <identity key id>
func (d *driver) opShareIdx(ops, key string) string {
	var lock cluster.Lock
	var ids []int
	bad := false
	if ops != "-" {
		for _, o := range strings.Split(ops, ",") {
			if o == "x" {
				bad = true
				lock.Operators = append(lock.Operators, cluster.Operator{ENR: "enr:-garbage"})
				ids = append(ids, -1)
				continue
			}
			id, _ := strconv.Atoi(o)
			r, err := enr.New(k1Key(id))
			hx.Must(err)
			lock.Operators = append(lock.Operators, cluster.Operator{ENR: r.String()})
			ids = append(ids, id)
		}
	}
	seenOp := map[int]bool{}
	for _, id := range ids {
		if id >= 0 && seenOp[id] {
			bad = true // cluster.Definition.Peers rejects duplicate peer ids
		}
		seenOp[id] = true
	}
	kid, _ := strconv.Atoi(key)
	got, err := keystore.ShareIdxForCluster(lock, *k1Key(kid).PubKey())
	want := -1
	for i, id := range ids {
		if id == kid {
			want = i + 1
			break
		}
	}
	if err != nil {
		cl := "notfound"
		if strings.HasPrefix(err.Error(), "cluster peer ids") {
			cl = "peers"
		} else if !strings.HasPrefix(err.Error(), "node index for loaded enr not found") {
			cl = "other"
		}
		d.run.Count("shareidx:" + cl)
		if !bad && want != -1 {
			d.run.Violate("keystore:share_idx_wrong", fmt.Sprintf("shareidx %s %s: error %v, operator position is %d", ops, key, err, want))
		}
		return "err:" + cl
	}
	d.run.Count("shareidx:ok")
	if int(got) != want {
		d.run.Violate("keystore:share_idx_wrong", fmt.Sprintf("shareidx %s %s = %d, operator position + 1 is %d", ops, key, got, want))
	}
	return "ok " + strconv.FormatUint(got, 10)
}

// place <base> <V> <N> <T> <ins|sec> <dir>: create-cluster's placement. V validator keys are split into N shares
// (real tbls.ThresholdSplit), node i's directory <dir>/n<i> gets share i+1 of validator k at position k
// (writeKeysToDisk), the lock lists the public shares; then every node loads its directory the way charon does
// (LoadFilesUnordered, SequencedKeys, KeysharesToValidatorPubkey) and must find for every validator its own share.
// ids: validator k = base+100k, its share i (1-based) = base+100k+i.
func (d *driver) opPlace(f []string) string {
	base, _ := strconv.Atoi(f[1])
	V, _ := strconv.Atoi(f[2])
	N, _ := strconv.Atoi(f[3])
	T, _ := strconv.Atoi(f[4])
	insecure := f[5] == "ins"
	dir := f[6]
	var l lockSpec
	shares := make([][]tbls.PrivateKey, V) // [validator][node]
	for k := 0; k < V; k++ {
		root, err := tbls.GenerateInsecureKey(new(testing.T), d.rnd)
		hx.Must(err)
		d.register(base+100*k, root)
		sh, err := tbls.ThresholdSplitInsecure(new(testing.T), root, uint(N), uint(T), d.rnd)
		hx.Must(err)
		var ids []int
		for i := 1; i <= N; i++ {
			d.register(base+100*k+i, sh[i])
			shares[k] = append(shares[k], sh[i])
			ids = append(ids, base+100*k+i)
		}
		l.vids = append(l.vids, base+100*k)
		l.shares = append(l.shares, ids)
		// C12: any threshold of the shares recombines to the validator key (one random subset per validator)
		sub := map[int]tbls.PrivateKey{}
		for _, i := range d.rnd.Perm(N)[:T] {
			sub[i+1] = sh[i+1]
		}
		if rec, err := tbls.RecoverSecret(sub, uint(N), uint(T)); err != nil || rec != root {
			d.run.Violate("keystore:recombine", fmt.Sprintf("place: validator %d: a threshold subset of the stored shares does not recombine to the validator key: %v", k, err))
		}
	}
	lock := d.buildLock(l)
	d.run.Count(fmt.Sprintf("place:V%s", bucket(V)))
	var out []string
	if err := os.Mkdir(d.abs(dir), 0o755); err != nil {
		return "err:mkdir"
	}
	for i := 0; i < N; i++ {
		nd := filepath.Join(d.abs(dir), fmt.Sprintf("n%d", i))
		hx.Must(os.Mkdir(nd, 0o755))
		var secrets []tbls.PrivateKey
		for k := 0; k < V; k++ {
			secrets = append(secrets, shares[k][i])
		}
		var err error
		if insecure {
			err = keystore.StoreKeysInsecure(secrets, nd, keystore.ConfirmInsecureKeys)
		} else {
			err = keystore.StoreKeys(secrets, nd)
		}
		if err != nil {
			d.run.Violate("keystore:roundtrip_load_failed", fmt.Sprintf("place: store for node %d failed: %v", i, err))
			out = append(out, "storeerr")
			continue
		}
	}
	for i := 0; i < N; i++ {
		nd := filepath.Join(d.abs(dir), fmt.Sprintf("n%d", i))
		kf, err := keystore.LoadFilesUnordered(nd)
		if err != nil {
			if V > 0 {
				d.run.Violate("keystore:roundtrip_load_failed", fmt.Sprintf("place: load for node %d failed: %v", i, err))
			}
			out = append(out, "err:"+classOf(err, loadClasses))
			continue
		}
		seq, err := kf.SequencedKeys()
		if err != nil {
			d.run.Violate("keystore:roundtrip_order_changed", fmt.Sprintf("place: SequencedKeys for node %d failed: %v", i, err))
			out = append(out, "err:"+classOf(err, seqClasses))
			continue
		}
		for k := 0; k < V && k < len(seq); k++ {
			if seq[k] != shares[k][i] {
				d.run.Violate("keystore:roundtrip_order_changed", fmt.Sprintf("place: node %d position %d is not share %d of validator %d", i, k, i+1, k))
			}
		}
		res, err := keystore.KeysharesToValidatorPubkey(lock, seq)
		ans := d.judgeK2V(fmt.Sprintf("place node %d", i), l, secIDs(d, seq), res, err)
		if err == nil {
			for k := 0; k < V; k++ {
				pk := d.pub(base + 100*k)
				got, ok := res[core.PubKeyFrom48Bytes(pk)]
				if !ok || got.Share != shares[k][i] {
					d.run.Violate("keystore:share_mapped_to_wrong_validator", fmt.Sprintf("place: node %d: validator %d is not mapped to its own share %d", i, k, i+1))
				}
			}
		}
		out = append(out, ans)
	}
	return strings.Join(out, " / ")
}

func bucket(n int) string {
	switch {
	case n == 0:
		return "0"
	case n < 11:
		return "1-10"
	default:
		return ">=11"
	}
}

func main() {
	args := hx.ParseArgs()
	run := hx.NewRun(args.Dir)
	defer run.Close()
	root, err := filepath.Abs(filepath.Join(args.Dir, "world"))
	hx.Must(err)
	if strings.HasPrefix(root, os.TempDir()+string(os.PathSeparator)) {
		panic("refusing to work below the system temp dir")
	}
	d := &driver{run: run, root: root, secBy: map[int]tbls.PrivateKey{}, idBy: map[tbls.PrivateKey]int{},
		pubHex: map[string]int{}, knownS: map[string]bool{}, cls: map[[32]byte]classified{},
		stored: map[string]*storedInfo{}, rnd: rand.New(rand.NewSource(int64(args.Seed)))}
	defer func() { _ = os.RemoveAll(root) }()
	do := func(base string) {
		run.Begin(base)
		op, out := d.exec(base)
		run.Op(op, out)
	}
	if args.Mode == "exec" {
		for _, l := range hx.ReadOps(args.Ops) {
			if i := strings.Index(l, " ~ "); i >= 0 {
				l = l[:i]
			}
			do(strings.TrimSpace(l))
		}
		return
	}
	gen(d, hx.NewRng(args.Seed), args.N, do)
}
